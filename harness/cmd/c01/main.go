// c01: exported keystore restores the same wallet identity and keys.
// Part A: seeded histories with export / delete / import / passphrase changes in the same wallet (engine oracles:
// imported keystore == exported snapshot, rejected import leaves memory and store unchanged, imported keys sign).
// Part B (after each history): every export is imported into ANOTHER wallet (with 0-2 other keystores), checked for
// identity, indices, keys and signing; wrong passphrases (6 kinds), duplicates and every single-field corruption of
// the file must be rejected with the target wallet unchanged.
package main

import (
	"encoding/binary"
	"encoding/hex"
	"encoding/json"
	"fmt"
	"os"
	"path/filepath"
	"strings"
	"time"

	"verif/harness/internal/vh"
	"verif/harness/internal/wl"
)

// scryptDemand returns the memory (bytes) and work (N*r*p) the scrypt parameters inside a (tampered) keystore file ask for.
func scryptDemand(js []byte) (mem, work uint64) {
	var f struct {
		Crypto struct {
			PubParams  string `json:"pubParams"`
			PrivParams string `json:"privParams"`
		} `json:"crypto"`
	}
	if json.Unmarshal(js, &f) != nil {
		return 0, 0
	}
	for _, h := range []string{f.Crypto.PrivParams, f.Crypto.PubParams} {
		b, err := hex.DecodeString(h)
		if err != nil || len(b) != 88 {
			continue
		}
		n, r, p := binary.LittleEndian.Uint64(b[64:72]), binary.LittleEndian.Uint64(b[72:80]), binary.LittleEndian.Uint64(b[80:88])
		if n > 1<<40 || r > 1<<40 || p > 1<<40 {
			return 1 << 62, 1 << 62
		}
		if m := 128 * n * r; m > mem {
			mem = m
		}
		if w := n * r * p; w > work {
			work = w
		}
	}
	return
}

// tamperChild imports one keystore file into a fresh wallet in this (expendable) process.
// exit 0 = rejected, 10 = accepted; anything else = the process died.
func tamperChild(args []string) {
	dir, err := os.MkdirTemp("", "verif-c01-child-")
	if err != nil {
		os.Exit(3)
	}
	defer os.RemoveAll(dir)
	wl.Setup(filepath.Join(dir, "log"), "error")
	js, err := os.ReadFile(args[0])
	if err != nil {
		os.Exit(3)
	}
	w, err := wl.Create(filepath.Join(dir, "ks"), []byte("childpublicpass01"), nil)
	if err != nil {
		os.Exit(3)
	}
	var np []byte
	if len(args) > 2 {
		np = []byte(args[2])
	}
	fmt.Println("IMPORTING")
	_, _, err = w.M.ImportKeystore(js, []byte(args[1]), np)
	w.Close()
	if err != nil {
		fmt.Println("REJECTED:", err)
		os.RemoveAll(dir)
		os.Exit(0)
	}
	fmt.Println("ACCEPTED")
	os.RemoveAll(dir)
	os.Exit(10)
}

// importInChild runs a dangerous-looking tampered import in a child process under an address-space limit.
func importInChild(run *vh.Run, e *wl.Env, tc wl.Tamper, pass, np []byte, seq int) {
	f := filepath.Join(e.Dir, fmt.Sprintf("tamper-%d.json", seq))
	os.WriteFile(f, tc.JSON, 0o600)
	defer os.Remove(f)
	out := f + ".out"
	defer os.Remove(out)
	argv := []string{"sh", "-c", `ulimit -v 4000000; exec "$@"`, "sh", os.Args[0], "-tamper-child", f, string(pass)}
	if len(np) > 0 {
		argv = append(argv, string(np))
	}
	res := vh.RunChild(argv, nil, out, 120*time.Second)
	run.Count("tampered_imports_in_child_process", 1)
	at := map[string]string{"field": tc.Field}
	det := map[string]interface{}{"mutation": tc.Mutation, "file": string(tc.JSON), "exit": res.ExitCode, "signal": res.Signal}
	switch {
	case res.TimedOut:
		run.Drop("tampered import in child still running after 120 s (cost parameters)")
	case res.ExitCode == 0:
		run.Count("tampered_imports_rejected", 1)
	case res.ExitCode == 10:
		e.Report([]string{"C01"}, "tampered-file-accepted", at, det)
	default:
		det["fatal"] = vh.ScanFatal(out, 6)
		e.Report([]string{"C01"}, "tampered-file-crashes-process", at, det)
	}
}

func crossWallet(run *vh.Run, e *wl.Env) {
	if len(e.M.Exports) == 0 {
		return
	}
	rng := e.Rng
	// up to two exports of this history, preferring the latest
	picks := []int{len(e.M.Exports) - 1}
	if len(e.M.Exports) > 1 {
		picks = append(picks, rng.Intn(len(e.M.Exports)-1))
	}
	for pi, xi := range picks {
		ex := e.M.Exports[xi]
		dir := filepath.Join(e.Dir, fmt.Sprintf("target-%d", pi))
		os.MkdirAll(dir, 0o755)
		te, err := wl.NewEnv(run, "C01", e.CaseIdx, rng, dir)
		if err != nil {
			run.Drop("cannot create target wallet")
			continue
		}
		te.Trace = append(append([]string{}, e.Trace...), fmt.Sprintf("--- target wallet, export #%d of %s ---", xi, ex.ID))
		// other keystores in the target: they fix the target's private passphrase
		others := rng.Intn(3)
		samePass := rng.Bool()
		var tpass []byte
		if others > 0 {
			if samePass {
				tpass = append([]byte{}, ex.Pass...)
			} else {
				tpass = wl.FreshPass(rng)
			}
			for k := 0; k < others; k++ {
				if _, err := te.W.M.NewKeystore(tpass, rng.Bytes(32), "other", wl.Net(), wl.FastScrypt); err != nil {
					run.Drop("cannot prepare target keystore")
				}
			}
			// tell the model
			snap := te.W.Snapshot()
			for _, ks := range snap.Ks {
				te.M.Ks[ks.ID] = &wl.MKs{ID: ks.ID, Remark: ks.Remark}
				te.M.Order = append(te.M.Order, ks.ID)
			}
			te.M.Priv = tpass
			if rng.Bool() {
				te.W.M.Unlock(tpass)
				te.M.Locked = false
			}
		}
		var newPass []byte
		if others > 0 && !samePass {
			newPass = tpass
		} else if rng.Chance(1, 3) && others == 0 {
			newPass = wl.FreshPass(rng) // re-key on import
		}
		effPass := newPass
		if len(newPass) == 0 {
			effPass = ex.Pass
		}
		snap0 := te.W.Snapshot()
		dump0, _ := wl.Dump(te.W.Raw)
		try := func(js, old, np []byte) (string, error) {
			id, _, err := te.W.M.ImportKeystore(js, old, np)
			return id, err
		}
		restore := func(id string) bool {
			// an accepted bad import: remove it again so that the sweep can go on
			pass := te.M.Priv
			if pass == nil {
				pass = effPass
			}
			for _, p := range [][]byte{pass, effPass, ex.Pass} {
				if ok, err := te.W.M.DeleteKeystore(id, p); ok && err == nil {
					return wl.Diff(snap0, te.W.Snapshot()) == ""
				}
			}
			return false
		}
		broken := false
		// 1. wrong passphrases
		wrongs := map[string][]byte{
			"other": wl.FreshPass(rng), "public-of-source": e.M.Pub, "public-of-target": te.M.Pub, "ill-formed": []byte("no"), "empty": {},
			"current+1char":                       append(append([]byte{}, ex.Pass...), 'x'),
			"current+NUL":                         append(append([]byte{}, ex.Pass...), 0),
			"current+NUL:explicit-new-passphrase": append(append([]byte{}, ex.Pass...), 0, 0),
		}
		for i, p := range e.M.OldPriv {
			if string(p) != string(ex.Pass) {
				wrongs[fmt.Sprintf("superseded-%d", i)] = p
				break
			}
		}
		for cls, p := range wrongs {
			if broken {
				break
			}
			if string(p) == string(ex.Pass) {
				continue
			}
			np := newPass
			if cls == "current+NUL:explicit-new-passphrase" {
				np = effPass // spelled out, and well-formed: only the file's passphrase is wrong
			}
			id, err := try(ex.JSON, p, np)
			run.Count("wrong_passphrase_imports", 1)
			if err == nil {
				te.Report([]string{"C01", "C03"}, "import-with-wrong-passphrase-accepted", map[string]string{"old_class": cls, "target": "other-wallet"}, nil)
				broken = !restore(id)
			} else {
				te.CheckUnchanged(te.W, snap0, dump0, "rejected-import-changed-wallet", map[string]string{"reason": "wrong-passphrase", "old_class": cls})
			}
		}
		// 2. every single-field corruption
		cases, err := wl.TamperCases(ex.JSON, rng)
		if err != nil {
			te.Report([]string{"C01"}, "export-is-not-valid-json", nil, map[string]interface{}{"err": err.Error()})
		}
		for ti, tc := range cases {
			if broken {
				break
			}
			run.Count("tampered_imports", 1)
			run.Count("tamper_field:"+tc.Field, 1)
			if mem, work := scryptDemand(tc.JSON); mem > 64<<20 || work > 1<<22 || strings.HasPrefix(tc.Mutation, "cost:") {
				// corrupted cost parameters: an in-process attempt could exhaust memory and take the monitor down
				importInChild(run, te, tc, ex.Pass, newPass, ti)
				continue
			}
			id, err := try(tc.JSON, ex.Pass, newPass)
			if err == nil {
				got := te.W.Snapshot().Get(id)
				effect := "imported-keystore-identical-to-original"
				want := ex.Snap
				if d := wl.DiffKs(got, &want); d != "" {
					effect = "imported-keystore-differs: " + d
				}
				te.Report([]string{"C01"}, "tampered-file-accepted", map[string]string{"field": tc.Field}, map[string]interface{}{"mutation": tc.Mutation, "effect": effect, "file": string(tc.JSON)})
				broken = !restore(id)
				if broken {
					run.Count("target_wallet_rebuilt_after_accepted_tamper", 1)
				}
			} else {
				run.Count("tampered_imports_rejected", 1)
				te.CheckUnchanged(te.W, snap0, dump0, "rejected-import-changed-wallet", map[string]string{"reason": "tampered", "field": tc.Field})
			}
		}
		if broken {
			te.Close()
			continue
		}
		// 3. the good import
		id, err := try(ex.JSON, ex.Pass, newPass)
		if err != nil {
			te.Report([]string{"C01"}, "valid-import-into-other-wallet-rejected", map[string]string{"others": fmt.Sprint(others), "same_pass": fmt.Sprint(samePass), "rekey": fmt.Sprint(len(newPass) > 0)}, map[string]interface{}{"err": err.Error()})
			te.Close()
			continue
		}
		run.Count("cross_wallet_imports", 1)
		got := te.W.Snapshot().Get(id)
		want := ex.Snap
		if d := wl.DiffKs(got, &want); d != "" {
			te.Report([]string{"C01"}, "imported-keystore-differs-from-exported", map[string]string{"diff": "cross-wallet"}, map[string]interface{}{"diff": d})
		}
		// ordinals
		for _, k := range want.Keys {
			ord, ok := te.W.M.GetPublicKeyOrdinal(wl.ParsePub(k.Pub))
			if !ok || ord != k.Index {
				te.Report([]string{"C01"}, "imported-key-ordinal-differs", nil, map[string]interface{}{"pub": k.Pub, "ordinal": ord, "index": k.Index})
			}
		}
		// 4. duplicate
		snap1 := te.W.Snapshot()
		dump1, _ := wl.Dump(te.W.Raw)
		if _, err := try(ex.JSON, ex.Pass, newPass); err == nil {
			te.Report([]string{"C01"}, "import-of-present-keystore-accepted", map[string]string{"target": "other-wallet"}, nil)
		} else {
			te.CheckUnchanged(te.W, snap1, dump1, "rejected-import-changed-wallet", map[string]string{"reason": "already-present"})
			run.Count("duplicate_imports_rejected", 1)
		}
		// 5. unlock and sign with every imported key
		var uerr error
		if te.W.M.IsLocked() { // (Unlock on an already unlocked wallet is not part of the statement)
			uerr = te.W.M.Unlock(effPass)
		}
		if uerr != nil {
			te.Report([]string{"C01"}, "unlock-after-import-failed", nil, map[string]interface{}{"err": uerr.Error()})
		} else {
			for _, k := range want.Keys {
				pk := wl.ParsePub(k.Pub)
				digest := rng.Bytes(32)
				sig, err := te.W.M.SignHash(pk, digest)
				if err != nil || sig == nil || !sig.Verify(digest, pk) {
					te.Report([]string{"C01"}, "imported-key-cannot-sign", map[string]string{"branch": fmt.Sprint(k.Branch)}, map[string]interface{}{"pub": k.Pub, "err": fmt.Sprint(err)})
				}
				run.Count("imported_keys_signed", 1)
			}
			// next keys continue where the export stopped
			if ex.D != nil {
				for br := uint32(0); br < 2; br++ {
					n := uint32(0)
					for _, k := range want.Keys {
						if k.Branch == br {
							n++
						}
					}
					mas, err := te.W.M.NextAddresses(id, br == 1, 1)
					if err == nil && len(mas) == 1 {
						if g := fmt.Sprintf("%x", mas[0].PubKey().SerializeCompressed()); g != ex.D.PubHex(br, n) {
							te.Report([]string{"C01"}, "next-key-after-import-differs", map[string]string{"branch": fmt.Sprint(br)}, map[string]interface{}{"got": g, "want": ex.D.PubHex(br, n), "index": n})
						}
						run.Count("next_keys_after_import_compared", 1)
					}
				}
			}
		}
		te.Close()
	}
}

func main() {
	if len(os.Args) > 3 && os.Args[1] == "-tamper-child" {
		tamperChild(os.Args[2:])
	}
	run := vh.NewRun("C01", "exploration")
	wl.Setup(filepath.Join(run.Scratch, "log"), "error")
	wl.RunHistories(run, wl.HistOpts{
		Prop: "C01", N: run.N(40, 600), MinSteps: run.N(10, 14), MaxSteps: run.N(18, 30), Hostile: 15, EarlyUnlock: 40,
		W: wl.Weights{"create": 5, "next": 12, "genpub": 5, "remark": 4, "chpriv": 4, "chpub": 1, "delete": 5,
			"export": 9, "import": 9, "lock": 4, "unlock": 6, "sign": 2, "restart": 3},
		SignAll: true,
		Mutate: func(r *vh.Rng, ops []wl.Op) []wl.Op {
			// guarantee the same-wallet round trip: keys on both branches (unequal counts), export, delete, import
			ins := []wl.Op{{Kind: "next", N: r.Range(1, 7), Internal: false}, {Kind: "next", N: r.Range(1, 7), Internal: true}}
			if r.Bool() {
				ins = ins[r.Intn(2):][:1] // sometimes only one branch has keys (zero on the other)
			}
			ins = append(ins, wl.Op{Kind: "export", PC: "cur", K: 0}, wl.Op{Kind: "delete", PC: "cur", K: 0}, wl.Op{Kind: "import", PC: "exp", X: 0})
			pos := 1 + r.Intn(len(ops)/2+1)
			out := append([]wl.Op{}, ops[:pos]...)
			out = append(out, ins...)
			return append(out, ops[pos:]...)
		},
		After: func(e *wl.Env) { crossWallet(run, e) },
		Nontrivial: func(e *wl.Env) bool {
			return e.Nontrivial()["import"] && len(e.M.Exports) > 0
		},
	})
	if run.Only < 0 && (run.Counter("cross_wallet_imports") == 0 || run.Counter("tampered_imports") == 0) {
		run.Inconclusive("no cross-wallet import or no tampered import was exercised")
	}
	run.Finish("case = one seeded wallet history with a guaranteed export/delete/import round trip (keys on both branches, unequal counts incl. zero, issued locked/unlocked, optional passphrase/remark changes and restarts), followed by import of up to two of its exports into another wallet holding 0-2 other keystores (same or different private passphrase, optional re-key), with 6+ wrong-passphrase kinds, duplicate import and every single-field corruption of the file; non-trivial = at least one acknowledged import in the history; distinct by hash of the executed history", run.N(20, 300))
}
