// c02: wallet state survives restart exactly.
// Every history is replayed once per chosen prefix; after the prefix the store is closed and reopened and the
// reopened wallet is compared with the running instance, with the model of acknowledged operations, with the
// keys the running instance would have issued next, and for passphrase behaviour. Opening with a wrong public
// passphrase must fail and leave the logical store dump unchanged.
package main

import (
	"encoding/hex"
	"fmt"
	"os"
	"path/filepath"
	"sort"

	"massnet.org/mass/poc/wallet/db"
	"verif/harness/internal/vh"
	"verif/harness/internal/wl"
)

func dumpDir(dir string) (map[string]string, error) {
	raw, err := db.OpenDB("leveldb", dir)
	if err != nil {
		return nil, err
	}
	defer raw.Close()
	return wl.Dump(raw)
}

type behaviour struct {
	Cur, Prev, Pub, Other map[string]bool
}

func probe(e *wl.Env) map[string]map[string]bool {
	out := map[string]map[string]bool{}
	m := e.M
	if m.Priv != nil {
		out["current"] = e.ProbePass(m.Priv)
	}
	if len(m.OldPriv) > 0 {
		p := m.OldPriv[len(m.OldPriv)-1]
		if m.Priv == nil || string(p) != string(m.Priv) {
			out["previous"] = e.ProbePass(p)
		}
	}
	out["public"] = e.ProbePass(m.Pub)
	out["other"] = e.ProbePass(wl.FreshPass(e.Rng))
	if m.Priv != nil && m.Locked && len(m.Order) > 0 {
		// does the current private passphrase unlock the (locked) wallet? The wallet is locked again at once.
		err := e.W.M.Unlock(m.Priv)
		out["unlock-with-current"] = map[string]bool{"wallet": err == nil}
		if err == nil {
			e.W.M.Lock()
		}
	}
	return out
}

func finalChecks(run *vh.Run, e *wl.Env) {
	m := e.M
	hasKs := len(m.Order) > 0
	// passphrase behaviour of the running instance
	beh := probe(e)
	dir := e.W.Dir
	before := e.W.Snapshot()
	e.W.Close()
	// wrong public passphrases must not open (only meaningful with >= 1 keystore) and must not alter the store
	d0, err := dumpDir(dir)
	if err != nil {
		run.Drop("cannot dump closed store")
		e.W = nil
		return
	}
	wrongs := map[string][]byte{"other": wl.FreshPass(e.Rng), "current+1": append(append([]byte{}, m.Pub...), 'x')}
	if len(m.OldPub) > 0 {
		wrongs["previous-public"] = m.OldPub[len(m.OldPub)-1]
	}
	if m.Priv != nil {
		wrongs["private"] = m.Priv
	}
	// two of the wrong classes per case (store opens are the expensive part), chosen by the case's stream
	var classes []string
	for cls := range wrongs {
		classes = append(classes, cls)
	}
	sort.Strings(classes)
	for _, pi := range e.Rng.Perm(len(classes)) {
		if len(classes) > 2 && pi >= 2 {
			continue
		}
		cls := classes[pi]
		wp := wrongs[cls]
		if string(wp) == string(m.Pub) {
			continue
		}
		// the way the node opens its wallet at start-up (poc/wallet.NewPoCWallet)
		if err := wl.TryOpenNode(dir, wp); err == nil {
			if hasKs {
				e.Report([]string{"C02"}, "wrong-public-passphrase-opens-wallet", map[string]string{"pass_class": cls}, nil)
			}
		} else {
			run.Count("wrong_public_passphrase_refused:"+cls, 1)
		}
	}
	if d1, err := dumpDir(dir); err == nil {
		if d := wl.DiffDump(d0, d1); d != "" {
			e.Report([]string{"C02"}, "failed-open-altered-the-store", nil, map[string]interface{}{"diff": d})
		}
		run.Count("store_dumps_compared", 1)
	}
	// reopen with the current public passphrase
	w, err := wl.Open(dir, m.Pub, nil)
	if err != nil {
		e.Report([]string{"C02"}, "reopen-with-current-public-passphrase-failed", nil, map[string]interface{}{"err": err.Error()})
		e.W = nil
		return
	}
	e.W = w
	m.Locked = true
	after := w.Snapshot()
	if d := wl.Diff(before, after); d != "" {
		e.Report([]string{"C02"}, "restart-changed-wallet-state", map[string]string{"diff": "final"}, map[string]interface{}{"diff": d})
	}
	if d := wl.Diff(m.Snap(), after); d != "" {
		e.Report([]string{"C02"}, "reopened-wallet-differs-from-acknowledged-operations", nil, map[string]interface{}{"diff": d})
	}
	run.Count("restarts_compared", 1)
	// passphrase behaviour must be what the running instance had
	beh2 := probe(e)
	for cls, ans := range beh {
		for id, ok := range ans {
			if ok2, present := beh2[cls][id]; present && ok2 != ok {
				e.Report([]string{"C02"}, "passphrase-behaviour-changed-by-restart", map[string]string{"pass_class": cls, "accepted_before": fmt.Sprint(ok)}, map[string]interface{}{"keystore": id})
			}
			run.Count("passphrase_behaviour_compared", 1)
		}
	}
	if m.Priv != nil {
		for cls, p := range map[string][]byte{"public": m.Pub, "other": wl.FreshPass(e.Rng)} {
			if err := w.M.Unlock(p); err == nil {
				e.Report([]string{"C02", "C03"}, "unlock-with-non-current-passphrase-after-restart", map[string]string{"pass_class": cls}, nil)
				w.M.Lock()
			}
		}
	}
	// the reopened wallet must issue exactly the keys the running instance would have issued next
	for _, id := range m.Order {
		k := m.Ks[id]
		if k.D == nil {
			continue
		}
		for br := uint32(0); br < 2; br++ {
			mas, err := w.M.NextAddresses(id, br == 1, 2)
			if err != nil {
				e.Report([]string{"C02"}, "address-generation-fails-after-restart", map[string]string{"branch": fmt.Sprint(br)}, map[string]interface{}{"err": err.Error()})
				continue
			}
			for j, ma := range mas {
				got := hex.EncodeToString(ma.PubKey().SerializeCompressed())
				want := k.D.PubHex(br, k.Next[br]+uint32(j))
				if got != want {
					e.Report([]string{"C02"}, "next-address-after-restart-differs", map[string]string{"branch": fmt.Sprint(br)}, map[string]interface{}{"keystore": id, "index": k.Next[br] + uint32(j), "got": got, "want": want})
				}
				run.Count("next_addresses_compared", 1)
			}
		}
	}
}

func main() {
	run := vh.NewRun("C02", "exploration")
	wl.Setup(filepath.Join(run.Scratch, "log"), "error")
	root := run.Rng()
	n := run.N(40, 400)
	w := wl.Weights{"create": 6, "next": 10, "genpub": 8, "remark": 6, "chpriv": 5, "chpub": 5, "delete": 3,
		"export": 4, "import": 5, "lock": 4, "unlock": 6, "sign": 2, "restart": 3}
	type job struct{ hist, prefix, ci int }
	var jobs []job
	ci := 0
	histOps := make([][]wl.Op, n)
	for i := 0; i < n; i++ {
		rng := root.Derive("ops", i)
		L := rng.Range(run.N(5, 15), run.N(10, 40))
		histOps[i] = wl.GenOps(rng, L, w, 25)
		// motifs that need several cooperating steps before a restart shows anything
		switch i % 3 {
		case 0: // a keystore created (or imported) AFTER a public passphrase change
			ins := []wl.Op{{Kind: "chpub", PC: "cur", NPC: "fresh"}, {Kind: "create", PC: "cur", SeedKind: "fresh", Remark: "after-chpub"}, {Kind: "next", N: 2}}
			pos := 1 + rng.Intn(len(histOps[i]))
			histOps[i] = append(histOps[i][:pos], append(ins, histOps[i][pos:]...)...)
			switch i % 12 {
			case 3, 9: // the public passphrase is changed while the wallet holds NO keystore yet (before the first create)
				histOps[i] = append([]wl.Op{{Kind: "chpub", PC: "cur", NPC: "fresh"}}, histOps[i]...)
			case 6: // ... or holds none any more: every keystore is deleted, then chpub, create, keys
				var del []wl.Op
				for d := 0; d < 8; d++ {
					del = append(del, wl.Op{Kind: "delete", PC: "cur", K: 0})
				}
				del = append(del, wl.Op{Kind: "chpub", PC: "cur", NPC: "fresh"}, wl.Op{Kind: "create", PC: "cur", SeedKind: "fresh", Remark: "after-empty-chpub"}, wl.Op{Kind: "next", N: 2})
				pos := 1 + rng.Intn(len(histOps[i]))
				histOps[i] = append(histOps[i][:pos:pos], append(del, histOps[i][pos:]...)...)
			}
		case 1: // a keystore deleted and created again from the same seed, with fewer keys than before
			ins := []wl.Op{{Kind: "next", N: 3, K: 0}, {Kind: "next", N: 2, Internal: true, K: 0}, {Kind: "delete", PC: "cur", K: 0}, {Kind: "create", PC: "cur", SeedKind: "revive", Remark: "again"}, {Kind: "next", N: 1, K: 7}, {Kind: "genpub"}}
			pos := 1 + rng.Intn(len(histOps[i]))
			histOps[i] = append(histOps[i][:pos], append(ins, histOps[i][pos:]...)...)
		}
		if i%3 == 2 {
			// a keystore with issued keys on both branches leaves the wallet and comes back through export/import: what the
			// running instance presents right after the import must be what a restart presents
			ins := []wl.Op{{Kind: "next", N: 3, K: 0}, {Kind: "next", N: 2, Internal: true, K: 0}, {Kind: "unlock", PC: "cur"}, {Kind: "export", PC: "cur", K: 0}, {Kind: "delete", PC: "cur", K: 0},
				{Kind: "import", PC: "exp", NPC: "cur", X: -1}, {Kind: "restart"}, {Kind: "genpub"}}
			pos := 1 + rng.Intn(len(histOps[i]))
			histOps[i] = append(histOps[i][:pos], append(ins, histOps[i][pos:]...)...)
		}
		L = len(histOps[i])
		if run.Thorough() {
			for _, p := range rng.Perm(L)[:8] {
				jobs = append(jobs, job{i, p + 1, ci})
				ci++
			}
		} else {
			for p := 1; p <= L; p++ {
				jobs = append(jobs, job{i, p, ci})
				ci++
			}
		}
	}
	// big keystores: more than 256 keys on a branch (indices and counters past one byte), judged at the final restart only
	for b := 0; b < run.N(3, 30); b++ {
		rng := root.Derive("big", b)
		ops := []wl.Op{{Kind: "create", PC: "cur", SeedKind: "fresh", Remark: "big"}}
		if rng.Bool() {
			ops = append(ops, wl.Op{Kind: "unlock", PC: "cur"})
		}
		ops = append(ops, wl.Op{Kind: "next", N: 250 + rng.Intn(60), Internal: rng.Bool(), K: 0}, wl.Op{Kind: "genpub"}, wl.Op{Kind: "next", N: rng.Range(1, 8), Internal: rng.Bool(), K: 0})
		if rng.Bool() {
			ops = append(ops, wl.Op{Kind: "chpriv", PC: "cur", NPC: "fresh"})
		}
		histOps = append(histOps, ops)
		jobs = append(jobs, job{len(histOps) - 1, len(ops), ci})
		ci++
	}
	vh.Parallel(len(jobs), 16, func(j int) {
		jb := jobs[j]
		if !run.Want(jb.ci) {
			return
		}
		rng := root.Derive("hist", jb.hist) // same stream for every prefix of one history: identical passphrases and seeds
		dir := filepath.Join(run.Scratch, fmt.Sprintf("h%d-p%d", jb.hist, jb.prefix))
		os.MkdirAll(dir, 0o755)
		defer os.RemoveAll(dir)
		env, err := wl.NewEnv(run, "C02", jb.ci, rng, dir)
		if err != nil {
			run.Drop("cannot create wallet")
			return
		}
		for _, op := range histOps[jb.hist][:jb.prefix] {
			if env.W == nil {
				break
			}
			env.Do(op)
			run.Count("steps", 1)
		}
		keys := 0
		if env.W != nil {
			for _, id := range env.M.Order {
				keys += len(env.M.Ks[id].Keys)
			}
			env.Trace = append(env.Trace, "final restart + checks")
			finalChecks(run, env)
		}
		env.Close()
		run.Case(vh.HashS(append(env.Trace, fmt.Sprint(jb.prefix))...), len(env.M.Order) > 0 && keys > 0)
		if j < 2 {
			run.Sample(env.Trace)
		}
	})
	run.Finish("case = (history, prefix): the prefix of a seeded history over create/next/genpub/remark/chpriv/chpub/delete/export/import/lock/unlock/restart is executed on a fresh wallet, then the store is closed and reopened; quick restarts after EVERY prefix of each history, thorough after 8 random prefixes of longer histories; non-trivial = the wallet had >=1 keystore and >=1 issued key at the restart; distinct by hash of the executed prefix", run.N(100, 1000))
}
