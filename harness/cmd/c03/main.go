// c03: private keys usable only with the current passphrase; Lock wipes them.
// Real wallet histories with hostile passphrase arguments; oracles: success => current passphrase,
// and (through the H4 inspector) no valid secret resident while locked, unlock all-or-nothing.
package main

import (
	"fmt"
	"os"
	"path/filepath"

	"verif/harness/internal/vh"
	"verif/harness/internal/wl"
)

func main() {
	run := vh.NewRun("C03", "exploration")
	wl.Setup(filepath.Join(run.Scratch, "log"), "error")
	wl.RunHistories(run, wl.HistOpts{
		Prop: "C03", N: run.N(60, 500), MinSteps: run.N(12, 20), MaxSteps: run.N(20, 40), Hostile: 40, EarlyUnlock: 60,
		W: wl.Weights{"create": 5, "next": 6, "genpub": 4, "remark": 1, "chpriv": 8, "chpub": 2, "delete": 4,
			"export": 5, "import": 4, "lock": 7, "unlock": 10, "sign": 8, "restart": 4},
		Inspect: true,
		Step: func(e *wl.Env, r wl.Res) {
			if os.Getenv("VERIF_DEBUG") != "" {
				u, views := e.W.M.VerifInspect()
				fmt.Printf("DEBUG %s -> mgrUnlocked=%v", e.Trace[len(e.Trace)-1], u)
				for _, v := range views {
					fmt.Printf(" [%s unlocked=%v mkValid=%v salt=%x hash=%x]", v.Name[:8], v.Unlocked, v.MasterKeyPrivValid, v.PrivPassphraseSalt[:3], v.HashedPrivPassphrase[:3])
				}
				fmt.Println()
			}
		},
		Nontrivial: func(e *wl.Env) bool {
			nt := e.Nontrivial()
			return nt["unlocked"] && nt["refused"]
		},
	})
	if run.Only < 0 && run.Counter("h4_locked_states") == 0 {
		run.Inconclusive("H4 inspector never saw a locked state")
	}
	run.Finish("case = one seeded wallet history (create/next/genpub/chpriv/chpub/delete/export/import/lock/unlock/sign/restart, 40% of passphrase arguments drawn from previous/public/other/ill-formed/empty/current+1char); non-trivial = the history reached an unlocked wallet with >=1 keystore and had >=1 refused non-current passphrase; after every step the H4 inspector is read; distinct by hash of the executed history", run.N(30, 250))
}
