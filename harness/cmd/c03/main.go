// c03: private keys usable only with the current passphrase; Lock wipes them.
// Real wallet histories with hostile passphrase arguments; oracles: success => current passphrase,
// and (through the H4 inspector) no valid secret resident while locked, unlock all-or-nothing.
package main

import (
	"fmt"
	"os"
	"path/filepath"

	"massnet.org/mass/poc/wallet/db"
	"verif/harness/internal/vh"
	"verif/harness/internal/wl"
)

// faultedRekey: "one private passphrase governs all keystores at all times" must also hold when a passphrase change
// is cut short by a storage fault: with >= 2 keystores the change is run over a fault-injecting store (one failing
// write or commit), the wallet is reopened from the real store, and every keystore must accept the same passphrase.
func faultedRekey(run *vh.Run, e *wl.Env) {
	m := e.M
	if len(m.Order) < 2 || m.Priv == nil {
		return
	}
	dir := e.W.Dir
	e.W.Close()
	e.W = nil
	var fdb *wl.FaultDB
	w, err := wl.Open(dir, m.Pub, func(d db.DB) db.DB { fdb = wl.NewFaultDB(d); return fdb })
	if err != nil {
		return
	}
	newPass := wl.FreshPass(e.Rng)
	kind := e.Rng.PickS("write", "write", "commit", "crash-before", "crash-after")
	at := e.Rng.Range(1, 2*len(m.Order))
	if kind != "write" {
		at = e.Rng.Range(1, 2)
	}
	fdb.Arm(wl.FaultPlan{Kind: kind, At: at})
	var cerr error
	func() {
		defer func() {
			if r := recover(); r != nil {
				if _, ok := r.(wl.CrashSentinel); !ok {
					panic(r)
				}
			}
		}()
		cerr = w.M.ChangePrivPassphrase(m.Priv, newPass, wl.FastScrypt)
	}()
	fired := fdb.Fired
	fdb.Disarm()
	if kind == "write" || kind == "commit" {
		// the process lives on after a failed write or commit: the operator locks the wallet - and a locked wallet
		// holds no key-decrypting key and no passphrase hash, whatever the interrupted change left behind
		w.M.Lock()
		_, views := w.M.VerifInspect()
		run.Count("locks_inspected_after_faulted_passphrase_change", 1)
		for _, v := range views {
			var zero [64]byte
			field := ""
			switch {
			case v.MasterKeyPrivValid:
				field = "valid-key-decrypting-key"
			case v.Unlocked || len(v.AddrPrivKeys) > 0 || v.AcctKeyPriv || v.ExternalBranchPriv || v.InternalBranchPriv:
				field = "private-key"
			case v.HashedPrivPassphrase != zero:
				field = "passphrase-hash"
			}
			if field != "" {
				e.Trace = append(e.Trace, fmt.Sprintf("ChangePrivPassphrase over a fault-injecting store (%s #%d, fired=%v) -> %v; Lock()", kind, at, fired, cerr))
				e.Report([]string{"C03"}, "secret-in-memory-while-locked", map[string]string{"after": "lock-after-faulted-passphrase-change", "field": field, "locked_before_op": "true"}, map[string]interface{}{"keystore": v.Name, "fault": kind, "at": at})
				break
			}
		}
	}
	w.Close()
	w2, err := wl.Open(dir, m.Pub, nil)
	if err != nil {
		return
	}
	defer w2.Close()
	run.Count("faulted_passphrase_changes", 1)
	if fired {
		run.Count("faulted_passphrase_changes_fault_fired", 1)
	}
	acc := map[string]string{}
	for _, id := range w2.M.ListKeystoreNames() {
		_, eo := w2.M.ExportKeystore(id, m.Priv)
		_, en := w2.M.ExportKeystore(id, newPass)
		acc[id] = fmt.Sprintf("old=%v new=%v", eo == nil, en == nil)
	}
	first := ""
	for _, v := range acc {
		if first == "" {
			first = v
		} else if v != first {
			e.Trace = append(e.Trace, fmt.Sprintf("ChangePrivPassphrase over a fault-injecting store (%s #%d, fired=%v) -> %v; restart", kind, at, fired, cerr))
			e.Report([]string{"C03"}, "passphrase-governs-some-keystores-only", map[string]string{"pass_class": "after-faulted-passphrase-change"}, map[string]interface{}{"accepts": acc, "fault": kind, "at": at})
			return
		}
	}
}

func main() {
	run := vh.NewRun("C03", "exploration")
	wl.Setup(filepath.Join(run.Scratch, "log"), "error")
	wl.RunHistories(run, wl.HistOpts{
		Prop: "C03", N: run.N(60, 500), MinSteps: run.N(12, 20), MaxSteps: run.N(20, 40), Hostile: 40, EarlyUnlock: 60,
		W: wl.Weights{"create": 5, "next": 6, "genpub": 4, "remark": 1, "chpriv": 8, "chpub": 2, "delete": 4,
			"export": 5, "import": 4, "lock": 7, "unlock": 10, "sign": 8, "restart": 4},
		Inspect: true,
		Mutate: func(r *vh.Rng, ops []wl.Op) []wl.Op {
			if r.Chance(1, 4) {
				return ops
			}
			if r.Chance(1, 4) {
				// a keystore leaves and comes back under ANOTHER new passphrase while a second keystore stays: refused, or
				// two passphrases would govern the wallet (the export's passphrase is the current one, so every check
				// that looks at the wrong one of the two arguments passes)
				ins := []wl.Op{{Kind: "create", PC: "cur", SeedKind: "fresh", Remark: "stays"}, {Kind: "export", PC: "cur", K: 0}, {Kind: "delete", PC: "cur", K: 0},
					{Kind: "import", PC: "exp", NPC: "other", X: -1}, {Kind: "unlock", PC: "cur"}, {Kind: "sign", N: 1}, {Kind: "lock"}}
				pos := 1 + r.Intn(len(ops)/2+1)
				out := append([]wl.Op{}, ops[:pos]...)
				out = append(out, ins...)
				return append(out, ops[pos:]...)
			}
			if r.Chance(1, 3) {
				// passphrases of the longest (or shortest) legal length, and candidates that extend the current one
				// (also by NUL bytes and beyond the legal length), tried while unlocked and while locked
				ins := []wl.Op{{Kind: "chpriv", PC: "cur", NPC: r.PickS("fresh40", "fresh40", "fresh6")}, {Kind: "unlock", PC: "cur"},
					{Kind: "unlock", PC: "curlong"}, {Kind: "export", PC: "curlong", K: r.Intn(2)}, {Kind: "chpriv", PC: "curlong", NPC: "fresh"},
					{Kind: "delete", PC: "curnul", K: r.Intn(2)}, {Kind: "lock"}, {Kind: "unlock", PC: "curlong"}, {Kind: "export", PC: "curnul", K: r.Intn(2)},
					{Kind: "delete", PC: "curlong", K: r.Intn(2)}, {Kind: "unlock", PC: "cur"}, {Kind: "sign", N: 2}}
				pos := 1 + r.Intn(len(ops)/2+1)
				out := append([]wl.Op{}, ops[:pos]...)
				out = append(out, ins...)
				return append(out, ops[pos:]...)
			}
			// hostile-but-legal argument combinations while LOCKED with two keystores: a public passphrase change
			// whose candidate equals the private passphrase (refused, but it makes the code derive the master key),
			// a private passphrase change, a create with the current passphrase, then unlock
			ins := []wl.Op{{Kind: "create", PC: "cur", SeedKind: "fresh", Remark: "second"}, {Kind: "lock"}, {Kind: "chpub", PC: "cur", NPC: "priv"},
				{Kind: "chpriv", PC: "cur", NPC: "fresh"}, {Kind: "export", PC: "cur", K: r.Intn(2)}, {Kind: "unlock", PC: "cur"}, {Kind: "sign", N: 3}, {Kind: "lock"}}
			pos := 1 + r.Intn(len(ops)/2+1)
			out := append([]wl.Op{}, ops[:pos]...)
			out = append(out, ins...)
			return append(out, ops[pos:]...)
		},
		After: func(e *wl.Env) { faultedRekey(run, e) },
		Step: func(e *wl.Env, r wl.Res) {
			if os.Getenv("VERIF_DEBUG") != "" {
				u, views := e.W.M.VerifInspect()
				fmt.Printf("DEBUG %s -> mgrUnlocked=%v", e.Trace[len(e.Trace)-1], u)
				for _, v := range views {
					fmt.Printf(" [%s unlocked=%v mkValid=%v salt=%x hash=%x]", v.Name[:8], v.Unlocked, v.MasterKeyPrivValid, v.PrivPassphraseSalt[:3], v.HashedPrivPassphrase[:3])
				}
				fmt.Println()
			}
		},
		Nontrivial: func(e *wl.Env) bool {
			nt := e.Nontrivial()
			return nt["unlocked"] && nt["refused"]
		},
	})
	if run.Only < 0 && run.Counter("h4_locked_states") == 0 {
		run.Inconclusive("H4 inspector never saw a locked state")
	}
	run.Finish("case = one seeded wallet history (create/next/genpub/chpriv/chpub/delete/export/import/lock/unlock/sign/restart, 40% of passphrase arguments drawn from previous/public/other/ill-formed/empty/current+1char); non-trivial = the history reached an unlocked wallet with >=1 keystore and had >=1 refused non-current passphrase; after every step the H4 inspector is read; distinct by hash of the executed history", run.N(30, 250))
}
