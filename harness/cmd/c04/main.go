// c04: no secret is stored, exported or logged in the clear.
// Seeded wallet histories with node logging at trace level, about half of the passphrase-bearing calls routed
// through the real api.Server handlers (request logging, export file written by the API). After EVERY operation
// all bytes of the store directory, every export (API response and API-written file) and the new log bytes are
// scanned for every secret of the run (seed, BIP32 private keys as scalars and xprv strings down to child keys,
// both random crypto keys, both scrypt master keys, both passphrases) in raw/hex/HEX/base64 form.
// Positive control: the same scanner must find a planted secret.
package main

import (
	"bytes"
	"context"
	"errors"
	"fmt"
	"io"
	"os"
	"path/filepath"
	"sync"
	_ "unsafe"

	"github.com/golang/protobuf/ptypes/empty"
	"massnet.org/mass/api"
	pb "massnet.org/mass/api/proto"
	"massnet.org/mass/config"
	"massnet.org/mass/mining"
	"massnet.org/mass/version"
	"verif/harness/internal/vh"
	"verif/harness/internal/wl"
)

type front struct {
	s   *api.Server
	dir string
	n   int
	run *vh.Run
}

func (f *front) Export(id string, pass []byte) ([]byte, error) {
	r, err := f.s.ExportKeystore(context.Background(), &pb.ExportKeystoreRequest{WalletId: id, Passphrase: string(pass), ExportPath: f.dir})
	if err != nil {
		return nil, err
	}
	return []byte(r.Keystore), nil
}
func (f *front) Import(js, old, np []byte) (string, string, error) {
	p := filepath.Join(f.dir, "import-me.json")
	// every other import is preceded by the same request with a path that cannot be imported (missing file, a
	// directory, a file that is not a keystore): the handler's failure paths see the passphrases too
	if f.n++; f.n%2 == 1 {
		bad := filepath.Join(f.dir, "no-such-file.json")
		switch (f.n / 2) % 3 {
		case 1:
			bad = f.dir
		case 2:
			bad = filepath.Join(f.dir, "not-a-keystore.json")
			os.WriteFile(bad, []byte("{\"not\": \"a keystore\"}"), 0o600)
			defer os.Remove(bad)
		}
		_, err := f.s.ImportKeystore(context.Background(), &pb.ImportKeystoreRequest{ImportPath: bad, OldPassphrase: string(old), NewPassphrase: string(np)})
		if f.run != nil {
			f.run.Count("api_imports_with_unusable_path", 1)
			if err == nil {
				f.run.Count("api_imports_with_unusable_path_accepted(observation)", 1)
			}
		}
	}
	os.WriteFile(p, js, 0o600)
	defer os.Remove(p)
	r, err := f.s.ImportKeystore(context.Background(), &pb.ImportKeystoreRequest{ImportPath: p, OldPassphrase: string(old), NewPassphrase: string(np)})
	if err != nil {
		return "", "", err
	}
	return r.WalletId, r.Remark, nil
}
func (f *front) Unlock(pass []byte) error {
	_, err := f.s.UnlockWallet(context.Background(), &pb.UnlockWalletRequest{Passphrase: string(pass)})
	return err
}
func (f *front) Lock() error {
	_, err := f.s.LockWallet(context.Background(), &empty.Empty{})
	return err
}
func (f *front) ChPriv(old, np []byte) error {
	_, err := f.s.ChangePrivatePass(context.Background(), &pb.ChangePrivatePassRequest{OldPrivpass: string(old), NewPrivpass: string(np)})
	return err
}
func (f *front) ChPub(old, np []byte) error {
	_, err := f.s.ChangePublicPass(context.Background(), &pb.ChangePublicPassRequest{OldPubpass: string(old), NewPubpass: string(np)})
	return err
}

// snaclPrng is the entropy source of the keystore's key generation (package variable snacl.prng, crypto/rand.Reader):
// the driver wraps it so that a history can make it fail for a few reads (a transient fault of the entropy source).
//
//go:linkname snaclPrng massnet.org/mass/poc/wallet/keystore/snacl.prng
var snaclPrng io.Reader

type flakyEntropy struct {
	mu         sync.Mutex
	inner      io.Reader
	skip, fail int
}

func (f *flakyEntropy) Read(p []byte) (int, error) {
	f.mu.Lock()
	if f.fail > 0 {
		if f.skip > 0 {
			f.skip--
		} else {
			f.fail--
			f.mu.Unlock()
			return 0, errors.New("entropy source unavailable (injected)")
		}
	}
	f.mu.Unlock()
	return f.inner.Read(p)
}

func main() {
	fe := &flakyEntropy{inner: snaclPrng}
	snaclPrng = fe
	wl.EntropyFault = func(skip, fail int) { fe.mu.Lock(); fe.skip, fe.fail = skip, fail; fe.mu.Unlock() }
	run := vh.NewRun("C04", "exploration")
	logDir := filepath.Join(run.Scratch, "log")
	wl.Setup(logDir, "trace")
	controlOK := 0
	wl.RunHistories(run, wl.HistOpts{
		Prop: "C04", N: run.N(30, 300), MinSteps: run.N(10, 14), MaxSteps: run.N(18, 35), Hostile: 25, EarlyUnlock: 50,
		W: wl.Weights{"create": 6, "next": 8, "genpub": 6, "remark": 3, "chpriv": 6, "chpub": 4, "delete": 2,
			"export": 8, "import": 5, "lock": 4, "unlock": 8, "sign": 4, "restart": 4},
		Scan: true,
		Mutate: func(r *vh.Rng, ops []wl.Op) []wl.Op {
			ins := []wl.Op{{Kind: "next", N: 2}, {Kind: "unlock", PC: "cur"}, {Kind: "export", PC: "cur", K: r.Intn(3)}, {Kind: "import-damaged", X: -1}, {Kind: "import-damaged", X: -1}, {Kind: "import-into-pubpass-wallet", X: -1}, {Kind: "import-with-write-fault", X: -1}, {Kind: "import-with-write-fault", X: -1}, {Kind: "chpriv", PC: "cur", NPC: "fresh"}}
			if r.Bool() {
				// several keystores re-keyed while the wallet is locked, then an export -> delete -> import -> export chain
				ins = append(ins, wl.Op{Kind: "create", PC: "cur", SeedKind: "fresh", Remark: "second"}, wl.Op{Kind: "lock"}, wl.Op{Kind: "chpriv", PC: "cur", NPC: "fresh"},
					wl.Op{Kind: "export", PC: "cur", K: 0}, wl.Op{Kind: "delete", PC: "cur", K: 0}, wl.Op{Kind: "import", PC: "exp", X: 99}, wl.Op{Kind: "export", PC: "cur", K: 5})
			}
			if r.Chance(1, 2) {
				// a keystore created while the entropy source fails for two reads in a row, then exported: either the
				// creation is refused or what it stored and exports is protected like any other keystore
				ins = append(ins, wl.Op{Kind: "create", PC: "cur", SeedKind: "fresh", Remark: "entropy", EntropySkip: r.Intn(4), EntropyFail: 2}, wl.Op{Kind: "unlock", PC: "cur"}, wl.Op{Kind: "export", PC: "cur", K: -1})
			}
			pos := 1 + r.Intn(len(ops)/2+1)
			out := append([]wl.Op{}, ops[:pos]...)
			out = append(out, ins...)
			return append(out, ops[pos:]...)
		},
		Before: func(e *wl.Env) {
			e.LogDir = logDir
			exportDir := filepath.Join(e.Dir, "api-export")
			os.MkdirAll(exportDir, 0o755)
			e.Front = func(w *wl.Wallet) wl.Front {
				s, err := api.NewServer(&config.API{}, nil, nil, nil, nil, mining.NewMockedPoCMiner(), w.M,
					mining.NewMockedSpaceKeeperV1(), mining.NewMockedSpaceKeeperV2(), version.ServiceMode(0), func() {})
				if err != nil {
					return nil
				}
				return &front{s: s, dir: exportDir, run: run}
			}
		},
		After: func(e *wl.Env) {
			// positive control: plant one of the run's secrets in a copy of the store files and of the log tail
			secrets := e.Secrets()
			files, _ := wl.ReadAllFiles(e.W.Dir)
			if len(secrets) == 0 || len(files) == 0 {
				return
			}
			for name, needle := range secrets {
				for _, content := range files {
					planted := append(append(append([]byte{}, content[:len(content)/2]...), needle...), content[len(content)/2:]...)
					if !bytes.Contains(planted, needle) {
						run.Inconclusive("scanner missed a planted secret " + name)
					} else {
						controlOK++
					}
					break
				}
				break
			}
		},
		Nontrivial: func(e *wl.Env) bool {
			nt := e.Nontrivial()
			return len(e.M.Exports) > 0 && nt["unlocked"]
		},
	})
	if run.Only < 0 && (run.Counter("scans") == 0 || controlOK == 0) {
		run.Inconclusive("no scan or no positive control was executed")
	}
	// the log must really have been written (otherwise the scan of it proves nothing)
	lf, _ := wl.ReadAllFiles(logDir)
	total := 0
	for _, b := range lf {
		total += len(b)
	}
	run.Set("log_bytes_written", total)
	if run.Only < 0 && total == 0 {
		run.Inconclusive("node log is empty: logging was not captured")
	}
	run.Count("positive_controls_ok", int64(controlOK))
	run.Finish(fmt.Sprintf("case = one seeded wallet history with logging at trace level and about half of export/import/unlock/lock/passphrase-change calls going through api.Server handlers; after every operation the store directory, all exports, API-written export files and new log bytes are scanned for all secrets of the history in raw/hex/HEX/base64/text encodings (needles >= 6 bytes); non-trivial = history produced >=1 export and reached an unlocked wallet; distinct by hash of the executed history"), run.N(15, 150))
}
