// c05: signatures verify under the public key they were requested for.
// Seeded wallet histories biased to lock/unlock flips around key issuance; at every unlocked point every key
// ever issued (locked/unlocked, both branches, before/after restart/import/passphrase change) signs a fresh
// digest (and messages); verification happens outside the wallet with pocec; cross-key, foreign-key and
// locked-wallet requests must fail.
package main

import (
	"path/filepath"

	"verif/harness/internal/vh"
	"verif/harness/internal/wl"
)

func main() {
	run := vh.NewRun("C05", "exploration")
	wl.Setup(filepath.Join(run.Scratch, "log"), "error")
	wl.RunHistories(run, wl.HistOpts{
		Prop: "C05", N: run.N(50, 500), MinSteps: run.N(10, 15), MaxSteps: run.N(18, 40), Hostile: 15, EarlyUnlock: 50,
		W: wl.Weights{"create": 4, "next": 12, "genpub": 10, "remark": 1, "chpriv": 3, "chpub": 1, "delete": 1,
			"export": 3, "import": 4, "lock": 9, "unlock": 12, "sign": 6, "restart": 4},
		SignAll: true,
		Mutate: func(r *vh.Rng, ops []wl.Op) []wl.Op {
			// make sure the interesting shape occurs: a key issued while locked, one issued while unlocked, a lock flip
			ins := []wl.Op{{Kind: "next", N: 2, Internal: r.Bool()}, {Kind: "unlock", PC: "cur"}, {Kind: "genpub"}, {Kind: "next", N: 1, Internal: r.Bool()}, {Kind: "lock"}, {Kind: "unlock", PC: "cur"}}
			pos := 1 + r.Intn(len(ops)/2+1)
			out := append([]wl.Op{}, ops[:pos]...)
			out = append(out, ins...)
			return append(out, ops[pos:]...)
		},
		Nontrivial: func(e *wl.Env) bool {
			nt := e.Nontrivial()
			return e.Signed > 0 && nt["issued-locked"] && nt["issued-unlocked"]
		},
	})
	if run.Only < 0 && run.Counter("signatures_verified") == 0 {
		run.Inconclusive("no signature was produced")
	}
	run.Finish("case = one seeded wallet history; after EVERY step, if the wallet is unlocked every issued key signs a fresh random digest (1/4 also a message) and the signature is verified with pocec outside the wallet and must not verify under another issued key; if locked, signing must fail; foreign keys must fail; non-trivial = at least one signature verified and keys were issued both while locked and while unlocked; distinct by hash of the executed history", run.N(20, 200))
}
