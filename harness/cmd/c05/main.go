// c05: signatures verify under the public key they were requested for.
// Seeded wallet histories biased to lock/unlock flips around key issuance; at every unlocked point every key
// ever issued (locked/unlocked, both branches, before/after restart/import/passphrase change) signs a fresh
// digest (and messages); verification happens outside the wallet with pocec; cross-key, foreign-key and
// locked-wallet requests must fail.
package main

import (
	"fmt"
	"os"
	"path/filepath"

	"github.com/massnetorg/mass-core/wire"
	"massnet.org/mass/config"
	"massnet.org/mass/poc/engine/spacekeeper/capacity"

	"verif/harness/internal/vh"
	"verif/harness/internal/wl"
)

// keeperPath: the space keeper signs block headers through the wallet (SpaceKeeper.SignHash -> wallet.SignMessage).
// A real v1 keeper is put on top of the history's real wallet; it issues plot keys through the wallet, and every
// workspace must sign a fresh hash with a signature that verifies under that workspace's public key.
func keeperPath(run *vh.Run, e *wl.Env) {
	if len(e.M.Order) == 0 || e.M.Priv == nil {
		return
	}
	if e.W.M.IsLocked() {
		if err := e.W.M.Unlock(e.M.Priv); err != nil {
			return
		}
		e.M.Locked = false
	}
	dir := filepath.Join(e.Dir, "plots")
	os.MkdirAll(dir, 0o755)
	cfg := config.DefaultConfig()
	cfg.Miner.ProofDir = []string{dir}
	cfg.Miner.PrivatePassword = "" // no auto-unlock / auto-configure in the constructor
	ski, err := capacity.NewSpaceKeeperV1(cfg, e.W.M)
	if err != nil {
		run.Drop("cannot construct keeper over the wallet: " + err.Error())
		return
	}
	sk := ski.(*capacity.SpaceKeeper)
	infos, err := sk.ConfigureByBitLength(map[int]int{24: 2}, false, false)
	if err != nil {
		run.Drop("cannot configure keeper over the wallet")
		return
	}
	for _, in := range infos {
		var h [32]byte
		copy(h[:], e.Rng.Bytes(32))
		sig, err := sk.SignHash(in.SpaceID, h)
		if err != nil || sig == nil {
			e.Report([]string{"C05"}, "keeper-signhash-failed-while-unlocked", nil, map[string]interface{}{"sid": in.SpaceID, "err": fmt.Sprint(err)})
			continue
		}
		d := wire.HashH(h[:])
		if !sig.Verify(d[:], in.PublicKey) {
			e.Report([]string{"C05"}, "keeper-signature-does-not-verify", nil, map[string]interface{}{"sid": in.SpaceID})
		}
		// the key the keeper was given must be one the wallet issued with that ordinal
		if ord, ok := e.W.M.GetPublicKeyOrdinal(in.PublicKey); !ok || int64(ord) != in.Ordinal {
			e.Report([]string{"C05", "C06"}, "keeper-workspace-key-not-issued-by-wallet-with-that-ordinal", nil, map[string]interface{}{"sid": in.SpaceID, "ordinal": in.Ordinal, "wallet_ordinal": ord, "found": ok})
		}
		run.Count("keeper_signatures_verified", 1)
	}
	// locked wallet: the keeper path must fail too
	e.W.M.Lock()
	e.M.Locked = true
	for _, in := range infos {
		var h [32]byte
		if sig, err := sk.SignHash(in.SpaceID, h); err == nil && sig != nil {
			e.Report([]string{"C05", "C03"}, "keeper-signhash-succeeded-while-locked", nil, map[string]interface{}{"sid": in.SpaceID})
		}
		run.Count("keeper_sign_refused_while_locked", 1)
	}
}

func main() {
	run := vh.NewRun("C05", "exploration")
	wl.Setup(filepath.Join(run.Scratch, "log"), "error")
	wl.RunHistories(run, wl.HistOpts{
		Prop: "C05", N: run.N(50, 500), MinSteps: run.N(10, 15), MaxSteps: run.N(18, 40), Hostile: 15, EarlyUnlock: 50,
		W: wl.Weights{"create": 4, "next": 12, "genpub": 10, "remark": 1, "chpriv": 3, "chpub": 1, "delete": 1,
			"export": 3, "import": 4, "lock": 9, "unlock": 12, "sign": 6, "restart": 4},
		SignAll: true,
		Mutate: func(r *vh.Rng, ops []wl.Op) []wl.Op {
			// make sure the interesting shape occurs: a key issued while locked, one issued while unlocked, a lock flip
			ins := []wl.Op{{Kind: "next", N: 2, Internal: r.Bool()}, {Kind: "unlock", PC: "cur"}, {Kind: "genpub"}, {Kind: "next", N: 1, Internal: r.Bool()}, {Kind: "lock"}, {Kind: "unlock", PC: "cur"}}
			if r.Chance(2, 3) {
				// an export / delete / import round trip with unequal key counts on the two branches: every key issued
				// before it must still sign afterwards
				ins = append(ins, wl.Op{Kind: "next", N: r.Range(1, 4), Internal: r.Bool()}, wl.Op{Kind: "export", PC: "cur", K: 0}, wl.Op{Kind: "delete", PC: "cur", K: 0}, wl.Op{Kind: "import", PC: "exp", X: 0}, wl.Op{Kind: "unlock", PC: "cur"})
			}
			if r.Chance(1, 4) {
				// a keystore comes back under ANOTHER new passphrase while a second keystore stays (must be refused): if it
				// were accepted, Unlock could only open part of the wallet - and a wallet that reports locked must not sign
				ins = append(ins, wl.Op{Kind: "create", PC: "cur", SeedKind: "fresh", Remark: "stays"}, wl.Op{Kind: "next", N: 2, K: 1}, wl.Op{Kind: "export", PC: "cur", K: 0}, wl.Op{Kind: "delete", PC: "cur", K: 0},
					wl.Op{Kind: "import", PC: "exp", NPC: "other", X: -1}, wl.Op{Kind: "lock"}, wl.Op{Kind: "unlock", PC: "cur"}, wl.Op{Kind: "sign", N: 0}, wl.Op{Kind: "sign", N: 3},
					wl.Op{Kind: "lock"}, wl.Op{Kind: "unlock", PC: "cur"}, wl.Op{Kind: "sign", N: 1})
			}
			if r.Chance(1, 3) {
				// a keystore that never issued a key leaves and comes back while the wallet is unlocked: the keys it issues
				// afterwards must sign at once (no Lock/Unlock in between)
				ins = append(ins, wl.Op{Kind: "create", PC: "cur", SeedKind: "fresh", Remark: "never used"}, wl.Op{Kind: "unlock", PC: "cur"}, wl.Op{Kind: "export", PC: "cur", K: -1}, wl.Op{Kind: "delete", PC: "cur", K: -1},
					wl.Op{Kind: "unlock", PC: "cur"}, wl.Op{Kind: "import", PC: "exp", NPC: "cur", X: -1}, wl.Op{Kind: "next", N: 2, K: -1}, wl.Op{Kind: "next", N: 1, Internal: true, K: -1}, wl.Op{Kind: "sign", N: 0})
			}
			if r.Chance(1, 3) {
				// a keystore that has only ever issued change (internal-branch) keys goes out and comes back: those keys must
				// sign again
				ins = append(ins, wl.Op{Kind: "create", PC: "cur", SeedKind: "fresh", Remark: "internal only"}, wl.Op{Kind: "next", N: 2, Internal: true, K: -1}, wl.Op{Kind: "unlock", PC: "cur"},
					wl.Op{Kind: "export", PC: "cur", K: -1}, wl.Op{Kind: "delete", PC: "cur", K: -1}, wl.Op{Kind: "import", PC: "exp", NPC: "cur", X: -1}, wl.Op{Kind: "unlock", PC: "cur"}, wl.Op{Kind: "sign", N: 0})
			}
			pos := 1 + r.Intn(len(ops)/2+1)
			out := append([]wl.Op{}, ops[:pos]...)
			out = append(out, ins...)
			out = append(out, ops[pos:]...)
			if r.Chance(1, 8) {
				// a keystore with more than 256 keys on one branch (indices that no longer fit one byte), then a restart:
				// after unlocking, every one of them signs again (placed last: every later step would sign them all)
				out = append(out, wl.Op{Kind: "next", N: 250 + r.Intn(60), Internal: r.Bool(), K: 0}, wl.Op{Kind: "restart"}, wl.Op{Kind: "unlock", PC: "cur"}, wl.Op{Kind: "sign", N: 255 + r.Intn(10)})
			}
			return out
		},
		After: func(e *wl.Env) { keeperPath(run, e) },
		Nontrivial: func(e *wl.Env) bool {
			nt := e.Nontrivial()
			return e.Signed > 0 && nt["issued-locked"] && nt["issued-unlocked"]
		},
	})
	if run.Only < 0 && run.Counter("signatures_verified") == 0 {
		run.Inconclusive("no signature was produced")
	}
	run.Finish("case = one seeded wallet history; after EVERY step, if the wallet is unlocked every issued key signs a fresh random digest (1/4 also a message) and the signature is verified with pocec outside the wallet and must not verify under another issued key; if locked, signing must fail; foreign keys must fail; non-trivial = at least one signature verified and keys were issued both while locked and while unlocked; distinct by hash of the executed history", run.N(20, 200))
}
