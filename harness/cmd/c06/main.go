// c06: plot public keys are issued once, with stable ordinals.
// Part 1: sequential seeded histories (issuance interleaved with address generation, restarts, export/import,
// lock changes): every issued key must be the derived key at the next external index of its keystore, globally
// unique, with ordinal == index, and later lookups must agree (also after restart).
// Part 2: concurrent issuance from 2-8 goroutines on 1-2 keystores: the issuance log (unique keys make the
// history unambiguous) must be, per keystore, exactly indices 0..n-1 once each, each key the derived one.
package main

import (
	"encoding/hex"
	"fmt"
	"os"
	"path/filepath"
	"sync"

	"verif/harness/internal/vh"
	"verif/harness/internal/wl"
)

type issued struct {
	Pub string
	Ord uint32
	Src string
	G   int
}

func concurrentCase(run *vh.Run, root *vh.Rng, i, ci int) {
	rng := root.Derive("conc", i)
	dir := filepath.Join(run.Scratch, fmt.Sprintf("conc-%d", i))
	os.MkdirAll(dir, 0o755)
	defer os.RemoveAll(dir)
	env, err := wl.NewEnv(run, "C06", ci, rng, dir)
	if err != nil {
		run.Drop("cannot create wallet")
		return
	}
	defer env.Close()
	nks := rng.Range(1, 2)
	for k := 0; k < nks; k++ {
		env.Do(wl.Op{Kind: "create", PC: "cur", SeedKind: "fresh", Remark: "k"})
	}
	if rng.Bool() {
		env.Do(wl.Op{Kind: "unlock", PC: "cur"})
	}
	// a sequential prefix so that counters do not start at zero
	for j := 0; j < rng.Intn(4); j++ {
		env.Do(wl.Op{Kind: "genpub"})
	}
	G := rng.Range(2, 8)
	per := rng.Range(3, 8)
	var mu sync.Mutex
	var log []issued
	var wg sync.WaitGroup
	start := make(chan struct{})
	ids := append([]string{}, env.M.Order...)
	for g := 0; g < G; g++ {
		wg.Add(1)
		useNext := rng.Chance(1, 3) // some goroutines use NextAddresses(external) instead of GenerateNewPublicKey
		kid := ids[rng.Intn(len(ids))]
		go func(g int) {
			defer wg.Done()
			<-start
			for j := 0; j < per; j++ {
				if useNext {
					mas, err := env.W.M.NextAddresses(kid, false, 1)
					if err != nil {
						continue
					}
					for _, ma := range mas {
						ord, _ := env.W.M.GetPublicKeyOrdinal(ma.PubKey())
						mu.Lock()
						log = append(log, issued{hex.EncodeToString(ma.PubKey().SerializeCompressed()), ord, "next", g})
						mu.Unlock()
					}
				} else {
					pk, ord, err := env.W.M.GenerateNewPublicKey()
					if err != nil {
						continue
					}
					mu.Lock()
					log = append(log, issued{hex.EncodeToString(pk.SerializeCompressed()), ord, "genpub", g})
					mu.Unlock()
				}
			}
		}(g)
	}
	close(start)
	wg.Wait()
	run.Count("concurrent_issuances", int64(len(log)))
	// offline oracle over the issuance log
	seen := map[string]issued{}
	perKs := map[string]map[uint32]int{}
	for _, id := range ids {
		perKs[id] = map[uint32]int{}
	}
	detail := func() map[string]interface{} { return map[string]interface{}{"log": log, "goroutines": G} }
	for _, it := range log {
		if prev, dup := seen[it.Pub]; dup {
			env.Report([]string{"C06"}, "key-issued-twice", map[string]string{"mode": "concurrent", "src": it.Src + "+" + prev.Src}, detail())
		}
		seen[it.Pub] = it
		owner := ""
		for _, id := range ids {
			if k := env.M.Ks[id]; k.D != nil && k.D.PubHex(0, it.Ord) == it.Pub {
				owner = id
			}
		}
		if owner == "" {
			env.Report([]string{"C06"}, "ordinal-differs-from-key-index", map[string]string{"mode": "concurrent", "src": it.Src}, detail())
			continue
		}
		perKs[owner][it.Ord]++
	}
	for _, id := range ids {
		base := env.M.Ks[id].Next[0] // issued sequentially before
		n := uint32(len(perKs[id]))
		for idx := base; idx < base+n; idx++ {
			if perKs[id][idx] != 1 {
				env.Report([]string{"C06"}, "ordinals-not-consecutive", map[string]string{"mode": "concurrent"}, detail())
				break
			}
		}
		// the wallet's own view afterwards: lookups agree, and after a restart too
		for idx := base; idx < base+n; idx++ {
			pub := env.M.Ks[id].D.PubHex(0, idx)
			if ord, ok := env.W.M.GetPublicKeyOrdinal(wl.ParsePub(pub)); !ok || ord != idx {
				env.Report([]string{"C06"}, "ordinal-lookup-disagrees-with-issuance", map[string]string{"mode": "concurrent"}, detail())
				break
			}
		}
	}
	// bring the model up to date and restart: everything issued must still be there with the same ordinals
	for _, id := range ids {
		k := env.M.Ks[id]
		base := k.Next[0]
		for idx := base; idx < base+uint32(len(perKs[id])); idx++ {
			pub := k.D.PubHex(0, idx)
			k.Keys = append(k.Keys, wl.MKey{Key: wl.Key{Branch: 0, Index: idx, Addr: wl.AddrOf(pub), Pub: pub}, Src: "concurrent"})
			env.M.Issued[pub] = id
		}
		k.Next[0] = base + uint32(len(perKs[id]))
	}
	env.Do(wl.Op{Kind: "restart"})
	if env.W != nil {
		env.Do(wl.Op{Kind: "genpub"}) // the next key after restart continues the sequence (checked by the engine)
	}
	run.Case(vh.HashS(fmt.Sprint(log)), len(log) >= 4)
	if i < 1 {
		run.Sample(map[string]interface{}{"goroutines": G, "log": log})
	}
}

func main() {
	run := vh.NewRun("C06", "exploration")
	wl.Setup(filepath.Join(run.Scratch, "log"), "error")
	nseq := run.N(40, 400)
	wl.RunHistories(run, wl.HistOpts{
		Prop: "C06", N: nseq, MinSteps: run.N(12, 15), MaxSteps: run.N(22, 40), Hostile: 10, EarlyUnlock: 40,
		W: wl.Weights{"create": 5, "next": 10, "genpub": 16, "remark": 1, "chpriv": 2, "chpub": 1, "delete": 2,
			"export": 4, "import": 5, "lock": 5, "unlock": 6, "sign": 1, "restart": 8},
		Mutate: func(r *vh.Rng, ops []wl.Op) []wl.Op {
			if r.Chance(1, 3) {
				return ops
			}
			// issuance must continue correctly across an export / delete / import round trip (unequal branch counts)
			ins := []wl.Op{{Kind: "genpub"}, {Kind: "next", N: r.Range(1, 4), Internal: true}, {Kind: "genpub"}, {Kind: "export", PC: "cur", K: 0}, {Kind: "delete", PC: "cur", K: 0}, {Kind: "import", PC: "exp", X: 0}, {Kind: "genpub"}, {Kind: "next", N: 1, Internal: r.Bool()}}
			pos := 1 + r.Intn(len(ops)/2+1)
			out := append([]wl.Op{}, ops[:pos]...)
			out = append(out, ins...)
			return append(out, ops[pos:]...)
		},
		Nontrivial: func(e *wl.Env) bool {
			n := 0
			for _, id := range e.M.Order {
				for _, k := range e.M.Ks[id].Keys {
					if k.Src == "genpub" {
						n++
					}
				}
			}
			return n >= 2 && e.Nontrivial()["restart"]
		},
		After: func(e *wl.Env) {
			// final lookups: every issued external key still has its ordinal
			for _, id := range e.M.Order {
				for _, k := range e.M.Ks[id].Keys {
					ord, ok := e.W.M.GetPublicKeyOrdinal(wl.ParsePub(k.Pub))
					if !ok || ord != k.Index {
						e.Report([]string{"C06"}, "ordinal-lookup-disagrees-with-issuance", map[string]string{"mode": "final"}, map[string]interface{}{"pub": k.Pub, "ordinal": ord, "index": k.Index})
					}
					run.Count("final_ordinal_lookups", 1)
				}
			}
		},
	})
	root := run.Rng()
	nconc := run.N(40, 400)
	vh.Parallel(nconc, 8, func(i int) {
		if run.Want(nseq + i) {
			concurrentCase(run, root, i, nseq+i)
		}
	})
	run.Finish("sequential case = seeded wallet history biased to plot-key issuance, address generation, restarts and export/import (engine checks every issued key: derived key at next external index, unique, ordinal==index, lookup agrees, also after restart); concurrent case = 2-8 goroutines issuing keys through GenerateNewPublicKey/NextAddresses on 1-2 keystores, the recorded issuance log is checked as a set (unique keys, per keystore indices exactly consecutive, each key the derived one), then restart; non-trivial = >=2 plot keys issued and a restart / >=4 concurrent issuances", run.N(40, 400))
}
