// c06: plot public keys are issued once, with stable ordinals.
// Part 1: sequential seeded histories (issuance interleaved with address generation, restarts, export/import,
// lock changes): every issued key must be the derived key at the next external index of its keystore, globally
// unique, with ordinal == index, and later lookups must agree (also after restart).
// Part 3: the keeper names plot files after (ordinal, key): a real capacity keeper creates 1-14 header-only spaces
// on a wallet that has already issued 0-12 keys (so ordinals run past 9 and past the number of files), every file
// name must carry the wallet's ordinal of its key, and a second keeper on the reopened wallet must index every file.
// Part 2: concurrent issuance from 2-8 goroutines on 1-2 keystores: the issuance log (unique keys make the
// history unambiguous) must be, per keystore, exactly indices 0..n-1 once each, each key the derived one.
package main

import (
	"encoding/hex"
	"fmt"
	"io"
	"massnet.org/mass/poc/wallet/db"
	"os"
	"path/filepath"
	"regexp"
	"runtime"
	"sort"
	"strconv"
	"strings"
	"sync"

	"github.com/massnetorg/mass-core/poc"
	"github.com/massnetorg/mass-core/pocec"

	"massnet.org/mass/config"
	"massnet.org/mass/poc/engine"
	"massnet.org/mass/poc/engine/spacekeeper/capacity"
	"verif/harness/internal/vh"
	"verif/harness/internal/wl"
)

type issued struct {
	Pub string
	Ord uint32
	Src string
	G   int
}

func concurrentCase(run *vh.Run, root *vh.Rng, i, ci int) {
	rng := root.Derive("conc", i)
	dir := filepath.Join(run.Scratch, fmt.Sprintf("conc-%d", i))
	os.MkdirAll(dir, 0o755)
	defer os.RemoveAll(dir)
	env, err := wl.NewEnv(run, "C06", ci, rng, dir)
	if err != nil {
		run.Drop("cannot create wallet")
		return
	}
	defer env.Close()
	nks := rng.Range(1, 2)
	for k := 0; k < nks; k++ {
		env.Do(wl.Op{Kind: "create", PC: "cur", SeedKind: "fresh", Remark: "k"})
	}
	if rng.Bool() {
		env.Do(wl.Op{Kind: "unlock", PC: "cur"})
	}
	// a sequential prefix so that counters do not start at zero
	for j := 0; j < rng.Intn(4); j++ {
		env.Do(wl.Op{Kind: "genpub"})
	}
	G := rng.Range(2, 8)
	per := rng.Range(3, 8)
	var mu sync.Mutex
	var log []issued
	var wg sync.WaitGroup
	start := make(chan struct{})
	ids := append([]string{}, env.M.Order...)
	for g := 0; g < G; g++ {
		wg.Add(1)
		useNext := rng.Chance(1, 3) // some goroutines use NextAddresses(external) instead of GenerateNewPublicKey
		kid := ids[rng.Intn(len(ids))]
		go func(g int) {
			defer wg.Done()
			<-start
			for j := 0; j < per; j++ {
				if useNext {
					mas, err := env.W.M.NextAddresses(kid, false, 1)
					if err != nil {
						continue
					}
					for _, ma := range mas {
						ord, _ := env.W.M.GetPublicKeyOrdinal(ma.PubKey())
						mu.Lock()
						log = append(log, issued{hex.EncodeToString(ma.PubKey().SerializeCompressed()), ord, "next", g})
						mu.Unlock()
					}
				} else {
					pk, ord, err := env.W.M.GenerateNewPublicKey()
					if err != nil {
						continue
					}
					mu.Lock()
					log = append(log, issued{hex.EncodeToString(pk.SerializeCompressed()), ord, "genpub", g})
					mu.Unlock()
				}
			}
		}(g)
	}
	close(start)
	wg.Wait()
	run.Count("concurrent_issuances", int64(len(log)))
	// offline oracle over the issuance log
	seen := map[string]issued{}
	perKs := map[string]map[uint32]int{}
	for _, id := range ids {
		perKs[id] = map[uint32]int{}
	}
	detail := func() map[string]interface{} { return map[string]interface{}{"log": log, "goroutines": G} }
	for _, it := range log {
		if prev, dup := seen[it.Pub]; dup {
			env.Report([]string{"C06"}, "key-issued-twice", map[string]string{"mode": "concurrent", "src": it.Src + "+" + prev.Src}, detail())
		}
		seen[it.Pub] = it
		owner := ""
		for _, id := range ids {
			if k := env.M.Ks[id]; k.D != nil && k.D.PubHex(0, it.Ord) == it.Pub {
				owner = id
			}
		}
		if owner == "" {
			env.Report([]string{"C06"}, "ordinal-differs-from-key-index", map[string]string{"mode": "concurrent", "src": it.Src}, detail())
			continue
		}
		perKs[owner][it.Ord]++
	}
	for _, id := range ids {
		base := env.M.Ks[id].Next[0] // issued sequentially before
		n := uint32(len(perKs[id]))
		for idx := base; idx < base+n; idx++ {
			if perKs[id][idx] != 1 {
				env.Report([]string{"C06"}, "ordinals-not-consecutive", map[string]string{"mode": "concurrent"}, detail())
				break
			}
		}
		// the wallet's own view afterwards: lookups agree, and after a restart too
		for idx := base; idx < base+n; idx++ {
			pub := env.M.Ks[id].D.PubHex(0, idx)
			if ord, ok := env.W.M.GetPublicKeyOrdinal(wl.ParsePub(pub)); !ok || ord != idx {
				env.Report([]string{"C06"}, "ordinal-lookup-disagrees-with-issuance", map[string]string{"mode": "concurrent"}, detail())
				break
			}
		}
	}
	// bring the model up to date and restart: everything issued must still be there with the same ordinals
	for _, id := range ids {
		k := env.M.Ks[id]
		base := k.Next[0]
		for idx := base; idx < base+uint32(len(perKs[id])); idx++ {
			pub := k.D.PubHex(0, idx)
			k.Keys = append(k.Keys, wl.MKey{Key: wl.Key{Branch: 0, Index: idx, Addr: wl.AddrOf(pub), Pub: pub}, Src: "concurrent"})
			env.M.Issued[pub] = id
		}
		k.Next[0] = base + uint32(len(perKs[id]))
	}
	env.Do(wl.Op{Kind: "restart"})
	if env.W != nil {
		env.Do(wl.Op{Kind: "genpub"}) // the next key after restart continues the sequence (checked by the engine)
	}
	run.Case(vh.HashS(fmt.Sprint(log)), len(log) >= 4)
	if i < 1 {
		run.Sample(map[string]interface{}{"goroutines": G, "log": log})
	}
}

var plotNameRe = regexp.MustCompile(`^(\d+)_([0-9a-f]{66})_(\d{2})\.massdb$`)

func keeperCase(run *vh.Run, root *vh.Rng, i, ci int) {
	rng := root.Derive("keeper", i)
	dir := filepath.Join(run.Scratch, fmt.Sprintf("keeper-%d", i))
	plots := filepath.Join(dir, "plots")
	plots2 := filepath.Join(dir, "plots2") // a second proof directory: half of the cases put 1-3 more spaces there
	os.MkdirAll(plots, 0o755)
	os.MkdirAll(plots2, 0o755)
	defer os.RemoveAll(dir)
	defer runtime.GC() // plot files of the keepers are closed by finalizers
	pub, priv := wl.FreshPass(rng), wl.FreshPass(rng)
	w, err := wl.Create(filepath.Join(dir, "ks"), pub, nil)
	if err != nil {
		run.Drop("cannot create wallet")
		return
	}
	closeW := func() {
		if w != nil {
			w.Close()
			w = nil
		}
	}
	defer closeW()
	if _, err := w.M.NewKeystore(priv, rng.Bytes(32), "plots", wl.Net(), wl.FastScrypt); err != nil {
		run.Drop("cannot create keystore")
		return
	}
	w.M.Unlock(priv)
	before := rng.Intn(13)
	for j := 0; j < before; j++ {
		w.M.GenerateNewPublicKey()
	}
	n := rng.Range(1, 14)
	trace := []string{fmt.Sprintf("wallet with one keystore, %d plot keys issued before", before), fmt.Sprintf("keeper 1: ConfigureByBitLength({24: %d}) in an empty directory", n)}
	viol := func(kind string, attrs map[string]string, det map[string]interface{}) {
		det["trace"] = trace
		run.Violate(ci, kind, attrs, det)
	}
	cfg := &config.Config{Miner: &config.Miner{ProofDir: []string{plots, plots2}}}
	ski, err := capacity.NewSpaceKeeperV1(cfg, w.M)
	if err != nil {
		run.Drop("keeper construction failed: " + err.Error())
		return
	}
	k1 := ski.(*capacity.SpaceKeeper)
	infos, err := k1.ConfigureByBitLength(map[int]int{24: n}, false, false)
	if err != nil || len(infos) != n {
		run.Drop(fmt.Sprintf("ConfigureByBitLength gave %d spaces, err %v", len(infos), err))
		return
	}
	n2 := 0
	if rng.Bool() {
		n2 = rng.Range(1, 3)
		trace = append(trace, fmt.Sprintf("keeper 1: ConfigureByPath(second directory, %d x PlotSize(24))", n2))
		if _, err := k1.ConfigureByPath([]string{plots2}, []int{n2 * int(poc.ProofTypeDefault.PlotSize(24))}, false, false); err != nil {
			run.Drop("ConfigureByPath on the second directory failed: " + err.Error())
			return
		}
	}
	n += n2
	listing := func() []string {
		var out []string
		for _, d := range []string{plots, plots2} {
			es, _ := os.ReadDir(d)
			for _, e := range es {
				out = append(out, filepath.Base(d)+"/"+e.Name())
			}
		}
		sort.Strings(out)
		return out
	}
	filesBefore := listing()
	created := map[string]int{} // space id -> ordinal in its file name
	var ords []int
	ents, _ := os.ReadDir(plots)
	ents2, _ := os.ReadDir(plots2)
	for _, e := range append(ents, ents2...) {
		m := plotNameRe.FindStringSubmatch(e.Name())
		if m == nil {
			continue
		}
		ord, _ := strconv.Atoi(m[1])
		got, ok := w.M.GetPublicKeyOrdinal(wl.ParsePub(m[2]))
		run.Count("plot_file_names_checked", 1)
		if !ok || int(got) != ord {
			viol("plot-file-name-ordinal-disagrees-with-wallet", nil, map[string]interface{}{"file": e.Name(), "wallet_ordinal": got, "wallet_knows_key": ok})
		}
		created[m[2]+"-"+m[3]] = ord
		ords = append(ords, ord)
	}
	sort.Ints(ords)
	for j, o := range ords {
		if o != before+j {
			viol("plot-file-ordinals-not-consecutive", nil, map[string]interface{}{"ordinals_in_file_names": ords, "keys_issued_before": before})
			break
		}
	}
	if len(created) != n {
		viol("plot-files-created-differ-from-request", nil, map[string]interface{}{"files": len(created), "requested": n})
	}
	// half of the cases: somebody else's plot files lie in the directories too (copied from another miner, or of a
	// keystore that was deleted), with names that sort before, between and after the wallet's own ones
	if rng.Bool() {
		var own []string
		for _, f := range filesBefore {
			if strings.HasSuffix(f, ".massdb") {
				own = append(own, f)
			}
		}
		planted := 0
		for _, ord := range []int{0, before + 1, 99} {
			fk, err := pocec.NewPrivateKey(pocec.S256())
			if err != nil || len(own) == 0 {
				break
			}
			src := own[rng.Intn(len(own))]
			srcPath := filepath.Join(dir, src)
			// header of one of the wallet's files, same (sparse) size
			st, err := os.Stat(srcPath)
			sf, err2 := os.Open(srcPath)
			if err != nil || err2 != nil {
				break
			}
			hdr := make([]byte, 4096)
			n, _ := io.ReadFull(sf, hdr)
			sf.Close()
			name := fmt.Sprintf("%d_%x_24.massdb", ord, fk.PubKey().SerializeCompressed())
			if df, err := os.Create(filepath.Join(filepath.Dir(srcPath), name)); err == nil {
				df.Write(hdr[:n])
				df.Truncate(st.Size())
				df.Close()
				planted++
			}
		}
		trace = append(trace, fmt.Sprintf("%d plot files of keys the wallet does not own planted next to the wallet's plots (ordinals 0, %d, 99)", planted, before+1))
		run.Count("foreign_plot_files_planted", int64(planted))
		filesBefore = listing()
	}
	// restart: the wallet store is closed and reopened, a new keeper scans the directory
	closeW()
	w, err = wl.Open(filepath.Join(dir, "ks"), pub, nil)
	if err != nil {
		viol("reopen-failed", nil, map[string]interface{}{"err": err.Error()})
		return
	}
	w.M.Unlock(priv)
	trace = append(trace, "wallet closed and reopened; keeper 2 on the same directory: ConfigureByFlags(SFAll)")
	ski2, err := capacity.NewSpaceKeeperV1(cfg, w.M)
	if err != nil {
		viol("keeper-construction-failed-after-restart", nil, map[string]interface{}{"err": err.Error()})
		return
	}
	k2 := ski2.(*capacity.SpaceKeeper)
	infos2, err := k2.ConfigureByFlags(engine.SFAll, false, false)
	seen := map[string]bool{}
	for _, in := range infos2 {
		seen[in.SpaceID] = true
	}
	var missing []string
	maxOrd := 0
	for id, ord := range created {
		if !seen[id] {
			missing = append(missing, fmt.Sprintf("%d_%s", ord, id))
		}
		if ord > maxOrd {
			maxOrd = ord
		}
	}
	sort.Strings(missing)
	if after := listing(); strings.Join(after, "|") != strings.Join(filesBefore, "|") {
		viol("restart-changed-plot-directories", map[string]string{"second_directory_used": fmt.Sprint(n2 > 0)}, map[string]interface{}{"files_before": filesBefore, "files_after": after})
	}
	run.Count("keeper_restarts_compared", 1)
	run.Count("plot_files_reindexed", int64(len(created)-len(missing)))
	if len(missing) > 0 {
		viol("plot-file-not-recognised-after-restart", map[string]string{"two_digit_ordinal_present": fmt.Sprint(maxOrd >= 10)},
			map[string]interface{}{"not_indexed": missing, "indexed": len(seen), "created": len(created), "configure_err": fmt.Sprint(err)})
	}
	run.Case(vh.HashS(fmt.Sprintf("keeper-%d-%d", before, n)), maxOrd >= 10)
}

func main() {
	run := vh.NewRun("C06", "exploration")
	wl.Setup(filepath.Join(run.Scratch, "log"), "error")
	nseq := run.N(40, 400)
	wl.RunHistories(run, wl.HistOpts{
		Prop: "C06", N: nseq, MinSteps: run.N(12, 15), MaxSteps: run.N(22, 40), Hostile: 10, EarlyUnlock: 40,
		W: wl.Weights{"create": 5, "next": 10, "genpub": 16, "remark": 1, "chpriv": 2, "chpub": 1, "delete": 2,
			"export": 4, "import": 5, "lock": 5, "unlock": 6, "sign": 1, "restart": 8},
		Before: func(e *wl.Env) {
			// from the first restart on the wallet runs over a fault-injecting store (disarmed = pass-through)
			e.Wrap = func(d db.DB) db.DB { return wl.NewFaultDB(d) }
		},
		Mutate: func(r *vh.Rng, ops []wl.Op) []wl.Op {
			if r.Chance(1, 2) {
				// a request whose commit fails, then requests that must neither repeat nor skip a key, across a restart
				pos := 1 + r.Intn(len(ops))
				ins := []wl.Op{{Kind: "restart"}, {Kind: "genpub"}, {Kind: "genpub", CommitFault: true}, {Kind: "genpub"}, {Kind: "genpub", CommitFault: r.Bool()}, {Kind: "restart"}, {Kind: "genpub"}}
				out := append([]wl.Op{}, ops[:pos]...)
				out = append(out, ins...)
				ops = append(out, ops[pos:]...)
			}
			if r.Chance(1, 3) {
				return ops
			}
			// issuance must continue correctly across an export / delete / import round trip (unequal branch counts)
			ins := []wl.Op{{Kind: "genpub"}, {Kind: "next", N: r.Range(1, 4), Internal: true}, {Kind: "genpub"}, {Kind: "export", PC: "cur", K: 0}, {Kind: "delete", PC: "cur", K: 0}, {Kind: "import", PC: "exp", X: 0}, {Kind: "genpub"}, {Kind: "next", N: 1, Internal: r.Bool()}}
			pos := 1 + r.Intn(len(ops)/2+1)
			out := append([]wl.Op{}, ops[:pos]...)
			out = append(out, ins...)
			out = append(out, ops[pos:]...)
			if r.Chance(1, 8) {
				// ordinals past 255 (no longer one byte), issued in bulk and one by one, then a restart and the final lookups
				out = append(out, wl.Op{Kind: "next", N: 245 + r.Intn(20), K: 0}, wl.Op{Kind: "genpub"}, wl.Op{Kind: "genpub"}, wl.Op{Kind: "genpub"}, wl.Op{Kind: "restart"}, wl.Op{Kind: "genpub"})
			}
			return out
		},
		Nontrivial: func(e *wl.Env) bool {
			n := 0
			for _, id := range e.M.Order {
				for _, k := range e.M.Ks[id].Keys {
					if k.Src == "genpub" {
						n++
					}
				}
			}
			return n >= 2 && e.Nontrivial()["restart"]
		},
		After: func(e *wl.Env) {
			// final lookups: every issued external key still has its ordinal
			for _, id := range e.M.Order {
				for _, k := range e.M.Ks[id].Keys {
					ord, ok := e.W.M.GetPublicKeyOrdinal(wl.ParsePub(k.Pub))
					if !ok || ord != k.Index {
						e.Report([]string{"C06"}, "ordinal-lookup-disagrees-with-issuance", map[string]string{"mode": "final"}, map[string]interface{}{"pub": k.Pub, "ordinal": ord, "index": k.Index})
					}
					run.Count("final_ordinal_lookups", 1)
				}
			}
		},
	})
	root := run.Rng()
	nconc := run.N(40, 400)
	vh.Parallel(nconc, 8, func(i int) {
		if run.Want(nseq + i) {
			concurrentCase(run, root, i, nseq+i)
		}
	})
	nkeep := run.N(24, 300)
	vh.Parallel(nkeep, 8, func(i int) {
		if run.Want(nseq + nconc + i) {
			keeperCase(run, root, i, nseq+nconc+i)
		}
	})
	run.Finish("keeper case = a real capacity keeper creates 1-14 header-only bl-24 spaces on a real wallet that issued 0-12 keys before; every plot file name must carry the wallet's ordinal of its key, ordinals consecutive; after closing and reopening the wallet a second keeper must index every file (non-trivial = an ordinal >= 10 occurred); sequential case = seeded wallet history biased to plot-key issuance, address generation, restarts and export/import (engine checks every issued key: derived key at next external index, unique, ordinal==index, lookup agrees, also after restart); concurrent case = 2-8 goroutines issuing keys through GenerateNewPublicKey/NextAddresses on 1-2 keystores, the recorded issuance log is checked as a set (unique keys, per keystore indices exactly consecutive, each key the derived one), then restart; non-trivial = >=2 plot keys issued and a restart / >=4 concurrent issuances", run.N(40, 400))
}
