// c07: a completed plot equals the proof-of-capacity construction.
//
// Runs the REAL plotter (massdb.v1: plot.go, hashmap.go, cache.go, massdb.v1.go) on seeded
// (public key, bit length, memory-window configuration) cases, uninterrupted, and judges the
// stored table against internal/ref.BuildTable (refplot):
//
//	(a) all 2^bl entries read through HashMapB.Get, byte-for-byte equal to the reference;
//	(b) tie-break independent: every non-empty stored entry is sound (P(x) == ~P(x'), F(x,x') == z),
//	    and the set of non-empty z equals the set the construction yields;
//	(c) map A file removed, Progress() == (true,true,100), number of windows per pass as intended;
//	(d) at bit length 24: GetProof(challenge, filter) serves a proof iff the construction has one
//	    (and the plot filter passes when filter), and every served proof passes poc.VerifyProof.
//
// The memory-window hook (verifhook.Size "plot.cache") is process-global, and the plotter can
// panic/exit: the parent spawns child processes (self re-exec with -child); each child plots its
// cases sequentially and prints one JSON line per case, announcing every case before it starts.
package main

import (
	"bytes"
	"encoding/hex"
	"encoding/json"
	"flag"
	"fmt"
	"os"
	"path/filepath"
	"runtime"
	"sort"
	"strconv"
	"strings"
	"sync"
	"time"

	"github.com/massnetorg/mass-core/logging"
	"github.com/massnetorg/mass-core/poc"
	"github.com/massnetorg/mass-core/poc/chiapos"
	"github.com/massnetorg/mass-core/poc/pocutil"
	"github.com/massnetorg/mass-core/pocec"
	massdb_v1 "massnet.org/mass/poc/engine/massdb/massdb.v1"
	"massnet.org/mass/verifhook"
	"verif/harness/internal/ref"
	"verif/harness/internal/vh"
)

const propID = "C07"

// ---------------------------------------------------------------------------------------------
// case list: a pure function of (seed, tier)

type caseSpec struct {
	Idx        int    `json:"idx"`
	BL         int    `json:"bl"`
	Key        int    `json:"key"`
	PrivHex    string `json:"priv_scalar_hex"`
	Cfg        string `json:"cfg"`
	CapA       uint64 `json:"cap_a"` // bytes handed to cache.Update at most, pass A; 0 = no cap
	CapB       uint64 `json:"cap_b"`
	WantA      int    `json:"want_windows_a"`
	WantB      int    `json:"want_windows_b"`
	Challenges int    `json:"challenges"`
	// Vary: the memory granted differs from window to window (factors 1, 1/2, 1, 1/3, 3/4 of the cap, never below the
	// smallest legal window), as when other processes take and release memory while the plot runs
	Vary bool `json:"memory_varies_between_windows,omitempty"`
}

// simWindowsA / simWindowsB: how many windows a cap means, from the documented window rule
// (pass A: records in cache rounded down to even; pass B: records in cache / 4 y-units).
func simWindowsA(vol uint64, rs int, cap uint64) int {
	n := 0
	for start := uint64(0); start < vol; n++ {
		mem := (vol - start) * uint64(rs)
		if cap != 0 && cap < mem {
			mem = cap
		}
		w := (mem / uint64(rs)) &^ 1
		if w == 0 {
			return -1
		}
		start += w
	}
	return n
}

func simWindowsB(half uint64, rs int, cap uint64) int {
	n := 0
	for start := uint64(0); start < half; n++ {
		mem := (half - start) * uint64(rs) * 4
		if cap != 0 && cap < mem {
			mem = cap
		}
		w := (mem / uint64(rs)) >> 2
		if w == 0 {
			return -1
		}
		start += w
	}
	return n
}

// capForA returns a cap (bytes) that gives about n windows in pass A (the exact count is simWindowsA). slack: 0 exact multiple of an even
// record count; 1 adds a partial record (not a multiple of the record size, when rs > 1);
// 2 adds one whole record (odd record count); 3 adds both.
func capForA(vol uint64, rs, n, slack int) uint64 {
	if n <= 1 {
		return 0
	}
	w := (vol + uint64(n) - 1) / uint64(n)
	w += w & 1
	c := w * uint64(rs)
	if slack&1 != 0 {
		c += uint64(rs - 1)
	}
	if slack&2 != 0 {
		c += uint64(rs)
	}
	return c
}

// capForB returns a cap (bytes) that gives about n windows in pass B (exact count: simWindowsB); slack in [0, 4*rs) extra bytes.
func capForB(half uint64, rs, n, slack int) uint64 {
	if n <= 1 {
		return 0
	}
	w := (half + uint64(n) - 1) / uint64(n)
	return w*uint64(rs)*4 + uint64(slack%(4*rs))
}

// manyWindows: 0 means "minimal legal size" (2 records per window in pass A, one y-unit in pass B:
// 2^(bl-1) windows per pass, each costing a full sweep plus four fsyncs), otherwise a window count.
func manyWindows(bl int, thorough bool) int {
	switch {
	case bl <= 10 || (thorough && bl <= 12):
		return 0
	case bl <= 14:
		return 41
	case bl <= 16:
		return 23
	default:
		return 11
	}
}

func buildCases(seed int64, thorough bool) []caseSpec {
	root := vh.NewRng(uint64(seed)).Derive(propID, 0)
	// quick: bl 8..14 with 6 keys each, plus one key at bl 18 (3-byte records: sizes that 3 does not divide)
	bls := []int{8, 10, 12, 14, 18}
	if thorough {
		bls = []int{8, 10, 12, 14, 16, 18, 20}
	}
	keysFor := func(bl int) int {
		switch {
		case !thorough && bl == 18:
			return 1
		case thorough && bl <= 16:
			return 10
		}
		return 6
	}
	var cases []caseSpec
	add := func(c caseSpec) {
		c.Idx = len(cases)
		vol := uint64(1) << uint(c.BL)
		rs := pocutil.RecordSize(c.BL)
		c.WantA = simWindowsA(vol, rs, c.CapA)
		c.WantB = simWindowsB(vol/2, rs, c.CapB)
		c.Vary = (c.WantA > 2 || c.WantB > 2) && c.Idx%3 == 0
		cases = append(cases, c)
	}
	newKey := func(label string, i int) string {
		r := root.Derive(label, i)
		for {
			b := r.Bytes(32)
			b[0] &= 0x7f // below the group order, non-zero with overwhelming probability
			if !bytes.Equal(b, make([]byte, 32)) {
				return hex.EncodeToString(b)
			}
		}
	}
	for _, bl := range bls {
		vol := uint64(1) << uint(bl)
		half := vol / 2
		rs := pocutil.RecordSize(bl)
		for k := 0; k < keysFor(bl); k++ {
			priv := newKey("key", bl*100+k)
			rr := root.Derive("cfg", bl*100+k)
			mk := func(name string, capA, capB uint64) {
				add(caseSpec{BL: bl, Key: k, PrivHex: priv, Cfg: name, CapA: capA, CapB: capB})
			}
			mk("1/1", 0, 0)
			mk("2/2-exact", capForA(vol, rs, 2, 0), capForB(half, rs, 2, 0))
			mk("3/3-nonmultiple", capForA(vol, rs, 3, 3), capForB(half, rs, 3, 4*rs-1))
			mk("7/7-nonmultiple", capForA(vol, rs, 7, 1+2*(k&1)), capForB(half, rs, 7, 1+rr.Intn(4*rs-1)))
			if m := manyWindows(bl, thorough); m == 0 {
				// minimal legal sizes: 2 records (pass A), 4 records (pass B); odd keys get sizes that are not multiples
				ca, cb := uint64(2*rs), uint64(4*rs)
				if k&1 == 1 {
					ca += uint64(rs - 1 + rs)
					cb += uint64(4*rs - 1)
				}
				mk("many/many-minimal", ca, cb)
			} else {
				mk("many/many", capForA(vol, rs, m, k&3), capForB(half, rs, m+2, rr.Intn(4*rs)))
			}
			mk("1/7-exact", 0, capForB(half, rs, 7, 0))
			mk("7/1-oddrecords", capForA(vol, rs, 7, 2), 0)
			na, nb := 2+rr.Intn(23), 2+rr.Intn(23)
			mk("rand", capForA(vol, rs, na, rr.Intn(4)), capForB(half, rs, nb, rr.Intn(4*rs)))
		}
	}
	// bit length 24: the smallest the chain accepts; GetProof is exercised here.
	// 32 MiB = 2^25 is not a multiple of the 3-byte record: 2 windows in pass A, 4 in pass B.
	if thorough {
		add(caseSpec{BL: 24, Key: 0, PrivHex: newKey("key24", 0), Cfg: "bl24-1/1", Challenges: 100000})
		add(caseSpec{BL: 24, Key: 1, PrivHex: newKey("key24", 1), Cfg: "bl24-32MiB", CapA: 32 << 20, CapB: 32 << 20, Challenges: 100000})
		add(caseSpec{BL: 24, Key: 2, PrivHex: newKey("key24", 2), Cfg: "bl24-3/1", CapA: 16<<20 + 5, Challenges: 30000})
	} else {
		// one hashing sweep per window at ~1.2 us per hash: a single-window plot is all that fits the quick tier
		add(caseSpec{BL: 24, Key: 1, PrivHex: newKey("key24", 1), Cfg: "bl24-1/1", Challenges: 20000})
	}
	return cases
}

func (c *caseSpec) pubKey() *pocec.PublicKey {
	b, _ := hex.DecodeString(c.PrivHex)
	_, pub := pocec.PrivKeyFromBytes(pocec.S256(), b)
	return pub
}

func (c *caseSpec) hash() uint64 {
	return vh.Hash64(c.pubKey().SerializeCompressed(), []byte(fmt.Sprintf("%d/%d/%d", c.BL, c.CapA, c.CapB)))
}

// ---------------------------------------------------------------------------------------------
// child: plots and judges its cases, one JSON line per case

type viol struct {
	Kind   string                 `json:"kind"`
	Attrs  map[string]string      `json:"attrs"`
	Detail map[string]interface{} `json:"detail"`
}

type result struct {
	Idx         int              `json:"idx"`
	Completed   bool             `json:"completed"`
	Harness     string           `json:"harness_error,omitempty"` // the case could not be set up / judged
	PlotErr     string           `json:"plot_err,omitempty"`
	WinA        int              `json:"win_a"`
	WinB        int              `json:"win_b"`
	TilingOK    bool             `json:"tiling_ok"`
	Entries     uint64           `json:"entries"`
	NonEmptyRef uint64           `json:"nonempty_ref"`
	NonEmpty    uint64           `json:"nonempty_stored"`
	Counters    map[string]int64 `json:"counters"`
	Viol        []viol           `json:"viol"`
	RefMs       int64            `json:"ref_ms"`
	PlotMs      int64            `json:"plot_ms"`
	CheckMs     int64            `json:"check_ms"`
}

const (
	startMark  = "C07-START "
	resultMark = "C07-RESULT "
)

func childMain(args []string) {
	fs := flag.NewFlagSet("child", flag.ExitOnError)
	seed := fs.Int64("seed", 1, "")
	tier := fs.String("tier", "quick", "")
	list := fs.String("cases", "", "")
	dir := fs.String("dir", "", "")
	fs.Parse(args)
	logging.Init(filepath.Join(*dir, "log"), "c07", "error", 1, true)
	cases := buildCases(*seed, *tier == "thorough")
	var tbl *ref.Table
	var tblKey string
	for _, s := range strings.Split(*list, ",") {
		i, err := strconv.Atoi(s)
		if err != nil || i < 0 || i >= len(cases) {
			continue
		}
		cs := cases[i]
		fmt.Printf("%s%d\n", startMark, i)
		pkh := pocutil.PubKeyHash(cs.pubKey())
		var refMs int64
		if k := fmt.Sprintf("%d/%x", cs.BL, pkh); k != tblKey {
			tbl = nil
			runtime.GC()
			t0 := time.Now()
			tbl = ref.BuildTable(pkh, cs.BL)
			refMs = time.Since(t0).Milliseconds()
			tblKey = k
		}
		r := runCase(&cs, filepath.Join(*dir, fmt.Sprintf("case%d", i)), tbl)
		r.RefMs = refMs
		b, _ := json.Marshal(r)
		fmt.Printf("%s%s\n", resultMark, b)
	}
}

type window struct{ Start, End uint64 }

func allZero(b []byte) bool {
	for _, c := range b {
		if c != 0 {
			return false
		}
	}
	return true
}

func tiles(ws []window, total uint64) bool {
	if len(ws) == 0 {
		return false
	}
	pos := uint64(0)
	for _, w := range ws {
		if w.Start != pos || w.End <= w.Start {
			return false
		}
		pos = w.End
	}
	return pos >= total
}

func runCase(cs *caseSpec, dir string, tbl *ref.Table) (r result) {
	r = result{Idx: cs.Idx, Counters: map[string]int64{}}
	bl := cs.BL
	vol := uint64(1) << uint(bl)
	rs := pocutil.RecordSize(bl)
	pub := cs.pubKey()
	pubHex := hex.EncodeToString(pub.SerializeCompressed())
	pkh := pocutil.PubKeyHash(pub)
	multi := "single-window"
	if cs.WantA > 1 || cs.WantB > 1 {
		multi = "multi-window"
	}
	baseDetail := func() map[string]interface{} {
		return map[string]interface{}{"pubkey_hex": pubHex, "priv_scalar_hex": cs.PrivHex, "bl": bl, "cfg": cs.Cfg,
			"window_bytes_pass_a": cs.CapA, "window_bytes_pass_b": cs.CapB, "record_size": rs,
			"how": "CreateDB(dir,0,pubkey,bl); verifhook.SetSize(\"plot.cache\", min(v,cap of the pass)); <-Plot(); compare HashMapB.Get(z) with refplot"}
	}
	addViol := func(kind, class string, extra map[string]interface{}) {
		d := baseDetail()
		for k, v := range extra {
			d[k] = v
		}
		r.Viol = append(r.Viol, viol{Kind: kind, Attrs: map[string]string{"class": class, "bl": strconv.Itoa(bl), "windows": multi}, Detail: d})
	}
	if cs.WantA < 1 || cs.WantB < 1 {
		r.Harness = "illegal window configuration (zero-record window)"
		return
	}

	os.RemoveAll(dir)
	if err := os.MkdirAll(dir, 0o755); err != nil {
		r.Harness = "mkdir: " + err.Error()
		return
	}
	defer os.RemoveAll(dir)

	dbi, err := massdb_v1.CreateDB(dir, int64(cs.Key), pub, bl)
	if err != nil {
		r.Harness = "CreateDB: " + err.Error()
		return
	}
	mdb := dbi.(*massdb_v1.MassDBV1)
	defer mdb.Close()

	// hook state (handlers run on the plotting goroutine)
	var mu sync.Mutex
	pass := 'A'
	var winA, winB []window
	var seen = map[string]int{}
	verifhook.Reset()
	verifhook.SetSize("plot.cache", func(v uint64) uint64 {
		mu.Lock()
		defer mu.Unlock()
		c := cs.CapA
		if pass == 'B' {
			c = cs.CapB
		}
		seen["size."+string(pass)]++
		if c != 0 && cs.Vary {
			k := seen["size."+string(pass)] - 1
			num, den := []uint64{1, 1, 1, 1, 3}[k%5], []uint64{1, 2, 1, 3, 4}[k%5]
			c = c * num / den
			min := uint64(2 * rs)
			if pass == 'B' {
				min = uint64(4 * rs)
			}
			if c < min {
				c = min
			}
		}
		if c != 0 && c < v {
			return c // only ever lowers
		}
		return v
	})
	// windows are flushed to the table file in blocks (256 MiB in production): with the block size lowered every
	// multi-record window of these small tables is flushed in several blocks too
	if cs.Idx%2 == 0 {
		blk := uint64(64 << uint(cs.Idx%5)) // 64 .. 1024 bytes
		verifhook.SetSize("plot.writeblock", func(v uint64) uint64 {
			if blk < v {
				return blk
			}
			return v
		})
		seen["small-write-blocks"] = 1
	}
	rec := func(name string, f func(args []interface{})) {
		verifhook.SetPoint(name, func(args ...interface{}) {
			mu.Lock()
			defer mu.Unlock()
			seen[name]++
			if f != nil {
				f(args)
			}
		})
	}
	getWin := func(args []interface{}) (window, bool) {
		if len(args) < 3 {
			return window{}, false
		}
		s, ok1 := args[1].(uint64)
		e, ok2 := args[2].(uint64)
		return window{s, e}, ok1 && ok2
	}
	rec("plot.A.checkpointed", func(a []interface{}) {
		if w, ok := getWin(a); ok {
			winA = append(winA, w)
		}
	})
	rec("plot.B.checkpointed", func(a []interface{}) {
		if w, ok := getWin(a); ok {
			winB = append(winB, w)
		}
	})
	rec("plot.A.final", func([]interface{}) { pass = 'B' })
	rec("plot.B.final", nil)
	rec("plot.beforeRemoveA", nil)
	rec("plot.afterRemoveA", nil)
	defer verifhook.Reset()

	t0 := time.Now()
	perr := <-mdb.Plot()
	r.PlotMs = time.Since(t0).Milliseconds()
	mu.Lock()
	r.WinA, r.WinB = len(winA), len(winB)
	r.TilingOK = tiles(winA, vol) && tiles(winB, vol/2)
	finished := seen["plot.A.final"] == 1 && seen["plot.B.final"] == 1 && seen["plot.afterRemoveA"] == 1
	mu.Unlock()
	if perr != nil {
		r.PlotErr = perr.Error()
		return
	}
	if !finished {
		r.PlotErr = "Plot() returned nil but the plot did not run to its end (hook points not reached)"
		return
	}
	r.Completed = true
	t1 := time.Now()

	// (c) map A gone, progress complete
	prePlotted, plotted, progress := mdb.Progress()
	if !(prePlotted && plotted && progress == 100) || !mdb.Ready() {
		addViol("progress-not-complete-after-plot", "progress", map[string]interface{}{"pre_plotted": prePlotted, "plotted": plotted, "progress": progress, "ready": mdb.Ready()})
	}
	ents, _ := os.ReadDir(dir)
	var names []string
	for _, e := range ents {
		names = append(names, e.Name())
	}
	wantB := fmt.Sprintf("%d_%s_%d.massdb", cs.Key, pubHex, bl)
	if mdb.HashMapA != nil || len(names) != 1 || names[0] != wantB {
		addViol("map-a-not-removed", "files", map[string]interface{}{"files_left": names, "expected_only": wantB, "hashmap_a_nil": mdb.HashMapA == nil})
	}
	if st, err := os.Stat(filepath.Join(dir, wantB)); err == nil {
		if want := int64(4096) + int64(2*rs)*int64(vol); st.Size() != want {
			r.Counters["mapb_file_size_unexpected"]++
		}
	}

	// (a)+(b) every entry
	type first struct {
		z            uint64
		sx, sxp      string
		rx, rxp      string
		storedSound  bool
		have         bool
		count, sound uint64
	}
	type part struct {
		cls                        map[string]*first
		nonEmpty, nonEmptyRef, bad uint64
		readErr                    *first
	}
	workers := 1
	if bl >= 20 {
		workers = 8
	}
	parts := make([]part, workers)
	var wg sync.WaitGroup
	for w := 0; w < workers; w++ {
		wg.Add(1)
		go func(w int) {
			defer wg.Done()
			p := &parts[w]
			p.cls = map[string]*first{}
			lo, hi := vol*uint64(w)/uint64(workers), vol*uint64(w+1)/uint64(workers)
			note := func(class string, z uint64, xb, xpb, rxb, rxpb []byte, sound bool) {
				f := p.cls[class]
				if f == nil {
					f = &first{z: z, sx: hex.EncodeToString(xb), sxp: hex.EncodeToString(xpb), rx: hex.EncodeToString(rxb), rxp: hex.EncodeToString(rxpb), storedSound: sound, have: true}
					p.cls[class] = f
				}
				f.count++
				if sound {
					f.sound++
				}
			}
			for z := lo; z < hi; z++ {
				xb, xpb, err := mdb.HashMapB.Get(pocutil.PoCValue(z))
				rxb, rxpb := tbl.Bytes(z)
				refEmpty := tbl.Empty(z)
				if !refEmpty {
					p.nonEmptyRef++
				}
				if err != nil {
					note("read-error", z, nil, nil, rxb, rxpb, false)
					continue
				}
				storedEmpty := allZero(xb) && allZero(xpb)
				sound := false
				if !storedEmpty {
					p.nonEmpty++
					sound = ref.Sound(pkh, bl, z, xb, xpb)
					if !sound {
						note("unsound", z, xb, xpb, rxb, rxpb, false)
					}
				}
				if bytes.Equal(xb, rxb) && bytes.Equal(xpb, rxpb) {
					continue
				}
				switch {
				case storedEmpty:
					note("missing", z, xb, xpb, rxb, rxpb, false)
				case refEmpty:
					note("spurious", z, xb, xpb, rxb, rxpb, sound)
				default:
					note("different-pair", z, xb, xpb, rxb, rxpb, sound)
				}
			}
		}(w)
	}
	wg.Wait()
	merged := map[string]*first{}
	for i := range parts { // parts are in ascending z order, so the first seen is the lowest z
		r.NonEmpty += parts[i].nonEmpty
		r.NonEmptyRef += parts[i].nonEmptyRef
		for class, f := range parts[i].cls {
			m := merged[class]
			if m == nil {
				c := *f
				merged[class] = &c
			} else {
				m.count += f.count
				m.sound += f.sound
			}
		}
	}
	r.Entries = vol
	classes := make([]string, 0, len(merged))
	for c := range merged {
		classes = append(classes, c)
	}
	sort.Strings(classes)
	summary := map[string]uint64{}
	for _, c := range classes {
		summary[c] = merged[c].count
	}
	for _, c := range classes {
		f := merged[c]
		kind := "table-differs-from-construction"
		switch c {
		case "unsound":
			kind = "stored-entry-is-not-a-valid-proof"
		case "read-error":
			kind = "entry-unreadable-after-plot"
		}
		addViol(kind, c, map[string]interface{}{
			"first_z": f.z, "stored_x_hex": f.sx, "stored_xp_hex": f.sxp, "reference_x_hex": f.rx, "reference_xp_hex": f.rxp,
			"first_stored_entry_sound": f.storedSound, "entries_in_class": f.count, "of_which_sound": f.sound,
			"all_classes": summary, "nonempty_stored": r.NonEmpty, "nonempty_reference": r.NonEmptyRef,
			"windows_a": winA2s(winA), "windows_b": winA2s(winB),
			"meaning": "missing = construction has a pair, table empty (completeness); unsound = stored pair fails P(x)==~P(x') or F(x,x')==z (soundness); spurious = table has a pair where the construction has none; different-pair = both have a pair but not the same (if sound: tie-break differs)"})
	}

	// (d) proofs served (only where the chain accepts the bit length)
	if cs.Challenges > 0 {
		rng := vh.NewRng(uint64(cs.hash())).Derive("challenges", cs.Idx)
		firstBad := map[string]bool{}
		for i := 0; i < cs.Challenges; i++ {
			var ch pocutil.Hash
			copy(ch[:], rng.Bytes(32))
			filter := false
			switch {
			case i < 4: // edge prefixes 0 and 2^bl-1, with and without filter
				v := byte(0)
				if i&1 == 1 {
					v = 0xff
				}
				for j := 0; j < 8; j++ {
					ch[j] = v
				}
				filter = i >= 2
			case i%20 == 3: // searched: passes the plot filter
				filter = true
				for t := 0; t < 1<<16 && !chiapos.PassPlotFilter(pkh, ch); t++ {
					copy(ch[:], rng.Bytes(32))
				}
			case i%4 == 2:
				filter = true
			}
			z, _, _ := tbl.ForChallenge(ch)
			rxb, rxpb := tbl.Bytes(z)
			passes := !filter || chiapos.PassPlotFilter(pkh, ch)
			expect := !tbl.Empty(z) && poc.VerifyProof(poc.NewDefaultProof(rxb, rxpb, bl), pkh, ch, filter) == nil
			proof, gerr := mdb.GetProof(ch, filter)
			r.Counters["challenges"]++
			if filter {
				r.Counters["challenges_with_filter"]++
				if passes {
					r.Counters["challenges_passing_filter"]++
				}
			}
			if expect {
				r.Counters["challenges_with_proof_in_construction"]++
			} else {
				r.Counters["challenges_without_proof_in_construction"]++
			}
			bad := func(kind, class string, extra map[string]interface{}) {
				r.Counters["bad:"+kind]++
				if firstBad[kind] {
					return
				}
				firstBad[kind] = true
				extra["challenge_hex"] = hex.EncodeToString(ch[:])
				extra["filter"] = filter
				extra["passes_plot_filter"] = chiapos.PassPlotFilter(pkh, ch)
				extra["z"] = z
				extra["reference_x_hex"], extra["reference_xp_hex"] = hex.EncodeToString(rxb), hex.EncodeToString(rxpb)
				addViol(kind, class, extra)
			}
			if gerr != nil || proof == nil {
				r.Counters["proofs_not_served"]++
				if expect {
					bad("proof-exists-but-not-served", "getproof", map[string]interface{}{"err": fmt.Sprint(gerr)})
				}
				continue
			}
			r.Counters["proofs_served"]++
			if verr := poc.VerifyProof(proof, pkh, ch, filter); verr != nil {
				bad("served-proof-does-not-verify", "getproof", map[string]interface{}{"verify_err": verr.Error(), "x_hex": hex.EncodeToString(proof.X), "xp_hex": hex.EncodeToString(proof.XPrime)})
				continue
			}
			r.Counters["proofs_verified"]++
			if !expect {
				bad("proof-served-where-construction-has-none", "getproof", map[string]interface{}{"x_hex": hex.EncodeToString(proof.X), "xp_hex": hex.EncodeToString(proof.XPrime)})
			} else if !bytes.Equal(proof.X, rxb) || !bytes.Equal(proof.XPrime, rxpb) || proof.BL != bl {
				bad("served-proof-differs-from-construction", "getproof", map[string]interface{}{"x_hex": hex.EncodeToString(proof.X), "xp_hex": hex.EncodeToString(proof.XPrime)})
			}
		}
	}
	r.CheckMs = time.Since(t1).Milliseconds()
	return
}

func winA2s(ws []window) interface{} {
	if len(ws) > 12 {
		return fmt.Sprintf("%d windows, first %v, last %v", len(ws), ws[0], ws[len(ws)-1])
	}
	return ws
}

// ---------------------------------------------------------------------------------------------
// parent

type group struct {
	bl    int
	cases []int
}

func main() {
	if len(os.Args) > 1 && os.Args[1] == "-child" {
		childMain(os.Args[2:])
		return
	}
	run := vh.NewRun(propID, "exploration")
	logging.Init(filepath.Join(run.Scratch, "log"), "c07", "error", 1, true)

	// the reference checks itself against the definition (different code path) before it judges anything
	for i, bl := range []int{8, 10, 12} {
		pkh := pocutil.DoubleSHA256([]byte(fmt.Sprintf("c07-selfcheck-%d-%d", run.Seed, i)))
		if msg := ref.BuildTable(pkh, bl).SelfCheck(); msg != "" {
			run.Inconclusive("refplot self-check failed at bl " + strconv.Itoa(bl) + ": " + msg)
			run.Finish("n/a", 0)
		}
	}
	run.Assume("internal/ref.BuildTable (refplot) built on the chain library's pocutil.P/F/PB/FB/FlipValue; self-checked at start-up against a map-based restatement of the definition at bl 8/10/12")
	run.Assume("plots are uninterrupted (one Plot() call awaited to completion); resume behaviour belongs to C10")
	run.Assume("memory windows are emulated by lowering the cache size in makeAvailableMemory (hook H1), never below one record-pair per window; bit lengths above 24 are not plotted (size)")

	cases := buildCases(run.Seed, run.Thorough())
	planned := 0
	gmap := map[string]*group{}
	var groups []*group
	for _, c := range cases {
		if !run.Want(c.Idx) {
			continue
		}
		planned++
		k := fmt.Sprintf("%d/%d", c.BL, c.Key)
		g := gmap[k]
		if g == nil {
			g = &group{bl: c.BL}
			gmap[k] = g
			groups = append(groups, g)
		}
		g.cases = append(g.cases, c.Idx)
	}
	sort.SliceStable(groups, func(i, j int) bool { return groups[i].bl > groups[j].bl }) // heaviest first
	exe, err := os.Executable()
	if err != nil {
		exe = os.Args[0]
	}
	timeout := 15 * time.Minute
	if run.Thorough() {
		timeout = 45 * time.Minute
	}

	shapes := map[string]bool{}
	var smu sync.Mutex
	vh.Parallel(len(groups), runtime.NumCPU(), func(gi int) {
		g := groups[gi]
		todo := append([]int{}, g.cases...)
		for attempt := 0; len(todo) > 0; attempt++ {
			dir := filepath.Join(run.Scratch, fmt.Sprintf("g%d-%d", gi, attempt))
			os.MkdirAll(dir, 0o755)
			strs := make([]string, len(todo))
			for i, c := range todo {
				strs[i] = strconv.Itoa(c)
			}
			out := filepath.Join(dir, "child.out")
			res := vh.RunChild([]string{exe, "-child", "-seed", strconv.FormatInt(run.Seed, 10), "-tier", run.Tier, "-cases", strings.Join(strs, ","), "-dir", dir}, nil, out, timeout)
			started, done := -1, map[int]bool{}
			for _, l := range vh.ReadLines(out) {
				switch {
				case strings.HasPrefix(l, startMark):
					started, _ = strconv.Atoi(strings.TrimPrefix(l, startMark))
				case strings.HasPrefix(l, resultMark):
					var r result
					if json.Unmarshal([]byte(strings.TrimPrefix(l, resultMark)), &r) != nil {
						continue
					}
					done[r.Idx] = true
					absorb(run, &cases[r.Idx], &r, shapes, &smu)
				}
			}
			var rest []int
			for _, c := range todo {
				if !done[c] && c != started {
					rest = append(rest, c)
				}
			}
			if started >= 0 && !done[started] {
				cs := &cases[started]
				fatal := vh.ScanFatal(out, 25)
				switch {
				case res.TimedOut:
					run.Drop("child-watchdog-expired")
				case len(fatal) == 0 && res.Signal != "":
					run.Drop("child-killed-from-outside:" + res.Signal)
				default:
					pub := hex.EncodeToString(cs.pubKey().SerializeCompressed())
					if fr := vh.DyingFrames(out); len(fr) > 0 && vh.CodeUnderTestFrame(fr) == "" {
						// the process died in a goroutine without a frame of the code under test: a harness fault, never a verdict
						run.Drop("child died in harness code")
						run.Inconclusive("a child process died in harness code: " + fr[0])
					} else {
						run.Violate(cs.Idx, "plotting-process-died", map[string]string{"class": "process-death", "bl": strconv.Itoa(cs.BL)}, map[string]interface{}{
							"pubkey_hex": pub, "priv_scalar_hex": cs.PrivHex, "bl": cs.BL, "cfg": cs.Cfg, "window_bytes_pass_a": cs.CapA, "window_bytes_pass_b": cs.CapB,
							"exit_code": res.ExitCode, "signal": res.Signal, "fatal": fatal})
					}
				}
				run.Case(cs.hash(), false)
			} else if len(rest) == len(todo) {
				// the child produced nothing at all: do not loop forever
				for range rest {
					run.Drop("child-did-not-start")
				}
				rest = nil
			}
			os.RemoveAll(dir)
			todo = rest
		}
	})

	if run.Only < 0 {
		multi := 0
		for s := range shapes {
			if !strings.HasPrefix(s, "1/1") {
				multi++
			}
		}
		run.Set("distinct_window_shapes", len(shapes))
		run.Set("distinct_multi_window_shapes", multi)
		if multi < 6 {
			run.Inconclusive(fmt.Sprintf("only %d distinct multi-window shapes (windowsA/windowsB) were observed", multi))
		}
		if n := run.Counter("window_count_differs_from_intended") + run.Counter("window_tiling_unexpected"); n > 0 {
			run.Inconclusive(fmt.Sprintf("%d plots did not use the windows the configuration intended: the window emulation no longer matches plot.go", n))
		}
		if run.Counter("challenges_with_proof_in_construction") == 0 || run.Counter("proofs_served") == 0 {
			run.Inconclusive("no proof was served at bit length 24")
		}
	}
	run.Finish("cases = seeded (secp256k1 public key, bit length, window bytes for pass A, window bytes for pass B); one uninterrupted real plot each, all 2^bl entries compared with refplot; "+
		"non-trivial = the plot completed and at least one non-empty entry was compared; distinct by hash(pubkey, bl, window sizes)", planned*2/3)
}

func absorb(run *vh.Run, cs *caseSpec, r *result, shapes map[string]bool, smu *sync.Mutex) {
	if r.Harness != "" {
		run.Drop("harness:" + r.Harness)
		run.Case(cs.hash(), false)
		return
	}
	if !r.Completed {
		// an uninterrupted plot that ends with an error never "completes": nothing to judge for this property
		run.Drop("plot-did-not-complete:" + r.PlotErr)
		run.Case(cs.hash(), false)
		return
	}
	run.Case(cs.hash(), r.NonEmptyRef > 0 && r.Entries > 0)
	run.Count("plots_completed", 1)
	run.Count(fmt.Sprintf("plots_bl%02d", cs.BL), 1)
	run.Count("entries_compared", int64(r.Entries))
	run.Count("entries_nonempty_in_reference", int64(r.NonEmptyRef))
	run.Count("entries_nonempty_stored", int64(r.NonEmpty))
	run.Count("windows_pass_a:"+bucket(r.WinA), 1)
	run.Count("windows_pass_b:"+bucket(r.WinB), 1)
	if r.WinA > 1 || r.WinB > 1 {
		run.Count("plots_multi_window", 1)
	}
	if cs.Vary {
		run.Count("plots_with_memory_varying_between_windows", 1)
	} else if r.WinA != cs.WantA || r.WinB != cs.WantB {
		run.Count("window_count_differs_from_intended", 1)
	}
	if !r.TilingOK {
		run.Count("window_tiling_unexpected", 1)
	}
	for k, v := range r.Counters {
		run.Count(k, v)
	}
	smu.Lock()
	shapes[fmt.Sprintf("%d/%d", r.WinA, r.WinB)] = true
	smu.Unlock()
	for _, v := range r.Viol {
		run.Violate(cs.Idx, v.Kind, v.Attrs, v.Detail)
	}
	if cs.Idx%67 == 0 || cs.BL == 24 {
		run.Sample(map[string]interface{}{"case": cs.Idx, "pubkey_hex": hex.EncodeToString(cs.pubKey().SerializeCompressed()), "bl": cs.BL, "cfg": cs.Cfg,
			"window_bytes_pass_a": cs.CapA, "window_bytes_pass_b": cs.CapB, "windows_a": r.WinA, "windows_b": r.WinB,
			"nonempty_entries": r.NonEmpty, "ref_ms": r.RefMs, "plot_ms": r.PlotMs, "check_ms": r.CheckMs})
	}
}

func bucket(n int) string {
	switch {
	case n <= 3:
		return fmt.Sprintf("%04d", n)
	case n <= 7:
		return "0004-0007"
	case n <= 24:
		return "0008-0024"
	case n <= 64:
		return "0025-0064"
	case n <= 512:
		return "0065-0512"
	default:
		return "0513+"
	}
}
