package main

// Scripted Chain, SyncManager and SpaceKeeper for one scenario. They record everything the real
// miner does with them (with wall-clock times, because the miner reads time.Now() itself).

import (
	"context"
	"errors"
	"io"
	"math/big"
	"sync"
	"sync/atomic"
	"time"

	"github.com/massnetorg/mass-core/blockchain"
	"github.com/massnetorg/mass-core/massutil"
	"github.com/massnetorg/mass-core/poc"
	"github.com/massnetorg/mass-core/poc/pocutil"
	"github.com/massnetorg/mass-core/pocec"
	"github.com/massnetorg/mass-core/wire"
	"massnet.org/mass/poc/engine"
)

var errScriptNoTemplate = errors.New("scripted chain: no template on the current tip")
var errScriptRejected = errors.New("scripted chain: block rejected")
var errNotScripted = errors.New("scripted keeper: not implemented")

// submission is one Chain.ProcessBlock call as the scripted chain saw it.
type submission struct {
	At        time.Time
	Round     int // index of the round whose challenge the header carries, -1 unknown
	Height    uint64
	Previous  wire.Hash
	Challenge wire.Hash
	Timestamp time.Time
	Target    *big.Int
	PubKey    []byte // compressed; nil when not a pocec key
	ProofX    []byte
	ProofXP   []byte
	ProofBL   int
	ProofOK   bool // header proof is a *poc.DefaultProof
	SigOK     bool // header signature is a *pocec.Signature
	Sig       *pocec.Signature
	PoCHash   wire.Hash
	PoCErr    string
	BlockHash wire.Hash
	Result    string // accept | reject | orphan
}

type keeperCall struct {
	At        time.Time
	Challenge pocutil.Hash
	Filter    bool
	Flags     engine.WorkSpaceStateFlags
	N         int
}

type signCall struct {
	At   time.Time
	SID  string
	Hash [32]byte
	Err  bool
}

// fakeChain implements miner.Chain and miner.SyncManager.
type fakeChain struct {
	// switchAtTemplate (class tip-at-template): becomes the best node inside the first NewBlockTemplate call
	switchAtTemplate *blockchain.BlockNode
	switchedAt       time.Time
	sc               *scenario

	mu            sync.Mutex
	cur           int // current round, -1 = no template on the tip
	best          *blockchain.BlockNode
	waiter        chan *blockchain.BlockNode
	subs          []submission
	accepted      map[uint64]int // height -> number of accepted submissions
	templates     []int          // per round: templates delivered
	reoffered     int            // templates delivered for a height that was already accepted
	waiters       int
	waiterRefused int
	lostTips      int
	subCh         chan int // index into subs, signalled on every ProcessBlock

	peers    int
	caughtUp bool
}

func newFakeChain(sc *scenario) *fakeChain {
	return &fakeChain{sc: sc, cur: -1, accepted: map[uint64]int{}, templates: make([]int, len(sc.rounds)),
		subCh: make(chan int, 64), peers: sc.P.Peers, caughtUp: sc.P.CaughtUp}
}

func (c *fakeChain) IsCaughtUp() bool { return c.caughtUp }
func (c *fakeChain) PeerCount() int   { return c.peers }

func (c *fakeChain) BestBlockNode() *blockchain.BlockNode {
	c.mu.Lock()
	defer c.mu.Unlock()
	return c.best
}
func (c *fakeChain) BestBlockHash() *wire.Hash { return c.BestBlockNode().Hash }
func (c *fakeChain) BestBlockHeight() uint64   { return c.BestBlockNode().Height }
func (c *fakeChain) ChainID() *wire.Hash       { h := wire.Hash{0xc0, 0x08}; return &h }
func parentNode(r *round) *blockchain.BlockNode {
	h := r.Prev
	return &blockchain.BlockNode{Hash: &h, Height: r.Height - 1, CapSum: big.NewInt(1000), Timestamp: r.T0.Add(-poc.PoCSlot * time.Second), Quality: big.NewInt(1000)}
}

// setRound makes round ri the template of the tip (its parent becomes the best node).
func (c *fakeChain) setRound(ri int) {
	c.mu.Lock()
	c.cur = ri
	c.best = parentNode(c.sc.rounds[ri])
	c.mu.Unlock()
}

func (c *fakeChain) BlockWaiter(height uint64) (<-chan *blockchain.BlockNode, error) {
	c.mu.Lock()
	defer c.mu.Unlock()
	c.waiters++
	if c.best != nil && c.best.Height > height {
		// Blockchain.BlockWaiter: waiting for a height the best chain has already left behind is refused
		c.waiterRefused++
		return nil, errors.New("wait for old block height")
	}
	ch := make(chan *blockchain.BlockNode, 1)
	c.waiter = ch
	return ch, nil
}

// announceSideThenGrow: a side-chain block that is not better reaches the registered waiter, and before the waiter can be
// registered again the best chain has grown past the parent's height (so the re-registration is refused).
func (c *fakeChain) announceSideThenGrow(side, grown *blockchain.BlockNode) (delivered bool, at time.Time) {
	c.mu.Lock()
	defer c.mu.Unlock()
	c.best = grown
	c.cur = -1
	if c.waiter != nil {
		c.waiter <- side
		close(c.waiter)
		c.waiter = nil
		delivered = true
	}
	return delivered, time.Now()
}

// announce delivers a competing tip the way Blockchain.BlockWaiter does (one node, then close).
// A better tip also becomes the best node and leaves the tip without a template of ours.
func (c *fakeChain) announce(node *blockchain.BlockNode, better bool) (delivered bool, at time.Time) {
	c.mu.Lock()
	defer c.mu.Unlock()
	if better {
		c.best = node
		c.cur = -1
	}
	if c.waiter != nil {
		c.waiter <- node
		close(c.waiter)
		c.waiter = nil
		delivered = true
	} else if !better {
		c.lostTips++
	}
	return delivered, time.Now()
}

func (c *fakeChain) NewBlockTemplate(addrs []massutil.Address, ch chan interface{}) error {
	c.mu.Lock()
	ri := c.cur
	if ri < 0 {
		c.mu.Unlock()
		return errScriptNoTemplate
	}
	r := c.sc.rounds[ri]
	c.templates[ri]++
	if c.accepted[r.Height] > 0 {
		c.reoffered++
	}
	if c.switchAtTemplate != nil {
		// the template was snapshot on the old tip; a better tip is connected before the miner gets to work on it
		c.best, c.cur = c.switchAtTemplate, -1
		c.switchAtTemplate = nil
		c.switchedAt = time.Now()
	}
	c.mu.Unlock()
	pt, bt := r.templates()
	go func() { // mass-core sends both from a goroutine of its own
		ch <- pt
		ch <- bt
	}()
	return nil
}

func (c *fakeChain) ProcessBlock(b *massutil.Block) (bool, error) {
	at := time.Now()
	h := &b.MsgBlock().Header
	s := submission{At: at, Round: -1, Height: h.Height, Previous: h.Previous, Challenge: h.Challenge, Timestamp: h.Timestamp}
	if h.Target != nil {
		s.Target = new(big.Int).Set(h.Target)
	}
	if pk, ok := h.PubKey.(*pocec.PublicKey); ok && pk != nil {
		s.PubKey = pk.SerializeCompressed()
	}
	if p, ok := h.Proof.(*poc.DefaultProof); ok && p != nil {
		s.ProofOK, s.ProofX, s.ProofXP, s.ProofBL = true, append([]byte{}, p.X...), append([]byte{}, p.XPrime...), p.BL
	}
	if sg, ok := h.Signature.(*pocec.Signature); ok && sg != nil && sg.R != nil && sg.S != nil {
		s.SigOK, s.Sig = true, &pocec.Signature{R: new(big.Int).Set(sg.R), S: new(big.Int).Set(sg.S)}
	}
	if ph, err := h.PoCHash(); err != nil {
		s.PoCErr = err.Error()
	} else {
		s.PoCHash = ph
	}
	s.BlockHash = *b.Hash()
	for i, r := range c.sc.rounds {
		if r.Challenge == h.Challenge {
			s.Round = i
		}
	}
	c.mu.Lock()
	res := "accept"
	if s.Round >= 0 {
		r := c.sc.rounds[s.Round]
		if r.rejectsLeft > 0 {
			r.rejectsLeft--
			res = r.P.Reject
		}
	}
	s.Result = res
	if res == "accept" {
		c.accepted[h.Height]++
	}
	c.subs = append(c.subs, s)
	idx := len(c.subs) - 1
	c.mu.Unlock()
	select {
	case c.subCh <- idx:
	default:
	}
	switch res {
	case "reject":
		return false, errScriptRejected
	case "orphan":
		return true, nil
	}
	return false, nil
}

func (c *fakeChain) snapshot() (subs []submission, templates []int, reoffered, waiters, lost int) {
	c.mu.Lock()
	defer c.mu.Unlock()
	return append([]submission{}, c.subs...), append([]int{}, c.templates...), c.reoffered, c.waiters, c.lostTips
}

// fakeKeeper implements spacekeeper.SpaceKeeper.
type fakeKeeper struct {
	sc      *scenario
	started int32
	mu      sync.Mutex
	calls   []keeperCall
	signs   []signCall
}

func (k *fakeKeeper) Start() error  { atomic.StoreInt32(&k.started, 1); return nil }
func (k *fakeKeeper) Stop() error   { atomic.StoreInt32(&k.started, 0); return nil }
func (k *fakeKeeper) Started() bool { return atomic.LoadInt32(&k.started) == 1 }
func (k *fakeKeeper) Type() string  { return "spacekeeper.c08.scripted" }
func (k *fakeKeeper) WorkSpaceIDs(engine.WorkSpaceStateFlags) ([]string, error) {
	return nil, errNotScripted
}
func (k *fakeKeeper) WorkSpaceInfos(engine.WorkSpaceStateFlags) ([]engine.WorkSpaceInfo, error) {
	return nil, errNotScripted
}
func (k *fakeKeeper) ActOnWorkSpace(string, engine.ActionType) error { return errNotScripted }
func (k *fakeKeeper) ActOnWorkSpaces(engine.WorkSpaceStateFlags, engine.ActionType) (map[string]error, error) {
	return nil, errNotScripted
}

func (k *fakeKeeper) proofsFor(challenge pocutil.Hash, flags engine.WorkSpaceStateFlags, filter bool) []*engine.WorkSpaceProof {
	var out []*engine.WorkSpaceProof
	for _, r := range k.sc.rounds {
		if pocutil.Hash(r.Challenge) == challenge && r.active() {
			out = r.offerProofs(filter)
		}
	}
	k.mu.Lock()
	k.calls = append(k.calls, keeperCall{At: time.Now(), Challenge: challenge, Filter: filter, Flags: flags, N: len(out)})
	k.mu.Unlock()
	return out
}

func (k *fakeKeeper) GetProofs(ctx context.Context, flags engine.WorkSpaceStateFlags, challenge pocutil.Hash, filter bool) ([]*engine.WorkSpaceProof, error) {
	return k.proofsFor(challenge, flags, filter), nil
}

func (k *fakeKeeper) GetProof(ctx context.Context, sid string, challenge pocutil.Hash, filter bool) (*engine.WorkSpaceProof, error) {
	for _, p := range k.proofsFor(challenge, engine.SFAll, filter) {
		if p.SpaceID == sid {
			return p, nil
		}
	}
	return nil, errNotScripted
}

type sliceReader struct {
	mu sync.Mutex
	ps []*engine.WorkSpaceProof
}

func (r *sliceReader) Read() (*engine.WorkSpaceProof, error) {
	r.mu.Lock()
	defer r.mu.Unlock()
	if len(r.ps) == 0 {
		return nil, io.EOF
	}
	p := r.ps[0]
	r.ps = r.ps[1:]
	return p, nil
}

func (k *fakeKeeper) GetProofsReader(ctx context.Context, flags engine.WorkSpaceStateFlags, challenge pocutil.Hash, filter bool) (engine.ProofReader, error) {
	return &sliceReader{ps: k.proofsFor(challenge, flags, filter)}, nil
}

func (k *fakeKeeper) GetProofReader(ctx context.Context, sid string, challenge pocutil.Hash, filter bool) (engine.ProofReader, error) {
	p, err := k.GetProof(ctx, sid, challenge, filter)
	if err != nil {
		return nil, err
	}
	return &sliceReader{ps: []*engine.WorkSpaceProof{p}}, nil
}

// SignHash signs like the real keeper does: wallet.SignMessage(pub, hash[:]) = ECDSA over SHA256(hash).
func (k *fakeKeeper) SignHash(sid string, hash [32]byte) (*pocec.Signature, error) {
	at := time.Now()
	var sig *pocec.Signature
	err := errNotScripted
	for _, sp := range k.sc.env.spaces {
		if sp.sid == sid {
			d := wire.HashH(hash[:])
			sig, err = sp.priv.Sign(d[:])
		}
	}
	if k.sc.P.Class == "sign-refused" {
		sig, err = nil, errors.New("wallet is locked")
	}
	k.mu.Lock()
	k.signs = append(k.signs, signCall{At: at, SID: sid, Hash: hash, Err: err != nil})
	k.mu.Unlock()
	return sig, err
}

func (k *fakeKeeper) snapshot() ([]keeperCall, []signCall) {
	k.mu.Lock()
	defer k.mu.Unlock()
	return append([]keeperCall{}, k.calls...), append([]signCall{}, k.signs...)
}
