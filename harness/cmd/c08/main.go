// c08: "Miner submits only winning, correctly signed blocks at the earliest slot".
//
// Technique: runtime monitoring of the REAL miner (poc/engine/pocminer/miner, NewSyncMiner) started
// against a scripted Chain/SyncManager (templates with scripted GetTarget/PassBinding function
// fields, BlockWaiter tips, recorded ProcessBlock calls) and a scripted SpaceKeeper (chosen proof
// sets taken from bit-length-24 reference tables, per-space signing keys). Many independent miners
// run concurrently because every scenario costs 3-25 s of real time (the miner sleeps on real
// 3-second slots and has no injectable clock). The oracle (oracle.go) recomputes from the recorded
// template and proof set, with the chain library's VerifiedQuality and the scripted target function,
// what may be submitted, and judges every ProcessBlock call clause by clause.
//
// The scenarios run in a child process per wave (a panic inside a miner goroutine or a
// logging.CPrint(FATAL) must not take the verdict with it); the child prints one JSON line per scenario.
package main

import (
	"encoding/json"
	"flag"
	"fmt"
	"os"
	"path/filepath"
	"strconv"
	"strings"
	"sync"
	"time"

	"github.com/massnetorg/mass-core/logging"
	"verif/harness/internal/vh"
)

const (
	propID     = "C08"
	startMark  = "C08-START "
	resultMark = "C08-RESULT "
	envMark    = "C08-ENV "
	failMark   = "C08-HARNESS-FAIL "
	waveSize   = 300
)

func sizes(thorough bool) int {
	if thorough {
		return 600
	}
	return 60
}

func childMain(args []string) {
	fs := flag.NewFlagSet("child", flag.ExitOnError)
	seed := fs.Int64("seed", 1, "")
	lo := fs.Int("lo", 0, "")
	hi := fs.Int("hi", 0, "")
	only := fs.Int("only", -1, "")
	dir := fs.String("dir", "", "")
	fs.Parse(args)
	logging.Init(filepath.Join(*dir, "log"), "c08", "error", 1, true)
	root := vh.NewRng(uint64(*seed)).Derive(propID, 0)
	e, msg := buildEnv(root)
	if msg != "" {
		fmt.Printf("%s%s\n", failMark, msg)
		return
	}
	fmt.Printf("%s{\"table_build_ms\":%d,\"common_entries\":%d}\n", envMark, e.buildMs, len(e.cands))
	var idxs []int
	for i := *lo; i < *hi; i++ {
		if *only < 0 || *only == i {
			idxs = append(idxs, i)
		}
	}
	// scenario generation includes the plot-filter challenge search: in parallel, before anything is timed
	scs := make([]*scenario, len(idxs))
	vh.Parallel(len(idxs), 16, func(k int) { scs[k] = genScenario(e, root, idxs[k]) })
	var out sync.Mutex
	var wg sync.WaitGroup
	sr := root.Derive("stagger", *lo)
	for k, sc := range scs {
		wg.Add(1)
		// staggered so that the miners do not all wake in the same millisecond
		delay := time.Duration(k*23+sr.Intn(700)) * time.Millisecond
		sc.P.StaggerMs = int(delay / time.Millisecond)
		go func(sc *scenario, delay time.Duration) {
			defer wg.Done()
			time.Sleep(delay)
			out.Lock()
			fmt.Printf("%s%d\n", startMark, sc.P.Idx)
			out.Unlock()
			r := runScenario(sc)
			b, err := json.Marshal(r)
			if err != nil {
				b, _ = json.Marshal(&scenResult{Idx: sc.P.Idx, Hash: r.Hash, Class: r.Class, Drops: []string{"harness:result-not-serialisable:" + err.Error()}, Counters: map[string]int64{}})
			}
			out.Lock()
			fmt.Printf("%s%s\n", resultMark, b)
			out.Unlock()
		}(sc, delay)
	}
	wg.Wait()
}

func main() {
	if len(os.Args) > 1 && os.Args[1] == "-child" {
		childMain(os.Args[2:])
		return
	}
	run := vh.NewRun(propID, "exploration")
	logging.Init(filepath.Join(run.Scratch, "log"), "c08", "error", 1, true)
	run.Assume("internal/ref.BuildTable (refplot) supplies the valid proofs; every proof the oracle calls eligible is verified with the chain library's poc.VerifyProof, qualities with DefaultProof.VerifiedQuality")
	run.Assume("the scripted keeper signs like the real one (wallet.SignMessage: ECDSA over SHA256 of the PoC hash), which is what BlockHeader.VerifySig checks")
	run.Assume("time is an input of the miner (time.Now, real 3 s slots): scenarios whose recorded margins (tip or Stop() vs the instant the eligible slot becomes tryable) are under 1.5 s are dropped; " +
		"the wait of a chosen block for its timestamp inside submitBlock is part of Stop() and not judged")
	n := sizes(run.Thorough())
	exe, err := os.Executable()
	if err != nil {
		exe = os.Args[0]
	}
	planned := 0
	for lo := 0; lo < n; lo += waveSize {
		hi := lo + waveSize
		if hi > n {
			hi = n
		}
		if run.Only >= 0 && (run.Only < lo || run.Only >= hi) {
			continue
		}
		want := map[int]bool{}
		for i := lo; i < hi; i++ {
			if run.Want(i) {
				want[i] = true
				planned++
			}
		}
		dir := filepath.Join(run.Scratch, fmt.Sprintf("wave%d", lo))
		os.MkdirAll(dir, 0o755)
		outFile := filepath.Join(dir, "child.out")
		argv := []string{exe, "-child", "-seed", strconv.FormatInt(run.Seed, 10), "-lo", strconv.Itoa(lo), "-hi", strconv.Itoa(hi), "-only", strconv.Itoa(run.Only), "-dir", dir}
		res := vh.RunChild(argv, nil, outFile, 8*time.Minute)
		started, done := map[int]bool{}, map[int]bool{}
		for _, l := range vh.ReadLines(outFile) {
			switch {
			case strings.HasPrefix(l, envMark):
				var ev struct {
					Ms int64 `json:"table_build_ms"`
					N  int64 `json:"common_entries"`
				}
				if json.Unmarshal([]byte(strings.TrimPrefix(l, envMark)), &ev) == nil {
					run.Count("reference_table_build_ms", ev.Ms)
					run.Count("table_entries_present_in_all_four_tables", ev.N)
				}
			case strings.HasPrefix(l, failMark):
				run.Inconclusive("harness: " + strings.TrimPrefix(l, failMark))
			case strings.HasPrefix(l, startMark):
				i, _ := strconv.Atoi(strings.TrimPrefix(l, startMark))
				started[i] = true
			case strings.HasPrefix(l, resultMark):
				var r scenResult
				if json.Unmarshal([]byte(strings.TrimPrefix(l, resultMark)), &r) != nil {
					continue
				}
				done[r.Idx] = true
				absorb(run, &r)
			}
		}
		missing := 0
		for i := range want {
			if !done[i] {
				missing++
			}
		}
		if missing > 0 {
			fatal := vh.ScanFatal(outFile, 30)
			switch {
			case res.TimedOut:
				for i := 0; i < missing; i++ {
					run.Drop("child-watchdog-expired")
				}
			case len(fatal) == 0 && (res.Signal != "" || res.ExitCode == 0):
				for i := 0; i < missing; i++ {
					run.Drop("child-ended-without-result:" + res.Signal)
				}
			default:
				// the process running the miners died: a panic in a miner goroutine or an os.Exit from the code under test
				var inflight []int
				for i := range started {
					if !done[i] {
						inflight = append(inflight, i)
					}
				}
				first := "exit"
				if len(fatal) > 0 {
					first = fatal[0]
				}
				ci := lo
				if len(inflight) > 0 {
					ci = inflight[0]
				}
				if fr := vh.DyingFrames(outFile); len(fr) > 0 && vh.CodeUnderTestFrame(fr) == "" {
					// the process died in a goroutine without a frame of the code under test: a harness fault, never a verdict
					run.Drop("child died in harness code")
					run.Inconclusive("a child process died in harness code: " + fr[0])
				} else {
					run.Violate(ci, "miner-process-died", map[string]string{"clause": "3", "what": "process-death", "first_line": first}, map[string]interface{}{
						"exit_code": res.ExitCode, "signal": res.Signal, "fatal": fatal, "scenarios_in_flight": inflight, "seed": run.Seed, "wave": lo,
						"note": "re-run the wave; the scenarios in flight are listed, their parameters are a function of (seed, index)"})
				}
				for i := 0; i < missing; i++ {
					run.Drop("child-died")
				}
			}
		}
		os.RemoveAll(dir)
	}
	if run.Only < 0 {
		if run.Counter("blocks_submitted") == 0 {
			run.Inconclusive("no block was submitted by any miner")
		}
		if run.Counter("keeper_proof_queries") == 0 {
			run.Inconclusive("no miner asked the keeper for proofs")
		}
		for _, k := range []string{"expected_none_stayed_silent:no-eligible-proof", "expected_none_stayed_silent:better-tip-before-eligible-slot-tryable",
			"expected_none_stayed_silent:stop-before-eligible-slot-tryable", "expected_none_stayed_silent:height-already-mined-successfully",
			"expected_none_stayed_silent:keeper-refused-to-sign-the-header"} {
			if run.Counter(k) == 0 {
				run.Inconclusive("no judged scenario of kind " + k)
			}
		}
	}
	run.Finish("case = one scenario (a real miner against its own scripted chain and keeper): seeded class (plain, better/not-better tip before/after the eligible slot, Stop() before/after it, "+
		"same height offered again after success/rejection/restart, a keeper that refuses to sign, a side block followed by a chain that outgrew the parent), proof set (valid, unbound, keeper error, unverifiable), target function (eligible at slot offset 0/1/2/4, never, equal-to-best boundary, "+
		"only the best ever eligible), template time -3..+3 slots from now, heights with and without plot filter; non-trivial = the miner asked the scripted keeper for proofs at least once and no margin "+
		"of the scenario was too thin to judge; distinct by hash of the seeded parameters", planned/2)
}

func absorb(run *vh.Run, r *scenResult) {
	h, _ := strconv.ParseUint(r.Hash, 10, 64)
	run.Case(h, r.NonTrivial)
	for k, v := range r.Counters {
		run.Count(k, v)
	}
	for _, d := range r.Drops {
		run.Drop(d)
	}
	for _, v := range r.Viol {
		run.Violate(r.Idx, v.Kind, v.Attrs, v.Detail)
	}
	if r.Sample != nil {
		run.Sample(r.Sample)
	}
}
