package main

// The oracle: recomputes, from the recorded template and proof set of a round, what the statement
// allows to be submitted, and judges every ProcessBlock call clause by clause.

import (
	"bytes"
	"encoding/hex"
	"fmt"
	"math/big"
	"time"

	"github.com/massnetorg/mass-core/poc"
	"github.com/massnetorg/mass-core/poc/pocutil"
	"github.com/massnetorg/mass-core/wire"
)

type expectation struct {
	Exists       bool
	J            int
	TS           time.Time
	Target       *big.Int
	Best         []int // indices into round.offers (arg-max set)
	BestQ        *big.Int
	OrderChanged bool     // the arg-max at the eligible slot is not the arg-max of the first slot
	Poison       []string // kinds of error-free, bound proofs that do not verify
	NEligible    int
}

// eligibleProof: the statement's "verifies for the template's challenge, passes binding" for an offered proof.
func (r *round) eligibleProof(o *offer) bool {
	if o.HasErr != nil || o.Proof == nil || !o.Bound {
		return false
	}
	return poc.VerifyProof(o.Proof, r.sc.env.spaces[o.Space].pkh, pocutil.Hash(r.Challenge), r.filter()) == nil
}

func (r *round) qualityOf(o *offer, slot uint64) *big.Int {
	q, err := o.Proof.VerifiedQuality(r.sc.env.spaces[o.Space].pkh, pocutil.Hash(r.Challenge), r.filter(), slot, r.Height)
	if err != nil {
		return nil
	}
	return q
}

// expect scans the slots from the template's slot on: earliest slot whose best eligible quality exceeds the target.
func (r *round) expect() expectation {
	var ex expectation
	var el []int
	for i, o := range r.offers {
		if r.eligibleProof(o) {
			el = append(el, i)
		} else if o.HasErr == nil && o.Bound {
			ex.Poison = append(ex.Poison, o.Kind)
		}
	}
	ex.NEligible = len(el)
	first := -1
	for j := 0; j < horizon+3 && len(el) > 0; j++ {
		ts := r.T0.Add(time.Duration(int64(j)*slotSec) * time.Second)
		slot := uint64(ts.Unix() / slotSec)
		var best []int
		var bq *big.Int
		for _, i := range el {
			q := r.qualityOf(r.offers[i], slot)
			if q == nil {
				continue
			}
			switch {
			case bq == nil || q.Cmp(bq) > 0:
				bq, best = q, []int{i}
			case q.Cmp(bq) == 0:
				best = append(best, i)
			}
		}
		if j == 0 && len(best) > 0 {
			first = best[0]
		}
		tg := r.targetAt(ts)
		if bq != nil && bq.Cmp(tg) > 0 {
			ex.Exists, ex.J, ex.TS, ex.Target, ex.Best, ex.BestQ = true, j, ts, tg, best, bq
			ex.OrderChanged = first >= 0 && best[0] != first
			break
		}
	}
	return ex
}

type viol struct {
	Kind   string                 `json:"kind"`
	Attrs  map[string]string      `json:"attrs"`
	Detail map[string]interface{} `json:"detail"`
}

type scenResult struct {
	Idx        int                    `json:"idx"`
	Hash       string                 `json:"hash"`
	Class      string                 `json:"class"`
	NonTrivial bool                   `json:"nontrivial"`
	Drops      []string               `json:"drops"`
	Counters   map[string]int64       `json:"counters"`
	Viol       []viol                 `json:"viol"`
	Sample     map[string]interface{} `json:"sample,omitempty"`
}

func (r *scenResult) count(k string, n int64) { r.Counters[k] += n }

type event struct {
	At   time.Time
	What string
}

type stopSpan struct{ Call, Ret, Restart time.Time }

type roundState struct {
	activatedAt time.Time
	exp         expectation
	must        bool   // an undisturbed, running, synced miner: the eligible slot must not pass without a submission
	forbid      string // non-empty: no submission for this round is allowed (reason)
	forbidFrom  time.Time
	drop        string
	gaveUpAt    time.Time // when the driver stopped waiting
}

type judgeInput struct {
	sc     *scenario
	st     []*roundState
	subs   []submission
	signs  []signCall
	calls  []keeperCall
	stops  []stopSpan
	events []event
	tipAt  time.Time
}

func tstr(t time.Time) string {
	if t.IsZero() {
		return ""
	}
	return t.UTC().Format("2006-01-02T15:04:05.000Z")
}

func (in *judgeInput) detail(extra map[string]interface{}) map[string]interface{} {
	sc := in.sc
	keys := []map[string]interface{}{}
	for _, sp := range sc.env.spaces {
		keys = append(keys, map[string]interface{}{"space": sp.idx, "scalar_hex": sp.scalar, "pubkey_hex": sp.pubHex, "space_id": sp.sid})
	}
	var rounds []map[string]interface{}
	for ri, r := range sc.rounds {
		m := map[string]interface{}{"index": ri, "height": r.Height, "previous": hex.EncodeToString(r.Prev[:]), "challenge": hex.EncodeToString(r.Challenge[:]),
			"plot_filter": r.filter(), "activated": r.active()}
		if r.active() {
			st := in.st[ri]
			m["activated_at"] = tstr(st.activatedAt)
			m["template_timestamp_unix"] = r.T0.Unix()
			m["template_slot"] = r.tslot
			var tg []string
			for _, t := range r.targets {
				tg = append(tg, t.String())
			}
			m["target_function"] = map[string]interface{}{"description": "GetTarget(t) = table[(t - template_timestamp) / 3s], 2^200 outside the table", "table": tg}
			var offs []map[string]interface{}
			for _, o := range r.offers {
				om := map[string]interface{}{"space": o.Space, "kind": o.Kind, "bound": o.Bound, "error": fmt.Sprint(o.HasErr)}
				if o.Proof != nil {
					om["x_hex"], om["xprime_hex"], om["bl"] = hex.EncodeToString(o.Proof.X), hex.EncodeToString(o.Proof.XPrime), o.Proof.BL
					var qs []string
					for j := 0; j < 6; j++ {
						if q := r.qualityOf(o, uint64(r.tslot+int64(j))); q != nil {
							qs = append(qs, q.String())
						} else {
							qs = append(qs, "unverifiable")
						}
					}
					om["quality_at_offsets_0_5"] = qs
				}
				offs = append(offs, om)
			}
			m["proofs_offered_in_order"] = offs
			ex := st.exp
			em := map[string]interface{}{"block_due": ex.Exists, "eligible_proofs": ex.NEligible, "must_submit": st.must, "must_not_submit": st.forbid}
			if ex.Exists {
				var bs []int
				for _, i := range ex.Best {
					bs = append(bs, r.offers[i].Space)
				}
				em["slot_offset"], em["timestamp_unix"], em["target"], em["best_spaces"], em["best_quality"] = ex.J, ex.TS.Unix(), ex.Target.String(), bs, ex.BestQ.String()
			}
			m["oracle"] = em
		}
		rounds = append(rounds, m)
	}
	var evs []string
	for _, e := range in.events {
		evs = append(evs, tstr(e.At)+" "+e.What)
	}
	var subs []map[string]interface{}
	for _, s := range in.subs {
		sm := map[string]interface{}{"called_at": tstr(s.At), "round": s.Round, "height": s.Height, "timestamp_unix": s.Timestamp.Unix(), "timestamp_nanos": s.Timestamp.Nanosecond(),
			"challenge": hex.EncodeToString(s.Challenge[:]), "pubkey_hex": hex.EncodeToString(s.PubKey), "proof_x_hex": hex.EncodeToString(s.ProofX), "proof_xprime_hex": hex.EncodeToString(s.ProofXP),
			"proof_bl": s.ProofBL, "poc_hash": hex.EncodeToString(s.PoCHash[:]), "result": s.Result}
		if s.Target != nil {
			sm["target"] = s.Target.String()
		}
		if s.Sig != nil {
			sm["signature_der_hex"] = hex.EncodeToString(s.Sig.Serialize())
		}
		subs = append(subs, sm)
	}
	var sg []string
	for _, s := range in.signs {
		sg = append(sg, tstr(s.At)+" "+s.SID[:10]+".. "+hex.EncodeToString(s.Hash[:8]))
	}
	d := map[string]interface{}{"scenario": sc.P, "keys": keys, "rounds": rounds, "events": evs, "process_block_calls": subs, "sign_hash_calls": sg,
		"replay_note": "absolute slots depend on the wall clock at replay; the seeded parameters (scenario) reproduce the same class of run"}
	for k, v := range extra {
		d[k] = v
	}
	return d
}

// judge applies the statement's clauses to everything recorded for one scenario.
func judge(in *judgeInput, res *scenResult) {
	sc := in.sc
	attrs := func(clause, what string, r *round) map[string]string {
		a := map[string]string{"clause": clause, "what": what, "class": sc.P.Class}
		if r != nil {
			a["proof_set"] = r.P.SetClass
			a["target_class"] = r.P.TClass
		}
		return a
	}
	fail := func(kind string, a map[string]string, extra map[string]interface{}) {
		res.Viol = append(res.Viol, viol{Kind: kind, Attrs: a, Detail: in.detail(extra)})
	}
	acceptedBefore := map[uint64]int{}
	perRound := make([][]int, len(sc.rounds))
	for si, s := range in.subs {
		res.count("blocks_submitted", 1)
		ex := map[string]interface{}{"submission_index": si}
		// after Stop() returned
		for _, sp := range in.stops {
			if !sp.Ret.IsZero() && s.At.After(sp.Ret) && (sp.Restart.IsZero() || s.At.Before(sp.Restart)) {
				fail("submitted-after-stop-returned", attrs("8", "stop", nil), ex)
			}
		}
		res.count("clause8_after_stop_checked", 1)
		if s.Round < 0 {
			fail("block-for-unknown-template", attrs("1", "challenge-not-of-any-template", nil), ex)
			continue
		}
		r, st := sc.rounds[s.Round], in.st[s.Round]
		perRound[s.Round] = append(perRound[s.Round], si)
		ch := pocutil.Hash(r.Challenge)
		// clause 1: proof verifies for the challenge under the header's key, the key is a bound space that offered it without error
		var sp *spaceKey
		for _, k := range sc.env.spaces {
			if k.pubHex == hex.EncodeToString(s.PubKey) {
				sp = k
			}
		}
		var off *offer
		if sp != nil {
			for _, o := range r.offers {
				if o.Space == sp.idx {
					off = o
				}
			}
		}
		c1 := true
		var proof *poc.DefaultProof
		switch {
		case sp == nil || off == nil:
			c1 = false
			fail("submitted-key-not-an-offering-space", attrs("1", "pubkey", r), ex)
		case !s.ProofOK:
			c1 = false
			fail("submitted-proof-invalid", attrs("1", "proof-type", r), ex)
		default:
			proof = &poc.DefaultProof{X: s.ProofX, XPrime: s.ProofXP, BL: s.ProofBL}
			if err := poc.VerifyProof(proof, sp.pkh, ch, r.filter()); err != nil {
				c1 = false
				ex["verify_error"] = err.Error()
				fail("submitted-proof-invalid", attrs("1", "kind="+off.Kind, r), ex)
			}
			if !off.Bound {
				c1 = false
				fail("submitted-proof-unbound", attrs("1", "kind="+off.Kind, r), ex)
			}
			if off.HasErr != nil {
				c1 = false
				fail("submitted-proof-of-errored-space", attrs("1", "kind="+off.Kind, r), ex)
			}
		}
		res.count("clause1_proof_and_binding_checked", 1)
		// clause 4a: timestamp on the slot grid of the template
		dt := s.Timestamp.Unix() - r.T0.Unix()
		onGrid := s.Timestamp.Nanosecond() == 0 && dt >= 0 && dt%slotSec == 0
		if !onGrid {
			fail("header-timestamp-off-slot-grid", attrs("4", "timestamp", r), ex)
		} else if r.P.Unaligned == 0 && s.Timestamp.Unix() != (s.Timestamp.Unix()/slotSec)*slotSec {
			fail("header-timestamp-off-slot-grid", attrs("4", "timestamp-not-slot-times-3s", r), ex)
		}
		slot := uint64(s.Timestamp.Unix() / slotSec)
		tg := r.targetAt(s.Timestamp)
		// clause 2: quality at the block's slot exceeds the target at the block's timestamp
		if c1 {
			q, err := proof.VerifiedQuality(sp.pkh, ch, r.filter(), slot, r.Height)
			if err != nil || q.Cmp(tg) <= 0 {
				rel := "below"
				if err == nil && q.Cmp(tg) == 0 {
					rel = "equal"
				}
				ex["quality"], ex["target_at_timestamp"] = fmt.Sprint(q), tg.String()
				fail("quality-not-above-target", attrs("2", rel, r), ex)
			}
			res.count("clause2_quality_vs_target_checked", 1)
		}
		// clause 3: best eligible proof at the earliest eligible slot
		exp := st.exp
		if !exp.Exists {
			fail("block-without-eligible-slot", attrs("3", "nothing-eligible-in-horizon", r), ex)
		} else {
			if !s.Timestamp.Equal(exp.TS) {
				w := "later-slot"
				if s.Timestamp.Before(exp.TS) {
					w = "earlier-slot"
				}
				ex["expected_timestamp_unix"] = exp.TS.Unix()
				fail("not-earliest-eligible-slot", attrs("3", w, r), ex)
			} else if c1 {
				isBest := false
				for _, bi := range exp.Best {
					o := r.offers[bi]
					if o.Space == sp.idx && bytes.Equal(o.Proof.X, s.ProofX) && bytes.Equal(o.Proof.XPrime, s.ProofXP) && o.Proof.BL == s.ProofBL {
						isBest = true
					}
				}
				if !isBest {
					fail("not-best-quality-proof", attrs("3", "arg-max", r), ex)
				}
			}
		}
		res.count("clause3_best_at_earliest_checked", 1)
		// clause 3 (look-ahead): the choice was made no earlier than one slot before the block's slot
		var sgn *signCall
		for i := range in.signs {
			if in.signs[i].Hash == [32]byte(s.PoCHash) && !in.signs[i].At.After(s.At) {
				sgn = &in.signs[i]
			}
		}
		if sgn != nil {
			if uint64(sgn.At.Unix()/slotSec)+1 < slot {
				ex["signed_at"] = tstr(sgn.At)
				fail("chosen-beyond-look-ahead", attrs("3", "look-ahead", r), ex)
			}
			res.count("clause3_look_ahead_checked", 1)
		}
		// clause 4b: header target is the target function at the header timestamp
		if s.Target == nil || s.Target.Cmp(tg) != 0 {
			ex["target_at_timestamp"] = tg.String()
			fail("header-target-mismatch", attrs("4", "target", r), ex)
		}
		res.count("clause4_target_and_timestamp_checked", 1)
		// clause 5: signature over the PoC hash under the winning space's key
		if sp != nil {
			okSig := false
			if s.SigOK && s.PoCErr == "" {
				d := wire.HashH(s.PoCHash[:])
				okSig = s.Sig.Verify(d[:], sp.pub)
				if !okSig {
					w := "signature"
					for _, k := range sc.env.spaces {
						if k != sp && s.Sig.Verify(d[:], k.pub) {
							w = "signed-by-another-space"
						}
					}
					fail("signature-invalid", attrs("5", w, r), ex)
				}
			} else {
				fail("signature-invalid", attrs("5", "missing", r), ex)
			}
			if sgn == nil {
				fail("signature-not-from-keeper", attrs("5", "no-sign-hash-call-for-poc-hash", r), ex)
			} else if sgn.SID != sp.sid {
				fail("signature-invalid", attrs("5", "sign-hash-asked-of-another-space", r), ex)
			}
			if okSig {
				res.count("signatures_verified", 1)
			}
			res.count("clause5_signature_checked", 1)
		}
		// clause 6: not before its timestamp
		if s.At.Before(s.Timestamp.Add(-5 * time.Millisecond)) {
			ex["early_by_ms"] = s.Timestamp.Sub(s.At).Milliseconds()
			fail("submitted-before-timestamp", attrs("6", "wall-clock", r), ex)
		}
		res.count("clause6_not_before_timestamp_checked", 1)
		// clause 7: height not mined successfully before
		if acceptedBefore[s.Height] > 0 {
			fail("height-mined-twice", attrs("7", "accepted-before", r), ex)
		}
		res.count("clause7_height_once_checked", 1)
		if s.Result == "accept" {
			acceptedBefore[s.Height]++
		}
		// clause 8: abandoned rounds
		if st.forbid != "" && st.drop == "" && s.At.After(st.forbidFrom) {
			fail("submitted-for-abandoned-round", attrs("8", st.forbid, r), ex)
		}
		if sc.P.Class == "tip-after" && !in.tipAt.IsZero() && s.At.After(in.tipAt) {
			res.count("blocks_submitted_after_tip_that_arrived_during_timestamp_wait", 1)
		}
	}
	// rounds: silence where required, presence where required
	for ri, r := range sc.rounds {
		if !r.active() {
			continue
		}
		st := in.st[ri]
		asked := 0
		for _, c := range in.calls {
			if c.Challenge == pocutil.Hash(r.Challenge) {
				asked++
			}
		}
		if st.drop != "" {
			res.Drops = append(res.Drops, st.drop)
			continue
		}
		n := len(perRound[ri])
		switch {
		case st.forbid != "":
			if n == 0 {
				res.count("expected_none_stayed_silent:"+st.forbid, 1)
			}
		case !st.exp.Exists:
			if n == 0 {
				res.count("expected_none_stayed_silent:no-eligible-proof", 1)
			}
		case st.must:
			want := 1 + r.P.Rejects
			if n < want {
				if asked == 0 {
					res.Drops = append(res.Drops, "miner-never-asked-keeper-for-due-round")
					continue
				}
				cause := "other"
				if len(st.exp.Poison) > 0 {
					cause = "bound-error-free-unverifiable-proof-in-set"
				}
				a := attrs("3", "eligible-slot-passed-without-submission", r)
				a["cause"] = cause
				if n > 0 {
					a["cause"] = "no-resubmission-after-rejection"
				}
				fail("eligible-slot-missed", a, map[string]interface{}{"round": ri, "gave_up_waiting_at": tstr(st.gaveUpAt), "submissions_for_round": n, "wanted": want, "keeper_queries_for_round": asked})
			} else {
				res.count("due_blocks_arrived", 1)
				if r.P.TClass == "boundary" && st.exp.J == r.P.K && in.subs[perRound[ri][0]].Timestamp.Equal(st.exp.TS) {
					res.count("boundary_slots_with_best_quality_equal_to_target_passed_over", 1)
				}
			}
			res.count("clause3_due_block_presence_checked", 1)
		default:
			if n == 0 {
				res.count("optional_block_absent", 1)
			} else {
				res.count("optional_block_present", 1)
			}
		}
		if st.exp.Exists && st.exp.OrderChanged {
			res.count("rounds_where_best_proof_differs_from_first_slot", 1)
		}
	}
}
