package main

// One scenario = one real miner (miner.NewSyncMiner) against its own scripted chain and keeper,
// driven along a wall-clock timeline (the miner has no injectable clock).

import (
	"fmt"
	"math/big"
	"reflect"
	"sync"
	"time"
	"unsafe"

	"github.com/massnetorg/mass-core/blockchain"
	"github.com/massnetorg/mass-core/config"
	"github.com/massnetorg/mass-core/massutil"
	"github.com/massnetorg/mass-core/wire"
	"massnet.org/mass/poc/engine/pocminer"
	"massnet.org/mass/poc/engine/pocminer/miner"
	"massnet.org/mass/poc/engine/spacekeeper"
)

const (
	minMargin    = 1500 * time.Millisecond // thinner recorded margins are dropped, not judged
	dueSlack     = 6 * time.Second
	lateSlack    = 6 * time.Second
	postStop     = 1500 * time.Millisecond
	afterAccept  = 2500 * time.Millisecond // the same template keeps being offered after success
	stopWatchdog = 45 * time.Second
)

func sleepUntil(t time.Time) {
	if d := time.Until(t); d > 0 {
		time.Sleep(d)
	}
}

type driver struct {
	sc     *scenario
	chain  *fakeChain
	keeper *fakeKeeper
	mi     pocminer.PoCMiner
	st     []*roundState
	mu     sync.Mutex
	events []event
	stops  []stopSpan
	tipAt  time.Time
	hung   bool
}

func (d *driver) ev(format string, a ...interface{}) {
	d.mu.Lock()
	d.events = append(d.events, event{At: time.Now(), What: fmt.Sprintf(format, a...)})
	d.mu.Unlock()
}

func (d *driver) activate(ri int) *roundState {
	now := time.Now()
	r := d.sc.rounds[ri]
	r.activate(now)
	st := d.st[ri]
	st.activatedAt = now
	st.exp = r.expect()
	d.chain.setRound(ri)
	if st.exp.Exists {
		d.ev("round %d offered: template timestamp %d (slot %d), block due at offset %d (timestamp %d)", ri, r.T0.Unix(), r.tslot, st.exp.J, st.exp.TS.Unix())
	} else {
		d.ev("round %d offered: template timestamp %d (slot %d), no eligible slot", ri, r.T0.Unix(), r.tslot)
	}
	return st
}

// tryableAt: wall-clock instant from which the code may try the slot of ts (now slot + allowAhead(1) >= slot).
func tryableAt(ts time.Time) time.Time {
	return time.Unix((ts.Unix()/slotSec-1)*slotSec, 0)
}

// waitSub waits for a submission of round ri with index >= from.
func (d *driver) waitSub(ri, from int, until time.Time) int {
	for {
		subs, _, _, _, _ := d.chain.snapshot()
		for i := from; i < len(subs); i++ {
			if subs[i].Round == ri {
				return i
			}
		}
		if !time.Now().Before(until) {
			return -1
		}
		select {
		case <-d.chain.subCh:
		case <-time.After(150 * time.Millisecond):
		}
	}
}

// awaitDue waits for the block(s) a running, undisturbed miner owes for round ri. Returns whether an accepted block arrived.
func (d *driver) awaitDue(ri int, res *scenResult) bool {
	st, r := d.st[ri], d.sc.rounds[ri]
	defer func() { st.gaveUpAt = time.Now() }()
	if !st.exp.Exists {
		until := st.activatedAt.Add(8 * time.Second)
		if t := r.T0.Add(3 * time.Second); t.After(until) {
			until = t
		}
		d.waitSub(ri, 0, until)
		return false
	}
	due := st.exp.TS
	if t := st.activatedAt.Add(1500 * time.Millisecond); t.After(due) {
		due = t
	}
	due = due.Add(dueSlack)
	idx := d.waitSub(ri, 0, due)
	if idx < 0 {
		if idx = d.waitSub(ri, 0, due.Add(lateSlack)); idx >= 0 {
			res.count("blocks_later_than_6s_after_due", 1)
		}
	}
	for idx >= 0 {
		subs, _, _, _, _ := d.chain.snapshot()
		if subs[idx].Result == "accept" {
			d.ev("round %d: block accepted", ri)
			return true
		}
		d.ev("round %d: block %s by the scripted chain", ri, subs[idx].Result)
		idx = d.waitSub(ri, idx+1, time.Now().Add(dueSlack+lateSlack))
	}
	return false
}

// stop calls Stop() under a watchdog: a Stop() that does not return is not judged (DESIGN "Limit"),
// the scenario is dropped, but it must not hold up the whole wave.
func (d *driver) stop() bool {
	sp := stopSpan{Call: time.Now()}
	d.ev("Stop() called")
	done := make(chan error, 1)
	go func() { done <- d.mi.Stop() }()
	select {
	case err := <-done:
		sp.Ret = time.Now()
		d.ev("Stop() returned (%v) after %d ms", err, sp.Ret.Sub(sp.Call).Milliseconds())
	case <-time.After(stopWatchdog):
		d.ev("Stop() did not return within %s", stopWatchdog)
		d.hung = true
	}
	d.mu.Lock()
	d.stops = append(d.stops, sp)
	d.mu.Unlock()
	return !d.hung
}

func (d *driver) tipNode(kind string) *blockchain.BlockNode {
	p := d.chain.BestBlockNode()
	var h wire.Hash
	copy(h[:], d.sc.rounds[0].rng.Bytes(32))
	n := &blockchain.BlockNode{Hash: &h, Height: p.Height, CapSum: new(big.Int).Set(p.CapSum), Timestamp: p.Timestamp, Quality: new(big.Int).Set(p.Quality)}
	switch kind {
	case "capsum":
		n.CapSum.Add(n.CapSum, big.NewInt(1))
	case "earlier-timestamp":
		n.Timestamp = n.Timestamp.Add(-3 * time.Second)
	case "higher-quality":
		n.Quality.Add(n.Quality, big.NewInt(1))
	case "lower-capsum":
		n.CapSum.Sub(n.CapSum, big.NewInt(1))
	case "later-timestamp":
		n.Timestamp = n.Timestamp.Add(3 * time.Second)
	case "lower-quality":
		n.Quality.Sub(n.Quality, big.NewInt(1))
	case "equal":
	}
	return n
}

func runScenario(sc *scenario) (res *scenResult) {
	res = &scenResult{Idx: sc.P.Idx, Hash: fmt.Sprint(sc.hash()), Class: sc.P.Class, Counters: map[string]int64{}}
	d := &driver{sc: sc, chain: newFakeChain(sc), keeper: &fakeKeeper{sc: sc}}
	for range sc.rounds {
		d.st = append(d.st, &roundState{})
	}
	newBlockCh := make(chan *wire.Hash, 4)
	// stalled broadcaster (every other same-height scenario): the channel the miner announces its blocks on is full and
	// is only read again 1.2 s after the first block was due - the second template for the same height arrives meanwhile
	stalled := sc.P.Class == "same-height" && (sc.P.Idx/20)%2 == 0
	startDrain := make(chan struct{})
	var drainOnce sync.Once
	openDrain := func() { drainOnce.Do(func() { close(startDrain) }) }
	skipFirst := false
	if stalled {
		newBlockCh = make(chan *wire.Hash, 1)
		newBlockCh <- &wire.Hash{}
		skipFirst = true
		res.count("scenarios_with_stalled_broadcaster", 1)
	} else {
		openDrain()
	}
	var announced []wire.Hash
	var amu sync.Mutex
	go func() {
		<-startDrain
		for h := range newBlockCh {
			if skipFirst {
				skipFirst = false // the harness's own filler
				continue
			}
			amu.Lock()
			announced = append(announced, *h)
			amu.Unlock()
		}
	}()
	defer openDrain()
	addr, err := massutil.NewAddressWitnessScriptHash(make([]byte, 32), &config.ChainParams)
	if err != nil {
		res.Drops = append(res.Drops, "harness:address:"+err.Error())
		return res
	}
	mi, err := miner.NewSyncMiner(sc.P.AllowSolo, miner.Chain(d.chain), miner.SyncManager(d.chain), spacekeeper.SpaceKeeper(d.keeper), newBlockCh, []massutil.Address{addr})
	if err != nil {
		res.Drops = append(res.Drops, "harness:new-miner:"+err.Error())
		return res
	}
	d.mi = mi
	margin := time.Duration(sc.P.MarginMs) * time.Millisecond

	st0 := d.activate(0)
	if sc.P.Class == "tip-at-template" {
		tip := d.tipNode(sc.P.TipKind)
		d.chain.mu.Lock()
		d.chain.switchAtTemplate = tip
		d.chain.mu.Unlock()
	}
	started := time.Now()
	if err := mi.Start(); err != nil {
		res.Drops = append(res.Drops, "harness:start:"+err.Error())
		return res
	}
	d.ev("Start() returned")
	base := started.Add(1500 * time.Millisecond) // first ticker tick of the first round
	var tE time.Time
	if st0.exp.Exists {
		tE = tryableAt(st0.exp.TS)
		if tE.After(base) {
			base = tE
		}
	}
	stopped := false
	switch sc.P.Class {
	case "plain":
		st0.must = st0.exp.Exists
		if d.awaitDue(0, res) {
			time.Sleep(afterAccept)
		}
	case "tip-at-template":
		// forbidden from the start: the better tip is the best node before the miner has seen the template
		st0.forbid, st0.forbidFrom = "better-tip-connected-before-the-round-started", started
		until := started.Add(8 * time.Second)
		if st0.exp.Exists {
			if t := st0.exp.TS.Add(4 * time.Second); t.After(until) {
				until = t
			}
		}
		d.waitSub(0, 0, until)
		st0.gaveUpAt = time.Now()
		d.chain.mu.Lock()
		sw := d.chain.switchedAt
		d.chain.mu.Unlock()
		if sw.IsZero() {
			st0.drop = "harness:miner-never-asked-for-a-template"
		} else {
			d.ev("better tip (%s) connected inside the chain's template call", sc.P.TipKind)
		}
	case "sign-refused":
		st0.forbid, st0.forbidFrom = "keeper-refused-to-sign-the-header", started
		until := started.Add(8 * time.Second)
		if st0.exp.Exists {
			if t := st0.exp.TS.Add(4 * time.Second); t.After(until) {
				until = t
			}
		}
		d.waitSub(0, 0, until)
		st0.gaveUpAt = time.Now()
	case "tip-before":
		if !st0.exp.Exists {
			st0.drop = "harness:no-eligible-slot-in-event-scenario"
			break
		}
		sleepUntil(tE.Add(-margin))
		var at time.Time
		if sc.P.Idx%3 == 2 {
			// the better chain is not announced to the waiter: a side block that is not better is, and when the monitor
			// wants to wait again the best chain has grown past the parent (the chain refuses to wait for an old height)
			side := d.tipNode([]string{"lower-capsum", "later-timestamp", "lower-quality", "equal"}[sc.P.Idx/3%4])
			grown := d.tipNode("capsum")
			grown.Height++
			var ok bool
			ok, at = d.chain.announceSideThenGrow(side, grown)
			d.ev("side block that is not better announced through BlockWaiter (waiter registered: %v) while the best chain grew to height %d, %d ms before the eligible slot becomes tryable", ok, grown.Height, tE.Sub(at).Milliseconds())
			res.Counters["side_block_then_grown_chain"]++
		} else {
			_, at = d.chain.announce(d.tipNode(sc.P.TipKind), true)
			d.ev("better tip (%s) announced through BlockWaiter, %d ms before the eligible slot becomes tryable", sc.P.TipKind, tE.Sub(at).Milliseconds())
		}
		d.tipAt = at
		st0.forbid, st0.forbidFrom = "better-tip-before-eligible-slot-tryable", at
		if tE.Sub(at) < minMargin {
			st0.drop = "thin-margin:tip-vs-slot-tryable"
		}
		d.waitSub(0, 0, st0.exp.TS.Add(4*time.Second))
		st0.gaveUpAt = time.Now()
	case "tip-not-better":
		st0.must = st0.exp.Exists
		go func() {
			sleepUntil(started.Add(1200*time.Millisecond + margin))
			ok, _ := d.chain.announce(d.tipNode(sc.P.TipKind), false)
			d.ev("tip that is not better (%s) announced through BlockWaiter (waiter registered: %v)", sc.P.TipKind, ok)
		}()
		if d.awaitDue(0, res) {
			time.Sleep(afterAccept)
		}
	case "tip-after":
		if !st0.exp.Exists {
			st0.drop = "harness:no-eligible-slot-in-event-scenario"
			break
		}
		sleepUntil(base.Add(margin))
		_, at := d.chain.announce(d.tipNode(sc.P.TipKind), true)
		d.tipAt = at
		d.ev("better tip (%s) announced %d ms after the eligible slot became tryable", sc.P.TipKind, at.Sub(tE).Milliseconds())
		d.waitSub(0, 0, st0.exp.TS.Add(4*time.Second))
		st0.gaveUpAt = time.Now()
	case "stop-before":
		if !st0.exp.Exists {
			st0.drop = "harness:no-eligible-slot-in-event-scenario"
			break
		}
		sleepUntil(tE.Add(-margin))
		d.stop()
		stopped = true
		sp := d.stops[len(d.stops)-1]
		st0.forbid, st0.forbidFrom = "stop-before-eligible-slot-tryable", time.Time{}
		if tE.Sub(sp.Call) < minMargin {
			st0.drop = "thin-margin:stop-vs-slot-tryable"
		}
		d.waitSub(0, 0, st0.exp.TS.Add(3*time.Second))
		st0.gaveUpAt = time.Now()
	case "stop-in-walk":
		if !st0.exp.Exists {
			st0.drop = "harness:no-eligible-slot-in-event-scenario"
			break
		}
		closedAt := make(chan time.Time, 1)
		sc.rounds[0].firstTarget.Store(func() {
			// inside the miner's walk over the past slots: Stop() is called, and the walk continues only when the
			// miner's quit channel is seen closed - from then on nothing may be submitted
			go d.stop()
			for t0 := time.Now(); time.Since(t0) < 5*time.Second; time.Sleep(200 * time.Microsecond) {
				if closed, ok := quitClosed(d.mi); !ok || closed {
					if ok {
						closedAt <- time.Now()
					}
					return
				}
			}
		})
		select {
		case at := <-closedAt:
			stopped = true
			st0.forbid, st0.forbidFrom = "stop-during-slot-walk", at
			d.ev("Stop() took effect inside the first GetTarget call of the slot walk")
			time.Sleep(2500 * time.Millisecond)
			st0.gaveUpAt = time.Now()
		case <-time.After(8 * time.Second):
			st0.drop = "harness:stop-in-walk-hook-not-reached"
		}
	case "stop-after":
		if !st0.exp.Exists {
			st0.drop = "harness:no-eligible-slot-in-event-scenario"
			break
		}
		sleepUntil(base.Add(margin))
		d.stop()
		stopped = true
		time.Sleep(2 * time.Second)
		st0.gaveUpAt = time.Now()
	case "same-height", "same-height-restart", "same-height-rejected":
		st0.must = st0.exp.Exists
		if !d.awaitDue(0, res) {
			break
		}
		time.Sleep(time.Duration(300+sc.rounds[0].rng.Intn(1200)) * time.Millisecond)
		if stalled {
			time.AfterFunc(1200*time.Millisecond, openDrain)
		}
		if sc.P.Restart {
			if !d.stop() {
				stopped = true
				break
			}
			time.Sleep(300 * time.Millisecond)
			if err := mi.Start(); err != nil {
				d.st[1].drop = "harness:restart:" + err.Error()
				stopped = true
				break
			}
			d.mu.Lock()
			d.stops[len(d.stops)-1].Restart = time.Now()
			d.mu.Unlock()
			d.ev("Start() returned (restart)")
		}
		st1 := d.activate(1) // same height, other parent and challenge
		st1.forbid = "height-already-mined-successfully"
		d.waitSub(1, 0, time.Now().Add(6*time.Second))
		st1.gaveUpAt = time.Now()
		_, tpl, _, _, _ := d.chain.snapshot()
		if tpl[1] == 0 {
			st1.drop = "miner-never-fetched-same-height-template"
		}
		if len(sc.rounds) > 2 {
			st2 := d.activate(2)
			st2.must = st2.exp.Exists
			if d.awaitDue(2, res) {
				time.Sleep(1 * time.Second)
			}
		}
	}
	if !stopped {
		d.stop()
	}
	time.Sleep(postStop)
	if d.hung {
		res.Drops = append(res.Drops, "stop-did-not-return-within-45s")
	}

	subs, tpl, reoffered, waiters, lost := d.chain.snapshot()
	calls, signs := d.keeper.snapshot()
	in := &judgeInput{sc: sc, st: d.st, subs: subs, signs: signs, calls: calls, stops: d.stops, events: d.events, tipAt: d.tipAt}
	judge(in, res)

	res.count("keeper_proof_queries", int64(len(calls)))
	res.count("keeper_sign_calls", int64(len(signs)))
	res.count("templates_delivered", sum(tpl))
	res.count("templates_reoffered_for_already_mined_height", int64(reoffered))
	res.count("block_waiters_registered", int64(waiters))
	res.count("not_better_tips_without_waiter", int64(lost))
	for _, c := range calls {
		for _, r := range sc.rounds {
			if c.Challenge == [32]byte(r.Challenge) && c.Filter {
				res.count("keeper_queries_with_plot_filter", 1)
			}
		}
	}
	amu.Lock()
	acc := 0
	for _, s := range subs {
		if s.Result == "accept" {
			acc++
		}
	}
	res.count("accepted_blocks", int64(acc))
	res.count("hashes_on_new_block_channel", int64(len(announced)))
	if len(announced) != acc {
		res.count("new_block_channel_differs_from_accepted", 1)
	}
	amu.Unlock()
	var tc, bc int64
	for _, r := range sc.rounds {
		tc += r.targetCalls
		bc += r.bindingCalls
	}
	res.count("target_function_calls_by_miner", tc)
	res.count("binding_checks_by_miner", bc)
	res.count("scenarios:"+sc.P.Class, 1)
	res.count("proof_set:"+sc.P.Rounds[0].SetClass, 1)
	res.count("target:"+sc.P.Rounds[0].TClass, 1)
	if sc.P.Rounds[0].High {
		res.count("scenarios_at_plot_filter_heights", 1)
	}
	if sc.P.Rounds[0].D < 0 {
		res.count("template_time:behind_now", 1)
	} else if sc.P.Rounds[0].D == 0 {
		res.count("template_time:at_now", 1)
	} else {
		res.count("template_time:ahead_of_now", 1)
	}
	decidable := len(res.Drops) == 0
	res.NonTrivial = len(calls) > 0 && decidable
	if sc.P.Idx%97 < 2 || len(res.Viol) > 0 {
		res.Sample = map[string]interface{}{"scenario": sc.P, "submissions": len(subs), "keeper_queries": len(calls)}
	}
	return res
}

func sum(xs []int) int64 {
	var t int64
	for _, x := range xs {
		t += int64(x)
	}
	return t
}

// quitClosed reads (never writes) the miner's unexported quit channel: closed = Stop() has taken effect.
func quitClosed(mi interface{}) (closed, ok bool) {
	v := reflect.ValueOf(mi)
	if v.Kind() != reflect.Ptr || v.Elem().Kind() != reflect.Struct {
		return false, false
	}
	f := v.Elem().FieldByName("quit")
	if !f.IsValid() || f.Kind() != reflect.Chan || !f.CanAddr() {
		return false, false
	}
	ch := reflect.NewAt(f.Type(), unsafe.Pointer(f.UnsafeAddr())).Elem()
	if ch.IsNil() {
		return false, true
	}
	x, recvOK := ch.TryRecv()
	return x.IsValid() && !recvOK, true
}
