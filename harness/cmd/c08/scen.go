package main

// Environment (keys, reference tables, usable challenges), seeded scenario parameters and the
// per-round template / proof-set / target-function construction.

import (
	"crypto/sha256"
	"encoding/binary"
	"encoding/hex"
	"fmt"
	"math/big"
	"sort"
	"sync/atomic"
	"time"

	"github.com/massnetorg/mass-core/blockchain"
	"github.com/massnetorg/mass-core/consensus"
	"github.com/massnetorg/mass-core/massutil"
	"github.com/massnetorg/mass-core/poc"
	"github.com/massnetorg/mass-core/poc/chiapos"
	"github.com/massnetorg/mass-core/poc/pocutil"
	"github.com/massnetorg/mass-core/pocec"
	"github.com/massnetorg/mass-core/wire"
	"massnet.org/mass/poc/engine"
	"verif/harness/internal/ref"
	"verif/harness/internal/vh"
)

const (
	bitLen  = 24
	nKeys   = 4
	slotSec = int64(poc.PoCSlot)
	horizon = 10 // length of the scripted target table in slots; beyond it the target is unreachable
)

type spaceKey struct {
	idx    int
	priv   *pocec.PrivateKey
	pub    *pocec.PublicKey
	pkh    pocutil.Hash
	sid    string
	scalar string
	pubHex string
}

// cand is a table index z at which every key's reference table holds a pair.
type cand struct {
	Z     uint64
	X, XP [nKeys]uint64
}

type env struct {
	spaces  []*spaceKey
	cands   []cand
	buildMs int64
}

func pubHexOf(b []byte) string { return hex.EncodeToString(b) }

// buildEnv derives the run's keys from the seed and builds their bit-length-24 reference tables one
// after the other (each build is parallel inside; only the candidate entries are kept).
func buildEnv(root *vh.Rng) (*env, string) {
	t0 := time.Now()
	e := &env{}
	kr := root.Derive("keys", 0)
	for i := 0; i < nKeys; i++ {
		var sc []byte
		for {
			sc = kr.Bytes(32)
			if sc[0] != 0 && sc[0] != 0xff {
				break
			}
		}
		priv, pub := pocec.PrivKeyFromBytes(pocec.S256(), sc)
		pubHex := pubHexOf(pub.SerializeCompressed())
		e.spaces = append(e.spaces, &spaceKey{idx: i, priv: priv, pub: pub, pkh: pocutil.PubKeyHash(pub),
			sid: fmt.Sprintf("%s-%d", pubHex, bitLen), scalar: hex.EncodeToString(sc), pubHex: pubHex})
	}
	cr := root.Derive("cands", 0)
	nc := 20000
	cs := make([]cand, nc)
	for i := range cs {
		cs[i].Z = cr.Uint64() & (1<<bitLen - 1)
	}
	for ki, sp := range e.spaces {
		tb := ref.BuildTable(sp.pkh, bitLen)
		keep := cs[:0]
		for _, c := range cs {
			_, x, xp := c.Z, tb.X[c.Z], tb.XP[c.Z]
			if x == 0 && xp == 0 {
				continue
			}
			xb, xpb := tb.Bytes(c.Z)
			if !ref.Sound(sp.pkh, bitLen, c.Z, xb, xpb) {
				return nil, "refplot produced an unsound entry"
			}
			c.X[ki], c.XP[ki] = x, xp
			keep = append(keep, c)
		}
		cs = keep
		tb = nil
	}
	if len(cs) < 40 {
		return nil, fmt.Sprintf("only %d table indices have a pair in all %d tables", len(cs), nKeys)
	}
	e.cands = cs
	e.buildMs = time.Since(t0).Milliseconds()
	return e, ""
}

func (e *env) proofOf(c *cand, key int) *poc.DefaultProof {
	return &poc.DefaultProof{X: pocutil.PoCValue2Bytes(pocutil.PoCValue(c.X[key]), bitLen), XPrime: pocutil.PoCValue2Bytes(pocutil.PoCValue(c.XP[key]), bitLen), BL: bitLen}
}

// ---------------------------------------------------------------------------------------------
// seeded parameters

type roundP struct {
	Height    uint64   `json:"height"`
	High      bool     `json:"filter_height"`
	Prev      string   `json:"previous"`
	Challenge string   `json:"challenge"`
	Z         uint64   `json:"z"`
	OtherZ    uint64   `json:"other_z"`
	D         int      `json:"template_slot_minus_now_slot"`
	Unaligned int      `json:"template_seconds_off_slot_grid"`
	K         int      `json:"intended_eligible_offset"` // -1: never
	TClass    string   `json:"target_class"`
	AtMode    string   `json:"target_at_eligible_slot"`
	SetClass  string   `json:"proof_set_class"`
	Spaces    []int    `json:"spaces_offered"`
	Pass      []int    `json:"spaces_passing_plot_filter"` // == Spaces at heights without filter
	Kinds     []string `json:"kinds_of_passing_spaces"`
	NPKinds   []string `json:"kinds_of_filtered_spaces"`
	ByRank    bool     `json:"kinds_assigned_by_quality_rank_at_first_slot"`
	Order     []int    `json:"offer_order"`
	Reject    string   `json:"process_block_result_first"` // "", reject, orphan
	Rejects   int      `json:"rejections"`
}

type scenP struct {
	Idx       int      `json:"idx"`
	Class     string   `json:"class"`
	AllowSolo bool     `json:"allow_solo"`
	Peers     int      `json:"peers"`
	CaughtUp  bool     `json:"caught_up"`
	MarginMs  int      `json:"event_offset_ms"`
	TipKind   string   `json:"tip_kind"`
	Restart   bool     `json:"restart_between_rounds"`
	StaggerMs int      `json:"stagger_ms"`
	Rounds    []roundP `json:"rounds"`
}

type offer struct {
	Space   int
	Kind    string
	Proof   *poc.DefaultProof // nil = keeper delivers no proof
	HasErr  error
	Bound   bool
	QualAt0 *big.Int
	// Unfiltered: what a real keeper hands out for this space when it is asked WITHOUT the plot filter (kind "filtered":
	// the space's genuine proof, which fails only the filter)
	Unfiltered *poc.DefaultProof
}

type round struct {
	firstTarget atomic.Value // func(): called inside the miner's first GetTarget call of this round (stop-in-walk)
	sc          *scenario
	P           *roundP
	rng         *vh.Rng
	Prev        wire.Hash
	Challenge   wire.Hash
	Height      uint64

	activated int32
	T0        time.Time
	tslot     int64
	offers    []*offer
	bound     map[string]bool
	targets   []*big.Int
	tail      *big.Int
	cbValue   int64

	rejectsLeft   int
	targetCalls   int64
	bindingCalls  int64
	coinbaseCalls int64
}

type scenario struct {
	env    *env
	P      *scenP
	rounds []*round
}

func (r *round) active() bool { return atomic.LoadInt32(&r.activated) == 1 }

var eventClasses = []string{"plain", "tip-at-template", "tip-before", "plain", "stop-before", "sign-refused", "same-height", "plain", "tip-not-better", "plain",
	"tip-after", "plain", "stop-after", "stop-in-walk", "same-height-rejected", "tip-before", "plain", "stop-before", "same-height-restart", "stop-in-walk"}
var setClasses = []string{"all-valid", "some-unbound", "all-valid", "some-error", "none-valid", "mixed", "poisoned"}
var targetClasses = []string{"off0", "off1", "boundary", "off2", "never", "off4", "second-never", "off1", "off0"}

func pickKinds(rng *vh.Rng, setClass string, n int) []string {
	ks := make([]string, n)
	one := func(xs ...string) string { return xs[rng.Intn(len(xs))] }
	switch setClass {
	case "all-valid":
		for i := range ks {
			ks[i] = "valid"
		}
	case "some-unbound":
		for i := range ks {
			ks[i] = one("valid", "unbound")
		}
		ks[0] = "unbound" // with ByRank: the best proof at the first slot is the unbound one
		if n > 1 {
			ks[1] = "valid"
		}
	case "some-error":
		for i := range ks {
			ks[i] = one("valid", "err-nil", "err-bad")
		}
		ks[0] = one("err-nil", "err-bad")
		if n > 1 {
			ks[1] = "valid"
		}
	case "mixed":
		for i := range ks {
			ks[i] = one("valid", "unbound", "err-nil", "err-bad", "bad-unbound", "valid")
		}
		ks[0] = one("unbound", "bad-unbound", "err-bad")
		if n > 1 {
			ks[1] = "valid"
		}
	case "none-valid":
		for i := range ks {
			ks[i] = one("unbound", "err-nil", "err-bad", "bad-unbound", "unbound")
		}
	case "poisoned":
		for i := range ks {
			ks[i] = one("valid", "valid", "unbound")
		}
		ks[0] = one("bad-xp", "bad-ch")
		if n > 1 {
			ks[1] = "valid"
		}
	}
	return ks
}

func needsBlock(class string) bool { return class != "plain" }

// genScenario is a pure function of (root stream, idx).
func genScenario(e *env, root *vh.Rng, idx int) *scenario {
	rng := root.Derive("scenario", idx)
	p := &scenP{Idx: idx, Class: eventClasses[idx%len(eventClasses)], StaggerMs: 0}
	setClass := setClasses[idx%len(setClasses)]
	tClass := targetClasses[idx%len(targetClasses)]
	if needsBlock(p.Class) {
		// the event is only meaningful when a block would otherwise be due
		if setClass == "none-valid" || setClass == "poisoned" {
			setClass = "some-unbound"
		}
		if tClass == "never" {
			tClass = "off1"
		}
	}
	switch rng.Intn(3) {
	case 0:
		p.AllowSolo, p.Peers, p.CaughtUp = true, 0, rng.Bool()
	case 1:
		p.AllowSolo, p.Peers, p.CaughtUp = false, rng.Range(1, 8), true
	default:
		p.AllowSolo, p.Peers, p.CaughtUp = true, rng.Range(1, 8), true
	}
	sc := &scenario{env: e, P: p}

	mk := func(ri int, height uint64, setClass, tClass string, dLo, dHi int) roundP {
		rr := rng.Derive("round", ri)
		rp := roundP{Height: height, SetClass: setClass, TClass: tClass}
		rp.High = height >= consensus.MASSIP0002Height
		rp.Prev = hex.EncodeToString(rr.Bytes(32))
		ci := rr.Intn(len(e.cands))
		rp.Z = e.cands[ci].Z
		rp.OtherZ = e.cands[(ci+1+rr.Intn(len(e.cands)-1))%len(e.cands)].Z
		switch tClass {
		case "off0":
			rp.K = 0
		case "off1":
			rp.K = 1
		case "off2":
			rp.K = 2
		case "off4":
			rp.K = 4
		case "never":
			rp.K = -1
		case "boundary":
			rp.K = rr.Range(1, 2)
		case "second-never":
			rp.K = rr.Range(0, 1)
		}
		rp.AtMode = rr.PickS("just", "between", "low", "zero", "between")
		if tClass == "second-never" {
			rp.AtMode = "between"
		}
		rp.D = rr.Range(dLo, dHi)
		if rp.K >= 0 && rp.D+rp.K > 5 {
			rp.D = 5 - rp.K
		}
		if rr.Chance(1, 8) {
			rp.Unaligned = rr.Range(1, 2)
		}
		n := rr.Range(1, nKeys)
		if setClass != "all-valid" && setClass != "none-valid" && n < 2 {
			n = 2
		}
		rp.Spaces = rr.Perm(nKeys)[:n]
		sort.Ints(rp.Spaces)
		rp.Pass = rp.Spaces
		if rp.High {
			np := rr.Range(1, 2)
			if np > n {
				np = n
			}
			if setClass != "all-valid" && setClass != "none-valid" {
				np = 2
			}
			pm := rr.Perm(n)[:np]
			rp.Pass = nil
			for _, i := range pm {
				rp.Pass = append(rp.Pass, rp.Spaces[i])
			}
			sort.Ints(rp.Pass)
			for i := 0; i < n-np; i++ {
				k := rr.PickS("filtered", "filtered", "err-nil")
				rp.NPKinds = append(rp.NPKinds, k)
			}
		}
		rp.Kinds = pickKinds(rr, setClass, len(rp.Pass))
		rp.ByRank = rr.Chance(2, 3)
		rp.Order = rr.Perm(n)
		// challenge: low 24 bits select the table entry; at filter heights the rest is searched so that
		// exactly the chosen spaces pass the plot filter
		var ch [32]byte
		for try := 0; ; try++ {
			copy(ch[:], rr.Bytes(32))
			v := binary.LittleEndian.Uint64(ch[:8])
			v = v&^uint64(1<<bitLen-1) | rp.Z
			binary.LittleEndian.PutUint64(ch[:8], v)
			if !rp.High {
				break
			}
			ok := true
			for _, s := range rp.Pass {
				if !fastFilter(e.spaces[s].pkh, ch) {
					ok = false
					break
				}
			}
			if !ok {
				continue
			}
			for _, s := range rp.Spaces {
				want := false
				for _, q := range rp.Pass {
					want = want || q == s
				}
				if chiapos.PassPlotFilter(e.spaces[s].pkh, ch) != want {
					ok = false
				}
			}
			if ok {
				break
			}
		}
		rp.Challenge = hex.EncodeToString(ch[:])
		return rp
	}

	height := uint64(rng.Range(2, 1390000))
	if rng.Chance(1, 3) {
		height = consensus.MASSIP0002Height + uint64(rng.Intn(200000))
		// the activation height itself and its neighbours: the template height, not the tip's, decides the plot filter
		switch rng.Intn(6) {
		case 0, 1, 2:
			height = consensus.MASSIP0002Height
		case 3:
			height = consensus.MASSIP0002Height + 1
		}
	} else if rng.Chance(1, 8) {
		height = consensus.MASSIP0002Height - 1
	}
	switch p.Class {
	case "plain":
		rp := mk(0, height, setClass, tClass, -3, 3)
		if rng.Chance(1, 6) && rp.K >= 0 {
			rp.Reject, rp.Rejects = rng.PickS("reject", "orphan"), 1
		}
		p.Rounds = []roundP{rp}
	case "tip-at-template":
		// a better tip becomes the chain's best node between the moment the chain snapshots the template and the moment
		// the miner starts its round on it: the round must be given up at once
		rp := mk(0, height, setClass, tClass, -1, 3)
		p.Rounds = []roundP{rp}
	case "sign-refused":
		// the keeper refuses every signature (wallet locked, space deleted between the proof query and the signing step):
		// whatever wins, nothing may be submitted
		p.Rounds = []roundP{mk(0, height, setClass, tClass, -1, 3)}
	case "tip-before", "stop-before":
		rp := mk(0, height, setClass, tClass, -1, 3)
		if rp.TClass == "off0" { // the eligible slot must lie ahead of now: offset >= 1 and template slot + offset >= now slot + 4
			rp.TClass, rp.K = "off1", 1
		}
		if rp.D+rp.K < 4 {
			rp.D = 4 - rp.K
		}
		p.Rounds = []roundP{rp}
		p.MarginMs = rng.Range(2500, 3500)
	case "stop-in-walk":
		// the template lies several slots in the past, so the first tick walks over all of them at once; the miner is
		// stopped while it is inside that walk (from the chain's GetTarget hook at the first slot), before it reaches
		// the eligible slot further on
		if tClass != "off1" && tClass != "off2" && tClass != "off4" {
			tClass = rng.PickS("off1", "off2", "off4")
		}
		rp := mk(0, height, setClass, tClass, -2, 0)
		rp.D = -rp.K - rng.Range(1, 3)
		p.Rounds = []roundP{rp}
	case "tip-not-better":
		p.Rounds = []roundP{mk(0, height, setClass, tClass, -2, 3)}
		p.MarginMs = rng.Range(300, 2500)
	case "tip-after", "stop-after":
		p.Rounds = []roundP{mk(0, height, setClass, tClass, -1, 2)}
		p.MarginMs = rng.Range(1600, 2600)
	case "same-height", "same-height-restart", "same-height-rejected":
		t0 := tClass
		if t0 != "off0" && t0 != "off1" {
			t0 = rng.PickS("off0", "off1")
		}
		r0 := mk(0, height, setClass, t0, -2, 0)
		if p.Class == "same-height-rejected" {
			r0.Reject, r0.Rejects = rng.PickS("reject", "orphan"), 1
		}
		r1 := mk(1, height, "all-valid", "off0", -2, 0)
		if r1.High != r0.High {
			panic("height class changed")
		}
		p.Rounds = []roundP{r0, r1}
		if p.Class != "same-height-rejected" {
			p.Rounds = append(p.Rounds, mk(2, height+1, rng.PickS("all-valid", "some-unbound", "some-error"), rng.PickS("off0", "off1"), -1, 1))
		}
		p.Restart = p.Class == "same-height-restart"
	}
	switch p.Class {
	case "tip-before", "tip-after", "tip-at-template":
		p.TipKind = rng.PickS("capsum", "capsum", "earlier-timestamp", "higher-quality")
	case "tip-not-better":
		p.TipKind = rng.PickS("lower-capsum", "later-timestamp", "lower-quality", "equal")
	}
	for ri := range p.Rounds {
		rp := &p.Rounds[ri]
		r := &round{sc: sc, P: rp, rng: rng.Derive("activate", ri), Height: rp.Height, rejectsLeft: rp.Rejects}
		b, _ := hex.DecodeString(rp.Prev)
		copy(r.Prev[:], b)
		b, _ = hex.DecodeString(rp.Challenge)
		copy(r.Challenge[:], b)
		sc.rounds = append(sc.rounds, r)
	}
	return sc
}

// fastFilter is chiapos.PassPlotFilter without the cgo call (SHA-256 of plotID || challenge);
// every accepted challenge is confirmed with the library function.
func fastFilter(plotID pocutil.Hash, ch [32]byte) bool {
	var d [64]byte
	copy(d[:32], plotID[:])
	copy(d[32:], ch[:])
	h := sha256.Sum256(d[:])
	return h[0] == 0 && h[1]&0x80 == 0
}

func (sc *scenario) hash() uint64 {
	s := fmt.Sprintf("%s|%v|%d|%v|%d|%s|%v", sc.P.Class, sc.P.AllowSolo, sc.P.Peers, sc.P.CaughtUp, sc.P.MarginMs, sc.P.TipKind, sc.P.Restart)
	for _, r := range sc.P.Rounds {
		s += fmt.Sprintf("|%d/%s/%s/%d/%d/%d/%s/%s/%s/%v/%v/%v/%v/%v/%v/%s%d", r.Height, r.Prev, r.Challenge, r.D, r.Unaligned, r.K, r.TClass, r.AtMode, r.SetClass,
			r.Spaces, r.Pass, r.Kinds, r.NPKinds, r.ByRank, r.Order, r.Reject, r.Rejects)
	}
	return vh.HashS(s)
}

// ---------------------------------------------------------------------------------------------
// activation: fixes the template time relative to now and builds proof set and target table

func (r *round) candFor(z uint64) *cand {
	for i := range r.sc.env.cands {
		if r.sc.env.cands[i].Z == z {
			return &r.sc.env.cands[i]
		}
	}
	return nil
}

func (r *round) filter() bool { return poc.EnforceMASSIP0002(r.Height) }

func flipBit(b []byte, bit int) []byte {
	o := append([]byte{}, b...)
	o[bit/8] ^= 1 << uint(bit%8)
	return o
}

func (r *round) activate(now time.Time) {
	e := r.sc.env
	rp := r.P
	r.tslot = now.Unix()/slotSec + int64(rp.D)
	r.T0 = time.Unix(r.tslot*slotSec+int64(rp.Unaligned), 0)
	c, oc := r.candFor(rp.Z), r.candFor(rp.OtherZ)
	ch := pocutil.Hash(r.Challenge)
	quality := func(space int, p *poc.DefaultProof, j int) *big.Int {
		q, err := p.VerifiedQuality(e.spaces[space].pkh, ch, r.filter(), uint64(r.tslot+int64(j)), r.Height)
		if err != nil {
			return nil
		}
		return q
	}
	// kinds: passing spaces by rank of their true proof's quality at the first slot (or by index)
	pass := append([]int{}, rp.Pass...)
	if rp.ByRank {
		sort.SliceStable(pass, func(a, b int) bool {
			qa, qb := quality(pass[a], e.proofOf(c, pass[a]), 0), quality(pass[b], e.proofOf(c, pass[b]), 0)
			if qa == nil || qb == nil {
				return qa != nil
			}
			return qa.Cmp(qb) > 0
		})
	}
	kindOf := map[int]string{}
	for i, s := range pass {
		kindOf[s] = rp.Kinds[i]
	}
	ni := 0
	for _, s := range rp.Spaces {
		if _, ok := kindOf[s]; !ok {
			kindOf[s] = rp.NPKinds[ni]
			ni++
		}
	}
	r.bound = map[string]bool{}
	r.offers = nil
	for _, oi := range rp.Order {
		s := rp.Spaces[oi]
		o := &offer{Space: s, Kind: kindOf[s], Bound: true}
		good := e.proofOf(c, s)
		bad := &poc.DefaultProof{X: good.X, XPrime: flipBit(good.XPrime, r.rng.Intn(bitLen)), BL: bitLen}
		switch o.Kind {
		case "valid":
			o.Proof = good
		case "unbound":
			o.Proof, o.Bound = good, false
		case "err-nil":
			o.HasErr = fmt.Errorf("scripted keeper: plot read failed")
		case "err-bad":
			o.Proof, o.HasErr = bad, fmt.Errorf("scripted keeper: proof failed verification")
		case "filtered":
			o.HasErr = poc.ErrProofFilter
			o.Unfiltered = good
		case "bad-xp":
			o.Proof = bad
		case "bad-ch":
			o.Proof = e.proofOf(oc, s)
		case "bad-unbound":
			o.Proof, o.Bound = bad, false
		}
		if o.Proof != nil {
			o.QualAt0 = quality(s, o.Proof, 0)
		}
		r.bound[e.spaces[s].pubHex] = o.Bound
		r.offers = append(r.offers, o)
	}
	if rp.SetClass == "poisoned" {
		// the hostile order: the proofs that do not verify are handed out before the genuine ones (the real keeper's order
		// comes from map iteration: any order occurs)
		sort.SliceStable(r.offers, func(a, b int) bool {
			pa := r.offers[a].Kind == "bad-xp" || r.offers[a].Kind == "bad-ch"
			pb := r.offers[b].Kind == "bad-xp" || r.offers[b].Kind == "bad-ch"
			return pa && !pb
		})
	}
	// target table from the qualities of the statement-eligible proofs (error-free, bound, verifying)
	r.tail = new(big.Int).Lsh(big.NewInt(1), 200)
	r.targets = make([]*big.Int, horizon)
	for j := 0; j < horizon; j++ {
		var qs []*big.Int
		for _, o := range r.offers {
			if o.HasErr == nil && o.Bound && o.Proof != nil {
				if q := quality(o.Space, o.Proof, j); q != nil {
					qs = append(qs, q)
				}
			}
		}
		sort.Slice(qs, func(a, b int) bool { return qs[a].Cmp(qs[b]) > 0 })
		if len(qs) == 0 {
			r.targets[j] = big.NewInt(1) // nothing eligible: any ineligible proof a faulty filter lets through would beat it
			continue
		}
		qm := qs[0]
		above := func() *big.Int {
			d := new(big.Int).Rsh(qm, 3)
			if !d.IsUint64() || d.Uint64() > 1<<62 {
				d.SetUint64(1 << 62)
			}
			d.SetUint64(r.rng.Uint64() % (d.Uint64() + 1))
			return d.Add(d, qm).Add(d, big.NewInt(1))
		}
		switch {
		case rp.K < 0 || j < rp.K:
			r.targets[j] = above()
			if rp.TClass == "boundary" && j == rp.K-1 {
				r.targets[j] = new(big.Int).Set(qm) // quality == target: does not "exceed"
			}
		case j == rp.K:
			switch rp.AtMode {
			case "between":
				if len(qs) >= 2 && qs[1].Cmp(qm) < 0 {
					gap := new(big.Int).Sub(qm, qs[1])
					off := new(big.Int).SetUint64(r.rng.Uint64())
					off.Mod(off, gap) // 0 .. gap-1: target in [second best, best)
					r.targets[j] = off.Add(off, qs[1])
				} else {
					r.targets[j] = new(big.Int).Sub(qm, big.NewInt(1))
				}
			case "low":
				r.targets[j] = new(big.Int).Rsh(qs[len(qs)-1], 1)
			case "zero":
				r.targets[j] = big.NewInt(0)
			default:
				r.targets[j] = new(big.Int).Sub(qm, big.NewInt(1))
			}
		default:
			if rp.TClass == "second-never" || r.rng.Bool() {
				r.targets[j] = above()
			} else {
				r.targets[j] = new(big.Int).Rsh(qm, 1)
			}
		}
	}
	// coinbase and block body
	r.cbValue = int64(1 + r.rng.Intn(1000000))
	atomic.StoreInt32(&r.activated, 1)
}

func (r *round) newCoinbase() *wire.MsgTx {
	tx := wire.NewMsgTx()
	tx.AddTxIn(wire.NewTxIn(wire.NewOutPoint(&wire.Hash{}, 0xffffffff), nil))
	tx.AddTxOut(wire.NewTxOut(r.cbValue, []byte{0, 32, 1, 2, 3, 4, 5, 6, 7, 8, 9, 10, 11, 12, 13, 14, 15, 16, 17, 18, 19, 20, 21, 22, 23, 24, 25, 26, 27, 28, 29, 30, 31, 32}))
	return tx
}

// targetAt is the scenario's scripted target function (pure).
func (r *round) targetAt(t time.Time) *big.Int {
	d := t.Unix() - r.T0.Unix()
	if d < 0 {
		return new(big.Int).Set(r.tail)
	}
	j := d / slotSec
	if j >= int64(len(r.targets)) {
		return new(big.Int).Set(r.tail)
	}
	return new(big.Int).Set(r.targets[j])
}

func (r *round) offerProofs(filter bool) []*engine.WorkSpaceProof {
	var out []*engine.WorkSpaceProof
	for _, o := range r.offers {
		sp := r.sc.env.spaces[o.Space]
		w := &engine.WorkSpaceProof{SpaceID: sp.sid, PublicKey: sp.pub, Ordinal: int64(o.Space), Error: o.HasErr}
		if !filter && o.Unfiltered != nil {
			// asked without the plot filter, a keeper serves the proof the filter would have withheld
			w.Error = nil
			w.Proof = &poc.DefaultProof{X: append([]byte{}, o.Unfiltered.X...), XPrime: append([]byte{}, o.Unfiltered.XPrime...), BL: o.Unfiltered.BL}
		}
		if o.Proof != nil {
			w.Proof = &poc.DefaultProof{X: append([]byte{}, o.Proof.X...), XPrime: append([]byte{}, o.Proof.XPrime...), BL: o.Proof.BL}
		}
		out = append(out, w)
	}
	return out
}

// templates builds what mass-core's NewBlockTemplate sends: a PoC template with function fields and a block template.
func (r *round) templates() (*blockchain.PoCTemplate, *blockchain.BlockTemplate) {
	pt := &blockchain.PoCTemplate{
		Height:    r.Height,
		Timestamp: r.T0,
		Previous:  r.Prev,
		Challenge: r.Challenge,
		GetTarget: func(t time.Time) *big.Int {
			if atomic.AddInt64(&r.targetCalls, 1) == 1 {
				if h, ok := r.firstTarget.Load().(func()); ok && h != nil {
					h()
				}
			}
			return r.targetAt(t)
		},
		PassBinding: func(p blockchain.Proof) bool {
			atomic.AddInt64(&r.bindingCalls, 1)
			return r.bound[pubHexOf(p.PlotPublicKey())]
		},
		GetCoinbase: func(p blockchain.Proof, fee massutil.Amount) (*massutil.Tx, error) {
			atomic.AddInt64(&r.coinbaseCalls, 1)
			return massutil.NewTx(r.newCoinbase()), nil
		},
	}
	blk := wire.NewEmptyMsgBlock()
	blk.Header.ChainID = wire.Hash{0xc0, 0x08}
	blk.Header.Version = 1
	blk.Header.Height = r.Height
	blk.Header.Previous = r.Prev
	blk.Header.Timestamp = r.T0
	cb := r.newCoinbase()
	blk.AddTransaction(cb)
	th, wh := cb.TxHash(), cb.WitnessHash()
	blk.Header.TransactionRoot, blk.Header.WitnessRoot = th, wh
	bt := &blockchain.BlockTemplate{Block: blk, TotalFee: massutil.ZeroAmount(), Height: r.Height, ValidPayAddress: true,
		MerkleCache: []*wire.Hash{&th}, WitnessMerkleCache: []*wire.Hash{&wh}}
	return pt, bt
}
