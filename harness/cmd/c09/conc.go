// conc.go: concurrent requests on spaces whose table is complete, checked for linearizability (internal/kconc).
package main

import (
	"fmt"

	"verif/harness/internal/kconc"
	"verif/harness/internal/vh"
)

func runCaseConc(run *vh.Run, root *vh.Rng, i, ci int) {
	r := kconc.Run(run.Scratch, root, i, uint64(ci)+1)
	if r.Dropped != "" {
		run.Drop("conc: " + r.Dropped)
		return
	}
	run.Count("concurrent_histories", 1)
	run.Count("concurrent_history_operations", int64(r.Ops))
	run.Count("concurrent_lock_hog_rounds", r.HogRounds)
	run.Count("concurrent_overlapping_pairs_on_one_space", int64(r.Overlaps))
	if r.Illegal {
		tc := &tcase{run: run, ci: ci}
		tc.violate("concurrent-requests-not-linearizable", map[string]string{"class": "complete-table-spaces"},
			map[string]interface{}{"history_of_the_space": r.History, "params": r.Params, "machine": kconc.Machine})
	}
	run.Case(vh.HashS(fmt.Sprint("conc", i, r.Ops, r.Overlaps)), r.Overlaps > 0)
}
