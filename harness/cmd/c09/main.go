// c09: workspace lifecycle follows the documented state machine.
// The real capacity keeper (v1) runs over the scripted plot-DB backend and a fake wallet; the H3 hook points are
// gates, so the harness is the scheduler of the plotter goroutine: at every step it either issues one API action,
// releases the plotter by one gate, decides the outcome of the scripted plot, or stops/starts the keeper. At every
// quiescent point all state queries are read and an online trace oracle checks: (I1) flag queries partition the
// listing and agree with Info.State, (I2) every state change is one the documented table allows for the event that
// happened, (I3) at most one scripted Plot() in flight / one space plotting, (I4) a space is plotted or mined only
// while a request for it is outstanding (stop/remove/delete cancel it), (I5) exactly the mining spaces are offered
// to the miner, (I6) completion -> ready/mining, abort/stop -> registered.
package main

import (
	"context"
	"encoding/hex"
	"fmt"
	"os"
	"path/filepath"
	"reflect"
	"runtime"
	"sort"
	"strings"
	"time"

	"github.com/massnetorg/mass-core/poc/pocutil"
	"massnet.org/mass/config"
	"massnet.org/mass/poc/engine"
	"massnet.org/mass/poc/engine/spacekeeper/capacity"
	"verif/harness/internal/kp"
	"verif/harness/internal/vh"
	"verif/harness/internal/wl"
)

const watchdog = 20 * time.Second

type space struct {
	sid      string
	key      string // scripted db key
	state    string // registered|plotting|ready|mining|gone
	wanted   bool
	wantMine bool
	inChan   int // requests for this space sitting in the pending channel (model)
	// open: plot/mine requests accepted on this space while it was registered, since the last cancel / keeper stop;
	// pops: how often the plotter has taken a request of this space from its queue since then
	open, pops int
	// lifeReq: plot/mine requests that were handed to the plotter for this space (accepted while it was registered, or made
	// by the configuration itself) since the last cancel that reached all of them; never reset by a keeper stop (requests
	// waiting in the channel survive it)
	lifeReq int
	// how the last cancel related to the plotter position (for attributing a violation precisely)
	cancelNote string
	stale      int // requests issued before the last cancel that the cancel did not reach (still in the channel, or already popped)
	// staleInFlight: the plotter is working off such a request right now (from its pop to the end of its step): what it
	// does to the space - including the mining intent it carries - stems from before the cancel, whatever arrives meanwhile
	staleInFlight bool
}

type info struct{ SID, State string }

// api adapts the two space keepers (engine v1 "capacity", engine v2 "skchia") to one shape.
type api struct {
	name       string
	infos      func(flags uint32) ([]info, error)
	ids        func(flags uint32) ([]string, error)
	act        func(sid string, action uint8) error
	actBulk    func(flags uint32, action uint8) (map[string]error, error)
	start      func() error
	stop       func() error
	started    func() bool
	offered    func() ([]string, error)
	pendingLen func() int
}

type tcase struct {
	directed        bool // the case starts with the three-requests-then-cancel motif
	run             *vh.Run
	ci              int
	rng             *vh.Rng
	ctl             *kp.Ctl
	sk              *api
	dir             string
	sp              map[string]*space
	order           []string
	byKey           map[string]string
	pos             string // notstarted | gate:<p> | select | inplot | exited
	posSID          string
	pending         int
	started         bool
	trace           []string
	dead            bool
	changes         int
	sentSinceSelect bool
}

func (t *tcase) logf(f string, a ...interface{}) { t.trace = append(t.trace, fmt.Sprintf(f, a...)) }

func (t *tcase) violate(kind string, attrs map[string]string, extra map[string]interface{}) {
	d := map[string]interface{}{"trace": append([]string{}, t.trace...)}
	for k, v := range extra {
		d[k] = v
	}
	if attrs == nil {
		attrs = map[string]string{}
	}
	t.run.Violate(t.ci, kind, attrs, d)
}

func stateName(s engine.WorkSpaceState) string { return s.String() }

var stateNames = []string{"registered", "plotting", "ready", "mining"}

func inFlags(state string, flags uint32) bool {
	for i, n := range stateNames {
		if n == state && flags&(1<<uint(i)) != 0 {
			return true
		}
	}
	return false
}

func flagsString(f uint32) string { return engine.WorkSpaceStateFlags(f).String() }

// observe reads every query at a quiescent point and applies I1, I3, I5; it returns sid -> state.
func (t *tcase) observe() map[string]string {
	defer t.guard("state queries")
	all, err := t.sk.infos(15)
	if err != nil {
		t.violate("state-query-failed", nil, map[string]interface{}{"err": err.Error()})
		return nil
	}
	cur := map[string]string{}
	for _, in := range all {
		if _, dup := cur[in.SID]; dup {
			t.violate("workspace-listed-twice", nil, map[string]interface{}{"sid": in.SID})
		}
		cur[in.SID] = in.State
	}
	ids, _ := t.sk.ids(15)
	if len(ids) != len(all) {
		t.violate("id-query-disagrees-with-info-query", map[string]string{"flags": "all"}, map[string]interface{}{"ids": ids, "infos": len(all)})
	}
	// I1: the four single-flag queries partition the listing
	seen := map[string]int{}
	for fi := 0; fi < 4; fi++ {
		f := uint32(1) << uint(fi)
		infos, _ := t.sk.infos(f)
		idl, _ := t.sk.ids(f)
		if len(infos) != len(idl) {
			t.violate("id-query-disagrees-with-info-query", map[string]string{"flags": fmt.Sprint(f)}, nil)
		}
		for _, in := range infos {
			seen[in.SID]++
			want := []string{"registered", "plotting", "ready", "mining"}[fi]
			if in.State != want || cur[in.SID] != want {
				t.violate("flag-query-disagrees-with-state", map[string]string{"flag": want}, map[string]interface{}{"sid": in.SID, "info_state": in.State, "all_state": cur[in.SID]})
			}
		}
	}
	for sid := range cur {
		if seen[sid] != 1 {
			t.violate("workspace-not-in-exactly-one-state", nil, map[string]interface{}{"sid": sid, "times_listed_by_single_flags": seen[sid]})
		}
	}
	// a combined flag query equals the union
	combo := uint32(t.rng.Range(1, 15))
	ci, _ := t.sk.infos(combo)
	n := 0
	for _, st := range cur {
		if inFlags(st, combo) {
			n++
		}
	}
	if combo != 15 && len(ci) != n {
		t.violate("combined-flag-query-disagrees", nil, map[string]interface{}{"flags": combo, "got": len(ci), "want": n})
	}
	t.run.Count("quiescent_observations", 1)
	// I3: at most one space plotting, at most one scripted Plot in flight
	np := 0
	for _, st := range cur {
		if st == "plotting" {
			np++
		}
	}
	if used := t.ctl.TakeUsedAfterDelete(); len(used) > 0 {
		t.violate("deleted-space-still-used", map[string]string{"call": strings.SplitN(used[0], " ", 2)[0]}, map[string]interface{}{"calls": used})
	}
	if np > 1 || t.ctl.MaxFlight > 1 {
		t.violate("more-than-one-space-plotting", nil, map[string]interface{}{"plotting_states": np, "max_plots_in_flight": t.ctl.MaxFlight})
	}
	// I5: only mining spaces are offered to the miner
	if t.started && t.sk.started() {
		offered, err := t.sk.offered()
		if err == nil {
			got := map[string]bool{}
			for _, p := range offered {
				got[p] = true
			}
			for sid, st := range cur {
				if (st == "mining") != got[sid] {
					t.violate("miner-offer-disagrees-with-mining-state", nil, map[string]interface{}{"sid": sid, "state": st, "offered": got[sid]})
				}
			}
			for sid := range got {
				if _, ok := cur[sid]; !ok {
					t.violate("miner-offered-unlisted-space", nil, map[string]interface{}{"sid": sid})
				}
			}
			t.run.Count("miner_offers_checked", 1)
		}
	}
	return cur
}

// allowed: per event, the set of permitted (old -> new) pairs for a TARGET space.
func allowedFor(event string, old string, posPlotting bool) []string {
	switch event {
	case "plot":
		return []string{old}
	case "mine":
		if old == "ready" {
			return []string{"mining"}
		}
		return []string{old}
	case "stop":
		switch old {
		case "plotting":
			return []string{"plotting", "registered"}
		case "mining":
			return []string{"ready"}
		}
		return []string{old}
	case "remove", "delete":
		switch old {
		case "registered", "ready":
			return []string{"gone", old} // (a refused call must leave it as it was)
		}
		return []string{old}
	case "step1":
		switch old {
		case "registered":
			return []string{"plotting", "registered"}
		case "ready":
			return []string{"mining", "ready"}
		}
		return []string{old}
	case "step3":
		if old == "plotting" {
			return []string{"registered", "ready", "mining"}
		}
		return []string{old}
	case "keeper-stop":
		switch old {
		case "plotting":
			return []string{"registered", "ready", "mining"}
		case "registered":
			// the plotter finishes the step it is in before it looks at the quit signal: a popped request may
			// still be plotted (and the plot may outlive the shutdown monitor and complete)
			return []string{"registered", "ready", "mining"}
		case "ready":
			return []string{"ready", "mining"}
		}
		return []string{old}
	}
	return []string{old}
}

// judge compares the new observation with the previous one under the event's rule.
// targets: sids the event applies to (nil = none).
func (t *tcase) judge(event string, targets map[string]bool, cur map[string]string, errs map[string]error) {
	if cur == nil {
		return
	}
	for _, sid := range t.order {
		s := t.sp[sid]
		if s.state == "gone" {
			if _, back := cur[sid]; back {
				t.violate("removed-workspace-reappeared", map[string]string{"event": event}, map[string]interface{}{"sid": sid})
			}
			continue
		}
		now, ok := cur[sid]
		if !ok {
			now = "gone"
		}
		ev := event
		if !targets[sid] {
			ev = "none"
		}
		ok2 := false
		for _, a := range allowedFor(ev, s.state, false) {
			if a == now {
				ok2 = true
			}
		}
		if !ok2 {
			t.violate("undocumented-transition", map[string]string{"event": ev, "from": s.state, "to": now}, map[string]interface{}{"sid": sid, "target_of_event": targets[sid]})
		}
		// guards: remove/delete must be refused while plotting or mining
		if targets[sid] && (event == "remove" || event == "delete") {
			err := errs[sid]
			if (s.state == "plotting" || s.state == "mining") && err == nil {
				t.violate(event+"-accepted-while-"+s.state, nil, map[string]interface{}{"sid": sid})
			}
			if err == nil && now != "gone" && (s.state == "registered" || s.state == "ready") {
				t.violate("accepted-"+event+"-left-workspace-listed", nil, map[string]interface{}{"sid": sid})
			}
			if err != nil && now == "gone" {
				t.violate("refused-"+event+"-removed-workspace", nil, map[string]interface{}{"sid": sid, "err": err.Error()})
			}
		}
		if now != s.state {
			t.changes++
			t.run.Count("transition:"+s.state+"->"+now+"@"+ev, 1)
			// I4: entering plotting / mining needs an outstanding request
			if now == "plotting" && !s.wanted {
				t.violate("space-plotted-without-outstanding-request", map[string]string{"trigger": s.cancelNote, "seen_as": "state"}, map[string]interface{}{"sid": sid})
			}
			if now == "mining" && !s.wantMine {
				t.violate("space-mined-without-outstanding-request", map[string]string{"trigger": s.cancelNote, "via": ev}, map[string]interface{}{"sid": sid})
			}
			// I6
			if ev == "step3" || ev == "keeper-stop" {
				if d := t.dbOf(sid); d != nil && s.state == "plotting" {
					done := d.Ready()
					if done && now == "registered" {
						t.violate("completed-plot-returned-to-registered", nil, map[string]interface{}{"sid": sid})
					}
					if !done && (now == "ready" || now == "mining") {
						t.violate("aborted-plot-reported-"+now, nil, map[string]interface{}{"sid": sid})
					}
				}
			}
		}
		s.state = now
	}
	for sid := range cur {
		if _, known := t.sp[sid]; !known {
			t.violate("unknown-workspace-appeared", map[string]string{"event": event}, map[string]interface{}{"sid": sid})
		}
	}
}

// pendingReal reads the length of the keeper's pending-request channel (unexported field, read-only via reflect)
// at a quiescent point; the per-space model of what sits in it is reset when it is empty.
func (t *tcase) pendingReal() int {
	n := t.sk.pendingLen()
	if n == 0 {
		for _, s := range t.sp {
			s.inChan = 0
		}
	}
	t.pending = n
	return n
}

func (t *tcase) dbOf(sid string) *kp.FakeDB {
	for _, d := range t.ctl.DBs() {
		if t.byKey[d.Key] == sid {
			return d
		}
	}
	return nil
}

// next waits for the next plotter-side event and updates the position.
func (t *tcase) next() (kp.Event, bool) {
	e, ok := t.ctl.Next(watchdog)
	if !ok {
		t.run.Drop("plotter did not reach the next hook point within the watchdog")
		t.dead = true
		if os.Getenv("VERIF_DEBUG") != "" {
			fmt.Println("DROP(next) case", t.ci, "pos", t.pos, t.posSID, "pending", t.pending)
			for _, l := range t.trace {
				fmt.Println("   ", l)
			}
		}
		return e, false
	}
	switch {
	case e.Kind == "plot-start":
		sid := t.byKey[e.SID]
		t.pos, t.posSID = "inplot", sid
		t.logf("  [plotter] scripted Plot() started on %s", short(sid))
		t.run.Count("scripted_plots_started", 1)
		if s := t.sp[sid]; s != nil && !s.wanted {
			t.violate("space-plotted-without-outstanding-request", map[string]string{"trigger": s.cancelNote, "seen_as": "plot-call"}, map[string]interface{}{"sid": sid})
		}
	case e.Kind == "plot-end":
		t.logf("  [plotter] scripted Plot() ended (%s)", e.Out)
		t.run.Count("scripted_plots_ended:"+e.Out, 1)
	case strings.HasPrefix(e.Kind, "gate:"):
		if e.Kind == "gate:popped" {
			if s := t.sp[e.SID]; s != nil {
				s.pops++
			}
			if s := t.sp[e.SID]; s != nil && s.stale > 0 {
				s.stale-- // this pop works off one request issued before the cancel
				s.staleInFlight = true
			}
		}
		if e.Kind == "gate:stepDone" || e.Kind == "gate:idle" {
			for _, s := range t.sp {
				s.staleInFlight = false
			}
		}
		t.pos, t.posSID = e.Kind, e.SID
		t.logf("  [plotter] at %s %s", e.Kind, short(e.SID))
	}
	return e, true
}

func short(s string) string {
	if len(s) > 10 {
		return s[:10]
	}
	return s
}

// settle brings the system to a quiescent point after an API action.
func (t *tcase) settle() {
	for !t.dead {
		switch {
		case t.pos == "inplot":
			d := t.dbOf(t.posSID)
			if d == nil || d.IsRunning() {
				return
			}
			// the scripted plot ended (stopped): plot-end, then the plotter arrives at gate:plotted
			if e, ok := t.next(); !ok || e.Kind == "gate:plotted" {
				return
			}
		case t.pos == "select" && t.sentSinceSelect:
			// a request woke the plotter: it drains the channel and pops
			t.sentSinceSelect = false
			t.next()
			t.pendingReal()
			return
		default:
			return
		}
	}
}

func (t *tcase) act(action uint8, name string) {
	defer t.guard("ActOnWorkSpace(s) " + name)
	// single or bulk
	cur0 := map[string]string{}
	for sid, s := range t.sp {
		cur0[sid] = s.state
	}
	if t.rng.Chance(1, 3) {
		flags := uint32(t.rng.Range(1, 15))
		t.logf("ActOnWorkSpaces(%s, %s)", flagsString(flags), name)
		errs, err := t.sk.actBulk(flags, action)
		if err != nil {
			t.logf("  -> %v", err)
		}
		targets := map[string]bool{}
		for _, sid := range t.order {
			if inFlags(t.sp[sid].state, flags) {
				targets[sid] = true
			}
		}
		for sid := range errs {
			if !targets[sid] {
				t.violate("bulk-action-touched-space-outside-flags", map[string]string{"action": name}, map[string]interface{}{"sid": sid, "flags": flagsString(flags)})
			}
		}
		for sid := range targets {
			t.bookkeep(name, sid, errs[sid])
		}
		t.run.Count("bulk_actions:"+name, 1)
		t.settle()
		t.judge(name, targets, t.observe(), errs)
		return
	}
	var sid string
	if t.rng.Chance(1, 12) || len(t.order) == 0 {
		sid = strings.Repeat("ab", 33) + "-24" // unknown space
	} else {
		sid = t.order[t.rng.Intn(len(t.order))]
	}
	t.actOn(sid, action, name)
}

// actOn: one single-space action on a chosen space, judged like any other move.
func (t *tcase) actOn(sid string, action uint8, name string) {
	err := t.sk.act(sid, action)
	t.logf("ActOnWorkSpace(%s, %s) -> %v", short(sid), name, err)
	t.run.Count("single_actions:"+name, 1)
	targets := map[string]bool{}
	if s, ok := t.sp[sid]; ok && s.state != "gone" {
		targets[sid] = true
		t.bookkeep(name, sid, err)
	} else if err == nil {
		t.violate("action-on-unknown-workspace-accepted", map[string]string{"action": name}, map[string]interface{}{"sid": sid})
	}
	t.settle()
	t.judge(name, targets, t.observe(), map[string]error{sid: err})
}

// bookkeep updates the request model (wanted flags, pending channel) for an accepted action.
func (t *tcase) bookkeep(name, sid string, err error) {
	s := t.sp[sid]
	if s == nil || err != nil {
		return
	}
	if os.Getenv("C09_DEBUG") != "" {
		defer func() {
			t.logf("    model %s after %s: state=%s wanted=%v wantMine=%v inChan=%d stale=%d inflight=%v note=%q pos=%s/%s pending=%d", short(sid), name, s.state, s.wanted, s.wantMine, s.inChan, s.stale, s.staleInFlight, s.cancelNote, t.pos, short(t.posSID), t.pending)
		}()
	}
	switch name {
	case "plot", "mine":
		if s.state == "registered" {
			s.open++
			s.lifeReq++
		}
		s.wanted = true
		if name == "mine" {
			s.wantMine = true
		}
		if name == "plot" && s.state == "plotting" && s.wantMine && s.stale == 0 && !s.staleInFlight && s.inChan == 0 && s.lifeReq == 1 {
			// documented table, Plot: "plotting -> ready". The request being worked off is the only one this space ever had, and a
			// Plot on it withdraws the mining intent it carried: completion must leave the space ready, not mining
			s.wantMine = false
			t.run.Count("plot_requests_withdrawing_mining_intent", 1)
		}
		if s.state == "registered" {
			// the keeper pushes a request into its pending channel
			s.inChan++
			t.pending++
			t.sentSinceSelect = true
			if s.stale > 0 || s.staleInFlight {
				// requests of one space have the same priority: the keeper's queue may hand out this one before the
				// ones the cancel missed, so from outside it belongs to the same indistinguishable set
				s.stale++
			}
		}
		if s.stale == 0 && !s.staleInFlight {
			s.cancelNote = ""
		}
	case "stop", "remove", "delete":
		s.wanted, s.wantMine = false, false
		s.open, s.pops = 0, 0
		defer func() { s.lifeReq = s.stale }()
		switch {
		case s.inChan > 0:
			s.cancelNote = "request-pending-in-channel-at-cancel"
			s.stale += s.inChan
		case (t.pos == "gate:plotting" || t.pos == "gate:popped") && t.posSID == sid:
			s.cancelNote = "cancel-arrived-between-pop-and-plot-start"
			s.stale++
		default:
			if s.stale == 0 {
				s.cancelNote = "other"
			}
		}
	}
}

func (t *tcase) plotterStep() {
	switch {
	case strings.HasPrefix(t.pos, "gate:"):
		g := t.pos
		sid := t.posSID
		t.logf("release %s %s", g, short(sid))
		t.run.Count("gate_releases:"+g, 1)
		if g == "gate:idle" {
			wake := t.pendingReal() > 0
			t.ctl.Release()
			if wake {
				t.next()
				t.pendingReal()
			} else {
				t.pos = "select"
				t.sentSinceSelect = false
			}
			t.judge("none", nil, t.observe(), nil)
			return
		}
		t.ctl.Release()
		e, ok := t.next()
		if !ok {
			return
		}
		if e.Kind == "plot-end" { // a plot that ended immediately
			t.next()
		}
		ev := "none"
		switch g {
		case "gate:popped":
			ev = "step1"
		case "gate:plotted":
			ev = "step3"
		}
		t.judge(ev, map[string]bool{sid: true}, t.observe(), nil)
	case t.pos == "inplot":
		out := t.rng.PickS("complete", "complete", "abort", "error")
		d := t.dbOf(t.posSID)
		if d == nil {
			return
		}
		t.logf("scripted plot of %s: %s", short(t.posSID), out)
		d.Finish(out)
		if e, ok := t.next(); ok && e.Kind == "plot-end" {
			t.next() // gate:plotted
		}
		t.judge("none", nil, t.observe(), nil)
	}
}

func (t *tcase) keeperStop() {
	if !t.started {
		return
	}
	t.logf("keeper.Stop()")
	done := make(chan error, 1)
	go func() { done <- t.sk.stop() }()
	deadline := time.After(watchdog)
	inflight, idle := "", 0
	if t.pos == "inplot" {
		if d := t.dbOf(t.posSID); d != nil {
			inflight = d.Key
		}
	}
	for {
		select {
		case <-done:
			// drain what the plotter emitted on its way out
			for {
				if _, ok := t.ctl.Poll(); !ok {
					break
				}
			}
			t.started = false
			t.pos = "exited"
			for _, sp := range t.sp {
				sp.open, sp.pops = 0, 0 // the plotter empties its queue on the way out
			}
			t.pendingReal()
			t.run.Count("keeper_stops", 1)
			targets := map[string]bool{}
			for _, sid := range t.order {
				targets[sid] = true
			}
			t.judge("keeper-stop", targets, t.observe(), nil)
			return
		case <-deadline:
			t.run.Drop("keeper.Stop did not return within the watchdog under the gate scheduler")
			t.dead = true
			if os.Getenv("VERIF_DEBUG") != "" {
				fmt.Println("DROP(stop) case", t.ci, "pos", t.pos, t.posSID, "pending", t.pending)
				for _, l := range t.trace {
					fmt.Println("   ", l)
				}
				buf := make([]byte, 1<<20)
				fmt.Println(string(buf[:runtime.Stack(buf, true)]))
			}
			return
		default:
		}
		if t.ctl.Gated() {
			t.ctl.Release()
		}
		if e, ok := t.ctl.Next(2 * time.Millisecond); ok {
			idle = 0
			switch e.Kind {
			case "plot-start":
				inflight = e.SID
				if s := t.sp[t.byKey[e.SID]]; s != nil && !s.wanted {
					t.violate("space-plotted-without-outstanding-request", map[string]string{"trigger": s.cancelNote, "seen_as": "plot-call-during-keeper-stop"}, nil)
				}
			case "plot-end":
				inflight = ""
			}
		} else if idle++; idle > 10 && inflight != "" {
			// the shutdown monitor looked before the plot had started, so nobody stops it: the plot simply runs to its end
			for _, d := range t.ctl.DBs() {
				if d.Key == inflight && d.IsRunning() {
					d.Finish(t.rng.PickS("complete", "abort"))
					t.run.Count("plots_that_outlived_the_shutdown_monitor", 1)
				}
			}
		}
	}
}

func (t *tcase) keeperStart() {
	if t.started {
		return
	}
	t.logf("keeper.Start()")
	if err := t.sk.start(); err != nil {
		t.logf("  -> %v", err)
		return
	}
	t.started = true
	t.run.Count("keeper_starts", 1)
	t.next() // gate:idle or gate:popped
	t.judge("none", nil, t.observe(), nil)
}

// guard turns a panic of a keeper entry point called by the harness into a violation of this case
// (a panic on the plotter goroutine cannot be recovered: the check script then reports the dead driver).
func (t *tcase) guard(what string) {
	if r := recover(); r != nil {
		buf := make([]byte, 16<<10)
		t.violate("keeper-entry-point-panicked", map[string]string{"call": what}, map[string]interface{}{"panic": fmt.Sprint(r), "stack": string(buf[:runtime.Stack(buf, false)])})
		t.dead = true
	}
}

func runCase(run *vh.Run, root *vh.Rng, i int) {
	rng := root.Derive("case", i)
	dir := filepath.Join(run.Scratch, fmt.Sprintf("case-%d", i))
	os.MkdirAll(dir, 0o755)
	defer os.RemoveAll(dir)
	ctl := kp.NewCtl(fmt.Sprint(i), []string{dir})
	n := rng.Range(1, 3)
	nReady := rng.Intn(n + 1)
	directed := i%8 == 5
	if directed {
		n, nReady = 3, 0
	}
	created := 0
	ctl.CreatePlotted = func(string) bool { created++; return created <= nReady }
	cfg := config.DefaultConfig()
	cfg.Miner.ProofDir = []string{dir}
	wallet := kp.NewFakeWallet(uint64(i) + 1)
	ski, err := capacity.NewSpaceKeeperV1(cfg, wallet)
	if err != nil {
		run.Drop("cannot construct keeper: " + err.Error())
		ctl.Close([]string{dir}, nil)
		return
	}
	sk := ski.(*capacity.SpaceKeeper)
	ctl.Bind(sk)
	defer ctl.Close([]string{dir}, sk)
	conv := func(in []engine.WorkSpaceInfo, err error) ([]info, error) {
		out := make([]info, len(in))
		for j, x := range in {
			out[j] = info{x.SpaceID, stateName(x.State)}
		}
		return out, err
	}
	a := &api{name: "v1",
		infos: func(f uint32) ([]info, error) { return conv(sk.WorkSpaceInfos(engine.WorkSpaceStateFlags(f))) },
		ids:   func(f uint32) ([]string, error) { return sk.WorkSpaceIDs(engine.WorkSpaceStateFlags(f)) },
		act:   func(sid string, ac uint8) error { return sk.ActOnWorkSpace(sid, engine.ActionType(ac)) },
		actBulk: func(f uint32, ac uint8) (map[string]error, error) {
			return sk.ActOnWorkSpaces(engine.WorkSpaceStateFlags(f), engine.ActionType(ac))
		},
		start: sk.Start, stop: sk.Stop, started: sk.Started,
		offered: func() ([]string, error) {
			var ch pocutil.Hash
			ps, err := sk.GetProofs(context.Background(), engine.SFMining, ch, false)
			var out []string
			for _, p := range ps {
				out = append(out, p.SpaceID)
			}
			return out, err
		},
		pendingLen: func() int { return reflect.ValueOf(sk).Elem().FieldByName("newQueuedWorkSpaceCh").Len() },
	}
	t := &tcase{run: run, ci: i, rng: rng, ctl: ctl, sk: a, dir: dir, sp: map[string]*space{}, byKey: map[string]string{}, pos: "notstarted"}
	execPlot, execMine := rng.Chance(1, 4), rng.Chance(1, 5)
	if directed {
		execPlot, execMine = false, false
		t.directed = true
	}
	infos, err := sk.ConfigureByBitLength(map[int]int{24: n}, execPlot, execMine)
	if err != nil {
		run.Drop("cannot configure: " + err.Error())
		return
	}
	t.logf("configured %d spaces (%d already plotted), execPlot=%v execMine=%v", n, nReady, execPlot, execMine)
	for _, in := range infos {
		s := &space{sid: in.SpaceID, state: stateName(in.State)}
		if execPlot || execMine {
			s.wanted, s.wantMine = true, execMine
			s.lifeReq = 1
		}
		t.sp[in.SpaceID] = s
		t.order = append(t.order, in.SpaceID)
	}
	sort.Strings(t.order)
	for _, d := range ctl.DBs() {
		// db key: dir|ord|pubkeyhex|bl ; sid: pubkeyhex-bl
		parts := strings.Split(d.Key, "|")
		t.byKey[d.Key] = parts[2] + "-" + parts[3]
	}
	t.drive()
	run.Case(vh.HashS(t.trace...), t.changes > 0)
	if i < 2 {
		run.Sample(t.trace)
	}
}

// drive runs the seeded move sequence on a prepared case.
func (t *tcase) drive() {
	rng, run := t.rng, t.run
	t.judge("none", nil, t.observe(), nil)
	if t.directed && len(t.order) == 3 {
		// three requests handed in before the plotter runs: it takes them all into its queue at once, plots the first
		// and keeps two queued; one of the queued ones is cancelled - the other must still be served
		for _, sid := range t.order {
			t.actOn(sid, 0, "plot")
		}
		t.keeperStart()
		for k := 0; k < 10 && t.pos != "inplot" && !t.dead && t.started; k++ {
			t.plotterStep()
		}
		if t.pos == "inplot" {
			var queued []string
			for _, sid := range t.order {
				if sid != t.posSID {
					queued = append(queued, sid)
				}
			}
			a := 2 + rng.Intn(3)
			t.actOn(queued[rng.Intn(len(queued))], uint8(a), []string{"plot", "mine", "stop", "remove", "delete"}[a])
			t.run.Count("directed_cancel_of_a_queued_request", 1)
		}
	}
	t.keeperStart()
	steps := rng.Range(6, run.N(16, 24))
	if t.directed {
		steps = rng.Range(0, 4)
	}
	for s := 0; s < steps && !t.dead && run.Violations() < 40; s++ {
		switch rng.Weighted(10, 9, 1, 1) {
		case 0:
			a := rng.Weighted(5, 4, 4, 1, 1)
			t.act(uint8(a), []string{"plot", "mine", "stop", "remove", "delete"}[a])
		case 1:
			if t.started {
				t.plotterStep()
			}
		case 2:
			t.keeperStop()
		case 3:
			t.keeperStart()
		}
	}
	// drain: let the plotter finish whatever is outstanding so that the last requests are judged too
	for k := 0; k < 40 && !t.dead && t.started && t.pos != "select"; k++ {
		t.plotterStep()
	}
	if t.started && !t.dead && t.pos == "select" && t.pendingReal() == 0 {
		// the plotter is idle and nothing is queued any more: a request that was accepted on a registered space and not
		// cancelled since must have been taken up by the plotter at least once
		for _, sid := range t.order {
			if sp := t.sp[sid]; sp != nil && sp.open > 0 && sp.pops == 0 && sp.state == "registered" {
				t.violate("accepted-request-never-reached-the-plotter", map[string]string{"spaces": fmt.Sprint(len(t.order))},
					map[string]interface{}{"sid": sid, "accepted_requests_since_last_cancel": sp.open, "note": "the plotter went idle with an empty queue and an empty request channel; this space's request was never popped, it is still registered"})
			}
		}
		t.run.Count("final_drains_checked_for_lost_requests", 1)
	}
	if t.started && !t.dead {
		t.keeperStop()
	}
	_ = hex.EncodeToString
}

func main() {
	run := vh.NewRun("C09", "exploration")
	wl.Setup(filepath.Join(run.Scratch, "log"), "error")
	kp.InstallBackend()
	kp.InstallHooks()
	root := run.Rng()
	n := run.N(1500, 100000)
	vh.Parallel(n, 16, func(i int) {
		if run.Want(i) {
			runCase(run, root, i)
		}
	})
	n2 := run.N(500, 30000)
	kp.InstallBackendV2()
	vh.Parallel(n2, 16, func(i int) {
		if run.Want(n + i) {
			runCaseV2(run, root, i, n+i)
		}
	})
	n3 := run.N(150, 5000)
	vh.Parallel(n3, 16, func(i int) {
		if run.Want(n + n2 + i) {
			runCaseConc(run, root, i, n+n2+i)
		}
	})
	run.Finish("case = (configuration, action sequence, schedule): 1-3 workspaces (some already plotted, sometimes configured with plot/mine flags) on the real v1 keeper over the scripted plot backend; 6-24 moves drawn from {single or bulk plot/mine/stop/remove/delete incl. unknown ids, release the plotter by one hook gate, decide the scripted plot outcome (complete/abort), keeper stop, keeper start}; after every move all state queries are read at a quiescent point; non-trivial = at least one workspace changed state; distinct by hash of the executed move/observation trace", run.N(400, 10000))
}
