package main

import (
	"context"
	"fmt"
	"os"
	"path/filepath"
	"reflect"
	"sort"

	"github.com/massnetorg/mass-core/poc/pocutil"
	"massnet.org/mass/config"
	enginev2 "massnet.org/mass/poc/engine.v2"
	"massnet.org/mass/poc/engine.v2/spacekeeper/skchia"
	"verif/harness/internal/kp"
	"verif/harness/internal/vh"
)

// runCaseV2 drives the engine-v2 keeper (chia plots: every space is loaded as ready; plot is a no-op) with the
// same move generator and oracles; the reachable states are ready and mining.
func runCaseV2(run *vh.Run, root *vh.Rng, i, ci int) {
	rng := root.Derive("case-v2", i)
	dir := filepath.Join(run.Scratch, fmt.Sprintf("v2case-%d", i))
	os.MkdirAll(dir, 0o755)
	defer os.RemoveAll(dir)
	n := rng.Range(1, 3)
	files := kp.PlantV2Plots(dir, n, uint64(i)+1)
	defer kp.ForgetV2Plots(files)
	ctl := kp.NewCtl(fmt.Sprint("v2-", i), []string{dir})
	cfg := config.DefaultConfig()
	cfg.Miner.ProofDir = []string{dir}
	execMine := rng.Chance(1, 4)
	cfg.Miner.Generate = execMine
	ski, err := skchia.NewSpaceKeeperChiaPoS(cfg)
	if err != nil {
		run.Drop("cannot construct v2 keeper: " + err.Error())
		ctl.Close([]string{dir}, nil)
		return
	}
	sk := ski.(*skchia.SpaceKeeper)
	ctl.Bind(sk)
	defer ctl.Close([]string{dir}, sk)
	conv := func(in []enginev2.WorkSpaceInfo, err error) ([]info, error) {
		out := make([]info, len(in))
		for j, x := range in {
			out[j] = info{x.SpaceID, x.State.String()}
		}
		return out, err
	}
	a := &api{name: "v2",
		infos: func(f uint32) ([]info, error) { return conv(sk.WorkSpaceInfos(enginev2.WorkSpaceStateFlags(f))) },
		ids:   func(f uint32) ([]string, error) { return sk.WorkSpaceIDs(enginev2.WorkSpaceStateFlags(f)) },
		act:   func(sid string, ac uint8) error { return sk.ActOnWorkSpace(sid, enginev2.ActionType(ac)) },
		actBulk: func(f uint32, ac uint8) (map[string]error, error) {
			return sk.ActOnWorkSpaces(enginev2.WorkSpaceStateFlags(f), enginev2.ActionType(ac))
		},
		start: sk.Start, stop: sk.Stop, started: sk.Started,
		offered: func() ([]string, error) {
			var ch pocutil.Hash
			qs, err := sk.GetQualities(context.Background(), enginev2.SFMining, ch)
			seen := map[string]bool{}
			var out []string
			for _, q := range qs {
				if !seen[q.SpaceID] {
					seen[q.SpaceID] = true
					out = append(out, q.SpaceID)
				}
			}
			return out, err
		},
		pendingLen: func() int { return reflect.ValueOf(sk).Elem().FieldByName("newQueuedWorkSpaceCh").Len() },
	}
	t := &tcase{run: run, ci: ci, rng: rng, ctl: ctl, sk: a, dir: dir, sp: map[string]*space{}, byKey: map[string]string{}, pos: "notstarted"}
	infos, err := a.infos(15)
	if err != nil || len(infos) != n {
		run.Violate(ci, "v2-keeper-did-not-index-planted-plots", nil, map[string]interface{}{"planted": n, "indexed": len(infos), "err": fmt.Sprint(err)})
		return
	}
	t.logf("v2 keeper over %d plots, generate(mine)=%v", n, execMine)
	for _, in := range infos {
		t.sp[in.SID] = &space{sid: in.SID, state: in.State, wanted: execMine, wantMine: execMine}
		t.order = append(t.order, in.SID)
	}
	sort.Strings(t.order)
	t.drive()
	run.Count("v2_cases", 1)
	run.Case(vh.HashS(append([]string{"v2"}, t.trace...)...), t.changes > 0)
}
