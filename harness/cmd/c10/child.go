package main

// child process of c10: opens (or creates) one space, installs the window-size override (H1) and
// one interruption (H2), calls Plot() and waits. Every hook event is written to the events file
// (one JSON line, with both checkpoints read back from the file headers through the child's own
// read-only descriptors) BEFORE the child acts on it.

import (
	"encoding/binary"
	"encoding/hex"
	"encoding/json"
	"flag"
	"os"
	"path/filepath"
	"strconv"
	"strings"
	"sync"
	"syscall"
	"time"

	"github.com/massnetorg/mass-core/logging"
	"github.com/massnetorg/mass-core/pocec"
	massdb_v1 "massnet.org/mass/poc/engine/massdb/massdb.v1"
	"massnet.org/mass/verifhook"
)

const (
	exitSpin    = 77 // bounded-progress rule broken: the child stopped a Plot() call that does not advance
	exitOpenErr = 73 // the space could not be opened / created
	goMark      = "C10-GO"

	// spinWitness: at bit lengths where the full bound (2^bl windows) would take minutes, this many
	// consecutive windows of ZERO records with an unchanged start point are taken as the witness
	// (the loop state - start point and remaining memory need - is then a fixed point). At bl 8
	// the full bound is used, which cross-checks this shortcut on every run.
	spinWitness = 8
)

// intr is one injected interruption.
type intr struct {
	Kind    string `json:"kind"`               // "kill": SIGKILL self at the point; "stop": StopPlot() at the point; "stop-late": StopPlot() DelayUs after the point (a window start), without holding the plot up; "kill-async": the parent sends SIGKILL DelayUs after the child's Occ-th hook event
	Point   string `json:"point"`              // hook point ("async" for kill-async)
	Occ     int    `json:"occ"`                // 1-based occurrence of Point within this Plot() call (kill-async: ordinal of the hook event, all points counted)
	DelayUs int    `json:"delay_us,omitempty"` // kill-async only
}

type childSpec struct {
	Dir       string `json:"dir"`
	Ordinal   int64  `json:"ordinal"`
	PrivHex   string `json:"priv_scalar_hex"`
	BL        int    `json:"bl"`
	CapA      uint64 `json:"cap_a"` // window bytes, pass A (0 = whatever the code asks for: one window)
	CapB      uint64 `json:"cap_b"`
	Intr      *intr  `json:"intr"`
	Events    string `json:"events"`
	LogDir    string `json:"log_dir"`
	FullBound bool   `json:"full_bound"`
	// ResumeInProcess: after a graceful stop or an error has ended the first Plot() call, Plot() is called again on the
	// SAME object (what the keeper does on Stop, or a failed plot, followed by Plot) instead of leaving the resume to the
	// next process
	ResumeInProcess bool `json:"resume_in_process,omitempty"`
}

type event struct {
	Seq        int    `json:"seq"`
	Ev         string `json:"ev"` // opened | point | plot-returned | open-error
	Point      string `json:"point,omitempty"`
	Occ        int    `json:"occ,omitempty"`
	Start      int64  `json:"start"` // window [start,end) of the event, -1 when the point has none
	End        int64  `json:"end"`
	CkA        int64  `json:"ck_a"` // pass-A checkpoint in the header of the map-A file right now (-1: no file)
	CkB        int64  `json:"ck_b"`
	Act        string `json:"act,omitempty"` // what the child does next: kill | stop | signal | abort-bound | abort-noprogress
	HasA       bool   `json:"has_a,omitempty"`
	Err        string `json:"err,omitempty"`
	Completed  bool   `json:"completed,omitempty"`
	StopIssued bool   `json:"stop_issued,omitempty"`
	Windows    int    `json:"windows_this_call,omitempty"` // *.checkpointed events of the pass within this Plot() call
}

func pubKeyOf(privHex string) *pocec.PublicKey {
	b, _ := hex.DecodeString(privHex)
	_, pub := pocec.PrivKeyFromBytes(pocec.S256(), b)
	return pub
}

func mapPaths(dir string, ordinal int64, pub *pocec.PublicKey, bl int) (a, b string) {
	ks := hex.EncodeToString(pub.SerializeCompressed())
	a = filepath.Join(dir, strings.Join([]string{strconv.FormatInt(ordinal, 10), ks, strconv.Itoa(bl), "a"}, "_")+".massdb")
	b = filepath.Join(dir, strings.Join([]string{strconv.FormatInt(ordinal, 10), ks, strconv.Itoa(bl)}, "_")+".massdb")
	return
}

const posCheckpoint = 42 // hashmap.go: PosCheckpoint, 8 bytes little endian

func readCkFile(f *os.File) int64 {
	if f == nil {
		return -1
	}
	var b [8]byte
	if n, _ := f.ReadAt(b[:], posCheckpoint); n != 8 {
		return -1
	}
	return int64(binary.LittleEndian.Uint64(b[:]))
}

func readCkPath(p string) int64 {
	f, err := os.Open(p)
	if err != nil {
		return -1
	}
	defer f.Close()
	return readCkFile(f)
}

func passOf(point string) string {
	switch {
	case strings.HasPrefix(point, "plot.A."):
		return "A"
	case strings.HasPrefix(point, "plot.B."):
		return "B"
	}
	return "-"
}

func childMain(args []string) {
	fs := flag.NewFlagSet("child", flag.ExitOnError)
	specPath := fs.String("spec", "", "")
	fs.Parse(args)
	var sp childSpec
	b, err := os.ReadFile(*specPath)
	if err != nil || json.Unmarshal(b, &sp) != nil {
		os.Exit(exitOpenErr)
	}
	logging.Init(sp.LogDir, "c10", "error", 1, true)
	evf, err := os.OpenFile(sp.Events, os.O_WRONLY|os.O_CREATE|os.O_APPEND, 0o644)
	if err != nil {
		os.Exit(exitOpenErr)
	}
	emit := func(e *event) {
		jb, _ := json.Marshal(e)
		evf.Write(append(jb, '\n'))
	}
	pub := pubKeyOf(sp.PrivHex)
	mdb, err := massdb_v1.NewMassDBV1(sp.Dir, sp.Ordinal, pub, sp.BL)
	if err != nil {
		emit(&event{Ev: "open-error", Err: err.Error(), Start: -1, End: -1, CkA: -1, CkB: -1})
		os.Exit(exitOpenErr)
	}
	pathA, pathB := mapPaths(sp.Dir, sp.Ordinal, pub, sp.BL)
	fa, _ := os.Open(pathA) // own descriptors: still readable after the plotter closes/unlinks its own
	fb, _ := os.Open(pathB)
	emit(&event{Ev: "opened", HasA: mdb.HashMapA != nil, Start: -1, End: -1, CkA: readCkFile(fa), CkB: readCkFile(fb)})

	vol := int64(1) << uint(sp.BL)
	bound := int(vol) // records of either pass: every window covers at least one
	var (
		mu         sync.Mutex
		seq        int
		occ        = map[string]int{}
		cnt        = map[string]int{}
		noAdv      = map[string]int{}
		pass       = "A"
		fired      bool
		stopIssued bool
		removed    bool
		stopDone   = make(chan struct{})
	)
	in := sp.Intr
	handle := func(name string, start, end int64) {
		mu.Lock()
		seq++
		occ[name]++
		e := event{Seq: seq, Ev: "point", Point: name, Occ: occ[name], Start: start, End: end, CkA: readCkFile(fa), CkB: readCkFile(fb)}
		act := ""
		if strings.HasSuffix(name, ".checkpointed") {
			p := passOf(name)
			cnt[p]++
			e.Windows = cnt[p]
			if end <= start {
				noAdv[p]++
			} else {
				noAdv[p] = 0
			}
			switch {
			case cnt[p] > bound:
				act = "abort-bound"
			case !sp.FullBound && noAdv[p] >= spinWitness:
				act = "abort-noprogress"
			}
		}
		if name == "plot.A.final" {
			pass = "B"
		}
		if name == "plot.afterRemoveA" {
			removed = true
		}
		if act == "" && in != nil && !fired {
			switch in.Kind {
			case "kill", "stop", "stop-late":
				if in.Point == name && in.Occ == occ[name] {
					act, fired = in.Kind, true
				}
			case "kill-async":
				if in.Occ == seq {
					act, fired = "signal", true
				}
			}
		}
		if act == "stop" || act == "stop-late" {
			stopIssued = true
		}
		e.Act = act
		emit(&e) // logged before acted upon
		mu.Unlock()
		switch act {
		case "kill":
			syscall.Kill(os.Getpid(), syscall.SIGKILL)
			select {}
		case "stop":
			go func() {
				<-mdb.StopPlot()
				close(stopDone)
			}()
			time.Sleep(time.Millisecond) // lets the stop goroutine close the channel; the plot goes on until it polls it
		case "stop-late":
			// the stop request arrives DelayUs into the window that starts here: after the sweep's stop poll, during
			// the sweep or the block-wise window write
			go func() {
				time.Sleep(time.Duration(in.DelayUs) * time.Microsecond)
				<-mdb.StopPlot()
				close(stopDone)
			}()
		case "signal":
			os.Stdout.WriteString(goMark + "\n") // the parent kills DelayUs after reading this; plotting goes on meanwhile
		case "abort-bound", "abort-noprogress":
			os.Exit(exitSpin)
		}
	}
	verifhook.Reset()
	verifhook.SetSize("plot.cache", func(v uint64) uint64 {
		mu.Lock()
		p := pass
		mu.Unlock()
		handle("plot."+p+".windowStart", -1, -1)
		c := sp.CapA
		if p == "B" {
			c = sp.CapB
		}
		if c != 0 && c < v {
			return c // only ever lowers
		}
		return v
	})
	for _, name := range h2Points {
		name := name
		verifhook.SetPoint(name, func(a ...interface{}) {
			s, e := int64(-1), int64(-1)
			if len(a) >= 3 {
				if v, ok := a[1].(uint64); ok {
					s = int64(v)
				}
				if v, ok := a[2].(uint64); ok {
					e = int64(v)
				}
			}
			handle(name, s, e)
		})
	}

	noop := mdb.HashMapA == nil // already plotted: Plot() returns at once
	perr := <-mdb.Plot()
	mu.Lock()
	si := stopIssued
	mu.Unlock()
	if si {
		select {
		case <-stopDone:
		case <-time.After(30 * time.Second):
		}
	}
	mu.Lock()
	fin := event{Seq: seq + 1, Ev: "plot-returned", Start: -1, End: -1, CkA: readCkFile(fa), CkB: readCkFile(fb), StopIssued: stopIssued,
		Completed: perr == nil && (removed || noop)}
	mu.Unlock()
	if perr != nil {
		fin.Err = perr.Error()
	}
	emit(&fin)
	if sp.ResumeInProcess && !fin.Completed && (si || perr != nil) {
		// same object, no reopen: whatever the first call left in memory is what the second one starts from
		perr2 := <-mdb.Plot()
		mu.Lock()
		fin2 := event{Seq: seq + 2, Ev: "plot-returned", Start: -1, End: -1, CkA: readCkFile(fa), CkB: readCkFile(fb), StopIssued: false,
			Completed: perr2 == nil && removed}
		mu.Unlock()
		if perr2 != nil {
			fin2.Err = perr2.Error()
		}
		emit(&fin2)
	}
	verifhook.Reset()
	if !noop {
		// (Plot() on an already plotted space used to leave the "plotting" flag set with a nil stop channel, so that
		// Close() -> StopPlot() panicked; repaired by fix 39ff690, see DESIGN 8.3. The guard stays: a no-op Plot has
		// nothing to close down.)
		mdb.Close()
	}
	os.Exit(0)
}
