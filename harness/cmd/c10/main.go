// c10: interrupted plotting resumes to the same result and is never falsely complete.
//
// Runs the REAL plotter (massdb.v1: plot.go, hashmap.go, cache.go, massdb.v1.go) in child processes
// (self re-exec, child.go) under injected interruptions and decides with oracles over what was observed:
//
//	interruptions  kill        SIGKILL self at the n-th occurrence of a hook point (H2 points plus the window
//	                           start = the "plot.cache" size hook, which stands for any moment of the sweep)
//	               kill-async  SIGKILL from the parent, a seeded delay after the child's n-th hook event,
//	                           while the plot keeps running (lands mid-sweep / mid-write / mid-fsync)
//	               stop        graceful StopPlot() issued when a hook point is reached, then Close
//	               stop-late   graceful StopPlot() a seeded delay after a window start, the plot not held up: the
//	                           request lands inside the sweep or the block-wise window write
//	               single and repeated (up to 4 in a row), every run with a window size (H1) different
//	               from the previous run's: one window, exact multiples, odd record counts, sizes that the
//	               record size does not divide, minimal windows.
//	after every run the parent reopens the space (OpenDB) and records Progress()/Ready()/checkpoints:
//	(O1) reports plotted  =>  all 2^bl entries (HashMapB.Get) equal refplot now
//	(O2) bounded progress, counted in loop iterations: within one Plot() call "<pass>.checkpointed" fires at
//	     most 2^bl times (bl >= 10: 8 consecutive zero-record windows with unchanged start point are the
//	     witness; bl 8 always runs to the full bound); the child detects it in the hook and exits 77
//	(O3) after the last resume completes: table == refplot byte for byte, Progress (true,true,100), map A removed
//	(O4) syscall order under strace (strace.go): no checkpoint write while data written to the same file
//	     is not yet fsynced; no checkpoint value beyond the data already written and fsynced; map A unlinked only after the final map-B checkpoint was fsynced
//	(O5) header sanity after every interruption: checkpoints in range; pass A reported complete => map A
//	     equals the reference map A; and what lies below a recorded checkpoint equals the reference
//	     (map A slots < ckA, map B entries < 2*ckB): recorded progress is not ahead of written data.
//
// Family "legacy" additionally rewrites, after an interruption in pass A, the checkpoint to the odd value
// builds before the fix recorded for the same data, so that resuming such files stays monitored.
//
// Optional: C10_FIRST_EXE=<another build of this driver> executes the FIRST run of every case with that
// binary (used to resume, with a candidate fix, files that the unfixed code interrupted).
package main

import (
	"bufio"
	"bytes"
	"encoding/binary"
	"encoding/hex"
	"encoding/json"
	"fmt"
	"os"
	"os/exec"
	"path/filepath"
	"runtime"
	"strconv"
	"strings"
	"sync"
	"sync/atomic"
	"syscall"
	"time"

	"github.com/massnetorg/mass-core/logging"
	"github.com/massnetorg/mass-core/poc/pocutil"
	"massnet.org/mass/poc/engine"
	massdb_v1 "massnet.org/mass/poc/engine/massdb/massdb.v1"
	"massnet.org/mass/poc/engine/spacekeeper/capacity"
	"verif/harness/internal/ref"
	"verif/harness/internal/vh"
)

const propID = "C10"

// fullBoundMaxBL: up to this bit length a non-advancing Plot() call is left running until the full bound
// (2^bl windows) is exceeded; above it the zero-record-window witness cuts it short (a spin at bl 10 costs
// 1024 sweeps + 2048 fsyncs, at bl 12 sixteen times that).
const fullBoundMaxBL = 8

var h2Points = []string{"plot.A.dataSynced", "plot.A.checkpointed", "plot.A.final", "plot.B.dataSynced", "plot.B.checkpointed", "plot.B.final", "plot.beforeRemoveA", "plot.afterRemoveA"}

// allPoints: interruption points in program order. windowStart is the size hook at the top of every window.
var allPoints = []string{"plot.A.windowStart", "plot.A.dataSynced", "plot.A.checkpointed", "plot.A.final",
	"plot.B.windowStart", "plot.B.dataSynced", "plot.B.checkpointed", "plot.B.final", "plot.beforeRemoveA", "plot.afterRemoveA"}

func isWindowPoint(p string) bool {
	return strings.HasSuffix(p, ".windowStart") || strings.HasSuffix(p, ".dataSynced") || strings.HasSuffix(p, ".checkpointed")
}

// ---------------------------------------------------------------------------------------------
// case list: a pure function of (seed, tier)

type runSpec struct {
	Cfg  string `json:"cfg"`
	CapA uint64 `json:"window_bytes_pass_a"` // 0 = what the code asks for (one window)
	CapB uint64 `json:"window_bytes_pass_b"`
	Intr *intr  `json:"interruption,omitempty"` // nil: run until Plot() returns
	// FailWrite > 0: the run's FailWrite-th pwrite64 of every thread fails with EIO (strace fault injection): a
	// transient write error of the disk under the plot files
	FailWrite int `json:"fail_nth_pwrite,omitempty"`
	// ResumeInProcess: after the graceful stop of this run has ended Plot(), Plot() is called again on the same object
	ResumeInProcess bool `json:"resume_in_process,omitempty"`
}

type caseSpec struct {
	Idx     int       `json:"idx"`
	Family  string    `json:"family"`
	BL      int       `json:"bl"`
	Key     int       `json:"key"`
	PrivHex string    `json:"priv_scalar_hex"`
	Runs    []runSpec `json:"runs"`
	Strace  bool      `json:"strace"`
	// NearEnd > 0: after run 0 (killed right before the pass-A file is removed, table complete) the table is cut back
	// to the state a plot with one-pair windows leaves when it is interrupted NearEnd pairs before the end of pass B:
	// checkpoint = half-NearEnd, nothing written behind it. Reaching that state by plotting costs tens of thousands of
	// one-pair windows; what follows (resume with one-pair windows, stop a pair or two later) runs for real.
	NearEnd int `json:"near_end_pairs,omitempty"`
	// LoseA: after run 0 (a graceful stop inside pass B) the map-A file disappears (an operator tidying up "temporary"
	// files, an interrupted Delete): the space must not come back as plotted; plotting it again must end with the table
	LoseA  bool `json:"map_a_file_lost,omitempty"`
	Legacy bool `json:"legacy"` // after the interruption the pass-A header is rewritten to what builds before the fix recorded (window start + 1)
}

func simWindowsA(vol uint64, rs int, cap uint64) int {
	n := 0
	for start := uint64(0); start < vol; n++ {
		mem := (vol - start) * uint64(rs)
		if cap != 0 && cap < mem {
			mem = cap
		}
		w := (mem / uint64(rs)) &^ 1
		if w == 0 {
			return -1
		}
		start += w
	}
	return n
}

func simWindowsB(half uint64, rs int, cap uint64) int {
	n := 0
	for start := uint64(0); start < half; n++ {
		mem := (half - start) * uint64(rs) * 4
		if cap != 0 && cap < mem {
			mem = cap
		}
		w := (mem / uint64(rs)) >> 2
		if w == 0 {
			return -1
		}
		start += w
	}
	return n
}

// capForA: window bytes giving about n windows in pass A. slack bit 0: plus a partial record (not a
// multiple of the record size when rs > 1); bit 1: plus one whole record (odd record count).
func capForA(vol uint64, rs, n, slack int) uint64 {
	if n <= 1 {
		return 0
	}
	w := (vol + uint64(n) - 1) / uint64(n)
	w += w & 1
	c := w * uint64(rs)
	if slack&1 != 0 {
		c += uint64(rs - 1)
	}
	if slack&2 != 0 {
		c += uint64(rs)
	}
	return c
}

func capForB(half uint64, rs, n, slack int) uint64 {
	if n <= 1 {
		return 0
	}
	w := (half + uint64(n) - 1) / uint64(n)
	return w*uint64(rs)*4 + uint64(slack%(4*rs))
}

type wcfg struct {
	Name       string
	CapA, CapB uint64
}

// windowCfgs: index 0 is the "one window" size, the others are multi-window.
func windowCfgs(bl int, r *vh.Rng) []wcfg {
	vol := uint64(1) << uint(bl)
	half := vol / 2
	rs := pocutil.RecordSize(bl)
	var many wcfg
	switch {
	case bl <= 8: // minimal legal sizes: 2 records per window in pass A, one y-unit (4 records) in pass B
		many = wcfg{"many-minimal", uint64(2 * rs), uint64(4 * rs)}
		if r.Bool() {
			many = wcfg{"many-minimal-odd", uint64(3 * rs), uint64(4*rs + 3)}
		}
	case bl <= 10:
		many = wcfg{"32-windows", capForA(vol, rs, 32, r.Intn(4)), capForB(half, rs, 32, r.Intn(4*rs))}
	default:
		many = wcfg{"16-windows", capForA(vol, rs, 16, r.Intn(4)), capForB(half, rs, 16, r.Intn(4*rs))}
	}
	return []wcfg{
		{"one", 0, 0},
		{"2-exact", capForA(vol, rs, 2, 0), capForB(half, rs, 2, 0)},
		{"3-nonmultiple", capForA(vol, rs, 3, 3), capForB(half, rs, 3, 4*rs-1)},
		{"5-oddrecords", capForA(vol, rs, 5, 2), capForB(half, rs, 5, rs)},
		{"7-nonmultiple", capForA(vol, rs, 7, 1), capForB(half, rs, 7, 1+r.Intn(4*rs-1))},
		many,
		{"rand", capForA(vol, rs, 2+r.Intn(11), r.Intn(4)), capForB(half, rs, 2+r.Intn(11), r.Intn(4*rs))},
	}
}

func occCount(point string, nA, nB int) int {
	if !isWindowPoint(point) {
		return 1
	}
	if strings.HasPrefix(point, "plot.A.") {
		return nA
	}
	return nB
}

func buildCases(seed int64, thorough bool) []caseSpec {
	root := vh.NewRng(uint64(seed)).Derive(propID, 0)
	bls := []int{8, 10, 12}
	nKeys := 5
	if thorough {
		bls = []int{8, 10, 12, 14, 16}
		nKeys = 8
	}
	keyOf := func(bl, k int) string {
		r := root.Derive("key", bl*100+k)
		for {
			b := r.Bytes(32)
			b[0] &= 0x7f
			if !bytes.Equal(b, make([]byte, 32)) {
				return hex.EncodeToString(b)
			}
		}
	}
	var cases []caseSpec
	add := func(c caseSpec) {
		c.Idx = len(cases)
		c.PrivHex = keyOf(c.BL, c.Key)
		cases = append(cases, c)
	}
	rsOf := func(w wcfg, in *intr) runSpec { return runSpec{Cfg: w.Name, CapA: w.CapA, CapB: w.CapB, Intr: in} }
	// pickOther: a configuration whose window sizes differ (both passes) from prev's
	pickOther := func(r *vh.Rng, cfgs []wcfg, prev *wcfg, multiOnly bool) wcfg {
		for {
			i := r.Intn(len(cfgs))
			if multiOnly && i == 0 {
				continue
			}
			c := cfgs[i]
			if prev != nil && (c.CapA == prev.CapA || c.CapB == prev.CapB) {
				continue
			}
			return c
		}
	}
	windowsOf := func(bl int, w wcfg) (int, int) {
		vol := uint64(1) << uint(bl)
		rs := pocutil.RecordSize(bl)
		return simWindowsA(vol, rs, w.CapA), simWindowsB(vol/2, rs, w.CapB)
	}

	// family "single": every point x kind x occurrence index (bounded), one interruption, then resume to the end
	variants := 1
	if thorough {
		variants = 5
	}
	ci := 0
	for _, bl := range bls {
		for _, pt := range allPoints {
			for _, kind := range []string{"kill", "stop"} {
				for v := 0; v < variants; v++ {
					ci++
					r := root.Derive("single", ci)
					cfgs := windowCfgs(bl, r)
					before := pickOther(r, cfgs, nil, true)
					nA, nB := windowsOf(bl, before)
					n := occCount(pt, nA, nB)
					var occs []int
					if thorough {
						for o := 1; o <= n && o <= 8; o++ {
							occs = append(occs, o)
						}
						if n > 8 {
							occs = append(occs, n)
						}
					} else {
						for _, o := range []int{1, 2, n/2 + 1, n} {
							dup := o < 1 || o > n
							for _, p := range occs {
								dup = dup || p == o
							}
							if !dup {
								occs = append(occs, o)
							}
						}
					}
					for _, o := range occs {
						after := pickOther(r, cfgs, &before, false)
						add(caseSpec{Family: "single", BL: bl, Key: r.Intn(nKeys), Runs: []runSpec{
							rsOf(before, &intr{Kind: kind, Point: pt, Occ: o}), rsOf(after, nil)}})
					}
				}
			}
		}
	}
	// family "async": SIGKILL from the parent shortly after the n-th hook event, plot still running
	nAsync, nRep := 48, 84
	if thorough {
		nAsync, nRep = 1400, 2400
	}
	for i := 0; i < nAsync; i++ {
		r := root.Derive("async", i)
		bl := bls[i%len(bls)]
		cfgs := windowCfgs(bl, r)
		before := pickOther(r, cfgs, nil, true)
		nA, nB := windowsOf(bl, before)
		total := 3*nA + 3*nB + 4
		after := pickOther(r, cfgs, &before, false)
		add(caseSpec{Family: "async", BL: bl, Key: r.Intn(nKeys), Runs: []runSpec{
			rsOf(before, &intr{Kind: "kill-async", Point: "async", Occ: 1 + r.Intn(total-2), DelayUs: r.Intn(1500)}), rsOf(after, nil)}})
	}
	// family "stop-late": a graceful stop that arrives INSIDE a window (after the sweep's stop poll: at these bit
	// lengths the sweep polls only at its first value, so the request is seen by the block-wise window write)
	nLate := 36
	if thorough {
		nLate = 900
	}
	for i := 0; i < nLate; i++ {
		r := root.Derive("stop-late", i)
		bl := bls[len(bls)-1-i%2] // the larger bit lengths: a window takes long enough to be hit
		cfgs := windowCfgs(bl, r)
		before := pickOther(r, cfgs, nil, i%3 != 0)
		nA, nB := windowsOf(bl, before)
		pt, n := "plot.A.windowStart", nA
		if i%3 == 2 {
			pt, n = "plot.B.windowStart", nB
		}
		after := pickOther(r, cfgs, &before, false)
		first := rsOf(before, &intr{Kind: "stop-late", Point: pt, Occ: 1 + r.Intn(n), DelayUs: 20 + r.Intn(1200)})
		first.ResumeInProcess = i%2 == 0 // the keeper's Stop followed by Plot: same object, no reopen
		add(caseSpec{Family: "stop-late", BL: bl, Key: r.Intn(nKeys), Runs: []runSpec{first, rsOf(after, nil)}})
	}
	// family "repeated": 2..4 interruptions in a row, each resume with another window size
	for i := 0; i < nRep; i++ {
		r := root.Derive("repeated", i)
		bl := bls[i%len(bls)]
		cfgs := windowCfgs(bl, r)
		k := 2 + r.Intn(3)
		var runs []runSpec
		var prev *wcfg
		for j := 0; j < k; j++ {
			c := pickOther(r, cfgs, prev, j == 0 || r.Chance(3, 4))
			nA, nB := windowsOf(bl, c)
			var in *intr
			switch r.Weighted(5, 5, 1) {
			case 0, 1:
				kind := "kill"
				if r.Bool() {
					kind = "stop"
				}
				// bias towards the pass the plot is likely in: early interruptions in pass A, later ones in either
				pts := allPoints
				if j == 0 && r.Chance(2, 3) {
					pts = allPoints[:4]
				} else if j >= 2 && r.Chance(1, 2) {
					pts = allPoints[4:8]
				}
				pt := pts[r.Intn(len(pts))]
				n := occCount(pt, nA, nB)
				if j > 0 && n > 3 {
					n = 3 // a resumed run has fewer windows left
				}
				in = &intr{Kind: kind, Point: pt, Occ: 1 + r.Intn(n)}
			default:
				in = &intr{Kind: "kill-async", Point: "async", Occ: 1 + r.Intn(3*nA+2), DelayUs: r.Intn(1500)}
			}
			runs = append(runs, rsOf(c, in))
			cc := c
			prev = &cc
		}
		runs = append(runs, rsOf(pickOther(r, cfgs, prev, false), nil))
		add(caseSpec{Family: "repeated", BL: bl, Key: r.Intn(nKeys), Runs: runs})
	}
	// family "legacy": one interruption inside pass A, then the parent rewrites the pass-A checkpoint to the value
	// builds before the fix recorded for the same data (start of the last completed window + 1, an odd index):
	// files interrupted by older builds must resume correctly too. On a tree that still records start+1 the
	// rewrite is a no-op.
	nLeg := 24
	if thorough {
		nLeg = 300
	}
	for i := 0; i < nLeg; i++ {
		r := root.Derive("legacy", i)
		bl := bls[i%len(bls)]
		cfgs := windowCfgs(bl, r)
		before := pickOther(r, cfgs, nil, true)
		nA, _ := windowsOf(bl, before)
		kind := []string{"kill", "stop"}[(i/len(bls))%2]
		var in *intr
		switch r.Intn(3) {
		case 0:
			in = &intr{Kind: kind, Point: "plot.A.windowStart", Occ: 2 + r.Intn(nA-1)}
		case 1:
			in = &intr{Kind: kind, Point: "plot.A.dataSynced", Occ: 2 + r.Intn(nA-1)}
		default:
			in = &intr{Kind: kind, Point: "plot.A.checkpointed", Occ: 1 + r.Intn(nA)}
		}
		add(caseSpec{Family: "legacy", Legacy: true, BL: bl, Key: r.Intn(nKeys), Runs: []runSpec{rsOf(before, in), rsOf(pickOther(r, cfgs, &before, false), nil)}})
	}
	// family "lost-map-A": pass B is stopped after some windows, then the map-A file is gone when the space is reopened
	nLA := 4
	if thorough {
		nLA = 40
	}
	for i := 0; i < nLA; i++ {
		r := root.Derive("lost-map-a", i)
		bl := bls[i%len(bls)]
		cfgs := windowCfgs(bl, r)
		c := pickOther(r, cfgs, nil, true)
		_, nB := windowsOf(bl, c)
		occ := 1
		if nB > 2 {
			occ = 1 + r.Intn(nB-1)
		}
		add(caseSpec{Family: "lost-map-A", LoseA: true, BL: bl, Key: r.Intn(nKeys), Runs: []runSpec{
			rsOf(c, &intr{Kind: "stop", Point: "plot.B.checkpointed", Occ: occ}), rsOf(pickOther(r, cfgs, &c, false), nil)}})
	}
	// family "write-fault": one write to the plot files fails with EIO (transient); whatever the run then reports, the
	// space must not come out as plotted with a table that differs from the reference, and a later run without faults
	// completes it
	nWF := 6
	if thorough {
		nWF = 60
	}
	for i := 0; i < nWF; i++ {
		r := root.Derive("write-fault", i)
		bl := bls[i%len(bls)]
		cfgs := windowCfgs(bl, r)
		c := pickOther(r, cfgs, nil, true)
		nA, nB := windowsOf(bl, c)
		// every window costs at least a data write and a checkpoint write
		// strace counts per thread and the plot goroutine wanders between threads: only small ordinals are reached reliably
		_ = nB
		lim := 2 * nA
		if lim > 8 {
			lim = 8
		}
		nth := 3 + r.Intn(lim) // (the first two writes create the two files)
		fr := rsOf(c, nil)
		fr.FailWrite = nth
		fr.ResumeInProcess = i%2 == 0 // the failed plot is tried again on the same object
		add(caseSpec{Family: "write-fault", BL: bl, Key: r.Intn(nKeys), Runs: []runSpec{fr, rsOf(pickOther(r, cfgs, &c, false), nil)}})
	}
	// family "near-end": a graceful stop in the last pairs of pass B of a table big enough that what is missing is
	// less than 0.005 % of the records: whatever the space reports then (progress figure, plotted, ready), the table is
	// not complete
	nNE := 4
	neBLs := []int{16}
	if thorough {
		nNE, neBLs = 36, []int{16, 15, 17}
	}
	for i := 0; i < nNE; i++ {
		r := root.Derive("near-end", i)
		bl := neBLs[i%len(neBLs)]
		rs := pocutil.RecordSize(bl)
		cfgs := windowCfgs(bl, r)
		k := 2 + (i/len(neBLs))%3 // 2..4 pairs before the end
		j := 1 + r.Intn(k-1)      // stop after j one-pair windows: k-j >= 1 pairs stay missing
		add(caseSpec{Family: "near-end", NearEnd: k, BL: bl, Key: r.Intn(nKeys), Runs: []runSpec{
			rsOf(cfgs[0], &intr{Kind: "kill", Point: "plot.beforeRemoveA", Occ: 1}),
			{Cfg: "one-pair-windows", CapA: 0, CapB: uint64(4 * rs), Intr: &intr{Kind: "stop", Point: "plot.B.checkpointed", Occ: j}},
			rsOf(pickOther(r, cfgs, nil, true), nil)}})
	}
	// family "strace": whole plots under a syscall trace (O4); 1 in 5 is stopped once and resumed (two traces)
	nTr := 5
	if thorough {
		nTr = 50
	}
	for i := 0; i < nTr; i++ {
		r := root.Derive("strace", i)
		bl := bls[i%len(bls)]
		cfgs := windowCfgs(bl, r)
		c := pickOther(r, cfgs, nil, true)
		if i%5 == 4 {
			pt := []string{"plot.A.checkpointed", "plot.B.dataSynced", "plot.B.checkpointed"}[r.Intn(3)]
			add(caseSpec{Family: "strace", BL: bl, Key: r.Intn(nKeys), Strace: true, Runs: []runSpec{
				rsOf(c, &intr{Kind: "stop", Point: pt, Occ: 1}), rsOf(pickOther(r, cfgs, &c, true), nil)}})
		} else {
			add(caseSpec{Family: "strace", BL: bl, Key: r.Intn(nKeys), Strace: true, Runs: []runSpec{rsOf(c, nil)}})
		}
	}
	return cases
}

func (c *caseSpec) hash() uint64 {
	b, _ := json.Marshal(c.Runs)
	return vh.Hash64(pubKeyOf(c.PrivHex).SerializeCompressed(), []byte(strconv.Itoa(c.BL)), b)
}

// ---------------------------------------------------------------------------------------------
// reference tables (shared by all cases of a key)

type refData struct {
	once sync.Once
	tbl  *ref.Table
	mapA []uint64
}

var (
	refMu  sync.Mutex
	refMap = map[string]*refData{}
)

func getRef(cs *caseSpec) *refData {
	k := fmt.Sprintf("%d/%s", cs.BL, cs.PrivHex)
	refMu.Lock()
	rd := refMap[k]
	if rd == nil {
		rd = &refData{}
		refMap[k] = rd
	}
	refMu.Unlock()
	rd.once.Do(func() {
		pkh := pocutil.PubKeyHash(pubKeyOf(cs.PrivHex))
		rd.mapA = ref.BuildMapA(pkh, cs.BL)
		rd.tbl = ref.BuildTableFromA(pkh, cs.BL, rd.mapA)
	})
	return rd
}

// ---------------------------------------------------------------------------------------------
// child runner: stdout is a pipe (the kill-async trigger line), everything is copied to outFile

type procResult struct {
	ExitCode       int
	Killed         bool // ended by SIGKILL
	Signal         string
	TimedOut       bool
	ParentKillSent bool
	StartErr       string
}

func runProc(argv []string, outFile string, timeout time.Duration, async bool, delay time.Duration) (res procResult) {
	f, err := os.Create(outFile)
	if err != nil {
		res.StartErr = err.Error()
		return
	}
	defer f.Close()
	cmd := exec.Command(argv[0], argv[1:]...)
	cmd.Stderr = f
	stdout, err := cmd.StdoutPipe()
	if err != nil {
		res.StartErr = err.Error()
		return
	}
	cmd.SysProcAttr = &syscall.SysProcAttr{Setpgid: true}
	if err := cmd.Start(); err != nil {
		res.StartErr = err.Error()
		return
	}
	var sent int32
	var wmu sync.Mutex
	readDone := make(chan struct{})
	go func() {
		sc := bufio.NewScanner(stdout)
		sc.Buffer(make([]byte, 1<<16), 1<<22)
		for sc.Scan() {
			l := sc.Text()
			if async && l == goMark && atomic.CompareAndSwapInt32(&sent, 0, 1) {
				time.Sleep(delay)
				syscall.Kill(cmd.Process.Pid, syscall.SIGKILL)
			}
			wmu.Lock()
			f.WriteString(l + "\n")
			wmu.Unlock()
		}
		close(readDone)
	}()
	done := make(chan struct{})
	go func() {
		<-readDone
		cmd.Wait()
		close(done)
	}()
	select {
	case <-done:
	case <-time.After(timeout):
		res.TimedOut = true
		syscall.Kill(-cmd.Process.Pid, syscall.SIGQUIT)
		select {
		case <-done:
		case <-time.After(8 * time.Second):
			syscall.Kill(-cmd.Process.Pid, syscall.SIGKILL)
			<-done
		}
	}
	res.ParentKillSent = atomic.LoadInt32(&sent) == 1
	if ps := cmd.ProcessState; ps != nil {
		res.ExitCode = ps.ExitCode()
		if ws, ok := ps.Sys().(syscall.WaitStatus); ok && ws.Signaled() {
			res.Signal = ws.Signal().String()
			res.Killed = ws.Signal() == syscall.SIGKILL
		}
	}
	return
}

func parseEvents(path string) []event {
	var evs []event
	for _, l := range vh.ReadLines(path) {
		var e event
		if json.Unmarshal([]byte(l), &e) == nil && e.Ev != "" {
			evs = append(evs, e)
		}
	}
	return evs
}

// ---------------------------------------------------------------------------------------------
// reopen + header/table oracles (O1, O3, O5), in the parent

type problem struct {
	Kind  string
	Pass  string
	Extra map[string]interface{}
}

type inspection struct {
	OpenErr     string  `json:"open_err,omitempty"`
	HasA        bool    `json:"map_a_open"`
	FileA       bool    `json:"map_a_file_exists"`
	FileB       bool    `json:"map_b_file_exists"`
	CkA         int64   `json:"checkpoint_pass_a"` // from the file header, -1 when there is no file
	CkB         int64   `json:"checkpoint_pass_b"`
	PrePlotted  bool    `json:"pre_plotted"`
	Plotted     bool    `json:"plotted"`
	Ready       bool    `json:"ready"`
	Progress    float64 `json:"progress"`
	ComparedA   uint64  `json:"map_a_slots_compared"`
	ComparedB   uint64  `json:"map_b_entries_compared"`
	TableEqual  *bool   `json:"table_equals_reference,omitempty"`
	MapAEqual   *bool   `json:"map_a_prefix_equals_reference,omitempty"`
	FullCompare bool    `json:"-"`
}

func allZero(b []byte) bool {
	for _, c := range b {
		if c != 0 {
			return false
		}
	}
	return true
}

// inspect reopens the space and applies the oracles. final: the last run reported completion.
// ranRemoval: that run went through the removal of map A itself.
func inspect(cs *caseSpec, dir string, rd *refData, final, ranRemoval bool) (ins inspection, probs []problem, err error) {
	defer func() {
		if p := recover(); p != nil {
			err = fmt.Errorf("panic while inspecting: %v", p)
		}
	}()
	bl := cs.BL
	vol := uint64(1) << uint(bl)
	half := vol / 2
	rs := pocutil.RecordSize(bl)
	pub := pubKeyOf(cs.PrivHex)
	pathA, pathB := mapPaths(dir, int64(cs.Key), pub, bl)
	_, ea := os.Stat(pathA)
	_, eb := os.Stat(pathB)
	ins.FileA, ins.FileB = ea == nil, eb == nil
	ins.CkA, ins.CkB = readCkPath(pathA), readCkPath(pathB)
	add := func(kind, pass string, extra map[string]interface{}) {
		probs = append(probs, problem{Kind: kind, Pass: pass, Extra: extra})
	}
	dbi, oerr := massdb_v1.OpenDB(dir, int64(cs.Key), pub, bl)
	if oerr != nil {
		ins.OpenErr = oerr.Error()
		add("reopen-fails-after-interruption", "-", map[string]interface{}{"open_err": oerr.Error()})
		return
	}
	mdb := dbi.(*massdb_v1.MassDBV1)
	defer mdb.Close()
	ins.HasA = mdb.HashMapA != nil
	ins.PrePlotted, ins.Plotted, ins.Progress = mdb.Progress()
	ins.Ready = mdb.Ready()
	// the keeper decides ready/registered when it loads the space (NewWorkSpace): ask it too
	keeperReady := false
	if ws, werr := capacity.NewWorkSpace("massdb.v1", dir, int64(cs.Key), pub, bl); werr == nil {
		keeperReady = ws.State() == engine.Ready
		ws.Close()
	}

	// O5: checkpoints in range
	if ins.FileA && ins.CkA > int64(vol) {
		add("checkpoint-out-of-range", "A", map[string]interface{}{"checkpoint": ins.CkA, "max": vol})
	}
	if ins.CkB > int64(half) {
		add("checkpoint-out-of-range", "B", map[string]interface{}{"checkpoint": ins.CkB, "max": half})
	}

	// map B: everything when reported plotted (O1/O3), else what lies below the recorded checkpoint (O5)
	// the keeper's plotter takes a progress figure of 100 as "plot complete" when a Plot() call returns
	progressFull := ins.Progress >= 100
	reported := ins.Plotted || ins.Ready || keeperReady || progressFull
	limit := vol
	if !reported {
		limit = 0
		if ins.CkB > 0 {
			limit = 2 * uint64(ins.CkB)
			if limit > vol {
				limit = vol
			}
		}
	}
	var firstZ uint64
	var diff, missing, spurious, other, unreadable uint64
	var sx, sxp, rx, rxp string
	for z := uint64(0); z < limit; z++ {
		xb, xpb, gerr := mdb.HashMapB.Get(pocutil.PoCValue(z))
		rxb, rxpb := rd.tbl.Bytes(z)
		if gerr == nil && bytes.Equal(xb, rxb) && bytes.Equal(xpb, rxpb) {
			continue
		}
		if diff == 0 {
			firstZ, sx, sxp, rx, rxp = z, hex.EncodeToString(xb), hex.EncodeToString(xpb), hex.EncodeToString(rxb), hex.EncodeToString(rxpb)
		}
		diff++
		switch {
		case gerr != nil:
			unreadable++
		case allZero(xb) && allZero(xpb):
			missing++
		case rd.tbl.Empty(z):
			spurious++
		default:
			other++
		}
	}
	ins.ComparedB = limit
	if limit > 0 {
		eq := diff == 0
		ins.TableEqual = &eq
		ins.FullCompare = reported
	}
	if diff > 0 {
		if progressFull && !(ins.Plotted || ins.Ready || keeperReady) {
			defer func() {
				for i := range probs {
					if probs[i].Extra != nil {
						probs[i].Extra["reported_ready_by"] = fmt.Sprintf("progress figure %v only (the keeper's plotter reads progress >= 100 as complete)", ins.Progress)
					}
				}
			}()
		}
		if keeperReady && !(ins.Plotted || ins.Ready) {
			defer func() {
				for i := range probs {
					if probs[i].Extra != nil {
						probs[i].Extra["reported_ready_by"] = "keeper workspace state only (massdb Progress says not plotted)"
					}
				}
			}()
		}
		extra := map[string]interface{}{"first_differing_z": firstZ, "stored_x_hex": sx, "stored_xp_hex": sxp, "reference_x_hex": rx, "reference_xp_hex": rxp,
			"entries_compared": limit, "entries_differing": diff, "missing": missing, "spurious": spurious, "different_pair": other, "unreadable": unreadable}
		switch {
		case reported && final:
			add("resumed-table-differs", "B", extra)
		case reported:
			add("reports-plotted-with-incomplete-table", "B", extra)
		default:
			add("checkpoint-ahead-of-written-data", "B", extra)
		}
	}

	// map A (while it is part of the space): slots below the recorded checkpoint; all of it when reported complete
	if ins.HasA && ins.FileA && ins.CkA > 0 {
		raw, _ := os.ReadFile(pathA)
		lim := uint64(ins.CkA)
		if lim > vol {
			lim = vol
		}
		var firstSlot, nd uint64
		var got, want uint64
		for s := uint64(0); s < lim; s++ {
			var v uint64
			off := 4096 + int(s)*rs
			for j := 0; j < rs; j++ {
				if off+j < len(raw) {
					v |= uint64(raw[off+j]) << (8 * uint(j))
				}
			}
			if v != rd.mapA[s] {
				if nd == 0 {
					firstSlot, got, want = s, v, rd.mapA[s]
				}
				nd++
			}
		}
		ins.ComparedA = lim
		eq := nd == 0
		ins.MapAEqual = &eq
		if nd > 0 {
			extra := map[string]interface{}{"first_differing_slot": firstSlot, "stored_x": got, "reference_x": want, "slots_compared": lim, "slots_differing": nd,
				"slot_meaning": "slot 2y holds the preimage of y, slot 2y+1 the preimage of ~y"}
			if uint64(ins.CkA) >= vol {
				add("passA-reported-complete-with-incomplete-mapA", "A", extra)
			} else {
				add("checkpoint-ahead-of-written-data", "A", extra)
			}
		}
	}

	if final {
		if !(ins.PrePlotted && ins.Plotted && ins.Ready && ins.Progress == 100) {
			add("completed-plot-not-reported-plotted", "B", map[string]interface{}{"pre_plotted": ins.PrePlotted, "plotted": ins.Plotted, "ready": ins.Ready, "progress": ins.Progress})
		}
		if ranRemoval && ins.FileA {
			add("mapA-not-removed-after-completion", "B", map[string]interface{}{"file": pathA})
		}
	}
	return
}

// ---------------------------------------------------------------------------------------------
// one case

type ctx struct {
	run      *vh.Run
	exe      string
	firstExe string
	timeout  time.Duration
	strace   string
}

func tail(evs []event, n int) []event {
	if len(evs) > n {
		return evs[len(evs)-n:]
	}
	return evs
}

func execCase(cx *ctx, cs *caseSpec) {
	run := cx.run
	bl := cs.BL
	vol := uint64(1) << uint(bl)
	half := vol / 2
	rs := pocutil.RecordSize(bl)
	pub := pubKeyOf(cs.PrivHex)
	pubHex := hex.EncodeToString(pub.SerializeCompressed())
	dir := filepath.Join(run.Scratch, fmt.Sprintf("case%d", cs.Idx))
	plotDir := filepath.Join(dir, "plot")
	os.RemoveAll(dir)
	if err := os.MkdirAll(plotDir, 0o755); err != nil {
		run.Drop("harness:mkdir")
		run.Case(cs.hash(), false)
		return
	}
	defer os.RemoveAll(dir)
	rd := getRef(cs)

	var steps []map[string]interface{}
	lastKind, lastPoint := "none", "-"
	oddHist, afterSpin, ckOdd := false, false, false
	o1Fired := false
	legacyInjected := false
	writeFaulted := false // a write error was injected in this case: from then on only "never falsely complete" and "progress never ahead of written data" are judged (the statement promises resumption after stops and process deaths, not after failed writes)
	interruptions, resumes := 0, 0
	completed := false
	var straceCmds []string

	attrsOf := func(pass string) map[string]string {
		a := map[string]string{"pass": pass, "interruption": lastKind, "point": lastPoint,
			"checkpoint_odd_on_reopen":        strconv.FormatBool(ckOdd),
			"odd_passA_checkpoint_in_history": strconv.FormatBool(oddHist),
			"after_spin":                      strconv.FormatBool(afterSpin)}
		if cs.Legacy {
			a["legacy_checkpoint_injected"] = strconv.FormatBool(legacyInjected)
		}
		return a
	}
	violate := func(kind, pass string, extraAttrs map[string]string, extra map[string]interface{}) {
		a := attrsOf(pass)
		for k, v := range extraAttrs {
			a[k] = v
		}
		d := map[string]interface{}{"pubkey_hex": pubHex, "priv_scalar_hex": cs.PrivHex, "ordinal": cs.Key, "bl": bl, "record_size": rs, "family": cs.Family,
			"planned_runs": cs.Runs, "runs": steps,
			"how": "per run: NewMassDBV1(dir, ordinal, pubkey, bl); verifhook.SetSize(\"plot.cache\", min(v, window bytes of the pass)); interruption at the n-th occurrence of the hook point " +
				"(kill: SIGKILL self; stop: go StopPlot(); kill-async: SIGKILL delay_us after the n-th hook event); <-Plot(); then OpenDB + Progress/Ready + HashMapB.Get(z) against refplot. " +
				"windowStart = the plot.cache size hook at the top of a window. Replay: check C10 --replay <this file>"}
		for k, v := range extra {
			d[k] = v
		}
		run.Violate(cs.Idx, kind, a, d)
	}

	runs := append([]runSpec{}, cs.Runs...)
	extraRuns := 0
	var prevIns *inspection
	for k := 0; k < len(runs); k++ {
		r := runs[k]
		if k > 0 {
			resumes++
			run.Count("resumes_attempted", 1)
		}
		evFile := filepath.Join(dir, fmt.Sprintf("events%d.jsonl", k))
		specFile := filepath.Join(dir, fmt.Sprintf("spec%d.json", k))
		outFile := filepath.Join(dir, fmt.Sprintf("out%d.txt", k))
		sp := childSpec{Dir: plotDir, Ordinal: int64(cs.Key), PrivHex: cs.PrivHex, BL: bl, CapA: r.CapA, CapB: r.CapB, Intr: r.Intr, ResumeInProcess: r.ResumeInProcess,
			Events: evFile, LogDir: filepath.Join(dir, "log"), FullBound: bl <= fullBoundMaxBL}
		sb, _ := json.Marshal(sp)
		os.WriteFile(specFile, sb, 0o644)
		exe := cx.exe
		if k == 0 && cx.firstExe != "" {
			exe = cx.firstExe
		}
		argv := []string{exe, "-child", "-spec", specFile}
		traceFile := ""
		if cs.Strace {
			traceFile = filepath.Join(dir, fmt.Sprintf("trace%d.txt", k))
			argv = append(append([]string{cx.strace}, append(straceArgs, "-o", traceFile)...), argv...)
			straceCmds = append(straceCmds, strings.Join(argv, " "))
		}
		if r.FailWrite > 0 {
			if cx.strace == "" {
				run.Drop("write-fault: strace not available")
				run.Case(cs.hash(), false)
				return
			}
			argv = append([]string{cx.strace, "-f", "-o", "/dev/null", "-e", "trace=pwrite64", "-e", fmt.Sprintf("inject=pwrite64:error=EIO:when=%d", r.FailWrite)}, argv...)
		}
		async := r.Intr != nil && r.Intr.Kind == "kill-async"
		var delay time.Duration
		if async {
			delay = time.Duration(r.Intr.DelayUs) * time.Microsecond
		}
		res := runProc(argv, outFile, cx.timeout, async, delay)
		evs := parseEvents(evFile)
		var opened, ret, acted *event
		nPoints := 0
		for i := range evs {
			e := &evs[i]
			switch e.Ev {
			case "opened":
				opened = e
			case "plot-returned":
				ret = e
			case "point":
				nPoints++
			}
			if e.Act != "" && (acted == nil || strings.HasPrefix(e.Act, "abort")) {
				acted = e
			}
		}
		ranRemoval := false
		for _, e := range evs {
			if e.Point == "plot.afterRemoveA" {
				ranRemoval = true
			}
		}
		outcome := ""
		switch {
		case res.StartErr != "":
			outcome = "harness-error"
		case res.TimedOut:
			outcome = "watchdog"
		case res.ExitCode == exitSpin && acted != nil && strings.HasPrefix(acted.Act, "abort"):
			outcome = "spin"
		case res.Killed && acted != nil && acted.Act == "kill":
			outcome = "killed"
		case res.Killed && res.ParentKillSent:
			outcome = "killed-async"
		case res.Killed || res.Signal != "" && len(vh.ScanFatal(outFile, 1)) == 0:
			outcome = "killed-from-outside"
		case res.ExitCode == exitOpenErr:
			outcome = "open-error"
		case res.ExitCode == 0 && ret != nil && ret.Err != "":
			outcome = "plot-error"
		case res.ExitCode == 0 && ret != nil && ret.Completed:
			outcome = "completed"
		case res.ExitCode == 0 && ret != nil && ret.StopIssued:
			outcome = "stopped"
		case res.ExitCode == 0 && ret != nil:
			outcome = "returned-early"
		default:
			outcome = "crashed"
		}
		step := map[string]interface{}{"run": k, "cfg": r.Cfg, "window_bytes_pass_a": r.CapA, "window_bytes_pass_b": r.CapB, "interruption": r.Intr,
			"outcome": outcome, "exit_code": res.ExitCode, "signal": res.Signal, "hook_events": nPoints, "last_events": tail(evs, 6)}
		if opened != nil {
			step["checkpoints_at_open"] = map[string]int64{"pass_a": opened.CkA, "pass_b": opened.CkB}
		}
		if acted != nil {
			step["acted_on_event"] = acted
		}
		steps = append(steps, step)
		run.Count("runs:"+outcome, 1)

		switch outcome {
		case "harness-error", "watchdog", "killed-from-outside":
			run.Drop("child-" + outcome)
			run.Case(cs.hash(), false)
			return
		}

		// O4 on the trace of this run
		if traceFile != "" && (outcome == "completed" || outcome == "stopped") {
			ckA0, ckB0 := int64(0), int64(0)
			if opened != nil {
				ckA0, ckB0 = opened.CkA, opened.CkB
			}
			rep, ok, why := judgeTrace(traceFile, bl, evs, ckA0, ckB0)
			if !ok {
				run.Count("strace_traces_not_judged", 1)
				run.Drop("strace-trace-incomplete")
				step["trace_not_judged"] = why
			} else {
				run.Count("strace_files_checked", 1)
				run.Count("strace_checkpoint_writes_seen", int64(rep.CkWritesA+rep.CkWritesB))
				run.Count("strace_data_writes_seen", int64(rep.DataWrites))
				run.Count("strace_fsyncs_seen", int64(rep.Syncs))
				run.Count("strace_mapA_unlinks_seen", int64(rep.UnlinkA))
				for _, p := range rep.Problems {
					p.Detail["strace_command"] = straceCmds[len(straceCmds)-1]
					p.Detail["checkpoint_values_written_pass_a"] = rep.CkValuesA
					p.Detail["checkpoint_values_written_pass_b"] = rep.CkValuesB
					violate(p.Kind, p.Pass, map[string]string{"oracle": "syscall-order"}, p.Detail)
				}
			}
		}

		// what kind of interruption took place
		switch outcome {
		case "killed":
			interruptions++
			lastKind, lastPoint = "kill", r.Intr.Point
			run.Count("interruptions:kill@"+r.Intr.Point, 1)
		case "killed-async":
			interruptions++
			lastKind, lastPoint = "kill-async", "async"
			where := "before-first-event"
			if n := len(evs); n > 0 && evs[n-1].Ev == "point" {
				where = evs[n-1].Point
			}
			run.Count("interruptions:kill-async-after@"+where, 1)
		case "stopped":
			interruptions++
			lastKind, lastPoint = "stop", r.Intr.Point
			run.Count("interruptions:stop@"+r.Intr.Point, 1)
		case "completed":
			if r.Intr != nil {
				switch {
				case ret.StopIssued:
					run.Count("stop_issued_too_late_to_take_effect@"+r.Intr.Point, 1)
				case res.ParentKillSent:
					run.Count("async_kill_landed_after_completion", 1)
				default:
					run.Count("interruption_point_not_reached", 1)
				}
			}
		}

		// O2 and other ways a run fails to get anywhere
		switch outcome {
		case "spin":
			pass := passOf(acted.Point)
			startCk, total := int64(-1), vol
			if opened != nil {
				startCk = opened.CkA
				if pass == "B" {
					startCk, total = opened.CkB, half
				}
			}
			parity := "even"
			if startCk&1 == 1 {
				parity = "odd"
			}
			kind := "resume-never-finishes"
			if k == 0 {
				kind = "first-plot-never-finishes"
			}
			rule := "full-bound"
			if acted.Act == "abort-noprogress" {
				rule = "zero-record-windows"
			}
			if rule == "full-bound" {
				run.Count("spins_confirmed_by_full_bound", 1)
			} else {
				run.Count("spins_cut_short_by_zero_record_witness", 1)
			}
			violate(kind, pass, map[string]string{"start_checkpoint_parity": parity, "remaining_records": strconv.FormatInt(int64(total)-acted.Start, 10)},
				map[string]interface{}{"rule": rule, "checkpointed_events_in_this_call": acted.Windows, "bound": vol, "start_checkpoint": startCk,
					"non_advancing_window": map[string]int64{"start": acted.Start, "end": acted.End}, "header_checkpoints_at_abort": map[string]int64{"pass_a": acted.CkA, "pass_b": acted.CkB}})
			interruptions++ // the abort is itself a process death the next run resumes from
			afterSpin = true
		case "open-error":
			msg := ""
			for _, e := range evs {
				if e.Ev == "open-error" {
					msg = e.Err
				}
			}
			if k == 0 {
				run.Drop("harness:first-open-failed")
				run.Case(cs.hash(), false)
				return
			}
			if writeFaulted {
				run.Count("observed:after_injected_write_error:space_does_not_reopen(not judged)", 1)
				break
			}
			violate("reopen-fails-after-interruption", "-", nil, map[string]interface{}{"open_err": msg, "by": "NewMassDBV1 in the resuming process"})
		case "plot-error":
			if r.FailWrite > 0 {
				// the injected write error surfaced as the plot's error: the expected outcome; the reopen below judges
				// what the files say now, the next run resumes
				run.Count("write_faults_reported_by_plot", 1)
				interruptions++
				lastKind, lastPoint = "write-error", "-"
				break
			}
			if k == 0 && interruptions == 0 && r.Intr == nil {
				run.Drop("first-plot-returned-error")
				run.Case(cs.hash(), false)
				return
			}
			if writeFaulted {
				run.Count("observed:after_injected_write_error:resume_fails(not judged)", 1)
				break
			}
			violate("resume-fails-with-error", "-", nil, map[string]interface{}{"plot_err": ret.Err})
		case "returned-early":
			violate("plot-returns-without-completing", "-", nil, map[string]interface{}{"note": "Plot() returned nil, no stop was issued, the end of the plot was not reached"})
		case "crashed":
			violate("plotting-process-died", "-", nil, map[string]interface{}{"exit_code": res.ExitCode, "signal": res.Signal, "fatal": vh.ScanFatal(outFile, 25)})
		}

		// lost-map-A family: the map-A file is gone before anybody looks at the space again
		if cs.LoseA && k == 0 {
			pathA, _ := mapPaths(plotDir, int64(cs.Key), pub, bl)
			if outcome != "stopped" || os.Remove(pathA) != nil {
				run.Drop("lost-map-A: the first run was not stopped inside pass B with its map-A file in place")
				run.Case(cs.hash(), false)
				return
			}
			step["map_a_file_removed_by_harness"] = true
			run.Count("map_a_files_removed_under_an_unfinished_table", 1)
		}

		// near-end family: cut the complete table back to "interrupted NearEnd pairs before the end of pass B"
		if cs.NearEnd > 0 && k == 0 {
			_, pathB := mapPaths(plotDir, int64(cs.Key), pub, bl)
			cut := int64(half) - int64(cs.NearEnd)
			ok := false
			if outcome == "killed" && readCkPath(pathB) == int64(half) {
				if f, err := os.OpenFile(pathB, os.O_WRONLY, 0); err == nil {
					var b8 [8]byte
					binary.LittleEndian.PutUint64(b8[:], uint64(cut))
					_, e1 := f.WriteAt(make([]byte, cs.NearEnd*rs*4), int64(massdb_v1.PosProofData)+cut*int64(rs)*4)
					_, e2 := f.WriteAt(b8[:], posCheckpoint)
					e3 := f.Sync()
					f.Close()
					ok = e1 == nil && e2 == nil && e3 == nil
				}
			}
			if !ok {
				run.Drop("near-end: the first run did not leave a complete table with its pass-A file")
				run.Case(cs.hash(), false)
				return
			}
			step["table_cut_back_to_pairs_before_end"] = cs.NearEnd
			run.Count("near_end_tables_cut_back", 1)
		}

		// legacy family: make the header look as a build before the fix left it (same data on disk, checkpoint = window start + 1)
		if cs.Legacy && (outcome == "killed" || outcome == "stopped") {
			var lastW *event
			sawFinal := false
			for i := range evs {
				if evs[i].Point == "plot.A.checkpointed" {
					lastW = &evs[i]
				}
				sawFinal = sawFinal || evs[i].Point == "plot.A.final"
			}
			if lastW != nil && !sawFinal {
				pathA, _ := mapPaths(plotDir, int64(cs.Key), pub, bl)
				cur, want := readCkPath(pathA), lastW.Start+1
				switch {
				case cur == want:
					run.Count("legacy_header_already_recorded_as_window_start_plus_1", 1)
				case cur >= 0 && cur < int64(vol):
					if f, err := os.OpenFile(pathA, os.O_WRONLY, 0); err == nil {
						var b8 [8]byte
						binary.LittleEndian.PutUint64(b8[:], uint64(want))
						f.WriteAt(b8[:], posCheckpoint)
						f.Close()
						legacyInjected = true
						step["header_rewritten_as_older_builds_recorded_it"] = map[string]int64{"from": cur, "to": want}
						run.Count("legacy_headers_rewritten_to_window_start_plus_1", 1)
					}
				}
			}
		}

		// reopen, O1/O3/O5
		final := outcome == "completed"
		ins, probs, ierr := inspect(cs, plotDir, rd, final, ranRemoval)
		if ierr != nil {
			run.Drop("inspect-panicked")
			run.Case(cs.hash(), false)
			return
		}
		step["reopen"] = ins
		run.Count("header_checks", 1)
		run.Count("mapA_slots_compared", int64(ins.ComparedA))
		run.Count("entries_compared", int64(ins.ComparedB))
		if ins.FullCompare {
			run.Count("tables_compared", 1)
		} else if ins.ComparedB > 0 {
			run.Count("table_prefixes_compared", 1)
		}
		if !final && (ins.Plotted || ins.Ready) {
			run.Count("reopens_reporting_plotted_after_interruption", 1)
		}
		ckOdd = ins.HasA && ins.CkA >= 0 && ins.CkA&1 == 1
		if ckOdd {
			oddHist = true
			run.Count("reopens_with_odd_passA_checkpoint", 1)
		}
		if ins.HasA && ins.CkB > 0 && ins.CkB&1 == 1 {
			run.Count("reopens_with_odd_passB_checkpoint", 1)
		}
		if prevIns != nil && !final {
			if ins.CkB < prevIns.CkB || (ins.FileA && prevIns.FileA && ins.CkA < prevIns.CkA) {
				run.Count("checkpoint_went_backwards_between_reopens", 1)
			}
		}
		if r.FailWrite > 0 {
			writeFaulted = true
		}
		for _, p := range probs {
			if cs.LoseA && k == 0 && p.Kind == "reopen-fails-after-interruption" {
				// without its map-A file an unfinished space does not open: the callers then create it afresh (next run)
				run.Count("observed:unfinished_space_without_map_a_does_not_open(expected)", 1)
				continue
			}
			if writeFaulted && p.Kind != "reports-plotted-with-incomplete-table" && p.Kind != "checkpoint-ahead-of-written-data" && p.Kind != "resumed-table-differs" && p.Kind != "plotted-table-differs" {
				run.Count("observed:after_injected_write_error:"+p.Kind+"(not judged)", 1)
				continue
			}
			if p.Kind == "resumed-table-differs" && o1Fired && !ranRemoval {
				continue // the same table was already reported when it was first seen "plotted"
			}
			if p.Kind == "reports-plotted-with-incomplete-table" {
				o1Fired = true
			}
			violate(p.Kind, p.Pass, nil, p.Extra)
		}
		pi := ins
		prevIns = &pi
		if final {
			completed = true
			run.Count("resumes_completed", btoi(k > 0))
			if opened != nil && !opened.HasA {
				run.Count("observed:resume_of_already_plotted_space_is_a_noop", 1)
			}
			if ins.FileA && !ranRemoval {
				run.Count("observed:mapA_file_left_behind_after_kill_between_final_checkpoint_and_removal", 1)
			}
			break
		}
		if outcome == "open-error" || outcome == "plot-error" || outcome == "returned-early" || outcome == "crashed" {
			break
		}
		if k == len(runs)-1 && extraRuns < 2 {
			// the last planned run did not complete (only possible after a spin abort): resume once more, with another window size
			cfgs := windowCfgs(bl, vh.NewRng(uint64(cs.hash())).Derive("extra", extraRuns))
			c := cfgs[(2+extraRuns*3)%len(cfgs)]
			if c.CapA == r.CapA {
				c = cfgs[1]
			}
			runs = append(runs, runSpec{Cfg: "extra:" + c.Name, CapA: c.CapA, CapB: c.CapB})
			extraRuns++
		}
	}
	nontrivial := interruptions > 0 && resumes > 0
	run.Case(cs.hash(), nontrivial)
	if nontrivial {
		run.Count("cases_interrupted_and_resumed:"+cs.Family, 1)
		run.Count(fmt.Sprintf("cases_interrupted_and_resumed_bl%02d", bl), 1)
		run.Count(fmt.Sprintf("cases_with_%d_interruptions", interruptions), 1)
	}
	if !completed {
		run.Count("cases_not_completed", 1)
	}
	if cs.Idx%53 == 0 || (cs.Family == "repeated" && cs.Idx%41 == 0) {
		run.Sample(map[string]interface{}{"case": cs.Idx, "family": cs.Family, "pubkey_hex": pubHex, "bl": bl, "runs": steps})
	}
}

func btoi(b bool) int64 {
	if b {
		return 1
	}
	return 0
}

// ---------------------------------------------------------------------------------------------

func main() {
	if len(os.Args) > 1 && os.Args[1] == "-child" {
		childMain(os.Args[2:])
		return
	}
	run := vh.NewRun(propID, "fault_enumeration")
	logging.Init(filepath.Join(run.Scratch, "log"), "c10", "error", 1, true)

	for i, bl := range []int{8, 10, 12} {
		pkh := pocutil.DoubleSHA256([]byte(fmt.Sprintf("c10-selfcheck-%d-%d", run.Seed, i)))
		if msg := ref.BuildTable(pkh, bl).SelfCheck(); msg != "" {
			run.Inconclusive("refplot self-check failed at bl " + strconv.Itoa(bl) + ": " + msg)
			run.Finish("n/a", 0)
		}
	}
	run.Assume("internal/ref (refplot) is the uninterrupted result: C07 checks that an uninterrupted real plot equals it for every window configuration; self-checked at start-up at bl 8/10/12")
	run.Assume("process death is produced by SIGKILL, which cannot lose page-cache contents: 'durably written' is decided by the order of pwrite64/fsync/unlink system calls in strace traces (O4), not by power loss")
	run.Assume("memory windows are emulated by lowering the cache size (hook H1) to at least 2 records (pass A) / 4 records (pass B); bit lengths 8-16, where the stop signal is polled once per window")
	run.Assume("bounded progress stands in for termination: one Plot() call may pass '<pass>.checkpointed' at most 2^bl times (bl>=10: 8 consecutive zero-record windows at an unchanged start point are taken as witness)")

	cases := buildCases(run.Seed, run.Thorough())
	exe, err := os.Executable()
	if err != nil {
		exe = os.Args[0]
	}
	cx := &ctx{run: run, exe: exe, firstExe: os.Getenv("C10_FIRST_EXE"), timeout: 3 * time.Minute}
	if run.Thorough() {
		cx.timeout = 10 * time.Minute
	}
	if cx.firstExe != "" {
		run.Set("first_run_binary_override", cx.firstExe)
	}
	if p, err := exec.LookPath("strace"); err == nil {
		cx.strace = p
	}
	planned, plannedTraces := 0, 0
	var todo []int
	for i := range cases {
		if !run.Want(i) {
			continue
		}
		if cases[i].Strace {
			if cx.strace == "" {
				continue
			}
			plannedTraces++
		} else {
			planned++
		}
		todo = append(todo, i)
	}
	workers := runtime.NumCPU()
	if workers > 16 {
		workers = 16
	}
	vh.Parallel(len(todo), workers, func(i int) { execCase(cx, &cases[todo[i]]) })

	if run.Only < 0 {
		if cx.strace == "" || run.Counter("strace_files_checked") == 0 {
			run.Inconclusive("no syscall trace could be judged (strace missing or traces incomplete): the write-ordering oracle saw nothing")
		} else if j, n := run.Counter("strace_files_checked"), run.Counter("strace_traces_not_judged"); n > j {
			run.Inconclusive(fmt.Sprintf("only %d of %d syscall traces could be judged", j, j+n))
		}
		var kills, stops, asyncs int64
		for _, p := range allPoints {
			kills += run.Counter("interruptions:kill@" + p)
			stops += run.Counter("interruptions:stop@" + p)
		}
		asyncs = run.Counter("runs:killed-async")
		run.Set("interruptions_by_kind", map[string]int64{"kill": kills, "stop": stops, "kill-async": asyncs})
		if kills == 0 || stops == 0 || asyncs == 0 {
			run.Inconclusive(fmt.Sprintf("an interruption kind never took effect (kill %d, stop %d, kill-async %d)", kills, stops, asyncs))
		}
		if run.Counter("tables_compared") == 0 {
			run.Inconclusive("no table was compared with the reference")
		}
	}
	run.Finish("case = (public key, bit length, per run: window bytes of pass A and B, interruption kind/point/occurrence); every run is a real Plot() in a child process, "+
		"after every run the space is reopened and judged (O1,O5), the last one against the whole reference table (O3); "+
		"non-trivial = at least one interruption took effect (process died at the point / stop observed before completion) and a resume was attempted; distinct by hash(pubkey, bl, schedule)", planned/2)
}
