package main

// O4: write-ordering oracle over a syscall trace
// (strace -f -y -x -s 8 -e trace=pwrite64,write,fsync,fdatasync,unlink,unlinkat,openat).
//
// Per *.massdb file (identified by the path strace prints next to the descriptor):
//   - a pwrite64 whose range reaches beyond the 4096-byte header is a DATA write and makes the file "dirty";
//   - a successful fsync/fdatasync of the file makes it "clean";
//   - a pwrite64 whose range overlaps the checkpoint field [42,50) while the file is dirty is
//     "checkpoint-written-before-data-synced";
//   - an 8-byte checkpoint write of value c needs the data it vouches for to be written AND fsynced already:
//     the highest data offset covered by an fsync (starting from what the checkpoint found at open vouches
//     for) must reach 4096 + c*unit (unit = record size in map A, 4 record sizes in map B):
//     otherwise "checkpoint-ahead-of-synced-data";
//   - the unlink of the map-A file must come after an fsync of the map-B file that itself came after
//     the pwrite64 of the FINAL map-B checkpoint (value 2^(bl-1)), with map B clean:
//     otherwise "mapA-removed-before-final-checkpoint-synced".
// SIGKILL cannot lose page-cache contents, so this order of system calls is what stands in for
// "durably written" here.

import (
	"encoding/binary"
	"fmt"
	"regexp"
	"strconv"
	"strings"

	"verif/harness/internal/vh"
)

var straceArgs = []string{"-f", "-y", "-x", "-s", "8", "-e", "trace=pwrite64,write,fsync,fdatasync,unlink,unlinkat,openat"}

type sysCall struct {
	Line int
	Pid  string
	Name string
	Args string
	Ret  string
}

var (
	reFdPath  = regexp.MustCompile(`^(\d+)<([^>]*)>`)
	reLenOff  = regexp.MustCompile(`, (\d+), (\d+)$`)
	reQuoted  = regexp.MustCompile(`"((?:[^"\\]|\\.)*)"`)
	reRet     = regexp.MustCompile(`\)\s+= `)
	reResumed = regexp.MustCompile(`^<\.\.\. (\w+) resumed>(.*)$`)
)

// parseStrace returns the completed system calls in order of completion. All calls the oracle
// looks at are issued by the one plotting goroutine, sequentially, so completion order is program order.
func parseStrace(lines []string) []sysCall {
	var out []sysCall
	pending := map[string]string{} // pid -> "name(args-prefix"
	for i, l := range lines {
		sp := strings.IndexByte(l, ' ')
		if sp <= 0 {
			continue
		}
		pid, rest := l[:sp], strings.TrimLeft(l[sp+1:], " ")
		if strings.HasPrefix(rest, "+++") || strings.HasPrefix(rest, "---") {
			continue
		}
		if m := reResumed.FindStringSubmatch(rest); m != nil {
			pre, ok := pending[pid]
			if !ok {
				continue
			}
			delete(pending, pid)
			rest = pre + m[2]
		} else if strings.HasSuffix(rest, "<unfinished ...>") {
			pending[pid] = strings.TrimSuffix(rest, "<unfinished ...>")
			continue
		}
		op := strings.IndexByte(rest, '(')
		locs := reRet.FindAllStringIndex(rest, -1) // ")   = ret": strace pads short calls with blanks
		if op <= 0 || len(locs) == 0 || locs[len(locs)-1][0] < op {
			continue
		}
		cl, after := locs[len(locs)-1][0], locs[len(locs)-1][1]
		out = append(out, sysCall{Line: i + 1, Pid: pid, Name: rest[:op], Args: strings.TrimSpace(rest[op+1 : cl]), Ret: strings.TrimSpace(rest[after:])})
	}
	return out
}

func unescape(s string) []byte {
	var b []byte
	for i := 0; i < len(s); i++ {
		if s[i] != '\\' || i+1 >= len(s) {
			b = append(b, s[i])
			continue
		}
		i++
		switch c := s[i]; {
		case c == 'x' && i+3 <= len(s):
			if v, err := strconv.ParseUint(s[i+1:i+3], 16, 8); err == nil {
				b = append(b, byte(v))
				i += 2
			}
		case c == 'n':
			b = append(b, '\n')
		case c == 't':
			b = append(b, '\t')
		case c == 'r':
			b = append(b, '\r')
		case c == 'v':
			b = append(b, '\v')
		case c == 'f':
			b = append(b, '\f')
		case c >= '0' && c <= '7':
			j := i
			for j < len(s) && j < i+3 && s[j] >= '0' && s[j] <= '7' {
				j++
			}
			v, _ := strconv.ParseUint(s[i:j], 8, 16)
			b = append(b, byte(v))
			i = j - 1
		default:
			b = append(b, c)
		}
	}
	return b
}

type traceProblem struct {
	Kind   string
	Pass   string
	Detail map[string]interface{}
}

type traceReport struct {
	CkWritesA, CkWritesB int // 8-byte writes at offset 42
	DataWrites, Syncs    int
	HeaderWrites         int // other writes overlapping the checkpoint field (file creation)
	UnlinkA              int
	CkValuesA, CkValuesB []uint64
	Problems             []traceProblem
}

func isMassdb(p string) bool { return strings.HasSuffix(strings.TrimSuffix(p, " (deleted)"), ".massdb") }
func isMapA(p string) bool {
	return strings.HasSuffix(strings.TrimSuffix(p, " (deleted)"), "_a.massdb")
}

func checkTrace(lines []string, bl int, ckA0, ckB0 int64) traceReport {
	var rep traceReport
	half := uint64(1) << uint(bl-1)
	rs := int64((bl + 7) >> 3)
	type fstate struct {
		init          bool
		pendingHWM    int64 // highest end offset of data written so far
		syncedHWM     int64 // ... of data written before the last fsync
		dirty         bool
		lastDataLine  int
		lastSyncLine  int
		finalCkLine   int // line of the pwrite of the final checkpoint (map B only)
		syncAfterFinal int
	}
	st := map[string]*fstate{}
	get := func(p string) *fstate {
		p = strings.TrimSuffix(p, " (deleted)")
		s := st[p]
		if s == nil {
			s = &fstate{}
			st[p] = s
		}
		if !s.init {
			s.init = true
			ck0, unit := ckB0, 4*rs
			if isMapA(p) {
				ck0, unit = ckA0, rs
			}
			if ck0 > 0 {
				s.syncedHWM = 4096 + ck0*unit
				s.pendingHWM = s.syncedHWM
			}
		}
		return s
	}
	for _, c := range parseStrace(lines) {
		if strings.HasPrefix(c.Ret, "-1") {
			continue
		}
		switch c.Name {
		case "pwrite64", "write":
			m := reFdPath.FindStringSubmatch(c.Args)
			if m == nil || !isMassdb(m[2]) {
				continue
			}
			path := m[2]
			s := get(path)
			pass := "B"
			if isMapA(path) {
				pass = "A"
			}
			if c.Name == "write" { // position unknown: treat as data
				s.dirty, s.lastDataLine = true, c.Line
				rep.DataWrites++
				continue
			}
			lo := reLenOff.FindStringSubmatch(c.Args)
			if lo == nil {
				continue
			}
			n, _ := strconv.ParseInt(lo[1], 10, 64)
			off, _ := strconv.ParseInt(lo[2], 10, 64)
			touchesCk := off < posCheckpoint+8 && off+n > posCheckpoint
			touchesData := off+n > 4096
			if touchesCk {
				var val uint64
				isCk := n == 8 && off == posCheckpoint
				if isCk {
					if q := reQuoted.FindStringSubmatch(c.Args); q != nil {
						if bs := unescape(q[1]); len(bs) == 8 {
							val = binary.LittleEndian.Uint64(bs)
						}
					}
					if pass == "A" {
						rep.CkWritesA++
						rep.CkValuesA = append(rep.CkValuesA, val)
					} else {
						rep.CkWritesB++
						rep.CkValuesB = append(rep.CkValuesB, val)
						if val == half {
							s.finalCkLine, s.syncAfterFinal = c.Line, 0
						}
					}
				} else {
					rep.HeaderWrites++
				}
				if isCk {
					unit := 4 * rs
					if pass == "A" {
						unit = rs
					}
					if need := 4096 + int64(val)*unit; val > 0 && s.syncedHWM < need {
						rep.Problems = append(rep.Problems, traceProblem{Kind: "checkpoint-ahead-of-synced-data", Pass: pass, Detail: map[string]interface{}{
							"file": path, "trace_line_of_checkpoint_write": c.Line, "checkpoint_value_written": val, "data_must_reach_offset": need,
							"fsynced_data_reaches_offset": s.syncedHWM, "written_data_reaches_offset": s.pendingHWM, "call": c.Name + "(" + c.Args + ")"}})
					}
				}
				if s.dirty {
					rep.Problems = append(rep.Problems, traceProblem{Kind: "checkpoint-written-before-data-synced", Pass: pass, Detail: map[string]interface{}{
						"file": path, "trace_line_of_checkpoint_write": c.Line, "checkpoint_value_written": val, "trace_line_of_last_data_write": s.lastDataLine,
						"trace_line_of_last_fsync_of_file": s.lastSyncLine, "call": c.Name + "(" + c.Args + ")"}})
				}
			}
			if touchesData {
				if off+n > s.pendingHWM {
					s.pendingHWM = off + n
				}
				s.dirty, s.lastDataLine = true, c.Line
				rep.DataWrites++
			}
		case "fsync", "fdatasync":
			m := reFdPath.FindStringSubmatch(c.Args)
			if m == nil || !isMassdb(m[2]) {
				continue
			}
			s := get(m[2])
			s.dirty, s.lastSyncLine = false, c.Line
			s.syncedHWM = s.pendingHWM
			if s.finalCkLine > 0 && s.syncAfterFinal == 0 {
				s.syncAfterFinal = c.Line
			}
			rep.Syncs++
		case "unlink", "unlinkat":
			q := reQuoted.FindAllStringSubmatch(c.Args, -1)
			if len(q) == 0 {
				continue
			}
			path := string(unescape(q[len(q)-1][1]))
			if !isMapA(path) {
				continue
			}
			rep.UnlinkA++
			pathB := strings.TrimSuffix(path, "_a.massdb") + ".massdb"
			sb := st[pathB]
			if sb == nil || sb.finalCkLine == 0 || sb.syncAfterFinal == 0 || sb.dirty {
				d := map[string]interface{}{"unlinked": path, "trace_line_of_unlink": c.Line}
				if sb != nil {
					d["trace_line_of_final_mapB_checkpoint_write"] = sb.finalCkLine
					d["trace_line_of_fsync_after_it"] = sb.syncAfterFinal
					d["mapB_has_unsynced_data"] = sb.dirty
				} else {
					d["mapB_writes_seen"] = false
				}
				rep.Problems = append(rep.Problems, traceProblem{Kind: "mapA-removed-before-final-checkpoint-synced", Pass: "B", Detail: d})
			}
		}
	}
	return rep
}

// firstPerKind keeps the first problem of every (kind, pass) of one trace and notes how many there were.
func firstPerKind(ps []traceProblem) []traceProblem {
	var out []traceProblem
	idx := map[string]int{}
	for _, p := range ps {
		k := p.Kind + "/" + p.Pass
		if i, ok := idx[k]; ok {
			out[i].Detail["occurrences_in_this_trace"] = out[i].Detail["occurrences_in_this_trace"].(int) + 1
			continue
		}
		idx[k] = len(out)
		p.Detail["occurrences_in_this_trace"] = 1
		out = append(out, p)
	}
	return out
}

// judgeTrace applies O4 to the trace of one child run whose hook events are known.
// It returns false (trace not judged) when the trace does not contain the checkpoint writes the
// events say happened.
func judgeTrace(traceFile string, bl int, evs []event, ckA0, ckB0 int64) (traceReport, bool, string) {
	lines := vh.ReadLines(traceFile)
	rep := checkTrace(lines, bl, ckA0, ckB0)
	wantA, wantB, wantUnlink := 0, 0, 0
	for _, e := range evs {
		switch e.Point {
		case "plot.A.checkpointed", "plot.A.final":
			wantA++
		case "plot.B.checkpointed", "plot.B.final":
			wantB++
		case "plot.afterRemoveA":
			wantUnlink++
		}
	}
	// fewer writes than hook events = the trace lost calls (not judged); more is judged (the code wrote
	// checkpoints the hooks do not know about)
	if len(lines) == 0 || rep.CkWritesA < wantA || rep.CkWritesB < wantB || rep.UnlinkA < wantUnlink || wantA+wantB == 0 {
		return rep, false, fmt.Sprintf("trace has %d/%d checkpoint writes (A/B) and %d unlinks of map A, hook events say %d/%d and %d", rep.CkWritesA, rep.CkWritesB, rep.UnlinkA, wantA, wantB, wantUnlink)
	}
	rep.Problems = firstPerKind(rep.Problems)
	return rep, true, ""
}
