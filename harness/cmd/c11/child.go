package main

// Scenario driver (runs in a child process): real wallet, real keeper (capacity.NewSpaceKeeperV1),
// real massdb.v1 files. The plotter goroutine only moves when the driver releases one of the
// plotter.* hook points, so every file-system comparison is taken at a quiescent point.

import (
	"context"
	"encoding/hex"
	"encoding/json"
	"errors"
	"flag"
	"fmt"
	"os"
	"path/filepath"
	"sort"
	"strconv"
	"strings"
	"sync"
	"time"

	"github.com/massnetorg/mass-core/poc/pocutil"
	"massnet.org/mass/config"
	"massnet.org/mass/poc/engine"
	massdb_v1 "massnet.org/mass/poc/engine/massdb/massdb.v1"
	"massnet.org/mass/poc/engine/spacekeeper/capacity"
	"massnet.org/mass/verifhook"
	"verif/harness/internal/vh"
	"verif/harness/internal/wl"
)

const (
	startMark  = "C11-START "
	opMark     = "C11-OP "
	resultMark = "C11-RESULT "
	privPass   = "c11PrivPass@1"
	pubPass    = "c11PubPass#1"
)

type viol struct {
	Kind   string                 `json:"kind"`
	Attrs  map[string]string      `json:"attrs"`
	Detail map[string]interface{} `json:"detail"`
}

type opRec struct {
	N       int               `json:"n"`
	Kind    string            `json:"op"`
	Sid     string            `json:"sid,omitempty"`
	Arg     string            `json:"arg,omitempty"`
	Pre     string            `json:"pre_state,omitempty"`
	Result  string            `json:"result,omitempty"`
	Errs    map[string]string `json:"errs,omitempty"`
	Post    string            `json:"post_state,omitempty"`
	Plotter string            `json:"plotter_at,omitempty"`
}

type traceOp struct {
	N       int         `json:"n"`
	Kind    string      `json:"op"`
	Harness bool        `json:"harness,omitempty"`
	Unlink  []string    `json:"unlink,omitempty"`
	Rename  [][2]string `json:"rename,omitempty"`
}

type scResult struct {
	Idx        int                    `json:"idx"`
	Hash       string                 `json:"hash"`
	NonTrivial bool                   `json:"nontrivial"`
	Harness    string                 `json:"harness_error,omitempty"`
	Counters   map[string]int64       `json:"counters"`
	Viol       []viol                 `json:"viol"`
	Sample     map[string]interface{} `json:"sample,omitempty"`
	TraceOps   []traceOp              `json:"trace_ops,omitempty"`
	Ms         int64                  `json:"ms"`
}

// ---------------------------------------------------------------------------------------------
// plotter gates

type gateEv struct{ point, sid string }

type gates struct {
	mu      sync.Mutex
	cur     interface{}
	free    bool
	blocked chan struct{}
	arrive  chan gateEv
	freeLog []gateEv
}

var theGates = &gates{arrive: make(chan gateEv, 256)}

func (g *gates) handler(point string) func(args ...interface{}) {
	return func(args ...interface{}) {
		if len(args) == 0 {
			return
		}
		sid := ""
		if len(args) > 1 {
			sid, _ = args[1].(string)
		}
		g.mu.Lock()
		if g.cur == nil || args[0] != g.cur {
			g.mu.Unlock()
			return
		}
		if g.free {
			g.freeLog = append(g.freeLog, gateEv{point, sid})
			g.mu.Unlock()
			return
		}
		ch := make(chan struct{})
		g.blocked = ch
		g.mu.Unlock()
		g.arrive <- gateEv{point, sid}
		<-ch
	}
}

func (g *gates) install() {
	for _, p := range []string{"plotter.idle", "plotter.popped", "plotter.plotting", "plotter.plotted", "plotter.stepDone"} {
		verifhook.SetPoint(p, g.handler(p))
	}
	// end of pass A of a real plot: an armed one-shot action (a Stop request that takes effect inside pass B)
	verifhook.SetPoint("plot.A.final", func(args ...interface{}) {
		midPlotMu.Lock()
		f := midPlot
		midPlot = nil
		midPlotMu.Unlock()
		if f != nil {
			f()
		}
	})
}

var (
	midPlotMu sync.Mutex
	midPlot   func()
)

func (g *gates) attach(sk interface{}) {
	g.mu.Lock()
	g.cur, g.free, g.blocked, g.freeLog = sk, false, nil, nil
	g.mu.Unlock()
	for {
		select {
		case <-g.arrive:
		default:
			return
		}
	}
}

func (g *gates) release() {
	g.mu.Lock()
	ch := g.blocked
	g.blocked = nil
	g.mu.Unlock()
	if ch != nil {
		close(ch)
	}
}

func (g *gates) setFree(on bool) []gateEv {
	g.mu.Lock()
	g.free = on
	ch := g.blocked
	if on {
		g.blocked = nil
	}
	log := g.freeLog
	g.freeLog = nil
	g.mu.Unlock()
	if on && ch != nil {
		close(ch)
	}
	return log
}

func (g *gates) wait(d time.Duration) (gateEv, bool) {
	select {
	case ev := <-g.arrive:
		return ev, true
	case <-time.After(d):
		return gateEv{}, false
	}
}

// ---------------------------------------------------------------------------------------------

type spaceM struct {
	SID   string
	Dir   int
	Ord   int64
	Key   string
	BL    int
	State string
	Using bool
}

func (s *spaceM) keyB() string { return fmt.Sprintf("%d/%s", s.Dir, canonB(int(s.Ord), s.Key, s.BL)) }
func (s *spaceM) keyA() string { return fmt.Sprintf("%d/%s", s.Dir, canonA(int(s.Ord), s.Key, s.BL)) }

type allow struct {
	del     map[string]string // listing key -> must | may
	create  map[string][]byte // listing key -> exact content (nil: any)
	modify  map[string]bool
	rename  map[string]string
	collide map[string]string
	post    func(after listing)
	harness bool
}

func newAllow() *allow {
	return &allow{del: map[string]string{}, create: map[string][]byte{}, modify: map[string]bool{}, rename: map[string]string{}, collide: map[string]string{}}
}

type drv struct {
	sc      *scenario
	root    string
	dirs    []string
	wallet  map[string]int
	w       *wl.Wallet
	sk      *capacity.SpaceKeeper
	started bool
	rng     *vh.Rng
	res     *scResult
	ops     []opRec
	nops    int
	last    listing
	spaces  map[string]*spaceM
	infos   map[string]string
	changes int
	trace   bool
	dead    bool
	// plotter model
	pos      string // none | idle | popped | plotting | plotted | stepDone
	posSid   string
	chanPend int
	relKeys  map[string][2]string
	// index judgement
	lostA         map[string]bool // spaces whose map-A file the harness removed from the disk
	rejected      []string
	classesJudged map[string]bool
	filesJudged   int
	timeout       time.Duration
}

func (d *drv) count(name string) { d.res.Counters[name]++ }

func (d *drv) abort(reason string) {
	if !d.dead {
		d.dead = true
		d.res.Harness = reason
	}
}

func (d *drv) logOp(o *opRec) {
	b, _ := json.Marshal(o)
	fmt.Printf("%s%d %s\n", opMark, d.sc.Idx, b)
}

func (d *drv) marker(what string, n int) {
	if d.trace {
		if f, err := os.Open(fmt.Sprintf("/c11-marker/%s/%d/%d", what, d.sc.Idx, n)); err == nil {
			f.Close()
		}
	}
}

func (d *drv) stateOf(sid string) string {
	if s, ok := d.infos[sid]; ok {
		return s
	}
	return "unlisted"
}

func (d *drv) posString() string {
	if d.posSid != "" {
		return d.pos + ":" + short(d.posSid)
	}
	return d.pos
}

func short(sid string) string {
	if len(sid) > 14 {
		return sid[:10] + ".." + sid[len(sid)-3:]
	}
	return sid
}

func (d *drv) refreshInfos() {
	if d.sk == nil {
		return
	}
	infos, _ := d.sk.WorkSpaceInfos(engine.SFAll)
	m := map[string]string{}
	for _, wi := range infos {
		m[wi.SpaceID] = wi.State.String()
	}
	if d.infos != nil {
		for k, v := range m {
			if old, ok := d.infos[k]; ok && old != v {
				d.changes++
			}
		}
		for k := range d.infos {
			if _, ok := m[k]; !ok {
				d.changes++
			}
		}
	}
	d.infos = m
	for sid, s := range d.spaces {
		st, ok := m[sid]
		s.Using = ok
		if ok {
			s.State = st
		}
	}
}

func (d *drv) detail(o *opRec, extra map[string]interface{}) map[string]interface{} {
	ops := append(append([]opRec{}, d.ops...), *o)
	det := map[string]interface{}{
		"scenario": d.sc.Idx, "wallet_seed_hex": d.sc.WalletSeed, "wallet_keys_issued": d.sc.NKeys, "dirs": d.sc.NDirs,
		"planted_files": d.sc.Files, "ops_up_to_failure": ops,
		"how": "plant the files under d0..dN (header fields as given, then truncate to size), wallet = NewKeystore(seed) + GenerateNewPublicKey x wallet_keys_issued, capacity.NewSpaceKeeperV1(cfg{ProofDir: dirs}, wallet) then the ops in order; plotter-release ops let the plotter goroutine pass one plotter.* hook point",
	}
	for k, v := range extra {
		det[k] = v
	}
	return det
}

func (d *drv) violate(kind string, attrs map[string]string, det map[string]interface{}) {
	d.res.Viol = append(d.res.Viol, viol{Kind: kind, Attrs: attrs, Detail: det})
}

// op runs one operation between two listings.
func (d *drv) op(kind, sid, arg string, exec func(o *opRec) *allow) *opRec {
	o := &opRec{N: d.nops, Kind: kind, Sid: sid, Arg: arg, Plotter: d.posString()}
	if d.dead {
		o.Result = "skipped"
		return o
	}
	d.nops++
	if sid != "" {
		o.Pre = d.stateOf(sid)
	}
	d.logOp(o)
	d.marker("begin", o.N)
	before := d.last
	d.relKeys = map[string][2]string{} // which files belong to which space, as of before the operation
	for sid, s := range d.spaces {
		d.relKeys[sid] = [2]string{s.keyA(), s.keyB()}
	}
	al := exec(o)
	d.marker("end", o.N)
	if al == nil {
		al = newAllow()
	}
	after := snap(d.dirs)
	if !al.harness {
		d.count("listing_comparisons")
		d.judgeFS(o, before, after, al)
	}
	d.last = after
	d.refreshInfos()
	if sid != "" {
		o.Post = d.stateOf(sid)
	}
	d.ops = append(d.ops, *o)
	rc := o.Result
	if i := strings.IndexByte(rc, ':'); i > 0 && strings.HasPrefix(rc, "error") {
		rc = "error"
	}
	d.count("op:" + kind + "=" + rc)
	if d.trace {
		t := traceOp{N: o.N, Kind: kind, Harness: al.harness}
		for k := range al.del {
			t.Unlink = append(t.Unlink, d.pathOf(k))
		}
		for a, b := range al.rename {
			t.Rename = append(t.Rename, [2]string{d.pathOf(a), d.pathOf(b)})
		}
		for a, b := range al.collide { // what the code does there is reported by the listing oracle
			t.Rename = append(t.Rename, [2]string{d.pathOf(a), d.pathOf(b)})
		}
		d.res.TraceOps = append(d.res.TraceOps, t)
	}
	return o
}

func (d *drv) pathOf(k string) string {
	di, rel := splitKey(k)
	return filepath.Join(d.dirs[di], rel)
}

func isPlotName(rel string) bool { return strings.HasSuffix(strings.ToLower(rel), ".massdb") }

func (d *drv) relation(k string, o *opRec) string {
	_, rel := splitKey(k)
	if !isPlotName(rel) {
		return "non-plot-file"
	}
	if pk, ok := d.relKeys[o.Sid]; ok && (pk[0] == k || pk[1] == k) {
		return "target-space-file"
	}
	for _, pk := range d.relKeys {
		if pk[0] == k || pk[1] == k {
			if o.Sid == "" {
				return "indexed-space-file"
			}
			return "other-space-file"
		}
	}
	return "unindexed-plot-file"
}

func outcomeOf(res string) string {
	switch {
	case res == "" || res == "ok":
		return "ok"
	case strings.HasPrefix(res, "refused"):
		return "refused"
	}
	return "error"
}

// createdTrigger names the situation in which start-up created a plot file.
func createdTrigger(k string, before listing, rm renameModel) string {
	di, rel := splitKey(k)
	m := reCanon.FindStringSubmatch(rel)
	if m == nil {
		return "other"
	}
	ord, _ := strconv.Atoi(m[1])
	key, bl, isA := strings.ToLower(m[2]), m[3], m[4] != ""
	trig := "other"
	hasCanonB := false
	for bk := range before {
		bd, brel := splitKey(bk)
		if bd != di {
			continue
		}
		if nn, ok := rm.Renames[bk]; ok {
			_, brel = splitKey(nn)
		}
		bm := reCanon.FindStringSubmatch(brel)
		if bm == nil {
			continue
		}
		bord, err := strconv.Atoi(bm[1])
		if err != nil || bord != ord || strings.ToLower(bm[2]) != key || bm[3] != bl {
			continue
		}
		switch {
		case brel != strings.ToLower(brel):
			return trigCase
		case len(bm[1]) > 1 && bm[1][0] == '0':
			trig = trigZeros
		case bm[4] == "" && trig == "other":
			hasCanonB = true
		}
	}
	if trig == "other" && isA && hasCanonB {
		return trigNoA
	}
	return trig
}

func (d *drv) judgeFS(o *opRec, before, after listing, al *allow) {
	df := diffListing(before, after)
	if df.empty() && len(al.del) == 0 && len(al.rename) == 0 {
		return
	}
	removed, created, changed := map[string]bool{}, map[string]bool{}, map[string]bool{}
	for _, k := range df.Removed {
		removed[k] = true
	}
	for _, k := range df.Created {
		created[k] = true
	}
	for _, k := range df.Changed {
		changed[k] = true
	}
	var startupCreated []string
	_ = startupCreated
	ent := func(keys ...string) map[string]interface{} {
		m := map[string]interface{}{}
		side := func(l listing, k string) interface{} {
			if e, ok := l[k]; ok {
				return e
			}
			return "absent"
		}
		for _, k := range keys {
			m[k] = map[string]interface{}{"before": side(before, k), "after": side(after, k)}
		}
		return m
	}
	report := func(kind string, attrs map[string]string, k string, extra map[string]interface{}) {
		if _, isTrig := attrs["trigger"]; !isTrig {
			attrs["op"] = o.Kind
			attrs["outcome"] = outcomeOf(o.Result)
		}
		det := d.detail(o, map[string]interface{}{"listing_diff": df, "legacy_renames_expected_and_allowed": al.rename, "file": k, "entries": ent(append(append(append([]string{}, df.Removed...), df.Created...), df.Changed...)...)})
		for a, b := range extra {
			det[a] = b
		}
		d.violate(kind, attrs, det)
	}
	for old, nw := range al.rename {
		if removed[old] && created[nw] && before[old] == after[nw] {
			delete(removed, old)
			delete(created, nw)
			d.count("legacy_renames_verified")
		} else if !removed[old] {
			d.count("legacy_rename_expected_but_not_done")
		}
	}
	for old, tgt := range al.collide {
		if removed[old] && changed[tgt] && before[old] == after[tgt] {
			delete(removed, old)
			delete(changed, tgt)
			report("legacy-rename-overwrote-existing-plot-file", map[string]string{"trigger": trigCollide}, tgt,
				map[string]interface{}{"legacy_file": old, "overwritten": tgt, "what": "os.Rename(legacy, canonical) replaced an existing canonical plot file: its content is gone"})
		}
	}
	for k := range removed {
		if al.del[k] != "" {
			d.count("deleted_files_verified")
			continue
		}
		if strings.Contains(k[strings.IndexByte(k, '/')+1:], "/") && removed[k[:strings.LastIndexByte(k, '/')]] {
			continue // inside a removed directory: reported once for the directory
		}
		report("file-removed-without-request", map[string]string{"file": d.relation(k, o)}, k, nil)
	}
	for k, m := range al.del {
		if _, was := before[k]; m == "must" && was && !removed[k] {
			report("delete-left-files-behind", map[string]string{"file": d.relation(k, o)}, k, nil)
		}
	}
	for k := range created {
		if want, ok := al.create[k]; ok {
			if want != nil {
				got, _ := os.ReadFile(d.pathOf(k))
				if string(got) != string(want) {
					report("generated-file-has-unexpected-content", map[string]string{"file": d.relation(k, o)}, k, map[string]interface{}{"got_hex_head": hex.EncodeToString(head(got, 128)), "want_hex_head": hex.EncodeToString(head(want, 128)), "got_len": len(got)})
				}
			}
			d.count("generated_files_verified")
			continue
		}
		if strings.HasPrefix(o.Kind, "construct") && isPlotName(k) {
			_, rel := splitKey(k)
			which := "map-B"
			if strings.HasSuffix(strings.ToLower(rel), "_a.massdb") {
				which = "map-A"
			}
			trig := createdTrigger(k, before, renameModel{Renames: al.rename})
			startupCreated = append(startupCreated, k)
			// The statement forbids other operations to DELETE plot data; creating files is outside it.
			// Observed and counted, not judged (the wrong state that follows from it is judged by the indexing oracle).
			_ = which
			d.count("observed(not judged):startup-created-plot-files:" + trig)
			continue
		}
		d.count("observed(not judged):file-created-without-request")
	}
	for k := range changed {
		if al.modify[k] {
			continue
		}
		report("file-modified-without-request", map[string]string{"file": d.relation(k, o)}, k, nil)
	}
	if al.post != nil {
		al.post(after)
	}
}

func head(b []byte, n int) []byte {
	if len(b) > n {
		return b[:n]
	}
	return b
}

// ---------------------------------------------------------------------------------------------
// start-up: construct, configure, judge the index

func errClass(err error) string {
	switch {
	case err == nil:
		return "ok"
	case errors.Is(err, capacity.ErrWorkSpaceDoesNotExist):
		return "refused:does-not-exist"
	case errors.Is(err, capacity.ErrWorkSpaceIsNotStill):
		return "refused:not-registered-or-ready"
	case errors.Is(err, capacity.ErrWorkSpaceIsNotPlotting):
		return "refused:not-plotting"
	case errors.Is(err, massdb_v1.ErrAlreadyPlotting):
		return "refused:db-plotting"
	case errors.Is(err, capacity.ErrSpaceKeeperIsRunning), errors.Is(err, capacity.ErrSpaceKeeperConfiguredNothing),
		errors.Is(err, capacity.ErrConfigUnderSizeTarget), errors.Is(err, capacity.ErrSpaceKeeperIsNotRunning):
		return "refused:" + strings.ReplaceAll(err.Error(), " ", "-")
	}
	return "error:" + err.Error()
}

func (d *drv) classOf(dir int, name string) (class, trigger string) {
	for _, f := range d.sc.Files {
		if f.Dir == dir && (f.Name == name || (f.Renamed != "" && f.Renamed == name)) {
			return f.Class, f.Trigger
		}
	}
	return "not-planted", ""
}

func (d *drv) classOnly(dir int, name string) string {
	c, _ := d.classOf(dir, name)
	return c
}

type listed struct {
	dir   int
	state string
}

func (d *drv) construct(phase string) bool {
	if d.dead {
		return false
	}
	view, rm := scanView(d.dirs, d.wallet)
	exp := refIndex(d.dirs, view, d.wallet)
	cfg := &config.Config{Miner: config.DefaultMiner()}
	cfg.Miner.ProofDir = append([]string{}, d.dirs...)
	cfg.Miner.PrivatePassword = "" // the wallet is already unlocked; configuration is driven explicitly
	var cerr error
	d.op("construct:"+phase, "", "", func(o *opRec) *allow {
		al := newAllow()
		al.rename, al.collide = rm.Renames, rm.Collisions
		ski, err := capacity.NewSpaceKeeperV1(cfg, d.w.M)
		cerr = err
		o.Result = errClass(err)
		if err == nil {
			d.sk = ski.(*capacity.SpaceKeeper)
			theGates.attach(d.sk)
			d.pos, d.posSid, d.chanPend, d.started, d.infos = "none", "", 0, false, nil
		}
		return al
	})
	if cerr != nil {
		d.abort("NewSpaceKeeperV1: " + cerr.Error())
		return false
	}
	d.count("keepers_constructed")
	d.op("configure-by-flags", "", "SFAll,plot=false,mine=false", func(o *opRec) *allow {
		_, err := d.sk.ConfigureByFlags(engine.SFAll, false, false)
		o.Result = errClass(err)
		return nil
	})
	// what the keeper lists
	actual := map[string]listed{}
	dl, res, _ := d.sk.WorkSpaceInfosByDirs()
	d.spaces = map[string]*spaceM{}
	for i, dir := range dl {
		di := -1
		for j, x := range d.dirs {
			if x == dir {
				di = j
			}
		}
		for _, wi := range res[i] {
			actual[wi.SpaceID] = listed{di, wi.State.String()}
			d.spaces[wi.SpaceID] = &spaceM{SID: wi.SpaceID, Dir: di, Ord: wi.Ordinal, Key: hex.EncodeToString(wi.PublicKey.SerializeCompressed()), BL: wi.BitLength, State: wi.State.String(), Using: true}
		}
	}
	all, _ := d.sk.WorkSpaceInfos(engine.SFAll)
	seen := map[string]int{}
	for _, wi := range all {
		seen[wi.SpaceID]++
	}
	base := func(e expEntry) map[string]interface{} {
		var lst []string
		for sid, a := range actual {
			lst = append(lst, fmt.Sprintf("%s dir=%d state=%s", sid, a.dir, a.state))
		}
		sort.Strings(lst)
		return map[string]interface{}{"phase": phase, "planted_class": d.classOnly(e.Dir, e.OnDisk), "file": fmt.Sprintf("d%d/%s", e.Dir, e.OnDisk), "name_seen_by_scan": e.Name, "expected": e.Expect, "failing_check": e.Reason, "sid": e.SID, "keeper_lists": lst, "reference_index": exp}
	}
	explained := map[string]bool{}
	for _, e := range exp {
		if e.Expect != "not-indexed" {
			explained[fmt.Sprintf("%s@%d", e.SID, e.Dir)] = true
		}
	}
	reported := map[string]bool{}
	for _, e := range exp {
		class, ptrig := d.classOf(e.Dir, e.OnDisk)
		// attrs name the input class: the name oddity (trigger) if there is one, else planted class + failing check
		attrs := map[string]string{}
		if e.Trigger == "" {
			e.Trigger = ptrig
		}
		if e.Trigger != "" {
			attrs["trigger"] = e.Trigger
		} else {
			attrs["class"] = class
			if e.Reason != "" {
				attrs["check"] = e.Reason
			}
		}
		a, isListed := actual[e.SID]
		here := isListed && a.dir == e.Dir
		d.count("index_decision_judged:" + e.Expect)
		d.count("planted_class_judged:" + class)
		if phase == "startup" && class != "not-planted" {
			d.classesJudged[class] = true
			d.filesJudged++
		}
		wantState := e.Expect
		switch e.Expect {
		case "either":
			wantState = map[string]string{"map-a-missing": "registered", "table-truncated": "ready"}[e.Reason]
			if !here {
				d.count("either_outcome:not-indexed")
				continue
			}
			d.count("either_outcome:indexed")
			fallthrough
		case "ready", "registered":
			det := base(e)
			switch {
			case !isListed:
				d.violate("valid-plot-file-not-indexed", attrs, d.detail(&opRec{Kind: "judge-index:" + phase}, det))
			case !here:
				det["listed_from_dir"] = a.dir
				d.violate("space-indexed-from-other-directory", attrs, d.detail(&opRec{Kind: "judge-index:" + phase}, det))
			case a.state != wantState:
				attrs["expected"], attrs["got"] = wantState, a.state
				det["got_state"] = a.state
				d.violate("indexed-with-wrong-state", attrs, d.detail(&opRec{Kind: "judge-index:" + phase}, det))
			}
		case "not-indexed":
			if here && !explained[fmt.Sprintf("%s@%d", e.SID, e.Dir)] {
				det := base(e)
				det["got_state"] = a.state
				d.violate("invalid-plot-file-indexed", attrs, d.detail(&opRec{Kind: "judge-index:" + phase}, det))
				reported[e.SID] = true
			}
			if !isListed {
				d.rejected = append(d.rejected, e.SID)
			}
		}
	}
	expSID := map[string]bool{}
	for _, e := range exp {
		expSID[e.SID] = true
	}
	// planted files that are no map-B candidate at all (map A alone, legacy names that stay)
	if phase == "startup" {
		for _, f := range d.sc.Files {
			if f.Expect != "not-indexed" || f.SID == "" || expSID[f.SID] {
				continue
			}
			d.count("index_decision_judged:not-indexed")
			d.count("planted_class_judged:" + f.Class)
			d.classesJudged[f.Class] = true
			d.filesJudged++
			if a, ok := actual[f.SID]; ok {
				d.violate("invalid-plot-file-indexed", map[string]string{"class": f.Class, "check": f.Reason},
					d.detail(&opRec{Kind: "judge-index:" + phase}, map[string]interface{}{"phase": phase, "file": fmt.Sprintf("d%d/%s", f.Dir, f.Name), "sid": f.SID, "got_state": a.state}))
				reported[f.SID] = true
			} else {
				d.rejected = append(d.rejected, f.SID)
			}
		}
	}
	for sid, a := range actual {
		if !explained[fmt.Sprintf("%s@%d", sid, a.dir)] && !reported[sid] {
			d.violate("unexpected-space-indexed", map[string]string{},
				d.detail(&opRec{Kind: "judge-index:" + phase}, map[string]interface{}{"phase": phase, "sid": sid, "dir": a.dir, "state": a.state, "reference_index": exp}))
		}
		if seen[sid] != 1 {
			d.violate("space-listed-more-than-once", map[string]string{},
				d.detail(&opRec{Kind: "judge-index:" + phase}, map[string]interface{}{"phase": phase, "sid": sid, "times": seen[sid]}))
		}
	}
	d.count("index_judgements:" + phase)
	if phase == "startup" {
		// the generator's intention and the reference indexer are two statements of the same rules
		for _, f := range d.sc.Files {
			if f.Expect == "" {
				continue
			}
			found := false
			for _, e := range exp {
				if e.Dir == f.Dir && e.OnDisk == f.Name {
					found = true
					if e.Expect != f.Expect || (f.Reason != "" && !strings.HasPrefix(f.Reason, "legacy-name-not-renamed") && e.Reason != f.Reason) {
						d.abort(fmt.Sprintf("spec-vs-reference: %s d%d/%s spec=%s/%s ref=%s/%s", f.Class, f.Dir, f.Name, f.Expect, f.Reason, e.Expect, e.Reason))
					}
				}
			}
			if !found && f.Expect != "not-indexed" {
				d.abort(fmt.Sprintf("spec-vs-reference: %s d%d/%s spec=%s but no candidate in reference", f.Class, f.Dir, f.Name, f.Expect))
			}
		}
	}
	// would-be ids of rejected files must be unknown to the keeper
	for _, sid := range uniq(d.rejected) {
		if _, ok := actual[sid]; ok {
			continue
		}
		sid := sid
		d.op("act-on-rejected-id", sid, "stop", func(o *opRec) *allow {
			err := d.sk.ActOnWorkSpace(sid, engine.Stop)
			o.Result = errClass(err)
			if !errors.Is(err, capacity.ErrWorkSpaceDoesNotExist) {
				d.violate("rejected-file-id-known-to-keeper", map[string]string{}, d.detail(o, map[string]interface{}{"phase": phase, "sid": sid, "err": fmt.Sprint(err)}))
			}
			d.count("rejected_ids_probed")
			return nil
		})
	}
	return !d.dead
}

func uniq(xs []string) []string {
	m := map[string]bool{}
	var out []string
	for _, x := range xs {
		if !m[x] {
			m[x] = true
			out = append(out, x)
		}
	}
	sort.Strings(out)
	return out
}

// ---------------------------------------------------------------------------------------------
// configuration

// absorbConfigured registers spaces a Configure* call reports and that were not indexed before:
// these are the only files such a call may create (header-only map A and map B in dir).
func (d *drv) absorbConfigured(infos []engine.WorkSpaceInfo, dir int, al *allow) {
	for _, wi := range infos {
		if _, ok := d.spaces[wi.SpaceID]; ok {
			continue
		}
		s := &spaceM{SID: wi.SpaceID, Dir: dir, Ord: wi.Ordinal, Key: hex.EncodeToString(wi.PublicKey.SerializeCompressed()), BL: wi.BitLength, State: wi.State.String()}
		d.spaces[s.SID] = s
		d.wallet[s.Key] = int(s.Ord)
		if o, ok := d.w.M.GetPublicKeyOrdinal(wi.PublicKey); !ok || int64(o) != wi.Ordinal {
			d.violate("generated-space-key-not-the-wallets", map[string]string{}, d.detail(&opRec{Kind: "configure"}, map[string]interface{}{"sid": s.SID, "ordinal": wi.Ordinal}))
		}
		al.create[s.keyA()] = buildHeader(&hdrSpec{Code: "ok", Version: 1, BL: s.BL, Type: typeA, Key: s.Key, HashOK: true})
		al.create[s.keyB()] = buildHeader(&hdrSpec{Code: "ok", Version: 1, BL: s.BL, Type: typeB, Key: s.Key, HashOK: true})
		d.count("spaces_generated_by_configure")
	}
}

func (d *drv) configureSmall(n int) {
	bl := d.sc.SmallBL
	d.op("configure-by-bitlength", "", fmt.Sprintf("{%d:%d},plot=false,mine=false", bl, n), func(o *opRec) *allow {
		al := newAllow()
		infos, err := d.sk.ConfigureByBitLength(map[int]int{bl: n}, false, false)
		o.Result = errClass(err)
		if err == nil {
			d.absorbConfigured(infos, 0, al)
		}
		return al
	})
}

func flagsString(f engine.WorkSpaceStateFlags) string { return f.String() }

// anyExpensive: would queueing every indexed space in the flagged states start a costly plot?
func (d *drv) anyExpensive(flags engine.WorkSpaceStateFlags, usingOnly bool) bool {
	if !flags.Contains(engine.SFRegistered) {
		return false
	}
	for _, s := range d.spaces {
		if usingOnly && !s.Using {
			continue
		}
		if s.State == "registered" && !d.cheap(s) {
			return true
		}
	}
	return false
}

func (d *drv) configureByFlags(flags engine.WorkSpaceStateFlags, plot, mine bool) {
	if (plot || mine) && d.anyExpensive(flags, false) {
		plot, mine = false, false
	}
	d.op("configure-by-flags", "", fmt.Sprintf("%s,plot=%v,mine=%v", flagsString(flags), plot, mine), func(o *opRec) *allow {
		al := newAllow()
		infos, err := d.sk.ConfigureByFlags(flags, plot, mine)
		o.Result = errClass(err)
		if err == nil {
			d.absorbConfigured(infos, 0, al) // generates nothing: anything new here is a violation of the listing oracle
		}
		return al
	})
}

// cheap: can this registered space be plotted for real within a fraction of a second?
func (d *drv) cheap(s *spaceM) bool {
	if s.BL <= 16 {
		return true
	}
	if s.BL != 24 {
		return false
	}
	ha, ea := readHeader(d.pathOf(s.keyA()))
	hb, eb := readHeader(d.pathOf(s.keyB()))
	if ea != nil || eb != nil || ha.Short || hb.Short || !ha.CodeOK || !hb.CodeOK {
		return false
	}
	return ha.BL == 24 && hb.BL == 24 && ha.Type == typeA && hb.Type == typeB && ha.CP >= 1<<24 && ha.Size >= fullSize(typeA, 24) && hb.Size >= fullSize(typeB, 24) && hb.CP+64 >= 1<<23
}

// ---------------------------------------------------------------------------------------------
// keeper start / stop, plotter stepping

func callTimeout(f func() error, t time.Duration) (error, bool) {
	ch := make(chan error, 1)
	go func() { ch <- f() }()
	select {
	case err := <-ch:
		return err, true
	case <-time.After(t):
		return nil, false
	}
}

func (d *drv) allowPlot(al *allow, sid string) {
	s, ok := d.spaces[sid]
	if !ok {
		return
	}
	al.modify[s.keyA()], al.modify[s.keyB()] = true, true
	al.del[s.keyA()] = "may"
	prev := al.post
	al.post = func(after listing) {
		if prev != nil {
			prev(after)
		}
		if _, still := after[s.keyA()]; still {
			return
		}
		if _, was := d.last[s.keyA()]; !was {
			return
		}
		hb, err := readHeader(d.pathOf(s.keyB()))
		if err != nil || hb.Short || hb.CP < uint64(1)<<uint(s.BL-1) {
			d.violate("map-a-removed-before-plot-complete", map[string]string{}, d.detail(&opRec{Kind: "plot-step", Sid: sid}, map[string]interface{}{"sid": sid, "map_b_checkpoint": hb.CP}))
		} else {
			d.count("end_of_plot_map_a_removals_verified")
		}
	}
}

func (d *drv) keeperStart() {
	if d.dead || d.started {
		return
	}
	d.op("keeper-start", "", "", func(o *opRec) *allow {
		err, ok := callTimeout(d.sk.Start, d.timeout)
		if !ok {
			d.abort("keeper-start-timeout")
			return nil
		}
		o.Result = errClass(err)
		if err != nil {
			return nil
		}
		d.started = true
		ev, ok := theGates.wait(d.timeout)
		if !ok {
			d.abort("plotter-did-not-arrive-after-start")
			return nil
		}
		d.setPos(ev)
		return nil
	})
}

func (d *drv) setPos(ev gateEv) {
	d.pos, d.posSid = strings.TrimPrefix(ev.point, "plotter."), ev.sid
	d.count("plotter_gate:" + d.pos)
}

func (d *drv) canStep() bool {
	if d.dead || !d.started {
		return false
	}
	switch d.pos {
	case "popped", "plotting", "plotted", "stepDone":
		return true
	case "idle":
		return d.chanPend > 0
	}
	return false
}

// step lets the plotter goroutine run from the point it is blocked at to the next point.
func (d *drv) step() {
	if !d.canStep() {
		return
	}
	from, sid := d.pos, d.posSid
	d.op("plotter-release:"+from, sid, "", func(o *opRec) *allow {
		al := newAllow()
		var stopDone chan struct{}
		if from == "plotting" {
			d.allowPlot(al, sid)
			d.count("real_plot_calls")
			if d.rng.Chance(1, 3) {
				// a Stop request that arrives when pass A has just been completed: the plot is cut short inside pass B.
				// Stop deletes nothing: map A must survive beside the incomplete map B (allowPlot's post-condition).
				stopDone = make(chan struct{})
				sk := d.sk
				midPlotMu.Lock()
				midPlot = func() {
					go func() {
						sk.ActOnWorkSpace(sid, engine.Stop)
						close(stopDone)
					}()
					time.Sleep(2 * time.Millisecond)
				}
				midPlotMu.Unlock()
				o.Arg = "with Stop issued at the end of pass A"
			}
		}
		if from == "idle" {
			d.chanPend = 0
		}
		theGates.release()
		ev, ok := theGates.wait(d.timeout)
		if stopDone != nil {
			midPlotMu.Lock()
			fired := midPlot == nil
			midPlot = nil
			midPlotMu.Unlock()
			if fired {
				d.count("stops_issued_at_end_of_pass_a")
				select {
				case <-stopDone:
				case <-time.After(d.timeout):
					d.abort("stop-issued-inside-plot-did-not-return")
					return al
				}
			}
		}
		if !ok {
			d.abort("plotter-did-not-reach-next-point-from:" + from)
			return al
		}
		d.setPos(ev)
		o.Result = "ok"
		o.Arg = strings.TrimSpace(o.Arg + " reached " + d.posString())
		return al
	})
}

func (d *drv) keeperStop() {
	if d.dead || !d.started {
		return
	}
	// With requests pending in the keeper's channel, the plotter's select between quit and that
	// channel is a coin toss: let the plotter take them in first (they are dropped with the queue).
	for i := 0; i < 64 && d.chanPend > 0 && d.canStep(); i++ {
		d.step()
	}
	d.op("keeper-stop", "", "", func(o *opRec) *allow {
		al := newAllow()
		if d.pos == "popped" || d.pos == "plotting" {
			d.allowPlot(al, d.posSid)
		}
		theGates.setFree(true)
		err, ok := callTimeout(d.sk.Stop, d.timeout)
		log := theGates.setFree(false)
		if !ok {
			d.abort("keeper-stop-timeout")
			return al
		}
		for _, ev := range log {
			if ev.point == "plotter.plotting" {
				d.allowPlot(al, ev.sid)
			}
		}
		o.Result = errClass(err)
		d.started, d.pos, d.posSid = false, "none", ""
		return al
	})
}

// ---------------------------------------------------------------------------------------------
// actions

var actName = map[engine.ActionType]string{engine.Plot: "plot", engine.Mine: "mine", engine.Stop: "stop", engine.Remove: "remove", engine.Delete: "delete"}

// mapAOwned (asked BEFORE the action): the map-A file belongs to the space as long as its map B
// is not complete; beside a complete map B it is a leftover the keeper never opened.
func (d *drv) mapAOwned(sid string) bool {
	s, ok := d.spaces[sid]
	if !ok {
		return false
	}
	hb, herr := readHeaderOf(d.last, d, s.keyB())
	return herr == nil && !hb.Short && hb.CP < uint64(1)<<uint(s.BL-1)
}

func (d *drv) allowDelete(al *allow, sid string, err error, aOwned bool) {
	s, ok := d.spaces[sid]
	if !ok {
		return
	}
	if err == nil {
		al.del[s.keyB()] = "must"
		if aOwned {
			al.del[s.keyA()] = "must"
		} else {
			al.del[s.keyA()] = "may"
		}
		delete(d.spaces, sid)
		d.count("deletes_accepted")
		return
	}
	if o := errClass(err); strings.HasPrefix(o, "error") {
		// accepted but the removal itself failed half-way
		al.del[s.keyB()], al.del[s.keyA()] = "may", "may"
		if d.lostA[sid] {
			// the only thing that can have failed is the removal of the map-A file the harness itself had taken
			// away: the space is forgotten by the keeper, so its plot file must be gone as well ("erases exactly
			// that space's files"), or the next start-up finds and indexes it again
			prev := al.post
			keyB := s.keyB()
			al.post = func(after listing) {
				if prev != nil {
					prev(after)
				}
				d.refreshInfos() // the listing as it is after the call
				if _, listed := d.infos[sid]; listed {
					return
				}
				if _, still := after[keyB]; still {
					d.violate("deleted-space-plot-file-survives", map[string]string{"cause": "map-a-file-was-missing"}, d.detail(&opRec{Kind: "delete", Sid: sid}, map[string]interface{}{"sid": sid, "error": errClass(err)}))
				} else {
					d.count("deletes_with_missing_map_a_erased_plot_file")
				}
			}
		}
		delete(d.spaces, sid)
	}
}

// loseMapA: the map-A file of a registered space disappears from the disk (removed by the operator, a cleaning
// job, a failing disk) - a harness operation, not judged itself. A Delete of that space follows.
func (d *drv) loseMapAThenDelete() bool {
	var cands []string
	for _, sid := range d.listedSids(func(sid, st string) bool { return st == "registered" }) {
		if s := d.spaces[sid]; s != nil && d.mapAOwned(sid) {
			if _, ok := d.last[s.keyA()]; ok {
				cands = append(cands, sid)
			}
		}
	}
	sid := d.pick(cands)
	if sid == "" {
		return false
	}
	s := d.spaces[sid]
	d.op("harness:unlink-map-a", sid, "", func(o *opRec) *allow {
		al := newAllow()
		al.harness = true
		al.del[s.keyA()] = "must"
		if err := os.Remove(d.pathOf(s.keyA())); err != nil {
			o.Result = "error:" + err.Error()
		} else {
			o.Result = "ok"
			d.lostA[sid] = true
		}
		return al
	})
	d.single(engine.Delete, sid, "")
	return true
}

func readHeaderOf(l listing, d *drv, k string) (hdrView, error) {
	if _, ok := l[k]; !ok {
		return hdrView{}, os.ErrNotExist
	}
	return readHeader(d.pathOf(k))
}

func (d *drv) judgeGuard(o *opRec, act engine.ActionType, sid, pre, form, gate string, err error, attempted bool) {
	if (act != engine.Remove && act != engine.Delete) || (pre != "plotting" && pre != "mining") || !attempted {
		return
	}
	attrs := map[string]string{"action": actName[act], "state": pre, "form": form}
	if gate != "" {
		attrs["gate"] = gate
	}
	if err == nil {
		d.violate(actName[act]+"-accepted-while-"+pre, attrs, d.detail(o, map[string]interface{}{"sid": sid}))
		return
	}
	d.count("refused_" + actName[act] + "_while_" + pre)
	d.count("refused_remove_delete_in_plotting_mining")
}

func (d *drv) judgeStill(o *opRec, act engine.ActionType, sid, pre, form string, err error) {
	if (act != engine.Remove && act != engine.Delete) || (pre != "plotting" && pre != "mining") || err == nil {
		return
	}
	if post := d.stateOf(sid); post != pre {
		d.violate("space-state-changed-by-refused-"+actName[act], map[string]string{"action": actName[act], "state": pre, "form": form, "got": post},
			d.detail(o, map[string]interface{}{"sid": sid, "state_before": pre, "state_after": post}))
	}
}

func (d *drv) single(act engine.ActionType, sid, gate string) *opRec {
	pre := d.stateOf(sid)
	var aerr error
	aOwned := d.mapAOwned(sid)
	o := d.op(actName[act], sid, gate, func(o *opRec) *allow {
		al := newAllow()
		err := d.sk.ActOnWorkSpace(sid, act)
		aerr = err
		o.Result = errClass(err)
		if act == engine.Delete {
			d.allowDelete(al, sid, err, aOwned)
		}
		if (act == engine.Plot || act == engine.Mine) && err == nil && pre == "registered" {
			d.chanPend++
		}
		d.judgeGuard(o, act, sid, pre, "single", gate, err, true)
		return al
	})
	if o.Result != "skipped" {
		d.judgeStill(o, act, sid, pre, "single", aerr)
	}
	return o
}

func (d *drv) bulk(act engine.ActionType, flags engine.WorkSpaceStateFlags, gate string) {
	if (act == engine.Plot || act == engine.Mine) && d.anyExpensive(flags, true) {
		flags &^= engine.SFRegistered
		if flags.IsNone() {
			flags = engine.SFReady
		}
	}
	pre, aOwned := map[string]string{}, map[string]bool{}
	for k, v := range d.infos {
		pre[k] = v
		aOwned[k] = d.mapAOwned(k)
	}
	var errs map[string]error
	o := d.op("bulk-"+actName[act], "", flagsString(flags)+gateSuffix(gate), func(o *opRec) *allow {
		al := newAllow()
		var err error
		errs, err = d.sk.ActOnWorkSpaces(flags, act)
		o.Result = errClass(err)
		o.Errs = map[string]string{}
		sids := make([]string, 0, len(errs))
		for sid := range errs {
			sids = append(sids, sid)
		}
		sort.Strings(sids)
		for _, sid := range sids {
			e := errs[sid]
			o.Errs[short(sid)] = pre[sid] + "->" + errClass(e)
			if act == engine.Delete {
				d.allowDelete(al, sid, e, aOwned[sid])
			}
			if (act == engine.Plot || act == engine.Mine) && e == nil && pre[sid] == "registered" {
				d.chanPend++
			}
			d.judgeGuard(o, act, sid, pre[sid], "bulk", gate, e, true)
			d.count("bulk_item:" + actName[act] + "=" + outcomeOf(errClass(e)))
		}
		return al
	})
	if o.Result != "skipped" {
		for sid, e := range errs {
			d.judgeStill(o, act, sid, pre[sid], "bulk", e)
		}
	}
}

func gateSuffix(g string) string {
	if g == "" {
		return ""
	}
	return " @" + g
}

func (d *drv) listedSids(filter func(sid, state string) bool) []string {
	var out []string
	for sid, st := range d.infos {
		if filter == nil || filter(sid, st) {
			out = append(out, sid)
		}
	}
	sort.Strings(out)
	return out
}

func (d *drv) pick(xs []string) string {
	if len(xs) == 0 {
		return ""
	}
	return xs[d.rng.Intn(len(xs))]
}

func (d *drv) randFlags() engine.WorkSpaceStateFlags {
	if d.rng.Chance(1, 4) {
		return engine.SFAll
	}
	f := engine.WorkSpaceStateFlags(1 + d.rng.Intn(15))
	return f
}

// attack: every way of asking for removal of a space that is plotting or mining.
func (d *drv) attack(sid, gate string) {
	st := d.stateOf(sid)
	if st != "plotting" && st != "mining" {
		return
	}
	own := engine.SFPlotting
	if st == "mining" {
		own = engine.SFMining
	}
	steps := d.rng.Perm(4)
	n := d.rng.Range(2, 4)
	for _, k := range steps[:n] {
		switch k {
		case 0:
			d.single(engine.Remove, sid, gate)
		case 1:
			d.single(engine.Delete, sid, gate)
		case 2:
			d.bulk(engine.Remove, own, gate)
		case 3:
			f := own
			if d.rng.Chance(1, 3) {
				f = engine.SFPlotting | engine.SFMining
			}
			d.bulk(engine.Delete, f, gate)
		}
	}
	d.count("attacks_on_" + st + "_space")
}

func (d *drv) holdAttack() bool {
	if !d.started {
		return false
	}
	cands := d.listedSids(func(sid, st string) bool {
		s := d.spaces[sid]
		return st == "registered" && s != nil && d.cheap(s)
	})
	s := d.pick(cands)
	if s == "" {
		return false
	}
	act := engine.Plot
	if d.rng.Bool() {
		act = engine.Mine
	}
	d.single(act, s, "")
	for i := 0; i < 16 && !(d.pos == "plotting" && d.posSid == s) && d.canStep(); i++ {
		d.step()
	}
	if !(d.pos == "plotting" && d.posSid == s) || d.dead {
		return false
	}
	d.attack(s, "held-before-Plot()")
	if d.rng.Chance(1, 3) {
		d.single(engine.Stop, s, "held-before-Plot()")
	}
	d.step() // the real Plot() runs
	if d.pos == "plotted" && d.posSid == s {
		d.attack(s, "held-after-Plot()")
		d.step()
	}
	if d.stateOf(s) == "mining" {
		d.attack(s, "")
		if d.rng.Bool() {
			d.single(engine.Stop, s, "")
		}
	}
	if st := d.stateOf(s); (st == "ready" || st == "registered") && d.rng.Chance(1, 2) {
		d.single(engine.Delete, s, "")
	}
	return true
}

func (d *drv) mineAttack() bool {
	r := d.pick(d.listedSids(func(sid, st string) bool { return st == "ready" }))
	if r == "" {
		return false
	}
	if d.rng.Chance(1, 4) {
		d.bulk(engine.Mine, engine.SFReady, "")
	} else {
		d.single(engine.Mine, r, "")
	}
	d.attack(r, "")
	switch d.rng.Intn(3) {
	case 0:
		d.single(engine.Stop, r, "")
	case 1:
		d.bulk(engine.Stop, engine.SFMining, "")
	}
	return true
}

func (d *drv) randomSingle() {
	all := d.listedSids(nil)
	sid := d.pick(all)
	if sid == "" || d.rng.Chance(1, 8) {
		// unknown id: a rejected file's would-be id, or a removed/deleted one
		if len(d.rejected) > 0 {
			sid = d.pick(uniq(d.rejected))
		} else {
			sid = strings.Repeat("02", 33) + "-24"
		}
		act := engine.ActionType(d.rng.Intn(5))
		if act == engine.Plot || act == engine.Mine {
			act = engine.Stop
		}
		d.single(act, sid, "")
		return
	}
	act := engine.ActionType(d.rng.Weighted(4, 4, 4, 3, 3))
	st := d.stateOf(sid)
	if (act == engine.Plot || act == engine.Mine) && st == "registered" {
		if s := d.spaces[sid]; s == nil || !d.cheap(s) {
			act = engine.Stop // a real plot of an empty bl>=24 space takes minutes: never queued
		}
	}
	d.single(act, sid, "")
}

func (d *drv) proofs() {
	if !d.started {
		return
	}
	var ch pocutil.Hash
	copy(ch[:], d.rng.Bytes(32))
	filter := d.rng.Bool()
	known := map[string]bool{}
	for sid := range d.spaces {
		known[sid] = true
	}
	for _, sid := range uniq(d.rejected) {
		if known[sid] {
			continue
		}
		sid := sid
		d.op("get-proof-rejected-id", sid, "", func(o *opRec) *allow {
			wsp, err := d.sk.GetProof(context.Background(), sid, ch, filter)
			o.Result = errClass(err)
			d.count("proofs_requested_on_rejected_files")
			if err == nil && wsp != nil && wsp.Proof != nil {
				d.violate("proof-served-from-rejected-file", map[string]string{"api": "GetProof"}, d.detail(o, map[string]interface{}{"sid": sid, "challenge": hex.EncodeToString(ch[:])}))
			}
			return nil
		})
	}
	d.op("get-proofs", "", "SFAll", func(o *opRec) *allow {
		ps, err := d.sk.GetProofs(context.Background(), engine.SFAll, ch, filter)
		o.Result = errClass(err)
		for _, p := range ps {
			d.count("proof_results_seen")
			if p != nil && p.Proof != nil {
				d.count("proofs_served")
				if !known[p.SpaceID] {
					d.violate("proof-served-from-rejected-file", map[string]string{"api": "GetProofs"}, d.detail(o, map[string]interface{}{"sid": p.SpaceID}))
				}
			}
		}
		return nil
	})
}

func (d *drv) toggleKeeper() {
	if d.started {
		if d.rng.Chance(1, 3) {
			d.op("configure-while-running", "", "", func(o *opRec) *allow {
				var err error
				if d.rng.Bool() {
					_, err = d.sk.ConfigureByFlags(engine.SFAll, true, true)
				} else {
					_, err = d.sk.ConfigureByBitLength(map[int]int{d.sc.SmallBL: 5}, true, true)
				}
				o.Result = errClass(err)
				return nil
			})
		}
		d.keeperStop()
		switch d.rng.Intn(6) {
		case 0:
			d.op("configure-by-size", "", "1000", func(o *opRec) *allow {
				al := newAllow()
				infos, err := d.sk.ConfigureBySize(1000, false, false)
				o.Result = errClass(err)
				if err == nil {
					d.absorbConfigured(infos, 0, al)
				}
				return al
			})
		case 1:
			d.configureByFlags(engine.SFReady, false, true)
			if d.rng.Bool() {
				d.configureByFlags(engine.SFAll, false, false)
			}
		case 2:
			d.configureByFlags(engine.SFAll, d.rng.Bool(), d.rng.Bool())
		case 3:
			if d.sc.SmallN > 0 {
				d.configureSmall(d.sc.SmallN + d.rng.Intn(2))
				d.configureByFlags(engine.SFAll, false, false)
			}
		case 4:
			d.configureByFlags(engine.SFMining, false, false) // configures nothing
		}
		// actions on a stopped keeper
		if d.rng.Bool() {
			d.randomSingle()
		}
	}
	d.keeperStart()
}

func (d *drv) restartCheck() {
	if d.started {
		d.keeperStop()
	}
	if d.dead {
		return
	}
	d.rejected = nil
	if d.construct("restart") {
		d.count("restarts_compared")
	}
}

// ---------------------------------------------------------------------------------------------

func runScenario(seed int64, sc *scenario, root string, trace bool) *scResult {
	t0 := time.Now()
	res := &scResult{Idx: sc.Idx, Counters: map[string]int64{}}
	d := &drv{sc: sc, root: root, res: res, trace: trace, rng: rootRng(seed).Derive("actions", sc.Idx), pos: "none", spaces: map[string]*spaceM{}, lostA: map[string]bool{}, classesJudged: map[string]bool{}, timeout: 120 * time.Second}
	os.RemoveAll(root)
	defer func() {
		d.marker("begin", 1<<30)
		os.RemoveAll(root)
		d.marker("end", 1<<30)
	}()
	if trace {
		res.TraceOps = append(res.TraceOps, traceOp{N: 1 << 30, Kind: "cleanup", Harness: true})
	}
	for i := 0; i < sc.NDirs; i++ {
		p := filepath.Join(root, fmt.Sprintf("d%d", i))
		os.MkdirAll(p, 0o755)
		d.dirs = append(d.dirs, p)
	}
	finish := func() *scResult {
		res.Ms = time.Since(t0).Milliseconds()
		parts := [][]byte{[]byte(fmt.Sprint(sc.specHash()))}
		acted := map[string]bool{}
		for _, o := range d.ops {
			parts = append(parts, []byte(o.Kind+"|"+o.Sid+"|"+o.Arg+"|"+o.Result))
			acted[o.Kind] = true
		}
		res.Hash = fmt.Sprint(vh.Hash64(parts...))
		res.NonTrivial = res.Harness == "" && d.filesJudged >= 3 && len(d.classesJudged) >= 2 && d.changes >= 1
		if d.changes >= 1 {
			res.Counters["scenarios_with_state_change"]++
		}
		res.Counters["state_changes_observed"] += int64(d.changes)
		if sc.Idx%37 == 0 {
			res.Sample = map[string]interface{}{"scenario": sc.Idx, "planted_files": sc.Files, "ops": d.ops}
		}
		if d.w != nil {
			d.w.Close()
		}
		return res
	}
	// plant + wallet
	d.op("plant", "", "", func(o *opRec) *allow {
		al := newAllow()
		al.harness = true
		for i := range sc.Files {
			f := &sc.Files[i]
			if err := plantFile(d.dirs[f.Dir], f); err != nil {
				d.abort("plant: " + err.Error())
				return al
			}
			res.Counters["planted:"+f.Class]++
		}
		w, err := wl.Create(filepath.Join(root, "wallet"), []byte(pubPass), nil)
		if err != nil {
			d.abort("wallet create: " + err.Error())
			return al
		}
		d.w = w
		seed, _ := hex.DecodeString(sc.WalletSeed)
		if _, err := w.M.NewKeystore([]byte(privPass), seed, "c11", wl.Net(), wl.FastScrypt); err != nil {
			d.abort("NewKeystore: " + err.Error())
			return al
		}
		if err := w.M.Unlock([]byte(privPass)); err != nil {
			d.abort("Unlock: " + err.Error())
			return al
		}
		d.wallet = map[string]int{}
		for i := 0; i < sc.NKeys; i++ {
			pk, ord, err := w.M.GenerateNewPublicKey()
			if err != nil {
				d.abort("GenerateNewPublicKey: " + err.Error())
				return al
			}
			h := hex.EncodeToString(pk.SerializeCompressed())
			if int(ord) != i || h != sc.Keys[i] {
				d.abort(fmt.Sprintf("wallet issued key %d/%s, predicted %d/%s", ord, h, i, sc.Keys[i]))
				return al
			}
			d.wallet[h] = i
		}
		return al
	})
	if d.dead {
		return finish()
	}
	d.last = snap(d.dirs)
	if !d.construct("startup") {
		return finish()
	}
	if sc.SmallN > 0 {
		d.configureSmall(sc.SmallN)
		d.configureByFlags(engine.SFAll, false, d.rng.Chance(1, 3))
	}
	d.keeperStart()
	d.proofs()
	n := sc.NActions
	holdAt, mineAt := d.rng.Intn(n), d.rng.Intn(n)
	loseAt := -1
	if sc.Idx%3 == 1 {
		loseAt = d.rng.Intn(n)
	}
	for i := 0; i < n && !d.dead; i++ {
		if !d.started {
			d.keeperStart()
		}
		switch {
		case i == loseAt && d.loseMapAThenDelete():
		case i == holdAt && d.holdAttack():
		case i == mineAt && d.mineAttack():
		default:
			switch d.rng.Weighted(6, 4, 3, 2, 2, 2, 1) {
			case 0:
				d.randomSingle()
			case 1:
				d.bulk(engine.ActionType(d.rng.Weighted(3, 3, 3, 2, 2)), d.randFlags(), "")
			case 2:
				if d.canStep() {
					for k := d.rng.Range(1, 4); k > 0 && d.canStep(); k-- {
						d.step()
					}
				} else {
					d.randomSingle()
				}
			case 3:
				if !d.holdAttack() {
					d.randomSingle()
				}
			case 4:
				if !d.mineAttack() {
					d.randomSingle()
				}
			case 5:
				d.toggleKeeper()
			case 6:
				d.proofs()
			}
		}
	}
	d.restartCheck()
	return finish()
}

func childMain(args []string) {
	fs := flag.NewFlagSet("child", flag.ExitOnError)
	seed := fs.Int64("seed", 1, "")
	list := fs.String("cases", "", "")
	dir := fs.String("dir", "", "")
	trace := fs.Bool("trace", false, "")
	fs.Parse(args)
	wl.Setup(filepath.Join(*dir, "log"), "error")
	theGates.install()
	for _, s := range strings.Split(*list, ",") {
		i, err := strconv.Atoi(s)
		if err != nil || i < 0 {
			continue
		}
		sc := buildScenario(*seed, i)
		fmt.Printf("%s%d\n", startMark, i)
		r := runScenario(*seed, sc, filepath.Join(*dir, fmt.Sprintf("s%d", i)), *trace)
		b, _ := json.Marshal(r)
		fmt.Printf("%s%s\n", resultMark, b)
	}
}
