package main

// File-system side of the monitor: writing planted files, directory listings with content
// signatures, the model of the documented legacy rename, and the reference indexer that decides
// from the directory contents (names + headers + the wallet's key table) what a start-up scan is
// required to index. None of this calls the code under test.

import (
	"crypto/sha256"
	"encoding/binary"
	"encoding/hex"
	"fmt"
	"io"
	"os"
	"path/filepath"
	"regexp"
	"sort"
	"strconv"
	"strings"
	"syscall"

	"github.com/massnetorg/mass-core/pocec"
)

const fileCodeHex = "52A7AD74C4929DEC7B5C8D46CC3BAFA81FC96129283B3A6923CD12F41A30B3AC" // DoubleSHA256("MASSDB")

func dsha(b []byte) []byte {
	h1 := sha256.Sum256(b)
	h2 := sha256.Sum256(h1[:])
	return h2[:]
}

// buildHeader lays out the 4096-byte header as documented in hashmap.go.
func buildHeader(h *hdrSpec) []byte {
	b := make([]byte, 4096)
	code, _ := hex.DecodeString(fileCodeHex)
	if h.Code != "ok" {
		code[5] ^= 0x40
	}
	copy(b[0:], code)
	binary.LittleEndian.PutUint64(b[32:], h.Version)
	b[40] = byte(h.BL)
	b[41] = byte(h.Type)
	binary.LittleEndian.PutUint64(b[42:], h.CP)
	key, _ := hex.DecodeString(h.Key)
	hash := dsha(key)
	if !h.HashOK {
		hash[7] ^= 0x01
	}
	copy(b[50:], hash)
	copy(b[82:], key)
	return b
}

func plantFile(dir string, f *plantedFile) error {
	p := filepath.Join(dir, f.Name)
	switch f.Role {
	case "subdir":
		if err := os.MkdirAll(p, 0o755); err != nil {
			return err
		}
		return os.WriteFile(filepath.Join(p, "inner.massdb"), []byte("inner"), 0o644)
	case "junk":
		b, _ := hex.DecodeString(f.Junk)
		return os.WriteFile(p, b, 0o644)
	}
	var content []byte
	if f.Hdr != nil {
		content = buildHeader(f.Hdr)
	}
	if err := os.WriteFile(p, content, 0o644); err != nil {
		return err
	}
	if f.Size >= 0 && f.Size != int64(len(content)) {
		return os.Truncate(p, f.Size)
	}
	return nil
}

// ---------------------------------------------------------------------------------------------
// listings

type fent struct {
	Size int64  `json:"size"`
	Sig  string `json:"sig"`
	Dir  bool   `json:"dir,omitempty"`
}

type listing map[string]fent // "<dir index>/<relative path>"

func sigOf(p string, size int64) string {
	f, err := os.Open(p)
	if err != nil {
		return "unreadable:" + err.Error()
	}
	defer f.Close()
	h := sha256.New()
	if size <= 256<<10 {
		io.Copy(h, f)
	} else {
		// big files here are sparse: head, tail and the number of allocated blocks
		buf := make([]byte, 64<<10)
		n, _ := f.ReadAt(buf, 0)
		h.Write(buf[:n])
		n, _ = f.ReadAt(buf, size-int64(len(buf)))
		h.Write(buf[:n])
		var st syscall.Stat_t
		if syscall.Fstat(int(f.Fd()), &st) == nil {
			fmt.Fprintf(h, "blocks=%d", st.Blocks)
		}
	}
	return hex.EncodeToString(h.Sum(nil)[:12])
}

func snap(dirs []string) listing {
	l := listing{}
	for i, d := range dirs {
		filepath.Walk(d, func(p string, info os.FileInfo, err error) error {
			if err != nil || p == d {
				return nil
			}
			rel, _ := filepath.Rel(d, p)
			k := fmt.Sprintf("%d/%s", i, rel)
			if info.IsDir() {
				l[k] = fent{Dir: true}
				return nil
			}
			l[k] = fent{Size: info.Size(), Sig: sigOf(p, info.Size())}
			return nil
		})
	}
	return l
}

func (l listing) keys() []string {
	ks := make([]string, 0, len(l))
	for k := range l {
		ks = append(ks, k)
	}
	sort.Strings(ks)
	return ks
}

type fsDiff struct {
	Removed []string `json:"removed,omitempty"`
	Created []string `json:"created,omitempty"`
	Changed []string `json:"changed,omitempty"`
}

func (d fsDiff) empty() bool { return len(d.Removed)+len(d.Created)+len(d.Changed) == 0 }

func diffListing(a, b listing) fsDiff {
	var d fsDiff
	for _, k := range a.keys() {
		e, ok := b[k]
		switch {
		case !ok:
			d.Removed = append(d.Removed, k)
		case e != a[k]:
			d.Changed = append(d.Changed, k)
		}
	}
	for _, k := range b.keys() {
		if _, ok := a[k]; !ok {
			d.Created = append(d.Created, k)
		}
	}
	return d
}

func splitKey(k string) (dir int, rel string) {
	i := strings.IndexByte(k, '/')
	dir, _ = strconv.Atoi(k[:i])
	return dir, k[i+1:]
}

// ---------------------------------------------------------------------------------------------
// header reading

type hdrView struct {
	Short    bool
	CodeOK   bool
	Version  uint64
	BL       int
	Type     int
	CP       uint64
	KeyHex   string
	KeyValid bool
	HashOK   bool
	Size     int64
}

func readHeader(p string) (hdrView, error) {
	var v hdrView
	st, err := os.Lstat(p)
	if err != nil {
		return v, err
	}
	if !st.Mode().IsRegular() {
		return v, fmt.Errorf("not regular")
	}
	v.Size = st.Size()
	f, err := os.Open(p)
	if err != nil {
		return v, err
	}
	defer f.Close()
	b := make([]byte, 4096)
	if n, _ := io.ReadFull(f, b); n < 4096 {
		v.Short = true
		return v, nil
	}
	code, _ := hex.DecodeString(fileCodeHex)
	v.CodeOK = string(b[:32]) == string(code)
	v.Version = binary.LittleEndian.Uint64(b[32:])
	v.BL, v.Type = int(b[40]), int(b[41])
	v.CP = binary.LittleEndian.Uint64(b[42:])
	v.KeyHex = hex.EncodeToString(b[82:115])
	_, perr := pocec.ParsePubKey(b[82:115], pocec.S256())
	v.KeyValid = perr == nil
	v.HashOK = string(dsha(b[82:115])) == string(b[50:82])
	return v, nil
}

// ---------------------------------------------------------------------------------------------
// directory view, legacy-rename model, reference indexer

type vent struct {
	Dir      int
	Name     string // name the scan will see (after the documented legacy rename)
	OnDisk   string // name on disk when the view was taken
	IsDir    bool
	ViaLegcy bool
}

var (
	reCanon  = regexp.MustCompile(`(?i)^(\d+)_([0-9a-f]{66})_(\d{2})(_a)?\.massdb$`)
	reLegacy = regexp.MustCompile(`(?i)^([0-9a-f]{66})-(\d{2})-([ab])\.massdb$`)
)

func blAllowed(bl int) bool { return bl >= 24 && bl <= 40 && bl%2 == 0 }

func keyValid(hexKey string) bool {
	b, err := hex.DecodeString(hexKey)
	if err != nil {
		return false
	}
	_, err = pocec.ParsePubKey(b, pocec.S256())
	return err == nil
}

type renameModel struct {
	Renames    map[string]string // listing key old -> new
	Collisions map[string]string // legacy file whose target name is taken: old -> existing target
}

// scanView lists the top level of every directory and applies the documented legacy rename:
// `<pubkey>-<bl>-B.MASSDB` / `-A.MASSDB` (matched case-insensitively, bit length allowed by the
// chain, key owned by the wallet) becomes `<ordinal>_<pubkey as written>_<bl>[_a].massdb`.
// Where the target name already exists the model expects no rename (nothing may be destroyed).
func scanView(dirs []string, wallet map[string]int) ([][]vent, renameModel) {
	rm := renameModel{Renames: map[string]string{}, Collisions: map[string]string{}}
	view := make([][]vent, len(dirs))
	for i, d := range dirs {
		ents, _ := os.ReadDir(d)
		names := map[string]bool{}
		for _, e := range ents {
			names[e.Name()] = true
		}
		for _, e := range ents {
			v := vent{Dir: i, Name: e.Name(), OnDisk: e.Name(), IsDir: e.IsDir()}
			if m := reLegacy.FindStringSubmatch(e.Name()); m != nil && !e.IsDir() {
				bl, _ := strconv.Atoi(m[2])
				ord, owned := wallet[strings.ToLower(m[1])]
				if blAllowed(bl) && keyValid(m[1]) && owned {
					tag := ""
					if strings.EqualFold(m[3], "a") {
						tag = "_a"
					}
					nn := fmt.Sprintf("%d_%s_%d%s.massdb", ord, m[1], bl, tag)
					ko, kn := fmt.Sprintf("%d/%s", i, e.Name()), fmt.Sprintf("%d/%s", i, nn)
					if names[nn] {
						rm.Collisions[ko] = kn
					} else {
						rm.Renames[ko] = kn
						names[nn] = true
						v.Name, v.ViaLegcy = nn, true
					}
				}
			}
			view[i] = append(view[i], v)
		}
		sort.Slice(view[i], func(a, b int) bool { return view[i][a].Name < view[i][b].Name })
	}
	return view, rm
}

type expEntry struct {
	SID     string `json:"sid"`
	Dir     int    `json:"dir"`
	Name    string `json:"name"`
	OnDisk  string `json:"name_on_disk"`
	Expect  string `json:"expect"` // ready | registered | not-indexed | either
	Reason  string `json:"failing_check,omitempty"`
	Trigger string `json:"trigger,omitempty"`
}

func nameTrigger(name string, ordStr string, viaLegacy bool) string {
	t := ""
	if name != strings.ToLower(name) {
		t = trigCase
	} else if len(ordStr) > 1 && ordStr[0] == '0' {
		t = trigZeros
	}
	return t
}

// refIndex: what the statement requires of a start-up scan over this view.
// A map-B candidate is a top-level entry whose name has the canonical shape (the keeper's own
// name check is case-insensitive and accepts any decimal ordinal, so those are accepted as names).
func refIndex(dirs []string, view [][]vent, wallet map[string]int) []expEntry {
	var out []expEntry
	accepted := map[string]bool{}
	for di := range view {
		byFold := map[string][]vent{}
		for _, v := range view[di] {
			byFold[strings.ToLower(v.Name)] = append(byFold[strings.ToLower(v.Name)], v)
		}
		for _, v := range view[di] {
			m := reCanon.FindStringSubmatch(v.Name)
			if m == nil || m[4] != "" {
				continue
			}
			bl, _ := strconv.Atoi(m[3])
			key := strings.ToLower(m[2])
			e := expEntry{SID: sidOf(key, bl), Dir: di, Name: v.Name, OnDisk: v.OnDisk, Trigger: nameTrigger(v.Name, m[1], v.ViaLegcy)}
			rej := func(r string) { e.Expect, e.Reason = "not-indexed", r; out = append(out, e) }
			ord, err := strconv.Atoi(m[1])
			if err != nil {
				rej("ordinal-in-name-unparseable")
				continue
			}
			if !keyValid(key) {
				rej("name-key-not-a-public-key")
				continue
			}
			if !blAllowed(bl) {
				rej("bit-length-in-name-not-allowed")
				continue
			}
			if v.IsDir {
				rej("not-a-regular-file")
				continue
			}
			h, herr := readHeader(filepath.Join(dirs[di], v.OnDisk))
			switch {
			case herr != nil:
				rej("not-a-regular-file")
				continue
			case h.Short:
				rej("shorter-than-header")
				continue
			case !h.CodeOK:
				rej("header-file-code")
				continue
			case h.Version != 1:
				rej("header-version")
				continue
			case h.Type != typeB:
				rej("header-type-byte")
				continue
			case !h.KeyValid:
				rej("header-pubkey-bytes")
				continue
			case !h.HashOK:
				rej("header-pubkey-hash")
				continue
			case h.KeyHex != key:
				rej("header-pubkey-differs-from-name")
				continue
			case h.BL != bl:
				rej("header-bitlength-differs-from-name")
				continue
			}
			wo, owned := wallet[key]
			if !owned {
				rej("key-not-in-wallet")
				continue
			}
			if wo != ord {
				rej("ordinal-in-name-is-not-the-wallets")
				continue
			}
			if accepted[e.SID] {
				rej("duplicate-of-earlier-directory")
				continue
			}
			half := uint64(1) << uint(bl-1)
			if h.CP >= half {
				e.Expect = "ready"
				if h.Size < fullSize(typeB, bl) && h.Size > 4096 {
					e.Expect, e.Reason = "either", "table-truncated"
				}
				accepted[e.SID] = true
				out = append(out, e)
				continue
			}
			// unplotted: the map-A file of the pair must be there and be that space's map A
			stem := v.Name[:len(v.Name)-len(".massdb")]
			as := byFold[strings.ToLower(stem+"_a.massdb")]
			if len(as) == 0 {
				e.Expect, e.Reason = "either", "map-a-missing"
				if e.Trigger == "" {
					e.Trigger = trigNoA
				}
				accepted[e.SID] = true // if it is indexed it is this one
				out = append(out, e)
				continue
			}
			ha, aerr := readHeader(filepath.Join(dirs[di], as[0].OnDisk))
			if as[0].IsDir || aerr != nil || ha.Short || !ha.CodeOK || ha.Version != 1 || ha.Type != typeA || !ha.KeyValid || !ha.HashOK || ha.KeyHex != key || ha.BL != bl {
				rej("map-a-file-invalid")
				continue
			}
			e.Expect = "registered"
			accepted[e.SID] = true
			out = append(out, e)
		}
	}
	return out
}
