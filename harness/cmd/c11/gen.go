package main

// Seeded generator of plot-directory contents. A scenario is a pure function of (seed, index):
// a wallet seed (the plot keys the wallet will issue are predicted with an independent BIP32
// walk, wl.Derive, and checked against what the wallet really issues), 1-3 directories, and a
// list of planted files, each with the class it was drawn from, the exact header fields written,
// and what the generator INTENDS the start-up scan to do with it (Expect/Reason).

import (
	"encoding/hex"
	"fmt"
	"strings"

	"github.com/massnetorg/mass-core/pocec"
	massdb_v1 "massnet.org/mass/poc/engine/massdb/massdb.v1"
	"verif/harness/internal/vh"
	"verif/harness/internal/wl"
)

const (
	trigCase    = "file-name-differs-from-canonical-only-by-letter-case"
	trigZeros   = "file-name-differs-from-canonical-only-by-leading-zeros-in-ordinal"
	trigNoA     = "map-A-file-missing-for-unplotted-map-B"
	trigCollide = "legacy-name-and-canonical-name-both-present"
)

var (
	typeA = int(massdb_v1.MapTypeHashMapA)
	typeB = int(massdb_v1.MapTypeHashMapB)
)

type hdrSpec struct {
	Code    string `json:"file_code"` // ok | bad
	Version uint64 `json:"version"`
	BL      int    `json:"bit_length"`
	Type    int    `json:"type_byte"`
	CP      uint64 `json:"checkpoint"`
	Key     string `json:"pubkey_hex"`
	HashOK  bool   `json:"pubkey_hash_ok"`
}

type plantedFile struct {
	Dir   int      `json:"dir"`
	Name  string   `json:"name"`
	Class string   `json:"class"`
	Role  string   `json:"role"` // B | A | junk | subdir
	Hdr   *hdrSpec `json:"header,omitempty"`
	Size  int64    `json:"size"`
	Junk  string   `json:"junk_hex,omitempty"`
	// intention of the generator, for files that are (or name) a map-B candidate
	Expect  string `json:"expect,omitempty"` // ready | registered | not-indexed | either
	Reason  string `json:"failing_check,omitempty"`
	SID     string `json:"would_be_sid,omitempty"`
	Trigger string `json:"trigger,omitempty"`
	Renamed string `json:"name_after_legacy_rename,omitempty"`
}

type scenario struct {
	Idx        int           `json:"idx"`
	WalletSeed string        `json:"wallet_seed_hex"`
	NKeys      int           `json:"wallet_keys_issued"`
	Keys       []string      `json:"-"`
	NDirs      int           `json:"dirs"`
	Files      []plantedFile `json:"files"`
	SmallBL    int           `json:"small_bl"`
	SmallN     int           `json:"small_n"`
	NActions   int           `json:"actions"`
}

func rootRng(seed int64) *vh.Rng { return vh.NewRng(uint64(seed)).Derive(propID, 0) }

type gen struct {
	rng     *vh.Rng
	sc      *scenario
	nextKey int
}

func (g *gen) walletKey() (int, string) {
	o := g.nextKey
	g.nextKey++
	return o, g.sc.Keys[o]
}

func (g *gen) foreignKey() string {
	for {
		b := g.rng.Bytes(32)
		b[0] &= 0x7f
		_, pub := pocec.PrivKeyFromBytes(pocec.S256(), b)
		if pub != nil && pub.X != nil && pub.X.Sign() != 0 {
			return hex.EncodeToString(pub.SerializeCompressed())
		}
	}
}

func recSize(bl int) int64 { return int64((bl + 7) >> 3) }

func fullSize(typ int, bl int) int64 {
	if typ == typeA {
		return 4096 + recSize(bl)<<uint(bl)
	}
	return 4096 + 2*recSize(bl)<<uint(bl)
}

// sparseSize: full apparent size where that is harmless, header-only otherwise.
func sparseSize(typ, bl int) int64 {
	if bl <= 32 {
		return fullSize(typ, bl)
	}
	return 4096
}

func (g *gen) bigBL() int {
	return []int{24, 24, 24, 24, 24, 26, 26, 28, 30, 32, 36, 40}[g.rng.Intn(12)]
}

func canonB(ord int, key string, bl int) string { return fmt.Sprintf("%d_%s_%d.massdb", ord, key, bl) }
func canonA(ord int, key string, bl int) string {
	return fmt.Sprintf("%d_%s_%d_a.massdb", ord, key, bl)
}
func sidOf(key string, bl int) string { return strings.ToLower(key) + "-" + fmt.Sprint(bl) }

func mixCase(rng *vh.Rng, s string) string {
	b := []byte(s)
	changed := false
	for i, c := range b {
		if c >= 'a' && c <= 'z' && rng.Bool() {
			b[i] = c - 32
			changed = true
		}
	}
	if !changed {
		for i, c := range b {
			if c >= 'a' && c <= 'z' {
				b[i] = c - 32
				break
			}
		}
	}
	return string(b)
}

// names returns the map-B and map-A file names of a space in the given style, the trigger the
// style stands for, and (legacy styles) the name the documented rename gives the map-B file.
func (g *gen) names(style string, ord int, key string, bl int) (nb, na, trig, renamedB string) {
	cb, ca := canonB(ord, key, bl), canonA(ord, key, bl)
	switch style {
	case "canonical":
		return cb, ca, "", ""
	case "upper":
		return strings.ToUpper(cb), strings.ToUpper(ca), trigCase, ""
	case "mixed":
		switch g.rng.Intn(3) {
		case 0: // upper-case key only
			u := strings.ToUpper(key)
			return canonB(ord, u, bl), canonA(ord, u, bl), trigCase, ""
		case 1: // upper-case extension only
			return strings.TrimSuffix(cb, ".massdb") + ".MASSDB", strings.TrimSuffix(ca, "_a.massdb") + "_a.MASSDB", trigCase, ""
		default:
			return mixCase(g.rng, cb), mixCase(g.rng, ca), trigCase, ""
		}
	case "zeros":
		z := strings.Repeat("0", g.rng.Range(1, 2))
		return z + cb, z + ca, trigZeros, ""
	case "legacy-lower": // lower-case key: the documented rename yields the canonical name
		sfxB, sfxA := "-B.MASSDB", "-A.MASSDB"
		if g.rng.Bool() {
			sfxB, sfxA = "-b.massdb", "-a.massdb"
		}
		return fmt.Sprintf("%s-%d%s", key, bl, sfxB), fmt.Sprintf("%s-%d%s", key, bl, sfxA), "", cb
	case "legacy-upper": // upper-case key: the rename keeps the case of the key
		u := strings.ToUpper(key)
		return fmt.Sprintf("%s-%d-B.MASSDB", u, bl), fmt.Sprintf("%s-%d-A.MASSDB", u, bl), trigCase, canonB(ord, u, bl)
	}
	panic("style " + style)
}

// progress builds the headers of a space's pair for a recorded progress.
// prog: unplotted | plotted | partial | cheap (bl 24, one tiny window of pass B left)
func (g *gen) progress(prog string, key string, bl int) (a, b *hdrSpec, sizeA, sizeB int64, expect string) {
	vol := uint64(1) << uint(bl)
	half := vol / 2
	mk := func(t int, cp uint64) *hdrSpec {
		return &hdrSpec{Code: "ok", Version: 1, BL: bl, Type: t, CP: cp, Key: key, HashOK: true}
	}
	switch prog {
	case "unplotted":
		cpA := uint64(0)
		if g.rng.Chance(1, 4) {
			cpA = 1 + g.rng.Uint64()%(vol-1)
		}
		return mk(typeA, cpA), mk(typeB, 0), 4096, 4096, "registered"
	case "plotted":
		cp := half
		switch g.rng.Intn(4) {
		case 0:
			cp = half + 1 + g.rng.Uint64()%half
		case 1:
			cp = ^uint64(0)
		}
		return nil, mk(typeB, cp), 0, sparseSize(typeB, bl), "ready"
	case "partial":
		if g.rng.Bool() { // pass A under way
			return mk(typeA, 1+g.rng.Uint64()%(vol-1)), mk(typeB, 0), 4096 + int64(g.rng.Intn(3))*4096, 4096, "registered"
		}
		// pass A complete, pass B under way: "ready" must come from map B, not from map A
		cpB := 1 + g.rng.Uint64()%(half-1)
		if g.rng.Chance(1, 3) {
			cpB = half - 1
		}
		return mk(typeA, vol), mk(typeB, cpB), 4096, 4096 + int64(g.rng.Intn(3))*4096, "registered"
	case "cheap":
		return mk(typeA, vol), mk(typeB, half-uint64(g.rng.Range(1, 16))), fullSize(typeA, bl), fullSize(typeB, bl), "registered"
	}
	panic("prog " + prog)
}

func (g *gen) add(f plantedFile) int {
	g.sc.Files = append(g.sc.Files, f)
	return len(g.sc.Files) - 1
}

// space plants one space's pair. Returns the index of the map-B file.
func (g *gen) space(class string, dir int, style string, nameOrd int, nameKey string, nameBL int, hdrKey string, hdrBL int, prog string) int {
	if hdrKey == "" {
		hdrKey = nameKey
	}
	if hdrBL == 0 {
		hdrBL = nameBL
	}
	nb, na, trig, renamed := g.names(style, nameOrd, nameKey, nameBL)
	a, b, sa, sb, expect := g.progress(prog, hdrKey, hdrBL)
	if a != nil {
		g.add(plantedFile{Dir: dir, Name: na, Class: class, Role: "A", Hdr: a, Size: sa})
	}
	return g.add(plantedFile{Dir: dir, Name: nb, Class: class, Role: "B", Hdr: b, Size: sb, Expect: expect, SID: sidOf(nameKey, nameBL), Trigger: trig, Renamed: renamed})
}

func (g *gen) anyProg(bl int) string {
	switch g.rng.Intn(3) {
	case 0:
		return "unplotted"
	case 1:
		return "plotted"
	}
	return "partial"
}

func (g *gen) reject(i int, reason string) {
	g.sc.Files[i].Expect, g.sc.Files[i].Reason = "not-indexed", reason
}

var classWeights = []struct {
	name string
	w    int
}{
	{"valid-unplotted", 10}, {"valid-plotted", 13}, {"valid-partial", 5}, {"valid-cheap-to-finish", 5},
	{"renamed-ordinal", 4}, {"renamed-key", 4}, {"renamed-bitlength", 4}, {"foreign-key", 4},
	{"bad-file-code", 2}, {"bad-version", 2}, {"bad-type-byte", 3}, {"bad-pubkey-hash", 2}, {"bad-pubkey-bytes", 1},
	{"truncated-below-header", 3}, {"truncated-above-header", 2}, {"zero-length", 2},
	{"map-b-without-map-a", 2}, {"map-a-without-map-b", 2}, {"duplicate-across-dirs", 5},
	{"legacy-name", 5}, {"legacy-name-foreign-or-bad", 2}, {"upper-case-name", 4}, {"mixed-case-name", 3},
	{"junk", 5}, {"bad-bitlength-in-name", 4}, {"leading-zero-ordinal", 1}, {"legacy-name-collides-with-canonical", 1},
}

func (g *gen) pickClass() string {
	w := make([]int, len(classWeights))
	for i, c := range classWeights {
		w[i] = c.w
	}
	return classWeights[g.rng.Weighted(w...)].name
}

func (g *gen) item(class string) {
	rng := g.rng
	dir := rng.Intn(g.sc.NDirs)
	switch class {
	case "valid-unplotted":
		o, k := g.walletKey()
		g.space(class, dir, "canonical", o, k, g.bigBL(), k, 0, "unplotted")
	case "valid-plotted":
		o, k := g.walletKey()
		g.space(class, dir, "canonical", o, k, g.bigBL(), k, 0, "plotted")
	case "valid-partial":
		o, k := g.walletKey()
		g.space(class, dir, "canonical", o, k, g.bigBL(), k, 0, "partial")
	case "valid-cheap-to-finish":
		o, k := g.walletKey()
		g.space(class, dir, "canonical", o, k, 24, k, 0, "cheap")
	case "renamed-ordinal":
		o, k := g.walletKey()
		wrong := o + 1 + rng.Intn(3)
		if o > 0 && rng.Bool() {
			wrong = rng.Intn(o)
		}
		g.reject(g.space(class, dir, "canonical", wrong, k, g.bigBL(), k, 0, g.anyProg(0)), "ordinal-in-name-is-not-the-wallets")
	case "renamed-key":
		_, k1 := g.walletKey()
		if rng.Chance(1, 3) {
			k1 = g.foreignKey()
		}
		o2, k2 := g.walletKey()
		g.reject(g.space(class, dir, "canonical", o2, k2, g.bigBL(), k1, 0, g.anyProg(0)), "header-pubkey-differs-from-name")
	case "renamed-bitlength":
		o, k := g.walletKey()
		bl1 := g.bigBL()
		bl2 := g.bigBL()
		for bl2 == bl1 {
			bl2 = g.bigBL()
		}
		g.reject(g.space(class, dir, "canonical", o, k, bl2, k, bl1, g.anyProg(0)), "header-bitlength-differs-from-name")
	case "foreign-key":
		g.reject(g.space(class, dir, "canonical", rng.Intn(6), g.foreignKey(), g.bigBL(), "", 0, g.anyProg(0)), "key-not-in-wallet")
	case "bad-file-code", "bad-version", "bad-type-byte", "bad-pubkey-hash", "bad-pubkey-bytes":
		o, k := g.walletKey()
		i := g.space(class, dir, "canonical", o, k, g.bigBL(), k, 0, g.anyProg(0))
		h := g.sc.Files[i].Hdr
		switch class {
		case "bad-file-code":
			h.Code = "bad"
		case "bad-version":
			h.Version = []uint64{0, 2, 1 << 32, ^uint64(0)}[rng.Intn(4)]
		case "bad-type-byte":
			h.Type = []int{typeA, 0, 3, 255}[rng.Intn(4)]
		case "bad-pubkey-hash":
			h.HashOK = false
		case "bad-pubkey-bytes":
			h.Key = "05" + h.Key[2:]
		}
		g.reject(i, "header-"+strings.TrimPrefix(class, "bad-"))
	case "truncated-below-header":
		o, k := g.walletKey()
		i := g.space(class, dir, "canonical", o, k, g.bigBL(), k, 0, "plotted")
		g.sc.Files[i].Size = int64([]int{1, 81, 115, 4095}[rng.Intn(4)])
		g.reject(i, "shorter-than-header")
	case "zero-length":
		o, k := g.walletKey()
		i := g.space(class, dir, "canonical", o, k, g.bigBL(), k, 0, "plotted")
		g.sc.Files[i].Size, g.sc.Files[i].Hdr = 0, nil
		g.reject(i, "shorter-than-header")
	case "truncated-above-header":
		// The statement does not say whether a complete-by-header file that lost its table is
		// "well-formed" (a fresh file is itself header-only): either decision is accepted, but it
		// must not kill the process and cannot serve a proof.
		o, k := g.walletKey()
		i := g.space(class, dir, "canonical", o, k, g.bigBL(), k, 0, "plotted")
		g.sc.Files[i].Size = 4096 + int64(rng.Range(1, 5000))
		g.sc.Files[i].Expect, g.sc.Files[i].Reason = "either", "table-truncated"
	case "map-b-without-map-a":
		o, k := g.walletKey()
		i := g.space(class, dir, "canonical", o, k, g.bigBL(), k, 0, []string{"unplotted", "partial"}[rng.Intn(2)])
		// drop the map-A file that was just planted
		fs := g.sc.Files
		g.sc.Files = append(fs[:i-1], fs[i])
		f := &g.sc.Files[i-1]
		f.Expect, f.Reason, f.Trigger = "either", "map-a-missing", trigNoA
	case "map-a-without-map-b":
		o, k := g.walletKey()
		bl := g.bigBL()
		i := g.space(class, dir, "canonical", o, k, bl, k, 0, "unplotted")
		g.sc.Files = g.sc.Files[:i] // keep A only
		a := &g.sc.Files[i-1]
		a.Expect, a.Reason, a.SID = "not-indexed", "no-map-b-file", sidOf(k, bl)
	case "duplicate-across-dirs":
		if g.sc.NDirs < 2 {
			g.item("valid-plotted")
			return
		}
		d1 := rng.Intn(g.sc.NDirs - 1)
		d2 := d1 + 1 + rng.Intn(g.sc.NDirs-1-d1)
		o, k := g.walletKey()
		bl := g.bigBL()
		p1, p2 := g.anyProg(0), g.anyProg(0)
		i1 := g.space(class, d1, "canonical", o, k, bl, k, 0, p1)
		i2 := g.space(class, d2, "canonical", o, k, bl, k, 0, p2)
		if rng.Chance(1, 4) {
			// the earlier copy is broken: then the later one is the space
			g.sc.Files[i1].Hdr.Code = "bad"
			g.reject(i1, "header-file-code")
		} else {
			g.reject(i2, "duplicate-of-earlier-directory")
		}
	case "legacy-name":
		o, k := g.walletKey()
		g.space(class, dir, []string{"legacy-lower", "legacy-upper"}[rng.Intn(2)], o, k, g.bigBL(), k, 0, g.anyProg(0))
	case "legacy-name-foreign-or-bad":
		if rng.Bool() {
			k := g.foreignKey()
			i := g.space(class, dir, "legacy-upper", 0, k, g.bigBL(), k, 0, g.anyProg(0))
			g.reject(i, "legacy-name-not-renamed:key-not-in-wallet")
			g.sc.Files[i].Trigger, g.sc.Files[i].Renamed = "", ""
		} else {
			_, k := g.walletKey()
			bl := []int{22, 25, 42}[rng.Intn(3)]
			i := g.space(class, dir, "legacy-lower", 0, k, bl, k, 0, "unplotted")
			g.reject(i, "legacy-name-not-renamed:bit-length-not-allowed")
			g.sc.Files[i].Trigger, g.sc.Files[i].Renamed = "", ""
		}
	case "upper-case-name":
		o, k := g.walletKey()
		g.space(class, dir, "upper", o, k, g.bigBL(), k, 0, g.anyProg(0))
	case "mixed-case-name":
		o, k := g.walletKey()
		g.space(class, dir, "mixed", o, k, g.bigBL(), k, 0, g.anyProg(0))
	case "leading-zero-ordinal":
		o, k := g.walletKey()
		g.space(class, dir, "zeros", o, k, g.bigBL(), k, 0, g.anyProg(0))
	case "bad-bitlength-in-name":
		o, k := g.walletKey()
		bl := []int{22, 25, 42, 23, 10}[rng.Intn(5)]
		i := g.space(class, dir, "canonical", o, k, bl, k, 0, "unplotted")
		g.sc.Files[i].Size, g.sc.Files[i-1].Size = 4096, 4096
		g.reject(i, "bit-length-in-name-not-allowed")
	case "legacy-name-collides-with-canonical":
		o, k := g.walletKey()
		bl := g.bigBL()
		ic := g.space(class, dir, "canonical", o, k, bl, k, 0, "plotted")
		il := g.space(class, dir, "legacy-lower", o, k, bl, k, 0, "unplotted")
		g.sc.Files[ic].Trigger = trigCollide
		// documented rename must not destroy the existing canonical file: the legacy pair stays unindexed
		g.reject(il, "legacy-name-not-renamed:target-exists")
		g.sc.Files[il].Trigger, g.sc.Files[il].Renamed = trigCollide, ""
	case "junk":
		switch rng.Intn(6) {
		case 0:
			g.add(plantedFile{Dir: dir, Name: fmt.Sprintf("notes-%d.txt", rng.Intn(1000)), Class: class, Role: "junk", Junk: hex.EncodeToString(rng.Bytes(rng.Range(0, 200))), Size: -1})
		case 1:
			g.add(plantedFile{Dir: dir, Name: fmt.Sprintf("x%d.massdb", rng.Intn(1000)), Class: class, Role: "junk", Junk: hex.EncodeToString(rng.Bytes(rng.Range(0, 5000))), Size: -1})
		case 2:
			g.add(plantedFile{Dir: dir, Name: fmt.Sprintf("0_%s_24.massdb", strings.Repeat("zz", 33)), Class: class, Role: "junk", Junk: hex.EncodeToString(rng.Bytes(64)), Size: -1})
		case 3:
			g.add(plantedFile{Dir: dir, Name: fmt.Sprintf("sub%d", rng.Intn(1000)), Class: class, Role: "subdir"})
		case 4: // a directory carrying the name of an owned space
			o, k := g.walletKey()
			bl := g.bigBL()
			g.add(plantedFile{Dir: dir, Name: canonB(o, k, bl), Class: "directory-named-like-plot-file", Role: "subdir", Expect: "not-indexed", Reason: "not-a-regular-file", SID: sidOf(k, bl)})
		case 5: // key of the right length that is no curve point
			bad := "02" + strings.Repeat("ff", 32)
			g.add(plantedFile{Dir: dir, Name: canonB(0, bad, 24), Class: "name-key-not-on-curve", Role: "junk", Junk: hex.EncodeToString(rng.Bytes(4096)), Size: -1})
		}
	default:
		panic("class " + class)
	}
}

func buildScenario(seed int64, idx int) *scenario {
	rng := rootRng(seed).Derive("scenario", idx)
	sc := &scenario{Idx: idx, NDirs: 1 + rng.Intn(3)}
	ws := rng.Bytes(32)
	sc.WalletSeed = hex.EncodeToString(ws)
	der, err := wl.Derive(ws)
	for err != nil { // astronomically unlikely
		ws = rng.Bytes(32)
		sc.WalletSeed = hex.EncodeToString(ws)
		der, err = wl.Derive(ws)
	}
	for i := 0; i < 48; i++ {
		sc.Keys = append(sc.Keys, der.PubHex(0, uint32(i)))
	}
	g := &gen{rng: rng, sc: sc}
	n := rng.Range(5, 10)
	for i := 0; i < n && g.nextKey < 30; i++ {
		switch {
		case i == 0 && rng.Chance(3, 4):
			g.item("valid-plotted")
		case i == 1 && rng.Chance(1, 2):
			g.item("valid-unplotted")
		default:
			g.item(g.pickClass())
		}
	}
	sc.NKeys = g.nextKey + rng.Intn(3)
	if sc.NKeys == 0 {
		sc.NKeys = 1
	}
	sc.SmallBL = []int{12, 12, 14, 16}[rng.Intn(4)]
	sc.SmallN = rng.Range(1, 3)
	if rng.Chance(1, 8) {
		sc.SmallN = 0
	}
	sc.NActions = rng.Range(8, 12)
	return sc
}

func (sc *scenario) specHash() uint64 {
	parts := [][]byte{[]byte(sc.WalletSeed), []byte(fmt.Sprint(sc.NDirs, sc.NKeys, sc.SmallBL, sc.SmallN))}
	for _, f := range sc.Files {
		h := ""
		if f.Hdr != nil {
			h = fmt.Sprintf("%+v", *f.Hdr)
		}
		parts = append(parts, []byte(fmt.Sprintf("%d/%s/%s/%s/%d/%s", f.Dir, f.Name, f.Role, h, f.Size, f.Junk)))
	}
	return vh.Hash64(parts...)
}
