// c12: wallet operations are atomic under crashes and storage errors.
// Part 1 (fault enumeration): for every operation of every seeded history the number of bucket writes w and commits
// c is first measured on a copy of the store; the operation is then replayed once per fault point on a fresh copy:
// failed k-th write (k<=w), and for every commit: failed commit, crash before commit, crash after commit (a sentinel
// panic abandons the instance). After each: the store is reopened WITHOUT faults and must open and show either the
// complete effect of the operation or none of it (observable snapshot + which private passphrase each keystore
// accepts + which public passphrase opens it); an operation that returned an error must leave the running instance
// equal to the prior state; an operation that reported success must be visible after reopening.
// Part 2 (real kills): a child process executes a history, acknowledging each operation; the parent SIGKILLs it at
// a seeded moment; the reopened store must equal the acknowledged prefix or that prefix plus the in-flight operation.
package main

import (
	"crypto/sha256"
	"encoding/hex"
	"encoding/json"
	"flag"
	"fmt"
	"os"
	"os/exec"
	"path/filepath"
	"runtime"
	"sort"
	"strings"
	"sync"
	"syscall"
	"time"

	"massnet.org/mass/poc/wallet/db"
	"verif/harness/internal/vh"
	"verif/harness/internal/wl"
)

// COp is one concrete wallet operation (all arguments fixed), serialisable for the child process.
type COp struct {
	Kind   string `json:"kind"`
	ID     string `json:"id,omitempty"`
	Seed   string `json:"seed,omitempty"`
	Pass   string `json:"pass,omitempty"`
	New    string `json:"new,omitempty"`
	N      int    `json:"n,omitempty"`
	Int    bool   `json:"int,omitempty"`
	Remark string `json:"remark,omitempty"`
	JSON   string `json:"json,omitempty"`
	Unlock bool   `json:"unlock,omitempty"` // unlock with Priv before the operation
	Priv   string `json:"priv,omitempty"`   // current private passphrase (for the preparatory unlock)
}

func (o COp) String() string {
	c := o
	if len(c.JSON) > 20 {
		c.JSON = c.JSON[:20] + "..."
	}
	b, _ := json.Marshal(c)
	return string(b)
}

// Exec runs the operation on w; ack = the call reported success.
func (o COp) Exec(w *wl.Wallet) (ack bool, err error) {
	switch o.Kind {
	case "create":
		seed, _ := hex.DecodeString(o.Seed)
		_, err = w.M.NewKeystore([]byte(o.Pass), seed, o.Remark, wl.Net(), wl.FastScrypt)
	case "import":
		_, _, err = w.M.ImportKeystore([]byte(o.JSON), []byte(o.Pass), []byte(o.New))
	case "delete":
		var ok bool
		ok, err = w.M.DeleteKeystore(o.ID, []byte(o.Pass))
		return ok && err == nil, err
	case "next":
		_, err = w.M.NextAddresses(o.ID, o.Int, uint32(o.N))
	case "genpub":
		_, _, err = w.M.GenerateNewPublicKey()
	case "remark":
		err = w.M.ChangeRemark(o.ID, o.Remark)
	case "chpriv":
		err = w.M.ChangePrivPassphrase([]byte(o.Pass), []byte(o.New), wl.FastScrypt)
	case "chpub":
		err = w.M.ChangePubPassphrase([]byte(o.Pass), []byte(o.New), wl.FastScrypt)
	default:
		panic("unknown op " + o.Kind)
	}
	return err == nil, err
}

// Ext is the extended observable state used to decide "complete effect or none".
type Ext struct {
	Snap    wl.Snap
	Accepts map[string]string // keystore id -> which of the candidate private passphrases it accepts ("old","new","old+new","none")
	Pub     string            // which candidate public passphrase opened the store
}

func (a Ext) Equal(b Ext) string {
	if d := wl.Diff(a.Snap, b.Snap); d != "" {
		return d
	}
	for id, v := range a.Accepts {
		if b.Accepts[id] != v {
			return fmt.Sprintf("keystore %s accepts private passphrase %q vs %q", id, v, b.Accepts[id])
		}
	}
	if a.Pub != b.Pub {
		return fmt.Sprintf("opens with public passphrase %q vs %q", a.Pub, b.Pub)
	}
	return ""
}

func accepts(w *wl.Wallet, cands map[string][]byte) map[string]string {
	out := map[string]string{}
	names := w.M.ListKeystoreNames()
	keys := make([]string, 0, len(cands))
	for k := range cands {
		keys = append(keys, k)
	}
	sort.Strings(keys)
	for _, id := range names {
		var acc []string
		for _, k := range keys {
			if _, err := w.M.ExportKeystore(id, cands[k]); err == nil {
				acc = append(acc, k)
			}
		}
		if len(acc) == 0 {
			out[id] = "none"
		} else {
			out[id] = strings.Join(acc, "+")
		}
	}
	// a passphrase every keystore accepts must also unlock the wallet (the acceptance above only derives the master
	// key; unlocking decrypts what that key protects)
	for _, k := range keys {
		all := len(names) > 0
		for _, id := range names {
			all = all && strings.Contains("+"+out[id]+"+", "+"+k+"+")
		}
		if !all {
			continue
		}
		if err := w.M.Unlock(cands[k]); err != nil {
			out[unlockKey] = fmt.Sprintf("passphrase %q is accepted by every keystore but does not unlock the wallet: %v", k, err)
		}
		w.M.Lock()
	}
	return out
}

// unlockKey is the entry of an acceptance map that reports a wallet no accepted passphrase unlocks.
const unlockKey = "<unlock>"

// replayWatchdog bounds one replay of one operation (normally milliseconds to a second).
const replayWatchdog = 120 * time.Second

var (
	hungMu  sync.Mutex
	hungOps = map[string]int{}
)

// openExt reopens dir without faults, trying the candidate public passphrases, and reads the extended state.
func openExt(dir string, pubs map[string][]byte, privs map[string][]byte) (ext Ext, err error) {
	// a store left half-written can make the loader itself panic: that is "the wallet does not open", not a harness crash
	defer func() {
		if r := recover(); r != nil {
			err = fmt.Errorf("panic while opening the wallet: %v", r)
		}
	}()
	var lastErr error
	keys := make([]string, 0, len(pubs))
	for k := range pubs {
		keys = append(keys, k)
	}
	sort.Strings(keys)
	for _, k := range keys {
		w, err := wl.Open(dir, pubs[k], nil)
		if err != nil {
			lastErr = err
			continue
		}
		e := Ext{Snap: w.Snapshot(), Accepts: accepts(w, privs), Pub: k}
		e.Snap.Locked = true
		w.Close()
		return e, nil
	}
	return Ext{}, lastErr
}

type world struct {
	dir    string // closed store directory of the main line
	pub    []byte
	priv   []byte // nil without keystores
	ids    []string
	exps   []exported
	unlock bool
}

type exported struct {
	id   string
	json string
	pass string
}

func genOp(r *vh.Rng, wd *world) COp { return genOpKind(r, wd, "") }

// genOpKind generates an operation of the wanted kind if the wallet state allows it, else a random possible one.
func genOpKind(r *vh.Rng, wd *world, want string) COp {
	hasKs := len(wd.ids) > 0
	for try := 0; ; try++ {
		kind := []string{"create", "import", "delete", "next", "next", "genpub", "genpub", "remark", "chpriv", "chpub"}[r.Intn(10)]
		if want != "" && try < 3 {
			kind = want
		}
		o := COp{Kind: kind}
		pick := func() string { return wd.ids[r.Intn(len(wd.ids))] }
		switch kind {
		case "create":
			if len(wd.ids) >= 3 {
				continue
			}
			o.Seed = hex.EncodeToString(r.Bytes(32))
			o.Remark = wl.RandRemark(r)
			if hasKs {
				o.Pass = string(wd.priv)
			} else {
				o.Pass = string(wl.FreshPass(r))
			}
		case "import":
			// import an earlier export whose keystore is gone
			var c []exported
			for _, e := range wd.exps {
				present := false
				for _, id := range wd.ids {
					if id == e.id {
						present = true
					}
				}
				if !present {
					c = append(c, e)
				}
			}
			if len(c) == 0 {
				continue
			}
			e := c[r.Intn(len(c))]
			o.JSON, o.Pass = e.json, e.pass
			if hasKs && e.pass != string(wd.priv) {
				o.New = string(wd.priv)
			}
		case "delete":
			if !hasKs {
				continue
			}
			o.ID, o.Pass = pick(), string(wd.priv)
		case "next":
			if !hasKs {
				continue
			}
			o.ID, o.N, o.Int = pick(), r.Range(1, 5), r.Bool()
		case "genpub":
			if !hasKs {
				continue
			}
			if len(wd.ids) > 1 {
				// with several keystores GenerateNewPublicKey picks one by map iteration order, which differs from
				// run to run: the complete effect would not be a function of the pre-state. Use the explicit form.
				o.Kind, o.ID, o.N, o.Int = "next", pick(), 1, false
			}
		case "remark":
			if !hasKs {
				continue
			}
			o.ID, o.Remark = pick(), wl.RandRemark(r)
		case "chpriv":
			if !hasKs {
				continue
			}
			o.Pass, o.New = string(wd.priv), string(wl.FreshPass(r))
		case "chpub":
			if !hasKs {
				continue
			}
			o.Pass, o.New = string(wd.pub), string(wl.FreshPass(r))
		}
		if hasKs && r.Bool() {
			o.Unlock, o.Priv = true, string(wd.priv)
		}
		return o
	}
}

type outcome struct {
	crashed, crashAfter bool
	ack                 bool
	err                 error
	fired               bool
	mem                 wl.Snap // running instance after the call (if not crashed)
	memLocked           bool
	signFail            string // a key of the still unlocked wallet that no longer signs after an operation that reported an error
	contID              string // keystore created on the running instance after the faulted call (continuation runs)
	contErr             error
	contPass            []byte
}

// issuanceProbe reopens a store after a fault and issues one more address on every branch of every keystore: exactly
// one key must be added, a key the keystore did not have, at the index after the last one (an operation that was cut
// short must not leave the key counters behind or ahead of the stored keys).
func issuanceProbe(dir string, pub []byte) (problems []string, probed int) {
	defer func() {
		if r := recover(); r != nil {
			problems = append(problems, fmt.Sprintf("panic while issuing after the fault: %v", r))
		}
	}()
	w, err := wl.Open(dir, pub, nil)
	if err != nil {
		return nil, 0
	}
	defer w.Close()
	for _, ks := range w.Snapshot().Ks {
		for br := uint32(0); br < 2; br++ {
			had := map[string]bool{}
			n := uint32(0)
			for _, k := range ks.Keys {
				if k.Branch == br {
					had[k.Pub] = true
					n++
				}
			}
			mas, err := w.M.NextAddresses(ks.ID, br == 1, 1)
			if err != nil || len(mas) != 1 {
				problems = append(problems, fmt.Sprintf("keystore %s branch %d: NextAddresses(1) after the fault: %d addresses, err %v", ks.ID, br, len(mas), err))
				continue
			}
			probed++
			pk := mas[0].PubKey()
			ph := hex.EncodeToString(pk.SerializeCompressed())
			if had[ph] {
				problems = append(problems, fmt.Sprintf("keystore %s branch %d: the next issued key %s had been issued before (%d keys stored)", ks.ID, br, ph, n))
				continue
			}
			if ord, ok := w.M.GetPublicKeyOrdinal(pk); !ok || ord != n {
				problems = append(problems, fmt.Sprintf("keystore %s branch %d: the next issued key has index %d (found %v) after %d stored keys", ks.ID, br, ord, ok, n))
			}
		}
	}
	return problems, probed
}

func main() {
	if len(os.Args) > 1 && os.Args[1] == "-child" {
		killChild(os.Args[2:])
		return
	}
	run := vh.NewRun("C12", "fault_enumeration")
	wl.Setup(filepath.Join(run.Scratch, "log"), "error")
	root := run.Rng()
	nh := run.N(8, 200)
	vh.Parallel(nh, 16, func(hi int) {
		if run.Only >= 0 && run.Only/1000 != hi && run.Only < 1000000 {
			return
		}
		faultHistory(run, root.Derive("hist", hi), hi)
	})
	nk := run.N(24, 800)
	vh.Parallel(nk, 16, func(ki int) {
		ci := 1000000 + ki
		if !run.Want(ci) {
			return
		}
		killCase(run, root.Derive("kill", ki), ki, ci)
	})
	run.Set("exhaustive", false)
	run.Set("fault_space", "per operation: every bucket write 1..w failed, every commit 1..c failed / crash-before / crash-after (complete for each explored operation); operations and histories are sampled")
	if run.Only < 0 && (run.Counter("fault_runs") == 0 || run.Counter("kill_runs_judged") == 0) {
		run.Inconclusive("no fault run or no kill run was judged")
	}
	run.Finish("case = one (history, operation, fault point): histories of <= 6 operations over create/import/delete/next/genpub/remark/chpriv/chpub with 1-3 keystores; for each operation every write and every commit is a fault point (failed write, failed commit, crash before commit, crash after commit), each replayed on a fresh copy of the pre-state store; plus real SIGKILLs of a child process executing a history; non-trivial = the injected fault actually fired (or the kill hit a running child) and the store was reopened and compared; distinct by (history, op index, fault point)", run.N(300, 5000))
}

func trimErr(err error) string {
	s := err.Error()
	if len(s) > 50 {
		s = s[:50]
	}
	return s
}

func faultHistory(run *vh.Run, rng *vh.Rng, hi int) {
	base := filepath.Join(run.Scratch, fmt.Sprintf("fh-%d", hi))
	os.MkdirAll(base, 0o755)
	defer os.RemoveAll(base)
	wd := &world{dir: filepath.Join(base, "main"), pub: wl.FreshPass(rng)}
	w, err := wl.Create(wd.dir, wd.pub, nil)
	if err != nil {
		run.Drop("cannot create store")
		return
	}
	w.Close()
	var trace []string
	// plan: two keystores first (multi-keystore operations are where a per-keystore transaction or a partial
	// re-key would show), then a shuffled selection that covers every operation kind across a few histories
	plan := []string{"create", "create"}
	rest := []string{"chpriv", "chpub", "delete", "import", "next", "genpub", "remark", "create", "next", "chpriv"}
	for _, pi := range rng.Perm(len(rest))[:rng.Range(3, 5)] {
		plan = append(plan, rest[pi])
	}
	// every history deletes a keystore once (a delete that fails half-way must leave the keystore usable), every
	// other one with the wallet unlocked
	hasDelete := false
	for _, k := range plan {
		hasDelete = hasDelete || k == "delete"
	}
	if !hasDelete {
		plan = append(plan, "delete")
	}
	// every third history brings a deleted keystore back from its export (with a remark and issued keys: every record
	// of the import is then written, and each of those writes is failed in turn)
	if hi%3 == 0 {
		plan = append(plan, "import")
	}
	nops := len(plan)
	for j := 0; j < nops; j++ {
		op := genOpKind(rng, wd, plan[j])
		if op.Kind == "create" && hi%3 == 0 && op.Remark == "" {
			op.Remark = "cold storage"
		}
		if op.Kind == "delete" && wd.priv != nil {
			op.Unlock, op.Priv = hi%2 == 0, string(wd.priv)
		}
		trace = append(trace, op.String())
		privs := map[string][]byte{"old": wd.priv}
		pubs := map[string][]byte{"old": wd.pub}
		switch op.Kind {
		case "chpriv":
			privs["new"] = []byte(op.New)
		case "chpub":
			pubs["new"] = []byte(op.New)
		case "create":
			if wd.priv == nil {
				privs = map[string][]byte{"new": []byte(op.Pass)}
			}
		case "import":
			if wd.priv == nil {
				eff := op.New
				if eff == "" {
					eff = op.Pass
				}
				privs = map[string][]byte{"new": []byte(eff)}
			}
		}
		for k, v := range privs {
			if v == nil {
				delete(privs, k)
			}
		}
		// pre-state as a reopened store sees it
		preExt, err := openExt(wd.dir, map[string][]byte{"old": wd.pub}, privs)
		if err != nil {
			run.Violate(hi*1000+j*100, "main-line-store-does-not-open", nil, map[string]interface{}{"err": err.Error(), "history": trace})
			return
		}
		// exec on a copy with a plan; returns outcome and the running-instance pre snapshot
		var execInner func(tag string, plan wl.FaultPlan, cont bool) (outcome, wl.Snap, *wl.FaultDB, string, bool)
		// execOn runs one replay under a watchdog: a wallet call that never returns (a lock left held by the faulted
		// operation) must not hang the check; it is a violation when the dump shows wallet code parked on a mutex
		execOn := func(tag string, plan wl.FaultPlan, cont bool) (outcome, wl.Snap, *wl.FaultDB, string, bool) {
			type resT struct {
				o  outcome
				s  wl.Snap
				f  *wl.FaultDB
				d  string
				ok bool
			}
			hungMu.Lock()
			skip := hungOps[op.Kind] >= 2
			hungMu.Unlock()
			if skip && plan.Kind != "" {
				// two replays of this kind of operation already hung for the whole watchdog: enough witnesses
				run.Count("replays_skipped_after_two_hangs:"+op.Kind, 1)
				return outcome{}, wl.Snap{}, nil, "", false
			}
			ch := make(chan resT, 1)
			go func() {
				o, sn, f, d, ok := execInner(tag, plan, cont)
				ch <- resT{o, sn, f, d, ok}
			}()
			select {
			case r := <-ch:
				return r.o, r.s, r.f, r.d, r.ok
			case <-time.After(replayWatchdog):
				buf := make([]byte, 8<<20)
				dump := string(buf[:runtime.Stack(buf, true)])
				var blocked []string
				for _, blk := range strings.Split(dump, "\n\n") {
					head := strings.SplitN(blk, "\n", 2)[0]
					if !(strings.Contains(head, "[sync.Mutex.Lock") || strings.Contains(head, "[semacquire") || strings.Contains(head, "[sync.RWMutex")) {
						continue
					}
					for _, l := range strings.Split(blk, "\n") {
						if strings.HasPrefix(l, "massnet.org/mass/poc/wallet/") {
							blocked = append(blocked, strings.SplitN(l, "(0x", 2)[0])
							break
						}
					}
				}
				hungMu.Lock()
				hungOps[op.Kind]++
				hungMu.Unlock()
				if len(blocked) > 0 {
					run.Violate(hi*1000+j*100+99, "wallet-call-never-returned-after-faulted-operation", map[string]string{"op": op.Kind, "fault": plan.Kind},
						map[string]interface{}{"blocked_on_a_lock_in": blocked, "fault": plan, "history": trace, "watchdog_s": replayWatchdog.Seconds()})
				} else {
					run.Drop("replay watchdog fired without wallet code parked on a lock")
				}
				return outcome{}, wl.Snap{}, nil, "", false
			}
		}
		execInner = func(tag string, plan wl.FaultPlan, cont bool) (outcome, wl.Snap, *wl.FaultDB, string, bool) {
			dst := filepath.Join(base, tag)
			os.RemoveAll(dst)
			if err := wl.CopyDir(wd.dir, dst); err != nil {
				return outcome{}, wl.Snap{}, nil, dst, false
			}
			var fdb *wl.FaultDB
			ww, err := wl.Open(dst, wd.pub, func(d db.DB) db.DB { fdb = wl.NewFaultDB(d); return fdb })
			if err != nil {
				return outcome{}, wl.Snap{}, nil, dst, false
			}
			if op.Unlock {
				if err := ww.M.Unlock([]byte(op.Priv)); err != nil {
					ww.Close()
					return outcome{}, wl.Snap{}, nil, dst, false
				}
			}
			pre := ww.Snapshot()
			fdb.Arm(plan)
			var out outcome
			func() {
				defer func() {
					if r := recover(); r != nil {
						cs, ok := r.(wl.CrashSentinel)
						if !ok {
							panic(r)
						}
						out.crashed, out.crashAfter = true, cs.After
					}
				}()
				out.ack, out.err = op.Exec(ww)
			}()
			out.fired = fdb.Fired
			fdb.Disarm()
			if !out.crashed {
				out.mem = ww.Snapshot()
			}
			if !out.crashed && out.err != nil && op.Unlock && !ww.M.IsLocked() {
				// the operation reported an error and the wallet still says it is unlocked: every keystore it had
				// before must still sign
				digest := sha256.Sum256([]byte(tag))
				for _, ks := range pre.Ks {
					if len(ks.Keys) == 0 {
						continue
					}
					if _, err := ww.M.SignHash(wl.ParsePub(ks.Keys[0].Pub), digest[:]); err != nil {
						out.signFail = fmt.Sprintf("keystore %s key %s: %v", ks.ID, ks.Keys[0].Pub, err)
						break
					}
				}
			}
			if cont && !out.crashed && out.err != nil && op.Unlock && !ww.M.IsLocked() && out.signFail == "" {
				// keystores without a key yet: issue one and sign with it (an unlocked wallet signs for every key it issues)
				digest := sha256.Sum256([]byte("cont" + tag))
				for _, ks := range pre.Ks {
					if len(ks.Keys) > 0 {
						continue
					}
					mas, err := ww.M.NextAddresses(ks.ID, false, 1)
					if err != nil || len(mas) != 1 {
						continue
					}
					if _, err := ww.M.SignHash(mas[0].PubKey(), digest[:]); err != nil {
						out.signFail = fmt.Sprintf("keystore %s, key issued after the failed operation: %v", ks.ID, err)
						break
					}
				}
			}
			if cont && !out.crashed && out.err != nil && op.Unlock && !ww.M.IsLocked() && out.signFail == "" {
				// ... and locking it and unlocking it again with the passphrase that unlocked it before the failed
				// operation still works (the running instance shows the prior state, passphrase behaviour included)
				ww.M.Lock()
				if err := ww.M.Unlock([]byte(op.Priv)); err != nil {
					out.signFail = fmt.Sprintf("after Lock, the passphrase that unlocked the wallet before the failed operation is refused: %v", err)
				} else {
					run.Count("relock_unlock_cycles_after_failed_operation", 1)
				}
			}
			if cont && !out.crashed {
				// the user carries on with the running instance: a new keystore under the private passphrase the
				// wallet accepts now, one address, close
				out.contPass = wl.FreshPass(rng.Derive("cont", j*1000+len(tag)))
				if names := ww.M.ListKeystoreNames(); len(names) > 0 {
					out.contPass = nil
					for _, k := range []string{"old", "new"} {
						if c, ok := privs[k]; ok && out.contPass == nil {
							if _, err := ww.M.ExportKeystore(names[0], c); err == nil {
								out.contPass = c
							}
						}
					}
				}
				if out.contPass != nil {
					seed := sha256.Sum256([]byte(fmt.Sprintf("continuation-%d-%d-%s", hi, j, tag)))
					out.contID, out.contErr = ww.M.NewKeystore(out.contPass, seed[:], "continuation", wl.Net(), wl.FastScrypt)
					if out.contErr == nil {
						ww.M.NextAddresses(out.contID, false, 1)
					}
				}
			}
			ww.Close()
			return out, pre, fdb, dst, true
		}
		// 1. fault-free run: measure w and c, learn the complete effect
		ref, _, cnt, refDir, ok := execOn("ref", wl.FaultPlan{}, false)
		if !ok {
			run.Drop("cannot prepare fault-free reference run")
			return
		}
		run.Count("operations_measured", 1)
		run.Count("op:"+op.Kind, 1)
		var postExt Ext
		if ref.ack {
			postExt, err = openExt(refDir, pubs, privs)
			if err != nil {
				run.Violate(hi*1000+j*100, "store-does-not-open-after-fault-free-operation", map[string]string{"op": op.Kind}, map[string]interface{}{"err": err.Error(), "history": trace})
				return
			}
			if why, bad := postExt.Accepts[unlockKey]; bad {
				run.Violate(hi*1000+j*100, "wallet-cannot-be-unlocked-after-fault-free-operation", map[string]string{"op": op.Kind, "wallet_unlocked_during_op": fmt.Sprint(op.Unlock)}, map[string]interface{}{"why": why, "history": trace})
				return
			}
		} else {
			postExt = preExt
		}
		os.RemoveAll(refDir)
		// 2. every fault point
		var plans []wl.FaultPlan
		for k := 1; k <= cnt.Writes; k++ {
			plans = append(plans, wl.FaultPlan{Kind: "write", At: k})
		}
		for k := 1; k <= cnt.Writes; k++ {
			plans = append(plans, wl.FaultPlan{Kind: "crash-write", At: k})
		}
		for c := 1; c <= cnt.Commits; c++ {
			for _, kd := range []string{"commit", "crash-before", "crash-after"} {
				plans = append(plans, wl.FaultPlan{Kind: kd, At: c})
			}
		}
		if !ref.ack {
			plans = nil // an operation that fails without faults has no effect to split
		}
		for pi, plan := range plans {
			ci := hi*1000 + j*100 + pi
			if !run.Want(ci) {
				continue
			}
			out, pre, fdb, dir, ok := execOn(fmt.Sprintf("f%d", pi), plan, false)
			if !ok {
				run.Drop("cannot prepare fault run")
				continue
			}
			run.Count("fault_runs", 1)
			run.Count("fault:"+plan.Kind, 1)
			attrs := map[string]string{"op": op.Kind, "fault": plan.Kind}
			what := ""
			if (plan.Kind == "write" || plan.Kind == "crash-write") && plan.At-1 < len(cnt.Log) {
				// name the write that failed (bucket call and key) so that a finding can be keyed on the call site
				ws := []string{}
				for _, l := range cnt.Log {
					if l != "commit" {
						ws = append(ws, l)
					}
				}
				if plan.At-1 < len(ws) {
					what = ws[plan.At-1]
					attrs["write"] = strings.SplitN(what, " ", 2)[0]
				}
			}
			detail := func(extra map[string]interface{}) map[string]interface{} {
				d := map[string]interface{}{"history": trace, "op_index": j, "fault": fmt.Sprintf("%s #%d", plan.Kind, plan.At), "failed_write": what,
					"writes": cnt.Writes, "commits": cnt.Commits, "returned_error": fmt.Sprint(out.err), "acknowledged": out.ack, "crashed": out.crashed, "calls": fdb.Log}
				for k, v := range extra {
					d[k] = v
				}
				return d
			}
			if !out.fired {
				run.Count("fault_points_not_reached(other path taken)", 1)
			}
			// running instance after a reported error
			if !out.crashed && out.err != nil {
				if d := wl.Diff(pre, out.mem); d != "" {
					run.Violate(ci, "running-instance-changed-although-operation-failed", attrs, detail(map[string]interface{}{"diff": d}))
				}
				if pre.Locked != out.mem.Locked {
					run.Violate(ci, "running-instance-changed-although-operation-failed", attrs, detail(map[string]interface{}{"diff": "lock state"}))
				}
				if out.signFail != "" {
					run.Violate(ci, "running-instance-changed-although-operation-failed", attrs, detail(map[string]interface{}{"diff": "an unlocked keystore no longer signs / unlocks: " + out.signFail}))
				}
				run.Count("running_instance_checked_after_error", 1)
			}
			// reopen without faults
			got, err := openExt(dir, pubs, privs)
			if err == nil && (op.Kind == "next" || op.Kind == "genpub" || op.Kind == "import" || op.Kind == "create") {
				if probs, n := issuanceProbe(dir, pubs[got.Pub]); len(probs) > 0 {
					run.Violate(ci, "issuance-after-fault-reuses-or-skips-a-key", attrs, detail(map[string]interface{}{"problems": probs}))
				} else {
					run.Count("issuance_probes_after_fault", int64(n))
				}
			}
			os.RemoveAll(dir)
			// the faults that leave the process running (all of them for passphrase changes, one in six otherwise) are
			// executed again, and this time the user
			// carries on with the running instance (new keystore, address), closes and reopens
			if err == nil && !out.crashed && (plan.Kind == "write" || plan.Kind == "commit") && (op.Kind == "chpub" || op.Kind == "chpriv" || op.Kind == "delete" || (hi+j+pi)%6 == 0) {
				o2, _, _, dir2, ok2 := execOn(fmt.Sprintf("c%d", pi), plan, true)
				if ok2 && o2.signFail != "" {
					run.Violate(ci, "running-instance-changed-although-operation-failed", attrs, detail(map[string]interface{}{"diff": "an unlocked keystore no longer signs / unlocks: " + o2.signFail}))
				}
				if ok2 && !o2.crashed && o2.contPass != nil {
					run.Count("continuations_after_faulted_operation", 1)
					p2 := map[string][]byte{"cont": o2.contPass}
					for k, v := range privs {
						p2[k] = v
					}
					got2, err2 := openExt(dir2, pubs, p2)
					switch {
					case err2 != nil:
						run.Violate(ci, "wallet-does-not-open-after-continuing-past-a-faulted-operation", attrs, detail(map[string]interface{}{"err": err2.Error(),
							"continuation": "NewKeystore + NextAddresses on the running instance after the faulted call, close, reopen", "faulted_call_returned": fmt.Sprint(o2.err), "new_keystore_err": fmt.Sprint(o2.contErr)}))
					case o2.contErr != nil:
						run.Count("continuation_keystore_refused(observation):"+trimErr(o2.contErr), 1)
					default:
						found := false
						for _, k := range got2.Snap.Ks {
							found = found || k.ID == o2.contID
						}
						if !found {
							run.Violate(ci, "keystore-created-after-faulted-operation-lost", attrs, detail(map[string]interface{}{"keystore": o2.contID, "faulted_call_returned": fmt.Sprint(o2.err)}))
						}
					}
				}
				os.RemoveAll(dir2)
			}
			if err != nil {
				run.Violate(ci, "wallet-does-not-open-after-fault", attrs, detail(map[string]interface{}{"err": err.Error()}))
				run.Case(vh.HashS(fmt.Sprint(hi, j, pi)), out.fired)
				continue
			}
			dPre, dPost := got.Equal(preExt), got.Equal(postExt)
			switch {
			case dPre != "" && dPost != "":
				run.Violate(ci, "partial-effect-after-fault", attrs, detail(map[string]interface{}{"vs_prior_state": dPre, "vs_complete_effect": dPost}))
			case out.ack && !out.crashed && dPost != "":
				run.Violate(ci, "acknowledged-operation-lost-after-restart", attrs, detail(map[string]interface{}{"vs_complete_effect": dPost}))
			case out.crashed && out.crashAfter && dPost != "":
				run.Violate(ci, "committed-operation-lost-after-crash", attrs, detail(map[string]interface{}{"vs_complete_effect": dPost}))
			}
			if dPre == "" {
				run.Count("reopened_shows_no_effect", 1)
			} else if dPost == "" {
				run.Count("reopened_shows_complete_effect", 1)
			}
			run.Case(vh.HashS(fmt.Sprint(hi, j, pi, op.Kind, plan.Kind, plan.At)), out.fired)
		}
		// 3. advance the main line
		wm, err := wl.Open(wd.dir, wd.pub, nil)
		if err != nil {
			run.Violate(hi*1000+j*100, "main-line-store-does-not-open", nil, map[string]interface{}{"err": err.Error(), "history": trace})
			return
		}
		if op.Unlock {
			wm.M.Unlock([]byte(op.Priv))
		}
		ack, _ := op.Exec(wm)
		if ack {
			switch op.Kind {
			case "chpriv":
				wd.priv = []byte(op.New)
			case "chpub":
				wd.pub = []byte(op.New)
			case "create":
				if wd.priv == nil {
					wd.priv = []byte(op.Pass)
				}
			case "import":
				if wd.priv == nil {
					if op.New != "" {
						wd.priv = []byte(op.New)
					} else {
						wd.priv = []byte(op.Pass)
					}
				}
			}
		}
		wd.ids = wm.M.ListKeystoreNames()
		sort.Strings(wd.ids)
		if len(wd.ids) == 0 {
			wd.priv = nil
		}
		// keep exports of every keystore for later imports
		if wd.priv != nil {
			for _, id := range wd.ids {
				if js, err := wm.M.ExportKeystore(id, wd.priv); err == nil {
					wd.exps = append(wd.exps, exported{id, string(js), string(wd.priv)})
				}
			}
			if len(wd.exps) > 6 {
				wd.exps = wd.exps[len(wd.exps)-6:]
			}
		}
		wm.Close()
	}
	if hi < 2 {
		run.Sample(trace)
	}
}

// ---------------------------------------------------------------- real kills

type killPlan struct {
	Dir string `json:"dir"`
	Pub string `json:"pub"`
	Ops []COp  `json:"ops"`
}

// killChild executes the plan, printing "ACK <i>" (synced) after every operation.
func killChild(args []string) {
	fs := flag.NewFlagSet("child", flag.ExitOnError)
	planFile := fs.String("plan", "", "")
	ackFile := fs.String("ack", "", "")
	fs.Parse(args)
	b, _ := os.ReadFile(*planFile)
	var p killPlan
	json.Unmarshal(b, &p)
	wl.Setup(filepath.Join(filepath.Dir(*planFile), "childlog"), "error")
	af, _ := os.OpenFile(*ackFile, os.O_CREATE|os.O_WRONLY|os.O_APPEND|os.O_SYNC, 0o644)
	w, err := wl.Open(p.Dir, []byte(p.Pub), nil)
	if err != nil {
		fmt.Fprintln(af, "OPENFAIL", err)
		os.Exit(3)
	}
	fmt.Fprintln(af, "READY")
	for i, op := range p.Ops {
		if op.Unlock && w.M.IsLocked() {
			w.M.Unlock([]byte(op.Priv))
		}
		fmt.Fprintf(af, "BEGIN %d\n", i)
		ack, _ := op.Exec(w)
		fmt.Fprintf(af, "ACK %d %v\n", i, ack)
	}
	w.Close()
	fmt.Fprintln(af, "DONE")
}

func killCase(run *vh.Run, rng *vh.Rng, ki, ci int) {
	base := filepath.Join(run.Scratch, fmt.Sprintf("kill-%d", ki))
	os.MkdirAll(base, 0o755)
	defer os.RemoveAll(base)
	// build the concrete history and its per-prefix states in-process on one store
	wd := &world{dir: filepath.Join(base, "model"), pub: wl.FreshPass(rng)}
	w, err := wl.Create(wd.dir, wd.pub, nil)
	if err != nil {
		run.Drop("cannot create store")
		return
	}
	w.Close()
	victim := filepath.Join(base, "victim")
	wl.CopyDir(wd.dir, victim)
	pub0 := wd.pub
	var ops []COp
	allPubs := map[string][]byte{"p0": wd.pub}
	allPrivs := map[string][]byte{}
	n := rng.Range(6, 14)
	for j := 0; j < n; j++ {
		op := genOp(rng, wd)
		ops = append(ops, op)
		wm, err := wl.Open(wd.dir, wd.pub, nil)
		if err != nil {
			run.Drop("model line does not open")
			return
		}
		if op.Unlock {
			wm.M.Unlock([]byte(op.Priv))
		}
		ack, _ := op.Exec(wm)
		if ack {
			switch op.Kind {
			case "chpriv":
				wd.priv = []byte(op.New)
			case "chpub":
				wd.pub = []byte(op.New)
				allPubs[fmt.Sprintf("p%d", j+1)] = wd.pub
			case "create":
				if wd.priv == nil {
					wd.priv = []byte(op.Pass)
				}
			case "import":
				if wd.priv == nil {
					wd.priv = []byte(op.Pass)
					if op.New != "" {
						wd.priv = []byte(op.New)
					}
				}
			}
		}
		wd.ids = wm.M.ListKeystoreNames()
		sort.Strings(wd.ids)
		if len(wd.ids) == 0 {
			wd.priv = nil
		}
		if wd.priv != nil {
			allPrivs[string(wd.priv)] = wd.priv
			for _, id := range wd.ids {
				if js, err := wm.M.ExportKeystore(id, wd.priv); err == nil {
					wd.exps = append(wd.exps, exported{id, string(js), string(wd.priv)})
				}
			}
		}
		wm.Close()
	}
	// recompute the per-prefix extended states with the full candidate sets (so they are comparable with the victim)
	// by replaying on a second copy
	replay := filepath.Join(base, "replay")
	wl.CopyDir(victim, replay)
	cur := pub0
	pre0, err := openExt(replay, allPubs, allPrivs)
	if err != nil {
		run.Drop("replay store does not open")
		return
	}
	exts := []Ext{pre0}
	for j, op := range ops {
		wm, err := wl.Open(replay, cur, nil)
		if err != nil {
			run.Drop("replay store does not open")
			return
		}
		if op.Unlock {
			wm.M.Unlock([]byte(op.Priv))
		}
		ack, _ := op.Exec(wm)
		if ack && op.Kind == "chpub" {
			cur = []byte(op.New)
		}
		wm.Close()
		e, err := openExt(replay, allPubs, allPrivs)
		if err != nil {
			run.Drop("replay store does not open")
			return
		}
		exts = append(exts, e)
		_ = j
	}
	// run the victim in a child and kill it
	planFile := filepath.Join(base, "plan.json")
	ackFile := filepath.Join(base, "acks")
	pb, _ := json.Marshal(killPlan{Dir: victim, Pub: string(pub0), Ops: ops})
	os.WriteFile(planFile, pb, 0o600)
	cmd := exec.Command(os.Args[0], "-child", "-plan", planFile, "-ack", ackFile)
	cmd.Stdout, cmd.Stderr = nil, nil
	if err := cmd.Start(); err != nil {
		run.Drop("cannot start child")
		return
	}
	// kill when a seeded number of acknowledgements has been seen, plus a seeded sub-operation delay
	target := rng.Intn(len(ops))
	extra := time.Duration(rng.Intn(4000)) * time.Microsecond
	deadline := time.Now().Add(60 * time.Second)
	for time.Now().Before(deadline) {
		b, _ := os.ReadFile(ackFile)
		if strings.Contains(string(b), fmt.Sprintf("BEGIN %d\n", target)) || strings.Contains(string(b), "DONE") || strings.Contains(string(b), "OPENFAIL") {
			break
		}
		time.Sleep(200 * time.Microsecond)
	}
	time.Sleep(extra)
	cmd.Process.Signal(syscall.SIGKILL)
	cmd.Wait()
	b, _ := os.ReadFile(ackFile)
	acks, began := 0, 0
	for _, l := range strings.Split(string(b), "\n") {
		var i int
		var a bool
		if _, err := fmt.Sscanf(l, "ACK %d %v", &i, &a); err == nil {
			acks = i + 1
		}
		if _, err := fmt.Sscanf(l, "BEGIN %d", &i); err == nil {
			began = i + 1
		}
	}
	if strings.Contains(string(b), "OPENFAIL") || !strings.Contains(string(b), "READY") {
		run.Drop("child did not get ready")
		return
	}
	run.Count("kill_runs", 1)
	if strings.Contains(string(b), "DONE") {
		run.Count("kill_after_history_end", 1)
	}
	got, err := openExt(victim, allPubs, allPrivs)
	var trace []string
	for _, o := range ops {
		trace = append(trace, o.String())
	}
	det := map[string]interface{}{"history": trace, "acknowledged": acks, "begun": began, "ack_log": string(b)}
	if err != nil {
		det["err"] = err.Error()
		run.Violate(ci, "wallet-does-not-open-after-kill", map[string]string{"in_flight": opKind(ops, acks)}, det)
		run.Case(vh.HashS(fmt.Sprint("kill", ki)), true)
		return
	}
	run.Count("kill_runs_judged", 1)
	// acceptable: state after `acks` operations, or after acks+1 if one more had begun
	okStates := []int{acks}
	if began > acks {
		okStates = append(okStates, acks+1)
	}
	matched := false
	var diffs []string
	for _, s := range okStates {
		d := got.Equal(exts[s])
		if d == "" {
			matched = true
			run.Count(fmt.Sprintf("kill_matched_prefix_plus_%d", s-acks), 1)
			break
		}
		diffs = append(diffs, fmt.Sprintf("vs state after %d ops: %s", s, d))
	}
	if !matched {
		det["diffs"] = diffs
		run.Violate(ci, "state-after-kill-is-neither-acknowledged-prefix-nor-prefix-plus-in-flight-operation", map[string]string{"in_flight": opKind(ops, acks)}, det)
	}
	run.Case(vh.HashS(fmt.Sprint("kill", ki, acks, began)), began > 0)
}

func opKind(ops []COp, i int) string {
	if i < len(ops) {
		return ops[i].Kind
	}
	return "none"
}
