// c13: the space keeper never deadlocks or panics.
// Built with -race. Child processes run scenarios against the real keepers (v1 capacity, v2 skchia):
//
//	stress-fake / stress-fake-v2: 4-16 goroutines fire plot/mine/stop/remove/delete/queries/Start/Stop at 1-3 spaces
//	  while scripted plots take short random times and complete or abort (free-running, no gates);
//	stress-real: the same over the REAL massdb.v1 backend at bit lengths 12-16 with small plot windows (H1), so that
//	  StopPlot races a running plot and the keeper's shutdown monitor;
//	directed schedules reproducing the interleavings singled out by reading: a Stop request racing keeper shutdown
//	  on a plotting space, more than 1024 queued requests while a plot is held, Start/Stop/Start in quick succession.
//
// Every call is bracketed by call/return events. Verdict per scenario: every call returned, Stop returned, the process
// did not panic. A call still open at the watchdog is a deadlock only if the goroutine dump shows goroutines blocked
// in repository frames; otherwise the scenario is dropped. Race reports in repository code are listed as observations.
package main

import (
	"context"
	"encoding/json"
	"flag"
	"fmt"
	"os"
	"path/filepath"
	"reflect"
	"regexp"
	"runtime"
	"sort"
	"strings"
	"sync"
	"sync/atomic"
	"time"

	"github.com/massnetorg/mass-core/poc/pocutil"
	"massnet.org/mass/config"
	"massnet.org/mass/poc/engine"
	enginev2 "massnet.org/mass/poc/engine.v2"
	"massnet.org/mass/poc/engine.v2/spacekeeper/skchia"
	"massnet.org/mass/poc/engine/spacekeeper/capacity"
	"massnet.org/mass/verifhook"
	"verif/harness/internal/kp"
	"verif/harness/internal/vh"
	"verif/harness/internal/wl"
)

const callWatchdog = 45 * time.Second

type api struct {
	infos   func(flags uint32) (int, error)
	act     func(sid string, action uint8) error
	actBulk func(flags uint32, action uint8) (map[string]error, error)
	start   func() error
	stop    func() error
	offered func() error
	lock    func(bool) // locks / unlocks the poc wallet under the keeper (a locked wallet makes Start refuse)
	ids     []string
	// plotDir (real backend only): a plot file of the keeper may vanish from it while requests are in flight (disk
	// swapped, file removed by the operator): requests must still return
	plotDir string
}

func v1api(sk *capacity.SpaceKeeper) *api {
	var self *api
	self = &api{
		infos: func(f uint32) (int, error) {
			x, err := sk.WorkSpaceInfos(engine.WorkSpaceStateFlags(f))
			sk.WorkSpaceIDs(engine.WorkSpaceStateFlags(f))
			sk.WorkSpaceInfosByDirs()
			return len(x), err
		},
		act: func(sid string, a uint8) error { return sk.ActOnWorkSpace(sid, engine.ActionType(a)) },
		actBulk: func(f uint32, a uint8) (map[string]error, error) {
			return sk.ActOnWorkSpaces(engine.WorkSpaceStateFlags(f), engine.ActionType(a))
		},
		start: sk.Start, stop: sk.Stop,
		offered: func() error {
			var ch pocutil.Hash
			_, err := sk.GetProofs(context.Background(), engine.SFMining, ch, false)
			// and the streaming forms, with the caller giving up at a seeded moment while the keeper is still writing
			n := atomic.AddInt64(&offeredCalls, 1)
			ids := self.ids
			ctx, cancel := context.WithCancel(context.Background())
			var rd engine.ProofReader
			var rerr error
			if n%3 == 0 && len(ids) > 0 {
				rd, rerr = sk.GetProofReader(ctx, ids[int(n)%len(ids)], ch, false)
			} else {
				rd, rerr = sk.GetProofsReader(ctx, engine.SFAll, ch, false)
			}
			if rerr != nil {
				cancel()
				return err
			}
			drainWithCancel(ctx, cancel, n, func() error { _, e := rd.Read(); return e })
			return err
		},
	}
	return self
}

// giveUp maps the context of a streaming query in flight to its cancel function: the "proofrw.send" handler gives
// the query up at the moment the keeper's writer is about to hand a proof over.
var giveUp sync.Map
var sendsSeen, sendsCancelled int64

// drainWithCancel reads a streaming reply to its end while the caller gives up at a seeded moment: after a seeded
// number of yields, or (every other query) exactly when the keeper's writer is about to send.
func drainWithCancel(ctx context.Context, cancel context.CancelFunc, n int64, read func() error) {
	if n%2 == 0 {
		giveUp.Store(ctx, cancel)
		defer giveUp.Delete(ctx)
	}
	go func() {
		for i := int64(0); i < n%97; i++ {
			runtime.Gosched()
		}
		if n%2 == 1 {
			cancel()
		}
	}()
	for {
		if e := read(); e != nil {
			break
		}
	}
	cancel()
}

// installSendHook: when a writer is about to send on a query's channel and the query is registered in giveUp, the
// query's context is cancelled right there and the writer pauses briefly, so that the reply's watcher (which closes the
// channel when the context ends) runs while the writer stands between its closed-check and its send.
// stopAtPlotStart (set during some stress-real scenarios): every other plot that starts (the first one included) is hit by a stop request at the
// very moment it starts (between the DB announcing "plotting" and its plot goroutine running).
var stopAtPlotStart int32
var plotStarts, stopsAtStart, lateStops, stopsHeld int64

func installSendHook() {
	verifhook.SetPoint("plot.starting", func(args ...interface{}) {
		n := atomic.AddInt64(&plotStarts, 1)
		if atomic.LoadInt32(&stopAtPlotStart) == 0 || n%2 != 1 || len(args) == 0 {
			return
		}
		if db, ok := args[0].(interface{ StopPlot() chan error }); ok {
			atomic.AddInt64(&stopsAtStart, 1)
			atomic.AddInt64(&lateStops, 1)
			go func() { <-db.StopPlot() }()
			time.Sleep(300 * time.Microsecond)
		}
	})
	// ... and every stop request delivered that way is then held for 40 ms between "the plot is running" and the moment
	// it takes the stop lock: a small plot ends by itself meanwhile (a stop request that finds its plot already over)
	verifhook.SetPoint("plot.stopping", func(args ...interface{}) {
		for {
			n := atomic.LoadInt64(&lateStops)
			if n <= 0 {
				return
			}
			if atomic.CompareAndSwapInt64(&lateStops, n, n-1) {
				break
			}
		}
		atomic.AddInt64(&stopsHeld, 1)
		time.Sleep(40 * time.Millisecond)
	})
	verifhook.SetPoint("proofrw.send", func(args ...interface{}) {
		atomic.AddInt64(&sendsSeen, 1)
		if len(args) == 0 {
			return
		}
		ctx, ok := args[0].(context.Context)
		if !ok {
			return
		}
		if c, ok := giveUp.Load(ctx); ok {
			atomic.AddInt64(&sendsCancelled, 1)
			c.(context.CancelFunc)()
			time.Sleep(300 * time.Microsecond)
		}
	})
}

var offeredCalls int64
var storm int32

func v2api(sk *skchia.SpaceKeeper) *api {
	var self *api
	self = &api{
		infos: func(f uint32) (int, error) {
			x, err := sk.WorkSpaceInfos(enginev2.WorkSpaceStateFlags(f))
			sk.WorkSpaceIDs(enginev2.WorkSpaceStateFlags(f))
			return len(x), err
		},
		act: func(sid string, a uint8) error { return sk.ActOnWorkSpace(sid, enginev2.ActionType(a)) },
		actBulk: func(f uint32, a uint8) (map[string]error, error) {
			return sk.ActOnWorkSpaces(enginev2.WorkSpaceStateFlags(f), enginev2.ActionType(a))
		},
		start: sk.Start, stop: sk.Stop,
		offered: func() error {
			var ch pocutil.Hash
			n := atomic.AddInt64(&offeredCalls, 1)
			fl := enginev2.SFMining
			if n%4 == 0 {
				fl = enginev2.SFAll
			}
			_, err := sk.GetQualities(context.Background(), fl, ch)
			ids := self.ids
			if len(ids) == 0 {
				return err
			}
			ctx, cancel := context.WithCancel(context.Background())
			var rd enginev2.ProofReader
			var rerr error
			if n%3 == 0 {
				rd, rerr = sk.GetProofReader(ctx, ids[int(n)%len(ids)], ch, 0)
			} else {
				rd, rerr = sk.GetProofsReader(ctx, ids, ch, make([]uint32, len(ids)))
			}
			if rerr != nil {
				cancel()
				return err
			}
			drainWithCancel(ctx, cancel, n, func() error { _, e := rd.Read(); return e })
			return err
		},
	}
	return self
}

// Rec is the result of one scenario.
type Rec struct {
	Idx      int      `json:"idx"`
	Kind     string   `json:"kind"`
	Params   string   `json:"params"`
	Calls    int64    `json:"calls"`
	Open     []string `json:"open"` // calls that never returned
	Hung     bool     `json:"hung"`
	Dump     string   `json:"dump"` // goroutine dump when hung
	Plots    int      `json:"plots"`
	StopOK   bool     `json:"stop_ok"`
	Leaked   int      `json:"leaked"` // goroutines after Stop minus before Start
	Note     string   `json:"note"`
	Distinct string   `json:"distinct"`
	// proofs the keeper was about to send to a streaming query / of those, sends at which the query was given up
	Sends       int64 `json:"sends"`
	SendCancels int64 `json:"send_cancels"`
	// stop requests delivered to a plot at the moment it started
	StopsAtStart int64 `json:"stops_at_plot_start"`
	StopsHeld    int64 `json:"stops_held_before_the_stop_lock"`
}

type tracker struct {
	mu    sync.Mutex
	open  map[int64]string
	seq   int64
	calls int64
}

func (t *tracker) do(name string, f func()) {
	id := atomic.AddInt64(&t.seq, 1)
	t.mu.Lock()
	t.open[id] = name
	t.mu.Unlock()
	f()
	t.mu.Lock()
	delete(t.open, id)
	t.mu.Unlock()
	atomic.AddInt64(&t.calls, 1)
}

func (t *tracker) stillOpen() []string {
	t.mu.Lock()
	defer t.mu.Unlock()
	var out []string
	for _, n := range t.open {
		out = append(out, n)
	}
	sort.Strings(out)
	return out
}

// waitAll waits for wg with the watchdog; on expiry it records the open calls and a goroutine dump.
func waitAll(rec *Rec, tr *tracker, wg *sync.WaitGroup) bool {
	done := make(chan struct{})
	go func() { wg.Wait(); close(done) }()
	select {
	case <-done:
		return true
	case <-time.After(callWatchdog):
		rec.Hung = true
		rec.Open = tr.stillOpen()
		buf := make([]byte, 8<<20)
		rec.Dump = string(buf[:runtime.Stack(buf, true)])
		return false
	}
}

var actionNames = []string{"plot", "mine", "stop", "remove", "delete"}

func stress(rng *vh.Rng, a *api, tr *tracker, rec *Rec, G, M int, withStartStop bool) bool {
	var wg sync.WaitGroup
	start := make(chan struct{})
	for g := 0; g < G; g++ {
		r := rng.Derive("g", g)
		wg.Add(1)
		go func() {
			defer wg.Done()
			<-start
			for j := 0; j < M; j++ {
				sid := "unknown-24"
				if len(a.ids) > 0 && !r.Chance(1, 20) {
					sid = a.ids[r.Intn(len(a.ids))]
				}
				wUnlink := 0
				if a.plotDir != "" {
					wUnlink = 1
				}
				switch r.Weighted(30, 10, 12, 3, 2, 2, 1, wUnlink) {
				case 7:
					if fs, _ := filepath.Glob(filepath.Join(a.plotDir, "*.massdb")); len(fs) > 0 {
						f := fs[r.Intn(len(fs))]
						tr.do("external unlink of a plot file", func() { os.Remove(f) })
					}
				case 6:
					if withStartStop && a.lock != nil {
						l := r.Chance(1, 3)
						tr.do("wallet lock/unlock", func() { a.lock(l) })
					}
				case 0:
					ac := uint8(r.Weighted(6, 5, 6, 1, 1))
					tr.do("ActOnWorkSpace("+actionNames[ac]+")", func() { a.act(sid, ac) })
				case 1:
					ac := uint8(r.Weighted(6, 5, 6, 1, 1))
					f := uint32(r.Range(1, 15))
					tr.do("ActOnWorkSpaces("+actionNames[ac]+")", func() { a.actBulk(f, ac) })
				case 2:
					f := uint32(r.Range(1, 15))
					tr.do("WorkSpaceInfos", func() { a.infos(f) })
				case 3:
					tr.do("GetProofs/GetQualities", func() { a.offered() })
				case 4:
					if withStartStop {
						tr.do("Stop", func() { a.stop() })
					}
				case 5:
					if withStartStop {
						tr.do("Start", func() { a.start() })
					}
				}
				if r.Chance(1, 6) {
					time.Sleep(time.Duration(r.Intn(300)) * time.Microsecond)
				}
			}
		}()
	}
	close(start)
	return waitAll(rec, tr, &wg)
}

// lastWallet is the wallet of the keeper newV1 built last (scenarios run one after the other in a child).
var lastWallet *kp.FakeWallet

func newV1(dir string, seed uint64, n int, bl int) (*capacity.SpaceKeeper, []string, error) {
	cfg := config.DefaultConfig()
	cfg.Miner.ProofDir = []string{dir}
	lastWallet = kp.NewFakeWallet(seed)
	ski, err := capacity.NewSpaceKeeperV1(cfg, lastWallet)
	if err != nil {
		return nil, nil, err
	}
	sk := ski.(*capacity.SpaceKeeper)
	infos, err := sk.ConfigureByBitLength(map[int]int{bl: n}, false, false)
	var ids []string
	for _, in := range infos {
		ids = append(ids, in.SpaceID)
	}
	return sk, ids, err
}

func scenario(rng *vh.Rng, idx int, kind string, base string) Rec {
	rec := Rec{Idx: idx, Kind: kind}
	dir := filepath.Join(base, fmt.Sprintf("s%d", idx))
	os.MkdirAll(dir, 0o755)
	defer os.RemoveAll(dir)
	tr := &tracker{open: map[int64]string{}}
	g0 := runtime.NumGoroutine()
	switch kind {
	case "stress-fake", "stress-real":
		n := rng.Range(1, 3)
		ctl := kp.NewCtl(fmt.Sprint(idx), []string{dir})
		ctl.Free = true
		bl := 24
		if kind == "stress-real" {
			ctl.UseRealBackend()
			bl = rng.PickI(12, 14, 16)
		} else {
			if idx%7 == 0 {
				// "however many": more spaces than any worker pool / channel buffer of the keeper has slots
				n = rng.Range(30, 72)
			}
			np := rng.Intn(n + 1)
			c := 0
			ctl.CreatePlotted = func(string) bool { c++; return c <= np }
			ctl.FreeOutcome = func(d *kp.FakeDB) (string, time.Duration) {
				if atomic.LoadInt32(&storm) == 1 {
					return "abort", 0 // (storm phase: every plot gives up at once)
				}
				return rng.PickS("complete", "complete", "abort", "error"), time.Duration(rng.Intn(3000)) * time.Microsecond
			}
		}
		sk, ids, err := newV1(dir, uint64(idx)+1, n, bl)
		if err != nil {
			rec.Note = "setup: " + err.Error()
			ctl.Close([]string{dir}, nil)
			return rec
		}
		defer ctl.Close([]string{dir}, sk)
		a := v1api(sk)
		a.ids = ids
		if w := lastWallet; w != nil {
			a.lock = func(l bool) {
				if l {
					w.Lock()
				} else {
					w.Unlock(nil)
				}
			}
		}
		if kind == "stress-real" && idx%4 == 1 {
			a.plotDir = dir
		}
		if kind == "stress-real" && idx%2 == 0 {
			atomic.StoreInt64(&plotStarts, 0)
			atomic.StoreInt32(&stopAtPlotStart, 1)
			defer atomic.StoreInt32(&stopAtPlotStart, 0)
		}
		G, M := rng.Range(4, 16), rng.Range(20, 60)
		rec.Params = fmt.Sprintf("spaces=%d bl=%d goroutines=%d calls=%d external_unlinks=%v", n, bl, G, M, a.plotDir != "")
		sk.Start()
		if kind == "stress-fake" && idx%3 == 2 && len(ids) > 0 {
			// plot/stop storm on one space: one caller asks for the plot over and over, three cancel it over and over, every
			// plot gives up at once - the plotter's queue is emptied under its feet thousands of times
			atomic.StoreInt32(&storm, 1)
			sid := ids[0]
			stopAt := time.Now().Add(300 * time.Millisecond)
			var swg sync.WaitGroup
			for g := 0; g < 4; g++ {
				g := g
				swg.Add(1)
				go func() {
					defer swg.Done()
					for time.Now().Before(stopAt) {
						if g == 0 {
							tr.do("ActOnWorkSpace(plot) (storm)", func() { a.act(sid, 0) })
						} else {
							tr.do("ActOnWorkSpace(stop) (storm)", func() { a.act(sid, 2) })
						}
					}
				}()
			}
			ok := waitAll(&rec, tr, &swg)
			atomic.StoreInt32(&storm, 0)
			rec.Params += " plot_stop_storm=300ms"
			if !ok {
				break
			}
		}
		if kind == "stress-fake" && idx%3 == 1 {
			// "however many requests are outstanding": 40-80 streaming proof queries arrive at the same moment, each
			// table lookup takes a millisecond or two (more queries in flight than any worker pool of the keeper has workers)
			burst := rng.Range(40, 80)
			ctl.SetProofDelay(time.Duration(rng.Range(1, 2)) * time.Millisecond)
			rec.Params += fmt.Sprintf(" query_burst=%d", burst)
			var bwg sync.WaitGroup
			go0 := make(chan struct{})
			for b := 0; b < burst; b++ {
				bwg.Add(1)
				go func() {
					defer bwg.Done()
					<-go0
					tr.do("GetProofsReader (burst)", func() {
						var ch pocutil.Hash
						rd, err := sk.GetProofsReader(context.Background(), engine.SFAll, ch, false)
						if err != nil {
							return
						}
						for {
							if _, e := rd.Read(); e != nil {
								return
							}
						}
					})
				}()
			}
			close(go0)
			if !waitAll(&rec, tr, &bwg) {
				break
			}
			ctl.SetProofDelay(0)
		}
		if !stress(rng, a, tr, &rec, G, M, true) {
			break
		}
		var wg sync.WaitGroup
		wg.Add(1)
		go func() { defer wg.Done(); tr.do("final Stop", func() { sk.Stop() }) }()
		rec.StopOK = waitAll(&rec, tr, &wg)
		rec.Plots = ctl.PlotCalls
	case "stress-fake-v2":
		n := rng.Range(1, 3)
		if idx%3 == 0 {
			// "however many": more spaces than any worker pool / channel buffer of the keeper has slots
			n = rng.Range(30, 72)
		}
		files := kp.PlantV2Plots(dir, n, uint64(idx)+1)
		defer kp.ForgetV2Plots(files)
		cfg := config.DefaultConfig()
		cfg.Miner.ProofDir = []string{dir}
		cfg.Miner.Generate = rng.Bool()
		ski, err := skchia.NewSpaceKeeperChiaPoS(cfg)
		if err != nil {
			rec.Note = "setup: " + err.Error()
			return rec
		}
		sk := ski.(*skchia.SpaceKeeper)
		a := v2api(sk)
		if x, err := sk.WorkSpaceIDs(enginev2.SFAll); err == nil {
			a.ids = x
		}
		G, M := rng.Range(4, 16), rng.Range(20, 60)
		rec.Params = fmt.Sprintf("v2 spaces=%d goroutines=%d calls=%d", n, G, M)
		sk.Start()
		if !stress(rng, a, tr, &rec, G, M, true) {
			break
		}
		var wg sync.WaitGroup
		wg.Add(1)
		go func() { defer wg.Done(); tr.do("final Stop", func() { sk.Stop() }) }()
		rec.StopOK = waitAll(&rec, tr, &wg)
	case "directed-stop-vs-shutdown":
		// real backend: hold the plot at a hook point so that the space is certainly plotting, then a Stop request and
		// the keeper shutdown arrive together
		ctl := kp.NewCtl(fmt.Sprint(idx), []string{dir})
		ctl.Free = true
		ctl.UseRealBackend()
		sk, ids, err := newV1(dir, uint64(idx)+1, 1, rng.PickI(12, 14))
		if err != nil {
			rec.Note = "setup: " + err.Error()
			ctl.Close([]string{dir}, nil)
			return rec
		}
		defer ctl.Close([]string{dir}, sk)
		gate := make(chan struct{})
		reached := make(chan struct{}, 1)
		myDir := dir
		point := rng.PickS("plot.A.dataSynced", "plot.A.checkpointed", "plot.B.dataSynced")
		var once sync.Once
		directedGate.Store(myDir, func() {
			once.Do(func() {
				reached <- struct{}{}
				<-gate
			})
		})
		defer directedGate.Delete(myDir)
		directedPoint.Store(myDir, point)
		defer directedPoint.Delete(myDir)
		rec.Params = "gate=" + point
		sk.Start()
		sk.ActOnWorkSpace(ids[0], engine.Plot)
		select {
		case <-reached:
		case <-time.After(20 * time.Second):
			rec.Note = "plot never reached the hook point"
			close(gate)
			sk.Stop()
			return rec
		}
		var wg sync.WaitGroup
		wg.Add(2)
		order := rng.Bool()
		go func() {
			defer wg.Done()
			if order {
				runtime.Gosched()
			}
			tr.do("ActOnWorkSpace(stop)", func() { sk.ActOnWorkSpace(ids[0], engine.Stop) })
		}()
		go func() {
			defer wg.Done()
			if !order {
				runtime.Gosched()
			}
			tr.do("final Stop", func() { sk.Stop() })
		}()
		time.Sleep(time.Duration(rng.Intn(2000)) * time.Microsecond)
		close(gate)
		rec.StopOK = waitAll(&rec, tr, &wg)
	case "directed-many-requests":
		// scripted backend, gated: one plot is held in flight while more requests than the pending channel can hold arrive
		ctl := kp.NewCtl(fmt.Sprint(idx), []string{dir})
		held := make(chan *kp.FakeDB, 4)
		ctl.Free = true
		ctl.FreeOutcome = func(d *kp.FakeDB) (string, time.Duration) { return "complete", 24 * time.Hour } // until stopped or finished by us
		ctl.OnPlotStart = func(d *kp.FakeDB) {
			select {
			case held <- d:
			default:
			}
		}
		sk, ids, err := newV1(dir, uint64(idx)+1, 2, 24)
		if err != nil {
			rec.Note = "setup: " + err.Error()
			ctl.Close([]string{dir}, nil)
			return rec
		}
		defer ctl.Close([]string{dir}, sk)
		sk.Start()
		sk.ActOnWorkSpace(ids[0], engine.Plot)
		var db *kp.FakeDB
		select {
		case db = <-held:
		case <-time.After(20 * time.Second):
			rec.Note = "scripted plot never started"
			sk.Stop()
			return rec
		}
		N := rng.PickI(900, 1024, 1025, 1100, 1500)
		rec.Params = fmt.Sprintf("requests=%d", N)
		var wg sync.WaitGroup
		for j := 0; j < N; j++ {
			wg.Add(1)
			mine := j%3 == 0
			go func() {
				defer wg.Done()
				if mine {
					tr.do("ActOnWorkSpace(mine)", func() { sk.ActOnWorkSpace(ids[1], engine.Mine) })
				} else {
					tr.do("ActOnWorkSpace(plot)", func() { sk.ActOnWorkSpace(ids[1], engine.Plot) })
				}
			}()
		}
		// give the senders a moment, then let the held plot end and ask a query - or (every other scenario) stop the
		// keeper while the plot is still held and the requests are still outstanding
		time.Sleep(20 * time.Millisecond)
		if idx%20 >= 10 {
			rec.Params += " stop-while-plot-held"
			wg.Add(1)
			go func() { defer wg.Done(); tr.do("Stop (plot held, requests outstanding)", func() { sk.Stop() }) }()
			if !waitAll(&rec, tr, &wg) {
				break
			}
		}
		db.StopPlot()
		wg.Add(1)
		go func() { defer wg.Done(); tr.do("WorkSpaceInfos", func() { sk.WorkSpaceInfos(engine.SFAll) }) }()
		if !waitAll(&rec, tr, &wg) {
			break
		}
		// end whatever is plotting now, then stop
		stopAll := func() {
			for _, d := range ctl.DBs() {
				d.StopPlot()
			}
		}
		var wg2 sync.WaitGroup
		wg2.Add(1)
		go func() { defer wg2.Done(); tr.do("final Stop", func() { sk.Stop() }) }()
		go func() {
			for k := 0; k < 2000; k++ {
				stopAll()
				time.Sleep(5 * time.Millisecond)
			}
		}()
		rec.StopOK = waitAll(&rec, tr, &wg2)
		rec.Plots = ctl.PlotCalls
	case "directed-start-stop-start":
		ctl := kp.NewCtl(fmt.Sprint(idx), []string{dir})
		ctl.Free = true
		ctl.FreeOutcome = func(d *kp.FakeDB) (string, time.Duration) {
			return "complete", time.Duration(rng.Intn(500)) * time.Microsecond
		}
		sk, ids, err := newV1(dir, uint64(idx)+1, 2, 24)
		if err != nil {
			rec.Note = "setup: " + err.Error()
			ctl.Close([]string{dir}, nil)
			return rec
		}
		defer ctl.Close([]string{dir}, sk)
		var wg sync.WaitGroup
		wg.Add(1)
		go func() {
			defer wg.Done()
			w := lastWallet
			for k := 0; k < 30; k++ {
				if k%5 == 1 {
					// a Start that is refused because the poc wallet is locked, then the normal cycle
					w.Lock()
					tr.do("Start(wallet locked)", func() { sk.Start() })
					w.Unlock(nil)
				}
				tr.do("Start", func() { sk.Start() })
				if k%3 == 0 {
					tr.do("ActOnWorkSpace(plot)", func() { sk.ActOnWorkSpace(ids[k%2], engine.Plot) })
				}
				tr.do("Stop", func() { sk.Stop() })
			}
		}()
		rec.StopOK = waitAll(&rec, tr, &wg)
		rec.Plots = ctl.PlotCalls
	}
	rec.Calls = atomic.LoadInt64(&tr.calls)
	if !rec.Hung {
		// goroutines that remain after Stop (the worker pool's own goroutines are there from construction: compare loosely)
		time.Sleep(2 * time.Millisecond)
		rec.Leaked = runtime.NumGoroutine() - g0
	}
	return rec
}

var directedGate, directedPoint sync.Map // plot dir -> func() / point name

func installPlotGates() {
	for _, p := range []string{"plot.A.dataSynced", "plot.A.checkpointed", "plot.B.dataSynced"} {
		point := p
		verifhook.SetPoint(point, func(args ...interface{}) {
			if len(args) == 0 {
				return
			}
			// the first argument is the *MassDBV1; its file path tells the directory
			v := reflect.ValueOf(args[0])
			if v.Kind() != reflect.Ptr {
				return
			}
			f := v.Elem().FieldByName("filePathB")
			if !f.IsValid() {
				return
			}
			dir := filepath.Dir(f.String())
			if want, ok := directedPoint.Load(dir); ok && want.(string) == point {
				if g, ok := directedGate.Load(dir); ok {
					g.(func())()
				}
			}
		})
	}
}

func kindOf(i int, thorough bool) string {
	kinds := []string{"stress-fake", "stress-fake", "stress-fake", "stress-fake-v2", "stress-real", "stress-real", "directed-stop-vs-shutdown", "directed-stop-vs-shutdown", "directed-many-requests", "directed-start-stop-start"}
	return kinds[i%len(kinds)]
}

func child(seed int64, from, to int, out, prog string, thorough bool) {
	dir, _ := os.MkdirTemp("", "verif-c13-child-")
	defer os.RemoveAll(dir)
	wl.Setup(filepath.Join(dir, "log"), "error")
	kp.InstallBackend()
	kp.InstallBackendV2()
	installPlotGates()
	installSendHook()
	// real plots: small windows so that several windows and stop checks occur
	verifhook.SetSize("plot.cache", func(v uint64) uint64 {
		if v > 4096 {
			return 4096
		}
		return v
	})
	of, _ := os.Create(out)
	defer of.Close()
	pf, _ := os.OpenFile(prog, os.O_CREATE|os.O_WRONLY|os.O_APPEND, 0o644)
	defer pf.Close()
	root := vh.NewRng(uint64(seed)).Derive("C13", 0)
	for i := from; i < to; i++ {
		kind := kindOf(i, thorough)
		fmt.Fprintf(pf, "START %d %s\n", i, kind)
		rec := scenario(root.Derive("scen", i), i, kind, dir)
		rec.Sends, rec.SendCancels = atomic.SwapInt64(&sendsSeen, 0), atomic.SwapInt64(&sendsCancelled, 0)
		rec.StopsAtStart = atomic.SwapInt64(&stopsAtStart, 0)
		rec.StopsHeld = atomic.SwapInt64(&stopsHeld, 0)
		atomic.StoreInt64(&lateStops, 0)
		b, _ := json.Marshal(rec)
		of.Write(append(b, '\n'))
		of.Sync()
		fmt.Fprintf(pf, "DONE %d\n", i)
		if rec.Hung {
			// goroutines of this scenario are stuck for good: leave the rest of the batch to a fresh process
			os.Exit(7)
		}
	}
}

var blockedRe = regexp.MustCompile(`(?s)goroutine \d+ \[(semacquire|sync\.RWMutex\.R?Lock|sync\.Mutex\.Lock|chan send|chan receive|select|sync\.WaitGroup\.Wait)[^\]]*\]:\n(.*?)\n\n`)

// blockedInRepo extracts, from a goroutine dump, the repository functions in which goroutines are blocked.
func blockedInRepo(dump string) []string {
	seen := map[string]bool{}
	for _, m := range blockedRe.FindAllStringSubmatch(dump+"\n\n", -1) {
		for _, l := range strings.Split(m[2], "\n") {
			l = strings.TrimSpace(l)
			if strings.HasPrefix(l, "massnet.org/mass/poc/") {
				fn := l
				if j := strings.LastIndex(fn, "("); j > 0 {
					fn = fn[:j]
				}
				seen[m[1]+" in "+fn] = true
				break
			}
		}
	}
	var out []string
	for k := range seen {
		out = append(out, k)
	}
	sort.Strings(out)
	return out
}

func main() {
	if len(os.Args) > 1 && os.Args[1] == "-child" {
		fs := flag.NewFlagSet("child", flag.ExitOnError)
		seed := fs.Int64("seed", 1, "")
		from := fs.Int("from", 0, "")
		to := fs.Int("to", 0, "")
		out := fs.String("out", "", "")
		prog := fs.String("prog", "", "")
		th := fs.Bool("thorough", false, "")
		fs.Parse(os.Args[2:])
		child(*seed, *from, *to, *out, *prog, *th)
		return
	}
	run := vh.NewRun("C13", "exploration")
	n := run.N(200, 5000)
	batch := run.N(10, 50)
	raceBase := filepath.Join(run.Scratch, "race")
	type job struct{ from, to int }
	var mu sync.Mutex
	queue := []job{}
	for i := 0; i < n; i += batch {
		j := i + batch
		if j > n {
			j = n
		}
		if run.Only >= 0 && (run.Only < i || run.Only >= j) {
			continue
		}
		queue = append(queue, job{i, j})
	}
	bi := 0
	var wg sync.WaitGroup
	for w := 0; w < 8; w++ {
		wg.Add(1)
		go func() {
			defer wg.Done()
			for {
				mu.Lock()
				if len(queue) == 0 || run.Violations() >= 8 {
					// (enough witnesses: every further hung scenario would cost a full watchdog period)
					if len(queue) > 0 {
						run.Count("batches_skipped_after_8_violations", int64(len(queue)))
						queue = nil
					}
					mu.Unlock()
					return
				}
				jb := queue[0]
				queue = queue[1:]
				bi++
				id := bi
				mu.Unlock()
				out := filepath.Join(run.Scratch, fmt.Sprintf("rec-%d.jsonl", id))
				prog := filepath.Join(run.Scratch, fmt.Sprintf("prog-%d", id))
				logf := filepath.Join(run.Scratch, fmt.Sprintf("child-%d.out", id))
				args := []string{os.Args[0], "-child", "-seed", fmt.Sprint(run.Seed), "-from", fmt.Sprint(jb.from), "-to", fmt.Sprint(jb.to), "-out", out, "-prog", prog}
				res := vh.RunChild(args, []string{"GORACE=halt_on_error=0 log_path=" + raceBase}, logf, 15*time.Minute)
				run.Count("child_batches", 1)
				last, lastKind, doneUpTo := -1, "", jb.from-1
				for _, l := range vh.ReadLines(prog) {
					var x int
					var k string
					if _, err := fmt.Sscanf(l, "START %d %s", &x, &k); err == nil {
						last, lastKind = x, k
					}
					if _, err := fmt.Sscanf(l, "DONE %d", &x); err == nil {
						doneUpTo = x
						if x == last {
							last = -1
						}
					}
				}
				for _, l := range vh.ReadLines(out) {
					var rec Rec
					if json.Unmarshal([]byte(l), &rec) == nil {
						judge(run, &rec)
					}
				}
				switch {
				case res.TimedOut:
					run.Drop("child batch watchdog fired")
				case res.ExitCode == 7:
					// a hung scenario ended the batch: continue behind it in a fresh process
					if doneUpTo+1 < jb.to {
						mu.Lock()
						queue = append(queue, job{doneUpTo + 1, jb.to})
						mu.Unlock()
					}
				case res.ExitCode != 0 && res.ExitCode != 66:
					fatal := vh.ScanFatal(logf, 14)
					what, site := "exit", "unknown"
					if len(fatal) > 0 {
						what = fatal[0]
					}
					for _, l := range fatal {
						if strings.Contains(l, "massnet.org/mass/") {
							site = strings.TrimSpace(l)
							if j := strings.LastIndex(site, "("); j > 0 {
								site = site[:j]
							}
							break
						}
					}
					if fr := vh.DyingFrames(logf); len(fr) > 0 && vh.CodeUnderTestFrame(fr) == "" {
						// died in harness code: never a verdict
						run.Drop("child died in harness code")
						run.Inconclusive("a child process died in harness code: " + fr[0])
						break
					}
					run.Violate(last, "keeper-process-panicked", map[string]string{"what": what, "site": site, "scenario_kind": lastKind}, map[string]interface{}{"exit": res.ExitCode, "signal": res.Signal, "fatal": fatal, "scenario": last})
					run.Case(vh.HashS("crash", fmt.Sprint(last)), true)
					if last >= 0 && last+1 < jb.to {
						mu.Lock()
						queue = append(queue, job{last + 1, jb.to})
						mu.Unlock()
					}
				}
			}
		}()
	}
	wg.Wait()
	// race reports: observations, not verdicts (the statement does not promise race freedom)
	reports := vh.ParseRaceLogs(raceBase + ".*")
	pairs := map[string]bool{}
	for _, r := range reports {
		if r.InRepo("massnet.org/mass/") {
			pairs[r.Pair()] = true
		}
	}
	var pl []string
	for p := range pairs {
		pl = append(pl, p)
	}
	sort.Strings(pl)
	run.Set("race_pairs_in_repository_code(observations)", pl)
	run.Count("race_reports_total", int64(len(reports)))
	run.Finish("case = one scenario in a child process built with -race: free-running stress (4-16 goroutines x 20-60 calls over plot/mine/stop/remove/delete single+bulk, queries, miner offers, Start, Stop) on the v1 keeper over scripted plots, on the v2 keeper, and on the v1 keeper over the REAL massdb.v1 backend (bit lengths 12-16, 4 KiB plot windows), plus directed schedules (Stop request vs keeper shutdown on a plot held at a hook point; 900-1500 requests while a plot is held; Start/Stop/Start bursts); every call is bracketed by call/return events; non-trivial = >= 20 calls returned and Stop was exercised; distinct by scenario index and parameters", run.N(100, 2500))
}

func judge(run *vh.Run, rec *Rec) {
	run.Count("scenarios:"+rec.Kind, 1)
	run.Count("calls_returned", rec.Calls)
	run.Count("plots_started", int64(rec.Plots))
	if rec.Note != "" {
		run.Drop(rec.Kind + ": " + rec.Note)
		return
	}
	if rec.Hung {
		blocked := blockedInRepo(rec.Dump)
		if len(blocked) == 0 {
			run.Drop("calls still open at the watchdog but no goroutine blocked in repository frames")
			return
		}
		// the call sites that never returned, without arguments
		open := map[string]bool{}
		for _, o := range rec.Open {
			open[o] = true
		}
		var ol []string
		for o := range open {
			ol = append(ol, o)
		}
		sort.Strings(ol)
		// a stable signature of the blocking pattern (the full set of blocked frames varies from run to run)
		sig := "other"
		for _, b := range blocked {
			if strings.HasPrefix(b, "chan send in") && (strings.HasSuffix(b, ").PlotWS") || strings.HasSuffix(b, ").MineWS") || strings.HasSuffix(b, ").enqueue")) {
				sig = "send-on-full-request-channel-while-holding-state-lock"
			}
		}
		if sig == "other" && len(blocked) > 0 {
			sig = blocked[0]
		}
		run.Violate(rec.Idx, "keeper-calls-never-returned", map[string]string{"scenario_kind": rec.Kind, "pattern": sig}, map[string]interface{}{"params": rec.Params, "blocked": blocked, "open_calls": ol, "open_count": len(rec.Open), "goroutine_dump_head": head(rec.Dump, 20000)})
	} else if !rec.StopOK {
		run.Violate(rec.Idx, "keeper-stop-did-not-return", map[string]string{"scenario_kind": rec.Kind}, map[string]interface{}{"params": rec.Params})
	}
	run.Count("observed:streamed_proof_sends", rec.Sends)
	run.Count("observed:queries_given_up_exactly_at_a_send", rec.SendCancels)
	run.Count("observed:stops_delivered_at_plot_start", rec.StopsAtStart)
	run.Count("observed:stop_requests_held_40ms_before_the_stop_lock", rec.StopsHeld)
	if rec.Leaked > 40 {
		run.Count("observed:scenarios_with_more_than_40_extra_goroutines_after_stop", 1)
	}
	run.Case(vh.HashS(rec.Kind, rec.Params, fmt.Sprint(rec.Idx)), rec.Calls >= 20 || rec.Hung || strings.HasPrefix(rec.Kind, "directed"))
	if rec.Idx < 3 {
		r := *rec
		r.Dump = ""
		run.Sample(r)
	}
}

func head(s string, n int) string {
	if len(s) > n {
		return s[:n]
	}
	return s
}
