// c14: the wallet API is safe under concurrent use.
// Built with -race. Child processes run many short concurrent histories (2-4 goroutines, mixed operations on 1-2
// keystores) on the real wallet; every call is recorded at the client boundary (call before invoke, return after
// reply, one monotonic clock). The parent (1) filters the race-detector log for reports whose two accesses are both
// in repository code, (2) checks every history with porcupine against a sequential wallet model, (3) judges the
// quiescent end state (H4 locked-memory invariant, reopen equality), (4) treats a dead child as a crash.
package main

import (
	"bufio"
	"encoding/hex"
	"encoding/json"
	"flag"
	"fmt"
	"os"
	"path/filepath"
	"regexp"
	"runtime"
	"sort"
	"strings"
	"sync"
	"sync/atomic"
	"time"

	"github.com/anishathalye/porcupine"
	"github.com/massnetorg/mass-core/pocec"
	"massnet.org/mass/poc/wallet/db"
	"massnet.org/mass/poc/wallet/keystore"
	"verif/harness/internal/vh"
	"verif/harness/internal/wl"
)

type In struct {
	Op     string `json:"op"`
	K      int    `json:"k"`
	Br     int    `json:"br,omitempty"`
	N      int    `json:"n,omitempty"`
	Idx    int    `json:"idx,omitempty"` // index of the key asked about (sign / ordinal / addr)
	Remark string `json:"remark,omitempty"`
}

type Out struct {
	Err    bool     `json:"err,omitempty"`
	ErrS   string   `json:"errs,omitempty"`
	Keys   []int    `json:"keys,omitempty"` // issued indices (genpub: [k, idx]; next: indices)
	Bad    string   `json:"bad,omitempty"`  // something outside the model's vocabulary (e.g. unknown key returned)
	Ord    uint32   `json:"ord,omitempty"`
	Found  bool     `json:"found,omitempty"`
	B      bool     `json:"b,omitempty"`
	S      string   `json:"s,omitempty"`
	Ext    int      `json:"ext,omitempty"`
	Int    int      `json:"int,omitempty"`
	Prefix bool     `json:"prefix,omitempty"`
	Names  []string `json:"names,omitempty"`
}

type OpRec struct {
	C    int   `json:"c"`
	In   In    `json:"in"`
	Call int64 `json:"call"`
	Out  Out   `json:"out"`
	Ret  int64 `json:"ret"`
}

type HistRec struct {
	Idx      int         `json:"idx"`
	Seeds    []string    `json:"seeds"`
	IDs      []string    `json:"ids"`
	Init     State       `json:"init"`
	Ops      []OpRec     `json:"ops"`
	EndNotes []string    `json:"end_notes"` // violations found at the quiescent end (H4, reopen)
	EndKinds []string    `json:"end_kinds"`
	Hung     bool        `json:"hung,omitempty"` // operations still open at the history watchdog
	Blocked  []string    `json:"blocked_in,omitempty"`
	Pauses   int64       `json:"store_pauses,omitempty"` // pauses the store inserted after commits (wl.DelayDB)
	Stress   *Stress     `json:"stress,omitempty"`
	Gov      *Governance `json:"governance,omitempty"`
}

// Stress is the record of an observer-stress history: writers issue keys one call after the other while readers
// poll counts, listings and lookups as fast as they can. Every answer is judged against the interval
// [acknowledged before the call, requested by the time it returned] - what any linearizable wallet must satisfy.
type Stress struct {
	Writers    []string `json:"writers"`
	Issued     [2]int64 `json:"issued"`
	Reads      int64    `json:"reads"`
	ReadsMid   int64    `json:"reads_while_a_write_was_in_flight"`
	Distinct   int      `json:"distinct_answers"`
	Kinds      []string `json:"kinds,omitempty"`
	Violations []string `json:"violations,omitempty"`
}

// State is the sequential model's state (comparable, so porcupine can memoise it).
type State struct {
	Locked bool         `json:"locked"`
	Next   [2][2]uint32 `json:"next"`
	Remark [2]string    `json:"remark"`
	NKs    int          `json:"nks"`
}

func step(st State, in In, out Out) (bool, State) {
	k := in.K
	switch in.Op {
	case "genpub":
		if out.Err || out.Bad != "" || len(out.Keys) != 2 {
			return false, st
		}
		kk, idx := out.Keys[0], uint32(out.Keys[1])
		if kk < 0 || kk >= st.NKs || idx != st.Next[kk][0] || out.Ord != idx {
			return false, st
		}
		st.Next[kk][0]++
		return true, st
	case "next":
		if out.Err || out.Bad != "" || len(out.Keys) != in.N {
			return false, st
		}
		for j, idx := range out.Keys {
			if uint32(idx) != st.Next[k][in.Br]+uint32(j) {
				return false, st
			}
		}
		st.Next[k][in.Br] += uint32(in.N)
		return true, st
	case "sign":
		issued := uint32(in.Idx) < st.Next[k][in.Br]
		want := !st.Locked && issued
		if out.Bad != "" {
			return false, st
		}
		return out.B == want, st
	case "ordinal":
		issued := uint32(in.Idx) < st.Next[k][in.Br]
		if out.Found != issued {
			return false, st
		}
		return !issued || out.Ord == uint32(in.Idx), st
	case "addr":
		issued := uint32(in.Idx) < st.Next[k][in.Br]
		return out.Found == issued, st
	case "names":
		return len(out.Names) == st.NKs, st
	case "count", "list":
		return out.Bad == "" && out.Ext == int(st.Next[k][0]) && out.Int == int(st.Next[k][1]) && (in.Op == "count" || out.Prefix), st
	case "remark?":
		return out.S == st.Remark[k], st
	case "remark!":
		if out.Err {
			return false, st
		}
		st.Remark[k] = in.Remark
		return true, st
	case "export":
		if out.Err {
			return false, st
		}
		return out.Ext == int(st.Next[k][0]) && out.Int == int(st.Next[k][1]) && out.S == st.Remark[k], st
	case "lock":
		st.Locked = true
		return true, st
	case "unlock":
		if out.Err {
			// sequentially, Unlock(current) can only fail on an already unlocked wallet (it then stays unlocked)
			return !st.Locked, st
		}
		st.Locked = false
		return true, st
	case "locked?":
		return out.B == st.Locked, st
	}
	return false, st
}

var model = porcupine.Model{
	Init: func() interface{} { return State{} },
	Step: func(s, i, o interface{}) (bool, interface{}) {
		ok, ns := step(s.(State), i.(In), o.(Out))
		return ok, ns
	},
	DescribeOperation: func(i, o interface{}) string {
		a, _ := json.Marshal(i)
		b, _ := json.Marshal(o)
		return string(a) + " -> " + string(b)
	},
}

// ---------------------------------------------------------------- child

type keyRef struct{ k, br, idx int }

func child(seed int64, from, to int, outPath, progPath string) {
	dir, _ := os.MkdirTemp("", "verif-c14-child-")
	defer os.RemoveAll(dir)
	wl.Setup(filepath.Join(dir, "log"), "error")
	of, _ := os.Create(outPath)
	defer of.Close()
	w := bufio.NewWriter(of)
	pf, _ := os.OpenFile(progPath, os.O_CREATE|os.O_WRONLY|os.O_APPEND, 0o644)
	defer pf.Close()
	root := vh.NewRng(uint64(seed)).Derive("C14", 0)
	hung := 0
	for i := from; i < to; i++ {
		fmt.Fprintf(pf, "START %d\n", i)
		rec := oneHistory(root.Derive("hist", i), i, filepath.Join(dir, fmt.Sprintf("h%d", i)))
		b, _ := json.Marshal(rec)
		w.Write(b)
		w.WriteByte('\n')
		w.Flush()
		fmt.Fprintf(pf, "DONE %d\n", i)
		if rec.Hung {
			// every further hang costs the full watchdog: after two the rest of the batch is not run
			if hung++; hung >= 2 {
				fmt.Fprintf(pf, "ABANDONED %d\n", i+1)
				break
			}
		}
	}
}

func oneHistory(rng *vh.Rng, idx int, dir string) HistRec {
	os.MkdirAll(dir, 0o755)
	defer os.RemoveAll(dir)
	rec := HistRec{Idx: idx}
	if idx%10 == 9 {
		return stressHistory(rng, idx, dir)
	}
	if idx%10 == 4 {
		return governanceHistory(rng, idx, dir)
	}
	pub, priv := wl.FreshPass(rng), wl.FreshPass(rng)
	// two in three histories run over a store that pauses after a seeded share of its commits (see wl.DelayDB)
	var wrap wl.Wrap
	var ddb *wl.DelayDB
	if idx%3 != 0 {
		dseed := rng.Uint64()
		wrap = func(d db.DB) db.DB { ddb = wl.NewDelayDB(d, dseed, 35, 4*time.Millisecond); return ddb }
	}
	wa, err := wl.Create(filepath.Join(dir, "keystore"), pub, wrap)
	if err != nil {
		rec.EndNotes = append(rec.EndNotes, "setup failed: "+err.Error())
		return rec
	}
	nks := rng.Range(1, 2)
	var ds []*wl.Derived
	st := State{Locked: true, NKs: nks}
	for k := 0; k < nks; k++ {
		seed := rng.Bytes(32)
		st.Remark[k] = fmt.Sprintf("r%d-init", k)
		id, err := wa.M.NewKeystore(priv, seed, st.Remark[k], wl.Net(), wl.FastScrypt)
		if err != nil {
			rec.EndNotes = append(rec.EndNotes, "setup failed: "+err.Error())
			wa.Close()
			return rec
		}
		d, _ := wl.Derive(seed)
		ds = append(ds, d)
		rec.Seeds = append(rec.Seeds, hex.EncodeToString(seed))
		rec.IDs = append(rec.IDs, id)
		for br := 0; br < 2; br++ {
			n := rng.Intn(3)
			if n > 0 {
				wa.M.NextAddresses(id, br == 1, uint32(n))
				st.Next[k][br] = uint32(n)
			}
		}
	}
	// half of the histories start after a private passphrase change made in this process (the keystores' key
	// material is then the one the change installed, not the one loaded from the store)
	if rng.Bool() {
		np := wl.FreshPass(rng)
		if err := wa.M.ChangePrivPassphrase(priv, np, wl.FastScrypt); err == nil {
			priv = np
		}
	}
	if rng.Bool() {
		wa.M.Unlock(priv)
		st.Locked = false
	}
	rec.Init = st
	// lookup tables for expected keys (enough head-room for this history)
	pubOf := func(k, br, i int) string { return ds[k].PubHex(uint32(br), uint32(i)) }
	known := map[string]keyRef{}
	for k := 0; k < nks; k++ {
		for br := 0; br < 2; br++ {
			for i := 0; i < 40; i++ {
				known[pubOf(k, br, i)] = keyRef{k, br, i}
			}
		}
	}
	G := rng.Range(2, 4)
	per := rng.Range(4, 32/G)
	plans := make([][]In, G)
	rc := 0
	for g := 0; g < G; g++ {
		for j := 0; j < per; j++ {
			k := rng.Intn(nks)
			in := In{K: k}
			ws := []int{20, 12, 14, 8, 4, 2, 5, 5, 5, 5, 4, 5, 7, 5}
			if idx%5 == 3 {
				// export-heavy: exports of both keystores racing each other, lock changes and issuance
				ws = []int{6, 4, 4, 2, 1, 1, 2, 3, 3, 3, 40, 6, 6, 2}
			}
			if idx%5 == 2 {
				// remark-heavy: remark changes racing with each other, with remark reads and with exports
				ws = []int{4, 3, 2, 1, 1, 1, 2, 2, 14, 30, 12, 2, 3, 1}
			}
			switch rng.Weighted(ws...) {
			case 0:
				in.Op = "genpub"
			case 1:
				in.Op, in.Br, in.N = "next", rng.Intn(2), rng.Range(1, 2)
			case 2:
				in.Op, in.Br, in.Idx = "sign", rng.Intn(2), rng.Intn(8)
			case 3:
				in.Op, in.Br, in.Idx = "ordinal", rng.Intn(2), rng.Intn(8)
			case 4:
				in.Op, in.Br, in.Idx = "addr", rng.Intn(2), rng.Intn(8)
			case 5:
				in.Op = "names"
			case 6:
				in.Op = "count"
			case 7:
				in.Op = "list"
			case 8:
				in.Op = "remark?"
			case 9:
				rc++
				in.Op, in.Remark = "remark!", fmt.Sprintf("r%d-g%d-%d", k, g, rc) // unique: a read identifies its write
			case 10:
				in.Op = "export"
			case 11:
				in.Op = "lock"
			case 12:
				in.Op = "unlock"
			case 13:
				in.Op = "locked?"
			}
			plans[g] = append(plans[g], in)
		}
	}
	t0 := time.Now()
	now := func() int64 { return int64(time.Since(t0)) }
	var mu sync.Mutex
	var wg sync.WaitGroup
	start := make(chan struct{})
	for g := 0; g < G; g++ {
		wg.Add(1)
		go func(g int) {
			defer wg.Done()
			<-start
			for _, in := range plans[g] {
				call := now()
				out := exec(wa, rec.IDs, priv, in, pubOf, known)
				ret := now()
				mu.Lock()
				rec.Ops = append(rec.Ops, OpRec{C: g, In: in, Call: call, Out: out, Ret: ret})
				mu.Unlock()
			}
		}(g)
	}
	close(start)
	if blocked, timedOut := waitOrDump(&wg, historyWatchdog); timedOut {
		// operations that never returned: a verdict only if the dump shows goroutines blocked on a lock inside the
		// wallet code (the judge drops the history otherwise)
		mu.Lock()
		rec.Hung, rec.Blocked = true, blocked
		mu.Unlock()
		return rec
	}
	if ddb != nil {
		rec.Pauses = ddb.Pauses
	}
	// quiescent end state
	wa.M.Lock()
	_, views := wa.M.VerifInspect()
	for _, v := range views {
		if v.Unlocked || len(v.AddrPrivKeys) > 0 || v.AcctKeyPriv || v.ExternalBranchPriv || v.InternalBranchPriv || v.MasterKeyPrivValid {
			rec.EndKinds = append(rec.EndKinds, "secret-in-memory-after-final-lock")
			rec.EndNotes = append(rec.EndNotes, fmt.Sprintf("keystore %s: unlocked=%v addrPriv=%d acct=%v ext=%v int=%v masterValid=%v", v.Name, v.Unlocked, len(v.AddrPrivKeys), v.AcctKeyPriv, v.ExternalBranchPriv, v.InternalBranchPriv, v.MasterKeyPrivValid))
		}
	}
	before := wa.Snapshot()
	wa.Close()
	wb, err := wl.Open(filepath.Join(dir, "keystore"), pub, nil)
	if err != nil {
		rec.EndKinds = append(rec.EndKinds, "reopen-failed-after-concurrent-history")
		rec.EndNotes = append(rec.EndNotes, err.Error())
		return rec
	}
	if d := wl.Diff(before, wb.Snapshot()); d != "" {
		rec.EndKinds = append(rec.EndKinds, "reopened-store-differs-from-final-running-state")
		rec.EndNotes = append(rec.EndNotes, d)
	}
	wb.Close()
	return rec
}

// Governance is the record of a governance-race history: operations that ADD a keystore under the current private
// passphrase (ImportKeystore, NewKeystore) race with ChangePrivPassphrase. Whatever order they take effect in, afterwards
// one passphrase must open every keystore: the new one if the change was acknowledged, else the old one.
type Governance struct {
	Rounds int      `json:"rounds"`
	Both   int      `json:"rounds_where_adder_and_change_both_succeeded"`
	Kinds  []string `json:"kinds,omitempty"`
	Notes  []string `json:"notes,omitempty"`
}

func governanceHistory(rng *vh.Rng, idx int, dir string) HistRec {
	rec := HistRec{Idx: idx, Gov: &Governance{}}
	g := rec.Gov
	pub, cur := wl.FreshPass(rng), wl.FreshPass(rng)
	wa, err := wl.Create(filepath.Join(dir, "keystore"), pub, nil)
	if err != nil {
		rec.EndNotes = append(rec.EndNotes, "setup failed: "+err.Error())
		return rec
	}
	defer wa.Close()
	xpub, xpass := wl.FreshPass(rng), wl.FreshPass(rng)
	wx, err := wl.Create(filepath.Join(dir, "exporter"), xpub, nil)
	if err != nil {
		rec.EndNotes = append(rec.EndNotes, "setup failed: "+err.Error())
		return rec
	}
	defer wx.Close()
	if _, err := wa.M.NewKeystore(cur, rng.Bytes(32), "resident", wl.Net(), wl.FastScrypt); err != nil {
		rec.EndNotes = append(rec.EndNotes, "setup failed: "+err.Error())
		return rec
	}
	if rng.Bool() {
		wa.M.Unlock(cur)
	}
	rounds := rng.Range(2, 4)
	for r := 0; r < rounds; r++ {
		next := wl.FreshPass(rng)
		adder := rng.PickS("import", "import", "create")
		var js []byte
		if adder == "import" {
			xid, err := wx.M.NewKeystore(xpass, rng.Bytes(32), fmt.Sprintf("x%d", r), wl.Net(), wl.FastScrypt)
			if err != nil {
				break
			}
			wx.M.NextAddresses(xid, false, uint32(rng.Range(1, 12))) // more keys: a longer import transaction
			if js, err = wx.M.ExportKeystore(xid, xpass); err != nil {
				break
			}
		}
		seed := rng.Bytes(32)
		skewA, skewB := time.Duration(rng.Intn(1500))*time.Microsecond, time.Duration(rng.Intn(1500))*time.Microsecond
		var errAdd, errChg error
		var wg sync.WaitGroup
		wg.Add(2)
		old := cur
		go func() {
			defer wg.Done()
			time.Sleep(skewA)
			if adder == "import" {
				_, _, errAdd = wa.M.ImportKeystore(js, xpass, old)
			} else {
				_, errAdd = wa.M.NewKeystore(old, seed, "added", wl.Net(), wl.FastScrypt)
			}
		}()
		go func() {
			defer wg.Done()
			time.Sleep(skewB)
			errChg = wa.M.ChangePrivPassphrase(old, next, wl.FastScrypt)
		}()
		wg.Wait()
		g.Rounds++
		if errAdd == nil && errChg == nil {
			g.Both++
		}
		want := old
		if errChg == nil {
			want = next
		}
		// governance probe: which of the two passphrases exports each keystore
		acc := map[string]string{}
		bad := false
		for _, id := range wa.M.ListKeystoreNames() {
			_, eo := wa.M.ExportKeystore(id, old)
			_, en := wa.M.ExportKeystore(id, next)
			acc[id] = fmt.Sprintf("old=%v new=%v", eo == nil, en == nil)
			if (eo == nil) != (errChg != nil) || (en == nil) != (errChg == nil) {
				bad = true
			}
		}
		if bad {
			g.Kinds = append(g.Kinds, "passphrase-governs-some-keystores-only")
			g.Notes = append(g.Notes, fmt.Sprintf("round %d: %s (err %v) raced ChangePrivPassphrase (err %v); afterwards the keystores accept: %v", r, adder, errAdd, errChg, acc))
			break
		}
		// and the wallet unlocks as a whole with the governing passphrase
		wa.M.Lock()
		if err := wa.M.Unlock(want); err != nil {
			g.Kinds = append(g.Kinds, "governing-passphrase-does-not-unlock")
			g.Notes = append(g.Notes, fmt.Sprintf("round %d: %s (err %v) raced ChangePrivPassphrase (err %v); Unlock with the governing passphrase: %v", r, adder, errAdd, errChg, err))
			break
		}
		cur = want
	}
	return rec
}

const historyWatchdog = 60 * time.Second

var lockBlockedRe = regexp.MustCompile(`(?s)goroutine \d+ \[(semacquire|sync\.RWMutex\.R?Lock|sync\.Mutex\.Lock|sync\.WaitGroup\.Wait)[^\]]*\]:\n(.*?)\n\n`)

var argsRe = regexp.MustCompile(`\((?:0x|\{|\.\.\.|\)).*$`)

// waitOrDump waits for wg; after d it returns the wallet-code functions in which goroutines are blocked on a lock.
func waitOrDump(wg *sync.WaitGroup, d time.Duration) ([]string, bool) {
	done := make(chan struct{})
	go func() { wg.Wait(); close(done) }()
	select {
	case <-done:
		return nil, false
	case <-time.After(d):
	}
	buf := make([]byte, 4<<20)
	dump := string(buf[:runtime.Stack(buf, true)])
	seen := map[string]bool{}
	var out []string
	for _, m := range lockBlockedRe.FindAllStringSubmatch(dump+"\n\n", -1) {
		for _, l := range strings.Split(m[2], "\n") {
			l = strings.TrimSpace(l)
			if strings.HasPrefix(l, "massnet.org/mass/poc/wallet") {
				fn := m[1] + " in " + strings.TrimPrefix(argsRe.ReplaceAllString(l, ""), "massnet.org/mass/")
				if !seen[fn] {
					seen[fn] = true
					out = append(out, fn)
				}
				break
			}
		}
	}
	sort.Strings(out)
	return out, true
}

// stressHistory: see Stress.
func stressHistory(rng *vh.Rng, idx int, dir string) HistRec {
	rec := HistRec{Idx: idx, Stress: &Stress{}}
	st := rec.Stress
	pub, priv := wl.FreshPass(rng), wl.FreshPass(rng)
	wa, err := wl.Create(filepath.Join(dir, "keystore"), pub, nil)
	if err != nil {
		rec.EndNotes = append(rec.EndNotes, "setup failed: "+err.Error())
		return rec
	}
	defer wa.Close()
	seed := rng.Bytes(32)
	id, err := wa.M.NewKeystore(priv, seed, "stress", wl.Net(), wl.FastScrypt)
	if err != nil {
		rec.EndNotes = append(rec.EndNotes, "setup failed: "+err.Error())
		return rec
	}
	rec.Seeds, rec.IDs = []string{hex.EncodeToString(seed)}, []string{id}
	d, _ := wl.Derive(seed)
	const maxKeys = 96
	known := map[string]keyRef{}
	for br := 0; br < 2; br++ {
		for i := 0; i < maxKeys+8; i++ {
			known[d.PubHex(uint32(br), uint32(i))] = keyRef{0, br, i}
		}
	}
	if rng.Bool() {
		wa.M.Unlock(priv)
	}
	var am *keystore.AddrManager
	for _, a := range wa.M.GetManagedAddrManager() {
		if a.Name() == id {
			am = a
		}
	}
	var started, done [2]int64
	var vmu sync.Mutex
	answers := map[string]bool{}
	viol := func(kind, msg string) {
		vmu.Lock()
		defer vmu.Unlock()
		for _, k := range st.Kinds {
			if k == kind {
				if len(st.Violations) < 12 {
					st.Violations = append(st.Violations, msg)
				}
				return
			}
		}
		st.Kinds = append(st.Kinds, kind)
		st.Violations = append(st.Violations, msg)
	}
	// writers: which branches are being issued on. An idle branch makes every answer about it exact.
	mode := rng.PickS("ext-genpub", "ext-next", "int-next", "ext+int", "ext+int")
	var wwg, rwg sync.WaitGroup
	stop := make(chan struct{})
	writer := func(br int, genpub bool, total int, r *vh.Rng) {
		defer wwg.Done()
		for n := 0; n < total; {
			k := 1
			if !genpub {
				k = r.Range(1, 3)
			}
			atomic.AddInt64(&started[br], int64(k))
			var err error
			if genpub {
				_, _, err = wa.M.GenerateNewPublicKey()
			} else {
				_, err = wa.M.NextAddresses(id, br == 1, uint32(k))
			}
			if err != nil {
				viol("issuance-failed-under-observers", fmt.Sprintf("branch %d: %v", br, err))
				return
			}
			atomic.AddInt64(&done[br], int64(k))
			n += k
		}
	}
	total := rng.Range(40, maxKeys-4)
	switch mode {
	case "ext-genpub":
		st.Writers = []string{"GenerateNewPublicKey"}
		wwg.Add(1)
		go writer(0, true, total, rng.Derive("w", 0))
	case "ext-next":
		st.Writers = []string{"NextAddresses(external)"}
		wwg.Add(1)
		go writer(0, false, total, rng.Derive("w", 0))
	case "int-next":
		st.Writers = []string{"NextAddresses(internal)"}
		wwg.Add(1)
		go writer(1, false, total, rng.Derive("w", 1))
	default:
		st.Writers = []string{"GenerateNewPublicKey", "NextAddresses(internal)"}
		wwg.Add(2)
		go writer(0, true, total/2, rng.Derive("w", 0))
		go writer(1, false, total/2, rng.Derive("w", 1))
	}
	reader := func(ri int, r *vh.Rng) {
		defer rwg.Done()
		last := [2]int{}
		for i := 0; ; i++ {
			select {
			case <-stop:
				return
			default:
			}
			lo := [2]int64{atomic.LoadInt64(&done[0]), atomic.LoadInt64(&done[1])}
			what := ri % 3 // reader 0 polls counts only (cheap: keeps the keystore lock busy), reader 1 listings, reader 2 lookups
			if ri >= 3 {
				what = i % 3
			}
			var got [2]int
			var br, q int
			var found bool
			switch what {
			case 0:
				got[0], got[1] = am.CountAddresses()
			case 1:
				seen := [2]map[int]bool{{}, {}}
				for _, ma := range am.ManagedAddresses() {
					kr, ok := known[hex.EncodeToString(ma.PubKey().SerializeCompressed())]
					if !ok {
						viol("listing-contains-unknown-key", "a listed key is not a key of this keystore")
						continue
					}
					seen[kr.br][kr.idx] = true
				}
				if n := len(am.ListAddresses()); n < len(seen[0])+len(seen[1]) {
					viol("address-listings-disagree", fmt.Sprintf("ListAddresses lists %d addresses after ManagedAddresses listed %d", n, len(seen[0])+len(seen[1])))
				}
				for b := 0; b < 2; b++ {
					got[b] = len(seen[b])
					for j := 0; j < len(seen[b]); j++ {
						if !seen[b][j] {
							viol("listing-not-a-prefix", fmt.Sprintf("branch %d lists %d keys but not index %d", b, len(seen[b]), j))
							break
						}
					}
				}
			case 2:
				br = 0
				q = int(lo[0]) - 2 + r.Intn(6)
				if q < 0 {
					q = 0
				}
				pk, _ := hex.DecodeString(d.PubHex(uint32(br), uint32(q)))
				pub, _ := pocec.ParsePubKey(pk, pocec.S256())
				var ord uint32
				ord, found = wa.M.GetPublicKeyOrdinal(pub)
				if found && int(ord) != q {
					viol("ordinal-lookup-wrong-under-observers", fmt.Sprintf("key %d reported with ordinal %d", q, ord))
				}
			}
			hi := [2]int64{atomic.LoadInt64(&started[0]), atomic.LoadInt64(&started[1])}
			atomic.AddInt64(&st.Reads, 1)
			if hi != lo {
				atomic.AddInt64(&st.ReadsMid, 1)
			}
			if what == 2 {
				if int64(q) < lo[0] && !found {
					viol("acknowledged-key-not-found", fmt.Sprintf("reader %d: plot key %d was acknowledged before the lookup started (acknowledged=%d) but is not found", ri, q, lo[0]))
				}
				if int64(q) >= hi[0] && found {
					viol("unrequested-key-found", fmt.Sprintf("reader %d: plot key %d found although only %d were requested when the lookup returned", ri, q, hi[0]))
				}
				continue
			}
			name := []string{"count", "list"}[what]
			for b := 0; b < 2; b++ {
				if int64(got[b]) < lo[b] || int64(got[b]) > hi[b] {
					viol("observer-saw-impossible-"+name, fmt.Sprintf("reader %d: %s says branch %d has %d keys; acknowledged before the call: %d, requested by its return: %d (answer ext=%d int=%d)", ri, name, b, got[b], lo[b], hi[b], got[0], got[1]))
				}
			}
			if what == 0 {
				for b := 0; b < 2; b++ {
					if got[b] < last[b] {
						viol("observer-count-went-backwards", fmt.Sprintf("reader %d: branch %d count %d after %d", ri, b, got[b], last[b]))
					}
					last[b] = got[b]
				}
			}
			vmu.Lock()
			if len(answers) < 4096 {
				answers[fmt.Sprintf("%s:%d:%d", name, got[0], got[1])] = true
			}
			vmu.Unlock()
		}
	}
	R := rng.Range(3, 5)
	rwg.Add(R)
	for i := 0; i < R; i++ {
		go reader(i, rng.Derive("r", i))
	}
	if blocked, timedOut := waitOrDump(&wwg, historyWatchdog); timedOut {
		rec.Hung, rec.Blocked = true, blocked
		rec.Stress = nil
		return rec
	}
	close(stop)
	if blocked, timedOut := waitOrDump(&rwg, historyWatchdog); timedOut {
		rec.Hung, rec.Blocked = true, blocked
		rec.Stress = nil
		return rec
	}
	st.Issued = [2]int64{done[0], done[1]}
	st.Distinct = len(answers)
	// quiescent: exact
	e, in := am.CountAddresses()
	if int64(e) != done[0] || int64(in) != done[1] {
		viol("final-count-differs-from-acknowledged", fmt.Sprintf("count (%d,%d), acknowledged (%d,%d)", e, in, done[0], done[1]))
	}
	return rec
}

func exec(wa *wl.Wallet, ids []string, priv []byte, in In, pubOf func(k, br, i int) string, known map[string]keyRef) Out {
	var out Out
	id := ids[in.K]
	fail := func(err error) Out {
		out.Err, out.ErrS = true, err.Error()
		return out
	}
	switch in.Op {
	case "genpub":
		pk, ord, err := wa.M.GenerateNewPublicKey()
		if err != nil {
			return fail(err)
		}
		r, ok := known[hex.EncodeToString(pk.SerializeCompressed())]
		if !ok || r.br != 0 {
			out.Bad = "issued key is not an external key of any keystore"
			return out
		}
		out.Keys, out.Ord = []int{r.k, r.idx}, ord
	case "next":
		mas, err := wa.M.NextAddresses(id, in.Br == 1, uint32(in.N))
		if err != nil {
			return fail(err)
		}
		for _, ma := range mas {
			r, ok := known[hex.EncodeToString(ma.PubKey().SerializeCompressed())]
			if !ok || r.k != in.K || r.br != in.Br {
				out.Bad = "returned key is not a key of that keystore and branch"
				return out
			}
			out.Keys = append(out.Keys, r.idx)
		}
	case "sign":
		pk := wl.ParsePub(pubOf(in.K, in.Br, in.Idx))
		digest := make([]byte, 32)
		copy(digest, []byte(fmt.Sprintf("%d-%d-%d", in.K, in.Br, in.Idx)))
		sig, err := wa.M.SignHash(pk, digest)
		if err != nil || sig == nil {
			out.B = false
			if err != nil {
				out.ErrS = err.Error()
			}
			return out
		}
		if !sig.Verify(digest, pk) {
			out.Bad = "signature does not verify"
		}
		out.B = true
	case "ordinal":
		out.Ord, out.Found = wa.M.GetPublicKeyOrdinal(wl.ParsePub(pubOf(in.K, in.Br, in.Idx)))
		if !out.Found {
			out.Ord = 0
		}
	case "addr":
		_, err := wa.M.GetAddressByPubKey(wl.ParsePub(pubOf(in.K, in.Br, in.Idx)))
		out.Found = err == nil
	case "names":
		out.Names = wa.M.ListKeystoreNames()
		sort.Strings(out.Names)
	case "count", "list", "remark?":
		for _, am := range wa.M.GetManagedAddrManager() {
			if am.Name() != id {
				continue
			}
			switch in.Op {
			case "count":
				out.Ext, out.Int = am.CountAddresses()
			case "remark?":
				out.S = am.Remarks()
			case "list":
				seen := [2]map[int]bool{{}, {}}
				out.Prefix = true
				for _, ma := range am.ManagedAddresses() {
					r, ok := known[hex.EncodeToString(ma.PubKey().SerializeCompressed())]
					if !ok || r.k != in.K {
						out.Prefix = false
						continue
					}
					seen[r.br][r.idx] = true
				}
				out.Ext, out.Int = len(seen[0]), len(seen[1])
				if n := len(am.ListAddresses()); n < out.Ext+out.Int {
					// taken after ManagedAddresses: may only have grown
					out.Bad = fmt.Sprintf("ListAddresses lists %d addresses after ManagedAddresses listed %d", n, out.Ext+out.Int)
				}
				for br := 0; br < 2; br++ {
					for i := 0; i < len(seen[br]); i++ {
						if !seen[br][i] {
							out.Prefix = false
						}
					}
				}
			}
		}
	case "remark!":
		if err := wa.M.ChangeRemark(id, in.Remark); err != nil {
			return fail(err)
		}
	case "export":
		js, err := wa.M.ExportKeystore(id, priv)
		if err != nil {
			return fail(err)
		}
		var f struct {
			Remark string                                           `json:"remark"`
			HD     struct{ ExternalChildNum, InternalChildNum int } `json:"hdPath"`
		}
		if err := json.Unmarshal(js, &f); err != nil {
			return fail(err)
		}
		out.Ext, out.Int, out.S = f.HD.ExternalChildNum, f.HD.InternalChildNum, f.Remark
	case "lock":
		wa.M.Lock()
	case "unlock":
		if err := wa.M.Unlock(priv); err != nil {
			return fail(err)
		}
	case "locked?":
		out.B = wa.M.IsLocked()
	}
	return out
}

// ---------------------------------------------------------------- parent

func main() {
	if len(os.Args) > 1 && os.Args[1] == "-child" {
		fs := flag.NewFlagSet("child", flag.ExitOnError)
		seed := fs.Int64("seed", 1, "")
		from := fs.Int("from", 0, "")
		to := fs.Int("to", 0, "")
		out := fs.String("out", "", "")
		prog := fs.String("prog", "", "")
		fs.Parse(os.Args[2:])
		child(*seed, *from, *to, *out, *prog)
		return
	}
	run := vh.NewRun("C14", "exploration")
	n := run.N(300, 10000)
	batch := run.N(25, 100)
	type bt struct{ from, to int }
	var batches []bt
	for i := 0; i < n; i += batch {
		j := i + batch
		if j > n {
			j = n
		}
		if run.Only >= 0 && (run.Only < i || run.Only >= j) {
			continue
		}
		batches = append(batches, bt{i, j})
	}
	raceBase := filepath.Join(run.Scratch, "race")
	interleavings := map[uint64]bool{}
	var imu sync.Mutex
	vh.Parallel(len(batches), 8, func(bi int) {
		b := batches[bi]
		out := filepath.Join(run.Scratch, fmt.Sprintf("hist-%d.jsonl", bi))
		prog := filepath.Join(run.Scratch, fmt.Sprintf("prog-%d", bi))
		logf := filepath.Join(run.Scratch, fmt.Sprintf("child-%d.out", bi))
		res := vh.RunChild([]string{os.Args[0], "-child", "-seed", fmt.Sprint(run.Seed), "-from", fmt.Sprint(b.from), "-to", fmt.Sprint(b.to), "-out", out, "-prog", prog},
			[]string{"GORACE=halt_on_error=0 log_path=" + raceBase}, logf, 10*time.Minute)
		run.Count("child_batches", 1)
		// which history was running if the child died?
		last := -1
		for _, l := range vh.ReadLines(prog) {
			var x int
			if _, err := fmt.Sscanf(l, "START %d", &x); err == nil {
				last = x
			}
			if _, err := fmt.Sscanf(l, "DONE %d", &x); err == nil && x == last {
				last = -1
			}
			if _, err := fmt.Sscanf(l, "ABANDONED %d", &x); err == nil {
				for i := x; i < b.to; i++ {
					run.Drop("history not run: batch abandoned after two hung histories")
				}
			}
		}
		if res.TimedOut {
			run.Drop("child batch watchdog (10 min) fired")
		} else if res.ExitCode != 0 && res.ExitCode != 66 { // 66 = race detector's exit status when reports were printed
			fatal := vh.ScanFatal(logf, 12)
			site := "unknown"
			for _, l := range fatal {
				if strings.Contains(l, "massnet.org/mass/") {
					site = strings.TrimSpace(strings.SplitN(strings.TrimSpace(l), "(", 2)[0])
					break
				}
			}
			what := "exit"
			if len(fatal) > 0 {
				what = strings.SplitN(fatal[0], "\n", 2)[0]
			}
			if fr := vh.DyingFrames(logf); len(fr) > 0 && vh.CodeUnderTestFrame(fr) == "" {
				// the goroutine the process died in has no frame of the code under test: a fault of the harness, never a verdict
				run.Drop("child died in harness code")
				run.Inconclusive("a child process died in harness code: " + fr[0])
			} else {
				run.Violate(last, "process-crashed-under-concurrent-wallet-use", map[string]string{"what": what, "site": site}, map[string]interface{}{"exit": res.ExitCode, "signal": res.Signal, "history": last, "fatal": fatal})
			}
		}
		// linearizability of every recorded history
		for _, l := range vh.ReadLines(out) {
			var h HistRec
			if json.Unmarshal([]byte(l), &h) != nil {
				continue
			}
			judge(run, &h, interleavings, &imu)
		}
	})
	// race reports
	reports := vh.ParseRaceLogs(raceBase + ".*")
	run.Count("race_reports_total", int64(len(reports)))
	pairs := map[string]vh.RaceReport{}
	for _, r := range reports {
		if r.InRepo("massnet.org/mass/") {
			run.Count("race_reports_in_repository_code", 1)
			if _, ok := pairs[r.Pair()]; !ok {
				pairs[r.Pair()] = r
			}
		} else {
			run.Count("race_reports_outside_repository(ignored)", 1)
		}
	}
	var plist []string
	for p, r := range pairs {
		plist = append(plist, p)
		run.Violate(-1, "data-race", map[string]string{"pair": p}, map[string]interface{}{"a": r.A + " " + r.AFile, "b": r.B + " " + r.BFile, "stacks": r.Stacks})
	}
	sort.Strings(plist)
	run.Set("distinct_racing_pairs_in_repository", plist)
	run.Set("distinct_interleavings", len(interleavings))
	run.Finish("case = one concurrent history: 2-4 goroutines x 4-16 operations (plot-key issuance, address generation, signing, ordinal/address lookups, listing, counts, remark read/change, export, lock, unlock, IsLocked) on 1-2 keystores of a real wallet, run under the race detector in child processes; each history is checked with porcupine against a sequential wallet model (checker timeout = dropped case), the quiescent end state is inspected (H4) and reopened; two in three histories run over a store that pauses after 35% of its commits (up to 4 ms: widens the window between store update and in-memory publication); every tenth case is a governance race instead (ImportKeystore / NewKeystore under the current private passphrase racing ChangePrivPassphrase, 2-4 rounds; afterwards one passphrase - the new one iff the change was acknowledged - must export every keystore and unlock the wallet), another tenth is an observer-stress history (1-2 writers issue 40-92 keys call after call, 3-5 readers poll CountAddresses / ManagedAddresses / GetPublicKeyOrdinal in a tight loop; every answer must lie between what was acknowledged before the call and what was requested by its return, counts never go backwards, listings are prefixes); non-trivial = >= 2 operations overlapped in real time and >= 1 state-changing operation (stress: >= 1 read while a write was in flight); distinct by hash of the call/return order", run.N(150, 5000))
}

func judge(run *vh.Run, h *HistRec, interleavings map[uint64]bool, imu *sync.Mutex) {
	if h.Hung {
		if len(h.Blocked) == 0 {
			run.Drop("history did not finish within the watchdog and no goroutine is blocked on a lock in wallet code")
			return
		}
		run.Violate(h.Idx, "wallet-calls-never-returned", map[string]string{"blocked_in": strings.Join(h.Blocked, "; ")}, map[string]interface{}{"history": h, "watchdog": historyWatchdog.String()})
		run.Case(vh.HashS(fmt.Sprintf("hung-%d", h.Idx)), true)
		return
	}
	if h.Gov != nil {
		if h.Gov.Rounds == 0 {
			run.Drop("governance-race history without a round (setup failed)")
			return
		}
		run.Count("governance_race_histories", 1)
		run.Count("governance_race_rounds", int64(h.Gov.Rounds))
		run.Count("governance_race_rounds_where_both_succeeded", int64(h.Gov.Both))
		for _, k := range h.Gov.Kinds {
			run.Violate(h.Idx, k, map[string]string{"race": "keystore-added-vs-passphrase-change"}, map[string]interface{}{"history": h})
		}
		run.Case(vh.HashS(fmt.Sprintf("gov-%d-%d-%d", h.Idx, h.Gov.Rounds, h.Gov.Both)), true)
		return
	}
	if h.Stress != nil {
		st := h.Stress
		if st.Reads == 0 || st.Issued[0]+st.Issued[1] == 0 {
			run.Drop("observer-stress history without reads or writes")
			return
		}
		run.Count("stress_histories", 1)
		run.Count("stress_reads", st.Reads)
		run.Count("stress_reads_while_a_write_was_in_flight", st.ReadsMid)
		run.Count("stress_keys_issued", st.Issued[0]+st.Issued[1])
		run.Count("stress_distinct_answers", int64(st.Distinct))
		for _, k := range st.Kinds {
			run.Violate(h.Idx, k, map[string]string{"writers": strings.Join(st.Writers, "+")}, map[string]interface{}{"history": h})
		}
		run.Case(vh.HashS(fmt.Sprintf("stress-%d-%d-%d-%d", h.Idx, st.Reads, st.ReadsMid, st.Distinct)), st.ReadsMid > 0)
		return
	}
	if len(h.Ops) == 0 {
		run.Drop("history without operations (setup failed)")
		return
	}
	run.Count("store_pauses_after_commit", h.Pauses)
	ops := make([]porcupine.Operation, len(h.Ops))
	for i, o := range h.Ops {
		ops[i] = porcupine.Operation{ClientId: o.C, Input: o.In, Call: o.Call, Output: o.Out, Return: o.Ret}
		run.Count("op:"+o.In.Op, 1)
	}
	m := model
	init := h.Init
	m.Init = func() interface{} { return init }
	res, info := porcupine.CheckOperationsVerbose(m, ops, 60*time.Second)
	// interleaving identity: the order of call/return events
	type ev struct {
		t    int64
		ret  bool
		c, i int
	}
	var evs []ev
	overl, mut := 0, 0
	for i, o := range h.Ops {
		evs = append(evs, ev{o.Call, false, o.C, i}, ev{o.Ret, true, o.C, i})
		switch o.In.Op {
		case "genpub", "next", "remark!", "lock", "unlock":
			mut++
		}
		for j := 0; j < i; j++ {
			p := h.Ops[j]
			if p.C != o.C && p.Call <= o.Ret && o.Call <= p.Ret {
				overl++
			}
		}
	}
	sort.Slice(evs, func(a, b int) bool { return evs[a].t < evs[b].t })
	var sb strings.Builder
	for _, e := range evs {
		fmt.Fprintf(&sb, "%d%v%s;", e.c, e.ret, h.Ops[e.i].In.Op)
	}
	hash := vh.HashS(sb.String())
	imu.Lock()
	interleavings[hash] = true
	imu.Unlock()
	run.Count("overlapping_operation_pairs", int64(overl))
	switch res {
	case porcupine.Ok:
		run.Count("histories_linearizable", 1)
	case porcupine.Unknown:
		run.Drop("porcupine timed out")
		return
	case porcupine.Illegal:
		// name the operations that cannot be placed: use the longest partial linearization
		bad := "?"
		if lin := info.PartialLinearizations(); len(lin) > 0 {
			placed := map[int]bool{}
			best := []int{}
			for _, part := range lin {
				for _, p := range part {
					if len(p) > len(best) {
						best = p
					}
				}
			}
			for _, i := range best {
				placed[i] = true
			}
			var kinds []string
			seen := map[string]bool{}
			for i, o := range h.Ops {
				if !placed[i] && !seen[o.In.Op] {
					seen[o.In.Op] = true
					kinds = append(kinds, o.In.Op)
				}
			}
			sort.Strings(kinds)
			bad = strings.Join(kinds, "+")
		}
		run.Violate(h.Idx, "history-not-linearizable", map[string]string{"unplaceable_ops": bad}, map[string]interface{}{"history": h})
	}
	for i, k := range h.EndKinds {
		run.Violate(h.Idx, k, nil, map[string]interface{}{"note": h.EndNotes[i], "history": h})
	}
	run.Case(hash, overl > 0 && mut > 0)
	if h.Idx < 2 {
		run.Sample(h)
	}
}
