// c15: capacity configuration honours the requested size and reuses spaces.
//
// Real keeper (poc/engine/spacekeeper/capacity), real wallet, real massdb.v1 (header-only files).
// Every scenario builds a pre-existing set of spaces, runs 1-4 reconfigurations (by total size, by
// per-directory sizes, by bit-length counts, by flags; partly through the api.Server handlers) and
// restarts the keeper. After every call the oracle takes the returned infos, the directory listings
// before/after and the free disk space (same disk.Usage call as the code) and judges:
//
//	(a) sum PlotSize(selected) <= request and request - sum < PlotSize(24)   (total, or per directory)
//	(b) no new file while an indexed, unselected space still fits when greedy largest-first reaches
//	    its bit length; new files only in the requested directories
//	(c) by counts: exactly the requested counts, indexed spaces first
//	(d) requests below the minimum / beyond free disk space are rejected and leave the listing unchanged
//	(e) a second keeper on the same directories with the same wallet lists the same space ids
//	    (ConfigureByFlags(SFAll), WorkSpaceInfos) and contains the last selection
package main

import (
	"context"
	"crypto/sha256"
	"encoding/hex"
	"errors"
	"fmt"
	"math/big"
	"os"
	"path/filepath"
	"regexp"
	"runtime"
	"sort"
	"strconv"
	"strings"
	"sync"
	"sync/atomic"
	"time"

	"github.com/massnetorg/mass-core/massutil"
	"github.com/massnetorg/mass-core/poc"
	"github.com/massnetorg/mass-core/pocec"
	"github.com/shirou/gopsutil/disk"
	"massnet.org/mass/api"
	pb "massnet.org/mass/api/proto"
	"massnet.org/mass/config"
	"massnet.org/mass/mining"
	"massnet.org/mass/poc/engine"
	massdb_v1 "massnet.org/mass/poc/engine/massdb/massdb.v1"
	"massnet.org/mass/poc/engine/spacekeeper/capacity"
	"massnet.org/mass/poc/wallet/keystore"
	"massnet.org/mass/version"
	"verif/harness/internal/vh"
	"verif/harness/internal/wl"
)

const (
	MiB              = uint64(1) << 20
	GiB              = uint64(1) << 30
	pubPass          = "c15PubPass"
	privPass         = "c15Priv@Pass"
	keyBudgetPerCall = 400 // no judged-valid request of the workload needs more than ~60 new keys
	workers          = 16
)

var (
	allBL  = []int{24, 26, 28, 30}
	usable = map[int]bool{24: true, 26: true, 28: true}
	minPS  = ps(poc.MinValidDefaultBitLength)
	reB    = regexp.MustCompile(`^(\d+)_([0-9a-f]{66})_(\d{2})\.massdb$`)
	two62  = new(big.Int).Lsh(big.NewInt(1), 62)
	two63  = new(big.Int).Lsh(big.NewInt(1), 63)
	two64  = new(big.Int).Lsh(big.NewInt(1), 64)
)

func ps(bl int) uint64         { return poc.ProofTypeDefault.PlotSize(bl) }
func bigU(v uint64) *big.Int   { return new(big.Int).SetUint64(v) }
func bigMiB(v uint64) *big.Int { return new(big.Int).Lsh(bigU(v), 20) }

// ---------------------------------------------------------------------------------------------
// wallet

var errBudget = errors.New("harness: key budget of this configure call exhausted (the call would have gone on creating spaces)")

// budgetWallet is the real manager with a cap on keys issued per configure call, so that a call
// which passes the disk check with an astronomically large request cannot fill the disk.
type budgetWallet struct {
	*keystore.KeystoreManagerForPoC
	left      int64
	exhausted int32
	// hold (overlap scenarios): the first key request announces itself on entered and waits for hold to be closed - a
	// configure call that is slow inside the wallet
	hold    chan struct{}
	entered chan struct{}
	held    int32
}

func (b *budgetWallet) GenerateNewPublicKey() (*pocec.PublicKey, uint32, error) {
	if b.hold != nil && atomic.CompareAndSwapInt32(&b.held, 0, 1) {
		close(b.entered)
		<-b.hold
	}
	if atomic.AddInt64(&b.left, -1) < 0 {
		atomic.StoreInt32(&b.exhausted, 1)
		return nil, 0, errBudget
	}
	return b.KeystoreManagerForPoC.GenerateNewPublicKey()
}

func (b *budgetWallet) reset() {
	atomic.StoreInt64(&b.left, keyBudgetPerCall)
	atomic.StoreInt32(&b.exhausted, 0)
}

type wctx struct {
	w    *wl.Wallet
	addr string // a payout address for the API handlers
}

var (
	walletMu   sync.Mutex
	walletFree []*wctx
	walletN    int
)

func getWallet(run *vh.Run) (*wctx, error) {
	walletMu.Lock()
	if n := len(walletFree); n > 0 {
		wc := walletFree[n-1]
		walletFree = walletFree[:n-1]
		walletMu.Unlock()
		return wc, nil
	}
	walletN++
	n := walletN
	walletMu.Unlock()
	dir := filepath.Join(run.Scratch, fmt.Sprintf("wallet-%d", n))
	w, err := wl.Create(dir, []byte(pubPass), nil)
	if err != nil {
		return nil, err
	}
	seed := run.Rng().Derive("wallet", n).Bytes(32)
	if _, err := w.M.NewKeystore([]byte(privPass), seed, "c15", wl.Net(), wl.FastScrypt); err != nil {
		return nil, err
	}
	if err := w.M.Unlock([]byte(privPass)); err != nil {
		return nil, err
	}
	pk, _, err := w.M.GenerateNewPublicKey()
	if err != nil {
		return nil, err
	}
	sh := sha256.Sum256(pk.SerializeCompressed())
	a, err := massutil.NewAddressWitnessScriptHash(sh[:], config.ChainParams)
	if err != nil {
		return nil, err
	}
	return &wctx{w: w, addr: a.EncodeAddress()}, nil
}

func putWallet(wc *wctx) {
	walletMu.Lock()
	walletFree = append(walletFree, wc)
	walletMu.Unlock()
}

// fakeMiner is the mocked miner with a SetPayoutAddresses that succeeds (the mock's returns
// ErrNotImplemented, which would stop the capacity handlers before they reach the keeper).
type fakeMiner struct{ *mining.MockedPoCMiner }

func (fakeMiner) SetPayoutAddresses([]massutil.Address) error { return nil }

// ---------------------------------------------------------------------------------------------
// records

type space struct {
	ID  string `json:"id"`
	BL  int    `json:"bl"`
	Dir int    `json:"dir"`
	Ord int    `json:"ord"`
}

type info struct {
	ID    string `json:"id"`
	BL    int    `json:"bl"`
	Dir   int    `json:"dir"` // -1: no file of that id in any scenario directory
	State string `json:"state"`
}

type listing map[int][]string

type call struct {
	Op     string           `json:"op"`
	Via    string           `json:"via,omitempty"`
	Args   interface{}      `json:"args,omitempty"`
	Free   uint64           `json:"free_bytes_read_before"`
	Err    string           `json:"err,omitempty"`
	Infos  []info           `json:"returned_infos,omitempty"`
	New    map[int][]string `json:"new_files,omitempty"`
	Note   string           `json:"note,omitempty"`
	Before listing          `json:"listing_before,omitempty"`
	After  listing          `json:"listing_after"`
}

type scen struct {
	run *vh.Run
	ci  int
	rng *vh.Rng
	wc  *wctx
	bw  *budgetWallet

	root    string
	dirs    []string
	nProof  int
	scanned map[int]bool // directories the running keeper has scanned (model of its index)
	newDirs map[int]bool // where ConfigureBySize/ByBitLength may create (dbDirs[0] candidates)

	k   *capacity.SpaceKeeper
	ck  *mining.ConfigurableSpaceKeeperV1
	srv *api.Server

	pre        []space
	preRemoved []string
	calls      []*call
	descs      []string

	spelling        string         // how miner.proof_dir is written for this scenario's keepers ("" = absolute, clean)
	lastSel         map[string]int // id -> bl of the last successful selection
	okSelected      bool
	restartCompared bool
	dropped         bool
	budgetHit       bool // a call ran into the key budget: the scenario ends (hundreds of spaces exist now)
}

func listDir(dir string) []string {
	es, err := os.ReadDir(dir)
	if err != nil {
		return nil
	}
	out := make([]string, 0, len(es))
	for _, e := range es {
		out = append(out, e.Name())
	}
	sort.Strings(out)
	return out
}

func (s *scen) list() listing {
	l := listing{}
	for i, d := range s.dirs {
		l[i] = listDir(d)
	}
	s.run.Count("directory_listings_taken", int64(len(s.dirs)))
	return l
}

func equalListing(a, b listing) bool {
	if len(a) != len(b) {
		return false
	}
	for i, x := range a {
		y := b[i]
		if len(x) != len(y) {
			return false
		}
		for j := range x {
			if x[j] != y[j] {
				return false
			}
		}
	}
	return true
}

// spacesOf parses the plot-file names (the B file identifies a space) of the given directories.
func spacesOf(l listing, only map[int]bool) map[string]space {
	out := map[string]space{}
	for d, names := range l {
		if only != nil && !only[d] {
			continue
		}
		for _, n := range names {
			m := reB.FindStringSubmatch(strings.ToLower(n))
			if m == nil {
				continue
			}
			ord, _ := strconv.Atoi(m[1])
			bl, _ := strconv.Atoi(m[3])
			id := m[2] + "-" + strconv.Itoa(bl)
			if _, dup := out[id]; dup {
				continue
			}
			out[id] = space{ID: id, BL: bl, Dir: d, Ord: ord}
		}
	}
	return out
}

func newFiles(before, after listing) (map[int][]string, int) {
	out := map[int][]string{}
	n := 0
	for d, names := range after {
		old := map[string]bool{}
		for _, x := range before[d] {
			old[x] = true
		}
		for _, x := range names {
			if !old[x] {
				out[d] = append(out[d], x)
				n++
			}
		}
	}
	return out, n
}

func sortedSpaces(m map[string]space) []space {
	out := make([]space, 0, len(m))
	for _, v := range m {
		out = append(out, v)
	}
	sort.Slice(out, func(i, j int) bool {
		if out[i].Dir != out[j].Dir {
			return out[i].Dir < out[j].Dir
		}
		if out[i].BL != out[j].BL {
			return out[i].BL < out[j].BL
		}
		return out[i].Ord < out[j].Ord
	})
	return out
}

func freeOf(path string) uint64 {
	u, err := disk.Usage(path)
	if err != nil {
		return 0
	}
	return u.Free
}

func (s *scen) violate(kind string, attrs map[string]string, extra map[string]interface{}) {
	d := map[string]interface{}{
		"directories":        s.dirs,
		"proof_dir_count":    s.nProof,
		"pre_existing":       s.pre,
		"pre_removed":        s.preRemoved,
		"calls":              s.calls,
		"operation_list":     s.descs,
		"plot_size_bytes":    map[string]uint64{"24": ps(24), "26": ps(26), "28": ps(28), "30": ps(30)},
		"directory_index_is": "position in 'directories'",
	}
	for k, v := range extra {
		d[k] = v
	}
	s.run.Violate(s.ci, kind, attrs, d)
}

// ---------------------------------------------------------------------------------------------
// keeper plumbing

func (s *scen) scannedDirs() []string {
	var idx []int
	for i := range s.scanned {
		idx = append(idx, i)
	}
	sort.Ints(idx)
	out := make([]string, len(idx))
	for i, d := range idx {
		out[i] = s.dirs[d]
	}
	return out
}

// spell writes a directory the way a configuration file may: the configuration does not normalise miner.proof_dir,
// so relative and otherwise non-canonical spellings of the same directory reach the keeper's constructor.
func (s *scen) spell(dir string) string {
	switch s.spelling {
	case "relative":
		if cwd, err := os.Getwd(); err == nil {
			if rel, err := filepath.Rel(cwd, dir); err == nil {
				return rel
			}
		}
	case "dotdot":
		return filepath.Dir(dir) + "/../" + filepath.Base(filepath.Dir(dir)) + "/" + filepath.Base(dir)
	case "slash":
		return dir + "/"
	case "dot":
		return dir + "/."
	}
	return dir
}

func (s *scen) newKeeper(dirs []string) (*capacity.SpaceKeeper, error) {
	written := make([]string, len(dirs))
	for i, d := range dirs {
		written[i] = s.spell(d)
	}
	if s.spelling != "" {
		s.run.Count("keepers_constructed_with_proof_dir_spelling:"+s.spelling, 1)
	}
	cfg := &config.Config{Miner: &config.Miner{ProofDir: written}}
	sk, err := capacity.NewSpaceKeeperV1(cfg, s.bw)
	if err != nil {
		return nil, err
	}
	k, ok := sk.(*capacity.SpaceKeeper)
	if !ok {
		return nil, errors.New("constructor did not return *capacity.SpaceKeeper")
	}
	s.run.Count("keepers_constructed", 1)
	return k, nil
}

func (s *scen) setKeeper(k *capacity.SpaceKeeper, firstDir int) {
	s.k = k
	s.ck = mining.NewConfigurableSpaceKeeperV1(k)
	s.srv = nil
	s.newDirs = map[int]bool{firstDir: true}
}

func (s *scen) server() *api.Server {
	if s.srv == nil {
		srv, err := api.NewServer(&config.API{}, nil, nil, nil, nil, fakeMiner{mining.NewMockedPoCMiner()}, s.wc.w.M,
			s.ck, mining.NewMockedSpaceKeeperV2(), version.ServiceMode(0), func() {})
		if err != nil {
			return nil
		}
		s.srv = srv
	}
	return s.srv
}

func (s *scen) infosOf(wsi []engine.WorkSpaceInfo, after listing) []info {
	where := spacesOf(after, nil)
	out := make([]info, 0, len(wsi))
	for _, w := range wsi {
		d := -1
		if sp, ok := where[w.SpaceID]; ok {
			d = sp.Dir
		}
		out = append(out, info{ID: w.SpaceID, BL: w.BitLength, Dir: d, State: w.State.String()})
	}
	return out
}

type outcome struct {
	c      *call
	before listing
	after  listing
	idx    map[string]space // model of the keeper's index when the call started
	infos  []info
	err    error
	nNew   int
	budget bool  // the harness key budget stopped the call
	shares []int // ConfigureByPath: directory index of every share, in call order
}

// exec runs one configure call between two listings.
func (s *scen) exec(c *call, freeDir int, f func() ([]engine.WorkSpaceInfo, error)) *outcome {
	o := &outcome{c: c}
	s.calls = append(s.calls, c)
	o.before = s.list()
	o.idx = spacesOf(o.before, s.scanned)
	s.bw.reset()
	c.Free = freeOf(s.dirs[freeDir])
	wsi, err := f()
	o.budget = atomic.LoadInt32(&s.bw.exhausted) == 1
	o.after = s.list()
	s.run.Count("listing_comparisons", 1)
	o.err = err
	c.After = o.after
	c.New, o.nNew = newFiles(o.before, o.after)
	s.run.Count("files_created", int64(o.nNew))
	if o.budget {
		s.budgetHit = true
		c.Note = "harness key budget (" + strconv.Itoa(keyBudgetPerCall) + " keys per call) exhausted: the call was creating spaces without bound and was stopped by the wallet wrapper"
	}
	if err != nil {
		c.Err = err.Error()
		return o
	}
	o.infos = s.infosOf(wsi, o.after)
	c.Infos = o.infos
	return o
}

func errClass(err error) string {
	switch {
	case err == nil:
		return "ok"
	case errors.Is(err, errBudget) || strings.Contains(err.Error(), "harness: key budget"):
		return "harness-key-budget"
	}
	m := err.Error()
	for _, k := range []string{capacity.ErrOSDiskSizeNotEnough.Error(), capacity.ErrConfigUnderSizeTarget.Error(),
		capacity.ErrSpaceKeeperConfiguredNothing.Error(), capacity.ErrInvalidRequiredBytes.Error(),
		"capacity should be no less than", "capacity should be on larger than available disk size"} {
		if strings.Contains(m, k) {
			return k
		}
	}
	if len(m) > 60 {
		m = m[:60]
	}
	return m
}

// ---------------------------------------------------------------------------------------------
// request classes

const (
	clsBelow  = "below-minimum"
	clsNormal = "normal"
	clsGrey   = "near-free-space-boundary"
	clsBeyond = "beyond-free-space"
)

func sumSizes(sp []space) uint64 {
	var t uint64
	for _, x := range sp {
		t += ps(x.BL)
	}
	return t
}

// classify: below the minimum; normal (even with nothing reused the new spaces stay 2 GiB under the
// free space that was read); beyond (even with everything reusable reused the new spaces exceed free
// space by at least half a PlotSize(28)); everything else is not judged for accept/reject.
func classify(req *big.Int, cand uint64, free uint64) string {
	if req.Cmp(bigU(minPS)) < 0 {
		return clsBelow
	}
	lo := new(big.Int).Add(req, bigU(2*GiB))
	if lo.Cmp(bigU(free)) <= 0 {
		return clsNormal
	}
	hi := new(big.Int).Add(bigU(free), bigU(cand))
	hi.Add(hi, bigU(ps(28)/2))
	if req.Cmp(hi) >= 0 {
		return clsBeyond
	}
	return clsGrey
}

func reqClass(req *big.Int, api bool) string {
	switch {
	case req.Cmp(two64) >= 0 && api:
		return "capacity-MiB-times-2^20-overflows-uint64"
	case req.Cmp(two63) >= 0:
		return "size>=2^63(negative-as-int)"
	case req.Cmp(two62) >= 0:
		return "size>=2^62"
	}
	return "free-space-plus-plots"
}

// ---------------------------------------------------------------------------------------------
// oracles shared by size-type shares

func filterDir(m map[string]space, dir int) []space {
	var out []space
	for _, x := range sortedSpaces(m) {
		if dir < 0 || x.Dir == dir {
			out = append(out, x)
		}
	}
	return out
}

// judgeShare checks (a) and the reuse half of (b) for one size request (the total, or one directory's share).
// sel = returned infos attributed to this share; cand = indexed spaces eligible for it before the call.
func (s *scen) judgeShare(method, via, scope string, req *big.Int, cand []space, sel []info, idx map[string]space, nNewSpaces int) {
	var sum uint64
	var reused []space
	selected := map[string]bool{}
	for _, x := range sel {
		sum += ps(x.BL)
		selected[x.ID] = true
		if sp, ok := idx[x.ID]; ok {
			reused = append(reused, sp)
		}
	}
	extra := map[string]interface{}{"request_bytes": req.String(), "selected_total_bytes": sum, "scope": scope}
	if bigU(sum).Cmp(req) > 0 {
		s.violate("selected-total-exceeds-request", map[string]string{"method": method, "via": via, "scope": scopeKind(scope)}, extra)
	} else {
		short := new(big.Int).Sub(req, bigU(sum))
		if short.Cmp(bigU(minPS)) >= 0 {
			extra["shortfall_bytes"] = short.String()
			s.violate("selected-total-short-by-a-plot-or-more", map[string]string{"method": method, "via": via, "scope": scopeKind(scope)}, extra)
		}
	}
	s.run.Count("size_arithmetic_checked", 1)
	if nNewSpaces == 0 {
		return
	}
	// reuse before create: an unselected indexed space of bit length b is considered by greedy
	// largest-first after every selected indexed space with bit length >= b
	seenBL := map[int]bool{}
	for _, u := range cand {
		if selected[u.ID] || seenBL[u.BL] {
			continue
		}
		var taken, takenAll uint64
		for _, r := range reused {
			takenAll += ps(r.BL)
			if r.BL >= u.BL {
				taken += ps(r.BL)
			}
		}
		gap := new(big.Int).Sub(req, bigU(taken))
		s.run.Count("reuse_candidates_checked", 1)
		if bigU(ps(u.BL)).Cmp(gap) <= 0 {
			seenBL[u.BL] = true
			final := new(big.Int).Sub(req, bigU(takenAll))
			cls := "outside-24-26-28"
			if usable[u.BL] {
				cls = "usable-24-26-28"
			}
			s.violate("new-space-created-while-indexed-space-fits", map[string]string{
				"method": method, "unused_bitlength": strconv.Itoa(u.BL), "unused_bitlength_class": cls,
				"fits_gap_left_for_new_spaces": strconv.FormatBool(bigU(ps(u.BL)).Cmp(final) <= 0),
			}, map[string]interface{}{"request_bytes": req.String(), "scope": scope, "via": via, "unused_space": u,
				"gap_when_its_bit_length_is_considered": gap.String(), "new_spaces_created": nNewSpaces})
		}
	}
}

func scopeKind(scope string) string {
	if strings.HasPrefix(scope, "dir") {
		return "directory-share"
	}
	return scope
}

func countNewSpaces(nf map[int][]string, dir int) (n int, perBL map[int]int) {
	perBL = map[int]int{}
	for d, names := range nf {
		if dir >= 0 && d != dir {
			continue
		}
		for _, x := range names {
			if m := reB.FindStringSubmatch(strings.ToLower(x)); m != nil {
				bl, _ := strconv.Atoi(m[3])
				perBL[bl]++
				n++
			}
		}
	}
	return
}

func (s *scen) noteSelection(o *outcome) {
	s.lastSel = map[string]int{}
	nReused, nCreated := 0, 0
	for _, x := range o.infos {
		s.lastSel[x.ID] = x.BL
		if _, ok := o.idx[x.ID]; ok {
			nReused++
		} else {
			nCreated++
		}
	}
	if len(o.infos) > 0 {
		s.okSelected = true
	}
	// every selected space is a plot file that exists
	for _, x := range o.infos {
		if x.Dir < 0 {
			s.violate("selected-space-has-no-plot-file", map[string]string{"method": o.c.Op}, map[string]interface{}{"space": x.ID, "bl": x.BL})
			break
		}
	}
	s.run.Count("spaces_reused", int64(nReused))
	s.run.Count("spaces_created", int64(nCreated))
}

func (s *scen) judgeNewDirs(method, via string, o *outcome, allowed map[int]bool) {
	for d, names := range o.c.New {
		if len(names) > 0 && !allowed[d] {
			var al []int
			for a := range allowed {
				al = append(al, a)
			}
			sort.Ints(al)
			s.violate("new-space-outside-requested-directory", map[string]string{"method": method, "via": via},
				map[string]interface{}{"directory": d, "files": names, "allowed_directories": al})
		}
	}
}

// judgeRejected handles the clause-(d) side of a rejected call. classes = class of every share.
func (s *scen) judgeRejected(method, via string, o *outcome, classes []string, reqs []*big.Int, anyValidNormal bool) {
	anyBeyond, allBelow, anyGrey := false, true, false
	rc := ""
	for i, c := range classes {
		if c == clsBeyond {
			anyBeyond = true
			if rc == "" {
				rc = reqClass(reqs[i], via == "api")
				if method == "ByBitLength" {
					rc = countClass(reqs[i])
				}
			}
		}
		if c != clsBelow {
			allBelow = false
		}
		if c == clsGrey {
			anyGrey = true
		}
	}
	changed := !equalListing(o.before, o.after)
	reason := ""
	switch {
	case anyBeyond:
		reason = clsBeyond
	case allBelow:
		reason = clsBelow
	}
	s.run.Count("call:"+method+":"+via+":rejected", 1)
	if reason != "" {
		s.run.Count("rejected:"+reason+":"+errClass(o.err), 1)
		if changed {
			at := map[string]string{"method": method, "via": via, "reason": reason, "harness_key_budget_hit": strconv.FormatBool(o.budget)}
			if rc != "" {
				at["request_class"] = rc
			}
			if len(o.shares) > 0 {
				// which share produced the files: a share that is itself fine, or one beyond free space?
				fine := map[int]bool{}
				for i, c := range classes {
					if c != clsBeyond {
						fine[o.shares[i]] = true
					}
				}
				for i, c := range classes {
					if c == clsBeyond {
						delete(fine, o.shares[i])
					}
				}
				at["files_created_by"] = "another-share-of-the-call-that-is-not-beyond-free-space"
				for d, names := range o.c.New {
					if len(names) > 0 && !fine[d] {
						at["files_created_by"] = "a-beyond-free-space-share"
					}
				}
			}
			s.violate("rejected-request-created-files", at, map[string]interface{}{"share_classes": classes})
		}
		return
	}
	s.run.Count("rejected:other:"+errClass(o.err), 1)
	if changed {
		s.run.Count("rejected_other_request_left_new_files", 1)
	}
	if anyValidNormal && !anyGrey {
		s.violate("valid-request-rejected", map[string]string{"method": method, "via": via, "err": errClass(o.err)},
			map[string]interface{}{"share_classes": classes})
	}
}

// judgeAcceptedClass reports accepted requests that clause (d) wants rejected. Returns true if the call is still
// to be judged by (a)/(b).
func (s *scen) judgeAcceptedClass(method, via string, classes []string, reqs []*big.Int) {
	allBelow := true
	for i, c := range classes {
		if c == clsBeyond {
			s.violate("beyond-free-space-request-accepted", map[string]string{"method": method, "via": via,
				"request_class": reqClass(reqs[i], via == "api")}, map[string]interface{}{"share_classes": classes, "share_index": i, "request_bytes": reqs[i].String()})
			break
		}
	}
	for _, c := range classes {
		if c != clsBelow {
			allBelow = false
		}
	}
	if allBelow {
		s.violate("below-minimum-request-accepted", map[string]string{"method": method, "via": via}, map[string]interface{}{"share_classes": classes})
	}
}

// ---------------------------------------------------------------------------------------------
// operations

// opBySize: via "keeper" passes bytes; via "api" passes MiB to Server.ConfigureCapacity.
func (s *scen) opBySize(v uint64, via, desc string) {
	var req *big.Int
	c := &call{Op: "ConfigureBySize", Via: via}
	freeDir := s.firstNewDir()
	var f func() ([]engine.WorkSpaceInfo, error)
	if via == "api" {
		req = bigMiB(v)
		c.Op = "api.ConfigureCapacity"
		c.Args = map[string]interface{}{"capacity_mib": v}
		f = func() ([]engine.WorkSpaceInfo, error) {
			resp, err := s.server().ConfigureCapacity(context.Background(), &pb.ConfigureSpaceKeeperRequest{Capacity: v, PayoutAddresses: []string{s.wc.addr}, Passphrase: privPass})
			if err != nil {
				return nil, err
			}
			wsi, err := s.k.WorkSpaceInfos(engine.SFAll)
			if err == nil && int(resp.SpaceCount) != len(wsi) {
				c.Note += fmt.Sprintf(" api response lists %d spaces, keeper %d;", resp.SpaceCount, len(wsi))
			}
			return wsi, err
		}
	} else {
		req = bigU(v)
		c.Args = map[string]interface{}{"target_size": v}
		f = func() ([]engine.WorkSpaceInfo, error) { return s.k.ConfigureBySize(v, false, false) }
	}
	s.descs = append(s.descs, c.Op+" "+desc)
	o := s.exec(c, freeDir, f)
	cand := filterDir(o.idx, -1)
	cls := classify(req, sumSizes(cand), c.Free)
	c.Note += " request class: " + cls
	s.run.Count("request_class:"+cls, 1)
	if o.err != nil {
		s.judgeRejected("BySize", via, o, []string{cls}, []*big.Int{req}, cls == clsNormal)
		return
	}
	s.run.Count("call:BySize:"+via+":ok", 1)
	s.noteSelection(o)
	s.judgeAcceptedClass("BySize", via, []string{cls}, []*big.Int{req})
	if cls == clsBeyond {
		return
	}
	n, _ := countNewSpaces(c.New, -1)
	s.judgeShare("BySize", via, "total", req, cand, o.infos, o.idx, n)
	s.judgeNewDirs("BySize", via, o, s.newDirs)
}

func (s *scen) firstNewDir() int {
	best := -1
	for d := range s.newDirs {
		if best < 0 || d < best {
			best = d
		}
	}
	if best < 0 {
		return 0
	}
	return best
}

// opByPath: via "keeper" goes through mining.ConfigurableSpaceKeeperV1 (uint64 sizes, what the API uses);
// via "api" passes MiB to Server.ConfigureCapacityByDirs.
func (s *scen) opByPath(paths []int, vals []uint64, via, desc string) {
	c := &call{Op: "ConfigureByPath", Via: via}
	reqs := make([]*big.Int, len(vals))
	pstr := make([]string, len(paths))
	for i, p := range paths {
		pstr[i] = s.dirs[p]
	}
	var f func() ([]engine.WorkSpaceInfo, error)
	var apiAllocs []*pb.WorkSpacesByDirsResponse_Allocation
	if via == "api" {
		c.Op = "api.ConfigureCapacityByDirs"
		c.Args = map[string]interface{}{"directory_indices": paths, "capacity_mib": vals}
		al := make([]*pb.ConfigureSpaceKeeperByDirsRequest_Allocation, len(paths))
		for i := range paths {
			reqs[i] = bigMiB(vals[i])
			al[i] = &pb.ConfigureSpaceKeeperByDirsRequest_Allocation{Directory: pstr[i], Capacity: vals[i]}
		}
		f = func() ([]engine.WorkSpaceInfo, error) {
			resp, err := s.server().ConfigureCapacityByDirs(context.Background(), &pb.ConfigureSpaceKeeperByDirsRequest{Allocations: al, PayoutAddresses: []string{s.wc.addr}, Passphrase: privPass})
			if err != nil {
				return nil, err
			}
			apiAllocs = resp.Allocations
			return s.k.WorkSpaceInfos(engine.SFAll)
		}
	} else {
		c.Args = map[string]interface{}{"directory_indices": paths, "sizes": vals}
		for i := range vals {
			reqs[i] = bigU(vals[i])
		}
		f = func() ([]engine.WorkSpaceInfo, error) { return s.ck.ConfigureByPath(pstr, vals, false, false) }
	}
	s.descs = append(s.descs, c.Op+" "+desc)
	// the call re-scans the given directories before it selects
	for _, p := range paths {
		s.scanned[p] = true
	}
	s.newDirs[paths[0]] = true
	o := s.exec(c, paths[0], f)
	o.shares = paths
	classes := make([]string, len(paths))
	anyValidNormal := false
	for i, p := range paths {
		classes[i] = classify(reqs[i], sumSizes(filterDir(o.idx, p)), c.Free)
		s.run.Count("request_class:"+classes[i], 1)
		if classes[i] == clsNormal {
			anyValidNormal = true
		}
	}
	c.Note += " share classes: " + strings.Join(classes, ",")
	if o.err != nil {
		s.judgeRejected("ByPath", via, o, classes, reqs, anyValidNormal)
		return
	}
	s.run.Count("call:ByPath:"+via+":ok", 1)
	s.noteSelection(o)
	if via == "api" {
		// (f) the API's own answer to the per-directory request: per requested directory it lists exactly the
		// spaces selected there - so its total obeys (a) as well, also when this reconfiguration dropped spaces
		s.run.Count("api_by_dirs_responses_compared", 1)
		for i, p := range paths {
			var rep []string
			var repBytes uint64
			found := false
			for _, a := range apiAllocs {
				if a.Directory != pstr[i] {
					continue
				}
				found = true
				for _, w := range a.Spaces {
					rep = append(rep, w.SpaceId)
					repBytes += ps(int(w.BitLength))
				}
			}
			var sel []string
			for _, x := range o.infos {
				if x.Dir == p {
					sel = append(sel, x.ID)
				}
			}
			sort.Strings(rep)
			sort.Strings(sel)
			if !found && len(sel) == 0 {
				continue
			}
			if strings.Join(rep, ",") != strings.Join(sel, ",") {
				over := "false"
				if new(big.Int).SetUint64(repBytes).Cmp(reqs[i]) > 0 {
					over = "true"
				}
				s.violate("api-per-directory-response-differs-from-selection", map[string]string{"reported_total_exceeds_request": over},
					map[string]interface{}{"directory": p, "request_bytes": reqs[i].String(), "reported_spaces": rep, "reported_bytes": repBytes, "selected_spaces_in_directory": sel})
			}
		}
	}
	s.newDirs = map[int]bool{paths[0]: true}
	s.judgeAcceptedClass("ByPath", via, classes, reqs)
	inPaths := map[int]bool{}
	for i, p := range paths {
		inPaths[p] = true
		if classes[i] == clsBeyond {
			continue
		}
		var sel []info
		for _, x := range o.infos {
			if x.Dir == p {
				sel = append(sel, x)
			}
		}
		n, _ := countNewSpaces(c.New, p)
		s.judgeShare("ByPath", via, fmt.Sprintf("dir %d", p), reqs[i], filterDir(o.idx, p), sel, o.idx, n)
	}
	var outside []info
	for _, x := range o.infos {
		if !inPaths[x.Dir] {
			outside = append(outside, x)
		}
	}
	if len(outside) > 0 {
		s.violate("selected-total-exceeds-request", map[string]string{"method": "ByPath", "via": via, "scope": "directory-without-a-share"},
			map[string]interface{}{"selected_outside_requested_directories": outside})
	}
	s.judgeNewDirs("ByPath", via, o, inPaths)
}

// proofListOf writes counts as a miner.proof_list string; false when counts cannot be written (no items).
func (s *scen) proofListOf(counts map[int]int) (string, bool) {
	var bls []int
	for bl := range counts {
		bls = append(bls, bl)
	}
	sort.Ints(bls)
	var items []string
	for _, bl := range bls {
		n := counts[bl]
		for n > 1 && n <= 1<<20 && s.rng.Chance(1, 2) {
			part := 1 + s.rng.Intn(n-1)
			items = append(items, fmt.Sprintf("%d:%d", bl, part))
			n -= part
		}
		items = append(items, fmt.Sprintf("%d:%d", bl, n))
	}
	if len(items) == 0 {
		return "", false
	}
	for i := len(items) - 1; i > 0; i-- {
		j := s.rng.Intn(i + 1)
		items[i], items[j] = items[j], items[i]
	}
	sep := s.rng.PickS(",", ", ", " , ")
	return strings.Join(items, sep), true
}

func (s *scen) opByCounts(counts map[int]int, desc string) {
	c := &call{Op: "ConfigureByBitLength", Via: "keeper", Args: map[string]interface{}{"bl_count": counts}}
	s.descs = append(s.descs, c.Op+" "+desc)
	cp := map[int]int{}
	for k, v := range counts {
		cp[k] = v
	}
	// the same request the way the node's configuration file states it (miner.proof_list, decoded at start-up): items
	// in seeded order, bit lengths with a count above 1 sometimes split into several items, blanks here and there
	if list, ok := s.proofListOf(counts); ok {
		got, err := config.DecodeProofList(list)
		s.run.Count("proof_lists_decoded", 1)
		same := err == nil && len(got) == len(counts)
		for bl, n := range counts {
			same = same && got[bl] == n
		}
		if !same {
			s.violate("proof-list-decoded-differently", map[string]string{"method": "ByBitLength", "via": "config"},
				map[string]interface{}{"proof_list": list, "requested_counts": counts, "decoded": got, "err": fmt.Sprint(err)})
		}
	}
	o := s.exec(c, s.firstNewDir(), func() ([]engine.WorkSpaceInfo, error) { return s.k.ConfigureByBitLength(cp, false, false) })
	have := map[int]int{}
	for _, x := range o.idx {
		have[x.BL]++
	}
	need := new(big.Int)
	total := 0
	for bl, n := range counts {
		total += n
		if n > have[bl] {
			need.Add(need, new(big.Int).Mul(big.NewInt(int64(n-have[bl])), bigU(ps(bl))))
		}
	}
	// class of the amount that has to be newly created (reuse already accounted for)
	cls := clsNormal
	switch {
	case total == 0:
		cls = "nothing-requested"
	case new(big.Int).Add(need, bigU(2*GiB)).Cmp(bigU(c.Free)) <= 0:
		cls = clsNormal
	case need.Cmp(new(big.Int).Add(bigU(c.Free), bigU(ps(28)/2))) >= 0:
		cls = clsBeyond
	default:
		cls = clsGrey
	}
	c.Note += " request class: " + cls + ", bytes to create: " + need.String()
	s.run.Count("request_class:"+cls, 1)
	if o.err != nil {
		if cls == "nothing-requested" {
			s.run.Count("call:ByBitLength:keeper:rejected", 1)
			s.run.Count("rejected:nothing-requested:"+errClass(o.err), 1)
			return
		}
		// for the request class of an overflowing product the byte amount is what matters
		s.judgeRejected("ByBitLength", "keeper", o, []string{cls}, []*big.Int{need}, cls == clsNormal)
		return
	}
	s.run.Count("call:ByBitLength:keeper:ok", 1)
	s.noteSelection(o)
	if cls == clsBeyond {
		s.violate("beyond-free-space-request-accepted", map[string]string{"method": "ByBitLength", "via": "keeper", "request_class": countClass(need)},
			map[string]interface{}{"bytes_to_create": need.String()})
		return
	}
	got := map[int]int{}
	for _, x := range o.infos {
		got[x.BL]++
	}
	_, created := countNewSpaces(c.New, -1)
	bset := map[int]bool{}
	for bl := range counts {
		bset[bl] = true
	}
	for bl := range got {
		bset[bl] = true
	}
	for bl := range created {
		bset[bl] = true
	}
	for bl := range bset {
		s.run.Count("bitlength_counts_checked", 1)
		if got[bl] != counts[bl] {
			rel := "more-than-requested"
			if got[bl] < counts[bl] {
				rel = "fewer-than-requested"
			}
			s.violate("count-config-wrong-count", map[string]string{"method": "ByBitLength", "relation": rel},
				map[string]interface{}{"bitlength": bl, "requested": counts[bl], "selected": got[bl]})
		}
		wantNew := counts[bl] - have[bl]
		if wantNew < 0 {
			wantNew = 0
		}
		if created[bl] > wantNew {
			cl := "outside-24-26-28"
			if usable[bl] {
				cl = "usable-24-26-28"
			}
			s.violate("new-space-created-while-indexed-space-fits", map[string]string{"method": "ByBitLength", "unused_bitlength": strconv.Itoa(bl),
				"unused_bitlength_class": cl, "fits_gap_left_for_new_spaces": "true"},
				map[string]interface{}{"requested": counts[bl], "indexed_before": have[bl], "created": created[bl]})
		}
	}
	s.judgeNewDirs("ByBitLength", "keeper", o, s.newDirs)
}

// countClass names the request class of a count request by the bytes it has to create.
func countClass(need *big.Int) string {
	if need.Cmp(two63) >= 0 {
		return "count-times-plotsize>=2^63(overflows-int)"
	}
	return "free-space-plus-plots"
}

func flagName(f engine.WorkSpaceStateFlags) string { return f.String() }

// opByFlags is no clause of its own (except after a restart); it doubles as the check that the
// harness's model of the keeper's index (= plot files in the scanned directories) is right.
func (s *scen) opByFlags(flags engine.WorkSpaceStateFlags) bool {
	c := &call{Op: "ConfigureByFlags", Via: "keeper", Args: map[string]interface{}{"flags": flagName(flags)}}
	s.descs = append(s.descs, c.Op+" "+flagName(flags))
	o := s.exec(c, s.firstNewDir(), func() ([]engine.WorkSpaceInfo, error) { return s.k.ConfigureByFlags(flags, false, false) })
	want := map[string]space{}
	if flags.Contains(engine.SFRegistered) {
		want = o.idx
	}
	if o.err != nil {
		s.run.Count("call:ByFlags:keeper:rejected", 1)
		s.run.Count("rejected:other:"+errClass(o.err), 1)
		if len(want) != 0 {
			s.drop("index-model-mismatch")
			return false
		}
		return true
	}
	s.run.Count("call:ByFlags:keeper:ok", 1)
	s.noteSelection(o)
	if o.nNew != 0 {
		s.run.Count("flags_config_created_files", 1)
	}
	if len(o.infos) != len(want) {
		s.drop("index-model-mismatch")
		return false
	}
	for _, x := range o.infos {
		if _, ok := want[x.ID]; !ok {
			s.drop("index-model-mismatch")
			return false
		}
	}
	s.run.Count("index_model_confirmed_by_flags", 1)
	return true
}

func (s *scen) drop(reason string) {
	if !s.dropped {
		s.dropped = true
		s.run.Drop(reason)
	}
}

func (s *scen) opRemove(pick int) {
	wsi, err := s.k.WorkSpaceInfos(engine.SFAll)
	if err != nil || len(wsi) == 0 {
		s.descs = append(s.descs, "Remove (nothing in use)")
		return
	}
	sort.Slice(wsi, func(i, j int) bool {
		if wsi[i].BitLength != wsi[j].BitLength {
			return wsi[i].BitLength < wsi[j].BitLength
		}
		return wsi[i].Ordinal < wsi[j].Ordinal
	})
	x := wsi[pick%len(wsi)]
	// one in three is a Delete: the space's files go too, and later configurations must neither count nor select it
	act, name := engine.Remove, "Remove"
	if pick%3 == 2 {
		act, name = engine.Delete, "Delete"
	}
	err = s.k.ActOnWorkSpace(x.SpaceID, act)
	c := &call{Op: "ActOnWorkSpace(" + name + ")", Via: "keeper", Args: map[string]interface{}{"id": x.SpaceID, "bl": x.BitLength}, After: nil}
	if err != nil {
		c.Err = err.Error()
	} else {
		delete(s.lastSel, x.SpaceID)
		s.run.Count("spaces_"+strings.ToLower(name)+"d", 1)
	}
	s.calls = append(s.calls, c)
	s.descs = append(s.descs, fmt.Sprintf("%s #%d of in-use (bl %d)", name, pick%len(wsi), x.BitLength))
}

// opRestart is clause (e): a second keeper on the same directories with the same wallet.
func (s *scen) opRestart() bool {
	s.descs = append(s.descs, "Restart+compare")
	dirs := s.scannedDirs()
	c := &call{Op: "Restart: NewSpaceKeeperV1 + ConfigureByFlags(SFAll) + WorkSpaceInfos(SFAll)", Via: "keeper", Args: map[string]interface{}{"proof_dir": dirs}}
	s.calls = append(s.calls, c)
	onDisk := spacesOf(s.list(), s.scanned)
	c.Free = freeOf(dirs[0])
	k2, err := s.newKeeper(dirs)
	if err != nil {
		c.Err = err.Error()
		s.violate("restart-keeper-construction-failed", map[string]string{"err": errClass(err)}, nil)
		return false
	}
	s.bw.reset()
	wsi, err := k2.ConfigureByFlags(engine.SFAll, false, false)
	after := s.list()
	c.After = after
	s.run.Count("restarts_compared", 1)
	s.restartCompared = true
	if err != nil {
		c.Err = err.Error()
		if !(len(onDisk) == 0 && errors.Is(err, capacity.ErrSpaceKeeperConfiguredNothing)) {
			s.violate("restart-selection-not-found", map[string]string{"how": "ConfigureByFlags(SFAll) failed", "err": errClass(err)}, map[string]interface{}{"spaces_on_disk": sortedSpaces(onDisk)})
		}
	}
	c.Infos = s.infosOf(wsi, after)
	listed, _ := k2.WorkSpaceInfos(engine.SFAll)
	li := s.infosOf(listed, after)
	gotF, gotL := map[string]info{}, map[string]info{}
	for _, x := range c.Infos {
		gotF[x.ID] = x
	}
	for _, x := range li {
		gotL[x.ID] = x
	}
	extra := map[string]interface{}{"spaces_on_disk": sortedSpaces(onDisk), "WorkSpaceInfos_after_restart": li, "last_selection": s.lastSel}
	var missSel []string
	for id, bl := range s.lastSel {
		x, ok := gotL[id]
		if !ok || x.BL != bl {
			missSel = append(missSel, id)
		}
	}
	if len(missSel) > 0 && err == nil {
		sort.Strings(missSel)
		extra["selected_ids_not_listed"] = missSel
		s.violate("restart-selection-not-found", map[string]string{"how": "selected id missing from WorkSpaceInfos after ConfigureByFlags(SFAll)"}, extra)
	}
	bad := ""
	for id, sp := range onDisk {
		f, ok := gotF[id]
		l, ok2 := gotL[id]
		switch {
		case !ok || !ok2:
			bad = "space on disk not indexed by the second keeper: " + id
		case f.BL != sp.BL || l.BL != sp.BL:
			bad = "bit length differs for " + id
		case f.State != engine.Registered.String():
			bad = "state is not registered for " + id + ": " + f.State
		}
	}
	for id := range gotF {
		if _, ok := onDisk[id]; !ok {
			bad = "second keeper lists a space without plot file: " + id
		}
	}
	if len(gotF) != len(c.Infos) || len(gotL) != len(li) {
		bad = "second keeper lists a space id twice"
	}
	if bad != "" && err == nil {
		extra["difference"] = bad
		s.violate("restart-index-differs", map[string]string{"how": strings.SplitN(bad, ":", 2)[0]}, extra)
	}
	if !equalListing(spacesListing(onDisk), spacesListing(spacesOf(after, s.scanned))) {
		s.run.Count("restart_changed_plot_files", 1)
	}
	first := 0
	for i := range s.dirs {
		if s.scanned[i] {
			first = i
			break
		}
	}
	s.setKeeper(k2, first)
	s.lastSel = map[string]int{}
	for id, x := range gotL {
		s.lastSel[id] = x.BL
	}
	return true
}

func spacesListing(m map[string]space) listing {
	l := listing{}
	for _, sp := range sortedSpaces(m) {
		l[sp.Dir] = append(l[sp.Dir], sp.ID)
	}
	return l
}

// ---------------------------------------------------------------------------------------------
// workload generation

// genShare draws one size request in bytes. cand = indexed spaces eligible for reuse; maxNormal bounds
// the requests meant to be accepted. mib: value must be a whole number of MiB (API path).
func (s *scen) genShare(cand []space, free, maxNormal uint64, mib bool) (uint64, string) {
	r := s.rng
	delta := func() (int64, string) {
		switch r.Intn(9) {
		case 0, 1, 2:
			return 0, ""
		case 3:
			return -1, "-1"
		case 4:
			return 1, "+1"
		case 5:
			return int64(minPS) - 1, "+PS24-1"
		case 6:
			return int64(minPS), "+PS24"
		case 7:
			return -int64(minPS) + 1, "-PS24+1"
		default:
			v := int64(r.Intn(int(minPS)))
			return v, "+" + strconv.FormatInt(v, 10)
		}
	}
	if mib {
		delta = func() (int64, string) {
			switch r.Intn(6) {
			case 0, 1:
				return 0, ""
			case 2:
				return -int64(MiB), "-1MiB"
			case 3:
				return int64(MiB), "+1MiB"
			case 4:
				return int64(minPS - MiB), "+95MiB"
			default:
				v := int64(r.Intn(96)) * int64(MiB)
				return v, "+" + strconv.FormatInt(v>>20, 10) + "MiB"
			}
		}
	}
	apply := func(base uint64, d int64) uint64 {
		if d < 0 && uint64(-d) > base {
			return 0
		}
		return uint64(int64(base) + d)
	}
	clamp := func(v uint64, desc string) (uint64, string) {
		if v > maxNormal {
			// keep accepted requests affordable: fall back to a few small plots
			k := uint64(r.Range(1, 6))
			return k * ps(24), fmt.Sprintf("clamped:%d*PS24", k)
		}
		return v, desc
	}
	switch r.Weighted(30, 12, 14, 10, 8, 8, 18) {
	case 0: // a sum over a subset of the indexed spaces (+ maybe new plots) +- delta
		var base uint64
		var parts []string
		for _, c := range cand {
			if r.Bool() {
				base += ps(c.BL)
				parts = append(parts, strconv.Itoa(c.BL))
			}
		}
		for i := r.Intn(3); i > 0; i-- {
			bl := allBL[r.Weighted(4, 4, 3, 1)]
			base += ps(bl)
			parts = append(parts, "n"+strconv.Itoa(bl))
		}
		d, ds := delta()
		return clamp(apply(base, d), "sum{"+strings.Join(parts, ",")+"}"+ds)
	case 1: // everything indexed +- delta
		d, ds := delta()
		return clamp(apply(sumSizes(cand), d), "sum{all indexed}"+ds)
	case 2: // k*PS24 + r
		k := uint64(r.Range(1, 24))
		d, ds := delta()
		return clamp(apply(k*ps(24), d), fmt.Sprintf("%d*PS24%s", k, ds))
	case 3: // around the minimum
		vals := []uint64{0, 1, minPS / 2, minPS - 1, minPS, minPS + 1}
		if mib {
			vals = []uint64{0, MiB, minPS / 2, minPS - MiB, minPS, minPS + MiB}
		}
		i := r.Intn(len(vals))
		return vals[i], []string{"0", "1", "PS24/2", "PS24-1", "PS24", "PS24+1"}[i]
	case 4: // beyond free space by a few plots (everything reusable counted in)
		k := uint64(r.Range(1, 4))
		v := free + sumSizes(cand) + k*ps(28)
		if mib {
			v = (v>>20 + 1) << 20
		}
		return v, fmt.Sprintf("free+sum{all indexed}+%d*PS28", k)
	case 5: // huge
		vals := []uint64{1 << 62, 1<<63 - 1, 1 << 63, 1<<64 - 1, 1<<63 + minPS, 1<<62 + 1, ^uint64(0) - minPS + 1}
		names := []string{"2^62", "2^63-1", "2^63", "2^64-1", "2^63+PS24", "2^62+1", "2^64-PS24"}
		i := r.Intn(len(vals))
		if mib {
			return vals[i] >> 20 << 20, names[i] + "(floor MiB)"
		}
		return vals[i], names[i]
	default: // a sum of plot sizes not tied to the index +- delta
		var base uint64
		var parts []string
		for i := r.Range(1, 4); i > 0; i-- {
			bl := allBL[r.Weighted(4, 4, 4, 1)]
			base += ps(bl)
			parts = append(parts, strconv.Itoa(bl))
		}
		d, ds := delta()
		return clamp(apply(base, d), "plots{"+strings.Join(parts, ",")+"}"+ds)
	}
}

func (s *scen) indexNow() map[string]space { return spacesOf(s.list(), s.scanned) }

func (s *scen) genBySize() {
	r := s.rng
	idx := s.indexNow()
	free := freeOf(s.dirs[s.firstNewDir()])
	maxNormal := free / 3
	if maxNormal > 48*GiB {
		maxNormal = 48 * GiB
	}
	apiOK := len(s.wc.addr) == api.LenAddress
	if apiOK && r.Chance(1, 4) {
		if r.Chance(1, 6) { // MiB values whose byte count does not fit into uint64
			vals := []uint64{1 << 44, 1<<44 + 96, 1<<44 + 512, 1<<64 - 1, 1<<45 + 416}
			names := []string{"2^44MiB", "2^44+96MiB", "2^44+512MiB", "2^64-1MiB", "2^45+416MiB"}
			i := r.Intn(len(vals))
			s.opBySize(vals[i], "api", names[i])
			return
		}
		v, d := s.genShare(filterDir(idx, -1), free, maxNormal, true)
		s.opBySize(v>>20, "api", d)
		return
	}
	v, d := s.genShare(filterDir(idx, -1), free, maxNormal, false)
	s.opBySize(v, "keeper", d)
}

func (s *scen) genByPath() {
	r := s.rng
	idx := s.indexNow()
	n := r.Range(1, len(s.dirs))
	if n > 3 {
		n = 3
	}
	paths := r.Perm(len(s.dirs))[:n]
	free := freeOf(s.dirs[paths[0]])
	maxNormal := free / 3
	if maxNormal > 48*GiB {
		maxNormal = 48 * GiB
	}
	maxNormal /= uint64(n)
	apiOK := len(s.wc.addr) == api.LenAddress
	via := "keeper"
	if apiOK && r.Chance(1, 4) {
		via = "api"
	}
	vals := make([]uint64, n)
	var ds []string
	for i, p := range paths {
		if via == "api" && r.Chance(1, 10) {
			vals[i] = []uint64{1 << 44, 1<<44 + 96, 1 << 45}[r.Intn(3)]
			ds = append(ds, fmt.Sprintf("d%d:%dMiB(overflow)", p, vals[i]))
			continue
		}
		v, d := s.genShare(filterDir(idx, p), free, maxNormal, via == "api")
		if via == "api" {
			v >>= 20
		}
		vals[i] = v
		ds = append(ds, fmt.Sprintf("d%d:%s", p, d))
	}
	s.opByPath(paths, vals, via, strings.Join(ds, " "))
}

func (s *scen) genByCounts() {
	r := s.rng
	idx := s.indexNow()
	have := map[int]int{}
	for _, x := range idx {
		have[x.BL]++
	}
	free := freeOf(s.dirs[s.firstNewDir()])
	counts := map[int]int{}
	var ds []string
	switch r.Weighted(40, 4, 3) {
	case 0:
		perm := r.Perm(len(allBL))
		for _, i := range perm[:r.Range(1, 3)] {
			bl := allBL[i]
			var n int
			switch r.Intn(5) {
			case 0:
				n = have[bl]
			case 1:
				n = have[bl] + 1
			case 2:
				n = have[bl] - 1
			default:
				n = r.Intn(4)
			}
			if n < 0 {
				n = 0
			}
			counts[bl] = n
		}
	case 1: // beyond free space
		bl := allBL[r.Intn(len(allBL))]
		counts[bl] = have[bl] + int(free/ps(bl)) + 2
		if r.Bool() {
			counts[24] = have[24] + 1
		}
	case 2: // count * PlotSize does not fit into int64
		bl := allBL[r.Intn(len(allBL))]
		counts[bl] = []int{1 << 40, 1<<40 + have[bl], 1 << 38, 1<<62/int(ps(bl)) + have[bl] + 1}[r.Intn(4)]
	}
	var keys []int
	for bl := range counts {
		keys = append(keys, bl)
	}
	sort.Ints(keys)
	for _, bl := range keys {
		n := counts[bl]
		rel := strconv.Itoa(n)
		if n > 64 {
			rel = fmt.Sprintf("huge(%d-indexed=%d)", n, n-have[bl])
			if n-have[bl]-int(free/ps(bl)) == 2 {
				rel = "indexed+free/PS+2"
			}
		}
		ds = append(ds, fmt.Sprintf("%d:%s", bl, rel))
	}
	s.opByCounts(counts, strings.Join(ds, ","))
}

// setup builds the pre-existing set. Returns false if the scenario could not be set up.
func (s *scen) setup() bool {
	r := s.rng
	s.nProof = r.Range(1, 3)
	nd := s.nProof
	if r.Chance(1, 3) {
		nd++ // a directory that only ConfigureByPath will name
	}
	// half of the scenarios: directory names that are prefixes of one another (plots, plots2, plots22, ...)
	prefixNames := r.Derive("dirnames", 0).Bool()
	for i := 0; i < nd; i++ {
		d := filepath.Join(s.root, fmt.Sprintf("d%d", i))
		if prefixNames {
			d = filepath.Join(s.root, "plots"+strings.Repeat("2", i))
		}
		if err := os.MkdirAll(d, 0o755); err != nil {
			return false
		}
		s.dirs = append(s.dirs, d)
	}
	s.scanned = map[int]bool{}
	for i := 0; i < s.nProof; i++ {
		s.scanned[i] = true
	}
	nPre := r.Weighted(2, 3, 4, 4, 3, 2, 2)
	type plan struct{ dir, bl int }
	var plans []plan
	for i := 0; i < nPre; i++ {
		plans = append(plans, plan{r.Intn(s.nProof), allBL[r.Weighted(4, 4, 4, 3)]})
	}
	viaKeeper := nPre > 0 && r.Chance(1, 2)
	counts := map[int]int{}
	var pd []string
	for _, p := range plans {
		pd = append(pd, fmt.Sprintf("d%d:%d", p.dir, p.bl))
		if viaKeeper && p.dir == 0 {
			counts[p.bl]++
			continue
		}
		pk, ord, err := s.bw.KeystoreManagerForPoC.GenerateNewPublicKey()
		if err != nil {
			return false
		}
		db, err := massdb_v1.CreateDB(s.dirs[p.dir], int64(ord), pk, p.bl)
		if err != nil {
			return false
		}
		db.Close()
		s.run.Count("pre_existing_spaces_created_directly", 1)
	}
	s.descs = append(s.descs, fmt.Sprintf("dirs=%d proof=%d pre=[%s] viaKeeper=%v proof_dir_spelling=%q", nd, s.nProof, strings.Join(pd, " "), viaKeeper && len(counts) > 0, s.spelling))
	proof := s.dirs[:s.nProof]
	if viaKeeper && len(counts) > 0 {
		k0, err := s.newKeeper(proof)
		if err != nil {
			return false
		}
		s.setKeeper(k0, 0)
		var ds []string
		for _, bl := range allBL {
			if counts[bl] > 0 {
				ds = append(ds, fmt.Sprintf("%d:%d", bl, counts[bl]))
			}
		}
		s.opByCounts(counts, "(pre-existing set) "+strings.Join(ds, ","))
	}
	k, err := s.newKeeper(proof)
	if err != nil {
		return false
	}
	s.setKeeper(k, 0)
	s.lastSel = map[string]int{}
	s.pre = sortedSpaces(s.indexNow())
	// some pre-existing spaces are removed: they stay indexed but are not in use
	if len(s.pre) > 0 && r.Chance(1, 2) {
		if !s.opByFlags(engine.SFAll) {
			return true
		}
		for i := r.Range(1, 2); i > 0; i-- {
			before := len(s.calls)
			s.opRemove(r.Intn(8))
			if len(s.calls) > before && s.calls[len(s.calls)-1].Err == "" {
				if a, ok := s.calls[len(s.calls)-1].Args.(map[string]interface{}); ok {
					s.preRemoved = append(s.preRemoved, fmt.Sprint(a["id"]))
				}
			}
		}
	}
	return true
}

// overlapScenario: a configure request that is still running (held inside the wallet's key generation) while 2-4 more
// requests for the same directory and size arrive one after the other, then it is let go.  Whatever subset of the
// requests the keeper accepts, the requests are identical, so serving them one at a time always ends with exactly the
// spaces one request needs: a later accepted request finds the earlier one's spaces indexed and reuses them.
func overlapScenario(run *vh.Run, ci int, rng *vh.Rng) {
	wc, err := getWallet(run)
	if err != nil {
		run.Drop("wallet-setup-failed")
		return
	}
	defer putWallet(wc)
	if wc.w.M.IsLocked() {
		if err := wc.w.M.Unlock([]byte(privPass)); err != nil {
			run.Drop("wallet-unlock-failed")
			return
		}
	}
	root := filepath.Join(run.Scratch, fmt.Sprintf("ov%d", ci))
	dir := filepath.Join(root, "plots")
	os.MkdirAll(dir, 0o755)
	defer os.RemoveAll(root)
	defer runtime.GC()
	bw := &budgetWallet{KeystoreManagerForPoC: wc.w.M, hold: make(chan struct{}), entered: make(chan struct{})}
	bw.reset()
	ski, err := capacity.NewSpaceKeeperV1(&config.Config{Miner: &config.Miner{ProofDir: []string{dir}}}, bw)
	if err != nil {
		run.Drop("overlap: keeper construction failed")
		return
	}
	k := ski.(*capacity.SpaceKeeper)
	nSpaces := rng.Range(1, 2)
	size := uint64(nSpaces) * ps(24)
	method := rng.PickS("BySize", "BySize", "ByPath", "ByBitLength")
	call := func() ([]engine.WorkSpaceInfo, error) {
		switch method {
		case "ByPath":
			return k.ConfigureByPath([]string{dir}, []int{int(size)}, false, false)
		case "ByBitLength":
			return k.ConfigureByBitLength(map[int]int{24: nSpaces}, false, false)
		}
		return k.ConfigureBySize(size, false, false)
	}
	type resT struct {
		n   int
		err error
	}
	aDone := make(chan resT, 1)
	go func() { infos, err := call(); aDone <- resT{len(infos), err} }()
	select {
	case <-bw.entered:
	case r := <-aDone:
		run.Drop(fmt.Sprintf("overlap: the first request ended without asking the wallet for a key (%d spaces, err %v)", r.n, r.err))
		return
	case <-time.After(60 * time.Second):
		run.Drop("overlap: the first request did not reach the wallet within 60 s")
		close(bw.hold)
		return
	}
	// the first request is in flight; the others arrive one after the other
	later := rng.Range(2, 4)
	accepted := 0
	var outcomes []string
	for j := 0; j < later; j++ {
		infos, err := call()
		outcomes = append(outcomes, fmt.Sprintf("request %d while the first was running: %d spaces, err %v", j+2, len(infos), err))
		if err == nil {
			accepted++
		}
	}
	close(bw.hold)
	var ra resT
	select {
	case ra = <-aDone:
	case <-time.After(120 * time.Second):
		run.Drop("overlap: the first request did not finish within 120 s after it was let go")
		return
	}
	outcomes = append([]string{fmt.Sprintf("request 1 (held in the wallet meanwhile): %d spaces, err %v", ra.n, ra.err)}, outcomes...)
	if ra.err == nil {
		accepted++
	}
	files := 0
	if es, err := os.ReadDir(dir); err == nil {
		for _, e := range es {
			if strings.HasSuffix(e.Name(), ".massdb") && !strings.Contains(e.Name(), "_a.") {
				files++
			}
		}
	}
	run.Count("overlapping_configure_scenarios", 1)
	run.Count("overlapping_requests_accepted", int64(accepted))
	want := 0
	if accepted > 0 {
		want = nSpaces
	}
	if files > want {
		run.Violate(ci, "overlapping-requests-created-more-spaces-than-one-request-needs", map[string]string{"method": method},
			map[string]interface{}{"requests": outcomes, "identical_request": fmt.Sprintf("%s for %d x PlotSize(24) in one directory", method, nSpaces), "plot_files_on_disk": files, "one_request_needs": want, "accepted_requests": accepted})
	}
	run.Case(vh.HashS(fmt.Sprintf("overlap-%s-%d-%d", method, nSpaces, later)), true)
}

func runScenario(run *vh.Run, ci int, rng *vh.Rng) {
	wc, err := getWallet(run)
	if err != nil {
		run.Drop("wallet-setup-failed")
		return
	}
	defer putWallet(wc)
	s := &scen{run: run, ci: ci, rng: rng, wc: wc, bw: &budgetWallet{KeystoreManagerForPoC: wc.w.M}}
	s.root = filepath.Join(run.Scratch, fmt.Sprintf("s%d", ci))
	if sr := rng.Derive("spelling", 0); sr.Chance(2, 5) {
		s.spelling = sr.PickS("relative", "relative", "dotdot", "slash", "dot")
	}
	defer func() {
		os.RemoveAll(s.root)
		if ci%8 == 0 {
			runtime.GC() // plot files of finished scenarios are closed by finalizers
		}
	}()
	if wc.w.M.IsLocked() {
		if err := wc.w.M.Unlock([]byte(privPass)); err != nil {
			run.Drop("wallet-unlock-failed")
			return
		}
	}
	if !s.setup() {
		run.Drop("scenario-setup-failed")
		return
	}
	if len(s.dirs) > s.nProof && rng.Derive("outside-dir", 0).Chance(1, 2) {
		// a directory the configuration file does not list is configured by path, the node restarts with its unchanged
		// configuration (which does not scan that directory), and the same request comes again: the spaces created the
		// first time lie there and must be used before new ones are created
		extra := len(s.dirs) - 1
		size := uint64(rng.Range(1, 2)) * ps(24)
		s.opByPath([]int{extra}, []uint64{size}, "keeper", fmt.Sprintf("d%d:%d bytes (directory outside proof_dir)", extra, size))
		if !s.dropped && !s.budgetHit {
			s.scanned = map[int]bool{}
			for i := 0; i < s.nProof; i++ {
				s.scanned[i] = true
			}
			s.lastSel = map[string]int{}
			if s.opRestart() && !s.dropped {
				s.opByPath([]int{extra}, []uint64{size}, "keeper", fmt.Sprintf("d%d:%d bytes (same request after the restart)", extra, size))
				s.run.Count("outside_directory_reconfigured_after_restart", 1)
			}
		}
	}
	nOps := rng.Range(1, 4)
	for i := 0; i < nOps && !s.dropped && !s.budgetHit; i++ {
		switch rng.Weighted(36, 30, 14, 5, 7, 8) {
		case 0:
			s.genBySize()
		case 1:
			s.genByPath()
		case 2:
			s.genByCounts()
		case 3:
			fl := []engine.WorkSpaceStateFlags{engine.SFAll, engine.SFRegistered, engine.SFReady, engine.SFRegistered | engine.SFMining}[rng.Intn(4)]
			s.opByFlags(fl)
		case 4:
			s.opRemove(rng.Intn(8))
		case 5:
			s.opRestart()
		}
	}
	if !s.dropped {
		s.opRestart()
	}
	h := vh.HashS(s.descs...)
	run.Case(h, !s.dropped && s.okSelected && s.restartCompared)
	if ci < 4 {
		run.Sample(map[string]interface{}{"case": ci, "operations": s.descs})
	}
}

func main() {
	run := vh.NewRun("C15", "exploration")
	wl.Setup(filepath.Join(run.Scratch, "log"), "error")
	run.Assume("free disk space is read with disk.Usage(dir).Free immediately before each call (the call the keeper uses); accept/reject is judged only for requests at least 2 GiB inside or half a PlotSize(28) outside that value")
	run.Assume("the keeper's index is modelled as the plot files present in the directories it has scanned; the model is confirmed by ConfigureByFlags results and a scenario where it is not is dropped")
	run.Assume(fmt.Sprintf("a wallet wrapper stops a configure call after %d newly issued keys (no judged-valid request needs that many) so that an unbounded creation loop cannot fill the disk", keyBudgetPerCall))
	os.Chdir(run.Scratch) // relative proof_dir spellings are relative to this
	root := run.Rng()
	n := run.N(200, 5000)
	vh.Parallel(n, workers, func(ci int) {
		if !run.Want(ci) {
			return
		}
		runScenario(run, ci, root.Derive("scenario", ci))
	})
	nOv := run.N(16, 300)
	vh.Parallel(nOv, 4, func(oi int) {
		if run.Want(n + oi) {
			overlapScenario(run, n+oi, root.Derive("overlap", oi))
		}
	})
	if run.Only < 0 {
		if run.Counter("restarts_compared") == 0 {
			run.Inconclusive("no restart comparison was executed")
		}
		if run.Counter("size_arithmetic_checked") == 0 || run.Counter("bitlength_counts_checked") == 0 {
			run.Inconclusive("no successful size-based or count-based configuration was judged")
		}
		if run.Counter("rejected:"+clsBelow+":"+capacity.ErrConfigUnderSizeTarget.Error()) == 0 && run.Counter("request_class:"+clsBelow) == 0 {
			run.Inconclusive("no below-minimum request was exercised")
		}
		if d := run.Counter("dropped:index-model-mismatch"); d*20 > int64(n) {
			run.Inconclusive(fmt.Sprintf("%d of %d scenarios dropped because ConfigureByFlags did not return the plot files of the scanned directories (index model mismatch)", d, n))
		}
		if run.Counter("request_class:"+clsBeyond) == 0 {
			run.Inconclusive("no beyond-free-space request was exercised")
		}
	}
	_ = hex.EncodeToString
	run.Finish("case = one seeded scenario: 0-6 pre-existing header-only spaces (bit lengths 24-30, 1-3 proof directories, created directly or by a first keeper's ConfigureByBitLength, some removed), then 1-4 operations out of ConfigureBySize / ConfigureByPath / ConfigureByBitLength / ConfigureByFlags / Remove / Delete / restart (a quarter of the size calls through api.Server.ConfigureCapacity / ConfigureCapacityByDirs) with targets at sums of plot sizes +-1, the minimum +-1, k*PlotSize(24)+r, free space + plots and 2^62..2^64-1, then a restart comparison; two in five scenarios write miner.proof_dir in a non-canonical way for every keeper they construct (relative to the working directory, through '..', with a trailing '/' or '/.'), while requests name the clean absolute path; every api.ConfigureCapacityByDirs response is compared per directory with the selection; non-trivial = at least one successful configure call selected >= 1 space and a restart comparison happened; distinct by hash of the operation list", run.N(100, 2500))
}
