// gen.go: seeded generators for the six cluster message types (real BLS elements) and the
// field-by-field equality used by the round-trip oracle.
package main

import (
	"bytes"
	"encoding/hex"
	"fmt"
	"math/big"
	"strings"
	"unicode/utf8"

	"github.com/google/uuid"
	"github.com/massnetorg/mass-core/poc/chiapos"
	"github.com/massnetorg/mass-core/poc/pocutil"
	"massnet.org/mass/fractal/protocol"
	engine_v2 "massnet.org/mass/poc/engine.v2"
	"verif/harness/internal/vh"
)

var typeNames = map[int]string{
	1: "RequestQualities", 2: "ReportQualities", 3: "RequestProof",
	4: "ReportProof", 5: "RequestSignature", 6: "ReportSignature",
}

func typeLabel(t int) string {
	if n, ok := typeNames[t]; ok {
		return fmt.Sprintf("%d:%s", t, n)
	}
	return fmt.Sprintf("%d:unknown", t)
}

// pool holds BLS elements that are expensive to make; it is a pure function of the seed, so
// every child process of one run sees the same pool.
type pool struct {
	sks  []*chiapos.PrivateKey
	pks  []*chiapos.G1Element
	sigs []*chiapos.G2Element
	// special but valid group elements: point at infinity and the generator
	g1Special []*chiapos.G1Element
	g2Special []*chiapos.G2Element
}

func newPool(seed int64) (*pool, error) {
	rng := vh.NewRng(uint64(seed)).Derive("C16-pool", 0)
	p := &pool{}
	for i := 0; i < 40; i++ {
		sk, pk, err := freshKey(rng)
		if err != nil {
			return nil, err
		}
		p.sks = append(p.sks, sk)
		p.pks = append(p.pks, pk)
	}
	for i := 0; i < 12; i++ {
		sig, err := chiapos.Sign(chiapos.SchemeMPLAug, p.sks[i], rng.Bytes(32))
		if err != nil {
			return nil, fmt.Errorf("Sign: %v", err)
		}
		p.sigs = append(p.sigs, sig)
	}
	p.g1Special = []*chiapos.G1Element{chiapos.NewG1Element(), chiapos.NewG1ElementGenerator()}
	p.g2Special = []*chiapos.G2Element{chiapos.NewG2Element(), chiapos.NewG2ElementGenerator()}
	for _, e := range p.g1Special {
		if e == nil {
			return nil, fmt.Errorf("special G1 element is nil")
		}
	}
	for _, e := range p.g2Special {
		if e == nil {
			return nil, fmt.Errorf("special G2 element is nil")
		}
	}
	return p, nil
}

func freshKey(rng *vh.Rng) (*chiapos.PrivateKey, *chiapos.G1Element, error) {
	sk, err := chiapos.KeyGen(chiapos.SchemeMPLAug, rng.Bytes(32))
	if err != nil {
		return nil, nil, fmt.Errorf("KeyGen: %v", err)
	}
	pk, err := sk.GetG1()
	if err != nil {
		return nil, nil, fmt.Errorf("GetG1: %v", err)
	}
	return sk, pk, nil
}

// genOpts steers a generator: fresh = may create new keys/signatures (round-trip phase),
// small = keep the encoding small (base messages of the mutator), nq = forced number of
// qualities (-1: free choice 0..50).
type genOpts struct {
	fresh bool
	small bool
	nq    int
}

type gen struct {
	rng  *vh.Rng
	p    *pool
	o    genOpts
	full bool // stays true while every transported field is populated (non-zero, non-empty)
}

func (g *gen) pk() *chiapos.G1Element {
	r := g.rng
	if g.o.fresh && r.Chance(1, 5) {
		if _, pk, err := freshKey(r); err == nil {
			return pk
		}
	}
	if r.Chance(1, 30) {
		return g.p.g1Special[r.Intn(len(g.p.g1Special))].Copy()
	}
	return g.p.pks[r.Intn(len(g.p.pks))].Copy()
}

func (g *gen) sig() *chiapos.G2Element {
	r := g.rng
	if g.o.fresh && r.Chance(1, 3) {
		if s, err := chiapos.Sign(chiapos.SchemeMPLAug, g.p.sks[r.Intn(len(g.p.sks))], r.Bytes(r.Range(0, 64))); err == nil {
			return s
		}
	}
	if r.Chance(1, 30) {
		return g.p.g2Special[r.Intn(len(g.p.g2Special))].Copy()
	}
	return g.p.sigs[r.Intn(len(g.p.sigs))].Copy()
}

func (g *gen) uuid() uuid.UUID {
	var u uuid.UUID
	switch g.rng.Intn(12) {
	case 0: // uuid.Nil
		g.full = false
	case 1:
		for i := range u {
			u[i] = 0xff
		}
	default:
		copy(u[:], g.rng.Bytes(16))
	}
	return u
}

func (g *gen) hash() pocutil.Hash {
	var h pocutil.Hash
	switch g.rng.Intn(12) {
	case 0:
		g.full = false
	case 1:
		for i := range h {
			h[i] = 0xff
		}
	case 2:
		copy(h[8:], g.rng.Bytes(24)) // leading zero bytes
	default:
		copy(h[:], g.rng.Bytes(32))
	}
	return h
}

func (g *gen) u64() uint64 {
	var v uint64
	switch g.rng.Intn(10) {
	case 0:
		v = 0
	case 1:
		v = 1
	case 2:
		v = 1 << 63
	case 3:
		v = ^uint64(0)
	case 4:
		v = 1<<53 + 1 // not representable as float64
	case 5:
		v = uint64(g.rng.Intn(1 << 22)) // plausible height
	default:
		v = g.rng.Uint64()
	}
	if v == 0 {
		g.full = false
	}
	return v
}

func (g *gen) u32() uint32 {
	var v uint32
	switch g.rng.Intn(8) {
	case 0:
		v = 0
	case 1:
		v = 1
	case 2:
		v = 1 << 31
	case 3:
		v = ^uint32(0)
	case 4:
		v = uint32(g.rng.Intn(64))
	default:
		v = g.rng.Uint32()
	}
	if v == 0 {
		g.full = false
	}
	return v
}

func (g *gen) u8() uint8 {
	var v uint8
	switch g.rng.Intn(6) {
	case 0:
		v = 0
	case 1:
		v = 255
	case 2:
		v = 32
	default:
		v = uint8(g.rng.Intn(256))
	}
	if v == 0 {
		g.full = false
	}
	return v
}

// target: 0 .. 2^256 (the domain of a PoC target is non-negative).
func (g *gen) target() *big.Int {
	r := g.rng
	one := big.NewInt(1)
	var t *big.Int
	switch r.Intn(10) {
	case 0:
		t = new(big.Int)
	case 1:
		t = big.NewInt(1)
	case 2:
		t = new(big.Int).Lsh(one, 256)
	case 3:
		t = new(big.Int).Sub(new(big.Int).Lsh(one, 256), one)
	case 4:
		t = new(big.Int).Lsh(one, uint(r.Intn(257)))
	case 5:
		t = new(big.Int).SetUint64(r.Uint64())
	case 6: // more than 64 bits, low 64 bits zero: a 64-bit truncation would yield 0
		t = new(big.Int).Lsh(new(big.Int).SetUint64(r.Uint64()|1), uint(64+r.Intn(128)))
	default:
		bits := r.Range(1, 256)
		t = new(big.Int).SetBytes(r.Bytes((bits + 7) / 8))
		t.Rsh(t, uint((8-bits%8)%8))
	}
	if t.Sign() == 0 {
		g.full = false
	}
	return t
}

const jsonSpecial = "a\"b\\c/d<e>&f g h\x7fi\tj\nk\rl\x00m\x01n\x1fo"

func (g *gen) str() string {
	r := g.rng
	var s string
	switch r.Weighted(3, 8, 4, 3, 3, 2, 1) {
	case 0:
		s = ""
	case 1: // looks like a real space id: hex(pubkey)-k
		s = fmt.Sprintf("%x-%d", g.p.pks[r.Intn(len(g.p.pks))].Bytes(), 24+2*r.Intn(9))
	case 2:
		n := r.Range(1, 40)
		b := make([]byte, n)
		for i := range b {
			b[i] = byte(0x20 + r.Intn(0x5f))
		}
		s = string(b)
	case 3:
		s = jsonSpecial[r.Intn(10):]
	case 4:
		s = "空间-é-😀-�-\U0010ffff-" + string(rune(0x80+r.Intn(0x700)))
	case 5:
		s = strings.Repeat("x", r.PickI(1000, 4096, 65536))
		if g.o.small {
			s = s[:1000]
		}
	case 6:
		if g.o.small {
			s = strings.Repeat("long", 300)
		} else {
			s = strings.Repeat("0123456789abcdef", (1<<20)/16)
		}
	}
	if s == "" {
		g.full = false
	}
	return s
}

func (g *gen) blob(typical int) []byte {
	r := g.rng
	var n int
	switch r.Weighted(2, 10, 3, 1) {
	case 0:
		n = 0
	case 1:
		n = typical
	case 2:
		n = r.Range(1, 2*typical)
	case 3:
		n = r.PickI(4096, 65536)
		if g.o.small {
			n = 600
		}
	}
	if n == 0 {
		g.full = false
		if r.Bool() {
			return nil
		}
		return []byte{}
	}
	return r.Bytes(n)
}

func (g *gen) quality() *protocol.Quality {
	var plot [32]byte
	h := g.hash()
	copy(plot[:], h[:])
	return &protocol.Quality{
		WorkSpaceQuality: &engine_v2.WorkSpaceQuality{
			SpaceID:       g.str(),
			PublicKey:     g.pk(),
			PoolPublicKey: g.pk(),
			Index:         g.u32(),
			KSize:         g.u8(),
			Quality:       g.blob(32),
			PlotID:        plot,
		},
		Slot: g.u64(),
	}
}

// genMessage builds message number typ (1..6). full reports whether every transported field is
// populated; only such round trips count as non-trivial.
func genMessage(rng *vh.Rng, p *pool, typ int, o genOpts) (msg protocol.Message, full bool) {
	g := &gen{rng: rng, p: p, o: o, full: true}
	switch typ {
	case 1:
		msg = &protocol.RequestQualities{TaskID: g.uuid(), Challenge: g.hash(), ParentTarget: g.target(), ParentSlot: g.u64(), Height: g.u64()}
	case 2:
		m := &protocol.ReportQualities{TaskID: g.uuid()}
		n := o.nq
		if n < 0 {
			switch rng.Weighted(2, 6, 3, 1) {
			case 0:
				n = 0
			case 1:
				n = rng.Range(1, 4)
			case 2:
				n = rng.Range(5, 50)
			case 3:
				n = 50
			}
		}
		if n == 0 {
			g.full = false
			if rng.Bool() {
				m.Qualities = []*protocol.Quality{}
			}
		}
		for i := 0; i < n; i++ {
			m.Qualities = append(m.Qualities, g.quality())
		}
		msg = m
	case 3:
		msg = &protocol.RequestProof{TaskID: g.uuid(), Height: g.u64(), SpaceID: g.str(), Challenge: g.hash(), Index: g.u32()}
	case 4:
		plotPK := g.pk()
		pos := &chiapos.ProofOfSpace{
			Challenge:     g.hash(),
			PoolPublicKey: g.pk(),
			PlotPublicKey: plotPK,
			KSize:         g.u8(),
			Proof:         g.blob(256),
		}
		msg = &protocol.ReportProof{TaskID: g.uuid(), Proof: &protocol.Proof{
			SpaceID: g.str(), Proof: pos, PublicKey: plotPK, Ordinal: engine_v2.UnknownOrdinal}}
	case 5:
		msg = &protocol.RequestSignature{TaskID: g.uuid(), Height: g.u64(), SpaceID: g.str(), Hash: g.hash()}
	case 6:
		msg = &protocol.ReportSignature{TaskID: g.uuid(), SpaceID: g.str(), Hash: g.hash(), Signature: g.sig()}
	default:
		panic("genMessage: bad type")
	}
	return msg, g.full
}

func g1Diff(a, b *chiapos.G1Element) bool {
	if a == nil || b == nil {
		return a != b
	}
	return !bytes.Equal(a.Bytes(), b.Bytes())
}

func qualityDiff(a, b *protocol.Quality) string {
	if a == nil || b == nil || a.WorkSpaceQuality == nil || b.WorkSpaceQuality == nil {
		return "Qualities[].nil"
	}
	switch {
	case a.SpaceID != b.SpaceID:
		return "Qualities[].SpaceID"
	case g1Diff(a.PublicKey, b.PublicKey):
		return "Qualities[].PublicKey"
	case g1Diff(a.PoolPublicKey, b.PoolPublicKey):
		return "Qualities[].PoolPublicKey"
	case a.Index != b.Index:
		return "Qualities[].Index"
	case a.KSize != b.KSize:
		return "Qualities[].KSize"
	case !bytes.Equal(a.Quality, b.Quality):
		return "Qualities[].Quality"
	case a.PlotID != b.PlotID:
		return "Qualities[].PlotID"
	case a.Slot != b.Slot:
		return "Qualities[].Slot"
	}
	return ""
}

// diffMsg compares all transported fields (big ints by value, BLS elements by serialised bytes,
// slices element by element). It returns the name of the first differing field, "" if equal.
// Fields the wire format does not carry (WorkSpaceQuality.Error, WorkSpaceProof.Ordinal/Error,
// ProofOfSpace.PuzzleHash) are not compared; WorkSpaceProof.PublicKey is carried as plot_public_key.
func diffMsg(a, b protocol.Message) string {
	if a == nil || b == nil {
		return "message-nil"
	}
	if a.MsgType() != b.MsgType() {
		return "MsgType"
	}
	if a.ID() != b.ID() {
		return "TaskID"
	}
	switch x := a.(type) {
	case *protocol.RequestQualities:
		y, ok := b.(*protocol.RequestQualities)
		switch {
		case !ok:
			return "go-type"
		case x.Challenge != y.Challenge:
			return "Challenge"
		case x.ParentTarget == nil || y.ParentTarget == nil:
			return "ParentTarget.nil"
		case x.ParentTarget.Cmp(y.ParentTarget) != 0:
			return "ParentTarget"
		case x.ParentSlot != y.ParentSlot:
			return "ParentSlot"
		case x.Height != y.Height:
			return "Height"
		}
	case *protocol.ReportQualities:
		y, ok := b.(*protocol.ReportQualities)
		if !ok {
			return "go-type"
		}
		if len(x.Qualities) != len(y.Qualities) {
			return "Qualities.len"
		}
		for i := range x.Qualities {
			if d := qualityDiff(x.Qualities[i], y.Qualities[i]); d != "" {
				return d
			}
		}
	case *protocol.RequestProof:
		y, ok := b.(*protocol.RequestProof)
		switch {
		case !ok:
			return "go-type"
		case x.Height != y.Height:
			return "Height"
		case x.SpaceID != y.SpaceID:
			return "SpaceID"
		case x.Challenge != y.Challenge:
			return "Challenge"
		case x.Index != y.Index:
			return "Index"
		}
	case *protocol.ReportProof:
		y, ok := b.(*protocol.ReportProof)
		if !ok {
			return "go-type"
		}
		if x.Proof == nil || y.Proof == nil || x.Proof.Proof == nil || y.Proof.Proof == nil {
			return "Proof.nil"
		}
		p, q := x.Proof, y.Proof
		switch {
		case p.SpaceID != q.SpaceID:
			return "Proof.SpaceID"
		case p.Proof.Challenge != q.Proof.Challenge:
			return "Proof.Challenge"
		case g1Diff(p.Proof.PoolPublicKey, q.Proof.PoolPublicKey):
			return "Proof.PoolPublicKey"
		case g1Diff(p.Proof.PlotPublicKey, q.Proof.PlotPublicKey):
			return "Proof.PlotPublicKey"
		case g1Diff(p.PublicKey, q.PublicKey):
			return "Proof.PublicKey"
		case p.Proof.KSize != q.Proof.KSize:
			return "Proof.KSize"
		case !bytes.Equal(p.Proof.Proof, q.Proof.Proof):
			return "Proof.Proof"
		}
	case *protocol.RequestSignature:
		y, ok := b.(*protocol.RequestSignature)
		switch {
		case !ok:
			return "go-type"
		case x.Height != y.Height:
			return "Height"
		case x.SpaceID != y.SpaceID:
			return "SpaceID"
		case x.Hash != y.Hash:
			return "Hash"
		}
	case *protocol.ReportSignature:
		y, ok := b.(*protocol.ReportSignature)
		switch {
		case !ok:
			return "go-type"
		case x.SpaceID != y.SpaceID:
			return "SpaceID"
		case x.Hash != y.Hash:
			return "Hash"
		case x.Signature == nil || y.Signature == nil:
			return "Signature.nil"
		case !bytes.Equal(x.Signature.Bytes(), y.Signature.Bytes()):
			return "Signature"
		}
	default:
		return "go-type-unknown"
	}
	return ""
}

// malformed names the first nil pointer in a decoded message that a consumer (or the encoder)
// would dereference; "" if the message is well-formed in that sense.
func malformed(m protocol.Message) string {
	switch x := m.(type) {
	case nil:
		return "message-nil"
	case *protocol.RequestQualities:
		if x == nil {
			return "message-nil"
		}
		if x.ParentTarget == nil {
			return "ParentTarget"
		}
	case *protocol.ReportQualities:
		if x == nil {
			return "message-nil"
		}
		for _, q := range x.Qualities {
			switch {
			case q == nil:
				return "Qualities[]"
			case q.WorkSpaceQuality == nil:
				return "Qualities[].WorkSpaceQuality"
			case q.PublicKey == nil:
				return "Qualities[].PublicKey"
			case q.PoolPublicKey == nil:
				return "Qualities[].PoolPublicKey"
			}
		}
	case *protocol.ReportProof:
		switch {
		case x == nil:
			return "message-nil"
		case x.Proof == nil:
			return "Proof"
		case x.Proof.Proof == nil:
			return "Proof.Proof"
		case x.Proof.Proof.PoolPublicKey == nil:
			return "Proof.Proof.PoolPublicKey"
		case x.Proof.Proof.PlotPublicKey == nil:
			return "Proof.Proof.PlotPublicKey"
		case x.Proof.PublicKey == nil:
			return "Proof.PublicKey"
		}
	case *protocol.ReportSignature:
		if x == nil {
			return "message-nil"
		}
		if x.Signature == nil {
			return "Signature"
		}
	case *protocol.RequestProof:
		if x == nil {
			return "message-nil"
		}
	case *protocol.RequestSignature:
		if x == nil {
			return "message-nil"
		}
	}
	return ""
}

// validStrings reports whether all the strings are valid UTF-8.
func validStrings(ss ...string) bool {
	for _, s := range ss {
		if !utf8.ValidString(s) {
			return false
		}
	}
	return true
}

func hexs(b []byte) string { return hex.EncodeToString(b) }
