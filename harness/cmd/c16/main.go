// c16: Cluster wire codec is total and lossless.
//
// Runs the real massnet.org/mass/fractal/protocol EncodeMessage/DecodeMessage.
//
//	(1) round trip: seeded messages of the six types with real BLS elements; oracle
//	    DecodeMessage(EncodeMessage(m)) == m on every transported field.
//	(2) totality: a structure-aware mutator over valid encodings plus random byte strings, every
//	    input <= the receive limit (fractal/connection/options.go: defaultMaxRecvMsgSize = 2 MiB,
//	    enforced in conn.go before allocation). Oracle: DecodeMessage returns (well-formed message,
//	    nil) or an error; a recovered panic, a dead process, > 10 s for one input or allocation above
//	    256 x len + 64 MiB is a violation. The receiving goroutine (fractal/reader.go:116-150,
//	    messageProcessor -> readRemoteMessage -> protocol.DecodeMessage, started by `go` at
//	    reader.go:94) has no recover, so a panic in DecodeMessage kills the node.
//
// Thorough additionally builds this driver with `go build -asan` and pushes the first 300 000 mutated inputs and
// 3 000 round trips through it (C16_ASAN=0 skips, C16_ASAN=force also in quick; C16_OVERLAY=<file> is passed as
// -overlay to that build, for trying candidate repairs). libasan's interceptors see the prebuilt BLS archive only
// at malloc/free/str*/mem* calls; such reports are non-fatal (halt_on_error=0) and become kind "asan-report".
//
// Everything that touches the code under test runs in child processes (this binary with -child):
// a cgo abort or Go fatal error cannot be recovered. The child writes (index, phase, input) to a
// progress file before each call; the parent polls it (hang watchdog, RSS watchdog) and, if the
// child dies, knows the culprit, reports it and restarts behind it.
package main

import (
	"bufio"
	"bytes"
	"encoding/base64"
	"encoding/binary"
	"encoding/hex"
	"encoding/json"
	"flag"
	"fmt"
	"os"
	"os/exec"
	"path/filepath"
	"regexp"
	"runtime"
	"runtime/debug"
	"runtime/metrics"
	"sort"
	"strconv"
	"strings"
	"sync"
	"sync/atomic"
	"syscall"
	"time"

	"github.com/massnetorg/mass-core/logging"
	"massnet.org/mass/fractal/protocol"
	"verif/harness/internal/vh"
)

const (
	recvLimit   = 2 * 1024 * 1024 // connection.defaultMaxRecvMsgSize
	hangLimit   = 10 * time.Second
	allocFactor = 256 // encoding/json needs ~110 bytes per input byte for an array of junk elements (linear, bounded by the 2 MiB receive limit): that is not "exhausts memory"; 64 was stricter than the statement
	allocSlack  = 64 << 20
	rssLimit    = 3 << 30 // parent kills a child above this resident size
	chunkSize   = 500
	repoPrefix  = "massnet.org/mass/"
	corePrefix  = "github.com/massnetorg/mass-core/"
)

// ---------------------------------------------------------------- child <-> parent records

type violRec struct {
	Idx    int                    `json:"idx"` // index inside its phase
	Kind   string                 `json:"kind"`
	Attrs  map[string]string      `json:"attrs"`
	Detail map[string]interface{} `json:"detail"`
	Len    int                    `json:"len"`
}

func (v *violRec) key() string {
	if v.Kind == "asan-report" {
		return v.Kind + "|" + v.Attrs["how"] + "|" + v.Attrs["site"]
	}
	ks := make([]string, 0, len(v.Attrs))
	for k := range v.Attrs {
		ks = append(ks, k)
	}
	sort.Strings(ks)
	var b strings.Builder
	b.WriteString(v.Kind)
	for _, k := range ks {
		b.WriteString("|" + k + "=" + v.Attrs[k])
	}
	return b.String()
}

type chunkResult struct {
	Mode      string                   `json:"mode"`
	From      int                      `json:"from"`
	To        int                      `json:"to"`
	Counts    map[string]int64         `json:"counts"`
	Evals     int                      `json:"evals"`
	Hashes    string                   `json:"hashes"` // base64 of packed LE uint64: hashes of the non-trivial cases
	Viol      map[string]*violRec      `json:"viol"`   // per distinct (kind, attrs): the shortest input
	ViolCount map[string]int64         `json:"viol_count"`
	Targets   []string                 `json:"targets"`
	MaxNs     int64                    `json:"max_ns"`
	MaxNsDesc string                   `json:"max_ns_desc"`
	MaxAlloc  uint64                   `json:"max_alloc"`
	MaxBudget float64                  `json:"max_budget"` // max over inputs of alloc / (256*len + 64 MiB)
	MaxPerB   float64                  `json:"max_per_byte"`
	Samples   []map[string]interface{} `json:"samples"`
	Lossy     []string                 `json:"lossy,omitempty"`
}

func newChunk(mode string, from int) *chunkResult {
	return &chunkResult{Mode: mode, From: from, To: from, Counts: map[string]int64{}, Viol: map[string]*violRec{}, ViolCount: map[string]int64{}}
}

func (c *chunkResult) violate(v *violRec) {
	k := v.key()
	c.ViolCount[k]++
	if old, ok := c.Viol[k]; !ok || v.Len < old.Len {
		c.Viol[k] = v
	}
}

// ---------------------------------------------------------------- child

type progress struct {
	f   *os.File
	buf []byte
}

// write records (idx, phase, input) at offset 0 before the dangerous call.
func (p *progress) write(idx int, phase byte, input []byte) {
	need := 13 + len(input)
	if cap(p.buf) < need {
		p.buf = make([]byte, need*2)
	}
	b := p.buf[:need]
	binary.LittleEndian.PutUint64(b[0:], uint64(idx))
	b[8] = phase
	binary.LittleEndian.PutUint32(b[9:], uint32(len(input)))
	copy(b[13:], input)
	p.f.WriteAt(b, 0)
}

var allocSample = []metrics.Sample{{Name: "/gc/heap/allocs:bytes"}}

func allocBytes() uint64 {
	metrics.Read(allocSample)
	return allocSample[0].Value.Uint64()
}

type callResult struct {
	msg    protocol.Message
	err    error
	pv     interface{}
	site   string // top repository frame (function name)
	siteAt string // file:line of it
	top    string // top non-runtime frame
	stack  string
}

func frameInfo(skip int) (site, siteAt, top string) {
	pcs := make([]uintptr, 96)
	n := runtime.Callers(skip, pcs)
	frames := runtime.CallersFrames(pcs[:n])
	for {
		f, more := frames.Next()
		fn := f.Function
		if fn != "" && !strings.HasPrefix(fn, "runtime.") && !strings.HasPrefix(fn, "main.") {
			if top == "" {
				top = fn
			}
			if strings.HasPrefix(fn, repoPrefix) && site == "" {
				site = fn
				siteAt = fmt.Sprintf("%s:%d", strings.TrimPrefix(f.File, "/repo/"), f.Line)
			}
		}
		if !more {
			break
		}
	}
	if site == "" {
		site = "outside-repository:" + top
	}
	return
}

func guarded(f func()) (r callResult) {
	defer func() {
		if pv := recover(); pv != nil {
			r.pv = pv
			r.site, r.siteAt, r.top = frameInfo(3)
			r.stack = string(debug.Stack())
		}
	}()
	f()
	return
}

func safeDecode(in []byte) (r callResult) {
	var msg protocol.Message
	var err error
	r = guarded(func() { msg, err = protocol.DecodeMessage(in) })
	r.msg, r.err = msg, err
	return
}

func panicClass(pv interface{}) string {
	s := fmt.Sprint(pv)
	switch {
	case strings.Contains(s, "nil pointer dereference"):
		return "nil-dereference"
	case strings.Contains(s, "index out of range"):
		return "index-out-of-range"
	case strings.Contains(s, "slice bounds out of range"):
		return "slice-bounds"
	case strings.Contains(s, "makeslice"):
		return "makeslice"
	case strings.Contains(s, "out of memory"):
		return "out-of-memory"
	}
	if len(s) > 48 {
		s = s[:48]
	}
	return s
}

func inputDetail(in []byte) map[string]interface{} {
	d := map[string]interface{}{"input_len": len(in)}
	if len(in) <= 4096 {
		d["input_hex"] = hex.EncodeToString(in)
		if len(in) >= 2 {
			d["input_body_text"] = strconv.QuoteToASCII(string(in[2:]))
		}
	} else {
		d["input_base64"] = base64.StdEncoding.EncodeToString(in)
		d["input_head_text"] = strconv.QuoteToASCII(string(in[2:200]))
	}
	return d
}

func wireType(in []byte) string {
	if len(in) < 2 {
		return "none"
	}
	return typeLabel(int(binary.BigEndian.Uint16(in)))
}

func trim(s string, n int) string {
	if len(s) > n {
		return s[:n] + "...[cut]"
	}
	return s
}

func childMain(args []string) {
	fs := flag.NewFlagSet("child", flag.ExitOnError)
	mode := fs.String("mode", "mut", "rt|mut")
	seed := fs.Int64("seed", 1, "")
	from := fs.Int("from", 0, "")
	to := fs.Int("to", 0, "")
	progPath := fs.String("progress", "", "")
	resPath := fs.String("result", "", "")
	logDir := fs.String("logdir", "", "")
	verbose := fs.Bool("v", false, "")
	mark := fs.Bool("mark", false, "write a marker line to stderr before every input (asan child: reports are attributed through it)")
	dump := fs.Bool("dump", false, "only print the inputs of the range as JSON lines, do not decode")
	fs.Parse(args)

	logging.Init(*logDir, "c16", "error", 1, true)
	pf, err := os.OpenFile(*progPath, os.O_CREATE|os.O_RDWR, 0o644)
	if err != nil {
		fmt.Println("child: progress file:", err)
		os.Exit(3)
	}
	prog := &progress{f: pf}
	prog.write(*from, 'i', nil) // initialising (pool): not attributable to an input
	rf, err := os.OpenFile(*resPath, os.O_CREATE|os.O_WRONLY|os.O_APPEND, 0o644)
	if err != nil {
		fmt.Println("child: result file:", err)
		os.Exit(3)
	}
	pl, err := newPool(*seed)
	if err != nil {
		fmt.Println("child: pool:", err)
		os.Exit(3)
	}
	root := vh.NewRng(uint64(*seed)).Derive("C16", 0)

	ck := newChunk(*mode, *from)
	targets := map[string]bool{}
	var hashes []byte
	flush := func(upTo int) {
		ck.To = upTo
		ck.Hashes = base64.StdEncoding.EncodeToString(hashes)
		ck.Targets = ck.Targets[:0]
		for t := range targets {
			ck.Targets = append(ck.Targets, t)
		}
		sort.Strings(ck.Targets)
		b, _ := json.Marshal(ck)
		rf.Write(append(b, '\n'))
		ck = newChunk(*mode, upTo)
		targets = map[string]bool{}
		hashes = hashes[:0]
	}
	addHash := func(h uint64) {
		var b [8]byte
		binary.LittleEndian.PutUint64(b[:], h)
		hashes = append(hashes, b[:]...)
	}

	if *dump {
		for i := *from; i < *to; i++ {
			var in []byte
			info := map[string]interface{}{"idx": i}
			if *mode == "rt" {
				msg, _ := genMessage(root.Derive("rt", i), pl, 1+i%6, genOpts{fresh: true, nq: -1})
				in, _ = protocol.EncodeMessage(msg)
				info["mutation"] = "round trip " + typeLabel(1+i%6)
			} else {
				m := makeMutated(root, pl, i)
				in = m.input
				info["mutation"], info["class"], info["base_type"] = m.desc, m.class, typeLabel(m.baseType)
			}
			for k, v := range inputDetail(in) {
				info[k] = v
			}
			b, _ := json.Marshal(info)
			fmt.Println(string(b))
		}
		os.Exit(0)
	}
	for i := *from; i < *to; i++ {
		if *mark {
			cls := "roundtrip"
			if *mode == "mut" {
				cls = schedule[i%len(schedule)]
			}
			os.Stderr.WriteString(fmt.Sprintf("@@input %d %s\n", i, cls))
		}
		if *mode == "rt" {
			childRoundTrip(i, root, pl, prog, ck, addHash, *verbose)
		} else {
			childMutated(i, root, pl, prog, ck, targets, addHash, *verbose)
		}
		ck.Evals++
		if (i+1-*from)%chunkSize == 0 || i+1 == *to {
			flush(i + 1)
		}
	}
	prog.write(*to, 'x', nil)
	os.Exit(0)
}

func childRoundTrip(i int, root *vh.Rng, pl *pool, prog *progress, ck *chunkResult, addHash func(uint64), verbose bool) {
	typ := 1 + i%6
	tl := typeLabel(typ)
	prog.write(i, 'g', nil)
	rng := root.Derive("rt", i)
	msg, full := genMessage(rng, pl, typ, genOpts{fresh: true, nq: -1})
	prog.write(i, 'e', nil)
	var enc []byte
	var err error
	r := guarded(func() { enc, err = protocol.EncodeMessage(msg) })
	if r.pv != nil {
		ck.violate(&violRec{Idx: i, Kind: "encode-panic", Attrs: map[string]string{"msg_type": tl, "site": r.site, "panic": panicClass(r.pv)},
			Detail: map[string]interface{}{"message": fmt.Sprintf("%+v", msg), "panic": fmt.Sprint(r.pv), "stack": trim(r.stack, 6000)}})
		return
	}
	if err != nil {
		ck.violate(&violRec{Idx: i, Kind: "encode-error", Attrs: map[string]string{"msg_type": tl},
			Detail: map[string]interface{}{"message": fmt.Sprintf("%+v", msg), "err": err.Error()}})
		return
	}
	h := vh.Hash64(enc)
	ck.Counts["roundtrips:"+tl]++
	if len(enc) > recvLimit {
		// cannot be received by a peer with default options; still must round-trip through the codec
		ck.Counts["roundtrip_encodings_above_recv_limit"]++
	}
	prog.write(i, 'd', enc)
	a0, t0 := allocBytes(), time.Now()
	d := safeDecode(enc)
	dt, a1 := time.Since(t0), allocBytes()
	noteCost(ck, enc, dt, a1-a0, fmt.Sprintf("round trip %d %s", i, tl))
	if budget := uint64(allocFactor*len(enc) + allocSlack); a1-a0 > budget {
		x := inputDetail(enc)
		x["alloc_bytes"], x["budget_bytes"] = a1-a0, budget
		ck.violate(&violRec{Idx: i, Len: len(enc), Kind: "decode-alloc-blowup", Detail: x,
			Attrs: map[string]string{"msg_type": tl, "mutation": "none:valid-encoding", "amplification": ampBand(a1-a0, len(enc))}})
	}
	det := func() map[string]interface{} {
		m := inputDetail(enc)
		m["phase"] = "roundtrip"
		return m
	}
	switch {
	case d.pv != nil:
		m := det()
		m["panic"], m["stack"], m["site_at"] = fmt.Sprint(d.pv), trim(d.stack, 6000), d.siteAt
		ck.violate(&violRec{Idx: i, Len: len(enc), Kind: "decode-panic", Detail: m,
			Attrs: map[string]string{"msg_type": tl, "mutation": "none:valid-encoding", "site": d.site, "panic": panicClass(d.pv)}})
	case d.err != nil:
		m := det()
		m["err"] = d.err.Error()
		ck.violate(&violRec{Idx: i, Len: len(enc), Kind: "roundtrip-decode-error", Detail: m,
			Attrs: map[string]string{"msg_type": tl, "error": trim(d.err.Error(), 60)}})
	default:
		var field string
		rr := guarded(func() { field = diffMsg(msg, d.msg) })
		if rr.pv != nil {
			field = "compare-panicked:" + fmt.Sprint(rr.pv)
		}
		if field != "" {
			m := det()
			m["sent"], m["received"] = trim(fmt.Sprintf("%+v", deref(msg)), 3000), trim(fmt.Sprintf("%+v", deref(d.msg)), 3000)
			if field == "SpaceID" || strings.HasSuffix(field, ".SpaceID") {
				if !stringsValid(msg) {
					// json.Marshal replaces invalid UTF-8: outside the generated domain, recorded as an observation only
					ck.Counts["observed_lossy_invalid_utf8_string"]++
					break
				}
			}
			ck.violate(&violRec{Idx: i, Len: len(enc), Kind: "roundtrip-mismatch", Detail: m,
				Attrs: map[string]string{"msg_type": tl, "field": field}})
		} else {
			ck.Counts["roundtrips_equal"]++
		}
	}
	if full {
		addHash(h)
		ck.Counts["roundtrips_all_fields_populated"]++
	}
	if i < 3 {
		ck.Samples = append(ck.Samples, map[string]interface{}{"phase": "roundtrip", "type": tl, "encoding_text": trim(strconv.QuoteToASCII(string(enc[2:])), 400), "len": len(enc)})
	}
	if verbose {
		fmt.Printf("roundtrip %d %s len=%d full=%v panic=%v err=%v\n", i, tl, len(enc), full, d.pv, d.err)
	}
}

func deref(m protocol.Message) interface{} {
	switch x := m.(type) {
	case *protocol.ReportQualities:
		var qs []string
		for _, q := range x.Qualities {
			if q == nil || q.WorkSpaceQuality == nil {
				qs = append(qs, "<nil>")
			} else {
				qs = append(qs, fmt.Sprintf("{%+v slot=%d}", *q.WorkSpaceQuality, q.Slot))
			}
		}
		return fmt.Sprintf("ReportQualities{%s %v}", x.TaskID, qs)
	case *protocol.ReportProof:
		if x.Proof != nil && x.Proof.Proof != nil {
			return fmt.Sprintf("ReportProof{%s space=%q %+v}", x.TaskID, x.Proof.SpaceID, *x.Proof.Proof)
		}
	}
	return m
}

func stringsValid(m protocol.Message) bool {
	switch x := m.(type) {
	case *protocol.ReportQualities:
		for _, q := range x.Qualities {
			if !validStrings(q.SpaceID) {
				return false
			}
		}
	case *protocol.RequestProof:
		return validStrings(x.SpaceID)
	case *protocol.ReportProof:
		return validStrings(x.Proof.SpaceID)
	case *protocol.RequestSignature:
		return validStrings(x.SpaceID)
	case *protocol.ReportSignature:
		return validStrings(x.SpaceID)
	}
	return true
}

func ampBand(alloc uint64, n int) string {
	r := float64(alloc) / float64(max(n, 1))
	switch {
	case r <= 256:
		return "upto-256x"
	case r <= 4096:
		return "upto-4096x"
	}
	return "above-4096x"
}

func noteCost(ck *chunkResult, in []byte, dt time.Duration, alloc uint64, desc string) {
	if int64(dt) > ck.MaxNs {
		ck.MaxNs, ck.MaxNsDesc = int64(dt), fmt.Sprintf("%s (len %d)", desc, len(in))
	}
	if alloc > ck.MaxAlloc {
		ck.MaxAlloc = alloc
	}
	budget := float64(allocFactor*len(in) + allocSlack)
	if f := float64(alloc) / budget; f > ck.MaxBudget {
		ck.MaxBudget = f
	}
	if len(in) >= 4096 {
		if f := float64(alloc) / float64(len(in)); f > ck.MaxPerB {
			ck.MaxPerB = f
		}
	}
}

func childMutated(i int, root *vh.Rng, pl *pool, prog *progress, ck *chunkResult, targets map[string]bool, addHash func(uint64), verbose bool) {
	prog.write(i, 'g', nil)
	m := makeMutated(root, pl, i)
	in := m.input
	wt := wireType(in)
	prog.write(i, 'd', in)
	a0, t0 := allocBytes(), time.Now()
	d := safeDecode(in)
	dt, a1 := time.Since(t0), allocBytes()
	alloc := a1 - a0
	noteCost(ck, in, dt, alloc, fmt.Sprintf("mutated input %d, %s: %s", i, m.class, m.desc))
	ck.Counts["mutated:"+m.class]++
	targets[m.class+"|"+m.target] = true
	if len(in) >= recvLimit-1 {
		ck.Counts["inputs_at_recv_limit"]++
	} else if len(in) >= 64<<10 {
		ck.Counts["inputs_64KiB_and_more"]++
	}

	det := func() map[string]interface{} {
		x := inputDetail(in)
		x["mutation"], x["base_type"], x["decode_ns"], x["alloc_bytes"] = m.desc, typeLabel(m.baseType), int64(dt), alloc
		return x
	}
	attrs := func(extra ...string) map[string]string {
		a := map[string]string{"msg_type": wt, "mutation": m.class}
		for j := 0; j+1 < len(extra); j += 2 {
			a[extra[j]] = extra[j+1]
		}
		return a
	}
	outcome := "error"
	nontrivial := m.base == nil || !bytes.Equal(in, m.base)
	switch {
	case d.pv != nil:
		outcome = "panic"
		x := det()
		x["panic"], x["stack"], x["site_at"], x["top_frame"] = fmt.Sprint(d.pv), trim(d.stack, 6000), d.siteAt, d.top
		ck.violate(&violRec{Idx: i, Len: len(in), Kind: "decode-panic", Detail: x, Attrs: attrs("site", d.site, "panic", panicClass(d.pv))})
		ck.Counts["panic_site:"+d.site+"|"+wt]++
	case d.err == nil:
		outcome = "ok"
		// "a well-formed message": no nil pointer a consumer would dereference, re-encodable, and the
		// re-encoding decodes to the same message (the decoded value is a message value, so the round-trip clause applies to it).
		if f := malformed(d.msg); f != "" {
			x := det()
			x["nil_field"] = f
			ck.violate(&violRec{Idx: i, Len: len(in), Kind: "decode-ok-malformed", Detail: x, Attrs: attrs("field", f)})
			break
		}
		var enc []byte
		var eerr error
		r := guarded(func() { enc, eerr = protocol.EncodeMessage(d.msg) })
		switch {
		case r.pv != nil:
			x := det()
			x["panic"], x["stack"] = fmt.Sprint(r.pv), trim(r.stack, 6000)
			ck.violate(&violRec{Idx: i, Len: len(in), Kind: "decode-ok-not-reencodable", Detail: x, Attrs: attrs("site", r.site)})
		case eerr != nil:
			x := det()
			x["err"] = eerr.Error()
			ck.violate(&violRec{Idx: i, Len: len(in), Kind: "decode-ok-not-reencodable", Detail: x, Attrs: attrs("site", "error")})
		default:
			if bytes.Equal(enc, in) {
				nontrivial = false // byte-identical to a valid encoding
				ck.Counts["mutated_identical_to_a_valid_encoding"]++
			}
			prog.write(i, 'r', enc)
			d2 := safeDecode(enc)
			var field string
			if d2.pv == nil && d2.err == nil {
				rr := guarded(func() { field = diffMsg(d.msg, d2.msg) })
				if rr.pv != nil {
					field = "compare-panicked"
				}
			}
			if d2.pv != nil || d2.err != nil || field != "" {
				x := det()
				x["reencoded_hex"] = trim(hex.EncodeToString(enc), 8192)
				x["second_decode"] = fmt.Sprintf("panic=%v err=%v diff=%s", d2.pv, d2.err, field)
				ck.violate(&violRec{Idx: i, Len: len(in), Kind: "accepted-message-does-not-roundtrip", Detail: x, Attrs: attrs("field", field)})
			} else {
				ck.Counts["accepted_messages_roundtripped"]++
			}
		}
	}
	ck.Counts["decode_outcome:"+outcome]++
	if budget := uint64(allocFactor*len(in) + allocSlack); alloc > budget {
		x := det()
		x["budget_bytes"] = budget
		// band of allocated bytes per input byte: a bounded linear amplification and an attacker-chosen length differ here
		ck.violate(&violRec{Idx: i, Len: len(in), Kind: "decode-alloc-blowup", Detail: x, Attrs: attrs("amplification", ampBand(alloc, len(in)))})
	}
	if dt > hangLimit { // finished, but only after the hang limit (the parent's watchdog normally fires first)
		ck.violate(&violRec{Idx: i, Len: len(in), Kind: "decode-hang", Detail: det(), Attrs: attrs("site", "returned-late")})
	}
	if nontrivial {
		addHash(vh.Hash64(in))
	} else {
		ck.Counts["mutated_trivial"]++
	}
	if i < 2*len(schedule) && i%41 == 0 && len(ck.Samples) < 6 {
		ck.Samples = append(ck.Samples, map[string]interface{}{"phase": "mutated", "class": m.class, "mutation": m.desc, "wire_type": wt,
			"outcome": outcome, "input_text": trim(strconv.QuoteToASCII(string(in)), 300), "len": len(in)})
	}
	if verbose {
		fmt.Printf("mutated %d class=%s wire=%s base=%s len=%d outcome=%s ns=%d alloc=%d\n  mutation: %s\n  err: %v\n  panic: %v\n  site: %s %s\n  input: %s\n",
			i, m.class, wt, typeLabel(m.baseType), len(in), outcome, int64(dt), alloc, m.desc, d.err, d.pv, d.site, d.siteAt, trim(strconv.QuoteToASCII(string(in)), 2000))
	}
}

// ---------------------------------------------------------------- parent

type death struct {
	idx      int
	phase    byte
	input    []byte
	exit     int
	signal   string
	hang     bool
	oom      bool
	outText  string
	maxRSSKB int64
}

type parent struct {
	run            *vh.Run
	exe            string
	plainExe       string
	asan           bool
	nextID         int64
	batches        int64
	hangsConfirmed int64
	restarts       int64

	mu        sync.Mutex
	viol      map[string]*violRec
	violCount map[string]int64
	violBase  map[string]int // global case index base per key
	targets   map[string]bool
	maxNs     int64
	maxNsDesc string
	maxAlloc  uint64
	maxBudget float64
	maxPerB   float64
	maxRSSKB  int64
	samples   map[string][]map[string]interface{}
}

func (p *parent) merge(c *chunkResult, base int, countCases bool) {
	run := p.run
	if countCases {
		hs, _ := base64.StdEncoding.DecodeString(c.Hashes)
		nt := len(hs) / 8
		for i := 0; i < nt; i++ {
			run.Case(binary.LittleEndian.Uint64(hs[i*8:]), true)
		}
		run.Eval(c.Evals - nt)
		for k, v := range c.Counts {
			run.Count(k, v)
		}
	} else {
		run.Count("asan_inputs", int64(c.Evals))
	}
	p.mu.Lock()
	defer p.mu.Unlock()
	for k, v := range c.Viol {
		if p.asan {
			// the asan child re-runs inputs of the plain run: only report what the plain run cannot see
			continue
		}
		p.violCount[k] += c.ViolCount[k]
		if old, ok := p.viol[k]; !ok || v.Len < old.Len || (v.Len == old.Len && base+v.Idx < p.violBase[k]+old.Idx) {
			p.viol[k] = v
			p.violBase[k] = base
		}
	}
	for _, t := range c.Targets {
		p.targets[t] = true
	}
	if c.MaxNs > p.maxNs {
		p.maxNs, p.maxNsDesc = c.MaxNs, c.MaxNsDesc
	}
	if c.MaxAlloc > p.maxAlloc {
		p.maxAlloc = c.MaxAlloc
	}
	if c.MaxBudget > p.maxBudget {
		p.maxBudget = c.MaxBudget
	}
	if c.MaxPerB > p.maxPerB {
		p.maxPerB = c.MaxPerB
	}
	for _, s := range c.Samples {
		ph, _ := s["phase"].(string)
		if len(p.samples[ph]) < 2 {
			p.samples[ph] = append(p.samples[ph], s)
		}
	}
}

func (p *parent) addViolation(v *violRec, base int) {
	p.mu.Lock()
	defer p.mu.Unlock()
	k := v.key()
	p.violCount[k]++
	if old, ok := p.viol[k]; !ok || v.Len < old.Len {
		p.viol[k] = v
		p.violBase[k] = base
	}
}

// spawn runs one child over [from,to) and returns the completed chunks and, if it did not finish, how it died.
func (p *parent) spawn(mode string, from, to int, exe string) ([]*chunkResult, *death) {
	return p.spawnLimit(mode, from, to, exe, hangLimit)
}

// spawnLimit is spawn with an explicit per-input watchdog time.
func (p *parent) spawnLimit(mode string, from, to int, exe string, hangAfter time.Duration) ([]*chunkResult, *death) {
	id := atomic.AddInt64(&p.nextID, 1)
	atomic.AddInt64(&p.batches, 1)
	dir := p.run.Scratch
	progPath := filepath.Join(dir, fmt.Sprintf("prog-%d", id))
	resPath := filepath.Join(dir, fmt.Sprintf("res-%d", id))
	outPath := filepath.Join(dir, fmt.Sprintf("out-%d", id))
	defer os.Remove(progPath)
	defer os.Remove(resPath)
	defer os.Remove(outPath)
	outF, err := os.Create(outPath)
	if err != nil {
		return nil, &death{idx: -1, outText: err.Error()}
	}
	cmd := exec.Command(exe, "-child", "-mode", mode, "-seed", fmt.Sprint(p.run.Seed), "-from", fmt.Sprint(from), "-to", fmt.Sprint(to),
		"-progress", progPath, "-result", resPath, "-logdir", filepath.Join(dir, "log"))
	if p.asan {
		cmd.Args = append(cmd.Args, "-mark")
	}
	// halt_on_error=0: errors found by libasan's interceptors (the prebuilt archives are only visible through them)
	// are reported once per call site and the child goes on; errors in instrumented Go/cgo code stay fatal.
	cmd.Env = append(os.Environ(), "GOMAXPROCS=2", "GOTRACEBACK=crash", "ASAN_OPTIONS=detect_leaks=0:halt_on_error=0:abort_on_error=0:exitcode=66:symbolize=1")
	cmd.Stdout, cmd.Stderr = outF, outF
	cmd.SysProcAttr = &syscall.SysProcAttr{Setpgid: true}
	if err := cmd.Start(); err != nil {
		outF.Close()
		return nil, &death{idx: -1, outText: err.Error()}
	}
	done := make(chan error, 1)
	go func() { done <- cmd.Wait() }()

	d := &death{idx: -1}
	readProg := func() (int, byte, bool) {
		f, err := os.Open(progPath)
		if err != nil {
			return 0, 0, false
		}
		defer f.Close()
		var h [9]byte
		if n, _ := f.ReadAt(h[:], 0); n < 9 {
			return 0, 0, false
		}
		return int(binary.LittleEndian.Uint64(h[:])), h[8], true
	}
	lastIdx, lastPhase, since := -2, byte(0), time.Now()
	tick := time.NewTicker(250 * time.Millisecond)
	defer tick.Stop()
	finished := false
	for !finished {
		select {
		case <-done:
			finished = true
		case <-tick.C:
			if idx, ph, ok := readProg(); ok {
				if idx != lastIdx || ph != lastPhase {
					lastIdx, lastPhase, since = idx, ph, time.Now()
				}
			}
			// resident size of the child
			if b, err := os.ReadFile(fmt.Sprintf("/proc/%d/statm", cmd.Process.Pid)); err == nil {
				f := strings.Fields(string(b))
				if len(f) > 1 {
					if pages, err := strconv.ParseInt(f[1], 10, 64); err == nil && pages*4096 > rssLimit && !p.asan {
						d.oom = true
					}
				}
			}
			limit := hangAfter
			if lastPhase != 'd' && lastPhase != 'r' && lastPhase != 'e' {
				limit = 6 * hangLimit // generating / initialising: only guards the harness itself
			}
			if p.asan {
				limit *= 3
			}
			if d.oom || time.Since(since) > limit {
				d.hang = !d.oom
				cmd.Process.Signal(syscall.SIGQUIT)
				select {
				case <-done:
				case <-time.After(8 * time.Second):
					syscall.Kill(-cmd.Process.Pid, syscall.SIGKILL)
					<-done
				}
				finished = true
			}
		}
	}
	outF.Close()
	if ps := cmd.ProcessState; ps != nil {
		d.exit = ps.ExitCode()
		if ws, ok := ps.Sys().(syscall.WaitStatus); ok && ws.Signaled() {
			d.signal = ws.Signal().String()
		}
		if ru, ok := ps.SysUsage().(*syscall.Rusage); ok {
			d.maxRSSKB = ru.Maxrss
			p.mu.Lock()
			if ru.Maxrss > p.maxRSSKB {
				p.maxRSSKB = ru.Maxrss
			}
			p.mu.Unlock()
		}
	}
	if p.asan {
		if ob, err := os.ReadFile(outPath); err == nil {
			p.scanAsan(string(ob), mode)
		}
	}
	// completed chunks
	var chunks []*chunkResult
	if f, err := os.Open(resPath); err == nil {
		sc := bufio.NewScanner(f)
		sc.Buffer(make([]byte, 1<<20), 1<<28)
		for sc.Scan() {
			var c chunkResult
			if json.Unmarshal(sc.Bytes(), &c) == nil && c.To > c.From {
				chunks = append(chunks, &c)
			}
		}
		f.Close()
	}
	doneTo := from
	for _, c := range chunks {
		if c.From == doneTo {
			doneTo = c.To
		}
	}
	if d.exit == 0 && !d.hang && !d.oom && d.signal == "" && doneTo == to {
		return chunks, nil
	}
	// died: who was being processed?
	if b, err := os.ReadFile(progPath); err == nil && len(b) >= 13 {
		d.idx = int(binary.LittleEndian.Uint64(b))
		d.phase = b[8]
		n := int(binary.LittleEndian.Uint32(b[9:]))
		if 13+n <= len(b) {
			d.input = append([]byte(nil), b[13:13+n]...)
		}
	}
	if ob, err := os.ReadFile(outPath); err == nil {
		if len(ob) > 1<<20 {
			ob = append(ob[:512<<10:512<<10], ob[len(ob)-(512<<10):]...)
		}
		d.outText = string(ob)
	}
	return chunks, d
}

// scanAsan finds the non-fatal AddressSanitizer reports in an asan child's output and attributes each to the
// input announced by the preceding marker line.
func (p *parent) scanAsan(out, mode string) {
	lines := strings.Split(out, "\n")
	idx, cls := -1, ""
	for li := 0; li < len(lines); li++ {
		l := lines[li]
		if strings.HasPrefix(l, "@@input ") {
			f := strings.Fields(l)
			if len(f) >= 3 {
				idx, _ = strconv.Atoi(f[1])
				cls = f[2]
			}
			continue
		}
		at := strings.Index(l, "ERROR: AddressSanitizer: ")
		if at < 0 {
			continue
		}
		how := "unknown"
		if f := strings.Fields(l[at+len("ERROR: AddressSanitizer: "):]); len(f) > 0 {
			how = strings.TrimSuffix(f[0], ":")
		}
		site := "unknown"
		end := li + 1
		for ; end < len(lines) && end < li+60 && !strings.HasPrefix(lines[end], "@@input "); end++ {
			if m := asanFrameRe.FindStringSubmatch(lines[end]); m != nil && site == "unknown" {
				if fn := m[1]; !strings.HasPrefix(fn, "__interceptor") && !strings.HasPrefix(fn, "__asan") && !strings.HasPrefix(fn, "__sanitizer") {
					site = fn
				}
			}
		}
		report := strings.Join(lines[li:min(end, li+40)], "\n")
		det := map[string]interface{}{"asan_report": report, "phase_index": idx, "mode": mode, "note": "reported once per call site and child process (halt_on_error=0)"}
		base := 0
		if mode == "mut" {
			base = p.run.N(3000, 50000)
		}
		// fetch the input bytes from the plain binary (same seed, same index: same input)
		if idx >= 0 {
			cmd := exec.Command(p.plainExe, "-child", "-dump", "-mode", mode, "-seed", fmt.Sprint(p.run.Seed), "-from", fmt.Sprint(idx), "-to", fmt.Sprint(idx+1),
				"-progress", filepath.Join(p.run.Scratch, fmt.Sprintf("prog-dump-%d", atomic.AddInt64(&p.nextID, 1))), "-result", os.DevNull, "-logdir", filepath.Join(p.run.Scratch, "log"))
			if b, err := cmd.Output(); err == nil {
				var info map[string]interface{}
				if json.Unmarshal(bytes.TrimSpace(b), &info) == nil {
					for k, v := range info {
						det[k] = v
					}
				}
			}
		}
		ln := 0
		if n, ok := det["input_len"].(float64); ok {
			ln = int(n)
		}
		wt := "unknown"
		if h, ok := det["input_hex"].(string); ok && len(h) >= 4 {
			if b, err := hex.DecodeString(h[:4]); err == nil {
				wt = wireType(b)
			}
		}
		if mode == "rt" && idx >= 0 {
			wt = typeLabel(1 + idx%6)
		}
		p.run.Count("asan_reports", 1)
		p.addViolation(&violRec{Idx: max(idx, 0), Len: ln, Kind: "asan-report", Detail: det,
			Attrs: map[string]string{"how": how, "site": "asan:" + site, "msg_type": wt, "mutation": cls}}, base)
	}
}

var goFrameRe = regexp.MustCompile(`^([A-Za-z0-9_./\-]+(?:\.\(\*?[A-Za-z0-9_]+\))?(?:\.[A-Za-z0-9_]+)+(?:\.func[0-9.]+)?)\(`)
var asanFrameRe = regexp.MustCompile(`^\s+#\d+ 0x[0-9a-f]+ in (\S+)`)

// crashSite extracts, from a dead child's output, the fatal headline and the top repository frame.
func crashSite(out string) (headline, site string, inDecode bool) {
	lines := strings.Split(out, "\n")
	var core, cfunc, asanSite string
	for _, l := range lines {
		if headline == "" {
			switch {
			case strings.HasPrefix(l, "fatal error: "), strings.HasPrefix(l, "panic: "), strings.HasPrefix(l, "SIG"), strings.Contains(l, "ERROR: AddressSanitizer"),
				strings.HasPrefix(l, "runtime: "), strings.HasPrefix(l, "terminate called"), strings.Contains(l, "Assertion"):
				headline = strings.TrimSpace(l)
			}
		}
		if strings.Contains(l, "fractal/protocol.DecodeMessage") {
			inDecode = true
		}
		if m := asanFrameRe.FindStringSubmatch(l); m != nil && asanSite == "" {
			fn := m[1]
			if !strings.HasPrefix(fn, "__interceptor") && !strings.HasPrefix(fn, "__asan") && !strings.HasPrefix(fn, "__sanitizer") {
				asanSite = fn
			}
		}
		if m := goFrameRe.FindStringSubmatch(l); m != nil {
			fn := m[1]
			switch {
			case strings.HasPrefix(fn, repoPrefix) && site == "":
				site = fn
			case strings.HasPrefix(fn, corePrefix) && core == "":
				core = fn
			case strings.Contains(fn, "_Cfunc_") && cfunc == "":
				cfunc = fn
			}
		}
	}
	if strings.Contains(headline, "AddressSanitizer") && asanSite != "" {
		return headline, "asan:" + asanSite, inDecode
	}
	if site == "" {
		switch {
		case core != "":
			site = "outside-repository:" + core
		case cfunc != "":
			site = "outside-repository:" + cfunc
		default:
			site = "unknown"
		}
	}
	return
}

// runRange pushes [from,to) through children, restarting behind every input that kills one.
func (p *parent) runRange(mode string, from, to, base int, exe string, countCases bool, depth int) {
	cur := from
	restarts, hangs := 0, 0
	for cur < to {
		chunks, d := p.spawn(mode, cur, to, exe)
		doneTo := cur
		for _, c := range chunks {
			if c.From == doneTo {
				p.merge(c, base, countCases)
				doneTo = c.To
			}
		}
		if d == nil {
			return
		}
		atomic.AddInt64(&p.restarts, 1)
		restarts++
		k := d.idx
		if k < doneTo || k >= to || restarts > 200 || depth > 3 {
			// cannot attribute the death to an input of this range (or too many deaths): not judged
			p.run.Count("child_deaths_not_attributable", 1)
			for i := doneTo; i < to; i++ {
				p.run.Drop("child died and the culprit could not be isolated")
			}
			if len(p.samples["death"]) < 2 {
				p.mu.Lock()
				p.samples["death"] = append(p.samples["death"], map[string]interface{}{"phase": "death", "mode": mode, "from": cur, "to": to, "idx": k,
					"exit": d.exit, "signal": d.signal, "output": trim(d.outText, 3000)})
				p.mu.Unlock()
			}
			return
		}
		// inputs before the culprit that were not flushed yet: re-run them on their own
		if k > doneTo {
			p.runRange(mode, doneTo, k, base, exe, countCases, depth+1)
		}
		p.judgeDeath(mode, d, base, countCases)
		cur = k + 1
		if d.hang || d.oom {
			// every further hang costs the full watchdog time: after two in one batch the rest is not judged
			if hangs++; hangs >= 2 && cur < to {
				p.run.Count("batches_cut_short_after_repeated_hangs", 1)
				for i := cur; i < to; i++ {
					p.run.Drop("batch abandoned after repeated hangs")
				}
				return
			}
		}
	}
}

func (p *parent) judgeDeath(mode string, d *death, base int, countCases bool) {
	run := p.run
	headline, site, inDecode := crashSite(d.outText)
	phase := string(d.phase)
	wt := wireType(d.input)
	if mode == "rt" {
		wt = typeLabel(1 + d.idx%6)
	}
	class := "none:valid-encoding"
	desc := "round trip"
	var h uint64
	if mode == "mut" {
		class, desc = schedule[d.idx%len(schedule)], "(see input)"
	}
	det := inputDetail(d.input)
	det["phase"], det["exit_code"], det["signal"], det["headline"], det["mutation"] = phase, d.exit, d.signal, headline, desc
	det["child_output"] = trim(d.outText, 12000)
	if d.input != nil {
		h = vh.Hash64(d.input)
	}
	if d.phase != 'd' && d.phase != 'r' && d.phase != 'e' {
		// died while generating the input or initialising: a harness problem, not a verdict about the codec
		run.Drop("child died outside the code under test (phase " + phase + ")")
		run.Count("child_deaths_outside_code_under_test", 1)
		p.mu.Lock()
		if len(p.samples["death"]) < 2 {
			p.samples["death"] = append(p.samples["death"], map[string]interface{}{"phase": "death", "where": phase, "idx": d.idx, "output": trim(d.outText, 3000)})
		}
		p.mu.Unlock()
		return
	}
	if countCases {
		run.Case(h, true)
		if mode == "mut" {
			run.Count("mutated:"+class, 1)
		}
	}
	attrs := map[string]string{"msg_type": wt, "mutation": class, "site": site}
	kind := "decode-crash"
	switch {
	case d.oom:
		kind = "decode-oom"
		det["max_rss_kb"] = d.maxRSSKB
		run.Count("decode_outcome:oom", 1)
	case d.hang:
		if !inDecode && d.phase != 'e' {
			run.Drop("watchdog fired but the goroutine dump does not show DecodeMessage")
			return
		}
		// The watchdog is wall-clock. Before it becomes a verdict the input is run again, alone in a fresh child,
		// with twice the time; the child's own clock then decides (a loaded machine must not fail a correct tree).
		if atomic.LoadInt64(&p.hangsConfirmed) >= 3 {
			run.Drop("suspected hang not re-run: three hangs are already confirmed in this run")
			return
		}
		run.Count("watchdog_fired", 1)
		chunks, d2 := p.spawnLimit(mode, d.idx, d.idx+1, p.exe, 2*hangLimit)
		if d2 == nil {
			late := false
			for _, c := range chunks {
				for _, v := range c.Viol {
					if v.Kind == "decode-hang" {
						late = true
					}
				}
				c.Evals, c.Hashes = 0, "" // the case itself was counted above
				c.Counts = map[string]int64{}
				p.merge(c, base, countCases)
			}
			if late {
				atomic.AddInt64(&p.hangsConfirmed, 1)
			} else {
				run.Count("watchdog_fired_but_input_finished_in_time_when_retried", 1)
			}
			return
		}
		if !d2.hang {
			run.Drop("watchdog fired, and the retry died differently")
			return
		}
		atomic.AddInt64(&p.hangsConfirmed, 1)
		_, site2, _ := crashSite(d2.outText)
		attrs["site"] = site2
		det["retry_child_output"] = trim(d2.outText, 8000)
		kind = "decode-hang"
		run.Count("decode_outcome:hang", 1)
	default:
		if d.phase == 'e' {
			kind = "encode-crash"
		}
		sig := d.signal
		if sig == "" {
			sig = fmt.Sprintf("exit-%d", d.exit)
		}
		attrs["how"] = sig
		if strings.Contains(headline, "AddressSanitizer") {
			kind = "asan-report"
			if f := strings.Fields(headline[strings.Index(headline, "AddressSanitizer"):]); len(f) > 1 {
				attrs["how"] = strings.TrimSuffix(f[1], ":")
			}
		} else if p.asan {
			// the plain run reports ordinary crashes; do not double count
			return
		}
		run.Count("decode_outcome:crash", 1)
	}
	p.addViolation(&violRec{Idx: d.idx, Len: len(d.input), Kind: kind, Attrs: attrs, Detail: det}, base)
}

func buildAsan(run *vh.Run) (string, string) {
	out := filepath.Join(run.Scratch, "c16-asan")
	cmd := exec.Command("go", "build", "-asan", "-tags", "verif", "-o", out, "./cmd/c16")
	cmd.Dir = filepath.Join(run.VerifDir, "harness")
	if _, err := os.Stat(filepath.Join(cmd.Dir, "go.mod")); err != nil {
		cmd.Dir = "/verif/harness"
	}
	cmd.Env = append(os.Environ(), "GOFLAGS=-mod=mod", "GOPROXY=off", "GOSUMDB=off", "GOTOOLCHAIN=local", "CGO_ENABLED=1")
	if ov := os.Getenv("C16_OVERLAY"); ov != "" {
		cmd.Args = append(cmd.Args[:2], append([]string{"-overlay", ov}, cmd.Args[2:]...)...)
	}
	b, err := cmd.CombinedOutput()
	if err != nil {
		return "", trim(string(b), 1500) + " " + err.Error()
	}
	return out, ""
}

func main() {
	if len(os.Args) > 1 && os.Args[1] == "-child" {
		childMain(os.Args[2:])
		return
	}
	if len(os.Args) > 1 && os.Args[1] == "-wirechild" {
		wireChildMain(os.Args[2:])
		return
	}
	run := vh.NewRun("C16", "exploration")
	os.MkdirAll(filepath.Join(run.Scratch, "log"), 0o755)
	logging.Init(filepath.Join(run.Scratch, "log"), "c16", "error", 1, true)
	exe, err := os.Executable()
	if err != nil {
		run.Inconclusive("cannot find own executable: " + err.Error())
		run.Finish("n/a", 0)
	}
	p := &parent{run: run, exe: exe, plainExe: exe, viol: map[string]*violRec{}, violCount: map[string]int64{}, violBase: map[string]int{},
		targets: map[string]bool{}, samples: map[string][]map[string]interface{}{}}
	run.Assume("receive limit = connection.defaultMaxRecvMsgSize (2 MiB), the default every cluster connection in the repository uses")
	run.Assume("the prebuilt BLS archive (libbls) is exercised through the real cgo boundary but is not itself instrumented")

	nRT := run.N(3000, 50000)
	nMut := run.N(60000, 3000000)
	rtBatch := run.N(250, 2500)
	mutBatch := run.N(2500, 25000)
	workers := runtime.NumCPU()
	if workers > 16 {
		workers = 16
	}

	type job struct {
		mode     string
		from, to int
		base     int
	}
	var jobs []job
	nWire := run.N(240, 6000)
	wireOnly := -1
	if run.Only >= nRT+nMut {
		wireOnly = run.Only - nRT - nMut
	}
	if wireOnly >= 0 {
		// a wire case is replayed on its own below
	} else if run.Only >= 0 {
		if run.Only < nRT {
			jobs = append(jobs, job{"rt", run.Only, run.Only + 1, 0})
		} else {
			jobs = append(jobs, job{"mut", run.Only - nRT, run.Only - nRT + 1, nRT})
		}
	} else {
		// biggest first is not needed: batches are uniform. Interleave so both phases share the workers.
		for a := 0; a < nMut; a += mutBatch {
			jobs = append(jobs, job{"mut", a, min(a+mutBatch, nMut), nRT})
		}
		for a := 0; a < nRT; a += rtBatch {
			jobs = append(jobs, job{"rt", a, min(a+rtBatch, nRT), 0})
		}
	}
	vh.Parallel(len(jobs), workers, func(j int) {
		jb := jobs[j]
		p.runRange(jb.mode, jb.from, jb.to, jb.base, exe, true, 0)
	})
	if run.Only < 0 || wireOnly >= 0 {
		runWire(run, exe, nRT+nMut, nWire, wireOnly)
	}
	if run.Only >= 0 && wireOnly < 0 {
		// replay: show what happened to this one input
		jb := jobs[0]
		cmd := exec.Command(exe, "-child", "-v", "-mode", jb.mode, "-seed", fmt.Sprint(run.Seed), "-from", fmt.Sprint(jb.from), "-to", fmt.Sprint(jb.to),
			"-progress", filepath.Join(run.Scratch, "prog-replay"), "-result", filepath.Join(run.Scratch, "res-replay"), "-logdir", filepath.Join(run.Scratch, "log"))
		out, _ := cmd.CombinedOutput()
		fmt.Printf("REPLAY case %d (%s input %d):\n%s\n", run.Only, jb.mode, jb.from, trim(string(out), 20000))
	}

	// thorough: the same child built with -asan over a slice of the same inputs
	asanWanted := os.Getenv("C16_ASAN")
	replayAsan := false
	if run.ReplayFile != "" { // a recorded asan report is only visible to the asan build: replay it there
		if b, err := os.ReadFile(run.ReplayFile); err == nil {
			var rp struct {
				Kind string `json:"kind"`
			}
			replayAsan = json.Unmarshal(b, &rp) == nil && rp.Kind == "asan-report"
		}
	}
	if replayAsan || run.Only < 0 && (run.Thorough() && asanWanted != "0" || asanWanted == "force") {
		t0 := time.Now()
		asanExe, msg := buildAsan(run)
		if asanExe == "" {
			run.Set("asan", "skipped: go build -asan failed: "+msg)
			run.Count("asan_skipped", 1)
		} else {
			run.Set("asan_build_s", int(time.Since(t0).Seconds()))
			pa := &parent{run: run, exe: asanExe, plainExe: exe, asan: true, viol: p.viol, violCount: p.violCount, violBase: p.violBase,
				targets: map[string]bool{}, samples: map[string][]map[string]interface{}{}}
			nA := run.N(6000, 300000)
			nAR := run.N(300, 3000)
			aBatch := run.N(500, 12500)
			var aj []job
			for a := 0; a < nA; a += aBatch {
				aj = append(aj, job{"mut", a, min(a+aBatch, nA), nRT})
			}
			aj = append(aj, job{"rt", 0, nAR, 0})
			if replayAsan {
				aj = jobs
			}
			vh.Parallel(len(aj), workers, func(j int) {
				jb := aj[j]
				pa.runRange(jb.mode, jb.from, jb.to, jb.base, asanExe, false, 0)
			})
			// share the violation maps: copy back (maps are shared by reference; counters are separate)
			run.Count("asan_child_batches", pa.batches)
			run.Count("asan_child_restarts", pa.restarts)
			run.Set("asan", fmt.Sprintf("ran %d mutated inputs and %d round trips in the -asan build", nA, nAR))
			p.mu.Lock()
			if pa.maxRSSKB > 0 {
				run.Set("asan_max_child_rss_kb", pa.maxRSSKB)
			}
			p.mu.Unlock()
		}
	}

	// report
	keys := make([]string, 0, len(p.viol))
	for k := range p.viol {
		keys = append(keys, k)
	}
	sort.Strings(keys)
	sites := map[string]bool{}
	for _, k := range keys {
		v := p.viol[k]
		v.Detail["occurrences_in_this_run"] = p.violCount[k]
		v.Detail["phase_index"] = v.Idx
		if v.Kind == "decode-panic" || v.Kind == "decode-crash" || v.Kind == "asan-report" {
			sites[v.Kind+"|"+v.Attrs["site"]+"|"+v.Attrs["msg_type"]] = true
		}
		run.Violate(p.violBase[k]+v.Idx, v.Kind, v.Attrs, v.Detail)
	}
	run.Count("distinct_panic_sites", int64(len(sites)))
	var siteList []string
	for s := range sites {
		siteList = append(siteList, s)
	}
	sort.Strings(siteList)
	if siteList == nil {
		siteList = []string{}
	}
	run.Set("panic_crash_asan_sites", siteList)
	run.Count("distinct_violation_keys", int64(len(keys)))
	run.Count("child_batches", p.batches)
	run.Count("child_restarts_after_death", p.restarts)
	run.Count("distinct_mutation_targets", int64(len(p.targets)))
	run.Count("max_decode_us", p.maxNs/1000)
	run.Count("max_alloc_bytes_one_input", int64(p.maxAlloc))
	run.Count("max_child_rss_kb", p.maxRSSKB)
	run.Set("max_decode_input", p.maxNsDesc)
	run.Set("max_alloc_fraction_of_budget", float64(int(p.maxBudget*1000))/1000)
	run.Set("max_alloc_bytes_per_input_byte_inputs_4KiB_up", float64(int(p.maxPerB*100))/100)
	for _, ph := range []string{"death", "roundtrip", "mutated"} {
		for _, s := range p.samples[ph] {
			run.Sample(s)
		}
	}
	if run.Only < 0 {
		for t := 1; t <= 6; t++ {
			if run.Counter("roundtrips:"+typeLabel(t)) == 0 {
				run.Inconclusive("no round trip of type " + typeLabel(t) + " was executed")
			}
		}
		for _, c := range classWeights {
			if run.Counter("mutated:"+c.name) == 0 {
				run.Inconclusive("no mutated input of class " + c.name + " was executed")
			}
		}
		if run.Counter("decode_outcome:ok") == 0 || run.Counter("decode_outcome:error") == 0 {
			run.Inconclusive("the mutated inputs did not produce both accepted and rejected decodes")
		}
	}
	if run.Only < 0 && (run.Counter("wire_messages_equal") == 0 || run.Counter("wire_frames_equal") == 0 || run.Counter("frames_delivered_in_pieces") == 0) {
		run.Inconclusive("the wire cases delivered no message, no raw frame or no frame in pieces")
	}
	run.Finish("case = one input (hash of its bytes): a round trip of one generated message, or one mutated/random byte string given to DecodeMessage, "+
		"or one wire case (2-6 messages / raw frames written over loopback TCP to a real connection.Conn in seeded pieces - whole, header byte by byte, cut at random offsets, fixed segment sizes, "+
		"frames coalesced - and read back through the real fractal reader or Conn.Read; a quarter of them end with a frame above the 2 MiB receive limit, sent in full or announced only); "+
		"non-trivial = round trip of a message with every transported field populated, or a mutated input that is not byte-identical to a valid encoding, or a wire case with a frame in pieces, of 32 KiB or more, or above the limit",
		run.N(20000, 1000000))
}
