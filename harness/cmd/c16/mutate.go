// mutate.go: structure-aware mutator over valid encodings (2-byte big-endian type prefix + JSON body).
package main

import (
	"bytes"
	"encoding/binary"
	"encoding/hex"
	"encoding/json"
	"fmt"
	"math/big"
	"strconv"
	"strings"

	"massnet.org/mass/fractal/protocol"
	"verif/harness/internal/vh"
)

// ---- ordered JSON tree (keeps key order, allows duplicate keys and raw fragments) ----

type node struct {
	k    byte // 'o' object, 'a' array, 's' string, 'n' number literal, 'b' bool literal, 'z' null, 'r' raw bytes
	keys []string
	kids []*node
	s    string
}

func nRaw(s string) *node { return &node{k: 'r', s: s} }
func nStr(s string) *node { return &node{k: 's', s: s} }
func nNull() *node        { return &node{k: 'z'} }
func nArr(kids ...*node) *node {
	return &node{k: 'a', kids: kids}
}
func nObj(kv ...interface{}) *node {
	n := &node{k: 'o'}
	for i := 0; i+1 < len(kv); i += 2 {
		n.keys = append(n.keys, kv[i].(string))
		n.kids = append(n.kids, kv[i+1].(*node))
	}
	return n
}

func (n *node) clone() *node {
	c := &node{k: n.k, s: n.s}
	c.keys = append([]string(nil), n.keys...)
	for _, kid := range n.kids {
		c.kids = append(c.kids, kid.clone())
	}
	return c
}

// quoteJSON writes s as a JSON string; bytes >= 0x80 pass through untouched (so invalid UTF-8 can be emitted).
func quoteJSON(b *bytes.Buffer, s string) {
	b.WriteByte('"')
	for i := 0; i < len(s); i++ {
		c := s[i]
		switch {
		case c == '"' || c == '\\':
			b.WriteByte('\\')
			b.WriteByte(c)
		case c < 0x20:
			fmt.Fprintf(b, "\\u%04x", c)
		default:
			b.WriteByte(c)
		}
	}
	b.WriteByte('"')
}

func (n *node) write(b *bytes.Buffer) {
	switch n.k {
	case 'o':
		b.WriteByte('{')
		for i, kid := range n.kids {
			if i > 0 {
				b.WriteByte(',')
			}
			if strings.HasPrefix(n.keys[i], "\x00raw:") { // raw key text (already quoted/escaped by the mutator)
				b.WriteString(n.keys[i][5:])
			} else {
				quoteJSON(b, n.keys[i])
			}
			b.WriteByte(':')
			kid.write(b)
		}
		b.WriteByte('}')
	case 'a':
		b.WriteByte('[')
		for i, kid := range n.kids {
			if i > 0 {
				b.WriteByte(',')
			}
			kid.write(b)
		}
		b.WriteByte(']')
	case 's':
		quoteJSON(b, n.s)
	case 'z':
		b.WriteString("null")
	default: // 'n', 'b', 'r'
		b.WriteString(n.s)
	}
}

func parseTree(body []byte) (root *node, err error) {
	defer func() {
		if r := recover(); r != nil {
			root, err = nil, fmt.Errorf("parseTree: %v", r)
		}
	}()
	dec := json.NewDecoder(bytes.NewReader(body))
	dec.UseNumber()
	return parseVal(dec), nil
}

func parseVal(dec *json.Decoder) *node {
	tok, err := dec.Token()
	if err != nil {
		panic(err)
	}
	switch v := tok.(type) {
	case json.Delim:
		if v == '{' {
			n := &node{k: 'o'}
			for dec.More() {
				kt, err := dec.Token()
				if err != nil {
					panic(err)
				}
				n.keys = append(n.keys, kt.(string))
				n.kids = append(n.kids, parseVal(dec))
			}
			dec.Token()
			return n
		}
		n := &node{k: 'a'}
		for dec.More() {
			n.kids = append(n.kids, parseVal(dec))
		}
		dec.Token()
		return n
	case string:
		return nStr(v)
	case json.Number:
		return &node{k: 'n', s: v.String()}
	case bool:
		return &node{k: 'b', s: strconv.FormatBool(v)}
	case nil:
		return nNull()
	}
	panic("unexpected token")
}

// slot is one replaceable position: kids[idx] of parent. The root sits in a holder array.
type slot struct {
	parent *node
	idx    int
	path   string // pattern such as $.qualities[].public_key
	key    string // last object key on the path ("" for root / array elements)
}

func (s slot) get() *node  { return s.parent.kids[s.idx] }
func (s slot) set(n *node) { s.parent.kids[s.idx] = n }

func collect(holder *node) []slot {
	var out []slot
	var walk func(p *node, i int, path, key string)
	walk = func(p *node, i int, path, key string) {
		out = append(out, slot{p, i, path, key})
		n := p.kids[i]
		switch n.k {
		case 'o':
			for j := range n.kids {
				walk(n, j, path+"."+n.keys[j], n.keys[j])
			}
		case 'a':
			for j := range n.kids {
				walk(n, j, path+"[]", "")
			}
		}
	}
	walk(holder, 0, "$", "")
	return out
}

var hexKeys = map[string]bool{"challenge": true, "parent_target": true, "public_key": true, "pool_public_key": true,
	"quality": true, "plot_id": true, "plot_public_key": true, "proof": true, "hash": true, "signature": true}
var g1Keys = map[string]bool{"public_key": true, "pool_public_key": true, "plot_public_key": true}
var numKeys = map[string]bool{"parent_slot": true, "height": true, "index": true, "k_size": true, "slot": true}

func filter(ss []slot, f func(slot) bool) []slot {
	var out []slot
	for _, s := range ss {
		if f(s) {
			out = append(out, s)
		}
	}
	return out
}

// ---- classes ----

// schedule is the weighted class table; input i has class schedule[i % len(schedule)].
var classWeights = []struct {
	name string
	w    int
}{
	{"type-prefix", 4}, {"replace-null", 7}, {"replace-number", 5}, {"replace-string", 5}, {"replace-bool", 3},
	{"replace-array", 5}, {"replace-object", 5}, {"remove-element", 6}, {"duplicate-key", 4}, {"deep-nesting", 3},
	{"hex-length", 6}, {"hex-nonhex", 4}, {"bls-point", 4}, {"uuid-form", 3}, {"number-huge", 4},
	{"number-negative", 3}, {"truncate", 8}, {"append-garbage", 4}, {"byte-flip", 5}, {"random-bytes", 5},
	{"short", 1}, {"huge", 1}, {"string-escape", 3}, {"splice", 3}, {"multi", 3},
}

var schedule = func() []string {
	var s []string
	// interleave: round-robin over classes while weight remains, so that any window of inputs sees all classes
	left := make([]int, len(classWeights))
	for i, c := range classWeights {
		left[i] = c.w
	}
	for {
		any := false
		for i, c := range classWeights {
			if left[i] > 0 {
				s = append(s, c.name)
				left[i]--
				any = true
			}
		}
		if !any {
			return s
		}
	}
}()

type mutated struct {
	input    []byte
	class    string
	desc     string // what was done, human readable
	target   string // coverage key: class|type|path-pattern|variant
	baseType int
	base     []byte // the valid encoding the input was derived from (nil if none)
}

func encodeBase(rng *vh.Rng, p *pool, t int, nq int) []byte {
	msg, _ := genMessage(rng, p, t, genOpts{small: true, nq: nq})
	b, err := protocol.EncodeMessage(msg)
	if err != nil {
		return nil
	}
	return b
}

func withPrefix(t uint16, body []byte) []byte {
	out := make([]byte, 2+len(body))
	binary.BigEndian.PutUint16(out, t)
	copy(out[2:], body)
	return out
}

func capLimit(b []byte) []byte {
	if len(b) > recvLimit {
		return b[:recvLimit]
	}
	return b
}

var numberVariants = []string{"0", "1", "-1", "255", "256", "4294967295", "4294967296", "18446744073709551615",
	"18446744073709551616", "1e999", "1.5", "-0", "1e-999", "0.0", "1E2", "123456789012345678901234567890123456789012345678901234567890", "9007199254740993"}
var hugeNumberVariants = []string{"18446744073709551616", "18446744073709551615", "4294967296", "4294967295", "256", "65536",
	"9223372036854775808", "1e19", "1e400", "1e308", "9007199254740993", "340282366920938463463374607431768211456", "2147483648"}
var negNumberVariants = []string{"-1", "-0", "-0.0", "1.0", "1.5", "1e2", "1E+2", "0x10", "01", "+1", "\"1\"", "NaN", "Infinity",
	"-Infinity", "1_000", "-9223372036854775808", "-18446744073709551616", ".5", "1.", "1e", "--1", "0e0", "-"}
var typeIDs = []uint16{0, 1, 2, 3, 4, 5, 6, 7, 8, 0x00ff, 0x0100, 0x0200, 0x0300, 0x0400, 0x0500, 0x0600, 0x0101, 0x7fff, 0x8000, 0x8001, 0xfffe, 0xffff, 0x7b22}

// fieldModulus of BLS12-381
var blsP, _ = new(big.Int).SetString("1a0111ea397fe69a4b1ba7b6434bacd764774b84f38512bf6730d2a0f6b0f6241eabfffeb153ffffb9feffffffffaaab", 16)

// curvePointG1 returns the compressed form of a point on y^2 = x^3 + 4 with random x; such a point is
// outside the prime-order subgroup with overwhelming probability.
func curvePointG1(rng *vh.Rng) []byte {
	for tries := 0; tries < 64; tries++ {
		x := new(big.Int).SetBytes(rng.Bytes(48))
		x.Mod(x, blsP)
		y2 := new(big.Int).Exp(x, big.NewInt(3), blsP)
		y2.Add(y2, big.NewInt(4)).Mod(y2, blsP)
		y := new(big.Int).ModSqrt(y2, blsP)
		if y == nil {
			continue
		}
		out := make([]byte, 48)
		x.FillBytes(out)
		out[0] |= 0x80
		half := new(big.Int).Rsh(blsP, 1)
		if (y.Cmp(half) > 0) == rng.Bool() {
			out[0] |= 0x20
		}
		return out
	}
	return make([]byte, 48)
}

const nBlsVariants = 17

// blsVariant returns element bytes of the right length (48 or 96) that probe the group-element parser.
func blsVariant(rng *vh.Rng, valid []byte, v int) ([]byte, string) {
	n := len(valid)
	out := append([]byte(nil), valid...)
	zero := make([]byte, n)
	pb := make([]byte, 48)
	blsP.FillBytes(pb)
	switch v % nBlsVariants {
	case 0:
		return rng.Bytes(n), "random-bytes"
	case 1:
		return zero, "all-zero"
	case 2:
		for i := range out {
			out[i] = 0xff
		}
		return out, "all-ff"
	case 3:
		zero[0] = 0xc0
		return zero, "infinity-canonical"
	case 4:
		zero[0] = 0xc0
		zero[n-1] = 1
		return zero, "infinity-flag-nonzero-x"
	case 5:
		zero[0] = 0x40
		return zero, "infinity-flag-without-compression"
	case 6:
		out[0] &^= 0x80
		return out, "compression-bit-cleared"
	case 7:
		out[0] ^= 0x20
		return out, "sign-bit-flipped"
	case 8:
		out[0] |= 0x40
		return out, "infinity-bit-set-on-point"
	case 9:
		i := rng.Intn(n*8-3) + 3
		out[i/8] ^= 0x80 >> uint(i%8)
		return out, "x-bit-flipped"
	case 10:
		copy(out, pb)
		out[0] |= 0x80
		return out, "x-equals-p"
	case 11:
		q := new(big.Int).Sub(blsP, big.NewInt(int64(1+rng.Intn(4))))
		q.FillBytes(out[:48])
		out[0] |= 0x80
		return out, "x-just-below-p"
	case 12:
		q := new(big.Int).Add(blsP, big.NewInt(int64(1+rng.Intn(1000))))
		q.FillBytes(out[:48])
		out[0] |= 0x80
		return out, "x-above-p"
	case 13:
		if n == 48 {
			return curvePointG1(rng), "on-curve-not-in-subgroup"
		}
		copy(out[48:], pb) // G2: second coordinate = p
		return out, "g2-c0-equals-p"
	case 14:
		zero[0] = 0xe0
		return zero, "infinity-with-sign"
	case 15:
		zero[0] = 0xa0
		return zero, "x-zero-with-sign"
	default:
		zero[0] = 0x80
		return zero, "x-zero"
	}
}

func pickValue(rng *vh.Rng, kind string, orig, root *node, v int) *node {
	switch kind {
	case "null":
		return nNull()
	case "number":
		return nRaw(numberVariants[v%len(numberVariants)])
	case "string":
		vs := []string{"", "0", "null", "00", hex.EncodeToString(rng.Bytes(32)), strings.Repeat("a", rng.PickI(100, 5000)), "00000000-0000-0000-0000-000000000000", "true", "[]", "{}"}
		return nStr(vs[v%len(vs)])
	case "bool":
		if v%2 == 0 {
			return nRaw("true")
		}
		return nRaw("false")
	case "array":
		switch v % 9 {
		case 0:
			return nArr()
		case 1:
			return nArr(nNull())
		case 2:
			return nArr(nArr())
		case 3:
			return nArr(orig.clone())
		case 4:
			return nArr(orig.clone(), orig.clone())
		case 5:
			return nArr(nNull(), nNull(), nNull())
		case 6:
			return nArr(nObj())
		case 7:
			return nArr(nRaw("1"), nStr("a"), nNull(), nRaw("true"))
		default:
			return nArr(orig.clone(), nNull())
		}
	default: // object
		switch v % 7 {
		case 0:
			return nObj()
		case 1:
			return nObj("", nNull())
		case 2:
			return nObj("a", orig.clone())
		case 3:
			return root.clone()
		case 4:
			return nObj("space_id", nNull())
		case 5:
			return nObj("space_id", nStr("s"), "public_key", nNull(), "pool_public_key", nNull())
		default:
			return nObj("task_id", orig.clone(), "proof", nNull(), "qualities", nNull())
		}
	}
}

func nest(depth int, shape int, inner string) string {
	var b strings.Builder
	switch shape % 4 {
	case 0:
		b.WriteString(strings.Repeat("[", depth))
		b.WriteString(inner)
		b.WriteString(strings.Repeat("]", depth))
	case 1:
		b.WriteString(strings.Repeat(`{"a":`, depth))
		if inner == "" {
			inner = "null"
		}
		b.WriteString(inner)
		b.WriteString(strings.Repeat("}", depth))
	case 2: // mixed
		for i := 0; i < depth; i++ {
			if i%2 == 0 {
				b.WriteString("[")
			} else {
				b.WriteString(`{"qualities":`)
			}
		}
		if inner == "" && depth%2 == 0 && depth > 0 {
			inner = "null"
		}
		b.WriteString(inner)
		for i := depth - 1; i >= 0; i-- {
			if i%2 == 0 {
				b.WriteString("]")
			} else {
				b.WriteString("}")
			}
		}
	default: // unclosed openers
		b.WriteString(strings.Repeat("[", depth))
		b.WriteString(inner)
	}
	return b.String()
}

var depths = []int{1, 2, 16, 100, 1000, 9999, 10000, 10001, 20000, 100000, 300000}

// treeMutate applies one tree-level class to the tree below holder. ok=false if not applicable.
func treeMutate(class string, holder *node, rng *vh.Rng, kk int, p *pool, other *node) (desc, target string, ok bool) {
	all := collect(holder)
	root := holder.kids[0]
	pick := func(ss []slot, k int) (slot, bool) {
		if len(ss) == 0 {
			return slot{}, false
		}
		return ss[k%len(ss)], true
	}
	switch class {
	case "replace-null", "replace-number", "replace-string", "replace-bool", "replace-array", "replace-object":
		kind := strings.TrimPrefix(class, "replace-")
		s, _ := pick(all, kk)
		v := kk / len(all)
		nv := pickValue(rng, kind, s.get(), root, v)
		s.set(nv)
		var b bytes.Buffer
		nv.write(&b)
		val := b.String()
		if len(val) > 60 {
			val = val[:60] + "..."
		}
		return "replace " + s.path + " by " + val, s.path + "|" + kind, true
	case "remove-element":
		cs := filter(all, func(s slot) bool { n := s.get(); return (n.k == 'o' || n.k == 'a') && len(n.kids) > 0 })
		s, ok := pick(cs, kk)
		if !ok {
			return "", "", false
		}
		n := s.get()
		v := kk / len(cs)
		mode := v % 8
		switch {
		case mode == 6:
			n.kids, n.keys = nil, nil
			return "remove all members of " + s.path, s.path + "|all", true
		case mode == 7 && len(n.kids) > 1:
			j := rng.Intn(len(n.kids))
			n.kids = []*node{n.kids[j]}
			if n.k == 'o' {
				n.keys = []string{n.keys[j]}
			}
			return "keep only one member of " + s.path, s.path + "|all-but-one", true
		}
		j := (v / 8) % len(n.kids)
		name := "[]"
		if n.k == 'o' {
			name = "." + n.keys[j]
			n.keys = append(n.keys[:j:j], n.keys[j+1:]...)
		}
		n.kids = append(n.kids[:j:j], n.kids[j+1:]...)
		return "remove " + s.path + name, s.path + name, true
	case "duplicate-key":
		cs := filter(all, func(s slot) bool { n := s.get(); return n.k == 'o' && len(n.kids) > 0 })
		s, ok := pick(cs, kk)
		if !ok {
			return "", "", false
		}
		n := s.get()
		v := kk / len(cs)
		j := v % len(n.kids)
		mode := (v / len(n.kids)) % 6
		orig := n.kids[j]
		var dup *node
		first := false
		switch mode {
		case 0:
			dup = orig.clone()
		case 1:
			dup = nNull()
		case 2:
			dup = nNull()
			first = true
		case 3:
			dup = pickValue(rng, rng.PickS("number", "string", "bool", "array", "object"), orig, root, rng.Intn(100))
		case 4:
			dup = pickValue(rng, rng.PickS("array", "object"), orig, root, rng.Intn(100))
			first = true
		default: // same key in another letter case: encoding/json matches keys case-insensitively
			n.keys = append(n.keys, strings.ToUpper(n.keys[j]))
			n.kids = append(n.kids, nNull())
			return "add upper-case duplicate of " + s.path + "." + n.keys[j] + " = null", s.path + "." + n.keys[j] + "|upper-null", true
		}
		if first {
			n.keys = append([]string{n.keys[j]}, n.keys...)
			n.kids = append([]*node{dup}, n.kids...)
			j++
		} else {
			n.keys = append(n.keys, n.keys[j])
			n.kids = append(n.kids, dup)
		}
		return fmt.Sprintf("duplicate key %s.%s (mode %d, first=%v)", s.path, n.keys[j], mode, first), fmt.Sprintf("%s.%s|%d", s.path, n.keys[j], mode), true
	case "deep-nesting":
		s, _ := pick(all, kk)
		v := kk / len(all)
		d := depths[v%len(depths)]
		shape := (v / len(depths)) % 4
		inner := ""
		if rng.Bool() {
			var b bytes.Buffer
			s.get().write(&b)
			inner = b.String()
		}
		s.set(nRaw(nest(d, shape, inner)))
		return fmt.Sprintf("replace %s by nesting depth %d shape %d", s.path, d, shape), fmt.Sprintf("%s|d%d|s%d", s.path, d, shape), true
	case "hex-length", "hex-nonhex":
		cs := filter(all, func(s slot) bool { return s.get().k == 's' && hexKeys[s.key] })
		s, ok := pick(cs, kk)
		if !ok {
			return "", "", false
		}
		v := kk / len(cs)
		h := s.get().s
		var what string
		if class == "hex-length" {
			switch v % 14 {
			case 0:
				what, h = "drop-last-char", h[:max(0, len(h)-1)]
			case 1:
				what, h = "drop-first-char", h[min(1, len(h)):]
			case 2:
				what, h = "drop-2-chars", h[:max(0, len(h)-2)]
			case 3:
				what, h = "add-2-chars", h+"00"
			case 4:
				what, h = "add-1-char", h+"0"
			case 5:
				what, h = "empty", ""
			case 6:
				what, h = "doubled", h+h
			case 7:
				what, h = "halved", h[:len(h)/2]
			case 8:
				what, h = "single-char", "a"
			case 9:
				what, h = "prepend-00", "00"+h
			case 10:
				what, h = "4KiB", strings.Repeat("ab", 2048)
			case 11:
				what, h = "64KiB", strings.Repeat("cd", 32768)
			case 12:
				what, h = "odd-4KiB", strings.Repeat("ab", 2048)+"a"
			default:
				n := rng.Intn(200)
				what, h = "random-length", hex.EncodeToString(rng.Bytes(n))[:n]
			}
		} else {
			repl := []string{"g", "G", "z", " ", "\x00", "-", "+", "é", "０", "A", "F", "x", "\n", "\"", "\\", "\xff"}
			r := repl[v%len(repl)]
			pos := 0
			if len(h) > 0 {
				pos = []int{0, len(h) / 2, len(h) - 1, rng.Intn(len(h))}[(v/len(repl))%4]
			}
			switch {
			case (v/(4*len(repl)))%5 == 4:
				what, h = "0x-prefix", "0x"+h
			case len(h) == 0:
				what, h = "insert-"+strconv.Quote(r), r
			default:
				what, h = "subst-"+strconv.Quote(r), h[:pos]+r+h[pos+1:]
			}
		}
		s.set(nStr(h))
		return class + " " + what + " at " + s.path, s.path + "|" + what, true
	case "bls-point":
		cs := filter(all, func(s slot) bool { return s.get().k == 's' && (g1Keys[s.key] || s.key == "signature") })
		s, ok := pick(cs, kk)
		if !ok {
			return "", "", false
		}
		v := kk / len(cs)
		valid, err := hex.DecodeString(s.get().s)
		want := 48
		if s.key == "signature" {
			want = 96
		}
		if err != nil || len(valid) != want {
			valid = make([]byte, want)
		}
		b, what := blsVariant(rng, valid, v)
		s.set(nStr(hex.EncodeToString(b)))
		return "bls-point " + what + " at " + s.path, s.path + "|" + what, true
	case "uuid-form":
		cs := filter(all, func(s slot) bool { return s.get().k == 's' && s.key == "task_id" })
		s, ok := pick(cs, kk)
		if !ok {
			return "", "", false
		}
		u := s.get().s
		if len(u) != 36 || len(strings.ReplaceAll(u, "-", "")) != 32 {
			u = "01234567-89ab-cdef-0123-456789abcdef"
		}
		nodash := strings.ReplaceAll(u, "-", "")
		vs := []struct{ what, v string }{
			{"upper", strings.ToUpper(u)}, {"urn", "urn:uuid:" + u}, {"URN", "URN:UUID:" + u}, {"bad-urn", "urn:uuix:" + u},
			{"braces", "{" + u + "}"}, {"brace-unbalanced", "{" + u + "x"}, {"brace-wrong-open", "x" + u + "}"}, {"no-dashes", nodash},
			{"no-dashes-nonhex", nodash[:31] + "g"}, {"dash-moved", u[:7] + "-" + u[7:8] + u[9:]}, {"nonhex", u[:35] + "g"},
			{"nonhex-multibyte", u[:34] + "é"}, {"len35", u[:35]}, {"len37", u + "0"}, {"empty", ""}, {"spaces", " " + u[:35]},
			{"long", strings.Repeat(u, 100)}, {"dashes-only", strings.Repeat("-", 36)}, {"len32-multibyte", strings.Repeat("é", 16)},
			{"len45-short-prefix", strings.Repeat("x", 45)}, {"len38-garbage", strings.Repeat("{", 38)}, {"nul", u[:35] + "\x00"},
		}
		c := vs[(kk/len(cs))%len(vs)]
		s.set(nStr(c.v))
		return "uuid-form " + c.what + " at " + s.path, s.path + "|" + c.what, true
	case "number-huge", "number-negative":
		cs := filter(all, func(s slot) bool { return s.get().k == 'n' && numKeys[s.key] })
		s, ok := pick(cs, kk)
		if !ok {
			return "", "", false
		}
		v := kk / len(cs)
		vs := hugeNumberVariants
		if class == "number-negative" {
			vs = negNumberVariants
		}
		lit := vs[v%len(vs)]
		if class == "number-huge" && (v/len(vs))%6 == 5 {
			lit = strings.Repeat("9", rng.PickI(25, 400, 5000))
		}
		s.set(nRaw(lit))
		short := lit
		if len(short) > 24 {
			short = fmt.Sprintf("%d-digits", len(lit))
		}
		return class + " " + s.path + " = " + short, s.path + "|" + short, true
	case "string-escape":
		v := kk
		mode := v % 12
		strs := filter(all, func(s slot) bool { return s.get().k == 's' })
		objs := filter(all, func(s slot) bool { n := s.get(); return n.k == 'o' && len(n.kids) > 0 })
		if mode < 7 {
			s, ok := pick(strs, v/12)
			if !ok {
				return "", "", false
			}
			orig := s.get().s
			var b bytes.Buffer
			quoteJSON(&b, orig)
			q := b.String()
			inner := q[1 : len(q)-1]
			var raw, what string
			switch mode {
			case 0:
				what, raw = "invalid-utf8", `"`+inner+"\xff\xfe\xc0\x80\""
			case 1:
				what, raw = "lone-surrogate", `"`+inner+`\ud800"`
			case 2:
				what, raw = "escaped-nul", `"\u0000`+inner+`"`
			case 3:
				what, raw = "invalid-escape", `"\x41`+inner+`"`
			case 4:
				what, raw = "raw-control-char", "\""+inner+"\n\""
			case 5: // every char as \u escape: equivalent value
				var e strings.Builder
				e.WriteByte('"')
				for _, r := range orig {
					if r < 0x10000 {
						fmt.Fprintf(&e, `\u%04x`, r)
					}
				}
				e.WriteByte('"')
				what, raw = "all-unicode-escapes", e.String()
			default:
				what, raw = "unterminated-escape", `"`+inner+`\"`
			}
			s.set(nRaw(raw))
			return "string-escape " + what + " at " + s.path, s.path + "|" + what, true
		}
		s, ok := pick(objs, v/12)
		if !ok {
			return "", "", false
		}
		n := s.get()
		j := rng.Intn(len(n.keys))
		key := n.keys[j]
		var what, nk string
		switch mode {
		case 7:
			what, nk = "key-upper", strings.ToUpper(key)
		case 8:
			what, nk = "key-title", strings.Title(key)
		case 9: // unicode case folding: K (U+212A) folds to k, long s (U+017F) folds to s
			nk = strings.NewReplacer("k", "K", "s", "ſ").Replace(key)
			what = "key-unicode-fold"
		case 10:
			what, nk = "key-escaped", "\x00raw:\""+strings.ReplaceAll(key, "_", `\u005f`)+"\""
		default:
			what, nk = "key-invalid-utf8", key+"\xff"
		}
		n.keys[j] = nk
		return "string-escape " + what + " of " + s.path + "." + key, s.path + "." + key + "|" + what, true
	case "splice":
		mode := kk % 7
		v := kk / 7
		switch mode {
		case 0, 1: // subtree of another message type
			if other == nil {
				return "", "", false
			}
			oh := nArr(other)
			os := collect(oh)
			s, _ := pick(all, v)
			src := os[rng.Intn(len(os))]
			s.set(src.get().clone())
			return "splice " + src.path + " of another type into " + s.path, s.path + "|from-other", true
		case 2: // unknown keys with nested/big values
			objs := filter(all, func(s slot) bool { return s.get().k == 'o' })
			s, ok := pick(objs, v)
			if !ok {
				return "", "", false
			}
			n := s.get()
			n.keys = append(n.keys, "unknown_"+strconv.Itoa(rng.Intn(10)), "")
			n.kids = append(n.kids, root.clone(), nArr(nNull(), nObj("x", nArr())))
			return "add unknown keys to " + s.path, s.path + "|unknown-keys", true
		case 3: // swap two values of one object
			objs := filter(all, func(s slot) bool { return s.get().k == 'o' && len(s.get().kids) > 1 })
			s, ok := pick(objs, v)
			if !ok {
				return "", "", false
			}
			n := s.get()
			a, b := rng.Intn(len(n.kids)), rng.Intn(len(n.kids))
			n.kids[a], n.kids[b] = n.kids[b], n.kids[a]
			return fmt.Sprintf("swap values of %s.%s and .%s", s.path, n.keys[a], n.keys[b]), s.path + "|swap", true
		case 4: // shuffle key order (an equal message)
			objs := filter(all, func(s slot) bool { return s.get().k == 'o' && len(s.get().kids) > 1 })
			s, ok := pick(objs, v)
			if !ok {
				return "", "", false
			}
			n := s.get()
			pm := rng.Perm(len(n.kids))
			keys, kids := make([]string, len(pm)), make([]*node, len(pm))
			for i, j := range pm {
				keys[i], kids[i] = n.keys[j], n.kids[j]
			}
			n.keys, n.kids = keys, kids
			return "shuffle keys of " + s.path, s.path + "|shuffle", true
		case 5:
			holder.kids[0] = nObj("msg", root)
			return "wrap root in an object", "$|wrap-object", true
		default:
			holder.kids[0] = nArr(root)
			return "wrap root in an array", "$|wrap-array", true
		}
	}
	return "", "", false
}

func render(t uint16, holder *node) []byte {
	var b bytes.Buffer
	b.Write([]byte{byte(t >> 8), byte(t)})
	holder.kids[0].write(&b)
	return capLimit(b.Bytes())
}

func byteFlip(rng *vh.Rng, in []byte) ([]byte, string) {
	out := append([]byte(nil), in...)
	n := rng.Range(1, 4)
	var ops []string
	for i := 0; i < n; i++ {
		if len(out) == 0 {
			out = append(out, byte(rng.Intn(256)))
			continue
		}
		pos := rng.Intn(len(out))
		switch op := rng.Intn(8); op {
		case 0:
			out[pos] ^= 1 << uint(rng.Intn(8))
			ops = append(ops, fmt.Sprintf("bitflip@%d", pos))
		case 1:
			out[pos] = byte(rng.Intn(256))
			ops = append(ops, fmt.Sprintf("set@%d", pos))
		case 2:
			out[pos]++
			ops = append(ops, fmt.Sprintf("inc@%d", pos))
		case 3:
			if pos+1 < len(out) {
				out[pos], out[pos+1] = out[pos+1], out[pos]
			}
			ops = append(ops, fmt.Sprintf("swap@%d", pos))
		case 4:
			out = append(out[:pos:pos], out[pos+1:]...)
			ops = append(ops, fmt.Sprintf("delete@%d", pos))
		case 5:
			out = append(out[:pos:pos], append([]byte{byte(rng.Intn(256))}, out[pos:]...)...)
			ops = append(ops, fmt.Sprintf("insert@%d", pos))
		case 6:
			l := rng.Range(1, 16)
			if pos+l > len(out) {
				l = len(out) - pos
			}
			out = append(out[:pos+l:pos+l], out[pos:]...)
			ops = append(ops, fmt.Sprintf("dup-run@%d+%d", pos, l))
		default:
			c := []byte(`{}[]":,\`)[rng.Intn(8)]
			out[pos] = c
			ops = append(ops, fmt.Sprintf("set-%q@%d", c, pos))
		}
	}
	return capLimit(out), strings.Join(ops, ",")
}

func fill(pattern string, n int) string {
	if n <= 0 || pattern == "" {
		return ""
	}
	return strings.Repeat(pattern, n/len(pattern)+1)[:n]
}

const nHugeVariants = 25

var hugeEls = []string{"[],", "1,", `"a",`, "true,", `{"index":1},`}
var hugeSizes = []int{64 << 10, 256 << 10, 64 << 10, 1 << 20, 256 << 10, recvLimit, 64 << 10, recvLimit - 1}

// hugeInput builds an input of about sz bytes (never above the receive limit).
func hugeInput(rng *vh.Rng, p *pool, t int, kk int, base []byte) (in []byte, desc string) {
	v := kk % nHugeVariants
	sz := hugeSizes[(kk/nHugeVariants)%len(hugeSizes)]
	body := base[2:]
	pre := string(base[:2])
	uu := "01234567-89ab-cdef-0123-456789abcdef"
	room := sz - len(base)
	if room < 0 {
		room = 0
	}
	var s string
	switch v {
	case 0:
		s, desc = pre+fill(" \n\t\r", room)+string(body), "whitespace before the body"
	case 1:
		s, desc = string(base)+fill(" \n", room), "whitespace after the body"
	case 2:
		s, desc = pre+"{"+fill(" ", room)+string(body[1:]), "whitespace inside the body"
	case 3, 4, 14, 19: // one long string leaf
		holder := nArr(nil)
		root, err := parseTree(body)
		if err != nil {
			return capLimit(append([]byte(pre), fill("x", sz)...)), "fallback"
		}
		holder.kids[0] = root
		all := collect(holder)
		var cs []slot
		if v == 3 {
			cs = filter(all, func(s slot) bool { return s.get().k == 's' && hexKeys[s.key] })
		} else {
			cs = filter(all, func(s slot) bool { return s.get().k == 's' && (s.key == "space_id" || v != 4) })
		}
		if len(cs) == 0 {
			cs = filter(all, func(s slot) bool { return s.get().k == 's' })
		}
		sl := cs[rng.Intn(len(cs))]
		switch v {
		case 3:
			sl.set(nStr(fill("0123456789abcdef", room&^1)))
			desc = "long valid hex in " + sl.path
		case 4:
			sl.set(nStr(fill("space", room)))
			desc = "long string in " + sl.path
		case 14:
			sl.set(nRaw(`"` + fill(`\u0000`, room/6*6) + `"`))
			desc = "long run of \\u0000 escapes in " + sl.path
		default:
			sl.set(nRaw(`"` + fill("\xff\xc0\x80\xed\xa0\x80", room) + `"`))
			desc = "long invalid UTF-8 in " + sl.path
		}
		return render(binary.BigEndian.Uint16(base), holder), desc
	case 5:
		s, desc = "\x00\x02"+`{"task_id":"`+uu+`","qualities":[`+fill("null,", sz-70)+"null]}", "many null qualities"
	case 6:
		s, desc = "\x00\x02"+`{"task_id":"`+uu+`","qualities":[`+fill("{},", (sz-70)/3*3)+"{}]}", "many empty-object qualities"
	case 7, 21, 22, 23, 24: // every (element kind x size) occurs in every run: the linear worst case of the JSON layer is always probed
		el := hugeEls[0]
		if v > 20 {
			el = hugeEls[v-20]
		}
		s, desc = "\x00\x02"+`{"task_id":"`+uu+`","qualities":[`+fill(el, (sz-70)/len(el)*len(el))+"null]}", "many "+el+" qualities"
	case 8: // many valid qualities: each costs two group-element validations (about 1 ms each here), i.e. seconds of
		// legitimate linear work for a full frame; kept small so that the hang watchdog never judges machine speed
		if sz > 128<<10 {
			sz = 128 << 10
		}
		msg, _ := genMessage(rng, p, 2, genOpts{small: true, nq: 1})
		b, _ := protocol.EncodeMessage(msg)
		str := string(b)
		i := strings.Index(str, `"qualities":[`)
		if i < 0 || len(str) < i+15 {
			return capLimit(append([]byte(pre), fill("x", sz)...)), "fallback"
		}
		head, q := str[:i+13], str[i+13:len(str)-2]
		n := (sz - len(head) - 2) / (len(q) + 1)
		if n < 1 {
			n = 1
		}
		s, desc = head+strings.Repeat(q+",", n-1)+q+"]}", fmt.Sprintf("%d copies of a valid quality", n)
	case 9:
		return capLimit(append([]byte(pre), rng.Bytes(sz-2)...)), "random bytes after a valid prefix"
	case 10:
		s, desc = pre+fill("[", sz-2), "only '['"
	case 11:
		s, desc = pre+fill(`{"a":`, (sz-2)/5*5), `only '{"a":'`
	case 12:
		s, desc = pre+`{"task_id":"`+fill("a", sz-14), "unterminated string"
	case 13:
		s, desc = pre+`{"task_id":"`+uu+`","height":`+fill("9", sz-70)+`,"index":`+fill("1", 10)+"}", "huge number"
	case 15:
		var b strings.Builder
		b.WriteString(pre + "{")
		for i := 0; b.Len() < sz-len(body)-40; i++ {
			fmt.Fprintf(&b, `"k%d":%d,`, i, i)
		}
		b.Write(body[1:])
		s, desc = b.String(), "many unknown keys"
	case 16:
		el := `"task_id":"` + uu + `",`
		s, desc = pre+"{"+fill(el, room/len(el)*len(el))+string(body[1:]), "many duplicate task_id keys"
	case 17:
		el := rng.PickS(`"qualities":[null],`, `"proof":{},`, `"proof":null,`, `"qualities":[],`)
		s, desc = pre+"{"+fill(el, room/len(el)*len(el))+string(body[1:]), "many duplicate "+el
	case 18:
		s, desc = string(base)+fill(string(rng.Bytes(61)), room), "valid body followed by garbage"
	default: // 20
		d := (sz - 80) / 2
		s, desc = "\x00\x02"+`{"task_id":"`+uu+`","qualities":`+strings.Repeat("[", d)+strings.Repeat("]", d)+"}", "deep nesting inside qualities"
	}
	return capLimit([]byte(s)), desc
}

// makeMutated builds mutated input number i of the run; a pure function of (root stream, i).
func makeMutated(root *vh.Rng, p *pool, i int) mutated {
	rng := root.Derive("mut", i)
	class := schedule[i%len(schedule)]
	k := i / len(schedule)
	t := 1 + k%6
	kk := k / 6

	// classes that need a certain kind of leaf pick a type that has one
	switch class {
	case "bls-point":
		t = []int{2, 4, 6}[k%3]
		kk = k / 3
	case "number-huge", "number-negative":
		t = 1 + k%5
		kk = k / 5
	}
	nq := []int{1, 1, 2, 3, 0, 1}[rng.Intn(6)]
	if t == 2 && (class == "bls-point" || strings.HasPrefix(class, "number-")) && nq == 0 {
		nq = 1
	}
	if class == "truncate" {
		nq = rng.Intn(2)
	}
	m := mutated{class: class, baseType: t}
	base := encodeBase(rng, p, t, nq)
	if base == nil {
		m.input, m.desc, m.class = rng.Bytes(rng.Intn(64)), "encoder refused the base message; random bytes instead", "random-bytes"
		m.target = "fallback"
		return m
	}
	m.base = base
	tu := uint16(t)

	tree := func() *node {
		r, err := parseTree(base[2:])
		if err != nil {
			return nil
		}
		return nArr(r)
	}
	otherTree := func() *node {
		ot := 1 + rng.Intn(6)
		ob := encodeBase(rng, p, ot, 1)
		if ob == nil {
			return nil
		}
		r, err := parseTree(ob[2:])
		if err != nil {
			return nil
		}
		return r
	}
	fallback := func(why string) mutated {
		m.input, m.desc = byteFlip(rng, base)
		m.desc = why + "; byte-flip instead: " + m.desc
		m.class, m.target = "byte-flip", "fallback"
		return m
	}

	switch class {
	case "type-prefix":
		id := typeIDs[kk%len(typeIDs)]
		mode := (kk / len(typeIDs)) % 8
		switch mode {
		case 5:
			m.input, m.desc = []byte{byte(id >> 8), byte(id)}, fmt.Sprintf("prefix %#04x only, no body", id)
		case 6:
			m.input, m.desc = []byte{byte(id)}, fmt.Sprintf("one-byte prefix %#02x", byte(id))
		case 7:
			m.input, m.desc = append([]byte{byte(id >> 8), byte(id), byte(id)}, base[2:]...), fmt.Sprintf("three-byte prefix %#04x", id)
		default:
			if mode == 4 {
				id = uint16(rng.Intn(65536))
			}
			m.input, m.desc = withPrefix(id, base[2:]), fmt.Sprintf("prefix %#04x on a %s body", id, typeNames[t])
		}
		m.target = fmt.Sprintf("%d|%#04x|%d", t, id, mode)
	case "truncate":
		off := kk % (len(base) + 1)
		m.input, m.desc = base[:off], fmt.Sprintf("truncate at %d of %d", off, len(base))
		m.target = fmt.Sprintf("%d|len%d|off%d", t, len(base), off)
	case "append-garbage":
		mode := kk % 12
		var tail []byte
		front := false
		switch mode {
		case 0:
			tail = rng.Bytes(rng.Range(1, 64))
		case 1:
			tail = []byte(fill(" \n\t\r", rng.Range(1, 1000)))
		case 2:
			tail = []byte("{}")
		case 3:
			tail = []byte("null")
		case 4:
			tail = append([]byte(nil), base[2:]...)
		case 5:
			tail = make([]byte, rng.Range(1, 16))
		case 6:
			tail = []byte("}")
		case 7:
			tail = []byte(",")
		case 8:
			tail, front = []byte("\xef\xbb\xbf"), true
		case 9:
			tail, front = []byte(fill(" \n\t\r", rng.Range(1, 1000))), true
		case 10:
			tail = append([]byte(nil), base...)
		default:
			tail, front = []byte("/*c*/"), true
		}
		if front {
			m.input = append(append(append([]byte(nil), base[:2]...), tail...), base[2:]...)
		} else {
			m.input = append(append([]byte(nil), base...), tail...)
		}
		m.desc = fmt.Sprintf("append-garbage mode %d (%d bytes, front=%v)", mode, len(tail), front)
		m.target = fmt.Sprintf("%d|%d", t, mode)
	case "byte-flip":
		m.input, m.desc = byteFlip(rng, base)
		m.target = fmt.Sprintf("%d", t)
	case "random-bytes":
		n := []int{0, 1, 2, 3, 4, 5, 6, 7, 8, 16, 64, 256, 4096, 100, 30, 65536}[kk%16]
		alpha := (kk / 16) % 3
		var b []byte
		switch alpha {
		case 0:
			b = rng.Bytes(n)
		case 1:
			const a = `{}[]":,0123456789abcdef \ntruefalsenull-.eE`
			b = make([]byte, n)
			for j := range b {
				b[j] = a[rng.Intn(len(a))]
			}
		default:
			b = make([]byte, n)
			for j := range b {
				b[j] = byte(0x20 + rng.Intn(0x5f))
			}
		}
		if (kk/48)%3 != 0 {
			b = withPrefix(tu, b)
			m.desc = fmt.Sprintf("%d random bytes (alphabet %d) after prefix %d", n, alpha, t)
		} else {
			m.desc = fmt.Sprintf("%d random bytes (alphabet %d), no prefix", n, alpha)
		}
		m.input, m.base = b, nil
		m.target = fmt.Sprintf("%d|n%d|a%d", t, n, alpha)
	case "short":
		bodies := []string{"", "{", "[", "\"", "n", "t", "f", "0", "-", " ", "}", "{}", "[]", "null", `""`, "0", "true", `{"`, `{"task_id"`, `{"task_id":`, `{"task_id":null}`, `{"qualities":[null]}`, `{"proof":null}`, `{"proof":{}}`, "[null]", `"x"`, "1e9"}
		if kk%3 == 0 {
			m.input, m.desc = []byte{byte(kk / 3)}, fmt.Sprintf("single byte %#02x", byte(kk/3))
			if (kk/3)%256 == 255 {
				m.input, m.desc = []byte{}, "empty input"
			}
		} else {
			b := bodies[(kk/3)%len(bodies)]
			m.input, m.desc = withPrefix(tu, []byte(b)), fmt.Sprintf("prefix %d + %q", t, b)
		}
		m.base = nil
		m.target = fmt.Sprintf("%d|%s", t, m.desc)
	case "huge": // (variant x size) enumerated by k, so that all combinations occur in every quick run
		m.input, m.desc = hugeInput(rng, p, t, k, base)
		m.target = fmt.Sprintf("v%d|s%d", k%nHugeVariants, (k/nHugeVariants)%len(hugeSizes))
	case "multi":
		h := tree()
		if h == nil {
			return fallback("base body is not JSON")
		}
		n := rng.Range(2, 4)
		var descs []string
		names := []string{"replace-null", "replace-number", "replace-string", "replace-bool", "replace-array", "replace-object", "remove-element",
			"duplicate-key", "hex-length", "hex-nonhex", "bls-point", "uuid-form", "number-huge", "number-negative", "string-escape", "splice"}
		for j := 0; j < n; j++ {
			c := names[rng.Intn(len(names))]
			if d, _, ok := treeMutate(c, h, rng, rng.Intn(1<<20), p, otherTree()); ok {
				descs = append(descs, d)
			}
		}
		m.input = render(tu, h)
		if rng.Chance(1, 4) {
			var d string
			m.input, d = byteFlip(rng, m.input)
			descs = append(descs, d)
		}
		m.desc = strings.Join(descs, " + ")
		m.target = fmt.Sprintf("%d", t)
	default:
		h := tree()
		if h == nil {
			return fallback("base body is not JSON")
		}
		var other *node
		if class == "splice" {
			other = otherTree()
		}
		d, tg, ok := treeMutate(class, h, rng, kk, p, other)
		if !ok {
			return fallback(class + " not applicable to this base")
		}
		m.input, m.desc, m.target = render(tu, h), d, fmt.Sprintf("%d|%s", t, tg)
	}
	m.input = capLimit(m.input)
	return m
}
