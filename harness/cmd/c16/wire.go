// wire.go: the path a message takes between two nodes - connection.Conn framing (fractal/connection/conn.go),
// the message receiver (fractal/reader.go) and DecodeMessage - driven with raw TCP writes the way a peer's
// kernel may deliver them: a frame in one piece, cut into segments at seeded offsets (with and without pauses),
// several frames coalesced into one write, frames at the size boundaries up to the receive limit, and a hostile
// peer announcing frames above the limit.
//
//	honest   2-6 generated messages of the types one reader accepts; every one must come out of the real reader equal
//	         (diffMsg) and in order
//	raw      random bodies of boundary sizes (1 .. receive limit) read back through Conn.Read: byte-identical, in order
//	oversize after some valid frames, a header announcing more than the receive limit: a frame of limit+1 bytes sent in
//	         full must not be delivered; a header announcing 64 MiB - 1 GiB (no body) must not make the node allocate it
//
//	backlog-stop  12-30 valid messages arrive and nobody reads them, then the message receiver is stopped: the stop must return
//	concurrent-codec  4-8 goroutines encode and decode messages of all six types at the same time; every round trip must
//	         give back the message that went in
//	conn-pair two Conns over TCP, the sending one on a slow link (a pause after every socket write) with keepalive pings
//	         every 0.5-2 ms, the receiving one answering or pinging itself: what the receiver delivers must be a prefix of
//	         what was sent, byte for byte (pings and pongs must never land inside a frame)
//
// A read that does not finish within the case's generous deadline is not judged (dropped), never a violation - unless
// the goroutine dump proves it can never finish: every goroutine of the connection is parked in a WaitGroup wait /
// semaphore (nobody is left to release it), e.g. the receive routine waiting for its own exit.
package main

import (
	"bufio"
	"bytes"
	"context"
	"encoding/binary"
	"encoding/json"
	"flag"
	"fmt"
	"net"
	"os"
	"path/filepath"
	"regexp"
	"runtime"
	"strings"
	"sync"
	"sync/atomic"
	"time"

	"github.com/massnetorg/mass-core/logging"
	"massnet.org/mass/fractal"
	"massnet.org/mass/fractal/connection"
	"massnet.org/mass/fractal/protocol"
	"verif/harness/internal/vh"
)

type wireViol struct {
	Kind   string                 `json:"kind"`
	Attrs  map[string]string      `json:"attrs"`
	Detail map[string]interface{} `json:"detail"`
}

type wireRes struct {
	mu         sync.Mutex
	Idx        int              `json:"idx"`
	Class      string           `json:"class"`
	Hash       uint64           `json:"hash"`
	Nontrivial bool             `json:"nontrivial"`
	Dropped    string           `json:"dropped,omitempty"`
	Counts     map[string]int64 `json:"counts"`
	Viol       []wireViol       `json:"viol,omitempty"`
	Desc       []string         `json:"desc"`
}

func (r *wireRes) add(name string, n int64) {
	r.mu.Lock()
	r.Counts[name] += n
	r.mu.Unlock()
}

func (r *wireRes) violate(kind string, attrs map[string]string, det map[string]interface{}) {
	if det == nil {
		det = map[string]interface{}{}
	}
	r.mu.Lock()
	det["case"] = append([]string(nil), r.Desc...)
	r.Viol = append(r.Viol, wireViol{kind, attrs, det})
	r.mu.Unlock()
}

const wireReadDeadline = 30 * time.Second

// writePlan sends b over c in the pieces the plan names; it returns the number of writes.
func writePlan(c net.Conn, b []byte, rng *vh.Rng, plan string) (int, error) {
	var cuts []int
	switch plan {
	case "whole":
	case "header-split": // the 4-byte size arrives byte by byte, the body in one piece
		cuts = []int{1, 2, 3, 4}
	case "two":
		if len(b) > 5 {
			cuts = []int{4 + rng.Intn(len(b)-4)}
		}
	case "many":
		n := rng.Range(3, 12)
		for i := 0; i < n && len(b) > 2; i++ {
			cuts = append(cuts, 1+rng.Intn(len(b)-1))
		}
	case "mtu": // fixed-size segments
		seg := rng.PickI(536, 1448, 4096, 16384, 65483)
		for o := seg; o < len(b); o += seg {
			cuts = append(cuts, o)
		}
	}
	cuts = append(cuts, len(b))
	sortInts(cuts)
	writes, prev := 0, 0
	pause := rng.Chance(1, 2)
	for _, cut := range cuts {
		if cut <= prev {
			continue
		}
		if _, err := c.Write(b[prev:cut]); err != nil {
			return writes, err
		}
		writes++
		prev = cut
		if pause && cut < len(b) {
			if len(cuts) > 64 {
				runtime.Gosched()
			} else {
				time.Sleep(time.Duration(rng.Intn(400)) * time.Microsecond)
			}
		}
	}
	return writes, nil
}

func sortInts(a []int) {
	for i := 1; i < len(a); i++ {
		for j := i; j > 0 && a[j-1] > a[j]; j-- {
			a[j-1], a[j] = a[j], a[j-1]
		}
	}
}

func frame(body []byte) []byte {
	f := make([]byte, 4+len(body))
	binary.BigEndian.PutUint32(f, uint32(len(body)))
	copy(f[4:], body)
	return f
}

var goroutineHeadRe = regexp.MustCompile(`^goroutine \d+ \[([^\],]+)`)

// connDeadlock inspects a dump of all goroutines: it reports true when goroutines with connection.(*Conn) frames
// exist and every one of them is parked in a WaitGroup wait / semaphore acquire - none of them is in a network read,
// a timer, runnable or running, so nothing can ever release the wait. The blocked frames are returned.
func connDeadlock(dump string) (bool, []string) {
	var frames []string
	n := 0
	for _, blk := range strings.Split(dump, "\n\n") {
		if !strings.Contains(blk, "fractal/connection.(*Conn).") {
			continue
		}
		m := goroutineHeadRe.FindStringSubmatch(strings.TrimSpace(blk))
		if m == nil {
			continue
		}
		n++
		st := m[1]
		if st != "semacquire" && st != "sync.WaitGroup.Wait" {
			return false, nil
		}
		var fr []string
		for _, l := range strings.Split(blk, "\n") {
			if strings.HasPrefix(l, "massnet.org/mass/fractal/connection.") {
				fr = append(fr, strings.SplitN(l, "(0x", 2)[0])
			}
		}
		frames = append(frames, st+" in "+strings.Join(fr, " <- "))
	}
	return n > 0, frames
}

func allGoroutines() string {
	buf := make([]byte, 16<<20)
	return string(buf[:runtime.Stack(buf, true)])
}

// slowConn is a link on which every socket write is followed by a short pause (a congested or slow peer). Write may be
// called from several goroutines, as on a real socket.
type slowConn struct {
	net.Conn
	n     uint64
	maxUs uint64
}

func (c *slowConn) Write(b []byte) (int, error) {
	n, err := c.Conn.Write(b)
	k := atomic.AddUint64(&c.n, 1)
	time.Sleep(time.Duration(k*7919%c.maxUs) * time.Microsecond)
	return n, err
}

type wirePair struct {
	client net.Conn
	conn   *connection.Conn
	closer context.CancelFunc
	ln     net.Listener
	closed bool
}

func newWirePair() (*wirePair, error) {
	ln, err := net.Listen("tcp", "127.0.0.1:0")
	if err != nil {
		return nil, err
	}
	type acc struct {
		c   net.Conn
		err error
	}
	ch := make(chan acc, 1)
	go func() { c, err := ln.Accept(); ch <- acc{c, err} }()
	cl, err := net.DialTimeout("tcp", ln.Addr().String(), 5*time.Second)
	if err != nil {
		ln.Close()
		return nil, err
	}
	a := <-ch
	if a.err != nil {
		cl.Close()
		ln.Close()
		return nil, a.err
	}
	conn, closer, err := connection.NewConn(connection.WithNetConn(a.c))
	if err != nil {
		cl.Close()
		ln.Close()
		return nil, err
	}
	return &wirePair{client: cl, conn: conn, closer: closer, ln: ln}, nil
}

// close tears the pair down; false if the connection's closer did not return within 10 s.
func (p *wirePair) close() bool {
	if p.closed {
		return true
	}
	p.closed = true
	p.client.Close()
	done := make(chan struct{})
	go func() { p.closer(); close(done) }()
	ok := true
	select {
	case <-done:
	case <-time.After(10 * time.Second):
		ok = false
	}
	p.ln.Close()
	return ok
}

var wirePlans = []string{"whole", "header-split", "two", "many", "mtu", "mtu"}

func wireCase(i int, root *vh.Rng, pl *pool) *wireRes {
	rng := root.Derive("wire", i)
	res := &wireRes{Idx: i, Counts: map[string]int64{}}
	res.Class = []string{"honest", "backlog-stop", "raw", "oversize", "conn-pair", "hostile-reader", "concurrent-codec", "ping-flood"}[i%8]
	p, err := newWirePair()
	if err != nil {
		res.Dropped = "cannot set up the loopback pair: " + err.Error()
		return res
	}
	defer func() {
		if p.close() {
			return
		}
		// the peer is gone and the connection was told to stop 10 s ago
		res.add("teardowns_not_finished_within_10s", 1)
		if dead, frames := connDeadlock(allGoroutines()); dead {
			res.Dropped = ""
			res.violate("connection-deadlocked", map[string]string{"class": res.Class, "blocked": trim(strings.Join(frames, "; "), 300)},
				map[string]interface{}{"blocked_goroutines": frames, "rule": "every goroutine of the connection is parked in a WaitGroup wait / semaphore: nothing is left that could release it"})
		}
	}()
	var hash bytes.Buffer
	fmt.Fprintf(&hash, "%s|", res.Class)

	// sendFrames writes the frames (some coalesced with their successor) and returns per-frame write counts
	sendFrames := func(bodies [][]byte) []int {
		writes := make([]int, len(bodies))
		for k := 0; k < len(bodies); k++ {
			b := frame(bodies[k])
			plan := wirePlans[rng.Intn(len(wirePlans))]
			joined := 1
			for k+joined < len(bodies) && rng.Chance(1, 4) { // this frame and the next leave in the same writes
				b = append(b, frame(bodies[k+joined])...)
				joined++
			}
			n, err := writePlan(p.client, b, rng, plan)
			res.mu.Lock()
			res.Desc = append(res.Desc, fmt.Sprintf("frames %d..%d: %d bytes, plan %s, %d writes (err %v)", k, k+joined-1, len(b), plan, n, err))
			fmt.Fprintf(&hash, "%d/%s/%d;", len(b), plan, n)
			if n > 1 {
				res.Nontrivial = true
			}
			res.mu.Unlock()
			for j := 0; j < joined; j++ {
				writes[k+j] = n
			}
			res.add("socket_writes", int64(n))
			if n > 1 {
				res.add("frames_delivered_in_pieces", int64(joined))
			}
			if joined > 1 {
				res.add("frames_coalesced", int64(joined))
			}
			k += joined - 1
		}
		return writes
	}
	readRaw := func() ([]byte, error, bool) {
		ctx, cancel := context.WithTimeout(context.Background(), wireReadDeadline)
		defer cancel()
		b, err := p.conn.Read(ctx)
		return b, err, err != nil && ctx.Err() != nil
	}

	switch res.Class {
	case "honest":
		// the types one reader accepts
		var types []int
		var reader fractal.MessageReader
		ctx, cancel := context.WithCancel(context.Background())
		defer cancel()
		if rng.Bool() {
			types, reader = []int{1, 3, 5}, fractal.NewRemoteRequestReader(ctx, p.conn)
		} else {
			types, reader = []int{2, 4, 6}, fractal.NewRemoteReportReader(ctx, p.conn)
		}
		n := rng.Range(2, 6)
		var msgs []protocol.Message
		var bodies [][]byte
		for k := 0; k < n; k++ {
			typ := types[rng.Intn(len(types))]
			o := genOpts{nq: -1}
			if typ == 2 && rng.Chance(1, 3) {
				o.nq = rng.PickI(200, 800, 2500) // large reports: tens of KiB up to about a MiB
			}
			m, _ := genMessage(rng, pl, typ, o)
			enc, err := protocol.EncodeMessage(m)
			if err != nil || len(enc) > recvLimit {
				continue
			}
			msgs = append(msgs, m)
			bodies = append(bodies, enc)
			if len(enc) >= 32<<10 {
				res.mu.Lock()
				res.Nontrivial = true
				res.mu.Unlock()
				res.add("frames_32KiB_and_more", 1)
			}
		}
		done := make(chan struct{})
		go func() { defer close(done); sendFrames(bodies) }()
		for k, want := range msgs {
			rctx, rcancel := context.WithTimeout(context.Background(), wireReadDeadline)
			got, err := reader.Read(rctx)
			timedOut := err != nil && rctx.Err() != nil
			rcancel()
			tl := typeLabel(int(want.MsgType()))
			if timedOut {
				res.Dropped = fmt.Sprintf("message %d not delivered within %s (not judged)", k, wireReadDeadline)
				break
			}
			if err != nil {
				res.violate("wire-valid-message-not-delivered", map[string]string{"msg_type": tl},
					map[string]interface{}{"message_index": k, "error": err.Error(), "encoded_len": len(bodies[k]), "connection_stopped": p.conn.Stopped()})
				break
			}
			res.add("wire_messages_received", 1)
			var field string
			rr := guarded(func() { field = diffMsg(want, got) })
			if rr.pv != nil {
				field = "compare-panicked:" + fmt.Sprint(rr.pv)
			}
			if field != "" {
				if (field == "SpaceID" || strings.HasSuffix(field, ".SpaceID")) && !stringsValid(want) {
					res.add("observed_lossy_invalid_utf8_string", 1)
					continue
				}
				res.violate("wire-message-differs", map[string]string{"msg_type": tl, "field": field},
					map[string]interface{}{"message_index": k, "encoded_len": len(bodies[k]), "sent": trim(fmt.Sprintf("%+v", deref(want)), 2000), "received": trim(fmt.Sprintf("%+v", deref(got)), 2000)})
			} else {
				res.add("wire_messages_equal", 1)
			}
		}
		if res.Dropped != "" || len(res.Viol) > 0 {
			p.client.Close() // unblocks a writer the receiver no longer serves
		}
		<-done
	case "backlog-stop":
		// a peer that sends faster than anybody reads: 12-30 valid messages arrive and nobody takes them from the receiver
		// (its queue holds 10), then the receiver is stopped: the stop must return - decided, when it has not returned
		// after 20 s, by the goroutine dump (the receiver's processor parked in a channel send that nothing can release)
		ctx, cancel := context.WithCancel(context.Background())
		defer cancel()
		types := map[protocol.MsgType]bool{protocol.MsgTypeRequestQualities: true, protocol.MsgTypeRequestProof: true, protocol.MsgTypeRequestSignature: true}
		_, stop := fractal.NewMessageReceiver(ctx, p.conn, types)
		n := rng.Range(12, 30)
		var bodies [][]byte
		for k := 0; k < n; k++ {
			m, _ := genMessage(rng, pl, []int{1, 3, 5}[rng.Intn(3)], genOpts{nq: -1})
			if enc, err := protocol.EncodeMessage(m); err == nil && len(enc) <= recvLimit {
				bodies = append(bodies, enc)
			}
		}
		fmt.Fprintf(&hash, "backlog-%d", len(bodies))
		sent := make(chan struct{})
		go func() { defer close(sent); sendFrames(bodies) }()
		select {
		case <-sent:
		case <-time.After(3 * time.Second): // the peer's writes back up once the receiver stops draining: as intended
		}
		time.Sleep(time.Duration(rng.Range(50, 400)) * time.Millisecond)
		res.add("receivers_stopped_with_a_backlog", 1)
		res.Nontrivial = true
		stopped := make(chan struct{})
		go func() { stop(); close(stopped) }()
		select {
		case <-stopped:
		case <-time.After(20 * time.Second):
			dump := allGoroutines()
			stuck := false
			for _, blk := range strings.Split(dump, "\n\n") {
				if strings.Contains(blk, "fractal.(*MessageReceiver).messageProcessor") && strings.Contains(strings.SplitN(blk, "\n", 2)[0], "[chan send") {
					stuck = true
				}
			}
			if stuck {
				res.violate("receiver-stop-hangs-with-a-backlog", map[string]string{}, map[string]interface{}{"frames_sent_unread": len(bodies), "rule": "20 s after the stop was requested the receiver's processor is still parked in a channel send; its context is cancelled and nobody reads the channel"})
			} else {
				res.add("receiver_stop_slow_but_not_stuck(not judged)", 1)
			}
		}
	case "concurrent-codec":
		// every connection of a node has its own sender and reader goroutine: messages of different types are encoded and
		// decoded at the same time. 4-8 goroutines each round-trip their own messages (all six types in play) and compare.
		p.close()
		G := rng.Range(4, 8)
		type job struct {
			m   protocol.Message
			typ int
		}
		jobs := make([][]job, G)
		for g := range jobs {
			for k := 0; k < 6; k++ {
				typ := 1 + (g+k)%6
				m, _ := genMessage(rng, pl, typ, genOpts{nq: -1})
				jobs[g] = append(jobs[g], job{m, typ})
			}
		}
		rounds := 100
		fmt.Fprintf(&hash, "codec-%d-%d", G, rounds)
		var wg sync.WaitGroup
		var vmu sync.Mutex
		reported := false
		for g := 0; g < G; g++ {
			g := g
			wg.Add(1)
			go func() {
				defer wg.Done()
				for r := 0; r < rounds; r++ {
					j := jobs[g][r%len(jobs[g])]
					enc, err := protocol.EncodeMessage(j.m)
					if err != nil {
						continue
					}
					got, derr := protocol.DecodeMessage(enc)
					res.add("concurrent_round_trips", 1)
					d := ""
					switch {
					case derr != nil:
						d = "decode error: " + derr.Error()
					case got == nil:
						d = "nil message"
					default:
						d = diffMsg(j.m, got)
					}
					if d != "" {
						vmu.Lock()
						if !reported {
							reported = true
							res.violate("round-trip-differs-under-concurrent-use", map[string]string{"type": fmt.Sprint(j.typ)},
								map[string]interface{}{"difference": trim(d, 300), "goroutines": G, "message_type": j.typ, "encoded_head": fmt.Sprintf("%x", enc[:minInt(16, len(enc))])})
						}
						vmu.Unlock()
						return
					}
				}
			}()
		}
		wg.Wait()
		res.Nontrivial = true
	case "raw":
		sizes := []int{1, 2, 3, 255, 256, 4095, 4096, 32767, 32768, 32769, 65535, 65536, 65537, 1 << 20, recvLimit - 1, recvLimit}
		n := rng.Range(3, 7)
		var bodies [][]byte
		for k := 0; k < n; k++ {
			sz := sizes[rng.Intn(len(sizes))]
			if rng.Chance(1, 3) {
				sz = 1 + rng.Intn(200000)
			}
			bodies = append(bodies, rng.Bytes(sz))
			if sz >= recvLimit-1 {
				res.add("frames_at_the_receive_limit", 1)
			}
		}
		done := make(chan struct{})
		go func() { defer close(done); sendFrames(bodies) }()
		for k, want := range bodies {
			got, err, timedOut := readRaw()
			if timedOut {
				res.Dropped = fmt.Sprintf("frame %d not delivered within %s (not judged)", k, wireReadDeadline)
				break
			}
			if err != nil {
				res.violate("wire-valid-frame-not-delivered", map[string]string{"at_limit": fmt.Sprint(len(want) == recvLimit)},
					map[string]interface{}{"frame_index": k, "frame_len": len(want), "error": err.Error(), "connection_stopped": p.conn.Stopped()})
				break
			}
			res.add("wire_frames_received", 1)
			if !bytes.Equal(got, want) {
				off := 0
				for off < len(got) && off < len(want) && got[off] == want[off] {
					off++
				}
				res.violate("wire-frame-differs", map[string]string{"length_differs": fmt.Sprint(len(got) != len(want))},
					map[string]interface{}{"frame_index": k, "sent_len": len(want), "received_len": len(got), "first_difference_at": off})
				break
			}
			res.add("wire_frames_equal", 1)
		}
		if res.Dropped != "" || len(res.Viol) > 0 {
			p.client.Close()
		}
		<-done
		res.Nontrivial = true
	case "hostile-reader":
		// one valid message, then one mutated encoding (the decoder phase's generator), through the real reader: whatever
		// the reader hands to its caller must be what DecodeMessage makes of those bytes - a well-formed message or an
		// error (the reader then stops), never a half-decoded message with no error
		mi := rng.Intn(1 << 20)
		mu := makeMutated(root, pl, mi)
		if len(mu.input) < 2 || len(mu.input) > recvLimit {
			res.Dropped = "mutated input not sendable as a frame"
			return res
		}
		typ := int(binary.BigEndian.Uint16(mu.input[:2]))
		var reader fractal.MessageReader
		ctx, cancel := context.WithCancel(context.Background())
		defer cancel()
		var validT int
		switch typ {
		case 1, 3, 5:
			reader, validT = fractal.NewRemoteRequestReader(ctx, p.conn), []int{1, 3, 5}[rng.Intn(3)]
		case 2, 4, 6:
			reader, validT = fractal.NewRemoteReportReader(ctx, p.conn), []int{2, 4, 6}[rng.Intn(3)]
		default:
			if rng.Bool() {
				reader, validT = fractal.NewRemoteRequestReader(ctx, p.conn), 1
			} else {
				reader, validT = fractal.NewRemoteReportReader(ctx, p.conn), 6
			}
		}
		first, _ := genMessage(rng, pl, validT, genOpts{small: true, nq: 1})
		enc, err := protocol.EncodeMessage(first)
		if err != nil {
			res.Dropped = "cannot encode the leading valid message"
			return res
		}
		res.Desc = append(res.Desc, fmt.Sprintf("valid %s, then mutated input #%d (%s: %s), %d bytes", typeLabel(validT), mi, mu.class, trim(mu.desc, 120), len(mu.input)))
		fmt.Fprintf(&hash, "hostile-%d-%d", validT, mi)
		sendFrames([][]byte{enc, mu.input})
		if tc, ok := p.client.(*net.TCPConn); ok {
			tc.CloseWrite() // nothing follows: a reader that skips the frame sees the end of the stream instead of waiting
		}
		res.Nontrivial = true
		rd := func() (protocol.Message, error, bool) {
			rctx, rcancel := context.WithTimeout(context.Background(), wireReadDeadline)
			defer rcancel()
			m, err := reader.Read(rctx)
			return m, err, err != nil && rctx.Err() != nil
		}
		if m, err, late := rd(); late {
			res.Dropped = "leading valid message not delivered within the deadline (not judged)"
			return res
		} else if err != nil || diffMsg(first, m) != "" {
			res.violate("wire-valid-message-not-delivered", map[string]string{"msg_type": typeLabel(validT)}, map[string]interface{}{"error": fmt.Sprint(err)})
			return res
		}
		want := safeDecode(mu.input)
		got, gerr, late := rd()
		res.add("hostile_frames_through_reader", 1)
		switch {
		case late:
			// the reader skips frames of types it does not accept and waits for the next one: nothing to judge
			res.add("hostile_frame_skipped_by_reader", 1)
		case gerr != nil:
			res.add("hostile_frame_refused_by_reader", 1)
		default:
			at := map[string]string{"mutation": mu.class, "msg_type": wireType(mu.input)}
			det := inputDetail(mu.input)
			det["mutation"], det["received"] = mu.desc, trim(fmt.Sprintf("%+v", deref(got)), 2000)
			switch {
			case want.pv != nil || want.err != nil:
				det["decode_message_says"] = fmt.Sprint(want.err, want.pv)
				res.violate("reader-delivered-message-for-undecodable-frame", at, det)
			case malformed(got) != "":
				det["malformed"] = malformed(got)
				res.violate("reader-delivered-malformed-message", at, det)
			case diffMsg(want.msg, got) != "":
				det["field"] = diffMsg(want.msg, got)
				res.violate("reader-delivered-message-differs-from-decode", at, det)
			default:
				res.add("hostile_frame_delivered_well_formed", 1)
			}
		}
	case "ping-flood":
		// the side of a link that answers pings (keepalive interval 0, as the dialling side of a cluster link is set up):
		// a peer that floods zero-length frames and never reads the answers must be slowed down by back-pressure, not
		// served with one goroutine per ping
		p.close()
		ln, err := net.Listen("tcp", "127.0.0.1:0")
		if err != nil {
			res.Dropped = "listen failed"
			return res
		}
		defer ln.Close()
		accepted := make(chan net.Conn, 1)
		go func() {
			c, err := ln.Accept()
			if err == nil {
				accepted <- c
			}
		}()
		cl, err := net.DialTimeout("tcp", ln.Addr().String(), 5*time.Second)
		if err != nil {
			res.Dropped = "dial failed"
			return res
		}
		defer cl.Close()
		var sc net.Conn
		select {
		case sc = <-accepted:
		case <-time.After(5 * time.Second):
			res.Dropped = "accept failed"
			return res
		}
		runtime.GC()
		g0 := runtime.NumGoroutine()
		conn, closer, err := connection.NewConn(connection.WithNetConn(sc), connection.KeepaliveInterval(0))
		if err != nil {
			res.Dropped = "NewConn failed"
			return res
		}
		_ = conn
		pings := rng.PickI(20000, 60000, 200000)
		buf := make([]byte, 4*1000)
		sent := 0
		cl.SetWriteDeadline(time.Now().Add(8 * time.Second))
		for sent < pings {
			n, err := cl.Write(buf)
			sent += n / 4
			if err != nil {
				break // back-pressure reached the sender: that is the correct outcome
			}
		}
		time.Sleep(300 * time.Millisecond)
		g1 := runtime.NumGoroutine()
		res.Desc = append(res.Desc, fmt.Sprintf("%d zero-length frames written to a connection that answers pings, answers never read; goroutines %d -> %d", sent, g0, g1))
		fmt.Fprintf(&hash, "flood-%d", pings)
		res.add("ping_flood_frames_written", int64(sent))
		res.Nontrivial = true
		if g1-g0 > 200 {
			res.violate("ping-flood-grows-goroutines", map[string]string{}, map[string]interface{}{"frames_written": sent, "goroutines_before": g0, "goroutines_after": g1, "bytes_sent": sent * 4})
		}
		cl.Close()
		done := make(chan struct{})
		go func() { closer(); close(done) }()
		select {
		case <-done:
		case <-time.After(20 * time.Second):
		}
	case "conn-pair":
		p.close()
		ln, err := net.Listen("tcp", "127.0.0.1:0")
		if err != nil {
			res.Dropped = "listen failed"
			return res
		}
		defer ln.Close()
		accepted := make(chan net.Conn, 1)
		go func() {
			c, err := ln.Accept()
			if err == nil {
				accepted <- c
			}
		}()
		cl, err := net.DialTimeout("tcp", ln.Addr().String(), 5*time.Second)
		if err != nil {
			res.Dropped = "dial failed"
			return res
		}
		var sc net.Conn
		select {
		case sc = <-accepted:
		case <-time.After(5 * time.Second):
			cl.Close()
			res.Dropped = "accept failed"
			return res
		}
		// pings must stay rarer than socket writes are slow: the send routine serves its priority queue (pings) first, so
		// a ping interval below the time one write takes starves the data frames (not this check's business)
		pauseUs := rng.PickI(60, 150, 300)
		kiS := time.Duration(rng.PickI(500, 1000, 2000)) * time.Microsecond
		kiR := time.Duration(0)
		if rng.Bool() {
			kiR = time.Duration(rng.PickI(700, 1500)) * time.Microsecond
		}
		sender, sClose, err1 := connection.NewConn(connection.WithNetConn(&slowConn{Conn: cl, maxUs: uint64(pauseUs)}), connection.KeepaliveInterval(kiS), connection.KeepaliveTimeout(0))
		recv, rClose, err2 := connection.NewConn(connection.WithNetConn(&slowConn{Conn: sc, maxUs: uint64(pauseUs)}), connection.KeepaliveInterval(kiR), connection.KeepaliveTimeout(0))
		if err1 != nil || err2 != nil {
			res.Dropped = "NewConn failed"
			return res
		}
		n := rng.Range(20, 60)
		bodies := make([][]byte, n)
		back := make([][]byte, n/2)
		for k := range bodies {
			bodies[k] = append([]byte(fmt.Sprintf("fwd-%06d:", k)), rng.Bytes(1+rng.Intn(3000))...)
		}
		for k := range back {
			back[k] = append([]byte(fmt.Sprintf("back-%06d:", k)), rng.Bytes(1+rng.Intn(600))...)
		}
		res.Desc = append(res.Desc, fmt.Sprintf("two Conns over TCP: %d frames one way, %d the other; pause of up to %d us after every socket write; sender pings every %s, receiver %s",
			n, len(back), pauseUs, kiS, map[bool]string{true: "answers pings", false: "pings every " + kiR.String()}[kiR == 0]))
		fmt.Fprintf(&hash, "pair-%d-%d-%d-%d", n, pauseUs, kiS, kiR)
		ctx, cancel := context.WithTimeout(context.Background(), wireReadDeadline)
		var wg sync.WaitGroup
		pump := func(c *connection.Conn, frames [][]byte) {
			defer wg.Done()
			for _, b := range frames {
				if c.Send(ctx, b) != nil {
					return
				}
			}
		}
		// check reads what arrives at c: it must be a prefix of want
		check := func(c *connection.Conn, want [][]byte, dir string) {
			defer wg.Done()
			for k := range want {
				got, err := c.Read(ctx)
				if err != nil {
					res.add("pair_reads_ended_early(not judged)", 1)
					return
				}
				res.add("pair_frames_delivered", 1)
				if !bytes.Equal(got, want[k]) {
					d := 0
					for d < len(got) && d < len(want[k]) && got[d] == want[k][d] {
						d++
					}
					res.violate("frame-damaged-between-connections", map[string]string{"direction": dir},
						map[string]interface{}{"frame_index": k, "sent_len": len(want[k]), "delivered_len": len(got), "first_difference_at": d,
							"sent_head": fmt.Sprintf("%x", want[k][:minInt(24, len(want[k]))]), "delivered_head": fmt.Sprintf("%x", got[:minInt(24, len(got))])})
					return
				}
			}
		}
		wg.Add(4)
		go pump(sender, bodies)
		go pump(recv, back)
		go check(recv, bodies, "slow-link sender to receiver")
		go check(sender, back, "receiver to slow-link sender")
		wg.Wait()
		cancel()
		res.Nontrivial = true
		closed := make(chan struct{})
		go func() { sClose(); rClose(); close(closed) }()
		select {
		case <-closed:
		case <-time.After(10 * time.Second):
			res.add("teardowns_not_finished_within_10s", 1)
			if dead, frames := connDeadlock(allGoroutines()); dead {
				res.violate("connection-deadlocked", map[string]string{"class": res.Class, "blocked": trim(strings.Join(frames, "; "), 300)},
					map[string]interface{}{"blocked_goroutines": frames})
			}
		}
	case "oversize":
		// a couple of valid frames first
		var bodies [][]byte
		for k := 0; k < rng.Range(0, 2); k++ {
			bodies = append(bodies, rng.Bytes(1+rng.Intn(5000)))
		}
		sendFrames(bodies)
		for k := range bodies {
			if _, err, _ := readRaw(); err != nil {
				res.Dropped = fmt.Sprintf("preamble frame %d not delivered: %v (not judged here)", k, err)
				return res
			}
		}
		res.Nontrivial = true
		if rng.Chance(1, 2) {
			// limit+1 .. limit+4096 bytes, sent in full
			sz := recvLimit + 1 + rng.Intn(4096)
			res.Desc = append(res.Desc, fmt.Sprintf("then a frame of %d bytes (receive limit %d) sent in full", sz, recvLimit))
			fmt.Fprintf(&hash, "over-full-%d", sz)
			go func() { writePlan(p.client, frame(rng.Bytes(sz)), rng, "mtu") }()
			got, err, timedOut := readRaw()
			res.add("oversize_frames_sent_in_full", 1)
			switch {
			case timedOut:
				res.Dropped = "no verdict on the oversize frame within the deadline (not judged)"
			case err == nil:
				res.violate("frame-above-receive-limit-delivered", map[string]string{},
					map[string]interface{}{"frame_len": sz, "receive_limit": recvLimit, "delivered_len": len(got)})
			default:
				res.add("oversize_frames_refused", 1)
			}
		} else {
			sz := rng.PickI(64<<20, 256<<20, 1<<30)
			res.Desc = append(res.Desc, fmt.Sprintf("then only the header of a frame announcing %d bytes", sz))
			fmt.Fprintf(&hash, "over-header-%d", sz)
			var m0, m1 runtime.MemStats
			runtime.ReadMemStats(&m0)
			hdr := make([]byte, 4)
			binary.BigEndian.PutUint32(hdr, uint32(sz))
			p.client.Write(hdr)
			ctx, cancel := context.WithTimeout(context.Background(), 5*time.Second)
			_, err := p.conn.Read(ctx)
			late := err != nil && ctx.Err() != nil
			cancel()
			runtime.ReadMemStats(&m1)
			res.add("oversize_headers_sent", 1)
			grown := m1.TotalAlloc - m0.TotalAlloc
			if grown >= uint64(sz)/2 {
				res.violate("oversize-frame-header-allocated", map[string]string{"announced": fmt.Sprintf("%dMiB", sz>>20)},
					map[string]interface{}{"announced_bytes": sz, "receive_limit": recvLimit, "allocated_after_the_header_bytes": grown, "connection_refused_the_frame": !late})
			} else if late {
				res.add("oversize_header_not_refused_within_5s(not judged)", 1)
			} else {
				res.add("oversize_headers_refused", 1)
			}
		}
	}
	res.Hash = vh.HashS(hash.String())
	return res
}

func wireChildMain(args []string) {
	fs := flag.NewFlagSet("wirechild", flag.ExitOnError)
	seed := fs.Int64("seed", 1, "")
	from := fs.Int("from", 0, "")
	to := fs.Int("to", 0, "")
	out := fs.String("out", "", "")
	prog := fs.String("prog", "", "")
	logDir := fs.String("logdir", "", "")
	fs.Parse(args)
	logging.Init(*logDir, "c16w", "error", 1, true)
	pl, err := newPool(*seed)
	if err != nil {
		fmt.Println("wire child: pool:", err)
		os.Exit(3)
	}
	of, _ := os.Create(*out)
	defer of.Close()
	w := bufio.NewWriter(of)
	pf, _ := os.OpenFile(*prog, os.O_CREATE|os.O_WRONLY|os.O_APPEND, 0o644)
	defer pf.Close()
	root := vh.NewRng(uint64(*seed)).Derive("C16", 0)
	for i := *from; i < *to; i++ {
		fmt.Fprintf(pf, "START %d\n", i)
		r := wireCase(i, root, pl)
		b, _ := json.Marshal(r)
		w.Write(b)
		w.WriteByte('\n')
		w.Flush()
		fmt.Fprintf(pf, "DONE %d\n", i)
	}
	os.Exit(0)
}

// runWire is the parent side: batches of wire cases in child processes.
func runWire(run *vh.Run, exe string, base, n int, only int) {
	batch := run.N(25, 100)
	type bt struct{ from, to int }
	var batches []bt
	for a := 0; a < n; a += batch {
		b := a + batch
		if b > n {
			b = n
		}
		if only >= 0 {
			if only < a || only >= b {
				continue
			}
			a, b = only, only+1
		}
		batches = append(batches, bt{a, b})
		if only >= 0 {
			break
		}
	}
	vh.Parallel(len(batches), 8, func(bi int) {
		b := batches[bi]
		out := filepath.Join(run.Scratch, fmt.Sprintf("wire-%d.jsonl", b.from))
		prog := filepath.Join(run.Scratch, fmt.Sprintf("wire-prog-%d", b.from))
		logf := filepath.Join(run.Scratch, fmt.Sprintf("wire-child-%d.out", b.from))
		res := vh.RunChild([]string{exe, "-wirechild", "-seed", fmt.Sprint(run.Seed), "-from", fmt.Sprint(b.from), "-to", fmt.Sprint(b.to), "-out", out, "-prog", prog,
			"-logdir", filepath.Join(run.Scratch, "log")}, nil, logf, 15*time.Minute)
		run.Count("wire_child_batches", 1)
		last := -1
		for _, l := range vh.ReadLines(prog) {
			var x int
			if _, err := fmt.Sscanf(l, "START %d", &x); err == nil {
				last = x
			}
			if _, err := fmt.Sscanf(l, "DONE %d", &x); err == nil && x == last {
				last = -1
			}
		}
		if res.TimedOut {
			run.Drop("wire child batch watchdog (15 min) fired")
		} else if res.ExitCode != 0 {
			fatal := vh.ScanFatal(logf, 14)
			site := "unknown"
			for _, l := range fatal {
				if strings.Contains(l, repoPrefix) {
					site = strings.TrimSpace(strings.SplitN(strings.TrimSpace(l), "(", 2)[0])
					break
				}
			}
			if fr := vh.DyingFrames(logf); len(fr) > 0 {
				site = vh.CodeUnderTestFrame(fr)
				if site == "" {
					site = "unknown"
				}
			}
			if site == "unknown" {
				run.Drop("wire child died outside repository frames")
				run.Inconclusive("a wire child process died in harness code")
			} else {
				what := "exit"
				if len(fatal) > 0 {
					what = strings.SplitN(fatal[0], "\n", 2)[0]
				}
				run.Violate(base+last, "wire-process-died", map[string]string{"site": site, "what": trim(what, 80)},
					map[string]interface{}{"exit": res.ExitCode, "signal": res.Signal, "case_running": last, "fatal": fatal})
			}
		}
		for _, l := range vh.ReadLines(out) {
			var r wireRes
			if json.Unmarshal([]byte(l), &r) != nil {
				continue
			}
			if r.Dropped != "" {
				run.Drop("wire: " + strings.SplitN(r.Dropped, ":", 2)[0])
			}
			for k, c := range r.Counts {
				run.Count(k, c)
			}
			run.Count("wire_cases:"+r.Class, 1)
			for _, v := range r.Viol {
				run.Violate(base+r.Idx, v.Kind, v.Attrs, v.Detail)
			}
			if r.Dropped == "" {
				run.Case(r.Hash^uint64(r.Idx)<<40, r.Nontrivial)
			}
		}
	})
}

func minInt(a, b int) int {
	if a < b {
		return a
	}
	return b
}
