// crowd.go: a superior with far more collectors than its delivery pool has workers (128), some of them slow to
// accept a request, while other collectors come and go. Every collector that stays subscribed for the whole round
// must get every broadcast task exactly once; the process must survive the churn.
package main

import (
	"context"
	"fmt"
	"math/big"
	"net"
	"sort"
	"sync"
	"sync/atomic"
	"time"

	"github.com/google/uuid"
	"github.com/massnetorg/mass-core/poc"
	"massnet.org/mass/fractal"
	"massnet.org/mass/fractal/connection"
	"massnet.org/mass/fractal/protocol"
	"verif/harness/internal/vh"
)

type CrowdRec struct {
	Idx        int   `json:"idx"`
	Collectors int   `json:"collectors"`
	SlowMs     int   `json:"accept_delay_ms"`
	Churners   int   `json:"churning_goroutines"`
	Rounds     int   `json:"rounds"`
	Deliveries int64 `json:"deliveries_to_staying_collectors"`
	ChurnOps   int64 `json:"subscribe_unsubscribe_pairs"`
	// RemoveRaces: RemoveTask calls that raced with another RemoveTask of the same task
	RemoveRaces int64 `json:"racing_remove_task_calls"`
	// LateSubscribers: collectors whose Subscribe call was parked inside the superior while a task was added
	LateSubscribers int64    `json:"subscribe_calls_overlapping_add_task"`
	Kinds           []string `json:"kinds,omitempty"`
	Notes           []string `json:"notes,omitempty"`
	NotJudged       string   `json:"not_judged,omitempty"`
}

type crowdCollector struct {
	id       uuid.UUID
	delay    time.Duration
	mu       sync.Mutex
	got      map[uuid.UUID]int
	inflight *int64
	started  *int64
	gate     chan struct{}
	entered  chan struct{}
	gated    int32
}

// ID: a collector with a gate is slow in its first ID() call (the superior asks for the id while it registers the
// collector): up to 60 ms, or until the gate is opened.
func (c *crowdCollector) ID() uuid.UUID {
	if c.gate != nil && atomic.CompareAndSwapInt32(&c.gated, 0, 1) {
		close(c.entered)
		select {
		case <-c.gate:
		case <-time.After(60 * time.Millisecond): // (the superior may hold its lock while it asks: never park for good)
		}
	}
	return c.id
}
func (c *crowdCollector) RequestQualities(ctx context.Context, m *protocol.RequestQualities) error {
	atomic.AddInt64(c.started, 1)
	atomic.AddInt64(c.inflight, 1)
	if c.delay > 0 {
		time.Sleep(c.delay)
	}
	c.mu.Lock()
	c.got[m.TaskID]++
	c.mu.Unlock()
	atomic.AddInt64(c.inflight, -1)
	return nil
}
func (c *crowdCollector) RequestProof(context.Context, *protocol.RequestProof) error { return nil }
func (c *crowdCollector) RequestSignature(context.Context, *protocol.RequestSignature) error {
	return nil
}

func crowdScenario(rng *vh.Rng, idx int) *CrowdRec {
	rec := &CrowdRec{Idx: idx, Collectors: rng.Range(140, 230), Churners: rng.Range(0, 6), Rounds: rng.Range(2, 4)}
	if rng.Chance(2, 3) {
		rec.SlowMs = rng.Range(20, 120)
	}
	ctx, cancel := context.WithCancel(context.Background())
	defer cancel()
	ls := fractal.NewLocalSuperior()
	var inflight, started int64
	stay := make([]*crowdCollector, rec.Collectors)
	for i := range stay {
		d := time.Duration(0)
		if rec.SlowMs > 0 {
			d = time.Duration(rec.SlowMs/2+rng.Intn(rec.SlowMs)) * time.Millisecond
		}
		stay[i] = &crowdCollector{id: uuid.New(), delay: d, got: map[uuid.UUID]int{}, inflight: &inflight, started: &started}
		ls.Subscribe(ctx, stay[i])
	}
	// churn: short-lived collectors subscribe and leave while tasks are broadcast
	stop := make(chan struct{})
	var cwg sync.WaitGroup
	var dummyIn, dummySt int64
	for g := 0; g < rec.Churners; g++ {
		cwg.Add(1)
		go func() {
			defer cwg.Done()
			for {
				select {
				case <-stop:
					return
				default:
				}
				c := &crowdCollector{id: uuid.New(), got: map[uuid.UUID]int{}, inflight: &dummyIn, started: &dummySt}
				ls.Subscribe(ctx, c)
				ls.Unsubscribe(ctx, c)
				atomic.AddInt64(&rec.ChurnOps, 1)
			}
		}()
	}
	add := func(kind, note string) {
		for _, k := range rec.Kinds {
			if k == kind {
				return
			}
		}
		rec.Kinds = append(rec.Kinds, kind)
		rec.Notes = append(rec.Notes, note)
	}
	for r := 0; r < rec.Rounds && rec.NotJudged == ""; r++ {
		id := uuid.New()
		var ch [32]byte
		copy(ch[:], id[:])
		req := &protocol.RequestQualities{TaskID: id, Challenge: ch, ParentTarget: big.NewInt(0), ParentSlot: uint64(time.Now().Unix())/poc.PoCSlot + 10, Height: uint64(2000 + r)}
		// a collector that connects while this task becomes current: its Subscribe call is parked inside the superior
		// (in the collector's ID method) while the task is added, and let go afterwards
		late := &crowdCollector{id: uuid.New(), got: map[uuid.UUID]int{}, inflight: &inflight, started: &started, gate: make(chan struct{}), entered: make(chan struct{})}
		lateDone := make(chan struct{})
		go func() { ls.Subscribe(ctx, late); close(lateDone) }()
		lateParked := false
		select {
		case <-late.entered:
			lateParked = true
		case <-lateDone:
		case <-time.After(10 * time.Second):
		}
		done := make(chan struct{})
		go func() { ls.AddTask(ctx, uuid.Nil, req); close(done) }()
		select {
		case <-done:
		case <-time.After(120 * time.Second):
			rec.NotJudged = "AddTask did not return within 120 s"
			close(late.gate)
			continue
		}
		close(late.gate)
		select {
		case <-lateDone:
		case <-time.After(60 * time.Second):
			rec.NotJudged = "Subscribe of the late collector did not return within 60 s"
			continue
		}
		// every submission has been made; wait until no delivery is running and none has started for 3 s
		quietSince := time.Now()
		last := atomic.LoadInt64(&started)
		deadline := time.Now().Add(120 * time.Second)
		stalled := time.Duration(0)
		for time.Since(quietSince) < 3*time.Second && time.Now().Before(deadline) {
			t0 := time.Now()
			time.Sleep(50 * time.Millisecond)
			if d := time.Since(t0); d > stalled {
				stalled = d // how late this goroutine itself was woken: a machine that starves goroutines cannot be judged by silence
			}
			if s := atomic.LoadInt64(&started); s != last || atomic.LoadInt64(&inflight) != 0 {
				last, quietSince = s, time.Now()
			}
		}
		if stalled > 750*time.Millisecond {
			rec.NotJudged = fmt.Sprintf("goroutines were woken up to %s late while waiting for quiescence", stalled)
			continue
		}
		if time.Since(quietSince) < 3*time.Second {
			rec.NotJudged = "deliveries still running after 120 s"
			continue
		}
		missing, dup := 0, 0
		for _, c := range stay {
			c.mu.Lock()
			n := c.got[id]
			c.mu.Unlock()
			switch {
			case n == 0:
				missing++
			case n > 1:
				dup++
			}
			rec.Deliveries += int64(n)
		}
		if lateParked {
			late.mu.Lock()
			ln := late.got[id]
			late.mu.Unlock()
			rec.LateSubscribers++
			if ln == 0 {
				add("broadcast-task-never-delivered-to-collector-that-connected-while-it-was-current", fmt.Sprintf("round %d: a collector whose Subscribe call overlapped AddTask (it was being registered while the task was added) never received the task", r))
			}
		}
		ls.Unsubscribe(ctx, late)
		if missing > 0 {
			add("broadcast-task-never-delivered-to-subscribed-collector", fmt.Sprintf("round %d: %d of %d collectors that were subscribed before the task was added never received it (AddTask had returned, no delivery running or started for 3 s)", r, missing, len(stay)))
		}
		if dup > 0 {
			add("broadcast-task-delivered-more-than-once-to-staying-collector", fmt.Sprintf("round %d: %d of %d staying collectors received the task more than once", r, dup, len(stay)))
		}
		ls.RemoveTask(id)
	}
	close(stop)
	cwg.Wait()
	rec.RemoveRaces = removeRace(rng.Derive("remove-race", 0))
	return rec
}

// removeRace: a task removed by several callers at once (a miner that gives a round up while its timeout fires), with
// other tasks being added meanwhile. Every RemoveTask must return; a panic ends the child process and is attributed by
// the parent (process-crashed, site LocalSuperior.RemoveTask). Returns the number of racing removals made.
func removeRace(rng *vh.Rng) int64 {
	ls := fractal.NewLocalSuperior()
	ctx := context.Background()
	rounds := 1500
	var n int64
	for r := 0; r < rounds; r++ {
		mk := func() *protocol.RequestQualities {
			id := uuid.New()
			var ch [32]byte
			copy(ch[:], id[:])
			return &protocol.RequestQualities{TaskID: id, Challenge: ch, ParentTarget: big.NewInt(0), ParentSlot: uint64(time.Now().Unix())/poc.PoCSlot + 10, Height: uint64(5000 + r)}
		}
		req, other := mk(), mk()
		ls.AddTask(ctx, uuid.Nil, req)
		start := make(chan struct{})
		var wg sync.WaitGroup
		k := 2 + rng.Intn(2)
		for g := 0; g < k; g++ {
			wg.Add(1)
			go func() { defer wg.Done(); <-start; ls.RemoveTask(req.TaskID) }()
		}
		wg.Add(1)
		go func() { defer wg.Done(); <-start; ls.AddTask(ctx, uuid.Nil, other); ls.RemoveTask(other.TaskID) }()
		close(start)
		wg.Wait()
		n += int64(k)
	}
	return n
}

// ---------------------------------------------------------------- relay with a stalled upstream

// StallRec: a relay (RemoteSuperior over a real connection) whose upstream peer is alive but has stopped reading, with
// 1-3 collectors behind it that keep reporting. Once the report path is backed up, one collector is stopped: the stop
// must return although the upstream never recovers (no keepalive timeout is configured, so nothing else ends the
// wait). A stop that has not returned at the watchdog is a verdict only if the dump shows goroutines blocked in
// cluster code.
type StallRec struct {
	Idx        int      `json:"idx"`
	Collectors int      `json:"collectors_behind_the_relay"`
	Reports    int64    `json:"reports_taken_before_the_path_backed_up"`
	Kinds      []string `json:"kinds,omitempty"`
	Notes      []string `json:"notes,omitempty"`
	Blocked    []string `json:"blocked_in,omitempty"`
	NotJudged  string   `json:"not_judged,omitempty"`
}

type stallSource struct {
	taskID uuid.UUID
	kind   int
	n      *int64
}

func (s *stallSource) Read(ctx context.Context) (protocol.Message, error) {
	select {
	case <-ctx.Done():
		return nil, ctx.Err()
	default:
	}
	atomic.AddInt64(s.n, 1)
	return &protocol.ReportQualities{TaskID: s.taskID}, nil
}

type nopRequestWriter struct{}

func (nopRequestWriter) WriteRequestQualities(context.Context, *protocol.RequestQualities) error {
	return nil
}
func (nopRequestWriter) WriteRequestProof(context.Context, *protocol.RequestProof) error { return nil }
func (nopRequestWriter) WriteRequestSignature(context.Context, *protocol.RequestSignature) error {
	return nil
}

func relayStallScenario(rng *vh.Rng, idx int, watchdog time.Duration) *StallRec {
	rec := &StallRec{Idx: idx, Collectors: rng.Range(1, 3)}
	up, down := net.Pipe() // up is never read: a peer that is alive but stalled
	defer up.Close()
	conn, connCancel, err := connection.NewConn(connection.WithNetConn(down), connection.KeepaliveInterval(0), connection.KeepaliveTimeout(0))
	if err != nil {
		rec.NotJudged = "NewConn: " + err.Error()
		return rec
	}
	bg := context.Background()
	rs, rsCancel := fractal.NewRemoteSuperior(bg, fractal.NewRemoteRequestReader(bg, conn), fractal.NewRemoteReportWriter(bg, conn), nil)
	var taken int64
	cancels := make([]context.CancelFunc, rec.Collectors)
	for i := range cancels {
		_, cancels[i] = fractal.NewRemoteCollector(bg, rs, nopRequestWriter{}, &stallSource{taskID: uuid.New(), n: &taken}, nil)
	}
	cleanup := func() {
		done := make(chan struct{})
		go func() {
			rsCancel()
			connCancel()
			for _, c := range cancels {
				c()
			}
			close(done)
		}()
		select {
		case <-done:
		case <-time.After(20 * time.Second):
		}
	}
	defer cleanup()
	// wait until the report path is backed up: the sources are no longer drained
	last, stable := int64(-1), 0
	for t0 := time.Now(); stable < 3; {
		time.Sleep(100 * time.Millisecond)
		cur := atomic.LoadInt64(&taken)
		if cur == last && cur > 0 {
			stable++
		} else {
			stable = 0
		}
		last = cur
		if time.Since(t0) > 30*time.Second {
			rec.NotJudged = "the report path did not back up within 30 s"
			return rec
		}
	}
	rec.Reports = last
	victim := rng.Intn(rec.Collectors)
	stopped := make(chan struct{})
	go func() { cancels[victim](); close(stopped) }()
	late := time.Duration(0)
	deadline := time.Now().Add(watchdog)
	returned := false
	for !returned && time.Now().Before(deadline) {
		t0 := time.Now()
		select {
		case <-stopped:
			returned = true
		case <-time.After(100 * time.Millisecond):
			if d := time.Since(t0); d > late {
				late = d
			}
		}
	}
	switch {
	case returned:
	case late > 850*time.Millisecond:
		rec.NotJudged = fmt.Sprintf("goroutines were woken up to %s late while waiting for the stop", late)
	default:
		blocked := repoGoroutines(fullDump())
		seen := map[string]bool{}
		for _, st := range blocked {
			if !seen[st] {
				seen[st] = true
				rec.Blocked = append(rec.Blocked, st)
			}
		}
		sort.Strings(rec.Blocked)
		if len(rec.Blocked) == 0 {
			rec.NotJudged = "stop did not return within the watchdog but no cluster goroutine is blocked"
			return rec
		}
		rec.Kinds = append(rec.Kinds, "call-never-returned")
		rec.Notes = append(rec.Notes, fmt.Sprintf("stopping collector %d of %d behind a relay whose upstream is stalled (%d reports taken) did not return within %s", victim, rec.Collectors, last, watchdog))
	}
	return rec
}
