// exec.go: runs one scenario against the real fractal code and returns the recorded event log.
package main

import (
	"context"
	"crypto/sha256"
	"encoding/hex"
	"encoding/json"
	"fmt"
	"math/big"
	"sort"
	"strings"
	"sync"
	"sync/atomic"
	"time"

	"github.com/google/uuid"
	"github.com/massnetorg/mass-core/poc"
	"github.com/massnetorg/mass-core/poc/chiapos"
	"github.com/massnetorg/mass-core/poc/pocutil"
	"massnet.org/mass/fractal"
	"massnet.org/mass/fractal/connection"
	"massnet.org/mass/fractal/protocol"
)

// Rec is what a child writes per scenario; the parent's oracle judges it offline.
type Rec struct {
	Idx      int                 `json:"idx"`
	Scen     *Scen               `json:"scen"`
	Chains   map[string][]string `json:"chains"` // collector -> link keys from the leaf up to the superior
	Spaces   map[string]string   `json:"spaces"` // space id -> collector
	Events   []Ev                `json:"events"`
	Canon    map[string]string   `json:"canon,omitempty"`
	SetupErr string              `json:"setup_err,omitempty"`
	Aborted  string              `json:"aborted,omitempty"`
	WallMs   int64               `json:"wall_ms"`
	Watchdog int64               `json:"watchdog_ms"`
}

type task struct {
	id      uuid.UUID
	kind    string // q | p | s
	req     protocol.Message
	target  uuid.UUID
	tnode   string
	round   int
	probe   bool
	ch      chan *fractal.CollectorMsg
	got     int32
	lazy    int // park the reader after this many items (-1: never)
	pause   chan chan struct{}
	resume  chan struct{}
	quit    chan struct{}
	mu      sync.Mutex
	seen    map[string]int // collector -> reports read
	added   bool
	removed bool
	sigPK   *chiapos.G1Element
}

type tapCall struct {
	name, link, gid string
	t0              time.Time
}

type scenRun struct {
	sc       *Scen
	seed     int64
	log      *evlog
	sl       *slots
	ctx      context.Context
	cancel   context.CancelFunc
	ls       *fractal.LocalSuperior
	topPool  *fractal.CollectorPool
	stopTop  context.CancelFunc
	topTap   *tap
	topAddr  string
	poolPK   *chiapos.G1Element
	mu       sync.Mutex
	nodes    map[string]*node
	order    []string
	tasks    []*task
	round    int32 // atomic
	uniqN    int32 // atomic
	aborted  string
	watchdog time.Duration
	hookAdd  atomic.Value // func(uuid.UUID)
	hookSub  atomic.Value // func(uuid.UUID)
	tapCalls map[int]*tapCall
	released bool
	topDead  bool
	lastInj  string
	nLate    int
}

var runsByLS sync.Map // *fractal.LocalSuperior -> *scenRun

func (r *scenRun) openTapCall(c int, name, link string) {
	r.mu.Lock()
	r.tapCalls[c] = &tapCall{name: name, link: link, gid: curGID(), t0: time.Now()}
	r.mu.Unlock()
}

func (r *scenRun) closeTapCall(c int) {
	r.mu.Lock()
	delete(r.tapCalls, c)
	r.mu.Unlock()
}

func (r *scenRun) abort(why string) {
	r.mu.Lock()
	if r.aborted == "" {
		r.aborted = why
	}
	r.mu.Unlock()
}

func (r *scenRun) isAborted() bool {
	r.mu.Lock()
	defer r.mu.Unlock()
	return r.aborted != ""
}

// call runs f as a judged client call: logs <kind>.call before and <kind>.ret after; if f has not
// returned at the watchdog it records the analysis of a goroutine dump ("open") and returns false.
func (r *scenRun) call(kind string, ev Ev, yield bool, f func()) bool {
	c := r.log.newCall()
	ev.C, ev.R = c, r.rnd()
	ev.K = kind + ".call"
	gidCh := make(chan string, 1)
	done := make(chan struct{})
	r.log.add(ev)
	go func() {
		gidCh <- curGID()
		if f != nil {
			f()
		}
		close(done)
	}()
	gid := <-gidCh
	ret := func() bool {
		ev.K = kind + ".ret"
		r.log.add(ev)
		return true
	}
	soft := time.NewTimer(2 * time.Second)
	defer soft.Stop()
	select {
	case <-done:
		return ret()
	case <-soft.C:
	}
	if yield {
		r.sl.release()
		defer r.sl.acquire()
	}
	select {
	case <-done:
		return ret()
	case <-time.After(r.watchdog - 2*time.Second):
	}
	b := analyseOpen(gid)
	js, _ := json.Marshal(b)
	r.log.add(Ev{K: "open", C: c, N: ev.N, Task: ev.Task, X: string(js), R: r.rnd()})
	r.abort(fmt.Sprintf("%s of %s%s did not return within %v", kind, ev.N, ev.Task, r.watchdog))
	return false
}

// ---------------------------------------------------------------- set-up

func newScenRun(sc *Scen, seed int64, sl *slots, watchdog time.Duration) *scenRun {
	r := &scenRun{sc: sc, seed: seed, sl: sl, log: newLog(), nodes: map[string]*node{}, watchdog: watchdog, tapCalls: map[int]*tapCall{}}
	r.ctx, r.cancel = context.WithCancel(context.Background())
	return r
}

func (r *scenRun) poolOpts() []fractal.CollectorPoolOption {
	opts := []fractal.CollectorPoolOption{fractal.CollectorPoolListenAddress("127.0.0.1:0")}
	if us := r.sc.KeepaliveUs; us > 0 {
		opts = append(opts, fractal.VerifCollectorPoolConnOptions(connection.KeepaliveInterval(time.Duration(us)*time.Microsecond)))
	}
	return opts
}

func (r *scenRun) setup() error {
	psk, err := chiapos.KeyGen(chiapos.SchemeMPLAug, []byte(fmt.Sprintf("c17-pool-key-%032d", r.seed)))
	if err != nil {
		return err
	}
	if r.poolPK, err = psk.GetG1(); err != nil {
		return err
	}
	// the way mass.go (m2 mode) builds it: LocalSuperior, CollectorPool in front of it, local collectors
	r.ls = fractal.NewLocalSuperior()
	runsByLS.Store(r.ls, r)
	r.log.add(Ev{K: "link.up", N: "sup"})
	r.topTap = newTap(r, r.ls, "", "top")
	pool, stop, err := fractal.NewCollectorPool(r.ctx, r.topTap, r.poolOpts()...)
	if err != nil {
		return err
	}
	r.topPool, r.stopTop, r.topAddr = pool, stop, poolListenAddr(pool)
	for i := 0; i < r.sc.NLocal; i++ {
		if _, err := r.addCollector(fmt.Sprintf("L%d", i), "top", false, r.sc.Spaces, true); err != nil {
			return err
		}
	}
	for i := 0; i < r.sc.NDirect; i++ {
		if _, err := r.addCollector(fmt.Sprintf("D%d", i), "top", true, r.sc.Spaces, true); err != nil {
			return err
		}
	}
	for j, rs := range r.sc.Relays {
		rn := fmt.Sprintf("R%d", j)
		if _, err := r.addRelay(rn); err != nil {
			return err
		}
		for k := 0; k < rs.NLocal; k++ {
			if _, err := r.addCollector(fmt.Sprintf("%sL%d", rn, k), rn, false, r.sc.Spaces, true); err != nil {
				return err
			}
		}
		for k := 0; k < rs.NRemote; k++ {
			if _, err := r.addCollector(fmt.Sprintf("%sD%d", rn, k), rn, true, r.sc.Spaces, true); err != nil {
				return err
			}
		}
	}
	return nil
}

func (r *scenRun) chain(n *node) []string {
	c := []string{"lc:" + n.name}
	if n.remote {
		c = append(c, "conn:"+n.name)
	}
	if n.parent != "top" {
		c = append(c, "conn:"+n.parent)
	}
	return append(c, "sup")
}

// topTag is the id under which the superior knows the subtree this collector belongs to.
func (r *scenRun) topTag(n *node) (uuid.UUID, bool) {
	if n.parent != "top" {
		n = r.node(n.parent)
	}
	if !n.remote {
		return n.lc.ID(), true
	}
	evs := r.log.snapshot()
	for i := len(evs) - 1; i >= 0; i-- {
		if evs[i].K == "sub.ret" && evs[i].N == "conn:"+n.name && evs[i].X == "top" {
			u, err := uuid.Parse(evs[i].Tag)
			return u, err == nil
		}
	}
	return uuid.Nil, false
}

func (r *scenRun) collectors(alive bool) []*node {
	r.mu.Lock()
	defer r.mu.Unlock()
	var out []*node
	for _, name := range r.order {
		n := r.nodes[name]
		if n.relay || n.lc == nil {
			continue
		}
		if alive && (n.dead || (n.parent != "top" && r.nodes[n.parent].dead)) {
			continue
		}
		if alive && r.topDead && (n.remote || n.parent != "top") {
			continue
		}
		out = append(out, n)
	}
	return out
}

func (r *scenRun) names() []string {
	r.mu.Lock()
	defer r.mu.Unlock()
	return append([]string(nil), r.order...)
}

func (r *scenRun) below(parent string) []*node {
	var out []*node
	for _, name := range r.names() {
		if n := r.node(name); n.parent == parent {
			out = append(out, n)
		}
	}
	return out
}

// ---------------------------------------------------------------- tasks

func (r *scenRun) uniq(label string) pocutil.Hash {
	return pocutil.Hash(sha256.Sum256([]byte(fmt.Sprintf("c17|%d|%d|%s|%d", r.seed, r.sc.Idx, label, atomic.AddInt32(&r.uniqN, 1)))))
}

func (r *scenRun) rnd() int { return int(atomic.LoadInt32(&r.round)) }

func (r *scenRun) node(name string) *node {
	r.mu.Lock()
	defer r.mu.Unlock()
	return r.nodes[name]
}

func (r *scenRun) newTask(kind string, probe bool) *task {
	t := &task{id: uuid.New(), kind: kind, round: r.rnd(), probe: probe, lazy: -1, pause: make(chan chan struct{}), resume: make(chan struct{}, 1),
		quit: make(chan struct{}), seen: map[string]int{}}
	r.mu.Lock()
	r.tasks = append(r.tasks, t)
	r.mu.Unlock()
	return t
}

func (r *scenRun) qualityTask(burst int, probe bool) *task {
	t := r.newTask("q", probe)
	now := uint64(time.Now().Unix()) / poc.PoCSlot
	t.req = &protocol.RequestQualities{TaskID: t.id, Challenge: r.uniq("q"), ParentTarget: big.NewInt(0), ParentSlot: now + 10 - uint64(burst), Height: uint64(1000 + r.rnd())}
	return t
}

func (r *scenRun) targetedTask(kind string, n *node, probe bool) (*task, bool) {
	tag, ok := r.topTag(n)
	if !ok {
		return nil, false
	}
	t := r.newTask(kind, probe)
	t.target, t.tnode = tag, n.name
	u := int(atomic.AddInt32(&r.uniqN, 1))
	sp := n.keeper.spaces[u%len(n.keeper.spaces)]
	if kind == "p" {
		t.req = &protocol.RequestProof{TaskID: t.id, Height: uint64(1000 + r.rnd()), SpaceID: sp.sid, Challenge: r.uniq("p"), Index: uint32(u)}
	} else {
		t.req = &protocol.RequestSignature{TaskID: t.id, Height: uint64(1000 + r.rnd()), SpaceID: sp.sid, Hash: r.uniq("s")}
		t.sigPK = sp.pk
	}
	return t, true
}

func (r *scenRun) addTask(t *task, yield bool) bool {
	x := t.kind
	switch q := t.req.(type) {
	case *protocol.RequestQualities:
		x += ":" + hex.EncodeToString(q.Challenge[:])
	case *protocol.RequestProof:
		x += ":" + hex.EncodeToString(q.Challenge[:])
	case *protocol.RequestSignature:
		x += ":" + hex.EncodeToString(q.Hash[:])
	}
	if t.probe {
		x += ":probe"
	}
	ev := Ev{Task: t.id.String(), X: x, N: t.tnode}
	if t.target != uuid.Nil {
		ev.Tag = t.target.String()
	}
	ok := r.call("add", ev, yield, func() { t.ch = r.ls.AddTask(r.ctx, t.target, t.req) })
	if ok {
		t.added = true
		go r.reader(t)
	}
	return ok
}

func (r *scenRun) reader(t *task) {
	parked := false
	for {
		if !parked && t.lazy >= 0 && int(atomic.LoadInt32(&t.got)) >= t.lazy {
			parked = true
		}
		if parked {
			select {
			case <-t.resume:
				parked = false
				t.lazy = -1
			case ack := <-t.pause:
				close(ack)
			case <-t.quit:
				return
			}
			continue
		}
		select {
		case ack := <-t.pause:
			close(ack)
			parked = true
		case <-t.quit:
			return
		case m, ok := <-t.ch:
			if !ok {
				r.log.add(Ev{K: "recv.closed", Task: t.id.String()})
				return
			}
			n := atomic.AddInt32(&t.got, 1)
			ev := Ev{K: "recv", Task: t.id.String(), Seq: int(n)}
			owner := ""
			if m == nil || m.Msg == nil {
				ev.X = "nil-message"
			} else {
				canon := canonMsg(m.Msg)
				ev.P, ev.Tag = h16(canon), m.CollectorID.String()
				r.log.remember(ev.P, canon)
				if m.Msg.ID() != t.id {
					ev.X = "names:" + m.Msg.ID().String()
				}
				switch rep := m.Msg.(type) {
				case *protocol.ReportQualities:
					if len(rep.Qualities) > 0 && rep.Qualities[0] != nil && rep.Qualities[0].WorkSpaceQuality != nil {
						owner = ownerOfSpace(rep.Qualities[0].SpaceID)
					}
				case *protocol.ReportProof:
					if rep.Proof != nil {
						owner = ownerOfSpace(rep.Proof.SpaceID)
					}
				case *protocol.ReportSignature:
					owner = ownerOfSpace(rep.SpaceID)
					if t.sigPK != nil && rep.Signature != nil {
						if ok, err := chiapos.Verify(chiapos.SchemeMPLAug, t.sigPK, rep.Hash[:], rep.Signature); err != nil || !ok {
							ev.X += "|sigbad"
						}
					}
				}
			}
			r.log.add(ev)
			t.mu.Lock()
			t.seen[owner]++
			t.mu.Unlock()
		}
	}
}

func (t *task) seenFrom(name string) int {
	t.mu.Lock()
	defer t.mu.Unlock()
	return t.seen[name]
}

func (t *task) seenAny() int {
	t.mu.Lock()
	defer t.mu.Unlock()
	n := 0
	for _, v := range t.seen {
		n += v
	}
	return n
}

// removeTask: optionally stops the reader first (the miner's pattern: the goroutine that reads is the
// one that removes), calls RemoveTask, then notes how many reports were already buffered when the call
// returned (those are legitimate; anything read beyond them was delivered after the removal).
func (r *scenRun) removeTask(t *task, pauseFirst, yield bool) bool {
	if !t.added || t.removed {
		return true
	}
	t.removed = true
	slack := 1 // a reader that is not parked may hold one report it has taken out but not yet counted
	if pauseFirst {
		ack := make(chan struct{})
		select {
		case t.pause <- ack:
			<-ack
			slack = 0
		case <-time.After(5 * time.Second):
		}
	}
	ok := r.call("rm", Ev{Task: t.id.String()}, yield, func() { r.ls.RemoveTask(t.id) })
	if ok {
		n := len(t.ch)
		g := int(atomic.LoadInt32(&t.got))
		r.log.add(Ev{K: "rm.buffered", Task: t.id.String(), Seq: n + g + slack})
	}
	select {
	case t.resume <- struct{}{}:
	default:
	}
	return ok
}

// waitFor polls cond; gives the worker slot back while the wait is long.
func (r *scenRun) waitFor(d time.Duration, cond func() bool) bool {
	t0 := time.Now()
	yielded := false
	defer func() {
		if yielded {
			r.sl.acquire()
		}
	}()
	for {
		if cond() {
			return true
		}
		el := time.Since(t0)
		if el > d {
			return false
		}
		if !yielded && el > 3*time.Second {
			yielded = true
			r.sl.release()
		}
		if el < 200*time.Millisecond {
			time.Sleep(2 * time.Millisecond)
		} else {
			time.Sleep(10 * time.Millisecond)
		}
	}
}

func (r *scenRun) sentCount(taskID string) int {
	n := 0
	for _, e := range r.log.snapshot() {
		if e.K == "sent.call" && e.Task == taskID {
			n++
		}
	}
	return n
}

// runTargeted issues one targeted task and waits for its answer.
func (r *scenRun) runTargeted(ts TSpec, judged bool, wg *sync.WaitGroup) {
	defer wg.Done()
	if r.isAborted() {
		return
	}
	alive := r.collectors(true)
	if len(alive) == 0 {
		return
	}
	n := alive[ts.Sel%len(alive)]
	t, ok := r.targetedTask(ts.Kind, n, judged)
	if !ok {
		return
	}
	if !r.addTask(t, false) {
		return
	}
	d := 1500 * time.Millisecond
	if judged {
		d = r.watchdog
	}
	t0 := time.Now()
	for time.Since(t0) < d && t.seenAny() == 0 && !r.isAborted() {
		time.Sleep(2 * time.Millisecond)
	}
	if t.seenAny() == 0 && judged {
		r.log.add(Ev{K: "wait.timeout", Task: t.id.String(), X: "targeted:" + n.name + "|" + r.blockedSummary(), R: r.rnd()})
	}
	r.removeTask(t, true, false)
}

// blockedSummary lists where goroutines currently sit inside repository frames (diagnostic only).
func (r *scenRun) blockedSummary() string {
	cnt := map[string]int{}
	for _, g := range parseDump(fullDump()) {
		in, cal, _, idx := g.where()
		if idx < 0 || strings.HasPrefix(in, "verif") {
			continue
		}
		cnt[in+">"+cal]++
	}
	var ks []string
	for k, v := range cnt {
		ks = append(ks, fmt.Sprintf("%s x%d", k, v))
	}
	sort.Strings(ks)
	if len(ks) > 24 {
		ks = ks[:24]
	}
	return strings.Join(ks, "; ")
}

// ---------------------------------------------------------------- rounds

func (r *scenRun) doRound(ri int, rd *Round) {
	atomic.StoreInt32(&r.round, int32(ri))
	r.log.add(Ev{K: "round", R: ri, X: rd.Kind})
	probe := rd.Kind == "probe"
	if probe {
		r.countPools()
		if r.isAborted() {
			return
		}
	}
	q := r.qualityTask(rd.Burst, probe)
	if rd.Reader == "lazy" {
		q.lazy = rd.LazyAfter
	}
	expected := r.collectors(true)
	inj := rd.Inj
	var wg sync.WaitGroup
	defer wg.Wait()
	var lateNode *node
	var lateErr error
	lateDone := make(chan struct{})
	added := false

	// coordinated late subscription: the hook widens the window between "task registered as latest"
	// and "broadcast" (hook-add) or between "collector registered" and "latest task re-sent" (hook-sub)
	if inj != nil && inj.Kind == "late" && inj.Coord != "free" {
		fired := make(chan struct{})
		var once sync.Once
		hookD := time.Duration(inj.HookMs) * time.Millisecond
		if inj.Coord == "hook-add" {
			r.hookAdd.Store(func(id uuid.UUID) {
				if id == q.id {
					once.Do(func() { close(fired) })
					time.Sleep(hookD)
				}
			})
			addOK := make(chan bool, 1)
			go func() { addOK <- r.addTask(q, false) }()
			select {
			case <-fired:
			case <-time.After(5 * time.Second):
			}
			go func() { lateNode, lateErr = r.lateCollector(inj); close(lateDone) }()
			if !<-addOK {
				return
			}
			added = true
		} else {
			r.hookSub.Store(func(id uuid.UUID) {
				fresh := false
				once.Do(func() { fresh = true; close(fired) })
				if fresh {
					time.Sleep(hookD)
				}
			})
			go func() { lateNode, lateErr = r.lateCollector(inj); close(lateDone) }()
			select {
			case <-fired:
			case <-time.After(5 * time.Second):
			}
		}
		defer r.hookAdd.Store(func(uuid.UUID) {})
		defer r.hookSub.Store(func(uuid.UUID) {})
	}
	if !added && !r.addTask(q, true) {
		return
	}
	t0 := time.Now()
	for _, ts := range rd.Targeted {
		ts := ts
		wg.Add(1)
		go func() {
			time.Sleep(time.Until(t0.Add(time.Duration(ts.AtMs) * time.Millisecond)))
			r.runTargeted(ts, rd.Kind != "inject", &wg)
		}()
	}
	removedByInj := false
	if inj != nil {
		if inj.Kind == "late" && inj.Coord != "free" {
			<-lateDone
		} else {
			time.Sleep(time.Until(t0.Add(time.Duration(inj.AtMs) * time.Millisecond)))
			switch inj.Kind {
			case "remove":
				if rd.Reader == "lazy" {
					// wait until more reports were sent than the channel and the reader can take
					r.waitFor(3*time.Second, func() bool { return r.sentCount(q.id.String()) >= 11+rd.LazyAfter })
				}
				r.lastInj = "remove-task"
				removedByInj = true
				if !r.removeTask(q, rd.RemovePause, true) {
					return
				}
			case "late":
				lateNode, lateErr = r.lateCollector(inj)
			default:
				expected = r.inject(inj, expected)
			}
		}
		if inj.Kind == "late" {
			r.lastInj = "late-subscribe"
			if lateErr != nil {
				r.log.add(Ev{K: "note", X: "late collector failed: " + lateErr.Error()})
			} else if lateNode != nil {
				expected = append(expected, lateNode)
			}
		}
	}
	if r.isAborted() {
		return
	}
	if inj != nil && inj.Kind == "release" {
		return
	}
	if removedByInj || rd.Reader == "lazy" {
		// let the collectors reach their first tick so that late reports for the removed task exist;
		// a parked reader cannot be waited for
		time.Sleep(time.Until(t0.Add(1000 * time.Millisecond)))
	} else {
		ok := r.waitFor(r.watchdog, func() bool {
			if r.isAborted() {
				return true
			}
			for _, n := range expected {
				if q.seenFrom(n.name) == 0 {
					return false
				}
			}
			return true
		})
		if !ok {
			var missing []string
			for _, n := range expected {
				if q.seenFrom(n.name) == 0 {
					missing = append(missing, n.name)
				}
			}
			r.log.add(Ev{K: "wait.timeout", Task: q.id.String(), X: "broadcast:" + strings.Join(missing, ",") + "|" + r.blockedSummary(), R: ri})
		}
	}
	wg.Wait()
	if r.isAborted() {
		return
	}
	if rd.End == "remove" && !removedByInj {
		r.removeTask(q, rd.RemovePause, true)
	}
}

// lateCollector adds one collector while a task is current.
func (r *scenRun) lateCollector(inj *Inject) (*node, error) {
	r.mu.Lock()
	r.nLate++
	k := r.nLate
	r.mu.Unlock()
	parent, remote := "top", false
	switch inj.LateKind {
	case "remote-top":
		remote = true
	case "local-relay", "remote-relay":
		var relays []string
		for _, name := range r.names() {
			if n := r.node(name); n.relay && !n.dead {
				relays = append(relays, name)
			}
		}
		if len(relays) == 0 || r.topDead {
			return nil, fmt.Errorf("no live relay")
		}
		parent = relays[inj.PoolSel%len(relays)]
		remote = inj.LateKind == "remote-relay"
	}
	if remote && r.topDead {
		return nil, fmt.Errorf("pool stopped")
	}
	name := fmt.Sprintf("X%d", k)
	if parent != "top" {
		name = parent + name
	}
	r.log.add(Ev{K: "late.call", N: name, X: inj.LateKind + "/" + inj.Coord, R: r.rnd()})
	n, err := r.addCollector(name, parent, remote, r.sc.Spaces, true)
	r.log.add(Ev{K: "late.ret", N: name, R: r.rnd()})
	if n != nil {
		r.mu.Lock()
		n.late = true
		if err != nil {
			n.dead = true
		}
		r.mu.Unlock()
	}
	return n, err
}

// countPools calls CollectorPool.Count() (the call /repo/fractal.go makes every minute) on every pool that was
// not stopped; it is a judged client call like any other.
func (r *scenRun) countPools() {
	r.call("count", Ev{N: "top", X: "CollectorPool"}, true, func() { r.topPool.Count() })
	for _, name := range r.names() {
		if r.isAborted() {
			return
		}
		n := r.node(name)
		if n.relay && n.pool != nil {
			r.call("count", Ev{N: name, X: "CollectorPool"}, true, func() { n.pool.Count() })
		}
	}
}

func (r *scenRun) linksDown(keys ...string) {
	for _, k := range keys {
		r.log.add(Ev{K: "link.down", N: k, R: r.rnd()})
	}
}

// inject performs one stop / drop / stall and returns the collectors still expected to answer.
func (r *scenRun) inject(inj *Inject, expected []*node) []*node {
	pick := func(cands []*node) *node {
		if len(cands) == 0 {
			return nil
		}
		return cands[inj.Sel%len(cands)]
	}
	var remotes, relays, poolRelays, stoppable []*node
	for _, name := range r.names() {
		n := r.node(name)
		if n.dead || (n.parent != "top" && r.node(n.parent).dead) || (r.topDead && (n.remote || n.parent != "top")) {
			continue
		}
		if n.relay {
			relays = append(relays, n)
			if n.stopPool != nil {
				poolRelays = append(poolRelays, n)
			}
			continue
		}
		if n.remote {
			remotes = append(remotes, n)
		}
		if n.name != "L0" {
			stoppable = append(stoppable, n)
		}
	}
	var victim *node
	if inj.Sel < 0 && len(relays) > 0 {
		victim = relays[(-1-inj.Sel)%len(relays)]
	}
	kill := func(n *node) {
		r.mu.Lock()
		n.dead = true
		r.mu.Unlock()
	}
	r.lastInj = inj.Kind
	switch inj.Kind {
	case "stop-lc":
		if victim = pick(stoppable); victim == nil {
			return expected
		}
		kill(victim)
		r.linksDown("lc:" + victim.name)
		r.call("stop", Ev{N: victim.name, X: "LocalCollector"}, true, victim.stopLC)
	case "stop-prs":
		if victim == nil {
			victim = pick(remotes)
		}
		if victim == nil && len(relays) > 0 {
			victim = relays[inj.Sel%len(relays)]
		}
		if victim == nil {
			return expected
		}
		kill(victim)
		r.linksDown("conn:" + victim.name)
		r.call("stop", Ev{N: victim.name, X: "PersistentRemoteSuperior"}, true, victim.stopPRS)
	case "drop":
		if victim == nil {
			victim = pick(remotes)
		}
		if victim == nil && len(relays) > 0 {
			victim = relays[inj.Sel%len(relays)]
		}
		if victim == nil {
			return expected
		}
		kill(victim)
		ptap, _ := r.parentPool(victim)
		ptap.expect(victim.name) // the persistent superior will come back after its retry interval
		r.linksDown("conn:" + victim.name)
		r.call("drop", Ev{N: victim.name, X: fmt.Sprintf("%s/rst=%v/gap=%dms", inj.Side, inj.Rst, inj.GapMs)}, true, func() {
			victim.px.drop(inj.Side, inj.Rst, time.Duration(inj.GapMs)*time.Millisecond)
		})
		if inj.Reconnect && fractal.PersistentRemoteSuperiorRetryInterval <= 30*time.Second {
			r.sl.release()
			ok := ptap.waitSubN("conn:"+victim.name, 2, fractal.PersistentRemoteSuperiorRetryInterval+15*time.Second)
			r.sl.acquire()
			if ok {
				r.mu.Lock()
				victim.dead = false
				r.mu.Unlock()
				r.log.add(Ev{K: "note", N: victim.name, X: "reconnected"})
			}
		}
	case "stall":
		if victim = pick(remotes); victim == nil {
			return expected
		}
		r.call("stall", Ev{N: victim.name, X: fmt.Sprintf("%dms", inj.StallMs)}, true, func() {
			victim.px.stall(time.Duration(inj.StallMs) * time.Millisecond)
		})
	case "stop-pool":
		if (inj.PoolSel == 0 || len(poolRelays) == 0) && r.topDead {
			return expected // every pool this scenario could stop is already stopped
		}
		if inj.PoolSel == 0 || len(poolRelays) == 0 {
			r.mu.Lock()
			r.topDead = true
			r.mu.Unlock()
			var keys []string
			for _, n := range r.below("top") {
				if n.remote {
					keys = append(keys, "conn:"+n.name)
				}
			}
			r.linksDown(keys...)
			if !r.call("stop", Ev{N: "top", X: "CollectorPool"}, true, r.stopTop) {
				// the scenario is over (open call); one more judged call shows whether the pool's lock is still usable
				r.call("count", Ev{N: "top", X: "CollectorPool"}, true, func() { r.topPool.Count() })
				kickAccept(r.topAddr)
			}
		} else {
			victim = poolRelays[(inj.PoolSel-1)%len(poolRelays)]
			var keys []string
			for _, n := range r.below(victim.name) {
				if n.remote {
					keys = append(keys, "conn:"+n.name)
					kill(n)
				}
			}
			r.linksDown(keys...)
			if !r.call("stop", Ev{N: victim.name, X: "CollectorPool"}, true, victim.stopPool) {
				vp := victim.pool
				r.call("count", Ev{N: victim.name, X: "CollectorPool"}, true, func() { vp.Count() })
				kickAccept(victim.poolAddr)
			}
			victim.stopPool = nil
			victim = nil
		}
	case "release":
		r.released = true
		r.linksDown("sup")
		r.call("stop", Ev{N: "top", X: "LocalSuperior.Release"}, true, r.ls.Release)
	}
	if (inj.Kind == "drop" || inj.Kind == "stop-prs" || inj.Kind == "stop-lc" || inj.Kind == "stop-pool") && !r.isAborted() {
		time.Sleep(150 * time.Millisecond) // let the pool side notice
		r.countPools()
	}
	// who is still expected to answer the round's broadcast
	alive := map[string]bool{}
	for _, n := range r.collectors(true) {
		alive[n.name] = true
	}
	var out []*node
	for _, n := range expected {
		if alive[n.name] {
			out = append(out, n)
		}
	}
	return out
}

func (t *tap) waitSubN(link string, n int, d time.Duration) bool {
	t0 := time.Now()
	for time.Since(t0) < d {
		c := 0
		for _, e := range t.r.log.snapshot() {
			if e.K == "sub.ret" && e.N == link && e.X == t.at {
				c++
			}
		}
		if c >= n {
			return true
		}
		time.Sleep(20 * time.Millisecond)
	}
	return false
}

// ---------------------------------------------------------------- whole scenario

func runScenario(sc *Scen, seed int64, sl *slots, watchdog time.Duration, onStart func()) *Rec {
	sl.acquire()
	defer sl.release()
	onStart()
	r := newScenRun(sc, seed, sl, watchdog)
	rec := &Rec{Idx: sc.Idx, Scen: sc, Watchdog: watchdog.Milliseconds()}
	t0 := time.Now()
	err := r.setup()
	if err != nil {
		rec.SetupErr = err.Error()
	} else {
		r.log.add(Ev{K: "setup.done"})
		for ri := range sc.Rounds {
			if r.isAborted() {
				break
			}
			r.doRound(ri, &sc.Rounds[ri])
		}
		// remove what is still registered (superseded tasks) - judged like any other removal
		if !r.isAborted() && !r.released {
			for _, t := range r.tasks {
				if t.added && !t.removed {
					r.removeTask(t, true, true)
				}
				if r.isAborted() {
					break
				}
			}
		}
		r.checkTapCalls()
	}
	r.log.add(Ev{K: "end"})
	rec.Chains = map[string][]string{}
	rec.Spaces = map[string]string{}
	for _, name := range r.order {
		n := r.nodes[name]
		if n.relay || n.keeper == nil {
			continue
		}
		rec.Chains[name] = r.chain(n)
		for _, s := range n.keeper.spaces {
			rec.Spaces[s.sid] = name
		}
	}
	rec.Events = r.log.snapshot()
	r.mu.Lock()
	rec.Aborted = r.aborted
	r.mu.Unlock()
	r.teardown()
	// canonical payload texts only when some received marker has no sent twin (keeps records small)
	sent := map[string]bool{}
	need := false
	for _, e := range rec.Events {
		if e.K == "sent.call" {
			sent[e.Task+"|"+e.P] = true
		}
	}
	for _, e := range rec.Events {
		if e.K == "recv" && !sent[e.Task+"|"+e.P] {
			need = true
		}
	}
	if need {
		r.log.mu.Lock()
		rec.Canon = r.log.canon
		r.log.mu.Unlock()
	}
	rec.WallMs = time.Since(t0).Milliseconds()
	return rec
}

// checkTapCalls: a Subscribe/Unsubscribe made by the code itself that is still open is given until
// the watchdog (counted from its start) and then analysed like a client call.
func (r *scenRun) checkTapCalls() {
	for {
		r.mu.Lock()
		var oldest *tapCall
		oc := 0
		for c, tc := range r.tapCalls {
			if oldest == nil || tc.t0.Before(oldest.t0) {
				oldest, oc = tc, c
			}
		}
		r.mu.Unlock()
		if oldest == nil {
			return
		}
		if time.Since(oldest.t0) < r.watchdog {
			left := r.watchdog - time.Since(oldest.t0)
			r.waitFor(left, func() bool {
				r.mu.Lock()
				_, still := r.tapCalls[oc]
				r.mu.Unlock()
				return !still
			})
			r.mu.Lock()
			_, still := r.tapCalls[oc]
			r.mu.Unlock()
			if !still {
				continue
			}
		}
		b := analyseOpen(oldest.gid)
		js, _ := json.Marshal(b)
		r.log.add(Ev{K: "open", C: oc, N: oldest.link, X: string(js)})
		r.mu.Lock()
		delete(r.tapCalls, oc)
		r.mu.Unlock()
	}
}

// teardown is clean-up, not part of the judged history: everything is cancelled from the root, stop
// functions get a short time, a pool's Accept loop is kicked by a throw-away connection.
func (r *scenRun) teardown() {
	runsByLS.Delete(r.ls)
	for _, t := range r.tasks {
		close(t.quit)
	}
	r.cancel()
	var wg sync.WaitGroup
	bg := func(f func()) {
		if f == nil {
			return
		}
		wg.Add(1)
		go func() { defer wg.Done(); f() }()
	}
	for _, name := range r.order {
		n := r.nodes[name]
		if n.px != nil {
			n.px.close()
		}
		if n.stopPRS != nil {
			bg(n.stopPRS)
		}
		if n.stopPool != nil {
			bg(n.stopPool)
		}
		if n.stopLC != nil {
			bg(n.stopLC)
		}
	}
	if r.stopTop != nil {
		bg(r.stopTop)
	}
	time.Sleep(5 * time.Millisecond)
	kickAccept(r.topAddr)
	for _, name := range r.order {
		if n := r.nodes[name]; n.poolAddr != "" {
			kickAccept(n.poolAddr)
		}
	}
	done := make(chan struct{})
	go func() { wg.Wait(); close(done) }()
	select {
	case <-done:
	case <-time.After(3 * time.Second):
	}
	if r.ls != nil && !r.released {
		r.ls.Release()
	}
}
