// log.go: the append-only event log (one monotonic clock per scenario, thread-safe), the call
// wrapper with watchdog, and the goroutine-dump analysis that decides whether an open call is
// blocked inside repository frames.
package main

import (
	"fmt"
	"os"
	"regexp"
	"runtime"
	"sort"
	"strings"
	"sync"
	"time"
)

// Ev is one recorded event. Times are nanoseconds since the scenario's start on one monotonic clock.
type Ev struct {
	T    int64  `json:"t"`
	K    string `json:"k"`              // kind, see the list in oracle.go
	N    string `json:"n,omitempty"`    // node / link / collector name
	Task string `json:"task,omitempty"` // task id (uuid)
	Tag  string `json:"tag,omitempty"`  // collector id as seen by the superior
	P    string `json:"p,omitempty"`    // payload marker
	Seq  int    `json:"seq,omitempty"`  // per collector+task send sequence / per task receive index / counts
	C    int    `json:"c,omitempty"`    // call id pairing call and return
	X    string `json:"x,omitempty"`    // extra
	R    int    `json:"r,omitempty"`    // round
}

type evlog struct {
	mu    sync.Mutex
	t0    time.Time
	evs   []Ev
	calls int
	canon map[string]string // marker -> canonical payload text
}

func newLog() *evlog { return &evlog{t0: time.Now(), canon: map[string]string{}} }

func (l *evlog) now() int64 { return int64(time.Since(l.t0)) }

func (l *evlog) add(e Ev) int64 {
	l.mu.Lock()
	e.T = int64(time.Since(l.t0))
	l.evs = append(l.evs, e)
	l.mu.Unlock()
	return e.T
}

func (l *evlog) newCall() int {
	l.mu.Lock()
	l.calls++
	c := l.calls
	l.mu.Unlock()
	return c
}

func (l *evlog) remember(marker, canon string) {
	l.mu.Lock()
	if _, ok := l.canon[marker]; !ok {
		l.canon[marker] = canon
	}
	l.mu.Unlock()
}

func (l *evlog) snapshot() []Ev {
	l.mu.Lock()
	out := make([]Ev, len(l.evs))
	copy(out, l.evs)
	l.mu.Unlock()
	return out
}

// ---------------------------------------------------------------- worker slots

// slots bounds the number of scenarios that are actively working; a scenario that sits in a long
// wait (watchdog, reconnect interval) gives its slot back for the duration.
type slots struct{ ch chan struct{} }

func newSlots(n int) *slots { return &slots{ch: make(chan struct{}, n)} }
func (s *slots) acquire()   { s.ch <- struct{}{} }
func (s *slots) release()   { <-s.ch }

// ---------------------------------------------------------------- goroutine ids and dumps

var gidRe = regexp.MustCompile(`^goroutine (\d+) \[`)

func curGID() string {
	var buf [64]byte
	n := runtime.Stack(buf[:], false)
	m := gidRe.FindSubmatch(buf[:n])
	if m == nil {
		return ""
	}
	return string(m[1])
}

func fullDump() string {
	buf := make([]byte, 1<<20)
	for {
		n := runtime.Stack(buf, true)
		if n < len(buf) {
			return string(buf[:n])
		}
		buf = make([]byte, 2*len(buf))
	}
}

type gframe struct {
	fn   string // function name without arguments
	args string
	file string
}

type gor struct {
	id     string
	state  string
	frames []gframe
}

func parseDump(d string) []gor {
	var out []gor
	for _, blk := range strings.Split(d, "\n\n") {
		lines := strings.Split(strings.TrimSpace(blk), "\n")
		if len(lines) == 0 {
			continue
		}
		m := gidRe.FindStringSubmatch(lines[0])
		if m == nil {
			continue
		}
		g := gor{id: m[1]}
		if i := strings.Index(lines[0], "["); i >= 0 {
			g.state = strings.TrimSuffix(strings.TrimSpace(lines[0][i:]), ":")
		}
		for i := 1; i < len(lines); i++ {
			l := lines[i]
			if strings.HasPrefix(l, "\t") || strings.HasPrefix(l, " ") {
				if len(g.frames) > 0 && g.frames[len(g.frames)-1].file == "" {
					g.frames[len(g.frames)-1].file = strings.TrimSpace(l)
				}
				continue
			}
			if strings.HasPrefix(l, "created by ") {
				continue
			}
			fn, args := l, ""
			if j := strings.LastIndex(l, "("); j > 0 {
				fn, args = l[:j], strings.Trim(l[j:], "()")
			}
			g.frames = append(g.frames, gframe{fn: fn, args: args})
		}
		out = append(out, g)
	}
	return out
}

const repoPrefix = "massnet.org/mass/"

func shortFn(fn string) string { return strings.TrimPrefix(fn, repoPrefix) }

func firstArg(args string) string {
	a := strings.SplitN(args, ",", 2)[0]
	a = strings.TrimSpace(strings.TrimSuffix(strings.TrimSpace(a), "?"))
	if strings.HasPrefix(a, "0x") && len(a) > 6 {
		return a
	}
	return ""
}

// where summarises where a goroutine is blocked relative to repository code:
// innermost repository frame, the function it called, and the outermost repository frame.
func (g *gor) where() (inner, callee, outer string, innerIdx int) {
	innerIdx = -1
	for i, f := range g.frames {
		if strings.HasPrefix(f.fn, repoPrefix) {
			if innerIdx < 0 {
				innerIdx = i
				inner = shortFn(f.fn)
				if i > 0 {
					callee = g.frames[i-1].fn
				}
			}
			outer = shortFn(f.fn)
		}
	}
	return
}

// Blocked is the analysis of one open call.
type Blocked struct {
	InRepo    bool     `json:"in_repo"`
	Inner     string   `json:"blocked_in,omitempty"`
	Callee    string   `json:"on,omitempty"`
	State     string   `json:"state,omitempty"`
	WaitsFor  []string `json:"waits_for,omitempty"`
	Victims   int      `json:"other_goroutines_queued_on_the_same_lock,omitempty"`
	Transient bool     `json:"-"`
	Stack     []string `json:"stack,omitempty"`
	Related   []string `json:"related_stacks,omitempty"`
}

func blockingState(st string) bool {
	for _, k := range []string{"IO wait", "select", "chan send", "chan receive", "semacquire", "sync.Cond.Wait", "sync.Mutex.Lock", "sync.RWMutex"} {
		if strings.Contains(st, k) {
			return true
		}
	}
	return false
}

// analyseOpen takes goroutine dumps until the goroutines related to the blocked caller are all parked
// (a reconnect that happens to arrive at the same moment would otherwise colour the picture).
func analyseOpen(gid string) Blocked {
	var b Blocked
	var d string
	for i := 0; i < 8; i++ {
		d = fullDump()
		b = analyseBlocked(d, gid)
		if !b.Transient {
			break
		}
		time.Sleep(150 * time.Millisecond)
	}
	if dir := os.Getenv("C17_DUMPDIR"); dir != "" { // debugging aid
		os.WriteFile(fmt.Sprintf("%s/dump-%d-g%s.txt", dir, os.Getpid(), gid), []byte(d), 0o644)
	}
	return b
}

func analyseBlocked(dump, gid string) Blocked {
	gs := parseDump(dump)
	var me *gor
	for i := range gs {
		if gs[i].id == gid {
			me = &gs[i]
		}
	}
	if me == nil {
		return Blocked{}
	}
	var b Blocked
	b.State = me.state
	inner, callee, _, idx := me.where()
	for _, f := range me.frames {
		b.Stack = append(b.Stack, f.fn+"("+f.args+") "+f.file)
	}
	if idx < 0 {
		return b
	}
	b.InRepo, b.Inner, b.Callee = true, inner, callee
	// receiver pointers of the repository frames of the blocked caller
	ptrs := map[string]bool{}
	for _, f := range me.frames {
		if strings.HasPrefix(f.fn, repoPrefix) {
			if p := firstArg(f.args); p != "" {
				ptrs[p] = true
			}
		}
	}
	seen := map[string]bool{}
	for i := range gs {
		g := &gs[i]
		if g.id == gid {
			continue
		}
		// innermost repository frame of g that has the same receiver as a frame of the blocked caller
		hit := ""
		for _, f := range g.frames {
			if strings.HasPrefix(f.fn, repoPrefix) && ptrs[firstArg(f.args)] {
				hit = shortFn(f.fn)
				break
			}
		}
		if hit == "" {
			continue
		}
		// goroutines queueing for the same lock as the caller are fellow victims, not what it waits for
		_, cal, _, _ := g.where()
		if cal == callee && strings.Contains(cal, "Lock") {
			b.Victims++
			continue
		}
		if !blockingState(g.state) {
			b.Transient = true
		}
		if !seen[hit] {
			seen[hit] = true
			b.WaitsFor = append(b.WaitsFor, hit)
			if len(b.Related) < 4 {
				var sb strings.Builder
				fmt.Fprintf(&sb, "goroutine %s %s\n", g.id, g.state)
				for _, f := range g.frames {
					fmt.Fprintf(&sb, "  %s(%s) %s\n", f.fn, f.args, f.file)
				}
				b.Related = append(b.Related, sb.String())
			}
		}
	}
	sort.Strings(b.WaitsFor)
	return b
}
