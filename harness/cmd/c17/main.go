// c17: cluster tasks reach the right collectors and reports the right task.
//
// Built with -race -tags verif. Child processes run seeded scenarios against the REAL /repo/fractal code in
// in-process topologies over loopback TCP:
//
//	LocalSuperior <= CollectorPool <= { remote collectors (PersistentRemoteSuperior + LocalCollector),
//	                                    relays (PersistentRemoteSuperior + CollectorPool with collectors behind) }
//	LocalSuperior <= LocalCollectors subscribed in-process
//
// every LocalCollector has a scripted engine.v2 space keeper with real BLS keys and unique payloads, every TCP
// link runs through a fault-injecting proxy. All calls are recorded at the client boundary in one event log
// per scenario (log.go, exec.go); the parent judges each log offline (oracle.go), filters the race detector's
// reports to pairs inside the repository (observations, not violations) and treats a dead child as a crash.
package main

import (
	"bufio"
	"encoding/json"
	"flag"
	"fmt"
	"os"
	"path/filepath"
	"regexp"
	"sort"
	"strings"
	"sync"
	"time"

	"github.com/google/uuid"
	"github.com/massnetorg/mass-core/logging"
	"massnet.org/mass/fractal"
	"massnet.org/mass/verifhook"
	"verif/harness/internal/vh"
)

const watchdogDefault = 30 * time.Second

// ---------------------------------------------------------------- child

func installHooks() {
	lookup := func(a interface{}) *scenRun {
		ls, ok := a.(*fractal.LocalSuperior)
		if !ok {
			return nil
		}
		if r, ok := runsByLS.Load(ls); ok {
			return r.(*scenRun)
		}
		return nil
	}
	verifhook.SetPoint("superior.addTask.registered", func(args ...interface{}) {
		if len(args) < 2 {
			return
		}
		r := lookup(args[0])
		id, ok := args[1].(uuid.UUID)
		if r == nil || !ok {
			return
		}
		r.log.add(Ev{K: "hook.add", Task: id.String()})
		if f, ok := r.hookAdd.Load().(func(uuid.UUID)); ok && f != nil {
			f(id)
		}
	})
	verifhook.SetPoint("superior.subscribe.added", func(args ...interface{}) {
		if len(args) < 2 {
			return
		}
		r := lookup(args[0])
		id, ok := args[1].(uuid.UUID)
		if r == nil || !ok {
			return
		}
		r.log.add(Ev{K: "hook.sub", Tag: id.String()})
		if f, ok := r.hookSub.Load().(func(uuid.UUID)); ok && f != nil {
			f(id)
		}
	})
}

func child(seed int64, tier string, from, to, only, conc int, outPath, progPath, logDir string, watchdog time.Duration) {
	logging.Init(logDir, "c17", "error", 1, true)
	installHooks()
	of, _ := os.Create(outPath)
	defer of.Close()
	w := bufio.NewWriter(of)
	pf, _ := os.OpenFile(progPath, os.O_CREATE|os.O_WRONLY|os.O_APPEND, 0o644)
	defer pf.Close()
	var pmu sync.Mutex
	root := vh.NewRng(uint64(seed)).Derive("C17", 0)
	sl := newSlots(conc)
	var wg sync.WaitGroup
	for i := from; i < to; i++ {
		if only >= 0 && i != only {
			continue
		}
		i := i
		if i%10 == 3 {
			// a relay with a stalled upstream (crowd.go) takes the place of another tenth
			wg.Add(1)
			go func() {
				defer wg.Done()
				sl.acquire()
				defer sl.release()
				pmu.Lock()
				fmt.Fprintf(pf, "START %d\n", i)
				pmu.Unlock()
				sr := relayStallScenario(root.Derive("stall", i), i, watchdog)
				b, _ := json.Marshal(map[string]interface{}{"stall": sr})
				pmu.Lock()
				w.Write(b)
				w.WriteByte('\n')
				w.Flush()
				fmt.Fprintf(pf, "DONE %d\n", i)
				pmu.Unlock()
			}()
			continue
		}
		if i%10 == 9 {
			// a remote superior living several lives (reborn.go) takes the place of another tenth
			wg.Add(1)
			go func() {
				defer wg.Done()
				sl.acquire()
				defer sl.release()
				pmu.Lock()
				fmt.Fprintf(pf, "START %d\n", i)
				pmu.Unlock()
				rr := rebornScenario(root.Derive("reborn", i), i, watchdog)
				b, _ := json.Marshal(map[string]interface{}{"reborn": rr})
				pmu.Lock()
				w.Write(b)
				w.WriteByte('\n')
				w.Flush()
				fmt.Fprintf(pf, "DONE %d\n", i)
				pmu.Unlock()
			}()
			continue
		}
		if i%10 == 7 {
			// a crowd scenario (crowd.go) takes the place of every tenth topology scenario
			wg.Add(1)
			go func() {
				defer wg.Done()
				sl.acquire()
				defer sl.release()
				pmu.Lock()
				fmt.Fprintf(pf, "START %d\n", i)
				pmu.Unlock()
				cr := crowdScenario(root.Derive("crowd", i), i)
				b, _ := json.Marshal(map[string]interface{}{"crowd": cr})
				pmu.Lock()
				w.Write(b)
				w.WriteByte('\n')
				w.Flush()
				fmt.Fprintf(pf, "DONE %d\n", i)
				pmu.Unlock()
			}()
			continue
		}
		sc := genScen(root, i, tier == "thorough")
		wg.Add(1)
		go func() {
			defer wg.Done()
			rec := runScenario(sc, seed, sl, watchdog, func() {
				pmu.Lock()
				fmt.Fprintf(pf, "START %d\n", i) // logged before the scenario touches the code under test
				pmu.Unlock()
			})
			b, _ := json.Marshal(rec)
			pmu.Lock()
			w.Write(b)
			w.WriteByte('\n')
			w.Flush()
			fmt.Fprintf(pf, "DONE %d\n", i)
			pmu.Unlock()
		}()
		time.Sleep(20 * time.Millisecond)
	}
	wg.Wait()
	if res := residue(); res != nil {
		res.Scenarios = [2]int{from, to}
		b, _ := json.Marshal(map[string]interface{}{"residue": res})
		w.Write(b)
		w.WriteByte('\n')
		w.Flush()
	}
}

// Residue is what is left of the code under test after every scenario of a child has been torn down (every
// collector, pool and superior stopped, every proxy closed, the harness's own goroutines gone).
type Residue struct {
	Scenarios [2]int   `json:"scenarios"`  // [from, to) of the batch
	Judged    bool     `json:"judged"`     // every remaining repository goroutine is blocked on a lock / wait group
	Blocked   []string `json:"blocked_in"` // "<state> in <innermost repository function>"
	Other     []string `json:"other_states,omitempty"`
	Dump      string   `json:"dump"`
}

var goHeadRe = regexp.MustCompile(`^goroutine (\d+) \[([^\],]+)`)

// repoGoroutines returns id -> "state in innermost-repository-function" of the goroutines that have a frame in the
// cluster code and none in the harness.
func repoGoroutines(dump string) map[string]string {
	out := map[string]string{}
	for _, blk := range strings.Split(dump, "\n\n") {
		lines := strings.Split(strings.TrimSpace(blk), "\n")
		m := goHeadRe.FindStringSubmatch(lines[0])
		if m == nil {
			continue
		}
		fn, harness := "", false
		for _, l := range lines[1:] {
			if strings.HasPrefix(l, "main.") || strings.HasPrefix(l, "created by main.") {
				harness = true
			}
			if fn == "" && strings.HasPrefix(l, "massnet.org/mass/fractal") {
				fn = strings.SplitN(l, "(0x", 2)[0]
				if i := strings.LastIndex(fn, "("); i > 0 && strings.HasSuffix(fn, ")") == false {
					_ = i
				}
			}
		}
		if fn != "" && !harness {
			out[m[1]] = m[2] + " in " + strings.TrimPrefix(fn, "massnet.org/mass/")
		}
	}
	return out
}

func hardBlocked(state string) bool {
	for _, p := range []string{"semacquire", "sync.WaitGroup.Wait", "sync.Mutex.Lock", "sync.RWMutex.Lock", "sync.RWMutex.RLock", "sync.Cond.Wait"} {
		if strings.HasPrefix(state, p) {
			return true
		}
	}
	return false
}

// residue waits (bounded) for the cluster code's goroutines to be gone. What is still there after the bound is a
// verdict only if nothing could ever wake it: every remaining repository goroutine blocked on a lock or a wait
// group (no timer, no socket, no channel the harness might still serve), the same goroutines in two dumps a second apart.
func residue() *Residue {
	var gs map[string]string
	var dump string
	for i := 0; i < 80; i++ {
		dump = fullDump()
		gs = repoGoroutines(dump)
		if len(gs) == 0 {
			return nil
		}
		time.Sleep(100 * time.Millisecond)
	}
	time.Sleep(time.Second)
	dump2 := fullDump()
	gs2 := repoGoroutines(dump2)
	res := &Residue{Judged: true, Dump: dump2}
	seen := map[string]bool{}
	for id, st := range gs2 {
		state := strings.SplitN(st, " in ", 2)[0]
		if !hardBlocked(state) {
			res.Judged = false
			if !seen["o"+st] {
				seen["o"+st] = true
				res.Other = append(res.Other, st)
			}
			continue
		}
		if gs[id] != st {
			res.Judged = false
		}
		if !seen[st] {
			seen[st] = true
			res.Blocked = append(res.Blocked, st)
		}
	}
	if len(gs2) == 0 {
		return nil
	}
	sort.Strings(res.Blocked)
	sort.Strings(res.Other)
	if len(res.Dump) > 60000 {
		res.Dump = res.Dump[:60000]
	}
	return res
}

// ---------------------------------------------------------------- parent

func main() {
	if len(os.Args) > 1 && os.Args[1] == "-child" {
		fs := flag.NewFlagSet("child", flag.ExitOnError)
		seed := fs.Int64("seed", 1, "")
		tier := fs.String("tier", "quick", "")
		from := fs.Int("from", 0, "")
		to := fs.Int("to", 0, "")
		only := fs.Int("only", -1, "")
		conc := fs.Int("conc", 4, "")
		out := fs.String("out", "", "")
		prog := fs.String("prog", "", "")
		logDir := fs.String("logdir", "", "")
		wd := fs.Duration("watchdog", watchdogDefault, "")
		fs.Parse(os.Args[2:])
		child(*seed, *tier, *from, *to, *only, *conc, *out, *prog, *logDir, *wd)
		return
	}
	run := vh.NewRun("C17", "exploration")
	logging.Init(filepath.Join(run.Scratch, "log"), "c17", "error", 1, true)
	n := run.N(40, 1500)
	batch := run.N(10, 50)
	children, conc := 4, 4 // 16 scenarios at a time
	watchdog := watchdogDefault
	if s := os.Getenv("C17_WATCHDOG"); s != "" {
		if d, err := time.ParseDuration(s); err == nil {
			watchdog = d
		}
	}
	type bt struct{ from, to int }
	var batches []bt
	for i := 0; i < n; i += batch {
		j := i + batch
		if j > n {
			j = n
		}
		if run.Only >= 0 && (run.Only < i || run.Only >= j) {
			continue
		}
		batches = append(batches, bt{i, j})
	}
	run.Assume("collectors, relays, pool and superior of one scenario live in one process and talk over loopback TCP through a proxy; kernel-level network faults other than close (FIN/RST) and stall are not produced")
	run.Assume("the tag of a relayed report is the id of the pool-side RemoteCollector of that connection, and a task targeted at a relay may reach every collector behind it (both are the relay's documented behaviour)")
	run.Assume("the space keeper is scripted (unique qualities, proofs and real BLS signatures per collector); parent target 0 makes every quality pass")
	raceBase := filepath.Join(run.Scratch, "race")
	var mu sync.Mutex
	sampled := 0
	wallMax := int64(0)
	vh.Parallel(len(batches), children, func(bi int) {
		b := batches[bi]
		out := filepath.Join(run.Scratch, fmt.Sprintf("rec-%d.jsonl", bi))
		prog := filepath.Join(run.Scratch, fmt.Sprintf("prog-%d", bi))
		logf := filepath.Join(run.Scratch, fmt.Sprintf("child-%d.out", bi))
		argv := []string{os.Args[0], "-child", "-seed", fmt.Sprint(run.Seed), "-tier", run.Tier, "-from", fmt.Sprint(b.from), "-to", fmt.Sprint(b.to),
			"-only", fmt.Sprint(run.Only), "-conc", fmt.Sprint(conc), "-out", out, "-prog", prog, "-logdir", filepath.Join(run.Scratch, fmt.Sprintf("log-%d", bi)),
			"-watchdog", watchdog.String()}
		res := vh.RunChild(argv, []string{"GORACE=halt_on_error=0 log_path=" + raceBase}, logf, 20*time.Minute)
		run.Count("child_batches", 1)
		run.Count("batches_checked_for_goroutines_left_after_teardown", 1)
		started := map[int]bool{}
		last := -1
		for _, l := range vh.ReadLines(prog) {
			var x int
			if _, err := fmt.Sscanf(l, "START %d", &x); err == nil {
				started[x] = true
				last = x
			}
			if _, err := fmt.Sscanf(l, "DONE %d", &x); err == nil {
				delete(started, x)
			}
		}
		if res.TimedOut {
			run.Drop("child batch watchdog (20 min) fired")
		} else if res.ExitCode != 0 && res.ExitCode != 66 { // 66: the race detector printed reports
			fatal := vh.ScanFatal(logf, 14)
			site := "unknown"
			for _, l := range fatal {
				if strings.Contains(l, "massnet.org/mass/") {
					site = strings.TrimSpace(strings.SplitN(strings.TrimSpace(l), "(", 2)[0])
					break
				}
			}
			what := "exit"
			if len(fatal) > 0 {
				what = strings.SplitN(fatal[0], "\n", 2)[0]
			}
			var open []int
			for x := range started {
				open = append(open, x)
			}
			sort.Ints(open)
			if fr := vh.DyingFrames(logf); len(fr) > 0 {
				site = vh.CodeUnderTestFrame(fr)
				if site == "" {
					site = "unknown"
				}
			}
			if site == "unknown" && len(fatal) > 0 {
				// no repository frame in the dying goroutine: a fault of the harness itself, never a verdict
				run.Drop("child died outside repository frames")
				run.Inconclusive("a child process died with no repository frame on the failing stack: " + what)
				run.Set("harness_fault", fatal)
				return
			}
			run.Violate(last, "process-crashed", map[string]string{"what": what, "site": site},
				map[string]interface{}{"exit": res.ExitCode, "signal": res.Signal, "last_started_scenario": last, "scenarios_running": open, "fatal": fatal})
		}
		for _, l := range vh.ReadLines(out) {
			if strings.HasPrefix(l, `{"stall":`) {
				var x struct {
					Stall *StallRec `json:"stall"`
				}
				if json.Unmarshal([]byte(l), &x) == nil && x.Stall != nil {
					sr := x.Stall
					if sr.NotJudged != "" {
						run.Drop("relay-stall scenario not judged: " + sr.NotJudged)
						continue
					}
					run.Count("relay_stall_scenarios", 1)
					run.Count("relay_stall_reports_before_backup", sr.Reports)
					for k, kind := range sr.Kinds {
						run.Violate(sr.Idx, kind, map[string]string{"call": "RemoteCollector stop", "trigger": "relay-upstream-stalled"},
							map[string]interface{}{"scenario": sr, "note": sr.Notes[k]})
					}
					run.Case(vh.HashS(fmt.Sprintf("stall-%d-%d", sr.Idx, sr.Collectors)), true)
				}
				continue
			}
			if strings.HasPrefix(l, `{"reborn":`) {
				var x struct {
					Reborn *RebornRec `json:"reborn"`
				}
				if json.Unmarshal([]byte(l), &x) == nil && x.Reborn != nil {
					rr := x.Reborn
					if rr.NotJudged != "" {
						run.Drop("reborn scenario not judged: " + rr.NotJudged)
						continue
					}
					run.Count("reborn_scenarios", 1)
					run.Count("reborn_lives", int64(len(rr.Delivered)))
					for _, d := range rr.Delivered {
						run.Count("reborn_task_deliveries", int64(d))
					}
					for k, kind := range rr.Kinds {
						run.Violate(rr.Idx, kind, map[string]string{"scenario": "remote-superior-reborn", "last_life_ends_by": rr.LastEnds},
							map[string]interface{}{"scenario": rr, "note": rr.Notes[k]})
					}
					run.Case(vh.HashS(fmt.Sprintf("reborn-%d-%d-%d-%s", rr.Idx, rr.Lives, rr.Collectors, rr.LastEnds)), true)
				}
				continue
			}
			if strings.HasPrefix(l, `{"crowd":`) {
				var x struct {
					Crowd *CrowdRec `json:"crowd"`
				}
				if json.Unmarshal([]byte(l), &x) == nil && x.Crowd != nil {
					cr := x.Crowd
					if cr.NotJudged != "" {
						run.Drop("crowd scenario not judged: " + cr.NotJudged)
						continue
					}
					run.Count("crowd_scenarios", 1)
					run.Count("crowd_deliveries_to_staying_collectors", cr.Deliveries)
					run.Count("crowd_subscribe_unsubscribe_pairs", cr.ChurnOps)
					run.Count("racing_remove_task_calls", cr.RemoveRaces)
					run.Count("crowd_subscribe_calls_overlapping_add_task", cr.LateSubscribers)
					for k, kind := range cr.Kinds {
						run.Violate(cr.Idx, kind, map[string]string{"slow_collectors": fmt.Sprint(cr.SlowMs > 0)}, map[string]interface{}{"scenario": cr, "note": cr.Notes[k]})
					}
					run.Case(vh.HashS(fmt.Sprintf("crowd-%d-%d-%d-%d", cr.Idx, cr.Collectors, cr.SlowMs, cr.Churners)), true)
				}
				continue
			}
			if strings.HasPrefix(l, `{"residue":`) {
				var x struct {
					Residue *Residue `json:"residue"`
				}
				if json.Unmarshal([]byte(l), &x) == nil && x.Residue != nil {
					rs := x.Residue
					if !rs.Judged {
						run.Count("batches_with_goroutines_left_after_teardown(not judged: some wait on timers, sockets or channels)", 1)
						run.Set(fmt.Sprintf("residue_not_judged_batch_%d", rs.Scenarios[0]), map[string]interface{}{"blocked": rs.Blocked, "other": rs.Other})
					} else {
						run.Violate(rs.Scenarios[0], "goroutines-blocked-for-good-after-teardown", map[string]string{"blocked_in": strings.Join(rs.Blocked, "; ")},
							map[string]interface{}{"scenarios_of_the_batch": rs.Scenarios, "blocked": rs.Blocked, "goroutine_dump": rs.Dump})
					}
				}
				continue
			}
			var rec Rec
			if json.Unmarshal([]byte(l), &rec) != nil {
				continue
			}
			v := judge(&rec)
			if v.drop != "" {
				run.Drop(v.drop)
				continue
			}
			for k, c := range v.cnt {
				run.Count(k, c)
			}
			for _, x := range v.viols {
				run.Violate(rec.Idx, x.kind, x.attrs, x.detail)
			}
			run.Case(rec.Scen.hash(), v.nontrivial)
			run.Count("events_recorded", int64(len(rec.Events)))
			run.Count("topology:"+rec.Scen.Class, 1)
			if rec.Aborted != "" {
				run.Count("scenarios_aborted_after_open_call", 1)
			}
			mu.Lock()
			if rec.WallMs > wallMax {
				wallMax = rec.WallMs
			}
			if sampled < 3 && len(v.viols) == 0 {
				sampled++
				evs := rec.Events
				if len(evs) > 60 {
					evs = evs[:60]
				}
				run.Sample(map[string]interface{}{"scenario": rec.Scen, "chains": rec.Chains, "first_events": evs, "events_total": len(rec.Events)})
			}
			mu.Unlock()
		}
		if keep := os.Getenv("C17_KEEP"); keep != "" { // debugging aid: keep the raw records
			if b, err := os.ReadFile(out); err == nil {
				os.WriteFile(filepath.Join(keep, fmt.Sprintf("rec-seed%d-%d.jsonl", run.Seed, bi)), b, 0o644)
			}
		}
		os.Remove(out)
	})
	// race detector: observations only (the statement does not promise race freedom)
	reports := vh.ParseRaceLogs(raceBase + ".*")
	run.Count("race_reports_total", int64(len(reports)))
	pairs := map[string]int{}
	sites := map[string]string{}
	for _, r := range reports {
		if r.InRepo("massnet.org/mass/") {
			run.Count("race_reports_both_accesses_in_repository(observation)", 1)
			pairs[r.Pair()]++
			if _, ok := sites[r.Pair()]; !ok {
				sites[r.Pair()] = r.AFile + " <-> " + r.BFile
			}
		} else {
			run.Count("race_reports_not_both_in_repository(ignored)", 1)
		}
	}
	var plist []string
	for p, c := range pairs {
		plist = append(plist, fmt.Sprintf("%s  [%s] x%d", p, sites[p], c))
	}
	sort.Strings(plist)
	run.Set("race_pairs_in_repository(observations, not violations)", plist)
	run.Count("distinct_race_pairs_in_repository", int64(len(pairs)))
	run.Set("slowest_scenario_ms", wallMax)
	run.Set("watchdog", watchdog.String())
	run.Finish("case = one scenario: a topology (1-3 in-process collectors, 0-12 remote collectors, 0-2 relays with in-process and remote collectors behind them) over loopback TCP, "+
		"a baseline round, 1-2 rounds with one injected event each (task removal early / with the 10-slot channel full / under an eager reader, collector stop, remote-superior stop, pool stop, "+
		"connection drop (FIN/RST, either side first), stall, late subscription (free or inside the hook-widened AddTask/Subscribe window), superior release) and a probe round after each; "+
		"every round = one broadcast quality task plus targeted proof/signature tasks; the event log is judged offline (exactly-once / only-target delivery, report integrity, tag, order, "+
		"no delivery after removal, every call returns (30 s watchdog + goroutine dump inside repository frames), fresh tasks answered after each event); "+
		"non-trivial = >= 1 broadcast and >= 1 targeted task answered end to end and >= 1 injected event; distinct by hash of the parameter list", run.N(24, 900))
}
