// oracle.go: the offline oracle over one scenario's recorded event log.
//
// Event kinds (all stamped by one monotonic clock at the client boundary):
//
//	add.call/add.ret   AddTask(id, kind:challenge[:probe], target tag)          rm.call/rm.ret  RemoveTask(id)
//	rm.buffered        Seq = reports already in the channel or read when RemoveTask returned
//	asked              keeper of collector N asked (X = kind:challenge)  -> "the task reached the collector"
//	sent.call/sent.ret collector N reports (Task, payload marker P, Seq) to its superior
//	fwd                a pool's RemoteCollector hands a report to its superior (Tag assigned here)
//	recv / recv.closed read from the channel AddTask returned (Seq = index in channel order)
//	sub.call/sub.ret, unsub.call/unsub.ret   Subscribe/Unsubscribe of link N (lc:<collector> | conn:<node>) with Tag at superior X
//	link.down          the driver is about to stop/drop something that ends link N
//	stop.call/.ret, drop.call/.ret, stall.call/.ret, late.call/.ret   injected events
//	open               a call that had not returned at the watchdog + analysis of the goroutine dump
//	wait.timeout       the driver waited the whole watchdog for answers that did not come
package main

import (
	"encoding/json"
	"fmt"
	"sort"
	"strings"
)

const (
	graceNs = int64(1e9)   // a link must outlive the task by this much to count as "stayed"
	settle  = int64(1.5e9) // a scenario must go on this long after AddTask before "never delivered" is judged
	inf     = int64(1) << 62
)

type viol struct {
	kind   string
	attrs  map[string]string
	detail map[string]interface{}
}

type verdict struct {
	viols      []viol
	cnt        map[string]int64
	nontrivial bool
	drop       string
}

type oTask struct {
	id, kind, chal, tag, tnode string
	probe                      bool
	round                      int
	addCall, addRet            int64
	rmCall, rmRet              int64
	buffered                   int
	hasBuf                     bool
	end                        int64 // end of "current": RemoveTask call or the next broadcast's AddTask call
	recvs                      []Ev
	waited                     bool // a wait.timeout exists for it
	waitX                      string
}

type est struct {
	call, ret int64
	tag, at   string
}

type oLink struct {
	ests  []est
	downs []int64
}

func shape(chain []string) string {
	// chain: lc:<c> [conn:<c>] [conn:<relay>] sup
	n := len(chain) - 1
	switch {
	case n == 1:
		return "in-process@superior"
	case n == 2 && strings.TrimPrefix(chain[0], "lc:") == strings.TrimPrefix(chain[1], "conn:"):
		return "remote@pool"
	case n == 2:
		return "in-process@relay"
	}
	return "remote@relay-pool"
}

func judge(rec *Rec) *verdict {
	v := &verdict{cnt: map[string]int64{}}
	if rec.SetupErr != "" {
		v.drop = "set-up failed"
		return v
	}
	evs := rec.Events
	if len(evs) == 0 {
		v.drop = "empty log"
		return v
	}
	endT := evs[len(evs)-1].T
	wd := rec.Watchdog * 1e6

	tasks := map[string]*oTask{}
	var torder []*oTask
	byChal := map[string]*oTask{}
	links := map[string]*oLink{}
	link := func(k string) *oLink {
		if links[k] == nil {
			links[k] = &oLink{}
		}
		return links[k]
	}
	type sentE struct {
		node, task, p string
		seq           int
		call, ret     int64
	}
	var sents []*sentE
	sentByC := map[int]*sentE{}
	type askE struct {
		node string
		t    int64
	}
	asked := map[string][]askE{} // task id -> asks
	calls := map[int]Ev{}
	returned := map[int]bool{}
	opens := map[int]Ev{}
	regTop := map[string]string{} // tag registered at the top superior -> link
	type injE struct {
		t    int64
		name string
		r    int
	}
	var injs []injE
	subOpen := map[int]int{} // call id -> index in link.ests

	for _, e := range evs {
		switch e.K {
		case "add.call":
			p := strings.Split(e.X, ":")
			t := &oTask{id: e.Task, kind: p[0], tag: e.Tag, tnode: e.N, round: e.R, addCall: e.T, end: inf}
			if len(p) > 1 {
				t.chal = p[0] + ":" + p[1]
				byChal[t.chal] = t
			}
			t.probe = len(p) > 2 && p[2] == "probe"
			tasks[e.Task] = t
			torder = append(torder, t)
			v.cnt["tasks:"+map[string]string{"q": "broadcast-qualities", "p": "targeted-proof", "s": "targeted-signature"}[t.kind]]++
		case "add.ret":
			if t := tasks[e.Task]; t != nil {
				t.addRet = e.T
			}
		case "rm.call":
			if t := tasks[e.Task]; t != nil {
				t.rmCall = e.T
			}
		case "rm.ret":
			if t := tasks[e.Task]; t != nil {
				t.rmRet = e.T
			}
		case "rm.buffered":
			if t := tasks[e.Task]; t != nil {
				t.buffered, t.hasBuf = e.Seq, true
			}
		case "asked":
			if t := byChal[e.X]; t != nil {
				asked[t.id] = append(asked[t.id], askE{e.N, e.T})
				v.cnt["deliveries(keeper asked)"]++
			} else {
				v.cnt["keeper_asked_for_unknown_challenge"]++
			}
		case "sent.call":
			s := &sentE{node: e.N, task: e.Task, p: e.P, seq: e.Seq, call: e.T, ret: inf}
			sents = append(sents, s)
			sentByC[e.C] = s
			v.cnt["reports_sent"]++
		case "sent.ret":
			if s := sentByC[e.C]; s != nil {
				s.ret = e.T
			}
		case "recv":
			if t := tasks[e.Task]; t != nil {
				t.recvs = append(t.recvs, e)
			}
			v.cnt["reports_received"]++
		case "sub.call":
			l := link(e.N)
			l.ests = append(l.ests, est{call: e.T, tag: e.Tag, at: e.X})
			subOpen[e.C] = len(l.ests) - 1
			if e.X == "top" {
				regTop[e.Tag] = e.N
			}
		case "sub.ret":
			if i, ok := subOpen[e.C]; ok {
				link(e.N).ests[i].ret = e.T
			}
		case "unsub.call", "link.down":
			link(e.N).downs = append(link(e.N).downs, e.T)
		case "link.up":
			link(e.N).ests = append(link(e.N).ests, est{call: e.T, ret: e.T})
		case "wait.timeout":
			if t := tasks[e.Task]; t != nil {
				t.waited, t.waitX = true, e.X
			}
			v.cnt["driver_waited_whole_watchdog:"+strings.SplitN(e.X, ":", 2)[0]]++
		case "open":
			opens[e.C] = e
		}
		if strings.HasSuffix(e.K, ".call") && e.C != 0 {
			calls[e.C] = e
		}
		if strings.HasSuffix(e.K, ".ret") && e.C != 0 {
			returned[e.C] = true
		}
		switch e.K {
		case "stop.call":
			injs = append(injs, injE{e.T, "stop-" + map[string]string{"LocalCollector": "collector", "PersistentRemoteSuperior": "remote-superior", "CollectorPool": "pool", "LocalSuperior.Release": "superior"}[e.X], e.R})
			v.cnt["stops:"+e.X]++
		case "drop.call":
			injs = append(injs, injE{e.T, "connection-drop", e.R})
			v.cnt["connection_drops"]++
		case "stall.call":
			injs = append(injs, injE{e.T, "connection-stall", e.R})
			v.cnt["connection_stalls"]++
		case "late.call":
			injs = append(injs, injE{e.T, "late-subscribe", e.R})
			v.cnt["late_subscribes"]++
		case "rm.call":
			if e.R < len(rec.Scen.Rounds) && rec.Scen.Rounds[e.R].Kind == "inject" && rec.Scen.Rounds[e.R].Inj.Kind == "remove" {
				if t := tasks[e.Task]; t != nil && t.kind == "q" {
					injs = append(injs, injE{e.T, "remove-task", e.R})
				}
			}
		}
	}
	// end of "current" for broadcast tasks
	var prevQ *oTask
	for _, t := range torder {
		if t.kind != "q" {
			if t.rmCall > 0 {
				t.end = t.rmCall
			}
			continue
		}
		if prevQ != nil && t.addCall < prevQ.end {
			prevQ.end = t.addCall
		}
		if t.rmCall > 0 {
			t.end = t.rmCall
		}
		prevQ = t
	}

	slice := func(keys ...string) []Ev {
		var out []Ev
		for _, e := range evs {
			hit := e.K == "round" || e.K == "open" || strings.HasPrefix(e.K, "stop.") || strings.HasPrefix(e.K, "drop.") || strings.HasPrefix(e.K, "stall.") || strings.HasPrefix(e.K, "late.")
			for _, k := range keys {
				if k != "" && (e.Task == k || e.N == k || e.Tag == k || strings.HasSuffix(e.N, ":"+k)) {
					hit = true
				}
			}
			if hit {
				out = append(out, e)
			}
		}
		if len(out) > 400 {
			out = append(out[:200], out[len(out)-200:]...)
		}
		return out
	}
	violate := func(kind string, attrs map[string]string, detail map[string]interface{}, keys ...string) {
		if detail == nil {
			detail = map[string]interface{}{}
		}
		detail["scenario"] = rec.Scen
		detail["chains"] = rec.Chains
		detail["events"] = slice(keys...)
		v.viols = append(v.viols, viol{kind, attrs, detail})
	}

	// ---------------------------------------------------------------- D6: every call returns
	callName := func(e Ev) string {
		switch strings.TrimSuffix(e.K, ".call") {
		case "add":
			return "LocalSuperior.AddTask"
		case "rm":
			return "LocalSuperior.RemoveTask"
		case "stop":
			if e.X == "LocalSuperior.Release" {
				return e.X
			}
			return e.X + ".stop"
		case "count":
			return "CollectorPool.Count"
		case "drop":
			return "proxy.drop"
		case "stall":
			return "proxy.stall"
		case "sub":
			return "Superior.Subscribe"
		case "unsub":
			return "Superior.Unsubscribe"
		}
		return e.K
	}
	var cids []int
	for c := range calls {
		cids = append(cids, c)
	}
	sort.Ints(cids)
	for _, c := range cids {
		e := calls[c]
		if returned[c] || e.K == "sent.call" || e.K == "late.call" {
			continue
		}
		o, ok := opens[c]
		if !ok {
			if rec.Aborted == "" {
				v.cnt["calls_open_at_end_without_watchdog(not judged)"]++
			}
			continue
		}
		var b Blocked
		json.Unmarshal([]byte(o.X), &b)
		if !b.InRepo {
			v.drop = "open call whose goroutine is not inside repository frames"
			return v
		}
		attrs := map[string]string{"call": callName(e), "blocked_in": b.Inner, "on": b.Callee, "waits_for": strings.Join(b.WaitsFor, " | ")}
		if e.K == "rm.call" {
			if t := tasks[e.Task]; t != nil {
				und := 0
				got := map[string]int{}
				for _, r := range t.recvs {
					if r.T < e.T {
						got[r.P]++
					}
				}
				for _, s := range sents {
					if s.task == t.id && s.call < e.T {
						if got[s.p] > 0 {
							got[s.p]--
						} else {
							und++
						}
					}
				}
				attrs["trigger"] = "none-identified"
				if und > 10 {
					attrs["trigger"] = "undelivered-reports>10(result channel full)"
				}
			}
		}
		if e.K == "add.call" || (e.K == "rm.call" && attrs["trigger"] == "none-identified") {
			// is some other task's result channel full at this moment?
			attrs["trigger"] = "none-identified"
			for _, t := range torder {
				if t.id == e.Task || t.addCall > e.T || (t.rmRet > 0 && t.rmRet < e.T) {
					continue
				}
				und := 0
				got := map[string]int{}
				for _, r := range t.recvs {
					if r.T < e.T {
						got[r.P]++
					}
				}
				for _, s := range sents {
					if s.task == t.id && s.call < e.T {
						if got[s.p] > 0 {
							got[s.p]--
						} else {
							und++
						}
					}
				}
				if und > 10 {
					attrs["trigger"] = "undelivered-reports>10-on-another-task(its result channel is full)"
				}
			}
		}
		if e.K == "count.call" {
			attrs["trigger"] = "pool-running"
			for _, x := range evs {
				if x.K == "stop.call" && x.X == "CollectorPool" && x.N == e.N && x.T < e.T {
					attrs["trigger"] = "after-pool-stop"
				}
			}
		}
		if e.K == "stop.call" && e.X == "CollectorPool" {
			attrs["trigger"] = "no-inbound-connection-after-stop"
		}
		violate("call-never-returned", attrs, map[string]interface{}{"call": e, "blocked": b, "watchdog_ms": rec.Watchdog}, e.Task, e.N)
	}

	// ---------------------------------------------------------------- coverage of a task by a collector
	type cov struct {
		ge1, le1   bool
		ownOnly    bool
		k          int
		lateLink   string
		overlapAdd bool
	}
	coverage := func(t *oTask, chain []string) cov {
		var c cov
		e := t.end
		if e == inf {
			e = endT - graceNs
		}
		if e < t.addCall {
			return c
		}
		c.ge1, c.le1, c.ownOnly = true, true, true
		leaf := strings.TrimPrefix(chain[0], "lc:")
		reest := false
		for _, lk := range chain {
			l := links[lk]
			if l == nil || strings.HasSuffix(lk, ":?") {
				return cov{}
			}
			// establishments completed after the task was added
			for i, es := range l.ests {
				if es.ret == 0 || es.ret > t.addCall {
					c.k++
					c.lateLink = lk
					if lk != "lc:"+leaf && lk != "conn:"+leaf {
						c.ownOnly = false
					}
					if i > 0 {
						reest = true
					}
					if es.call < t.addRet || t.addRet == 0 {
						c.overlapAdd = true
					}
				}
			}
			// must-see: some establishment finished before the task stopped being current and the link stayed
			ok := false
			for _, es := range l.ests {
				if es.ret == 0 || es.ret >= e {
					continue
				}
				d := inf
				for _, x := range l.downs {
					if x >= es.call && x < d {
						d = x
					}
				}
				from := es.ret
				if from < t.addCall {
					from = t.addCall
				}
				if d > e+graceNs && d > from {
					ok = true
				}
			}
			if !ok {
				c.ge1 = false
			}
		}
		// at most once is demanded when nothing on the chain was (re-)established after the task was added, or
		// when the only new links are this collector's own first subscription/connection (a fresh leaf);
		// a re-established link (reconnect) or a new link further up may legitimately replay the latest task
		if c.k > 0 && (reest || !c.ownOnly) {
			c.le1 = false
		}
		return c
	}

	var cnames []string
	for c := range rec.Chains {
		cnames = append(cnames, c)
	}
	sort.Strings(cnames)

	// ---------------------------------------------------------------- D1 broadcast delivery, D2 targeted delivery
	for _, t := range torder {
		if t.addRet == 0 {
			continue
		}
		n := map[string]int{}
		for _, a := range asked[t.id] {
			n[a.node]++
		}
		if t.kind == "q" {
			for _, c := range cnames {
				cv := coverage(t, rec.Chains[c])
				cl := "connected-throughout"
				if cv.k >= 1 {
					cl = "subscribed-after-AddTask-returned:" + strings.SplitN(cv.lateLink, ":", 2)[0]
					if cv.overlapAdd {
						cl = "subscribe-overlaps-AddTask:" + strings.SplitN(cv.lateLink, ":", 2)[0]
					}
				}
				switch {
				case cv.le1 && n[c] >= 2:
					violate("broadcast-task-delivered-twice", map[string]string{"coverage": cl, "via": shape(rec.Chains[c])},
						map[string]interface{}{"task": t.id, "collector": c, "times": n[c]}, t.id, c)
				case cv.ge1 && n[c] == 0:
					if t.waited || endT-t.addCall >= settle {
						violate("broadcast-task-not-delivered", map[string]string{"coverage": cl, "via": shape(rec.Chains[c])},
							map[string]interface{}{"task": t.id, "collector": c, "waited_full_watchdog": t.waited}, t.id, c)
					} else {
						v.cnt["may:delivery_not_judged(scenario ended too soon)"]++
					}
				}
				if cv.ge1 && cv.le1 {
					v.cnt["exactly_once_checks"]++
				} else if cv.ge1 || cv.le1 {
					v.cnt["one_sided_delivery_checks"]++
				} else {
					v.cnt["may:partial_overlap_not_judged"]++
				}
			}
			continue
		}
		// targeted: only inside the subtree of the link registered under the target tag
		tl := regTop[t.tag]
		for c, k := range n {
			in := false
			for _, lk := range rec.Chains[c] {
				if lk == tl && tl != "" {
					in = true
				}
			}
			v.cnt["targeted_delivery_checks"]++
			if !in {
				violate("targeted-task-reached-non-target", map[string]string{"task_kind": map[string]string{"p": "proof", "s": "signature"}[t.kind], "reached_via": shape(rec.Chains[c]), "target": shape(rec.Chains[t.tnode])},
					map[string]interface{}{"task": t.id, "target_collector": t.tnode, "target_tag": t.tag, "reached": c, "times": k}, t.id, c, t.tnode)
			}
		}
	}

	// ---------------------------------------------------------------- D3 report integrity, D4 order, D5 no delivery after removal
	sentIdx := map[string][]*sentE{} // task|p -> sends
	sentAnyP := map[string]*sentE{}
	for _, s := range sents {
		k := s.task + "|" + s.p
		sentIdx[k] = append(sentIdx[k], s)
		sentAnyP[s.p] = s
	}
	answeredQ, answeredT := 0, 0
	for _, t := range torder {
		used := map[*sentE]bool{}
		perNode := map[string][]*sentE{} // collector -> matched sends in receive order
		for _, rv := range t.recvs {
			if strings.Contains(rv.X, "names:") {
				violate("report-delivered-to-wrong-task", map[string]string{"waiter_kind": t.kind, "how": "report names another task id"},
					map[string]interface{}{"waiter_task": t.id, "report": rv, "canon": rec.Canon[rv.P]}, t.id, rv.P)
				continue
			}
			if rv.X == "nil-message" {
				violate("report-altered", map[string]string{"what": "nil message on an open channel"}, map[string]interface{}{"waiter_task": t.id}, t.id)
				continue
			}
			if strings.Contains(rv.X, "sigbad") {
				violate("report-altered", map[string]string{"what": "signature does not verify under the space's key"}, map[string]interface{}{"waiter_task": t.id, "report": rv}, t.id)
			}
			var m *sentE
			for _, s := range sentIdx[t.id+"|"+rv.P] {
				if !used[s] {
					m = s
					break
				}
			}
			if m == nil {
				if len(sentIdx[t.id+"|"+rv.P]) > 0 {
					violate("report-delivered-more-often-than-sent", map[string]string{"task_kind": t.kind},
						map[string]interface{}{"waiter_task": t.id, "report": rv, "sent_times": len(sentIdx[t.id+"|"+rv.P])}, t.id, rv.P)
				} else if o := sentAnyP[rv.P]; o != nil {
					violate("report-delivered-to-wrong-task", map[string]string{"waiter_kind": t.kind, "how": "payload was sent for another task"},
						map[string]interface{}{"waiter_task": t.id, "report": rv, "sent_for": o.task, "by": o.node}, t.id, rv.P, o.task)
				} else {
					violate("report-altered", map[string]string{"what": "received payload equals no sent payload", "task_kind": t.kind},
						map[string]interface{}{"waiter_task": t.id, "report": rv, "received_canon": rec.Canon[rv.P]}, t.id, rv.P)
				}
				continue
			}
			used[m] = true
			perNode[m.node] = append(perNode[m.node], m)
			v.cnt["report_integrity_checks"]++
			// tag: the id under which the superior registered the connection the report came through
			ch := rec.Chains[m.node]
			if len(ch) >= 2 {
				top := ch[len(ch)-2]
				if !strings.HasSuffix(top, ":?") {
					ok := false
					for _, es := range link(top).ests {
						if es.tag == rv.Tag && es.at == "top" {
							ok = true
						}
					}
					v.cnt["tag_checks"]++
					if !ok {
						how := "not-a-registered-collector"
						if o, reg := regTop[rv.Tag]; reg {
							how = "registered-to-another-connection"
							if o == top {
								how = "registered-link-but-unknown-establishment"
							}
						}
						violate("report-tag-wrong", map[string]string{"tag": how, "via": shape(ch)},
							map[string]interface{}{"waiter_task": t.id, "report": rv, "sender": m.node, "expected_link": top, "registered_as": regTop[rv.Tag]}, t.id, m.node, rv.Tag)
					}
				} else {
					v.cnt["may:tag_not_judged(ambiguous connection)"]++
				}
			}
			// D5
			if t.rmRet > 0 && t.hasBuf && rv.Seq > t.buffered {
				violate("delivery-after-task-removed", map[string]string{"task_kind": t.kind},
					map[string]interface{}{"task": t.id, "report": rv, "reports_buffered_or_read_when_RemoveTask_returned": t.buffered, "remove_returned_at": t.rmRet}, t.id)
			}
		}
		if t.rmRet > 0 {
			v.cnt["removal_checks"]++
		}
		// D4: per sender (one connection, one collector) order of receipt follows order of sending
		for node, ms := range perNode {
			for i := 0; i+1 < len(ms); i++ {
				v.cnt["order_checks"]++
				if ms[i+1].ret < ms[i].call {
					violate("reports-reordered-within-connection", map[string]string{"task_kind": t.kind, "via": shape(rec.Chains[node])},
						map[string]interface{}{"task": t.id, "collector": node, "received_first_seq": ms[i].seq, "received_second_seq": ms[i+1].seq}, t.id, node)
					break
				}
			}
		}
		if len(perNode) > 0 {
			if t.kind == "q" {
				answeredQ++
			} else {
				answeredT++
			}
		}
		// removals with reports in flight
		if t.rmCall > 0 {
			inflight := 0
			for _, s := range sents {
				if s.task == t.id && s.call < t.rmCall && !used[s] {
					inflight++
				}
			}
			if inflight > 0 {
				v.cnt["removals_with_reports_in_flight"]++
			}
			if inflight > 10 {
				v.cnt["removals_with_more_than_10_undelivered_reports"]++
			}
		}
	}

	// ---------------------------------------------------------------- D7 other tasks are not blocked after an injected event
	for _, t := range torder {
		if !t.probe || t.addRet == 0 {
			continue
		}
		event := ""
		for _, in := range injs {
			if in.t < t.addCall {
				event = in.name
			}
		}
		if event == "" {
			continue
		}
		got := map[string]bool{}
		for _, rv := range t.recvs {
			if s := sentIdx[t.id+"|"+rv.P]; len(s) > 0 {
				got[s[0].node] = true
			}
		}
		check := func(c string) {
			cv := coverage(t, rec.Chains[c])
			if !(cv.ge1 && cv.k == 0) {
				return
			}
			v.cnt["liveness_probe_checks"]++
			if got[c] {
				return
			}
			if !t.waited || t.end-t.addRet < wd*9/10 {
				v.cnt["may:probe_not_judged(not waited for the whole watchdog)"]++
				return
			}
			stage := "task-not-delivered"
			for _, a := range asked[t.id] {
				if a.node == c {
					stage = "delivered-but-no-report-sent"
				}
			}
			for _, s := range sents {
				if s.task == t.id && s.node == c {
					stage = "report-sent-but-not-received"
				}
			}
			violate("other-task-blocked-after-"+event, map[string]string{"probe": map[string]string{"q": "fresh-broadcast", "p": "fresh-targeted-proof", "s": "fresh-targeted-signature"}[t.kind], "stage": stage, "via": shape(rec.Chains[c])},
				map[string]interface{}{"task": t.id, "collector": c, "waited_ms": (t.end - t.addRet) / 1e6, "blocked_goroutines": t.waitX}, t.id, c)
		}
		if t.kind == "q" {
			for _, c := range cnames {
				check(c)
			}
		} else if t.tnode != "" {
			check(t.tnode)
		}
	}

	injected := len(injs)
	v.cnt["injected_events"] += int64(injected)
	v.nontrivial = answeredQ >= 1 && answeredT >= 1 && injected >= 1
	if answeredQ >= 1 {
		v.cnt["scenarios_with_broadcast_answered"]++
	}
	if answeredT >= 1 {
		v.cnt["scenarios_with_targeted_answered"]++
	}
	return v
}

func countBefore(rs []Ev, t int64) int {
	n := 0
	for _, r := range rs {
		if r.T <= t {
			n++
		}
	}
	return n
}

var _ = fmt.Sprint
