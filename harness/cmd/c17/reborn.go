// reborn.go: a remote superior that loses its upstream connection and is given a new one (RemoteSuperior.Reborn, what
// PersistentRemoteSuperior does after its retry interval) - several lives in a row.  In every life a quality task sent
// by the upstream must reach the collectors behind the superior; a lost connection must end the life (the afterStopped
// callback that schedules the next rebirth is called once per life); stopping the superior in its last life must return.
// Waits are bounded generously and guarded against scheduler stalls; a wait that runs out is a verdict only when the
// goroutine dump shows cluster goroutines blocked (stop) or when the life demonstrably never ended.
package main

import (
	"context"
	"fmt"
	"math/big"
	"net"
	"sort"
	"sync"
	"sync/atomic"
	"time"

	"github.com/google/uuid"
	"github.com/massnetorg/mass-core/poc"
	"massnet.org/mass/fractal"
	"massnet.org/mass/fractal/connection"
	"massnet.org/mass/fractal/protocol"
	"verif/harness/internal/vh"
)

type RebornRec struct {
	Idx        int      `json:"idx"`
	Lives      int      `json:"lives"`
	Collectors int      `json:"collectors"`
	LastEnds   string   `json:"last_life_ends_by"`
	Delivered  []int    `json:"tasks_delivered_per_life"`
	Reported   int      `json:"reports_that_reached_the_upstream"`
	Stops      int64    `json:"after_stopped_calls"`
	Kinds      []string `json:"kinds,omitempty"`
	Notes      []string `json:"notes,omitempty"`
	Blocked    []string `json:"blocked_in,omitempty"`
	NotJudged  string   `json:"not_judged,omitempty"`
}

type recordingRequestWriter struct {
	mu   sync.Mutex
	seen map[uuid.UUID]int
}

func (w *recordingRequestWriter) WriteRequestQualities(_ context.Context, r *protocol.RequestQualities) error {
	w.mu.Lock()
	w.seen[r.TaskID]++
	w.mu.Unlock()
	return nil
}
func (w *recordingRequestWriter) WriteRequestProof(context.Context, *protocol.RequestProof) error {
	return nil
}
func (w *recordingRequestWriter) WriteRequestSignature(context.Context, *protocol.RequestSignature) error {
	return nil
}
func (w *recordingRequestWriter) count(id uuid.UUID) int {
	w.mu.Lock()
	defer w.mu.Unlock()
	return w.seen[id]
}

// silentSource is a collector's report source that never has anything to report.
type silentSource struct{}

func (silentSource) Read(ctx context.Context) (protocol.Message, error) {
	<-ctx.Done()
	return nil, ctx.Err()
}

// scriptedSource is a collector's report source the scenario feeds.
type scriptedSource struct{ ch chan protocol.Message }

func (s *scriptedSource) Read(ctx context.Context) (protocol.Message, error) {
	select {
	case m := <-s.ch:
		return m, nil
	case <-ctx.Done():
		return nil, ctx.Err()
	}
}

// waitFor polls cond until it holds or the limit passes; late is the worst delay a 50 ms sleep suffered meanwhile.
func waitFor(limit time.Duration, cond func() bool) (ok bool, late time.Duration) {
	deadline := time.Now().Add(limit)
	for {
		if cond() {
			return true, late
		}
		if time.Now().After(deadline) {
			return false, late
		}
		t0 := time.Now()
		time.Sleep(50 * time.Millisecond)
		if d := time.Since(t0) - 50*time.Millisecond; d > late {
			late = d
		}
	}
}

func rebornScenario(rng *vh.Rng, idx int, watchdog time.Duration) *RebornRec {
	rec := &RebornRec{Idx: idx, Lives: rng.Range(2, 4), Collectors: rng.Range(1, 3), LastEnds: rng.PickS("stop", "stop", "connection-loss")}
	bg := context.Background()
	var stops int64
	afterStopped := func() { atomic.AddInt64(&stops, 1) }
	writers := make([]*recordingRequestWriter, rec.Collectors)
	var colCancels []context.CancelFunc
	var rs *fractal.RemoteSuperior
	var rsCancel context.CancelFunc
	var conns []context.CancelFunc
	reporter := &scriptedSource{ch: make(chan protocol.Message, 4)}
	defer func() {
		done := make(chan struct{})
		go func() {
			if rsCancel != nil && len(rec.Kinds) == 0 {
				rsCancel()
			}
			for _, c := range conns {
				c()
			}
			for _, c := range colCancels {
				c()
			}
			close(done)
		}()
		select {
		case <-done:
		case <-time.After(20 * time.Second):
		}
	}()
	blockedNow := func() []string {
		seen := map[string]bool{}
		var out []string
		for _, st := range repoGoroutines(fullDump()) {
			if !seen[st] {
				seen[st] = true
				out = append(out, st)
			}
		}
		sort.Strings(out)
		return out
	}
	for life := 0; life < rec.Lives; life++ {
		up, down := net.Pipe()
		upConn, upCancel, err1 := connection.NewConn(connection.WithNetConn(up), connection.KeepaliveInterval(0), connection.KeepaliveTimeout(0))
		downConn, downCancel, err2 := connection.NewConn(connection.WithNetConn(down), connection.KeepaliveInterval(0), connection.KeepaliveTimeout(0))
		if err1 != nil || err2 != nil {
			rec.NotJudged = "NewConn failed"
			return rec
		}
		conns = append(conns, upCancel, downCancel)
		reader, writer := fractal.NewRemoteRequestReader(bg, downConn), fractal.NewRemoteReportWriter(bg, downConn)
		if life == 0 {
			rs, rsCancel = fractal.NewRemoteSuperior(bg, reader, writer, afterStopped)
			for i := range writers {
				writers[i] = &recordingRequestWriter{seen: map[uuid.UUID]int{}}
				var src fractal.MessageReader = silentSource{}
				if i == 0 {
					src = reporter
				}
				_, c := fractal.NewRemoteCollector(bg, rs, writers[i], src, nil)
				colCancels = append(colCancels, c)
			}
		} else {
			rsCancel = rs.Reborn(bg, reader, writer)
		}
		// the upstream hands out a quality task: every collector behind the superior must get it
		tid := uuid.New()
		var ch [32]byte
		copy(ch[:], tid[:])
		task := &protocol.RequestQualities{TaskID: tid, Challenge: ch, ParentTarget: big.NewInt(0), ParentSlot: uint64(time.Now().Unix())/poc.PoCSlot + 10, Height: uint64(3000 + life)}
		wctx, wcancel := context.WithTimeout(bg, watchdog)
		werr := fractal.NewRemoteRequestWriter(bg, upConn).WriteRequestQualities(wctx, task)
		wcancel()
		if werr != nil {
			rec.NotJudged = fmt.Sprintf("life %d: the upstream could not send its task: %v", life, werr)
			return rec
		}
		got := func() int {
			n := 0
			for _, w := range writers {
				if w.count(task.TaskID) > 0 {
					n++
				}
			}
			return n
		}
		ok, late := waitFor(watchdog, func() bool { return got() == rec.Collectors })
		rec.Delivered = append(rec.Delivered, got())
		if !ok {
			if late > 800*time.Millisecond {
				rec.NotJudged = fmt.Sprintf("life %d: goroutines were woken up to %s late while waiting for the task", life, late)
				return rec
			}
			rec.Kinds = append(rec.Kinds, "task-not-delivered-after-reconnection")
			rec.Notes = append(rec.Notes, fmt.Sprintf("life %d of %d: the task the upstream sent over the new connection reached %d of %d collectors within %s", life+1, rec.Lives, got(), rec.Collectors, watchdog))
			rec.Blocked = blockedNow()
			return rec
		}
		// the first collector answers: its report must come out of the connection of THIS life
		reports := make(chan uuid.UUID, 8)
		rctx, rcancel := context.WithCancel(bg)
		go func(rr *fractal.RemoteReportReader) {
			for {
				m, err := rr.Read(rctx)
				if err != nil {
					return
				}
				if q, ok := m.(*protocol.ReportQualities); ok {
					reports <- q.TaskID
				}
			}
		}(fractal.NewRemoteReportReader(rctx, upConn))
		reporter.ch <- &protocol.ReportQualities{TaskID: tid}
		reported := false
		ok, late = waitFor(watchdog, func() bool {
			select {
			case id := <-reports:
				reported = reported || id == tid
			default:
			}
			return reported
		})
		rcancel()
		if !ok {
			if late > 800*time.Millisecond {
				rec.NotJudged = fmt.Sprintf("life %d: goroutines were woken up to %s late while waiting for the report", life, late)
				return rec
			}
			rec.Kinds = append(rec.Kinds, "report-not-delivered-after-reconnection")
			rec.Notes = append(rec.Notes, fmt.Sprintf("life %d of %d: a collector's quality report for the task of this life did not reach the upstream over the connection of this life within %s", life+1, rec.Lives, watchdog))
			rec.Blocked = blockedNow()
			return rec
		}
		rec.Reported++
		last := life == rec.Lives-1
		if last && rec.LastEnds == "stop" {
			returned := make(chan struct{})
			go func() { rsCancel(); close(returned) }()
			ok, late := waitFor(watchdog, func() bool {
				select {
				case <-returned:
					return true
				default:
					return false
				}
			})
			if !ok {
				if late > 800*time.Millisecond {
					rec.NotJudged = fmt.Sprintf("goroutines were woken up to %s late while waiting for the stop", late)
					return rec
				}
				rec.Blocked = blockedNow()
				if len(rec.Blocked) == 0 {
					rec.NotJudged = "stop did not return within the watchdog but no cluster goroutine is blocked"
					return rec
				}
				rec.Kinds = append(rec.Kinds, "call-never-returned")
				rec.Notes = append(rec.Notes, fmt.Sprintf("stopping the remote superior in life %d (after %d reconnections, connection still up) did not return within %s", life+1, life, watchdog))
				return rec
			}
			rsCancel = nil
			break
		}
		// the connection is lost: the life must end and afterStopped (which schedules the rebirth) must be called
		upCancel()
		want := int64(life + 1)
		ok, late = waitFor(watchdog, func() bool { return atomic.LoadInt64(&stops) >= want })
		if !ok {
			if late > 800*time.Millisecond {
				rec.NotJudged = fmt.Sprintf("goroutines were woken up to %s late while waiting for the life to end", late)
				return rec
			}
			rec.Stops = atomic.LoadInt64(&stops)
			rec.Blocked = blockedNow()
			rec.Kinds = append(rec.Kinds, "superior-never-ends-after-connection-loss")
			rec.Notes = append(rec.Notes, fmt.Sprintf("life %d of %d: the upstream connection was closed, the superior's stop callback (which schedules the reconnection) was called %d times in all, expected %d, within %s", life+1, rec.Lives, rec.Stops, want, watchdog))
			return rec
		}
	}
	rec.Stops = atomic.LoadInt64(&stops)
	return rec
}
