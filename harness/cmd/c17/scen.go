// scen.go: scenario parameters; the list is a pure function of (seed, tier).
package main

import (
	"encoding/json"

	"verif/harness/internal/vh"
)

type RelaySpec struct {
	NLocal  int `json:"n_local"`  // LocalCollectors subscribed in-process to the relay's PersistentRemoteSuperior
	NRemote int `json:"n_remote"` // collectors that reach the relay's CollectorPool over TCP
}

type TSpec struct {
	Kind string `json:"kind"` // "p" proof request, "s" signature request
	Sel  int    `json:"sel"`  // selects the target among the collectors alive at that moment
	AtMs int    `json:"at_ms"`
}

type Inject struct {
	Kind      string `json:"kind"` // remove | stop-lc | stop-prs | stop-pool | drop | stall | late | release
	Sel       int    `json:"sel"`
	AtMs      int    `json:"at_ms"` // delay after AddTask of the round's broadcast returned
	Side      string `json:"side,omitempty"`
	Rst       bool   `json:"rst,omitempty"`
	GapMs     int    `json:"gap_ms,omitempty"`
	StallMs   int    `json:"stall_ms,omitempty"`
	LateKind  string `json:"late_kind,omitempty"` // local-top | remote-top | local-relay | remote-relay
	Coord     string `json:"coord,omitempty"`     // hook-add | hook-sub | free
	HookMs    int    `json:"hook_ms,omitempty"`
	Reconnect bool   `json:"reconnect,omitempty"` // wait for the persistent superior's retry interval, then probe
	PoolSel   int    `json:"pool_sel,omitempty"`
}

type Round struct {
	Kind        string  `json:"kind"`  // base | inject | probe
	Burst       int     `json:"burst"` // reports every collector sends at its first tick (parent slot = now+10-burst)
	Reader      string  `json:"reader"`
	LazyAfter   int     `json:"lazy_after,omitempty"`
	End         string  `json:"end"`          // remove | supersede
	RemovePause bool    `json:"remove_pause"` // the remover first stops reading (reader == remover, as in the miner)
	Inj         *Inject `json:"inj,omitempty"`
	Targeted    []TSpec `json:"targeted,omitempty"`
}

type Scen struct {
	Idx     int         `json:"idx"`
	Class   string      `json:"class"`
	NLocal  int         `json:"n_local"`
	NDirect int         `json:"n_direct"`
	Relays  []RelaySpec `json:"relays,omitempty"`
	Spaces  int         `json:"spaces"`
	Rounds  []Round     `json:"rounds"`
	// KeepaliveUs > 0: the pools' connections ping every KeepaliveUs microseconds (default: 29 s), so that stops and
	// drops keep landing on keepalive ticks (pool side) and on pongs (dialling side)
	KeepaliveUs int `json:"keepalive_us,omitempty"`
}

func (s *Scen) hash() uint64 {
	b, _ := json.Marshal(s)
	return vh.Hash64(b)
}

var injectClasses = []string{
	"remove-full", "late-hook-add", "stop-pool", "drop", "late-hook-sub", "stop-lc", "remove-early", "stall",
	"stop-prs", "late-free", "remove-eager", "stop-pool-relay", "drop-relay", "late-relay", "drop-backpressured", "release",
}

func genTargeted(rng *vh.Rng, n int, maxAt int) []TSpec {
	var out []TSpec
	for i := 0; i < n; i++ {
		out = append(out, TSpec{Kind: rng.PickS("p", "s"), Sel: rng.Intn(1000), AtMs: rng.Intn(maxAt + 1)})
	}
	return out
}

func genInject(rng *vh.Rng, class string, sc *Scen, thorough bool) (Round, bool) {
	rd := Round{Kind: "inject", Burst: rng.Range(1, 3), Reader: "eager", End: "remove", RemovePause: rng.Bool()}
	in := &Inject{Sel: rng.Intn(1000), PoolSel: rng.Intn(1000)}
	at := func() int {
		switch rng.Intn(4) {
		case 0:
			return rng.Intn(6)
		case 1:
			return rng.Range(50, 700)
		case 2:
			return rng.Range(730, 820)
		}
		return rng.Range(820, 1300)
	}
	in.AtMs = at()
	hasRelay := len(sc.Relays) > 0
	hasRemote := sc.NDirect > 0 || hasRelay
	switch class {
	case "remove-full":
		in.Kind = "remove"
		rd.Reader, rd.LazyAfter = "lazy", rng.Intn(4)
		rd.Burst = rng.Range(11, 14)
		if sc.NDirect+sc.NLocal >= 6 && rng.Bool() {
			rd.Burst = rng.Range(2, 4) // many collectors, few reports each: same > 10 in flight
		}
		in.AtMs = rng.Range(850, 1300)
		rd.RemovePause = true
	case "remove-early":
		in.Kind = "remove"
		in.AtMs = rng.PickI(rng.Intn(5), rng.Range(5, 700))
	case "remove-eager":
		in.Kind = "remove"
		rd.Burst = rng.Range(4, 14)
		in.AtMs = rng.Range(740, 900)
		rd.RemovePause = false
	case "late-hook-add", "late-hook-sub", "late-free", "late-relay":
		in.Kind = "late"
		in.HookMs = rng.Range(1, 20)
		switch class {
		case "late-hook-add":
			in.Coord = "hook-add"
			in.LateKind = rng.PickS("local-top", "local-top", "remote-top")
		case "late-hook-sub":
			in.Coord = "hook-sub"
			in.LateKind = rng.PickS("local-top", "local-top", "remote-top")
		case "late-free":
			in.Coord = "free"
			in.LateKind = rng.PickS("local-top", "remote-top")
		case "late-relay":
			if !hasRelay {
				return rd, false
			}
			in.Coord = "free"
			in.LateKind = rng.PickS("local-relay", "remote-relay")
		}
	case "stop-pool":
		in.Kind = "stop-pool"
		in.PoolSel = 0 // the superior's own pool
	case "stop-pool-relay":
		if !hasRelay {
			return rd, false
		}
		in.Kind = "stop-pool"
		in.PoolSel = 1 + rng.Intn(len(sc.Relays))
	case "drop", "drop-relay":
		if !hasRemote || (class == "drop-relay" && !hasRelay) {
			return rd, false
		}
		in.Kind = "drop"
		in.Side = rng.PickS("client", "server", "both")
		in.Rst = rng.Bool()
		in.GapMs = rng.Intn(40)
		in.Reconnect = thorough && rng.Chance(1, 12)
		if class == "drop-relay" {
			in.Sel = -1 - rng.Intn(len(sc.Relays)) // negative: a relay
		}
	case "drop-backpressured":
		// the waiter stops reading, every collector sends a long burst: the queues of every connection fill
		// up (result channel 10, reader 10, connection 10); then one such connection is dropped
		if !hasRemote {
			return rd, false
		}
		in.Kind = rng.PickS("drop", "stop-prs", "stop-pool", "stop-pool")
		if in.Kind == "stop-pool" {
			in.PoolSel = 0
			if hasRelay && rng.Bool() {
				in.PoolSel = 1 + rng.Intn(len(sc.Relays))
			}
		}
		in.Side = rng.PickS("client", "server", "both")
		in.Rst = rng.Bool()
		rd.Reader, rd.LazyAfter = "lazy", rng.Intn(4)
		rd.Burst = rng.Range(24, 32)
		in.AtMs = rng.Range(1000, 1300)
		rd.RemovePause = true
		if hasRelay && rng.Bool() {
			in.Sel = -1 - rng.Intn(len(sc.Relays))
		}
	case "stall":
		if !hasRemote {
			return rd, false
		}
		in.Kind = "stall"
		in.StallMs = rng.Range(100, 900)
	case "stop-lc":
		in.Kind = "stop-lc"
	case "stop-prs":
		if !hasRemote {
			return rd, false
		}
		in.Kind = "stop-prs"
		if hasRelay && rng.Chance(1, 3) {
			in.Sel = -1 - rng.Intn(len(sc.Relays))
		}
	case "release":
		in.Kind = "release"
	}
	rd.Inj = in
	if in.Kind != "release" {
		rd.Targeted = genTargeted(rng, rng.Intn(3), 1000)
	}
	if in.Kind != "remove" && rd.Reader != "lazy" && rng.Chance(1, 4) {
		rd.End = "supersede" // (a waiter that stops reading always removes its task, as the miner does)
	}
	return rd, true
}

func genScen(root *vh.Rng, idx int, thorough bool) *Scen {
	rng := root.Derive("scen", idx)
	sc := &Scen{Idx: idx, Spaces: rng.Range(1, 3)}
	if kr := root.Derive("keepalive", idx); kr.Chance(1, 3) {
		sc.KeepaliveUs = kr.Range(200, 3000)
	}
	sc.NLocal = rng.Range(1, 3)
	switch idx % 3 {
	case 0:
		sc.Class = "direct"
		sc.NDirect = rng.Range(1, 12)
	case 1:
		sc.Class = "one-relay"
		sc.NDirect = rng.Range(0, 4)
		sc.Relays = []RelaySpec{{NLocal: rng.Range(0, 2), NRemote: rng.Range(0, 3)}}
	case 2:
		sc.Class = "two-relays"
		sc.NDirect = rng.Range(0, 3)
		sc.Relays = []RelaySpec{{NLocal: rng.Range(0, 2), NRemote: rng.Range(0, 2)}, {NLocal: rng.Range(0, 2), NRemote: rng.Range(0, 2)}}
	}
	for i := range sc.Relays {
		if sc.Relays[i].NLocal+sc.Relays[i].NRemote == 0 {
			sc.Relays[i].NLocal = 1
		}
	}
	base := Round{Kind: "base", Burst: rng.Range(1, 4), Reader: "eager", End: rng.PickS("remove", "remove", "supersede"), RemovePause: rng.Bool(),
		Targeted: genTargeted(rng, 2, 300)}
	base.Targeted[0].Kind, base.Targeted[1].Kind = "p", "s"
	sc.Rounds = append(sc.Rounds, base)
	nInj := rng.Range(1, 2)
	// the first injected class walks through the list (offset by the seed stream) so that every class
	// occurs in every 15 consecutive scenarios; the second one is free
	off := root.Derive("class-offset", 0).Intn(len(injectClasses))
	released := false
	for k := 0; k < nInj && !released; k++ {
		class := injectClasses[(idx/3+idx+off)%len(injectClasses)]
		if k > 0 {
			class = injectClasses[rng.Intn(len(injectClasses)-1)] // never "release" in the middle
		}
		var rd Round
		ok := false
		for try := 0; try < 8 && !ok; try++ {
			rd, ok = genInject(rng, class, sc, thorough)
			if !ok {
				class = injectClasses[rng.Intn(len(injectClasses)-1)]
			}
		}
		if !ok {
			continue
		}
		if rd.Inj.Kind == "release" {
			if k == 0 { // a release needs another event before it to make the scenario worth it
				pre, ok2 := genInject(rng, rng.PickS("stop-lc", "remove-eager", "late-free"), sc, thorough)
				if ok2 {
					sc.Rounds = append(sc.Rounds, pre, probeRound(rng))
				}
			}
			sc.Rounds = append(sc.Rounds, rd)
			released = true
			break
		}
		sc.Rounds = append(sc.Rounds, rd, probeRound(rng))
	}
	return sc
}

func probeRound(rng *vh.Rng) Round {
	p := Round{Kind: "probe", Burst: rng.Range(1, 3), Reader: "eager", End: "remove", RemovePause: rng.Bool(), Targeted: genTargeted(rng, 2, 200)}
	p.Targeted[0].Kind, p.Targeted[1].Kind = "p", "s"
	return p
}
