#!/usr/bin/env python3
"""Sensitivity run for the C17 monitor (not part of ./check).

Builds the driver against /repo with the four proposed fixes overlaid (go build -overlay; /repo is not
touched), optionally plus one seeded mutation of the fractal package, and runs the quick tier.

  sensitivity.py                 baseline (fixes only) at seeds 1,2,3
  sensitivity.py M2 M5 ...       the named mutations at seed $MSEED (default 1)
  sensitivity.py all             every mutation

Evidence/replays of these runs go to a scratch VERIF_DIR, never to /verif.
"""
import collections, json, os, re, shutil, subprocess, sys, tempfile

HERE = os.path.dirname(os.path.abspath(__file__))
REPO = '/repo'
ENV = dict(os.environ, GOFLAGS='-mod=mod', GOPROXY='off', GOSUMDB='off', GOTOOLCHAIN='local')

MUTS = collections.OrderedDict()


def mut(name, file, old, new):
    MUTS.setdefault(name, []).append((file, old, new))


# report routed to the wrong waiter (most recently added task instead of the task the report names)
mut('M1-wrong-waiter', 'superior.go', "\tls.taskCache.Add(req.ID(), ch)\n\tls.taskCacheLock.Unlock()\n",
    "\tls.taskCache.Add(req.ID(), ch)\n\tmutLast = req.ID()\n\tls.taskCacheLock.Unlock()\n")
mut('M1-wrong-waiter', 'superior.go', "\tv, ok := ls.taskCache.Get(resp.Msg.ID())\n\tls.taskCacheLock.Unlock()",
    "\tv, ok := ls.taskCache.Get(mutLast)\n\tls.taskCacheLock.Unlock()")
mut('M1-wrong-waiter', 'superior.go', 'type CollectorMsg struct {', 'var mutLast uuid.UUID\n\ntype CollectorMsg struct {')
# Send() to the targeted collector replaced by Broadcast
mut('M2-send-is-broadcast', 'superior.go', "\t} else {\n\t\tls.Send(ctx, collectorID, req)\n\t}", "\t} else {\n\t\tls.Broadcast(ctx, req)\n\t}")
# Subscribe no longer re-sends the current task
mut('M3-no-resend-on-subscribe', 'superior.go', "\tif task != nil {\n\t\tls.Send(ctx, c.ID(), task)\n\t}", "\t_ = task")
# RemoveTask neither closes nor unregisters
mut('M4-remove-keeps-task', 'superior.go', "\t\tch := v.(chan *CollectorMsg)\n\t\tclose(ch)\n\t\tls.taskCache.Remove(id)\n\t}\n\tls.taskCacheLock.Unlock()",
    "\t\t_ = v\n\t}\n\tls.taskCacheLock.Unlock()")
# the writer puts every second quality report on the priority lane
mut('M5-priority-lane-reorders', 'writer.go', "\tif priority {\n\t\terr = sender.conn.SendPriority(ctx, data)",
    "\tif msg.MsgType() == protocol.MsgTypeReportQualities {\n\t\tmutN++\n\t\tpriority = mutN%2 == 0\n\t}\n\tif priority {\n\t\terr = sender.conn.SendPriority(ctx, data)")
mut('M5-priority-lane-reorders', 'writer.go', 'type RequestWriter interface {', 'var mutN int\n\ntype RequestWriter interface {')
# the superior drops the collector tag / the pool-side collector reports under a foreign id
mut('M6-tag-dropped', 'superior.go', 'return ls.submitCollectorMsg(ctx, &CollectorMsg{CollectorID: cid, Msg: resp})',
    'return ls.submitCollectorMsg(ctx, &CollectorMsg{CollectorID: uuid.Nil, Msg: resp})')
mut('M6b-tag-of-other-connection', 'collector.go', 'err = rc.superior.ReportQualities(rc.ctx, rc.id, msg.(*protocol.ReportQualities))',
    'err = rc.superior.ReportQualities(rc.ctx, uuid.New(), msg.(*protocol.ReportQualities))')
# a stop that waits before it cancels
mut('M7-stop-waits-before-cancel', 'collector.go', "\tlc.ctxCanceller()\n\tlc.wg.Wait()\n\tatomic.StoreInt32(&lc.stopped, 1)",
    "\tlc.wg.Wait()\n\tlc.ctxCanceller()\n\tatomic.StoreInt32(&lc.stopped, 1)")
# a transported field changes in transit
mut('M8-slot-altered-in-transit', 'protocol/protocol.go', "\tq.Slot = msg.Slot\n", "\tq.Slot = msg.Slot + 1\n")
# Broadcast skips one registered collector
mut('M9-broadcast-skips-one', 'superior.go', "\tfor id, c := range base.collectors {\n\t\tid0 := id",
    "\tskip := len(base.collectors) > 2\n\tfor id, c := range base.collectors {\n\t\tif skip {\n\t\t\tskip = false\n\t\t\tcontinue\n\t\t}\n\t\tid0 := id")
# result channel registered only after the request went out (window of microseconds; no hook inside it)
mut('M10-register-after-send', 'superior.go',
    "\tch := make(chan *CollectorMsg, 10)\n\tls.taskCacheLock.Lock()\n\tls.taskCache.Add(req.ID(), ch)\n\tls.taskCacheLock.Unlock()\n\n\tif collectorID == uuid.Nil {",
    "\tch := make(chan *CollectorMsg, 10)\n\tdefer func() {\n\t\tls.taskCacheLock.Lock()\n\t\tls.taskCache.Add(req.ID(), ch)\n\t\tls.taskCacheLock.Unlock()\n\t}()\n\n\tif collectorID == uuid.Nil {")
# a relay swallows proof requests
mut('M11-relay-swallows-proof-requests', 'superior.go', "\t\tif msg.MsgType() == protocol.MsgTypeRequestQualities {\n\t\t\trs.latestLock.Lock()",
    "\t\tif msg.MsgType() == protocol.MsgTypeRequestProof {\n\t\t\tcontinue process\n\t\t}\n\t\tif msg.MsgType() == protocol.MsgTypeRequestQualities {\n\t\t\trs.latestLock.Lock()")


def fixed_tree(tmp):
    """copy of /repo/fractal with proposed_fix_1..4 applied"""
    dst = os.path.join(tmp, 'fixed')
    shutil.copytree(os.path.join(REPO, 'fractal'), os.path.join(dst, 'fractal'))
    for n in (1, 2, 3, 4):
        subprocess.run(['patch', '-s', '-p1', '-d', dst, '-i', os.path.join(HERE, 'proposed_fix_%d.diff' % n)], check=True)
    return os.path.join(dst, 'fractal')


def build_and_run(tmp, fixed, name, seeds):
    d = os.path.join(tmp, name)
    os.makedirs(d, exist_ok=True)
    repl = {}
    for f in ('pool.go', 'superior.go', 'connection/conn.go'):
        repl[os.path.join(REPO, 'fractal', f)] = os.path.join(fixed, f)
    files = {}
    for (f, old, new) in MUTS.get(name, []):
        s = files.get(f) or open(os.path.join(fixed, f)).read()
        assert old in s, (name, f, old)
        files[f] = s.replace(old, new, 1)
    for f, s in files.items():
        p = os.path.join(d, f.replace('/', '_'))
        open(p, 'w').write(s)
        repl[os.path.join(REPO, 'fractal', f)] = p
    json.dump({'Replace': repl}, open(os.path.join(d, 'overlay.json'), 'w'))
    r = subprocess.run(['go', 'build', '-race', '-tags', 'verif', '-overlay', os.path.join(d, 'overlay.json'), '-o', os.path.join(d, 'c17'), './cmd/c17'],
                       cwd=os.path.join(HERE, '..', '..'), env=ENV, capture_output=True, text=True)
    if r.returncode != 0:
        print(name, 'BUILD FAILED', [l for l in r.stderr.splitlines() if 'ld:' not in l and not l.startswith('#')][:10])
        return
    vd = os.path.join(tmp, 'vd')
    os.makedirs(vd, exist_ok=True)
    shutil.copy('/verif/known_findings.json', vd)
    for seed in seeds:
        r = subprocess.run([os.path.join(d, 'c17'), '-tier', 'quick'], cwd=vd, env=dict(ENV, VERIF_DIR=vd, VERIF_SEED=str(seed)), capture_output=True, text=True)
        print('=====', name, 'seed', seed, 'exit', r.returncode)
        kinds, ex = collections.Counter(), {}
        for l in r.stdout.splitlines():
            if l.startswith('SUMMARY') or 'watchdog' in l or 'dropped' in l:
                print('  ', l[:300])
            m = re.match(r'\s+VIOLATED:([a-z0-9-]+)(\{.*\})=(\d+)', l)
            if m:
                kinds[m.group(1)] += int(m.group(3))
                ex.setdefault(m.group(1), m.group(2))
        for k, v in kinds.items():
            print('   VIOLATED', k, v, 'e.g.', ex[k][:260])
        sys.stdout.flush()


def main():
    args = sys.argv[1:]
    tmp = tempfile.mkdtemp(prefix='c17-sens-')
    try:
        fixed = fixed_tree(tmp)
        if not args:
            build_and_run(tmp, fixed, 'baseline-fixes-only', (1, 2, 3))
            return
        names = list(MUTS) if args == ['all'] else [n for n in MUTS if any(n == a or n.startswith(a + '-') for a in args)]
        for n in names:
            build_and_run(tmp, fixed, n, (int(os.environ.get('MSEED', '1')),))
    finally:
        shutil.rmtree(tmp, ignore_errors=True)


if __name__ == '__main__':
    main()
