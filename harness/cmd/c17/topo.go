// topo.go: the building blocks of a topology: scripted v2 space keeper, the pass-through tap that
// records the client boundary of every Superior (subscribe / unsubscribe / report), the fault-injecting
// TCP proxy, and the constructors that wire the REAL fractal components together the way
// /repo/mass.go (m2 mode) and /repo/fractal.go (fractal mode) do.
package main

import (
	"context"
	"crypto/sha256"
	"encoding/hex"
	"errors"
	"fmt"
	"net"
	"reflect"
	"strings"
	"sync"
	"sync/atomic"
	"time"
	"unsafe"

	"github.com/google/uuid"
	"github.com/massnetorg/mass-core/poc/chiapos"
	"github.com/massnetorg/mass-core/poc/pocutil"
	"massnet.org/mass/fractal"
	"massnet.org/mass/fractal/connection"
	"massnet.org/mass/fractal/protocol"
	engine "massnet.org/mass/poc/engine.v2"
)

// ---------------------------------------------------------------- payload markers

func h16(s string) string {
	h := sha256.Sum256([]byte(s))
	return hex.EncodeToString(h[:8])
}

func g1hex(e *chiapos.G1Element) string {
	if e == nil {
		return "nil"
	}
	return hex.EncodeToString(e.Bytes())
}

// canonMsg renders every transported field of a report; two reports are "the same, unmodified"
// iff their canonical texts are equal.
func canonMsg(m protocol.Message) string {
	var sb strings.Builder
	switch r := m.(type) {
	case *protocol.ReportQualities:
		fmt.Fprintf(&sb, "RQ|%s", r.TaskID)
		for _, q := range r.Qualities {
			if q == nil || q.WorkSpaceQuality == nil {
				sb.WriteString("|nil")
				continue
			}
			fmt.Fprintf(&sb, "|%s,%s,%s,%d,%d,%x,%x,%d", q.SpaceID, g1hex(q.PublicKey), g1hex(q.PoolPublicKey), q.Index, q.KSize, q.Quality, q.PlotID[:], q.Slot)
		}
	case *protocol.ReportProof:
		fmt.Fprintf(&sb, "RP|%s", r.TaskID)
		if r.Proof == nil || r.Proof.Proof == nil {
			sb.WriteString("|nil")
		} else {
			p := r.Proof
			fmt.Fprintf(&sb, "|%s,%x,%s,%s,%d,%x", p.SpaceID, p.Proof.Challenge[:], g1hex(p.Proof.PoolPublicKey), g1hex(p.Proof.PlotPublicKey), p.Proof.KSize, p.Proof.Proof)
		}
	case *protocol.ReportSignature:
		fmt.Fprintf(&sb, "RS|%s|%s,%x,", r.TaskID, r.SpaceID, r.Hash[:])
		if r.Signature == nil {
			sb.WriteString("nil")
		} else {
			fmt.Fprintf(&sb, "%x", r.Signature.Bytes())
		}
	case nil:
		sb.WriteString("NIL")
	default:
		fmt.Fprintf(&sb, "?%T|%s", m, m.ID())
	}
	return sb.String()
}

// ownerOf extracts the scripted owner (collector name) from a canonical payload: space ids are
// "<scenario>/<collector>/<j>".
func ownerOfSpace(sid string) string {
	p := strings.Split(sid, "/")
	if len(p) == 3 {
		return p[1]
	}
	return ""
}

// ---------------------------------------------------------------- scripted keeper

type space struct {
	sid    string
	sk     *chiapos.PrivateKey
	pk     *chiapos.G1Element
	plotID [32]byte
}

type keeper struct {
	node    string
	r       *scenRun
	spaces  []*space
	poolPK  *chiapos.G1Element
	started int32
}

var errNotScripted = errors.New("c17 scripted keeper: not scripted")

func (k *keeper) Start() error  { atomic.StoreInt32(&k.started, 1); return nil }
func (k *keeper) Stop() error   { atomic.StoreInt32(&k.started, 0); return nil }
func (k *keeper) Started() bool { return atomic.LoadInt32(&k.started) == 1 }
func (k *keeper) Type() string  { return "spacekeeper.v2.c17-scripted" }
func (k *keeper) WorkSpaceIDs(engine.WorkSpaceStateFlags) ([]string, error) {
	var out []string
	for _, s := range k.spaces {
		out = append(out, s.sid)
	}
	return out, nil
}
func (k *keeper) WorkSpaceInfos(engine.WorkSpaceStateFlags) ([]engine.WorkSpaceInfo, error) {
	return nil, errNotScripted
}
func (k *keeper) GetQuality(context.Context, string, pocutil.Hash) ([]*engine.WorkSpaceQuality, error) {
	return nil, errNotScripted
}
func (k *keeper) GetQualityReader(context.Context, string, pocutil.Hash) (engine.QualityReader, error) {
	return nil, errNotScripted
}
func (k *keeper) GetQualitiesReader(context.Context, engine.WorkSpaceStateFlags, pocutil.Hash) (engine.QualityReader, error) {
	return nil, errNotScripted
}
func (k *keeper) GetProofs(context.Context, []string, pocutil.Hash, []uint32) ([]*engine.WorkSpaceProof, error) {
	return nil, errNotScripted
}
func (k *keeper) GetProofReader(context.Context, string, pocutil.Hash, uint32) (engine.ProofReader, error) {
	return nil, errNotScripted
}
func (k *keeper) GetProofsReader(context.Context, []string, pocutil.Hash, []uint32) (engine.ProofReader, error) {
	return nil, errNotScripted
}
func (k *keeper) ActOnWorkSpace(string, engine.ActionType) error { return errNotScripted }
func (k *keeper) ActOnWorkSpaces(engine.WorkSpaceStateFlags, engine.ActionType) (map[string]error, error) {
	return nil, errNotScripted
}
func (k *keeper) GetPrivateKey(string) (*chiapos.PrivateKey, error) { return nil, errNotScripted }

func (k *keeper) find(sid string) *space {
	for _, s := range k.spaces {
		if s.sid == sid {
			return s
		}
	}
	return nil
}

// GetQualities: one quality per space, value unique per (collector, space, challenge).
func (k *keeper) GetQualities(ctx context.Context, flags engine.WorkSpaceStateFlags, challenge pocutil.Hash) ([]*engine.WorkSpaceQuality, error) {
	k.r.log.add(Ev{K: "asked", N: k.node, X: "q:" + hex.EncodeToString(challenge[:])})
	out := make([]*engine.WorkSpaceQuality, 0, len(k.spaces))
	for j, s := range k.spaces {
		q := sha256.Sum256([]byte("quality|" + s.sid + "|" + hex.EncodeToString(challenge[:])))
		out = append(out, &engine.WorkSpaceQuality{
			SpaceID: s.sid, PublicKey: s.pk, PoolPublicKey: k.poolPK, Index: uint32(j), KSize: 32,
			Quality: q[:], PlotID: s.plotID,
		})
	}
	return out, nil
}

func (k *keeper) GetProof(ctx context.Context, sid string, challenge pocutil.Hash, index uint32) (*engine.WorkSpaceProof, error) {
	k.r.log.add(Ev{K: "asked", N: k.node, X: "p:" + hex.EncodeToString(challenge[:])})
	s := k.find(sid)
	if s == nil {
		return nil, fmt.Errorf("c17 scripted keeper %s: unknown space %s", k.node, sid)
	}
	pr := sha256.Sum256([]byte(fmt.Sprintf("proof|%s|%x|%d", sid, challenge[:], index)))
	proof := append(pr[:], pr[:]...)
	return &engine.WorkSpaceProof{
		SpaceID: sid,
		Proof: &chiapos.ProofOfSpace{Challenge: challenge, PoolPublicKey: k.poolPK, PlotPublicKey: s.pk, KSize: 32,
			Proof: proof},
		PublicKey: s.pk, Ordinal: engine.UnknownOrdinal,
	}, nil
}

func (k *keeper) SignHash(sid string, hash [32]byte) (*chiapos.G2Element, error) {
	k.r.log.add(Ev{K: "asked", N: k.node, X: "s:" + hex.EncodeToString(hash[:])})
	s := k.find(sid)
	if s == nil {
		return nil, fmt.Errorf("c17 scripted keeper %s: unknown space %s", k.node, sid)
	}
	return chiapos.Sign(chiapos.SchemeMPLAug, s.sk, hash[:])
}

// ---------------------------------------------------------------- tap (pass-through Superior)

// tap sits between a LocalCollector (owner != "") or a CollectorPool (owner == "") and the real
// Superior they were given. It forwards everything unchanged and records the call and its return.
type tap struct {
	inner fractal.Superior
	r     *scenRun
	owner string // collector name for collector taps
	at    string // name of the superior ("top", relay name, or "<collector>.prs")
	mu    sync.Mutex
	seq   map[string]int    // task -> last send seq (collector taps)
	links map[string]string // tag -> link key (pool taps)
	exp   []string          // node names expected to connect next (pool taps)
}

func newTap(r *scenRun, inner fractal.Superior, owner, at string) *tap {
	return &tap{inner: inner, r: r, owner: owner, at: at, seq: map[string]int{}, links: map[string]string{}}
}

func (t *tap) expect(node string) {
	t.mu.Lock()
	t.exp = append(t.exp, node)
	t.mu.Unlock()
}

func (t *tap) linkFor(tag string, create bool) string {
	if t.owner != "" {
		return "lc:" + t.owner
	}
	t.mu.Lock()
	defer t.mu.Unlock()
	if k, ok := t.links[tag]; ok {
		return k
	}
	if !create {
		return "conn:?"
	}
	k := "conn:?"
	if len(t.exp) == 1 {
		k = "conn:" + t.exp[0]
		t.exp = nil
	} else if len(t.exp) > 1 {
		t.exp = t.exp[1:] // ambiguous: more than one node is connecting to this pool at once
	}
	t.links[tag] = k
	return k
}

func (t *tap) report(ctx context.Context, cid uuid.UUID, m protocol.Message, f func() error) error {
	canon := canonMsg(m)
	p := h16(canon)
	t.r.log.remember(p, canon)
	if t.owner == "" {
		t.r.log.add(Ev{K: "fwd", N: t.at, Tag: cid.String(), Task: m.ID().String(), P: p})
		return f()
	}
	id := m.ID().String()
	t.mu.Lock()
	t.seq[id]++
	seq := t.seq[id]
	t.mu.Unlock()
	c := t.r.log.newCall()
	t.r.log.add(Ev{K: "sent.call", N: t.owner, Task: id, P: p, Seq: seq, C: c, Tag: cid.String()})
	err := f()
	x := ""
	if err != nil {
		x = err.Error()
	}
	t.r.log.add(Ev{K: "sent.ret", N: t.owner, Task: id, P: p, Seq: seq, C: c, X: x})
	return err
}

func (t *tap) ReportQualities(ctx context.Context, cid uuid.UUID, m *protocol.ReportQualities) error {
	return t.report(ctx, cid, m, func() error { return t.inner.ReportQualities(ctx, cid, m) })
}
func (t *tap) ReportProof(ctx context.Context, cid uuid.UUID, m *protocol.ReportProof) error {
	return t.report(ctx, cid, m, func() error { return t.inner.ReportProof(ctx, cid, m) })
}
func (t *tap) ReportSignature(ctx context.Context, cid uuid.UUID, m *protocol.ReportSignature) error {
	return t.report(ctx, cid, m, func() error { return t.inner.ReportSignature(ctx, cid, m) })
}

func (t *tap) Subscribe(ctx context.Context, c fractal.Collector) {
	tag := c.ID().String()
	link := t.linkFor(tag, true)
	call := t.r.log.newCall()
	t.r.openTapCall(call, "Subscribe", link)
	t.r.log.add(Ev{K: "sub.call", N: link, Tag: tag, C: call, X: t.at})
	t.inner.Subscribe(ctx, c)
	t.r.log.add(Ev{K: "sub.ret", N: link, Tag: tag, C: call, X: t.at})
	t.r.closeTapCall(call)
}

func (t *tap) Unsubscribe(ctx context.Context, c fractal.Collector) {
	tag := c.ID().String()
	link := t.linkFor(tag, false)
	call := t.r.log.newCall()
	t.r.openTapCall(call, "Unsubscribe", link)
	t.r.log.add(Ev{K: "unsub.call", N: link, Tag: tag, C: call, X: t.at})
	t.inner.Unsubscribe(ctx, c)
	t.r.log.add(Ev{K: "unsub.ret", N: link, Tag: tag, C: call, X: t.at})
	t.r.closeTapCall(call)
}

// ---------------------------------------------------------------- TCP proxy with fault injection

type pconn struct {
	a, b   net.Conn // a: towards the dialling side (collector/relay), b: towards the pool
	closed int32
}

type proxy struct {
	ln      net.Listener
	target  string
	mu      sync.Mutex
	conns   []*pconn
	stalled int32
	unstall chan struct{}
	done    int32
	accepts int32
}

func newProxy(target string) (*proxy, error) {
	ln, err := net.Listen("tcp", "127.0.0.1:0")
	if err != nil {
		return nil, err
	}
	p := &proxy{ln: ln, target: target, unstall: make(chan struct{})}
	go p.acceptLoop()
	return p, nil
}

func (p *proxy) addr() string { return p.ln.Addr().String() }

func (p *proxy) acceptLoop() {
	for {
		a, err := p.ln.Accept()
		if err != nil {
			return
		}
		b, err := net.DialTimeout("tcp", p.target, 5*time.Second)
		if err != nil {
			a.Close()
			continue
		}
		atomic.AddInt32(&p.accepts, 1)
		pc := &pconn{a: a, b: b}
		p.mu.Lock()
		p.conns = append(p.conns, pc)
		p.mu.Unlock()
		go p.pump(pc, a, b)
		go p.pump(pc, b, a)
	}
}

func (p *proxy) pump(pc *pconn, from, to net.Conn) {
	buf := make([]byte, 32<<10)
	for {
		n, err := from.Read(buf)
		if n > 0 {
			for atomic.LoadInt32(&p.stalled) == 1 {
				p.mu.Lock()
				ch := p.unstall
				p.mu.Unlock()
				select {
				case <-ch:
				case <-time.After(50 * time.Millisecond):
				}
				if atomic.LoadInt32(&pc.closed) == 1 {
					return
				}
			}
			if _, werr := to.Write(buf[:n]); werr != nil {
				err = werr
			}
		}
		if err != nil {
			// one side ended by itself: propagate the end to the other side
			if atomic.CompareAndSwapInt32(&pc.closed, 0, 1) {
				from.Close()
				to.Close()
			}
			return
		}
	}
}

// drop closes the current connections abruptly. side: "client" (towards the dialling node first),
// "server" (towards the pool first) or "both"; rst: reset instead of orderly FIN.
func (p *proxy) drop(side string, rst bool, gap time.Duration) int {
	p.mu.Lock()
	cs := p.conns
	p.conns = nil
	p.mu.Unlock()
	n := 0
	for _, pc := range cs {
		if !atomic.CompareAndSwapInt32(&pc.closed, 0, 1) {
			continue
		}
		n++
		first, second := pc.a, pc.b
		if side == "server" {
			first, second = pc.b, pc.a
		}
		if rst {
			if tc, ok := first.(*net.TCPConn); ok {
				tc.SetLinger(0)
			}
			if tc, ok := second.(*net.TCPConn); ok {
				tc.SetLinger(0)
			}
		}
		first.Close()
		if side != "both" && gap > 0 {
			time.Sleep(gap)
		}
		second.Close()
	}
	return n
}

func (p *proxy) stall(d time.Duration) {
	p.mu.Lock()
	p.unstall = make(chan struct{})
	ch := p.unstall
	p.mu.Unlock()
	atomic.StoreInt32(&p.stalled, 1)
	time.AfterFunc(d, func() {
		atomic.StoreInt32(&p.stalled, 0)
		close(ch)
	})
}

func (p *proxy) close() {
	if atomic.CompareAndSwapInt32(&p.done, 0, 1) {
		p.ln.Close()
		atomic.StoreInt32(&p.stalled, 0)
		p.drop("both", true, 0)
	}
}

// ---------------------------------------------------------------- nodes

type node struct {
	name   string
	relay  bool   // relay (PRS + pool) or collector
	parent string // "top" or the name of the relay it hangs below
	remote bool   // reaches its parent over TCP (own PRS + proxy)

	keeper   *keeper
	lc       *fractal.LocalCollector
	stopLC   context.CancelFunc
	lcTap    *tap
	prs      *fractal.PersistentRemoteSuperior
	stopPRS  context.CancelFunc
	px       *proxy
	pool     *fractal.CollectorPool
	stopPool context.CancelFunc
	poolAddr string
	poolTap  *tap

	// the driver's view (only used to choose victims/targets, never by the oracle)
	dead    bool   // no longer expected to answer
	connTag string // tag of this node's own connection link as registered by the parent's pool
	late    bool
}

func poolListenAddr(p *fractal.CollectorPool) string {
	v := reflect.ValueOf(p).Elem().FieldByName("listener")
	l := (*fractal.Listener)(unsafe.Pointer(v.Pointer()))
	return l.Addr().String()
}

// kickAccept unblocks a pool's Accept loop after its context was cancelled (clean-up only).
func kickAccept(addr string) {
	if c, err := net.DialTimeout("tcp", addr, time.Second); err == nil {
		c.Close()
	}
}

const setupWait = 20 * time.Second

// parentTap returns the tap that the parent's pool uses (where this node's connection registers).
func (r *scenRun) parentPool(n *node) (*tap, string) {
	if n.parent == "top" {
		return r.topTap, r.topAddr
	}
	pr := r.node(n.parent)
	return pr.poolTap, pr.poolAddr
}

// parentSuperior returns the Superior an in-process collector below `parent` subscribes to.
func (r *scenRun) parentSuperior(parent string) fractal.Superior {
	if parent == "top" {
		return r.ls
	}
	return r.node(parent).prs
}

// connectUp gives a remote node its proxy and PersistentRemoteSuperior and waits until the parent's
// pool registered the connection (Subscribe of the pool-side RemoteCollector returned).
func (r *scenRun) connectUp(n *node) error {
	ptap, paddr := r.parentPool(n)
	if ptap == nil {
		return fmt.Errorf("parent of %s has no pool", n.name)
	}
	px, err := newProxy(paddr)
	if err != nil {
		return err
	}
	n.px = px
	ptap.expect(n.name)
	prs, stop, err := fractal.NewPersistentRemoteSuperior(r.ctx, connection.DialAddress(px.addr()), connection.DialTimeout(5*time.Second))
	if err != nil {
		return fmt.Errorf("NewPersistentRemoteSuperior(%s): %v", n.name, err)
	}
	n.prs, n.stopPRS = prs, stop
	if !ptap.waitSubN("conn:"+n.name, 1, setupWait) {
		return fmt.Errorf("connection of %s was not registered by the pool within %v", n.name, setupWait)
	}
	return nil
}

func (r *scenRun) newKeeper(name string, nspaces int) *keeper {
	k := &keeper{node: name, r: r, poolPK: r.poolPK}
	for j := 0; j < nspaces; j++ {
		sid := fmt.Sprintf("s%d/%s/%d", r.sc.Idx, name, j)
		seed := sha256.Sum256([]byte(fmt.Sprintf("c17-key|%d|%s", r.seed, sid)))
		sk, err := chiapos.KeyGen(chiapos.SchemeMPLAug, seed[:])
		if err != nil {
			panic("KeyGen: " + err.Error())
		}
		pk, err := sk.GetG1()
		if err != nil {
			panic("GetG1: " + err.Error())
		}
		k.spaces = append(k.spaces, &space{sid: sid, sk: sk, pk: pk, plotID: sha256.Sum256([]byte("plot|" + sid))})
	}
	return k
}

// addCollector builds one collector node (in-process or remote) below parent and waits until all its
// links are registered. wait=false starts it without waiting (late subscription under a running task).
func (r *scenRun) addCollector(name, parent string, remote bool, nspaces int, wait bool) (*node, error) {
	n := &node{name: name, parent: parent, remote: remote}
	n.keeper = r.newKeeper(name, nspaces)
	r.mu.Lock()
	r.nodes[name] = n
	r.order = append(r.order, name)
	r.mu.Unlock()
	var sup fractal.Superior
	at := parent
	if remote {
		if err := r.connectUp(n); err != nil {
			return n, err
		}
		sup, at = n.prs, name+".prs"
	} else {
		sup = r.parentSuperior(parent)
	}
	n.lcTap = newTap(r, sup, name, at)
	n.lc, n.stopLC = fractal.NewLocalCollector(r.ctx, n.lcTap, n.keeper)
	if wait && !n.lcTap.waitSubN("lc:"+name, 1, setupWait) {
		return n, fmt.Errorf("collector %s did not finish subscribing within %v", name, setupWait)
	}
	return n, nil
}

// addRelay builds a relay the way /repo/fractal.go does: PersistentRemoteSuperior towards the parent
// pool, then a CollectorPool in front of it.
func (r *scenRun) addRelay(name string) (*node, error) {
	n := &node{name: name, parent: "top", remote: true, relay: true}
	r.mu.Lock()
	r.nodes[name] = n
	r.order = append(r.order, name)
	r.mu.Unlock()
	if err := r.connectUp(n); err != nil {
		return n, err
	}
	n.poolTap = newTap(r, n.prs, "", name)
	pool, stop, err := fractal.NewCollectorPool(r.ctx, n.poolTap, r.poolOpts()...)
	if err != nil {
		return n, err
	}
	n.pool, n.stopPool, n.poolAddr = pool, stop, poolListenAddr(pool)
	return n, nil
}
