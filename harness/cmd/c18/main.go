// c18: HD key derivation matches BIP32 and is self-consistent; mnemonics round-trip.
// Oracle: independent BIP32/BIP39 reference (internal/ref), validated at start-up
// against the published test vectors.
package main

import (
	"bytes"
	"crypto/hmac"
	"crypto/sha512"
	"encoding/binary"
	"encoding/hex"
	"fmt"
	"math/big"
	"os"
	"path/filepath"
	"strings"
	"sync"

	"massnet.org/mass/config"
	"massnet.org/mass/poc/wallet/keystore"
	"massnet.org/mass/poc/wallet/keystore/hdkeychain"
	"massnet.org/mass/poc/wallet/keystore/wordlists"
	"verif/harness/internal/ref"
	"verif/harness/internal/vh"
	"verif/harness/internal/wl"
)

const H = uint32(0x80000000)

type vec struct {
	seed string
	path []uint32
	xprv []string // xprv at each prefix of path (len(path)+1)
}

var bip32Vectors = []vec{
	{"000102030405060708090a0b0c0d0e0f", []uint32{H, 1, 2 + H, 2, 1000000000}, []string{
		"xprv9s21ZrQH143K3QTDL4LXw2F7HEK3wJUD2nW2nRk4stbPy6cq3jPPqjiChkVvvNKmPGJxWUtg6LnF5kejMRNNU3TGtRBeJgk33yuGBxrMPHi",
		"xprv9uHRZZhk6KAJC1avXpDAp4MDc3sQKNxDiPvvkX8Br5ngLNv1TxvUxt4cV1rGL5hj6KCesnDYUhd7oWgT11eZG7XnxHrnYeSvkzY7d2bhkJ7",
		"xprv9wTYmMFdV23N2TdNG573QoEsfRrWKQgWeibmLntzniatZvR9BmLnvSxqu53Kw1UmYPxLgboyZQaXwTCg8MSY3H2EU4pWcQDnRnrVA1xe8fs",
		"xprv9z4pot5VBttmtdRTWfWQmoH1taj2axGVzFqSb8C9xaxKymcFzXBDptWmT7FwuEzG3ryjH4ktypQSAewRiNMjANTtpgP4mLTj34bhnZX7UiM",
		"xprvA2JDeKCSNNZky6uBCviVfJSKyQ1mDYahRjijr5idH2WwLsEd4Hsb2Tyh8RfQMuPh7f7RtyzTtdrbdqqsunu5Mm3wDvUAKRHSC34sJ7in334",
		"xprvA41z7zogVVwxVSgdKUHDy1SKmdb533PjDz7J6N6mV6uS3ze1ai8FHa8kmHScGpWmj4WggLyQjgPie1rFSruoUihUZREPSL39UNdE3BBDu76"}},
	{"fffcf9f6f3f0edeae7e4e1dedbd8d5d2cfccc9c6c3c0bdbab7b4b1aeaba8a5a29f9c999693908d8a8784817e7b7875726f6c696663605d5a5754514e4b484542", []uint32{0, 2147483647 + H, 1, 2147483646 + H, 2}, []string{
		"xprv9s21ZrQH143K31xYSDQpPDxsXRTUcvj2iNHm5NUtrGiGG5e2DtALGdso3pGz6ssrdK4PFmM8NSpSBHNqPqm55Qn3LqFtT2emdEXVYsCzC2U",
		"xprv9vHkqa6EV4sPZHYqZznhT2NPtPCjKuDKGY38FBWLvgaDx45zo9WQRUT3dKYnjwih2yJD9mkrocEZXo1ex8G81dwSM1fwqWpWkeS3v86pgKt",
		"xprv9wSp6B7kry3Vj9m1zSnLvN3xH8RdsPP1Mh7fAaR7aRLcQMKTR2vidYEeEg2mUCTAwCd6vnxVrcjfy2kRgVsFawNzmjuHc2YmYRmagcEPdU9",
		"xprv9zFnWC6h2cLgpmSA46vutJzBcfJ8yaJGg8cX1e5StJh45BBciYTRXSd25UEPVuesF9yog62tGAQtHjXajPPdbRCHuWS6T8XA2ECKADdw4Ef",
		"xprvA1RpRA33e1JQ7ifknakTFpgNXPmW2YvmhqLQYMmrj4xJXXWYpDPS3xz7iAxn8L39njGVyuoseXzU6rcxFLJ8HFsTjSyQbLYnMpCqE2VbFWc",
		"xprvA2nrNbFZABcdryreWet9Ea4LvTJcGsqrMzxHx98MMrotbir7yrKCEXw7nadnHM8Dq38EGfSh6dqA9QWTyefMLEcBYJUuekgW4BYPJcr9E7j"}},
	{"4b381541583be4423346c643850da4b320e46a87ae3d2a4e6da11eba819cd4acba45d239319ac14f863b8d5ab5a0d0c64d2e8a1e7d1457df2e5a3c51c73235be", []uint32{H}, []string{
		"xprv9s21ZrQH143K25QhxbucbDDuQ4naNntJRi4KUfWT7xo4EKsHt2QJDu7KXp1A3u7Bi1j8ph3EGsZ9Xvz9dGuVrtHHs7pXeTzjuxBrCmmhgC6",
		"xprv9uPDJpEQgRQfDcW7BkF7eTya6RPxXeJCqCJGHuCJ4GiRVLzkTXBAJMu2qaMWPrS7AANYqdq6vcBcBUdJCVVFceUvJFjaPdGZ2y9WACViL4L"}},
	{"3ddd5602285899a946114506157c7997e5444528f3003f6134712147db19b678", []uint32{H, 1 + H}, []string{
		"xprv9s21ZrQH143K48vGoLGRPxgo2JNkJ3J3fqkirQC2zVdk5Dgd5w14S7fRDyHH4dWNHUgkvsvNDCkvAwcSHNAQwhwgNMgZhLtQC63zxwhQmRv",
		"xprv9vB7xEWwNp9kh1wQRfCCQMnZUEG21LpbR9NPCNN1dwhiZkjjeGRnaALmPXCX7SgjFTiCTT6bXes17boXtjq3xLpcDjzEuGLQBM5ohqkao9G",
		"xprv9xJocDuwtYCMNAo3Zw76WENQeAS6WGXQ55RCy7tDJ8oALr4FWkuVoHJeHVAcAqiZLE7Je3vZJHxspZdFHfnBEjHqU5hG1Jaj32dVoS6XLT1"}},
}

var bip39Vectors = [][2]string{
	{"00000000000000000000000000000000", "abandon abandon abandon abandon abandon abandon abandon abandon abandon abandon abandon about"},
	{"7f7f7f7f7f7f7f7f7f7f7f7f7f7f7f7f", "legal winner thank year wave sausage worth useful legal winner thank yellow"},
	{"80808080808080808080808080808080", "letter advice cage absurd amount doctor acoustic avoid letter advice cage above"},
	{"ffffffffffffffffffffffffffffffff", "zoo zoo zoo zoo zoo zoo zoo zoo zoo zoo zoo wrong"},
	{"000000000000000000000000000000000000000000000000", strings.Repeat("abandon ", 17) + "agent"},
	{"ffffffffffffffffffffffffffffffffffffffffffffffff", strings.Repeat("zoo ", 17) + "when"},
	{"0000000000000000000000000000000000000000000000000000000000000000", strings.Repeat("abandon ", 23) + "art"},
	{"ffffffffffffffffffffffffffffffffffffffffffffffffffffffffffffffff", strings.Repeat("zoo ", 23) + "vote"},
}

// validateRef checks the reference itself against published vectors. Returns "" if fine.
func validateRef() string {
	for vi, v := range bip32Vectors {
		seed, _ := hex.DecodeString(v.seed)
		k, err := ref.Master(seed)
		if err != nil {
			return "ref master failed"
		}
		for i := 0; ; i++ {
			want, _, err := ref.ParseXKey(v.xprv[i])
			if err != nil {
				return fmt.Sprintf("vector %d/%d does not parse: %v", vi+1, i, err)
			}
			if !k.Equal(want) {
				return fmt.Sprintf("reference disagrees with published BIP32 vector %d at depth %d", vi+1, i)
			}
			if i == len(v.path) {
				break
			}
			if k, err = k.Child(v.path[i]); err != nil {
				return "ref child failed"
			}
		}
	}
	for _, v := range bip39Vectors {
		e, _ := hex.DecodeString(v[0])
		m, err := ref.Mnemonic(e, wordlists.English)
		if err != nil || m != v[1] {
			return "reference disagrees with published BIP39 vector " + v[0]
		}
		back, err := ref.Entropy(v[1], wordlists.English)
		if err != nil || !bytes.Equal(back, e) {
			return "reference BIP39 decode disagrees with vector " + v[0]
		}
	}
	return ""
}

// fromImpl converts an hdkeychain key into canonical reference form via its own serialisation.
func fromImpl(k *hdkeychain.ExtendedKey) (ref.XKey, error) {
	x, _, err := ref.ParseXKey(k.String())
	return x, err
}

// defectChild computes what the pinned implementation's known defect yields for a hardened child
// of a parent whose in-memory scalar raw is shorter than 32 bytes: HMAC data = 0x00 || raw || 0-padding.
func defectChild(parent ref.XKey, raw []byte, i uint32) (ref.XKey, error) {
	data := make([]byte, 37)
	copy(data[1:], raw)
	binary.BigEndian.PutUint32(data[33:], i)
	m := hmac.New(sha512.New, parent.Chain)
	m.Write(data)
	I := m.Sum(nil)
	il := new(big.Int).SetBytes(I[:32])
	if il.Cmp(ref.N) >= 0 || il.Sign() == 0 {
		return ref.XKey{}, ref.ErrInvalidChild
	}
	s := new(big.Int).Add(il, new(big.Int).SetBytes(parent.Key))
	s.Mod(s, ref.N)
	c := ref.XKey{Private: true, Chain: I[32:], Depth: parent.Depth + 1, ChildNum: i, Key: make([]byte, 32)}
	s.FillBytes(c.Key)
	pc, err := parent.Child(i ^ 0x80000000) // parent fingerprint is the same for every child
	if err != nil {
		return ref.XKey{}, err
	}
	c.ParentFP = pc.ParentFP
	return c, nil
}

// rawKeyLen is the length of the in-memory private scalar (may be < 32: the known defect's trigger).
func rawKeyLen(k *hdkeychain.ExtendedKey) int {
	if !k.IsPrivate() {
		return 33
	}
	b, _ := k.PrivKey()
	return len(b)
}

type ctx struct {
	run  *vh.Run
	ci   int
	seed []byte
	path []uint32
}

func (c *ctx) attrs(class string) map[string]string { return map[string]string{"class": class} }

func (c *ctx) detail(extra map[string]interface{}) map[string]interface{} {
	d := map[string]interface{}{"seed_hex": hex.EncodeToString(c.seed), "path": fmt.Sprint(c.path)}
	for k, v := range extra {
		d[k] = v
	}
	return d
}

// checkNode runs every per-node oracle on implementation key k (reached via c.path).
func checkNode(c *ctx, k *hdkeychain.ExtendedKey, rng *vh.Rng, children []uint32) {
	run := c.run
	xk, err := fromImpl(k)
	if err != nil {
		run.Violate(c.ci, "serialise-unparseable", c.attrs("string"), c.detail(map[string]interface{}{"err": err.Error(), "str": k.String()}))
		return
	}
	short := k.IsPrivate() && rawKeyLen(k) < 32
	if short {
		run.Count("nodes_with_short_private_scalar", 1)
	}
	// (1) serialise / parse: the parsed key must be the same key ...
	k2, err := hdkeychain.NewKeyFromString(k.String())
	if err != nil {
		run.Violate(c.ci, "string-roundtrip-rejected", c.attrs("string"), c.detail(map[string]interface{}{"err": err.Error()}))
		return
	}
	if k2.String() != k.String() {
		run.Violate(c.ci, "string-roundtrip-changed-key", c.attrs("string"), c.detail(nil))
	}
	for _, i := range children {
		hard := i >= H
		if hard && !k.IsPrivate() {
			if _, err := k.Child(i); err == nil {
				run.Violate(c.ci, "hardened-from-public-accepted", c.attrs("hardened-public"), c.detail(map[string]interface{}{"child": i}))
			}
			run.Count("hardened_from_public_rejected", 1)
			continue
		}
		want, werr := xk.Child(i)
		got, gerr := k.Child(i)
		run.Count("child_derivations_compared", 1)
		if werr != nil || gerr != nil {
			if (werr != nil) != (gerr != nil) {
				run.Violate(c.ci, "child-error-mismatch", c.attrs("error"), c.detail(map[string]interface{}{"child": i, "ref_err": fmt.Sprint(werr), "impl_err": fmt.Sprint(gerr)}))
			}
			continue
		}
		class := "normal-child"
		if hard {
			class = "hardened-child"
			if short {
				// The known defect has one precise shape: the HMAC input holds the parent scalar
				// left-aligned (minimal-length bytes followed by zero padding) instead of ser256.
				// Only a child equal to exactly that value is attributed to it.
				class = "hardened-child-of-short-parent:other"
				raw, _ := k.PrivKey()
				if dc, derr := defectChild(xk, raw, i); derr == nil {
					if gx, e := fromImpl(got); e == nil && gx.Equal(dc) {
						class = "hardened-child-of-parent-scalar-below-2^248:left-aligned-hmac-input"
					}
				}
			}
		} else if short {
			class = "normal-child-of-short-parent"
		}
		gx, err := fromImpl(got)
		if err != nil || !gx.Equal(want) {
			run.Violate(c.ci, "bip32-child-mismatch", c.attrs(class), c.detail(map[string]interface{}{
				"child": i, "parent": k.String(), "impl_child": got.String(), "ref_child_key": hex.EncodeToString(want.Key), "ref_child_chain": hex.EncodeToString(want.Chain)}))
		}
		switch class {
		case "hardened-child":
			run.Count("hardened_children_ok_domain", 1)
		case "hardened-child-of-parent-scalar-below-2^248:left-aligned-hmac-input", "hardened-child-of-short-parent:other":
			run.Count("hardened_children_of_short_parent", 1)
		case "normal-child-of-short-parent":
			run.Count("normal_children_of_short_parent", 1)
		}
		// (2) string round trip derives the same children
		got2, err2 := k2.Child(i)
		if err2 != nil || got2.String() != got.String() {
			rclass := class
			if strings.HasSuffix(class, ":left-aligned-hmac-input") {
				// known shape only if the parsed key derives the BIP32-correct child
				if g2x, e := fromImpl(got2); err2 != nil || e != nil || !g2x.Equal(want) {
					rclass = "hardened-child-of-short-parent:other"
				}
			}
			run.Violate(c.ci, "string-roundtrip-children-differ", c.attrs(rclass), c.detail(map[string]interface{}{
				"child": i, "parent": k.String(), "child_of_original": got.String(), "child_of_parsed": fmt.Sprint(got2), "err": fmt.Sprint(err2)}))
		}
		// (3) public derivation == neutered private derivation
		if !hard && k.IsPrivate() {
			pubParent, err := k.Neuter()
			if err != nil {
				run.Violate(c.ci, "neuter-failed", c.attrs("neuter"), c.detail(nil))
				continue
			}
			viaPub, e1 := pubParent.Child(i)
			viaPriv, e2 := got.Neuter()
			run.Count("pub_priv_consistency_checked", 1)
			if e1 != nil || e2 != nil || viaPub.String() != viaPriv.String() {
				run.Violate(c.ci, "pub-priv-derivation-mismatch", c.attrs(class), c.detail(map[string]interface{}{"child": i, "parent": k.String()}))
			} else {
				// the neutered key must also carry the public key of the private scalar
				wp := want.Neuter()
				vx, err := fromImpl(viaPub)
				if err != nil || !vx.Equal(wp) {
					run.Violate(c.ci, "bip32-public-child-mismatch", c.attrs(class), c.detail(map[string]interface{}{"child": i, "parent": k.String()}))
				}
			}
		}
	}
	checkZeroIsolated(c, k, children)
}

// checkZeroIsolated: wiping one derived key (the wallet wipes every intermediate key it no longer needs) must not change
// any other key object: a sibling derived earlier still serialises as before, and deriving it again gives the same key.
func checkZeroIsolated(c *ctx, k *hdkeychain.ExtendedKey, children []uint32) {
	var usable []uint32
	for _, i := range children {
		if i < H || k.IsPrivate() {
			usable = append(usable, i)
		}
	}
	if len(usable) < 2 {
		return
	}
	a, errA := k.Child(usable[0])
	b, errB := k.Child(usable[1])
	if errA != nil || errB != nil {
		return
	}
	before, parentBefore := a.String(), k.String()
	b.Zero()
	c.run.Count("sibling_keys_wiped", 1)
	if after := a.String(); after != before {
		c.run.Violate(c.ci, "key-changed-by-wiping-another-key", c.attrs("sibling"), c.detail(map[string]interface{}{"parent": parentBefore, "kept_child": usable[0], "wiped_child": usable[1], "before": before, "after": after}))
		return
	}
	if k.String() != parentBefore {
		c.run.Violate(c.ci, "key-changed-by-wiping-another-key", c.attrs("parent"), c.detail(map[string]interface{}{"parent": parentBefore, "wiped_child": usable[1], "after": k.String()}))
		return
	}
	if a2, err := k.Child(usable[0]); err != nil || a2.String() != before {
		c.run.Violate(c.ci, "key-changed-by-wiping-another-key", c.attrs("derived-again"), c.detail(map[string]interface{}{"parent": parentBefore, "child": usable[0], "wiped_child": usable[1], "before": before, "after": fmt.Sprint(a2), "err": fmt.Sprint(err)}))
	}
}

func randIndex(rng *vh.Rng) uint32 {
	switch rng.Intn(8) {
	case 0:
		return 0
	case 1:
		return H
	case 2:
		return H - 1
	case 3:
		return 0xffffffff
	case 4:
		return uint32(rng.Intn(5))
	case 5:
		return H + uint32(rng.Intn(5))
	default:
		return rng.Uint32()
	}
}

// searchShortChild looks for a child index (hardened or not, as asked) whose private scalar has a leading zero byte.
func searchShortChild(k *hdkeychain.ExtendedKey, hard bool, start uint32, tries int) (uint32, *hdkeychain.ExtendedKey) {
	for t := 0; t < tries; t++ {
		i := start + uint32(t)
		if hard {
			i |= H
		} else {
			i &^= H
		}
		c, err := k.Child(i)
		if err != nil {
			continue
		}
		if rawKeyLen(c) < 32 {
			return i, c
		}
	}
	return 0, nil
}

var scopePurposes = []uint32{0, 1, 43, 45, 49, 84, 0x7fffffff, 44}

func scopeCases(run *vh.Run, root *vh.Rng, base, n int) {
	for i, p := range scopePurposes {
		keystore.Net2KeyScope[uint32(9000+i)] = keystore.KeyScope{Purpose: p, Coin: uint32(9000 + i)}
	}
	wl.Setup(filepath.Join(run.Scratch, "log"), "error")
	for si := 0; si < n; si++ {
		ci := base + si
		if !run.Want(ci) {
			continue
		}
		rng := root.Derive("scope", si)
		pi := si % len(scopePurposes)
		purpose, coin := scopePurposes[pi], uint32(9000+pi)
		params := *config.ChainParams
		params.HDCoinType = coin
		seed := rng.Bytes(32)
		dir := filepath.Join(run.Scratch, fmt.Sprintf("scope-%d", si))
		func() {
			defer os.RemoveAll(dir)
			w, err := wl.Create(filepath.Join(dir, "keystore"), wl.FreshPass(rng), nil)
			if err != nil {
				run.Drop("cannot create wallet store")
				return
			}
			defer w.Close()
			id, err := w.M.NewKeystore(wl.FreshPass(rng), seed, "scoped", &params, wl.FastScrypt)
			if err != nil {
				run.Drop("keystore under a registered scope refused: " + err.Error())
				return
			}
			m, err := ref.Master(seed)
			if err != nil {
				run.Drop("reference rejects the seed")
				return
			}
			// acct: the BIP32 account key. acctDefect: what the listed finding (a hardened child of a DERIVED parent
			// whose scalar has a leading zero byte is computed from the left-aligned scalar) makes of the same path,
			// if one of the two derived parents on it (m/p', m/p'/c') is such a key.
			acct, acctDefect, onDefectPath := m, m, false
			for depth, idx := range []uint32{purpose + H, coin + H, 0 + H} {
				parentD := acctDefect
				if acct, err = acct.Child(idx); err != nil {
					run.Drop("reference cannot derive the account key")
					return
				}
				if depth > 0 && parentD.Key[0] == 0 {
					raw := bytes.TrimLeft(parentD.Key, "\x00")
					if acctDefect, err = defectChild(parentD, raw, idx); err != nil {
						run.Drop("reference cannot derive the account key")
						return
					}
					onDefectPath = true
				} else if acctDefect, err = parentD.Child(idx); err != nil {
					run.Drop("reference cannot derive the account key")
					return
				}
			}
			if onDefectPath {
				run.Count("scoped_keystores_with_short_derived_parent_on_the_path", 1)
			}
			at := map[string]string{"class": "keystore-scope", "purpose_is_44": fmt.Sprint(purpose == 44)}
			for br := uint32(0); br < 2; br++ {
				nk := rng.Range(1, 3)
				mas, err := w.M.NextAddresses(id, br == 1, uint32(nk))
				if err != nil {
					run.Violate(ci, "scoped-keystore-cannot-issue-keys", at, map[string]interface{}{"seed_hex": hex.EncodeToString(seed), "purpose": purpose, "coin": coin, "err": err.Error()})
					return
				}
				brKey, _ := acct.Child(br)
				for j, ma := range mas {
					want, _ := brKey.Child(uint32(j))
					got := hex.EncodeToString(ma.PubKey().SerializeCompressed())
					run.Count("scoped_keystore_keys_compared", 1)
					if got != hex.EncodeToString(want.Pub()) {
						if onDefectPath {
							if dbr, e1 := acctDefect.Child(br); e1 == nil {
								if dk, e2 := dbr.Child(uint32(j)); e2 == nil && got == hex.EncodeToString(dk.Pub()) {
									// exactly the listed finding, reached through the wallet
									run.Violate(ci, "bip32-child-mismatch", map[string]string{"class": "hardened-child-of-parent-scalar-below-2^248:left-aligned-hmac-input"},
										map[string]interface{}{"seed_hex": hex.EncodeToString(seed), "path": fmt.Sprintf("m/%d'/%d'/0'/%d/%d", purpose, coin, br, j), "impl_pub": got,
											"reference_pub": hex.EncodeToString(want.Pub()), "via": "keystore created under a registered scope"})
									return
								}
							}
						}
						run.Violate(ci, "keystore-key-differs-from-bip32-path", at, map[string]interface{}{"seed_hex": hex.EncodeToString(seed),
							"path": fmt.Sprintf("m/%d'/%d'/0'/%d/%d", purpose, coin, br, j), "impl_pub": got, "reference_pub": hex.EncodeToString(want.Pub())})
						return
					}
				}
			}
			run.Case(vh.HashS(fmt.Sprintf("scope-%d-%x", purpose, seed)), true)
		}()
	}
}

func main() {
	run := vh.NewRun("C18", "exploration")
	if msg := validateRef(); msg != "" {
		run.Inconclusive("reference self-check failed: " + msg)
		run.Finish("n/a", 0)
	}
	run.Assume("internal/ref BIP32/BIP39 reference, validated at start-up against published BIP32 vectors 1-4 and 8 BIP39 English vectors")
	root := run.Rng()
	net := config.ChainParams

	// literal vectors through the implementation (vector 3 and 4 are the published leading-zero cases)
	for vi, v := range bip32Vectors {
		if !run.Want(vi) {
			continue
		}
		seed, _ := hex.DecodeString(v.seed)
		c := &ctx{run: run, ci: vi, seed: seed}
		k, err := hdkeychain.NewMaster(seed, net)
		if err != nil {
			run.Violate(vi, "master-failed", c.attrs("master"), c.detail(nil))
			continue
		}
		for i := 0; i <= len(v.path); i++ {
			want, _, _ := ref.ParseXKey(v.xprv[i])
			gx, err := fromImpl(k)
			if err != nil || !gx.Equal(want) {
				class := "vector"
				// the literal vector path is cumulative: classify by whether an ancestor step was hardened-from-short
				run.Violate(vi, "bip32-vector-mismatch", map[string]string{"class": class, "vector": fmt.Sprint(vi + 1), "depth": fmt.Sprint(i)}, c.detail(map[string]interface{}{"impl": k.String(), "published": v.xprv[i]}))
			}
			run.Count("vector_nodes_compared", 1)
			if i == len(v.path) {
				break
			}
			c.path = append(c.path, v.path[i])
			checkNode(c, k, root, []uint32{v.path[i]})
			k, err = k.Child(v.path[i])
			if err != nil {
				break
			}
		}
		run.Case(vh.HashS("vector", v.seed), true)
	}

	nSeeds := run.N(400, 20000)
	base := len(bip32Vectors)
	vh.Parallel(nSeeds, 16, func(si int) {
		ci := base + si
		if !run.Want(ci) {
			return
		}
		rng := root.Derive("seed", si)
		// seed lengths cover every length 16..64 cyclically
		slen := 16 + si%49
		seed := rng.Bytes(slen)
		wantShortMaster := si%5 == 0
		if wantShortMaster {
			// search a seed whose master scalar has a leading zero byte
			for t := 0; t < 4096; t++ {
				m, err := ref.Master(seed)
				if err == nil && m.Key[0] == 0 {
					break
				}
				seed = rng.Bytes(slen)
			}
		}
		c := &ctx{run: run, ci: ci, seed: seed}
		k, err := hdkeychain.NewMaster(seed, net)
		wm, werr := ref.Master(seed)
		if err != nil || werr != nil {
			if (err != nil) != (werr != nil) {
				run.Violate(ci, "master-error-mismatch", c.attrs("master"), c.detail(nil))
			}
			return
		}
		gx, err := fromImpl(k)
		if err != nil || !gx.Equal(wm) {
			run.Violate(ci, "bip32-master-mismatch", c.attrs("master"), c.detail(map[string]interface{}{"impl": k.String()}))
			return
		}
		if wm.Key[0] == 0 {
			run.Count("masters_with_leading_zero", 1)
		}
		// choose a path
		var path []uint32
		switch si % 4 {
		case 0: // wallet path m/44'/coin'/account'/branch/index
			path = []uint32{44 + H, net.HDCoinType + H, uint32(rng.Intn(3)) + H, uint32(rng.Intn(2)), uint32(rng.Intn(50))}
		default:
			d := rng.Range(1, 6)
			for i := 0; i < d; i++ {
				path = append(path, randIndex(rng))
			}
		}
		nontrivial := false
		sawHard, sawNormal := false, false
		for depth := 0; depth <= len(path); depth++ {
			children := []uint32{randIndex(rng) &^ H, randIndex(rng) &^ H, uint32(rng.Intn(3)), randIndex(rng) | H, randIndex(rng) | H}
			if depth < len(path) {
				children = append(children, path[depth])
			}
			checkNode(c, k, rng, children)
			// every node: also the public side
			if pk, err := k.Neuter(); err == nil {
				cp := &ctx{run: run, ci: ci, seed: seed, path: append(append([]uint32{}, c.path...), 0xEEEEEEEE)}
				checkNode(cp, pk, rng, []uint32{children[0], children[2], children[3]})
			}
			// searched short child below this node, then its own children (hardened = known defect domain, normal must hold)
			if depth == len(path) || si%3 == 0 {
				if idx, sc := searchShortChild(k, rng.Bool(), rng.Uint32(), 1500); sc != nil {
					cs := &ctx{run: run, ci: ci, seed: seed, path: append(append([]uint32{}, c.path...), idx)}
					checkNode(cs, sc, rng, []uint32{0, 1, randIndex(rng) &^ H, H, randIndex(rng) | H})
					run.Count("searched_short_children", 1)
				}
			}
			if depth == len(path) {
				break
			}
			if path[depth] >= H {
				sawHard = true
			} else {
				sawNormal = true
			}
			nk, err := k.Child(path[depth])
			if err != nil {
				break
			}
			k = nk
			c.path = append(c.path, path[depth])
			nontrivial = true
		}
		if si%4 == 1 {
			// one key object used by several goroutines at once, read-only: normal children of the public key of the last
			// node and of the node itself once its public key has been computed (Neuter above): every child must be the
			// BIP32 child whatever the other goroutines derive meanwhile
			sharedParents := []*hdkeychain.ExtendedKey{k}
			if pk, err := k.Neuter(); err == nil {
				sharedParents = append(sharedParents, pk)
			}
			for _, parent := range sharedParents {
				wp, err := fromImpl(parent)
				if err != nil {
					continue
				}
				idx := make([]uint32, 24)
				for j := range idx {
					idx[j] = randIndex(rng) &^ H
				}
				got := make([]*hdkeychain.ExtendedKey, len(idx))
				var wg sync.WaitGroup
				for g := 0; g < 4; g++ {
					wg.Add(1)
					go func(g int) {
						defer wg.Done()
						defer func() {
							if r := recover(); r != nil {
								cc := &ctx{run: run, ci: ci, seed: seed, path: append([]uint32{}, c.path...)}
								run.Violate(ci, "derivation-panicked-under-concurrent-derivation", cc.attrs("shared-parent"), cc.detail(map[string]interface{}{"panic": fmt.Sprint(r), "parent_is_private": parent.IsPrivate(), "goroutines": 4}))
							}
						}()
						for r := 0; r < 8; r++ {
							for j := g; j < len(idx); j += 4 {
								if ck, err := parent.Child(idx[j]); err == nil && (got[j] == nil || r == 7) {
									got[j] = ck
								}
							}
						}
					}(g)
				}
				wg.Wait()
				for j, ck := range got {
					wc, werr := wp.Child(idx[j])
					if werr != nil || ck == nil {
						continue
					}
					run.Count("children_derived_from_a_shared_key_object", 1)
					if gc, err := fromImpl(ck); err != nil || !gc.Equal(wc) {
						cc := &ctx{run: run, ci: ci, seed: seed, path: append(append([]uint32{}, c.path...), idx[j])}
						run.Violate(ci, "bip32-child-mismatch-under-concurrent-derivation", cc.attrs("shared-parent"), cc.detail(map[string]interface{}{"impl": ck.String(), "parent_is_private": parent.IsPrivate(), "goroutines": 4}))
						break
					}
				}
			}
		}
		run.Case(vh.Hash64(seed, []byte(fmt.Sprint(path))), nontrivial && (sawHard || sawNormal))
		if si < 3 {
			run.Sample(map[string]interface{}{"seed_hex": hex.EncodeToString(seed), "path": fmt.Sprint(path)})
		}
	})

	// one chain to the maximum depth
	if run.Want(base + nSeeds) {
		ci := base + nSeeds
		rng := root.Derive("deep", 0)
		seed := rng.Bytes(32)
		c := &ctx{run: run, ci: ci, seed: seed}
		k, _ := hdkeychain.NewMaster(seed, net)
		for d := 0; d < 255 && k != nil; d++ {
			i := randIndex(rng)
			if d%2 == 0 {
				i &^= H
			}
			checkNode(c, k, rng, []uint32{i})
			nk, err := k.Child(i)
			if err != nil {
				i = 1
				nk, err = k.Child(i)
				if err != nil {
					break
				}
			}
			k = nk
			c.path = append(c.path, i)
		}
		if k != nil && k.Depth() == 255 {
			if _, err := k.Child(0); err == nil {
				run.Violate(ci, "derive-beyond-max-depth-accepted", c.attrs("depth"), c.detail(nil))
			}
			run.Count("max_depth_chain_reached", 1)
		}
		run.Case(vh.HashS("deep"), true)
	}

	// mnemonics
	nEnt := run.N(2000, 200000)
	ebase := base + nSeeds + 1
	vh.Parallel(nEnt, 16, func(ei int) {
		ci := ebase + ei
		if !run.Want(ci) {
			return
		}
		rng := root.Derive("entropy", ei)
		size := []int{16, 20, 24, 28, 32}[ei%5]
		ent := rng.Bytes(size)
		switch (ei / 5) % 8 {
		case 0:
			for i := 0; i < rng.Range(1, 4); i++ {
				ent[i] = 0
			}
		case 1:
			for i := 0; i < rng.Range(1, 4); i++ {
				ent[size-1-i] = 0
			}
		case 2:
			for i := range ent {
				ent[i] = 0
			}
		case 3:
			for i := range ent {
				ent[i] = 0xff
			}
		case 4:
			ent[0] = 0
			ent[1] = 0
			ent[2] = byte(rng.Intn(8))
		}
		det := map[string]interface{}{"entropy_hex": hex.EncodeToString(ent)}
		at := map[string]string{"class": "mnemonic", "size": fmt.Sprint(size)}
		want, _ := ref.Mnemonic(ent, wordlists.English)
		got, err := keystore.NewMnemonic(ent)
		if err != nil || got != want {
			det["impl"], det["ref"], det["err"] = got, want, fmt.Sprint(err)
			run.Violate(ci, "mnemonic-encode-mismatch", at, det)
			return
		}
		back, err := keystore.EntropyFromMnemonic(got)
		if err != nil || !bytes.Equal(back, ent) {
			det["back"], det["err"] = hex.EncodeToString(back), fmt.Sprint(err)
			run.Violate(ci, "mnemonic-roundtrip-mismatch", at, det)
		}
		raw, err := keystore.MnemonicToByteArray(got, true)
		if err != nil || !bytes.Equal(raw, ent) {
			det["raw"], det["err"] = hex.EncodeToString(raw), fmt.Sprint(err)
			run.Violate(ci, "mnemonic-bytearray-mismatch", at, det)
		}
		run.Count("entropies_roundtripped", 1)
		// the same sentence written with other white space between and around its words (pasted from a file, one word
		// per line, double blanks): a decoder that accepts it must return the entropy, and the two decoders must agree
		// on whether it is a sentence at all
		{
			ws := strings.Fields(got)
			sep := rng.PickS("  ", "\t", "\n", "\r\n", " \t ")
			var b strings.Builder
			if rng.Bool() {
				b.WriteString(rng.PickS(" ", "\n", "\t"))
			}
			for k, w := range ws {
				if k > 0 {
					if k == 1+rng.Intn(len(ws)-1) || rng.Chance(1, 3) {
						b.WriteString(sep)
					} else {
						b.WriteString(" ")
					}
				}
				b.WriteString(w)
			}
			if rng.Bool() {
				b.WriteString(rng.PickS(" ", "\n", "  "))
			}
			re := b.String()
			e1, err1 := keystore.EntropyFromMnemonic(re)
			e2, err2 := keystore.MnemonicToByteArray(re, true)
			run.Count("respelled_sentences_decoded", 1)
			d2 := map[string]interface{}{"entropy": hex.EncodeToString(ent), "sentence_quoted": fmt.Sprintf("%q", re), "EntropyFromMnemonic": fmt.Sprintf("%x %v", e1, err1), "MnemonicToByteArray": fmt.Sprintf("%x %v", e2, err2)}
			switch {
			case err1 == nil && !bytes.Equal(e1, ent), err2 == nil && !bytes.Equal(e2, ent):
				run.Violate(ci, "respelled-mnemonic-decoded-differently", at, d2)
			case (err1 == nil) != (err2 == nil):
				run.Violate(ci, "mnemonic-decoders-disagree-on-a-respelled-sentence", at, d2)
			}
		}
		// corrupted sentence: replace one word so that the checksum (per reference) is wrong, or use an unknown word
		words := strings.Fields(got)
		pos := rng.Intn(len(words))
		mut := append([]string{}, words...)
		kind := rng.Intn(3)
		switch kind {
		case 0:
			mut[pos] = wordlists.English[rng.Intn(2048)]
		case 1:
			mut[pos] = "notaword"
		case 2:
			mut = mut[:len(mut)-1]
		}
		ms := strings.Join(mut, " ")
		if _, rerr := ref.Entropy(ms, wordlists.English); rerr != nil {
			if e, err := keystore.EntropyFromMnemonic(ms); err == nil {
				det["mutated"], det["decoded"] = ms, hex.EncodeToString(e)
				run.Violate(ci, "corrupted-mnemonic-accepted", at, det)
			}
			if e, err := keystore.MnemonicToByteArray(ms, true); err == nil {
				det["mutated"], det["decoded"] = ms, hex.EncodeToString(e)
				run.Violate(ci, "corrupted-mnemonic-accepted-bytearray", at, det)
			}
			run.Count("corrupted_mnemonics_rejected_checked", 1)
		} else {
			// mutation happened to be a valid sentence: it must decode to what the reference says
			we, _ := ref.Entropy(ms, wordlists.English)
			if e, err := keystore.EntropyFromMnemonic(ms); err != nil || !bytes.Equal(e, we) {
				det["mutated"] = ms
				run.Violate(ci, "valid-mnemonic-decoded-differently", at, det)
			}
		}
		run.Case(vh.Hash64(ent), true)
		if ei < 2 {
			run.Sample(map[string]interface{}{"entropy_hex": hex.EncodeToString(ent), "mnemonic": got})
		}
	})

	// keystores under other key scopes: the wallet derives its account key through poc/wallet/keystore/hd.go
	// (m/purpose'/coin'/account'); the purpose and coin type come from the exported scope table, so other scopes
	// than the two built-in ones (both purpose 44) are registered here and whole keystores are compared with the
	// reference: m/purpose'/coin'/0'/branch/index for every issued key
	nScope := run.N(24, 400)
	sbase := ebase + nEnt
	scopeCases(run, root, sbase, nScope)

	if run.Only < 0 && run.Counter("hardened_children_of_short_parent") == 0 {
		run.Inconclusive("no hardened child of a short parent scalar was exercised")
	}
	run.Finish("cases = literal BIP32 vectors, seeded (seed,path) pairs with seeds of every length 16..64 (1/5 searched for a leading-zero master scalar) and searched leading-zero child scalars, one depth-255 chain, seeded entropies of the 5 sizes incl. zero-prefixed/suffixed/all-0/all-1; non-trivial = at least one derivation step compared with the reference; distinct by hash(seed,path) or hash(entropy)", run.N(300, 5000))
}
