// c19: the wallet bucket store behaves as a tree of isolated maps with atomic transactions.
//
// Technique: the REAL store (massnet.org/mass/poc/wallet/db over its leveldb backend) is driven by
// seeded adversarial operation sequences; every result and error class is compared with a reference
// model (nested Go maps + a working copy per write transaction: commit = adopt, rollback = drop),
// and after every commit, rollback and reopen the whole store is dumped through the public API
// (every bucket recursively, every key/value, BucketNames at every level) and compared with the model.
//
// 10 sequences share one store (opening is the dominant cost), each under its own top-level bucket names;
// the model of a store covers ALL sequences run in it, so the full dump also checks that a sequence
// never disturbs what earlier sequences left behind. Stores run in parallel. -only <case> runs that
// sequence alone in a fresh store and, if that is clean, again behind the earlier sequences of its store.
//
// Directed scenarios inside the random sequences (all ordinary, logged, fully judged API use): twin
// siblings whose names extend one another holding the same key; delete-then-recreate of a bucket; use of
// a handle after its bucket was deleted; read transactions while a write transaction is open; close with
// an open transaction; and, in the first sequence of every other store, a prologue of small transactions
// whose writes cancel out followed by one visible Put (found by the thorough tier: see prologue()).
//
// Violation kinds: result-mismatch, dump-mismatch, fresh-bucket-not-empty, panic, and two precisely
// shaped ones that let the sequence continue: stale-handle-write-resurrected (E9) and
// committed-state-misread-until-reopen (a dump after commit/rollback differs from the model, but agrees
// again once the store is closed and reopened: the data is on disk, the open store misreads it).
//
// Edge semantics the model adopts from the API (poc/wallet/db/db.go, ldb/leveldb.go, db_test.go),
// always as "rejected, no state change":
//
//	E1  bucket name invalid iff empty, longer than 256 bytes or containing "_": Create*/NewBucket ->
//	    ErrInvalidBucketName; TopLevelBucket/Bucket -> nil; DeleteBucket -> nil or ErrInvalidBucketName.
//	E2  NewBucket of an existing bucket -> ErrBucketExist. CreateTopLevelBucket of an existing bucket ->
//	    either ErrBucketExist or success returning the existing bucket with its content untouched.
//	E3  DeleteTopLevelBucket -> ErrNotSupported (top-level buckets are permanent).
//	E4  DeleteBucket of a missing bucket -> nil (or ErrBucketNotFound); of an existing one removes it with
//	    all keys and all nested buckets. Clear removes the bucket's own keys only, nested buckets stay.
//	E5  Put: empty/nil value -> ErrIllegalValue, empty key -> ErrIllegalKey (both empty: either error).
//	    Get/Delete with an empty key -> (nil, nil)/nil or ErrIllegalKey. Get of a missing key -> (nil, nil).
//	    GetByPrefix(empty) -> every entry of the bucket, keys returned without any internal prefix.
//	E6  every write method of a bucket obtained from a read transaction fails (ErrNotSupported or
//	    ErrWriteNotAllowed); a read transaction sees the last committed state, also while a write
//	    transaction is open.
//	E7  result order of GetByPrefix/BucketNames is not judged (compared as sorted multisets).
//	E8  a bucket handle designates a PATH (as BucketMeta does): FetchBucket(meta) and a handle kept while
//	    its bucket is deleted and re-created address whatever bucket lives at that path now.
//	E9  operations through a handle whose bucket does not exist (deleted earlier in the same tx) have no
//	    defined result: results are not compared. What IS judged: they never change any existing bucket
//	    (dump), and a bucket created later at that path starts empty. The one precise shape "keys Put
//	    through such a handle are the content of the re-created bucket" is reported under its own kind
//	    (stale-handle-write-resurrected) and the model then follows the store, so that the rest of the
//	    sequence is still judged. NewBucket through such a handle is not generated.
//	E10 closing the store with an open write transaction discards that transaction.
package main

import (
	"bytes"
	"fmt"
	"os"
	"path/filepath"
	"runtime/debug"
	"sort"
	"strconv"
	"strings"
	"sync"
	"time"

	"github.com/massnetorg/mass-core/logging"
	"massnet.org/mass/poc/wallet/db"
	_ "massnet.org/mass/poc/wallet/db/ldb" // registers the "leveldb" driver
	"verif/harness/internal/vh"
)

const (
	maxDepth = 5  // nesting depth of buckets (top level = 1)
	perStore = 10 // sequences sharing one store
	maxSlots = 12 // bucket handles kept per transaction
	notation = "hN/rN = bucket handles of the write/read tx, mN = saved BucketMeta; names and keys are Go-quoted, rep(s,n) = s repeated n times; v(L,0xFF) = value of L bytes with byte[i] = 0xFF+i mod 256; v(0) = empty slice, nil = nil slice; '// stale' = the handle's bucket does not exist at that moment"
)

// ------------------------------------------------------------------ reference model

type node struct {
	kv  map[string][]byte
	sub map[string]*node
}

func newNode() *node { return &node{kv: map[string][]byte{}, sub: map[string]*node{}} }

func (n *node) clone() *node {
	c := &node{kv: make(map[string][]byte, len(n.kv)), sub: make(map[string]*node, len(n.sub))}
	for k, v := range n.kv {
		c.kv[k] = v // values are never mutated in place
	}
	for k, s := range n.sub {
		c.sub[k] = s.clone()
	}
	return c
}

// state is one version of the whole store. orphan predicts what the path-addressed implementation
// keeps for keys written through handles of non-existent buckets (rule E9); it is never dumped.
type state struct {
	top    map[string]*node
	orphan map[string]map[string][]byte
}

func newState() *state {
	return &state{top: map[string]*node{}, orphan: map[string]map[string][]byte{}}
}

func (s *state) clone() *state {
	c := newState()
	for k, n := range s.top {
		c.top[k] = n.clone()
	}
	for p, m := range s.orphan {
		mm := make(map[string][]byte, len(m))
		for k, v := range m {
			mm[k] = v
		}
		c.orphan[p] = mm
	}
	return c
}

func (s *state) lookup(p []string) *node {
	if len(p) == 0 {
		return nil
	}
	n := s.top[p[0]]
	for _, x := range p[1:] {
		if n == nil {
			return nil
		}
		n = n.sub[x]
	}
	return n
}

func validName(s string) bool { return len(s) > 0 && len(s) <= 256 && !strings.Contains(s, "_") }

// valid names contain no "_", so the join is injective
func pathKey(p []string) string { return strings.Join(p, "_") }

func sortedNames(m map[string]*node) []string {
	out := make([]string, 0, len(m))
	for k := range m {
		out = append(out, k)
	}
	sort.Strings(out)
	return out
}

func sortedKeys(m map[string][]byte) []string {
	out := make([]string, 0, len(m))
	for k := range m {
		out = append(out, k)
	}
	sort.Strings(out)
	return out
}

// ------------------------------------------------------------------ plumbing

type reader interface {
	TopLevelBucket(name string) db.Bucket
	FetchBucket(meta db.BucketMeta) db.Bucket
	BucketNames() ([]string, error)
}

type handle struct {
	id   int
	path []string
	b    db.Bucket
}

type metaRef struct {
	id   int
	path []string
	m    db.BucketMeta
}

// plainMeta is a BucketMeta carrying only the data of another one (a meta is plain data).
type plainMeta struct {
	paths []string
	name  string
	depth int
}

func (m *plainMeta) Paths() []string { return m.paths }
func (m *plainMeta) Name() string    { return m.name }
func (m *plainMeta) Depth() int      { return m.depth }

type store struct {
	dir       string
	d         db.DB
	committed *state
	prior     []int
}

// view = one transaction as the shared read operations see it
type view struct {
	mode string // write | read | read-during-write
	r    reader
	s    *state
	hs   *[]*handle
	pfx  string // handle prefix in the op log
	txn  string // tx variable in the op log
}

type seqCtx struct {
	run    *vh.Run
	ci, j  int
	rng    *vh.Rng
	st     *store
	maxOps int
	ops    []string
	tag    string
	tops   []string // valid top-level names owned by this sequence

	wtx        db.DBTransaction
	work       *state
	hs         []*handle
	metas      []*metaRef
	nextID     int
	recentDel  map[string][]string
	forceStale *handle
	lastReopen bool

	failed                      bool
	dropped                     bool
	cnt                         map[string]int64
	rich                        bool
	commits, rollbacks, reopens int
	depthSeen                   int
	maxDepth                    int // nesting limit of this sequence (deep sequences go past depth 10: two-digit depth in the stored paths)
}

var (
	maxMu       sync.Mutex
	globalDepth int
)

func classOf(err error) string {
	switch err {
	case nil:
		return "ok"
	case db.ErrBucketExist:
		return "exists"
	case db.ErrBucketNotFound:
		return "not-found"
	case db.ErrInvalidBucketName:
		return "invalid-name"
	case db.ErrIllegalKey:
		return "illegal-key"
	case db.ErrIllegalValue:
		return "illegal-value"
	case db.ErrNotSupported:
		return "not-supported"
	case db.ErrWriteNotAllowed:
		return "write-not-allowed"
	case db.ErrIllegalBucketPath:
		return "illegal-path"
	}
	return "other-error"
}

func q(s string) string {
	if len(s) > 48 {
		n := 1
		for n < len(s) && s[n] == s[0] {
			n++
		}
		if n == len(s) {
			return fmt.Sprintf("rep(%s,%d)", strconv.Quote(s[:1]), n)
		}
		if n > 48 {
			return fmt.Sprintf("rep(%s,%d)+%s", strconv.Quote(s[:1]), n, strconv.Quote(s[n:]))
		}
	}
	return strconv.Quote(s)
}

func qb(b []byte) string {
	if b == nil {
		return "nil"
	}
	return q(string(b))
}

func mkVal(l int, fill byte) []byte {
	b := make([]byte, l)
	for i := range b {
		b[i] = fill + byte(i)
	}
	return b
}

func (c *seqCtx) id() int { c.nextID++; return c.nextID }

func (c *seqCtx) emit(format string, a ...interface{}) {
	c.ops = append(c.ops, fmt.Sprintf(format, a...))
}

func (c *seqCtx) count(name string) { c.cnt[name]++ }

func (c *seqCtx) detail(extra map[string]interface{}) map[string]interface{} {
	d := map[string]interface{}{
		"ops":                         append([]string(nil), c.ops...),
		"failing_op_index":            len(c.ops) - 1,
		"position_in_store":           c.j,
		"earlier_cases_in_same_store": append([]int(nil), c.st.prior...),
		"notation":                    notation,
		"how_to_reproduce":            "fresh db.CreateDB(\"leveldb\", dir); apply ops in order (Reopen = Close + db.OpenDB); -only <case> re-runs this sequence alone in a fresh store, and with the earlier cases of its store as context if it is clean alone",
	}
	for k, v := range extra {
		d[k] = v
	}
	return d
}

func (c *seqCtx) violate(kind string, attrs map[string]string, extra map[string]interface{}) {
	c.run.Violate(c.ci, kind, attrs, c.detail(extra))
}

func (c *seqCtx) fail(kind string, attrs map[string]string, extra map[string]interface{}) {
	c.violate(kind, attrs, extra)
	c.failed = true
}

// check compares an error class with the acceptable ones.
func (c *seqCtx) check(op, mode, got string, want ...string) bool {
	c.cnt["comparisons"]++
	for _, w := range want {
		if got == w {
			c.cnt["class:"+got]++
			return true
		}
	}
	c.fail("result-mismatch", map[string]string{"op": op, "tx": mode, "expected": strings.Join(want, "|"), "got": got},
		map[string]interface{}{"what": "error class differs from the model"})
	return false
}

func (c *seqCtx) drop(reason string, err error) {
	c.run.Drop(reason)
	c.dropped = true
	c.failed = true
	_ = err
}

// ------------------------------------------------------------------ alphabets

var (
	long256 = strings.Repeat("n", 256)
	long257 = strings.Repeat("n", 257)

	nestedValid   = []string{"b", "1", "2", "3", "10", "a", "ab", "abc", "a\x00", "\x00", "\xff", "^", "`", "a^", "a`", "B", "k", "x"}
	prefixFamily  = []string{"a", "ab", "abc", "a\x00", "a^", "a`", "1", "10"}
	nestedInvalid = []string{"", "_", "a_", "_a", "a_b", "b_2", "1_a", "b_2_a", "__"}
	staticKeys    = []string{"", "_", "__", "\x00", "\xff", "\x5f", "\xff\xff", "\x00\x00", "\xff\x00", "a", "ab", "b", "1", "2", "k", "k1", "k10", "k_", "b_2_x", "1_x_y", "x", "^", "`", "b_", "b_1_", "1_"}
	staticPrefix  = []string{"k", "k1", "_", "b", "b_", "b_2", "\xff", "\x00", "a", "ab", "1", "1_", "^", "\x5f", "\xff\xff", "x"}
)

func (c *seqCtx) initNames() {
	t := "t" + strconv.Itoa(c.j) + "."
	c.tag = t
	c.tops = []string{t, t + "b", t + "1", t + "a", t + "ab", t + "\x00", t + "^", t + "`", "b" + t, "1" + t, "2" + t}
	if c.j == 0 {
		// the first sequence of a store also owns the raw names that imitate the layout's own tokens
		c.tops = append(c.tops, "b", "1", "2", "10", "a", "ab")
	}
}

func (c *seqCtx) pick(xs []string) string { return xs[c.rng.Intn(len(xs))] }

func (c *seqCtx) existingTops(s *state) []string {
	var out []string
	for _, n := range c.tops {
		if s.top[n] != nil {
			out = append(out, n)
		}
	}
	return out
}

func (c *seqCtx) invalidTop(s *state) string {
	t := c.tag
	ex := c.existingTops(s)
	switch c.rng.Intn(8) {
	case 0:
		return ""
	case 1:
		return t + "_"
	case 2:
		return t + "_b"
	case 3:
		return "b_1_" + t
	case 4:
		return long257 + t
	case 5, 6:
		// imitation of a nested path: <top>_<child>
		if len(ex) > 0 {
			top := c.pick(ex)
			ch := sortedNames(s.top[top].sub)
			if len(ch) > 0 {
				return top + "_" + c.pick(ch)
			}
			return top + "_a"
		}
		return "_" + t
	}
	return "1_" + t
}

func (c *seqCtx) pickTopName(s *state, create bool) string {
	r := c.rng
	ex := c.existingTops(s)
	var fresh []string
	for _, n := range c.tops {
		if s.top[n] == nil {
			fresh = append(fresh, n)
		}
	}
	x := r.Intn(100)
	if create {
		switch {
		case x < 15:
			return c.invalidTop(s)
		case x < 32 && len(ex) > 0:
			return c.pick(ex)
		case len(fresh) > 0:
			return c.pick(fresh)
		}
		return c.pick(c.tops)
	}
	switch {
	case x < 68 && len(ex) > 0:
		return c.pick(ex)
	case x < 84:
		return c.pick(c.tops)
	}
	return c.invalidTop(s)
}

// pickChildName: mode 0 = create, 1 = lookup/delete
func (c *seqCtx) pickChildName(n *node, p []string, mode int) string {
	r := c.rng
	var ch []string
	if n != nil {
		ch = sortedNames(n.sub)
	}
	rd := c.recentDel[pathKey(p)]
	invalid := func() string {
		switch r.Intn(6) {
		case 0:
			if len(ch) > 0 {
				return c.pick(ch) + "_" + c.pick(nestedValid)
			}
		case 1:
			return p[len(p)-1] + "_" + c.pick(nestedValid)
		case 2:
			return long257
		}
		return c.pick(nestedInvalid)
	}
	derived := func() string {
		if len(ch) == 0 {
			return c.pick(nestedValid)
		}
		s := c.pick(ch)
		switch r.Intn(6) {
		case 0:
			return s + "b"
		case 1:
			return s + "1"
		case 2:
			return s + "\x00"
		case 3:
			if len(s) > 1 {
				return s[:len(s)-1]
			}
			return s + "`"
		case 4:
			return s + "^"
		}
		return s + s
	}
	static := func() string {
		switch r.Intn(20) {
		case 0:
			return long256
		case 1:
			return p[len(p)-1] // same name as the parent
		case 2:
			return p[0]
		case 3:
			return c.pick(c.tops)
		case 4, 5, 6, 7, 8, 9, 10, 11:
			return c.pick(prefixFamily) // siblings whose names extend one another
		}
		return c.pick(nestedValid)
	}
	x := r.Intn(100)
	if mode == 0 {
		switch {
		case x < 18 && len(rd) > 0:
			return c.pick(rd)
		case x < 28 && len(ch) > 0:
			return c.pick(ch)
		case x < 38:
			return invalid()
		case x < 60:
			return derived()
		}
		return static()
	}
	switch {
	case x < 60 && len(ch) > 0:
		return c.pick(ch)
	case x < 68 && len(rd) > 0:
		return c.pick(rd)
	case x < 80:
		return invalid()
	case x < 88:
		return derived()
	}
	return static()
}

// ownBuckets lists the paths of all buckets of this sequence in s (sorted walk).
func (c *seqCtx) ownBuckets(s *state) (paths [][]string, keys int) {
	var walk func(n *node, p []string)
	walk = func(n *node, p []string) {
		paths = append(paths, append([]string(nil), p...))
		keys += len(n.kv)
		for _, name := range sortedNames(n.sub) {
			walk(n.sub[name], append(p, name))
		}
	}
	for _, t := range c.tops {
		if n := s.top[t]; n != nil {
			walk(n, []string{t})
		}
	}
	return
}

func (c *seqCtx) pickKey(s *state, n *node, p []string, write bool) []byte {
	r := c.rng
	x := r.Intn(100)
	own := 45
	if write {
		own = 22
	}
	if n != nil && len(n.kv) > 0 && x < own {
		return []byte(c.pick(sortedKeys(n.kv)))
	}
	if x < own+15 {
		// a key that lives in another bucket of this sequence
		paths, _ := c.ownBuckets(s)
		if len(paths) > 0 {
			o := s.lookup(paths[r.Intn(len(paths))])
			if o != nil && len(o.kv) > 0 {
				return []byte(c.pick(sortedKeys(o.kv)))
			}
		}
	}
	d := len(p)
	child := "a"
	if n != nil && len(n.sub) > 0 {
		child = c.pick(sortedNames(n.sub))
	}
	k := c.pick([]string{"k", "x", "1", "b", "a"})
	switch r.Intn(16) {
	case 0:
		return []byte(child + "_" + k) // <child>_<key>
	case 1:
		return []byte(fmt.Sprintf("b_%d_%s_%s", d+1, pathKey(p), child)) // index entry of a child
	case 2:
		return []byte(fmt.Sprintf("%d_%s_%s_%s", d+1, pathKey(p), child, k)) // a child's stored key
	case 3:
		return []byte(fmt.Sprintf("%d_%s_%s", d, pathKey(p), k)) // own stored key
	case 4:
		return []byte(fmt.Sprintf("b_%d_%s", d, pathKey(p))) // own index entry
	case 5:
		if d >= 2 {
			return []byte(fmt.Sprintf("%d_%s_%s", d-1, pathKey(p[:d-1]), k)) // parent's stored key
		}
		return []byte("b_1_" + p[0])
	case 6:
		return bytes.Repeat([]byte("K"), 300)
	case 7, 8:
		return r.Bytes(r.Range(1, 4))
	case 9:
		if n != nil && len(n.kv) > 0 { // extension / truncation of an existing key
			e := c.pick(sortedKeys(n.kv))
			if r.Bool() || len(e) < 2 {
				return []byte(e + c.pick([]string{"\x00", "_", "0", "\xff"}))
			}
			return []byte(e[:len(e)-1])
		}
	}
	return []byte(c.pick(staticKeys))
}

func (c *seqCtx) pickPrefix(n *node, p []string) []byte {
	r := c.rng
	x := r.Intn(100)
	var ks []string
	if n != nil {
		ks = sortedKeys(n.kv)
	}
	switch {
	case x < 14:
		if r.Bool() {
			return nil
		}
		return []byte{}
	case x < 50 && len(ks) > 0:
		e := c.pick(ks)
		return []byte(e[:r.Range(1, len(e))])
	case x < 60 && len(ks) > 0:
		return []byte(c.pick(ks) + "\x00")
	case x < 70:
		if n != nil && len(n.sub) > 0 {
			return []byte(c.pick(sortedNames(n.sub)) + "_")
		}
		return []byte(fmt.Sprintf("%d_", len(p)+1))
	}
	return []byte(c.pick(staticPrefix))
}

func (c *seqCtx) pickVal() ([]byte, string) {
	r := c.rng
	fill := byte(r.Intn(256))
	l := 0
	switch r.Weighted(6, 25, 50, 12, 6, 1) {
	case 0:
		if r.Bool() {
			return nil, "nil"
		}
		return []byte{}, "v(0)"
	case 1:
		l = 1
	case 2:
		l = r.Range(2, 40)
	case 3:
		l = r.Range(1000, 5000)
	case 4:
		l = r.Range(20000, 100000)
	case 5:
		l = r.Range(150000, 300000)
	}
	return mkVal(l, fill), fmt.Sprintf("v(%d,0x%02x)", l, fill)
}

// ------------------------------------------------------------------ handles

func (c *seqCtx) addHandle(hs *[]*handle, id int, path []string, b db.Bucket) *handle {
	h := &handle{id: id, path: append([]string(nil), path...), b: b}
	if len(*hs) < maxSlots {
		*hs = append(*hs, h)
	} else {
		(*hs)[c.rng.Intn(len(*hs))] = h
	}
	return h
}

// checkHandle judges a handle-returning call.
func (c *seqCtx) checkHandle(v *view, op string, b db.Bucket, want bool, path []string, id int) *handle {
	c.cnt["comparisons"]++
	got := b != nil
	if got != want {
		names := map[bool]string{true: "bucket", false: "nil-bucket"}
		c.fail("result-mismatch", map[string]string{"op": op, "tx": v.mode, "expected": names[want], "got": names[got]},
			map[string]interface{}{"bucket_path": fmt.Sprintf("%q", path)})
		return nil
	}
	if !got {
		c.cnt["class:nil-bucket"]++
		return nil
	}
	c.cnt["class:bucket"]++
	if len(path) > c.depthSeen {
		c.depthSeen = len(path)
	}
	return c.addHandle(v.hs, id, path, b)
}

func (c *seqCtx) pickHandle(s *state, hs []*handle) *handle {
	var live, stale []*handle
	for _, h := range hs {
		if s.lookup(h.path) != nil {
			live = append(live, h)
		} else {
			stale = append(stale, h)
		}
	}
	if len(stale) > 0 && (c.rng.Chance(1, 3) || len(live) == 0) {
		return stale[c.rng.Intn(len(stale))]
	}
	if len(live) == 0 {
		return nil
	}
	// prefer deeper and more recent handles a little
	if c.rng.Chance(1, 3) {
		return live[len(live)-1]
	}
	return live[c.rng.Intn(len(live))]
}

// ------------------------------------------------------------------ shared read operations

func (c *seqCtx) doTop(v *view) { c.doTopNamed(v, c.pickTopName(v.s, false)) }

func (c *seqCtx) doTopNamed(v *view, name string) *handle {
	id := c.id()
	c.emit("%s%d = %s.TopLevelBucket(%s)", v.pfx, id, v.txn, q(name))
	c.count("op:TopLevelBucket")
	b := v.r.TopLevelBucket(name)
	return c.checkHandle(v, "TopLevelBucket", b, validName(name) && v.s.top[name] != nil, []string{name}, id)
}

func (c *seqCtx) doTopNames(v *view) {
	c.emit("%s.BucketNames()", v.txn)
	c.count("op:TxBucketNames")
	names, err := v.r.BucketNames()
	if !c.check("TxBucketNames", v.mode, classOf(err), "ok") {
		return
	}
	c.compareNames("TxBucketNames", v.mode, names, sortedNames(v.s.top), nil)
}

func (c *seqCtx) compareNames(op, mode string, got, want []string, path []string) bool {
	c.cnt["comparisons"]++
	g := append([]string(nil), got...)
	sort.Strings(g)
	if len(g) == len(want) {
		same := true
		for i := range g {
			if g[i] != want[i] {
				same = false
				break
			}
		}
		if same {
			return true
		}
	}
	c.fail("result-mismatch", map[string]string{"op": op, "tx": mode, "expected": "bucket-names-of-model", "got": "different-names"},
		map[string]interface{}{"bucket_path": fmt.Sprintf("%q", path), "model_names": fmt.Sprintf("%q", want), "store_names": fmt.Sprintf("%q", g)})
	return false
}

func (c *seqCtx) doFetch(v *view) {
	id := c.id()
	c.count("op:FetchBucket")
	if len(c.metas) == 0 || c.rng.Chance(1, 12) {
		c.emit("%s%d = %s.FetchBucket(nil)", v.pfx, id, v.txn)
		b := v.r.FetchBucket(nil)
		c.checkHandle(v, "FetchBucket", b, false, nil, id)
		return
	}
	m := c.metas[c.rng.Intn(len(c.metas))]
	c.emit("%s%d = %s.FetchBucket(m%d)", v.pfx, id, v.txn, m.id)
	b := v.r.FetchBucket(m.m)
	c.checkHandle(v, "FetchBucket", b, v.s.lookup(m.path) != nil, m.path, id)
}

func (c *seqCtx) doBucket(v *view, h *handle, n *node, name string) {
	id := c.id()
	c.emit("%s%d = %s%d.Bucket(%s)", v.pfx, id, v.pfx, h.id, q(name))
	c.count("op:Bucket")
	b := h.b.Bucket(name)
	c.checkHandle(v, "Bucket", b, validName(name) && n.sub[name] != nil, append(append([]string(nil), h.path...), name), id)
}

func (c *seqCtx) doGet(v *view, h *handle, n *node) {
	c.getKey(v, h, n, c.pickKey(v.s, n, h.path, false))
}

func (c *seqCtx) getKey(v *view, h *handle, n *node, key []byte) {
	c.emit("%s%d.Get(%s)", v.pfx, h.id, qb(key))
	c.count("op:Get")
	got, err := h.b.Get(key)
	cls := classOf(err)
	if len(key) == 0 {
		if c.check("Get", v.mode, cls, "ok", "illegal-key") && got != nil {
			c.fail("result-mismatch", map[string]string{"op": "Get", "tx": v.mode, "expected": "absent", "got": "value"}, map[string]interface{}{"key": qb(key)})
		}
		return
	}
	if !c.check("Get", v.mode, cls, "ok") {
		return
	}
	c.compareValue("Get", v.mode, h.path, key, got, n.kv[string(key)])
}

func (c *seqCtx) compareValue(op, mode string, path []string, key, got, want []byte) bool {
	c.cnt["comparisons"]++
	switch {
	case want == nil && got == nil:
		c.cnt["class:absent"]++
		return true
	case want != nil && got != nil && bytes.Equal(got, want):
		c.cnt["class:value"]++
		return true
	}
	exp, g := "value", "other-value"
	if want == nil {
		exp, g = "absent", "value"
	} else if got == nil {
		g = "absent"
	}
	c.fail("result-mismatch", map[string]string{"op": op, "tx": mode, "expected": exp, "got": g},
		map[string]interface{}{"bucket_path": fmt.Sprintf("%q", path), "key": qb(key), "model_value": descVal(want), "store_value": descVal(got)})
	return false
}

func descVal(v []byte) string {
	if v == nil {
		return "absent"
	}
	if len(v) <= 24 {
		return fmt.Sprintf("len=%d %x", len(v), v)
	}
	return fmt.Sprintf("len=%d %x...", len(v), v[:24])
}

func (c *seqCtx) doPrefix(v *view, h *handle, n *node) {
	prefix := c.pickPrefix(n, h.path)
	c.emit("%s%d.GetByPrefix(%s)", v.pfx, h.id, qb(prefix))
	c.count("op:GetByPrefix")
	ents, err := h.b.GetByPrefix(prefix)
	if !c.check("GetByPrefix", v.mode, classOf(err), "ok") {
		return
	}
	want := map[string][]byte{}
	for k, val := range n.kv {
		if strings.HasPrefix(k, string(prefix)) {
			want[k] = val
		}
	}
	if d := diffEntries(ents, want); d != "" {
		c.fail("result-mismatch", map[string]string{"op": "GetByPrefix", "tx": v.mode, "expected": "entries-of-model", "got": "different-entries"},
			map[string]interface{}{"bucket_path": fmt.Sprintf("%q", h.path), "prefix": qb(prefix), "difference": d})
	}
	c.cnt["comparisons"]++
}

// diffEntries compares a scan result with the expected map as multisets; "" = equal.
func diffEntries(ents []*db.Entry, want map[string][]byte) string {
	es := append([]*db.Entry(nil), ents...)
	sort.SliceStable(es, func(i, j int) bool { return bytes.Compare(es[i].Key, es[j].Key) < 0 })
	ks := sortedKeys(want)
	i, j := 0, 0
	for i < len(es) || j < len(ks) {
		switch {
		case i < len(es) && es[i] == nil:
			return "nil entry in result"
		case j >= len(ks) || (i < len(es) && string(es[i].Key) < ks[j]):
			return fmt.Sprintf("store returns key %s (value %s) that the model does not have here (or returns it twice)", qb(es[i].Key), descVal(es[i].Value))
		case i >= len(es) || string(es[i].Key) > ks[j]:
			return fmt.Sprintf("store misses key %s (model value %s)", q(ks[j]), descVal(want[ks[j]]))
		}
		if !bytes.Equal(es[i].Value, want[ks[j]]) {
			return fmt.Sprintf("key %s: store value %s, model value %s", q(ks[j]), descVal(es[i].Value), descVal(want[ks[j]]))
		}
		i++
		j++
	}
	return ""
}

func (c *seqCtx) doNames(v *view, h *handle, n *node) {
	c.emit("%s%d.BucketNames()", v.pfx, h.id)
	c.count("op:BucketNames")
	names, err := h.b.BucketNames()
	if !c.check("BucketNames", v.mode, classOf(err), "ok") {
		return
	}
	c.compareNames("BucketNames", v.mode, names, sortedNames(n.sub), h.path)
}

func (c *seqCtx) doMeta(v *view, h *handle) {
	id := c.id()
	c.count("op:GetBucketMeta")
	m := h.b.GetBucketMeta()
	if m == nil {
		c.emit("m%d = %s%d.GetBucketMeta()", id, v.pfx, h.id)
		c.fail("result-mismatch", map[string]string{"op": "GetBucketMeta", "tx": v.mode, "expected": "meta", "got": "nil"}, nil)
		return
	}
	if c.rng.Bool() {
		c.emit("m%d = copy of %s%d.GetBucketMeta() (own BucketMeta with the same Paths/Name/Depth)", id, v.pfx, h.id)
		m = &plainMeta{paths: append([]string(nil), m.Paths()...), name: m.Name(), depth: m.Depth()}
	} else {
		c.emit("m%d = %s%d.GetBucketMeta()", id, v.pfx, h.id)
	}
	mr := &metaRef{id: id, path: append([]string(nil), h.path...), m: m}
	if len(c.metas) < 8 {
		c.metas = append(c.metas, mr)
	} else {
		c.metas[c.rng.Intn(len(c.metas))] = mr
	}
}

// ------------------------------------------------------------------ dump

type dumpDiff struct {
	kind string
	path []string
	text string
}

func (c *seqCtx) dumpNode(b db.Bucket, n *node, p []string) *dumpDiff {
	c.cnt["buckets_dumped"]++
	ents, err := b.GetByPrefix(nil)
	if err != nil {
		return &dumpDiff{"scan-error", p, err.Error()}
	}
	c.cnt["comparisons"]++
	if d := diffEntries(ents, n.kv); d != "" {
		return &dumpDiff{"keys", p, d}
	}
	for _, k := range sortedKeys(n.kv) {
		got, err := b.Get([]byte(k))
		c.cnt["comparisons"]++
		if err != nil || !bytes.Equal(got, n.kv[k]) || got == nil {
			return &dumpDiff{"get", p, fmt.Sprintf("Get(%s) = %s, %v; model %s", q(k), descVal(got), err, descVal(n.kv[k]))}
		}
	}
	names, err := b.BucketNames()
	if err != nil {
		return &dumpDiff{"names-error", p, err.Error()}
	}
	g := append([]string(nil), names...)
	sort.Strings(g)
	want := sortedNames(n.sub)
	c.cnt["comparisons"]++
	if fmt.Sprintf("%q", g) != fmt.Sprintf("%q", want) {
		return &dumpDiff{"bucket-names", p, fmt.Sprintf("store lists %q, model has %q", g, want)}
	}
	for _, name := range want {
		sb := b.Bucket(name)
		c.cnt["comparisons"]++
		sp := append(append([]string(nil), p...), name)
		if sb == nil {
			return &dumpDiff{"bucket-missing", sp, "Bucket() returns nil for a listed bucket"}
		}
		if d := c.dumpNode(sb, n.sub[name], sp); d != nil {
			return d
		}
	}
	return nil
}

// dumpDiffOf compares the whole store as seen through r with s; nil = equal.
func (c *seqCtx) dumpDiffOf(r reader, s *state) *dumpDiff {
	var d *dumpDiff
	names, err := r.BucketNames()
	g := append([]string(nil), names...)
	sort.Strings(g)
	want := sortedNames(s.top)
	c.cnt["comparisons"]++
	if err != nil {
		d = &dumpDiff{"names-error", nil, err.Error()}
	} else if fmt.Sprintf("%q", g) != fmt.Sprintf("%q", want) {
		d = &dumpDiff{"top-bucket-names", nil, fmt.Sprintf("store lists %q, model has %q", g, want)}
	}
	for _, name := range want {
		if d != nil {
			break
		}
		b := r.TopLevelBucket(name)
		c.cnt["comparisons"]++
		if b == nil {
			d = &dumpDiff{"bucket-missing", []string{name}, "TopLevelBucket() returns nil for a bucket of the model"}
			break
		}
		d = c.dumpNode(b, s.top[name], []string{name})
	}
	return d
}

func (c *seqCtx) dump(r reader, s *state, after, via string) bool {
	c.cnt["dumps_compared"]++
	d := c.dumpDiffOf(r, s)
	if d == nil {
		return true
	}
	scope := "store-level"
	if len(d.path) > 0 {
		scope = "bucket-of-an-earlier-sequence"
		for _, t := range c.tops {
			if t == d.path[0] {
				scope = "bucket-of-this-sequence"
			}
		}
	}
	attrs := map[string]string{"after": after, "diff": d.kind, "scope": scope, "via": via}
	extra := map[string]interface{}{"bucket_path": fmt.Sprintf("%q", d.path), "difference": d.text}
	kind := "dump-mismatch"
	if c.wtx == nil && after != "in-tx" {
		// diagnostic: is the committed state wrong on disk, or only misread by this open store?
		if tx, ok := r.(interface{ Rollback() error }); ok {
			tx.Rollback()
		}
		persists := "unknown"
		if c.st.d.Close() == nil {
			if d2, err := db.OpenDB("leveldb", c.st.dir); err == nil {
				c.st.d = d2
				if rtx, err := d2.BeginReadTx(); err == nil {
					if again := c.dumpDiffOf(rtx, s); again == nil {
						persists = "no"
						if after != "reopen" && after != "reopen-abandoned-tx" {
							kind = "committed-state-misread-until-reopen"
						}
					} else {
						persists = "yes"
						extra["difference_after_reopen"] = again.text
					}
					rtx.Rollback()
				}
			} else {
				c.st.d = nil
			}
		} else {
			c.st.d = nil
		}
		attrs["persists_after_close_and_reopen"] = persists
	}
	if kind == "committed-state-misread-until-reopen" {
		// the reopened store agrees with the model again: report and carry on with the sequence
		c.cnt["committed_state_misread_until_reopen"]++
		c.violate(kind, attrs, extra)
		return true
	}
	c.fail(kind, attrs, extra)
	return false
}

// dumpCommitted dumps the committed state through a fresh read transaction (or, 1 in 3, a write
// transaction that is rolled back).
func (c *seqCtx) dumpCommitted(after string) {
	if c.failed {
		return
	}
	if c.rng.Chance(1, 3) {
		tx, err := c.st.d.BeginTx()
		if err != nil {
			c.drop("BeginTx failed", err)
			return
		}
		c.dump(tx, c.st.committed, after, "write-tx")
		tx.Rollback()
		return
	}
	tx, err := c.st.d.BeginReadTx()
	if err != nil {
		c.drop("BeginReadTx failed", err)
		return
	}
	c.dump(tx, c.st.committed, after, "read-tx")
	tx.Rollback()
}

// ------------------------------------------------------------------ transaction control

func (c *seqCtx) opBegin() {
	c.emit("tx = db.BeginTx()")
	c.count("op:BeginTx")
	tx, err := c.st.d.BeginTx()
	if err != nil {
		c.drop("BeginTx failed", err)
		return
	}
	c.wtx, c.work, c.hs, c.forceStale = tx, c.st.committed.clone(), nil, nil
	c.lastReopen = false
}

func (c *seqCtx) opCommit() {
	c.emit("tx.Commit()")
	c.count("op:Commit")
	err := c.wtx.Commit()
	c.wtx = nil
	if err != nil {
		c.drop("Commit failed", err)
		return
	}
	c.st.committed, c.work, c.hs = c.work, nil, nil
	c.commits++
	paths, keys := c.ownBuckets(c.st.committed)
	if len(paths) >= 2 && keys >= 3 {
		c.rich = true
	}
	c.dumpCommitted("commit")
}

func (c *seqCtx) opRollback() {
	c.emit("tx.Rollback()")
	c.count("op:Rollback")
	err := c.wtx.Rollback()
	c.wtx, c.work, c.hs = nil, nil, nil
	if !c.check("Rollback", "write", classOf(err), "ok") {
		return
	}
	c.rollbacks++
	c.dumpCommitted("rollback")
}

func (c *seqCtx) opReopen(abandon bool) {
	after := "reopen"
	if abandon {
		c.emit("Reopen abandoning tx: db.Close() with tx still open (discards it); db = OpenDB")
		c.count("op:ReopenAbandoningTx")
		after = "reopen-abandoned-tx"
		c.wtx, c.work, c.hs = nil, nil, nil
	} else {
		c.emit("Reopen: db.Close(); db = OpenDB")
		c.count("op:Reopen")
	}
	if err := c.st.d.Close(); err != nil {
		c.st.d = nil
		c.drop("Close failed", err)
		return
	}
	d, err := db.OpenDB("leveldb", c.st.dir)
	if err != nil {
		c.st.d = nil
		c.drop("OpenDB failed", err)
		return
	}
	c.st.d = d
	c.reopens++
	c.lastReopen = true
	c.dumpCommitted(after)
}

// ------------------------------------------------------------------ write-transaction operations

const (
	kCreateTop = iota
	kTop
	kDeleteTop
	kTopNames
	kFetch
	kDumpTx
	kCommit
	kRollback
	kReadBurst
	kAbandon
	// bucket-level
	kNewBucket
	kBucket
	kDeleteBucket
	kPut
	kGet
	kDelete
	kClear
	kPrefix
	kNames
	kMeta
)

func (c *seqCtx) wview() *view {
	return &view{mode: "write", r: c.wtx, s: c.work, hs: &c.hs, pfx: "h", txn: "tx"}
}

func (c *seqCtx) opCreateTop() { c.createTopNamed(c.pickTopName(c.work, true)) }

func (c *seqCtx) createTopNamed(name string) *handle {
	id := c.id()
	c.emit("h%d = tx.CreateTopLevelBucket(%s)", id, q(name))
	c.count("op:CreateTopLevelBucket")
	b, err := c.wtx.CreateTopLevelBucket(name)
	cls := classOf(err)
	v := c.wview()
	switch {
	case !validName(name):
		if c.check("CreateTopLevelBucket", "write", cls, "invalid-name") && b != nil {
			c.fail("result-mismatch", map[string]string{"op": "CreateTopLevelBucket", "tx": "write", "expected": "nil-bucket", "got": "bucket"}, nil)
		}
	case c.work.top[name] != nil:
		if c.check("CreateTopLevelBucket", "write", cls, "ok", "exists") && cls == "ok" {
			return c.checkHandle(v, "CreateTopLevelBucket", b, true, []string{name}, id)
		}
	default:
		if !c.check("CreateTopLevelBucket", "write", cls, "ok") {
			return nil
		}
		c.work.top[name] = newNode()
		if h := c.checkHandle(v, "CreateTopLevelBucket", b, true, []string{name}, id); h != nil {
			c.checkFresh(h, c.work.top[name], "CreateTopLevelBucket")
			return h
		}
	}
	return nil
}

// checkFresh: a bucket that did not exist and was just created is an empty map.
func (c *seqCtx) checkFresh(h *handle, nn *node, op string) {
	pk := pathKey(h.path)
	ghost := c.work.orphan[pk]
	delete(c.work.orphan, pk)
	ents, e1 := h.b.GetByPrefix(nil)
	names, e2 := h.b.BucketNames()
	c.cnt["comparisons"] += 2
	c.cnt["fresh_buckets_checked_empty"]++
	if e1 != nil || e2 != nil {
		c.fail("result-mismatch", map[string]string{"op": op + "+scan", "tx": "write", "expected": "ok", "got": "error"}, map[string]interface{}{"errors": fmt.Sprint(e1, e2)})
		return
	}
	if len(names) != 0 {
		c.fail("fresh-bucket-not-empty", map[string]string{"what": "nested-buckets", "op": op},
			map[string]interface{}{"bucket_path": fmt.Sprintf("%q", h.path), "store_names": fmt.Sprintf("%q", names)})
		return
	}
	if len(ents) == 0 {
		return
	}
	if len(ghost) > 0 && diffEntries(ents, ghost) == "" {
		// the one precisely understood shape (rule E9): report it under its own kind and follow the store
		c.cnt["stale_writes_resurrected"]++
		c.violate("stale-handle-write-resurrected",
			map[string]string{"class": "keys-put-through-handle-of-deleted-bucket-become-content-of-bucket-recreated-at-that-path"},
			map[string]interface{}{"bucket_path": fmt.Sprintf("%q", h.path), "resurrected_keys": fmt.Sprintf("%q", sortedKeys(ghost))})
		for k, val := range ghost {
			nn.kv[k] = val
		}
		return
	}
	c.fail("fresh-bucket-not-empty", map[string]string{"what": "keys", "op": op},
		map[string]interface{}{"bucket_path": fmt.Sprintf("%q", h.path), "difference": diffEntries(ents, map[string][]byte{})})
}

func (c *seqCtx) opDeleteTop() {
	name := c.pickTopName(c.work, false)
	c.emit("tx.DeleteTopLevelBucket(%s)", q(name))
	c.count("op:DeleteTopLevelBucket")
	err := c.wtx.DeleteTopLevelBucket(name)
	c.check("DeleteTopLevelBucket", "write", classOf(err), "not-supported")
}

func (c *seqCtx) opNewBucket(h *handle, n *node) {
	name := c.pickChildName(n, h.path, 0)
	nh := c.newBucketNamed(h, n, name)
	// deep-chain scenario (deep sequences only): keep nesting below the new bucket, one key per level, down to depth
	// 11-14; the random operations that follow read, list, delete and re-create along the chain
	if nh != nil && !c.failed && c.maxDepth > maxDepth && c.rng.Chance(1, 2) {
		cur, cn := nh, n.sub[name]
		target := c.maxDepth - c.rng.Intn(3)
		for len(cur.path) < target && cn != nil && !c.failed {
			cname := c.pick(nestedValid)
			if cn.sub[cname] != nil {
				break
			}
			val := mkVal(c.rng.Range(1, 5), byte(len(cur.path)))
			c.putKV(cur, cn, []byte("lvl"), val, fmt.Sprintf("v(%d,0x%02x)", len(val), val[0]))
			if c.failed {
				return
			}
			next := c.newBucketNamed(cur, cn, cname)
			if next == nil {
				break
			}
			cur, cn = next, cn.sub[cname]
		}
		c.count("deep_chain_scenarios")
		return
	}
	// twin scenario: a sibling whose name extends the new bucket's name, both holding the same key
	if nh == nil || c.failed || len(name) > 16 || !c.rng.Chance(1, 3) {
		return
	}
	twin := name + c.pick([]string{"b", "1", "\x00", "^", "`", "a", name})
	if n.sub[twin] != nil {
		return
	}
	key := []byte(c.pick([]string{"k", "x", "b_2_x", "\x00", "_"}))
	val, vs := mkVal(c.rng.Range(1, 9), byte(c.rng.Intn(256))), ""
	vs = fmt.Sprintf("v(%d,0x%02x)", len(val), val[0])
	c.putKV(nh, n.sub[name], key, val, vs)
	if c.failed {
		return
	}
	if th := c.newBucketNamed(h, n, twin); th != nil && !c.failed {
		val2 := mkVal(len(val)+1, val[0]+1)
		c.putKV(th, n.sub[twin], key, val2, fmt.Sprintf("v(%d,0x%02x)", len(val2), val2[0]))
		c.count("twin_sibling_scenarios")
		// half of the time: empty or remove the shorter-named twin at once, the longer-named one must keep its key
		switch c.rng.Intn(4) {
		case 0:
			if !c.failed {
				c.opClear(nh, n.sub[name])
			}
		case 1:
			if !c.failed {
				c.deleteBucketNamed(h, n, name)
			}
		default:
			return
		}
		if !c.failed && n.sub[twin] != nil {
			c.getKey(c.wview(), th, n.sub[twin], key)
		}
	}
}

func (c *seqCtx) newBucketNamed(h *handle, n *node, name string) *handle {
	id := c.id()
	c.emit("h%d = h%d.NewBucket(%s)", id, h.id, q(name))
	c.count("op:NewBucket")
	b, err := h.b.NewBucket(name)
	cls := classOf(err)
	switch {
	case !validName(name):
		if c.check("NewBucket", "write", cls, "invalid-name") && b != nil {
			c.fail("result-mismatch", map[string]string{"op": "NewBucket", "tx": "write", "expected": "nil-bucket", "got": "bucket"}, nil)
		}
	case n.sub[name] != nil:
		c.check("NewBucket", "write", cls, "exists")
	default:
		if !c.check("NewBucket", "write", cls, "ok") {
			return nil
		}
		nn := newNode()
		n.sub[name] = nn
		if nh := c.checkHandle(c.wview(), "NewBucket", b, true, append(append([]string(nil), h.path...), name), id); nh != nil {
			c.checkFresh(nh, nn, "NewBucket")
			if !c.failed {
				return nh
			}
		}
	}
	return nil
}

func (c *seqCtx) slotFor(path []string) *handle {
	pk := pathKey(path)
	for _, h := range c.hs {
		hk := pathKey(h.path)
		if hk == pk || strings.HasPrefix(hk, pk+"_") {
			return h
		}
	}
	return nil
}

func (c *seqCtx) opDeleteBucket(h *handle, n *node) {
	c.deleteBucketNamed(h, n, c.pickChildName(n, h.path, 1))
}

func (c *seqCtx) deleteBucketNamed(h *handle, n *node, name string) {
	exists := validName(name) && n.sub[name] != nil
	sp := append(append([]string(nil), h.path...), name)
	if exists && c.slotFor(sp) == nil && c.rng.Chance(3, 5) {
		// keep a handle of the bucket about to be deleted
		c.doBucket(c.wview(), h, n, name)
		if c.failed {
			return
		}
	}
	c.emit("h%d.DeleteBucket(%s)", h.id, q(name))
	c.count("op:DeleteBucket")
	err := h.b.DeleteBucket(name)
	cls := classOf(err)
	switch {
	case !validName(name):
		c.check("DeleteBucket", "write", cls, "ok", "invalid-name")
	case !exists:
		c.check("DeleteBucket", "write", cls, "ok", "not-found")
	default:
		if !c.check("DeleteBucket", "write", cls, "ok") {
			return
		}
		old := n.sub[name]
		delete(n.sub, name)
		c.cnt["existing_buckets_deleted"]++
		pk := pathKey(h.path)
		rd := c.recentDel[pk]
		found := false
		for _, x := range rd {
			found = found || x == name
		}
		if !found {
			c.recentDel[pk] = append(rd, name)
		}
		if c.rng.Chance(1, 3) {
			// re-create at once: the new bucket must be empty, whatever the deleted one contained
			c.count("delete_then_recreate_scenarios")
			nh := c.newBucketNamed(h, n, name)
			// ... and so must every nested bucket of the deleted subtree when it is created again under the same name
			var again func(ph *handle, pn *node, on *node, depth int)
			again = func(ph *handle, pn *node, on *node, depth int) {
				if ph == nil || pn == nil || on == nil || depth > 2 || c.failed {
					return
				}
				names := make([]string, 0, len(on.sub))
				for cn := range on.sub {
					names = append(names, cn)
				}
				sort.Strings(names)
				for _, cn := range names {
					if c.failed || pn.sub[cn] != nil {
						continue
					}
					c.count("nested_recreate_after_delete")
					ch := c.newBucketNamed(ph, pn, cn)
					again(ch, pn.sub[cn], on.sub[cn], depth+1)
				}
			}
			if nh != nil && !c.failed {
				again(nh, n.sub[name], old, 1)
			}
		} else if st := c.slotFor(sp); st != nil && c.rng.Chance(4, 5) {
			c.forceStale = st
		}
	}
}

func (c *seqCtx) opPut(h *handle, n *node) {
	key := c.pickKey(c.work, n, h.path, true)
	val, vs := c.pickVal()
	c.putKV(h, n, key, val, vs)
}

func (c *seqCtx) putKV(h *handle, n *node, key, val []byte, vs string) {
	c.emit("h%d.Put(%s, %s)", h.id, qb(key), vs)
	c.count("op:Put")
	switch {
	case len(val) == 0:
		c.count("values_len_0")
	case len(val) == 1:
		c.count("values_len_1")
	case len(val) >= 20000:
		c.count("values_large")
	}
	err := h.b.Put(key, val)
	cls := classOf(err)
	switch {
	case len(val) == 0 && len(key) == 0:
		c.check("Put", "write", cls, "illegal-value", "illegal-key")
	case len(val) == 0:
		c.check("Put", "write", cls, "illegal-value")
	case len(key) == 0:
		c.check("Put", "write", cls, "illegal-key")
	default:
		if c.check("Put", "write", cls, "ok") {
			n.kv[string(key)] = val
		}
	}
}

func (c *seqCtx) opDelete(h *handle, n *node) { c.delKey(h, n, c.pickKey(c.work, n, h.path, false)) }

func (c *seqCtx) delKey(h *handle, n *node, key []byte) {
	c.emit("h%d.Delete(%s)", h.id, qb(key))
	c.count("op:Delete")
	err := h.b.Delete(key)
	cls := classOf(err)
	if len(key) == 0 {
		c.check("Delete", "write", cls, "ok", "illegal-key")
		return
	}
	if c.check("Delete", "write", cls, "ok") {
		if _, ok := n.kv[string(key)]; ok {
			c.cnt["existing_keys_deleted"]++
		}
		delete(n.kv, string(key))
	}
}

func (c *seqCtx) opClear(h *handle, n *node) {
	c.emit("h%d.Clear()", h.id)
	c.count("op:Clear")
	err := h.b.Clear()
	if c.check("Clear", "write", classOf(err), "ok") {
		n.kv = map[string][]byte{}
	}
}

// staleOp uses a handle whose bucket does not exist (rule E9): executed, not compared, ghost tracked.
func (c *seqCtx) staleOp(h *handle) {
	pk := pathKey(h.path)
	c.count("stale_handle_operations")
	switch c.rng.Weighted(40, 15, 8, 5, 10, 7, 7, 3, 5) {
	case 0:
		key := c.pickKey(c.work, nil, h.path, true)
		val, vs := c.pickVal()
		c.emit("h%d.Put(%s, %s) // stale", h.id, qb(key), vs)
		c.count("op:Put")
		if err := h.b.Put(key, val); err == nil && len(key) > 0 && len(val) > 0 {
			if c.work.orphan[pk] == nil {
				c.work.orphan[pk] = map[string][]byte{}
			}
			c.work.orphan[pk][string(key)] = val
			c.count("stale_puts_accepted_by_store")
		}
	case 1:
		var key []byte
		if g := c.work.orphan[pk]; len(g) > 0 && c.rng.Bool() {
			key = []byte(c.pick(sortedKeys(g)))
		} else {
			key = c.pickKey(c.work, nil, h.path, false)
		}
		c.emit("h%d.Get(%s) // stale", h.id, qb(key))
		c.count("op:Get")
		h.b.Get(key)
	case 2:
		var key []byte
		if g := c.work.orphan[pk]; len(g) > 0 && c.rng.Bool() {
			key = []byte(c.pick(sortedKeys(g)))
		} else {
			key = c.pickKey(c.work, nil, h.path, false)
		}
		c.emit("h%d.Delete(%s) // stale", h.id, qb(key))
		c.count("op:Delete")
		if err := h.b.Delete(key); err == nil && c.work.orphan[pk] != nil {
			delete(c.work.orphan[pk], string(key))
		}
	case 3:
		c.emit("h%d.Clear() // stale", h.id)
		c.count("op:Clear")
		if err := h.b.Clear(); err == nil {
			delete(c.work.orphan, pk)
		}
	case 4:
		prefix := c.pickPrefix(nil, h.path)
		c.emit("h%d.GetByPrefix(%s) // stale", h.id, qb(prefix))
		c.count("op:GetByPrefix")
		h.b.GetByPrefix(prefix)
	case 5:
		c.emit("h%d.BucketNames() // stale", h.id)
		c.count("op:BucketNames")
		h.b.BucketNames()
	case 6:
		name := c.pickChildName(nil, h.path, 1)
		id := c.id()
		c.emit("h%d = h%d.Bucket(%s) // stale", id, h.id, q(name))
		c.count("op:Bucket")
		if b := h.b.Bucket(name); b != nil && validName(name) {
			c.addHandle(&c.hs, id, append(append([]string(nil), h.path...), name), b)
		}
	case 7:
		name := c.pickChildName(nil, h.path, 1)
		c.emit("h%d.DeleteBucket(%s) // stale", h.id, q(name))
		c.count("op:DeleteBucket")
		h.b.DeleteBucket(name)
	case 8:
		c.doMeta(c.wview(), h)
	}
}

func (c *seqCtx) writeStep() {
	r := c.rng
	if h := c.forceStale; h != nil {
		c.forceStale = nil
		if c.work.lookup(h.path) == nil {
			c.staleOp(h)
			return
		}
	}
	paths, keys := c.ownBuckets(c.work)
	w := make([]int, kMeta+1)
	w[kCreateTop], w[kTop], w[kDeleteTop], w[kTopNames], w[kFetch], w[kDumpTx] = 5, 5, 1, 2, 4, 1
	w[kCommit], w[kRollback], w[kReadBurst], w[kAbandon] = 8, 3, 2, 1
	w[kNewBucket], w[kBucket], w[kDeleteBucket] = 11, 8, 6
	w[kPut], w[kGet], w[kDelete], w[kClear], w[kPrefix], w[kNames], w[kMeta] = 24, 10, 6, 3, 8, 5, 3
	if len(c.existingTops(c.work)) == 0 {
		w[kCreateTop] += 40
	}
	if len(paths) < 3 {
		w[kNewBucket] += 12
	}
	if keys < 4 {
		w[kPut] += 20
		w[kCommit], w[kRollback] = 2, 1
	}
	if c.reopens >= 1 && !c.rng.Chance(1, 4) {
		w[kAbandon] = 0
	}
	if !c.rich {
		w[kRollback], w[kReadBurst], w[kAbandon] = 1, 1, 0
		if len(paths) >= 2 && keys >= 3 {
			w[kCommit] = 30 // get the first substantial state committed
		}
	} else if c.rollbacks+c.reopens == 0 {
		w[kRollback] = 8
	}
	k := r.Weighted(w...)
	v := c.wview()
	switch k {
	case kCreateTop:
		c.opCreateTop()
		return
	case kTop:
		c.doTop(v)
		return
	case kDeleteTop:
		c.opDeleteTop()
		return
	case kTopNames:
		c.doTopNames(v)
		return
	case kFetch:
		c.doFetch(v)
		return
	case kDumpTx:
		c.emit("(full dump through tx: reads must see the transaction's own writes)")
		c.dump(c.wtx, c.work, "in-tx", "write-tx")
		return
	case kCommit:
		c.opCommit()
		return
	case kRollback:
		c.opRollback()
		return
	case kReadBurst:
		c.readBurst(true)
		return
	case kAbandon:
		c.opReopen(true)
		return
	}
	h := c.pickHandle(c.work, c.hs)
	if h == nil {
		if len(c.existingTops(c.work)) > 0 && r.Chance(9, 10) {
			c.doTop(v)
		} else {
			c.opCreateTop()
		}
		return
	}
	n := c.work.lookup(h.path)
	if n == nil {
		c.staleOp(h)
		return
	}
	switch k {
	case kNewBucket:
		if len(h.path) >= c.maxDepth {
			c.opPut(h, n)
			return
		}
		c.opNewBucket(h, n)
	case kBucket:
		c.doBucket(v, h, n, c.pickChildName(n, h.path, 1))
	case kDeleteBucket:
		c.opDeleteBucket(h, n)
	case kPut:
		c.opPut(h, n)
	case kGet:
		c.doGet(v, h, n)
	case kDelete:
		c.opDelete(h, n)
	case kClear:
		c.opClear(h, n)
	case kPrefix:
		c.doPrefix(v, h, n)
	case kNames:
		c.doNames(v, h, n)
	case kMeta:
		c.doMeta(v, h)
	}
}

// ------------------------------------------------------------------ read transactions

func (c *seqCtx) readBurst(duringWrite bool) {
	mode := "read"
	if duringWrite {
		mode = "read-during-write"
	}
	c.emit("rtx = db.BeginReadTx()")
	c.count("op:BeginReadTx")
	rtx, err := c.st.d.BeginReadTx()
	if err != nil {
		c.drop("BeginReadTx failed", err)
		return
	}
	var hs []*handle
	s := c.st.committed
	v := &view{mode: mode, r: rtx, s: s, hs: &hs, pfx: "r", txn: "rtx"}
	r := c.rng
	for i, n := 0, r.Range(2, 5); i < n && !c.failed; i++ {
		k := r.Weighted(22, 8, 8, 18, 22, 14, 10, 12, 3)
		var h *handle
		if len(hs) > 0 {
			if r.Chance(1, 2) {
				h = hs[len(hs)-1]
			} else {
				h = hs[r.Intn(len(hs))]
			}
		}
		if h == nil && k >= 3 {
			k = 0
			if len(c.metas) > 0 && r.Chance(1, 4) {
				k = 1
			}
		}
		var nd *node
		if h != nil {
			nd = s.lookup(h.path) // never nil: the committed state does not change during the burst
		}
		switch k {
		case 0:
			c.doTop(v)
		case 1:
			c.doFetch(v)
		case 2:
			c.doTopNames(v)
		case 3:
			c.doBucket(v, h, nd, c.pickChildName(nd, h.path, 1))
		case 4:
			c.doGet(v, h, nd)
		case 5:
			c.doPrefix(v, h, nd)
		case 6:
			c.doNames(v, h, nd)
		case 7:
			c.readTxWrite(v, h, nd)
		case 8:
			c.doMeta(v, h)
		}
	}
	c.emit("rtx.Rollback()")
	if err := rtx.Rollback(); err != nil && !c.failed {
		c.check("ReadTxRollback", mode, classOf(err), "ok")
	}
	c.count("read_tx_bursts")
	if duringWrite {
		c.count("read_tx_bursts_during_open_write_tx")
	}
}

// readTxWrite: every write method of a read-transaction bucket must fail and change nothing
// (the absence of change is established by the next dump).
func (c *seqCtx) readTxWrite(v *view, h *handle, n *node) {
	var err error
	op := ""
	switch c.rng.Intn(5) {
	case 0:
		key := c.pickKey(v.s, n, h.path, true)
		if len(key) == 0 {
			key = []byte("k")
		}
		op = "Put"
		c.emit("r%d.Put(%s, v(3,0x01))", h.id, qb(key))
		err = h.b.Put(key, mkVal(3, 1))
	case 1:
		key := c.pickKey(v.s, n, h.path, false)
		if len(key) == 0 {
			key = []byte("k")
		}
		op = "Delete"
		c.emit("r%d.Delete(%s)", h.id, qb(key))
		err = h.b.Delete(key)
	case 2:
		op = "Clear"
		c.emit("r%d.Clear()", h.id)
		err = h.b.Clear()
	case 3:
		name := c.pick(nestedValid)
		op = "NewBucket"
		c.emit("r%d.NewBucket(%s)", h.id, q(name))
		var b db.Bucket
		b, err = h.b.NewBucket(name)
		if b != nil && err != nil {
			err = nil // treated as accepted below
		}
	case 4:
		name := c.pickChildName(n, h.path, 1)
		if !validName(name) {
			name = "a"
		}
		op = "DeleteBucket"
		c.emit("r%d.DeleteBucket(%s)", h.id, q(name))
		err = h.b.DeleteBucket(name)
	}
	c.count("op:ReadTx" + op)
	c.count("read_tx_write_attempts")
	c.check("ReadTx"+op, v.mode, classOf(err), "not-supported", "write-not-allowed")
}

// ------------------------------------------------------------------ sequence / group runners

// prologue (first sequence of a fresh store, 1 in 2): the shortest history found to expose a committed
// transaction that stays invisible until the store is reopened: one transaction creating a bucket with
// one key, three small transactions whose writes cancel out (Put k, Delete k), each committed, dumped and
// followed by a short pause (as between the transactions of a running wallet; lets background work of
// the store finish), then one transaction that Puts k. All of it is ordinary, logged, fully judged API use.
func (c *seqCtx) prologue() {
	top := c.tops[0]
	kc := []byte(c.pick([]string{"a", "k", "b_2_x", "\x00"}))
	c.count("fresh_store_prologues")
	val := func() ([]byte, string) {
		v := mkVal(c.rng.Range(1, 12), byte(c.rng.Intn(256)))
		return v, fmt.Sprintf("v(%d,0x%02x)", len(v), v[0])
	}
	for round := 0; round < 5 && !c.failed; round++ {
		c.opBegin()
		if c.failed {
			return
		}
		var h *handle
		if round == 0 {
			h = c.createTopNamed(top)
		} else {
			h = c.doTopNamed(c.wview(), top)
		}
		if h == nil || c.failed {
			return
		}
		n := c.work.top[top]
		v, vs := val()
		switch round {
		case 0:
			c.putKV(h, n, []byte("z"), v, vs)
		case 4:
			c.putKV(h, n, kc, v, vs)
		default:
			c.putKV(h, n, kc, v, vs)
			if !c.failed {
				c.delKey(h, n, kc)
			}
		}
		if c.failed {
			return
		}
		c.opCommit()
		if round > 0 && round < 4 {
			ms := 5
			if round == 3 {
				ms = 60
			}
			c.emit("(pause %d ms)", ms)
			time.Sleep(time.Duration(ms) * time.Millisecond)
		}
	}
}

func (c *seqCtx) step() {
	if c.wtx != nil {
		c.writeStep()
		return
	}
	// reopening dominates the cost (the store allocates 2 x 64 MiB buffers per open): well under one per sequence
	wb, wr, wo := 70, 15, 8
	if !c.rich {
		wb, wr, wo = 90, 5, 3 // first get something committed
	} else if c.rollbacks+c.reopens == 0 {
		wo = 25
	} else if c.reopens >= 1 {
		wo = 1
	}
	switch c.rng.Weighted(wb, wr, wo) {
	case 0:
		c.opBegin()
	case 1:
		c.readBurst(false)
	case 2:
		if c.lastReopen {
			c.opBegin()
		} else {
			c.opReopen(false)
		}
	}
}

func (c *seqCtx) runSeq() {
	// a pure function of (seed, case): position 0 is the first sequence of a store
	fresh := c.j == 0 && c.rng.Chance(1, 2) && len(c.st.prior) == 0
	defer func() {
		if p := recover(); p != nil {
			op := ""
			if len(c.ops) > 0 {
				op = c.ops[len(c.ops)-1]
				if i := strings.IndexAny(op, "("); i > 0 {
					op = op[:i]
				}
				if i := strings.LastIndex(op, "."); i >= 0 {
					op = op[i+1:]
				}
			}
			c.fail("panic", map[string]string{"op": op}, map[string]interface{}{"panic": fmt.Sprint(p), "stack": string(debug.Stack())})
		}
	}()
	if fresh {
		c.prologue()
	}
	for len(c.ops) < c.maxOps && !c.failed {
		c.step()
	}
	if !c.failed && c.wtx != nil {
		if c.rng.Chance(2, 3) {
			c.opCommit()
		} else {
			c.opRollback()
		}
	}
}

// runGroup runs the given cases one after the other in one store (a fresh one after any failure).
func runGroup(run *vh.Run, root *vh.Rng, g int, cases []int, nOps int) {
	var st *store
	gen := 0
	closeStore := func() {
		if st == nil {
			return
		}
		if st.d != nil {
			st.d.Close()
		}
		os.RemoveAll(st.dir)
		st = nil
	}
	defer closeStore()
	for _, ci := range cases {
		if st == nil {
			dir := filepath.Join(run.Scratch, fmt.Sprintf("store-%d-%d-%d", g, cases[0], gen))
			gen++
			d, err := db.CreateDB("leveldb", dir)
			if err != nil {
				run.Drop("CreateDB failed")
				continue
			}
			st = &store{dir: dir, d: d, committed: newState()}
		}
		md := maxDepth
		if root.Derive("deep", ci).Chance(1, 6) {
			md = 14
		}
		c := &seqCtx{run: run, ci: ci, j: ci % perStore, rng: root.Derive("seq", ci), st: st, maxOps: nOps, maxDepth: md,
			cnt: map[string]int64{}, recentDel: map[string][]string{}}
		c.initNames()
		c.runSeq()
		st.prior = append(st.prior, ci)
		for k, v := range c.cnt {
			run.Count(k, v)
		}
		run.Count("commits", int64(c.commits))
		run.Count("rollbacks", int64(c.rollbacks))
		run.Count("reopens", int64(c.reopens))
		maxMu.Lock()
		if c.depthSeen > globalDepth {
			globalDepth = c.depthSeen
		}
		maxMu.Unlock()
		if !c.dropped {
			hs := make([][]byte, len(c.ops))
			for i, o := range c.ops {
				hs[i] = []byte(o)
			}
			nontrivial := c.rich && c.rollbacks+c.reopens >= 1
			run.Case(vh.Hash64(hs...), nontrivial)
			if nontrivial {
				run.Count("sequences_nontrivial", 1)
			}
			if c.rich {
				run.Count("sequences_with_rich_commit", 1)
			}
			if c.rollbacks+c.reopens >= 1 {
				run.Count("sequences_with_rollback_or_reopen", 1)
			}
			if ci < 2 {
				n := len(c.ops)
				if n > 30 {
					n = 30
				}
				run.Sample(map[string]interface{}{"case": ci, "first_ops": c.ops[:n], "ops_total": len(c.ops), "commits": c.commits, "rollbacks": c.rollbacks, "reopens": c.reopens})
			}
		}
		if c.failed {
			// state of store and model can no longer be trusted: discard both
			func() {
				defer func() { recover() }()
				if c.wtx != nil {
					c.wtx.Rollback()
				}
			}()
			closeStore()
		}
	}
}

func main() {
	if len(os.Args) > 1 && os.Args[1] == "-rfchild" {
		rfChildMain(os.Args[2:])
	}
	run := vh.NewRun("C19", "exploration")
	logging.Init(filepath.Join(run.Scratch, "log"), "c19", "error", 1, true)
	run.Assume("reference = tree of Go maps with a working copy per write transaction; edge semantics E1-E10 (header of cmd/c19/main.go) taken from db.go/leveldb.go/db_test.go as 'rejected, no state change'")
	run.Assume("result order of GetByPrefix/BucketNames is not judged; results of operations through a handle whose bucket does not exist are not judged (only their effect on existing and later-created buckets)")
	nSeq := run.N(1200, 20000)
	nOps := run.N(60, 120)
	root := run.Rng()
	groups := (nSeq + perStore - 1) / perStore
	vh.Parallel(groups, 16, func(g int) {
		lo := g * perStore
		hi := lo + perStore
		if hi > nSeq {
			hi = nSeq
		}
		if run.Only >= 0 {
			if run.Only < lo || run.Only >= hi {
				return
			}
			before := run.Violations()
			runGroup(run, root, g, []int{run.Only}, nOps)
			if run.Violations() == before && run.Only > lo {
				// clean when alone: replay it behind the earlier sequences of its store
				var cs []int
				for ci := lo; ci <= run.Only; ci++ {
					cs = append(cs, ci)
				}
				run.Count("replayed_with_store_context", 1)
				runGroup(run, root, g, cs, nOps)
			}
			return
		}
		cs := make([]int, 0, hi-lo)
		for ci := lo; ci < hi; ci++ {
			cs = append(cs, ci)
		}
		runGroup(run, root, g, cs, nOps)
	})
	run.Count("max_depth_reached", int64(globalDepth))
	// class "read-fault" (readfault.go): scanning operations while a read of the table files fails
	readFaultCases(run, root, nSeq, run.N(14, 210))
	if run.Only < 0 {
		if run.Counter("read_fault_cases") > 0 && run.Counter("read_fault_cases_fault_fired") == 0 {
			run.Inconclusive("read-fault class: the injected read error fired in no case")
		}
		if run.Counter("dumps_compared") == 0 || run.Counter("comparisons") == 0 {
			run.Inconclusive("no dump or result was compared")
		}
		if run.Counter("reopens") == 0 || run.Counter("rollbacks") == 0 || run.Counter("commits") == 0 {
			run.Inconclusive("no commit, rollback or reopen was exercised")
		}
	}
	run.Finish("case = one seeded operation sequence (quick 60, thorough 120 operations) over nested buckets of the real leveldb store with adversarial names/keys, 10 sequences per store under own top-level names; distinct by hash of the operation list; non-trivial = at least one commit with >= 2 buckets and >= 3 keys of the sequence alive, and at least one rollback or reopen", run.N(600, 10000))
}
