package main

// class "read-fault" of c19: a bucket operation that has to SCAN (Clear, DeleteBucket, GetByPrefix, BucketNames) runs
// while one read of the table files under the store fails (strace fault injection: the N-th pread64 of a thread returns
// EIO). Three processes per case:
//
//	populate   (no faults)  create the store, fill  rf/{a,b,c}, rf/b/bb  in one transaction, close, open + close once
//	                        more so that the journal is turned into table files
//	operate    (strace)     open, one write transaction: the scanning operation; every call's result is logged; the
//	                        transaction is committed when every call reported success and rolled back otherwise
//	dump       (no faults)  open, read the whole tree
//
// Oracle (atomicity clause of the property, with the outcome the code itself REPORTED): all calls ok and Commit ok =>
// the dump equals the model after the operation, wholly; any call failed (rolled back) => the dump equals the
// populated state, wholly; Commit failed => either of the two, nothing in between. A scan that reported success must
// have returned everything. Whether and how often the fault fired is read from the strace log; it never decides.

import (
	"bytes"
	"encoding/binary"
	"encoding/hex"
	"encoding/json"
	"fmt"
	"os"
	"os/exec"
	"path/filepath"
	"sort"
	"strings"
	"time"

	"github.com/massnetorg/mass-core/logging"
	"massnet.org/mass/poc/wallet/db"
	_ "massnet.org/mass/poc/wallet/db/ldb"
	"verif/harness/internal/vh"
)

type rfSpec struct {
	Case  int    `json:"case"`
	Seed  uint64 `json:"seed"`
	NB    int    `json:"entries_in_b"`
	NSide int    `json:"entries_in_a_and_c"`
	NSub  int    `json:"entries_in_b_bb"`
	Op    string `json:"operation"`
	Nth   int    `json:"failing_pread_ordinal"`
}

var rfOps = []string{"clear-b", "delete-b", "scan-b-then-put", "clear-b-after-own-writes", "names-then-delete-bb", "clear-bb-then-clear-b", "read-tx-scans"}

// rfSubPrefix: keys of b start with their 4-byte big-endian index: this prefix selects the indices 256..511
const rfSubPrefix = "000001"

type rfTree map[string]map[string]string // bucket path ("rf/b") -> key(hex) -> value(hex)

var rfPaths = []string{"rf", "rf/a", "rf/b", "rf/b/bb", "rf/c"}

func rfEntries(seed uint64, label string, n int) map[string]string {
	r := vh.NewRng(seed).Derive(label, n)
	m := make(map[string]string, n)
	for i := 0; i < n; i++ {
		k := make([]byte, 4, 12)
		binary.BigEndian.PutUint32(k, uint32(i))
		k = append(k, r.Bytes(2+r.Intn(7))...)
		m[hex.EncodeToString(k)] = hex.EncodeToString(r.Bytes(60 + r.Intn(80)))
	}
	return m
}

func rfInitial(sp *rfSpec) rfTree {
	return rfTree{
		"rf":      rfEntries(sp.Seed, "rf", 5),
		"rf/a":    rfEntries(sp.Seed, "a", sp.NSide),
		"rf/b":    rfEntries(sp.Seed, "b", sp.NB),
		"rf/b/bb": rfEntries(sp.Seed, "bb", sp.NSub),
		"rf/c":    rfEntries(sp.Seed, "c", sp.NSide),
	}
}

func (t rfTree) clone() rfTree {
	o := rfTree{}
	for p, m := range t {
		mm := make(map[string]string, len(m))
		for k, v := range m {
			mm[k] = v
		}
		o[p] = mm
	}
	return o
}

// own writes of "clear-b-after-own-writes": 40 new keys and 40 deletions in b before the Clear
func rfOwnWrites(sp *rfSpec) (puts map[string]string, dels []string) {
	puts = rfEntries(sp.Seed^0x5bd1e995, "own", 40)
	ks := make([]string, 0, sp.NB)
	for k := range rfEntries(sp.Seed, "b", sp.NB) {
		ks = append(ks, k)
	}
	sort.Strings(ks)
	for i := 0; i < 40 && i*7 < len(ks); i++ {
		dels = append(dels, ks[i*7])
	}
	return
}

func rfAfter(sp *rfSpec) rfTree {
	t := rfInitial(sp).clone()
	switch sp.Op {
	case "clear-b", "clear-b-after-own-writes":
		t["rf/b"] = map[string]string{}
	case "delete-b":
		delete(t, "rf/b")
		delete(t, "rf/b/bb")
	case "scan-b-then-put":
		t["rf/a"]["00ffee"] = "aa55"
	case "names-then-delete-bb":
		delete(t, "rf/b/bb")
	case "clear-bb-then-clear-b":
		t["rf/b"] = map[string]string{}
		t["rf/b/bb"] = map[string]string{}
	}
	return t
}

func rfBucket(top db.Bucket, path string) db.Bucket {
	b := top
	for _, n := range strings.Split(path, "/")[1:] {
		if b == nil {
			return nil
		}
		b = b.Bucket(n)
	}
	return b
}

type rfCall struct {
	Call string `json:"call"`
	Err  string `json:"err,omitempty"`
	N    int    `json:"n,omitempty"`
	Sum  string `json:"sum,omitempty"`
}

type rfReport struct {
	Phase    string            `json:"phase"`
	OpenErr  string            `json:"open_err,omitempty"`
	Calls    []rfCall          `json:"calls,omitempty"`
	Outcome  string            `json:"outcome,omitempty"` // committed | rolled-back | commit-failed
	Dump     map[string]string `json:"dump,omitempty"`    // path -> "absent" | "<n>:<hash>"
	DumpErrs []string          `json:"dump_errs,omitempty"`
}

func rfSum(m map[string]string) string {
	ks := make([]string, 0, len(m))
	for k := range m {
		ks = append(ks, k)
	}
	sort.Strings(ks)
	var buf bytes.Buffer
	for _, k := range ks {
		buf.WriteString(k)
		buf.WriteByte('=')
		buf.WriteString(m[k])
		buf.WriteByte(';')
	}
	return fmt.Sprintf("%d:%016x", len(ks), vh.Hash64(buf.Bytes()))
}

func rfSumEntries(es []*db.Entry) string {
	m := make(map[string]string, len(es))
	for _, e := range es {
		m[hex.EncodeToString(e.Key)] = hex.EncodeToString(e.Value)
	}
	if len(m) != len(es) {
		return fmt.Sprintf("%d-entries-%d-distinct", len(es), len(m))
	}
	return rfSum(m)
}

func rfChildMain(args []string) {
	// args: <phase> <dir> <spec.json> <report.json>
	phase, dir, specPath, outPath := args[0], args[1], args[2], args[3]
	var sp rfSpec
	b, err := os.ReadFile(specPath)
	if err != nil || json.Unmarshal(b, &sp) != nil {
		os.Exit(70)
	}
	logging.Init(filepath.Join(filepath.Dir(outPath), "log-"+phase), "c19rf", "error", 1, true)
	rep := rfReport{Phase: phase}
	finish := func() {
		jb, _ := json.Marshal(&rep)
		os.WriteFile(outPath, jb, 0o644)
		os.Exit(0)
	}
	hexb := func(s string) []byte { x, _ := hex.DecodeString(s); return x }
	call := func(name string, err error) bool {
		c := rfCall{Call: name}
		if err != nil {
			c.Err = err.Error()
		}
		rep.Calls = append(rep.Calls, c)
		return err == nil
	}
	switch phase {
	case "populate":
		d, err := db.CreateDB("leveldb", dir)
		if err != nil {
			rep.OpenErr = err.Error()
			finish()
		}
		tx, err := d.BeginTx()
		if err != nil {
			rep.OpenErr = err.Error()
			finish()
		}
		top, err := tx.CreateTopLevelBucket("rf")
		ok := call("CreateTopLevelBucket", err)
		init := rfInitial(&sp)
		bk := map[string]db.Bucket{"rf": top}
		for _, p := range rfPaths[1:] {
			if !ok {
				break
			}
			parent := bk[p[:strings.LastIndex(p, "/")]]
			nb, err := parent.NewBucket(p[strings.LastIndex(p, "/")+1:])
			ok = call("NewBucket "+p, err)
			bk[p] = nb
		}
		for _, p := range rfPaths {
			if !ok {
				break
			}
			for k, v := range init[p] {
				if err := bk[p].Put(hexb(k), hexb(v)); err != nil {
					ok = call("Put "+p, err)
					break
				}
			}
		}
		if ok {
			ok = call("Commit", tx.Commit())
		} else {
			tx.Rollback()
		}
		d.Close()
		// second open: the journal becomes a table file
		d2, err := db.OpenDB("leveldb", dir)
		if err != nil {
			rep.OpenErr = err.Error()
			finish()
		}
		d2.Close()
		if ok {
			rep.Outcome = "committed"
		}
		finish()
	case "operate":
		d, err := db.OpenDB("leveldb", dir)
		if err != nil {
			rep.OpenErr = err.Error()
			finish()
		}
		if sp.Op == "read-tx-scans" {
			// the scans of a read transaction: whatever reports success is complete
			rtx, err := d.BeginReadTx()
			if err != nil {
				rep.OpenErr = "BeginReadTx: " + err.Error()
				d.Close()
				finish()
			}
			rep.Outcome = "read-only"
			scan := func(name string, bk db.Bucket, prefix []byte) {
				es, err := bk.GetByPrefix(prefix)
				if call(name, err) {
					c := &rep.Calls[len(rep.Calls)-1]
					c.N, c.Sum = len(es), rfSumEntries(es)
				}
			}
			names := func(name string, f func() ([]string, error)) {
				ns, err := f()
				if call(name, err) {
					sort.Strings(ns)
					c := &rep.Calls[len(rep.Calls)-1]
					c.N, c.Sum = len(ns), strings.Join(ns, ",")
				}
			}
			if top := rtx.TopLevelBucket("rf"); top != nil {
				if bB := top.Bucket("b"); bB != nil {
					scan("GetByPrefix b", bB, nil)
					scan("GetByPrefix b "+rfSubPrefix, bB, hexb(rfSubPrefix))
					names("BucketNames b", bB.BucketNames)
				} else {
					call("Bucket b", fmt.Errorf("not found"))
				}
				if c := top.Bucket("c"); c != nil {
					scan("GetByPrefix c", c, nil)
				}
				names("BucketNames rf", top.BucketNames)
			} else {
				call("TopLevelBucket rf", fmt.Errorf("not found"))
			}
			rtx.Rollback()
			d.Close()
			finish()
		}
		tx, err := d.BeginTx()
		if err != nil {
			rep.OpenErr = "BeginTx: " + err.Error()
			d.Close()
			finish()
		}
		top := tx.TopLevelBucket("rf")
		if top == nil {
			rep.OpenErr = "top-level bucket not found"
			tx.Rollback()
			d.Close()
			finish()
		}
		ok := true
		bB := top.Bucket("b")
		if bB == nil {
			// (a lookup that fails because of the fault shows as "no such bucket": the operation is not carried out)
			ok = call("Bucket b", fmt.Errorf("not found"))
		}
		if ok {
			switch sp.Op {
			case "clear-b":
				ok = call("Clear b", bB.Clear())
			case "delete-b":
				ok = call("DeleteBucket b", top.DeleteBucket("b"))
			case "scan-b-then-put":
				es, err := bB.GetByPrefix(nil)
				ok = call("GetByPrefix b", err)
				if ok {
					c := &rep.Calls[len(rep.Calls)-1]
					c.N, c.Sum = len(es), rfSumEntries(es)
					if a := top.Bucket("a"); a != nil {
						ok = call("Put a", a.Put(hexb("00ffee"), hexb("aa55")))
					} else {
						ok = call("Bucket a", fmt.Errorf("not found"))
					}
				}
			case "clear-b-after-own-writes":
				puts, dels := rfOwnWrites(&sp)
				for k, v := range puts {
					if err := bB.Put(hexb(k), hexb(v)); err != nil {
						ok = call("Put b", err)
						break
					}
				}
				for _, k := range dels {
					if !ok {
						break
					}
					if err := bB.Delete(hexb(k)); err != nil {
						ok = call("Delete b", err)
					}
				}
				if ok {
					ok = call("Clear b", bB.Clear())
				}
			case "names-then-delete-bb":
				ns, err := bB.BucketNames()
				ok = call("BucketNames b", err)
				if ok {
					c := &rep.Calls[len(rep.Calls)-1]
					c.N, c.Sum = len(ns), strings.Join(ns, ",")
					ok = call("DeleteBucket bb", bB.DeleteBucket("bb"))
				}
			case "clear-bb-then-clear-b":
				if bb := bB.Bucket("bb"); bb != nil {
					ok = call("Clear bb", bb.Clear())
				} else {
					ok = call("Bucket bb", fmt.Errorf("not found"))
				}
				if ok {
					ok = call("Clear b", bB.Clear())
				}
			}
		}
		if ok {
			if call("Commit", tx.Commit()) {
				rep.Outcome = "committed"
			} else {
				rep.Outcome = "commit-failed"
			}
		} else {
			tx.Rollback()
			rep.Outcome = "rolled-back"
		}
		d.Close()
		finish()
	case "dump":
		d, err := db.OpenDB("leveldb", dir)
		if err != nil {
			rep.OpenErr = err.Error()
			finish()
		}
		rep.Dump = map[string]string{}
		tx, err := d.BeginReadTx()
		if err != nil {
			rep.OpenErr = "BeginReadTx: " + err.Error()
			d.Close()
			finish()
		}
		top := tx.TopLevelBucket("rf")
		for _, p := range rfPaths {
			var bk db.Bucket
			if top != nil {
				bk = rfBucket(top, p)
			}
			if bk == nil {
				rep.Dump[p] = "absent"
				continue
			}
			es, err := bk.GetByPrefix(nil)
			if err != nil {
				rep.DumpErrs = append(rep.DumpErrs, p+": "+err.Error())
				continue
			}
			rep.Dump[p] = rfSumEntries(es)
		}
		tx.Rollback()
		d.Close()
		finish()
	}
	os.Exit(71)
}

func rfExpect(t rfTree) map[string]string {
	m := map[string]string{}
	for _, p := range rfPaths {
		if e, ok := t[p]; ok {
			m[p] = rfSum(e)
		} else {
			m[p] = "absent"
		}
	}
	return m
}

func rfDiff(got, want map[string]string) string {
	var ds []string
	for _, p := range rfPaths {
		if got[p] != want[p] {
			ds = append(ds, fmt.Sprintf("%s: found %s, expected %s", p, got[p], want[p]))
		}
	}
	return strings.Join(ds, "; ")
}

func rfSpecOf(root *vh.Rng, k int) *rfSpec {
	r := root.Derive("read-fault", k)
	sp := &rfSpec{Case: k, Seed: r.Uint64(), NB: 1500 + r.Intn(2500), NSide: 200 + r.Intn(300), NSub: 100 + r.Intn(400)}
	sp.Op = rfOps[k%len(rfOps)]
	// preads 1..3/4 open the table (footer, meta index, filter, index); what follows are its data blocks
	sp.Nth = 3 + r.Intn(14)
	return sp
}

// readFaultCases runs cases [0,n) (or only the one asked for); case index within the run = base + k.
func readFaultCases(run *vh.Run, root *vh.Rng, base, n int) {
	strace, err := exec.LookPath("strace")
	if err != nil {
		run.Drop("read-fault: strace not available")
		return
	}
	exe, _ := os.Executable()
	vh.Parallel(n, 8, func(k int) {
		ci := base + k
		if !run.Want(ci) {
			return
		}
		sp := rfSpecOf(root, k)
		dir := filepath.Join(run.Scratch, fmt.Sprintf("rf-%d", k))
		os.MkdirAll(dir, 0o755)
		defer os.RemoveAll(dir)
		store := filepath.Join(dir, "store")
		specPath := filepath.Join(dir, "spec.json")
		jb, _ := json.Marshal(sp)
		os.WriteFile(specPath, jb, 0o644)
		phase := func(name string, under bool) (*rfReport, vh.ChildResult, string) {
			out := filepath.Join(dir, name+".json")
			argv := []string{exe, "-rfchild", name, store, specPath, out}
			trace := ""
			if under {
				trace = filepath.Join(dir, "strace.log")
				argv = append([]string{strace, "-f", "-o", trace, "-e", "trace=pread64", "-e", fmt.Sprintf("inject=pread64:error=EIO:when=%d", sp.Nth)}, argv...)
			}
			res := vh.RunChild(argv, []string{"GOMAXPROCS=2"}, filepath.Join(dir, name+".out"), 3*time.Minute)
			var rep rfReport
			b, err := os.ReadFile(out)
			if err != nil || json.Unmarshal(b, &rep) != nil {
				return nil, res, trace
			}
			return &rep, res, trace
		}
		detail := func(extra map[string]interface{}) map[string]interface{} {
			d := map[string]interface{}{"spec": sp, "class": "read-fault",
				"how_to_reproduce": "populate: CreateDB, one transaction filling rf/{a,b,c} and rf/b/bb (entries derived from spec.seed), Close, OpenDB, Close; operate: under `strace -f -e trace=pread64 -e inject=pread64:error=EIO:when=<ordinal>` OpenDB, BeginTx, the operation, Commit if every call reported success else Rollback, Close; dump: OpenDB, read everything"}
			for k, v := range extra {
				d[k] = v
			}
			return d
		}
		pop, res, _ := phase("populate", false)
		if pop == nil || pop.OpenErr != "" || pop.Outcome != "committed" {
			if frames := vh.DyingFrames(res.OutFile); vh.CodeUnderTestFrame(frames) != "" {
				run.Violate(ci, "store-process-died", map[string]string{"phase": "populate", "frame": vh.CodeUnderTestFrame(frames)}, detail(map[string]interface{}{"frames": frames}))
				return
			}
			run.Drop("read-fault: populate phase did not complete")
			return
		}
		op, res, trace := phase("operate", true)
		fired := 0
		if tb, err := os.ReadFile(trace); err == nil {
			fired = bytes.Count(tb, []byte("(INJECTED)"))
		}
		run.Eval(1)
		run.Count("read_fault_cases", 1)
		if fired > 0 {
			run.Count("read_fault_cases_fault_fired", 1)
		}
		if op == nil {
			frames := vh.DyingFrames(res.OutFile)
			if f := vh.CodeUnderTestFrame(frames); f != "" {
				run.Violate(ci, "store-process-died-on-read-error", map[string]string{"op": sp.Op, "frame": f}, detail(map[string]interface{}{"frames": frames, "faults_fired": fired}))
				return
			}
			run.Drop("read-fault: operate phase left no report")
			return
		}
		run.Case(vh.HashS("read-fault", sp.Op, fmt.Sprint(sp.Nth), fmt.Sprint(sp.NB), op.Outcome), fired > 0)
		run.Count("read_fault_outcome_"+op.Outcome, 1)
		if op.OpenErr != "" {
			run.Count("read_fault_open_failed", 1)
		}
		dmp, res, _ := phase("dump", false)
		if dmp == nil || dmp.OpenErr != "" || len(dmp.DumpErrs) > 0 {
			if dmp == nil {
				frames := vh.DyingFrames(res.OutFile)
				if f := vh.CodeUnderTestFrame(frames); f != "" {
					run.Violate(ci, "store-process-died", map[string]string{"phase": "dump", "frame": f}, detail(map[string]interface{}{"frames": frames}))
					return
				}
				run.Drop("read-fault: dump phase left no report")
				return
			}
			run.Violate(ci, "store-unreadable-after-read-fault", map[string]string{"op": sp.Op, "outcome": op.Outcome},
				detail(map[string]interface{}{"operate": op, "dump": dmp, "faults_fired": fired}))
			return
		}
		before, after := rfExpect(rfInitial(sp)), rfExpect(rfAfter(sp))
		// a scan that reported success returned everything
		for _, c := range op.Calls {
			if c.Err != "" {
				continue
			}
			wantScan, wantNames := "", ""
			switch c.Call {
			case "GetByPrefix b":
				wantScan = before["rf/b"]
			case "GetByPrefix c":
				wantScan = before["rf/c"]
			case "GetByPrefix b " + rfSubPrefix:
				sub := map[string]string{}
				for k, v := range rfInitial(sp)["rf/b"] {
					if strings.HasPrefix(k, rfSubPrefix) {
						sub[k] = v
					}
				}
				wantScan = rfSum(sub)
			case "BucketNames b":
				wantNames = "bb"
			case "BucketNames rf":
				wantNames = "a,b,c"
			}
			if wantScan != "" {
				run.Count("read_fault_scans_judged", 1)
				if c.Sum != wantScan {
					run.Violate(ci, "scan-reported-success-with-part-of-the-bucket", map[string]string{"op": sp.Op, "call": c.Call},
						detail(map[string]interface{}{"returned": c.Sum, "expected": wantScan, "operate": op, "faults_fired": fired}))
					return
				}
			}
			if wantNames != "" {
				run.Count("read_fault_scans_judged", 1)
				if c.Sum != wantNames {
					run.Violate(ci, "bucket-listing-reported-success-with-part-of-the-names", map[string]string{"op": sp.Op, "call": c.Call},
						detail(map[string]interface{}{"returned": c.Sum, "expected": wantNames, "operate": op, "faults_fired": fired}))
					return
				}
			}
		}
		var want []map[string]string
		switch {
		case op.OpenErr != "" || op.Outcome == "rolled-back" || op.Outcome == "read-only":
			want = []map[string]string{before}
		case op.Outcome == "committed":
			want = []map[string]string{after}
		default:
			want = []map[string]string{before, after}
		}
		run.Count("read_fault_dumps_compared", 1)
		okAny := false
		for _, w := range want {
			if rfDiff(dmp.Dump, w) == "" {
				okAny = true
			}
		}
		if !okAny {
			kind := "transaction-applied-in-part"
			if op.Outcome == "rolled-back" || op.OpenErr != "" {
				kind = "rolled-back-transaction-left-a-trace"
			}
			run.Violate(ci, kind, map[string]string{"op": sp.Op, "outcome": op.Outcome},
				detail(map[string]interface{}{"operate": op, "difference": rfDiff(dmp.Dump, want[0]), "faults_fired": fired, "found": dmp.Dump}))
		}
	})
}
