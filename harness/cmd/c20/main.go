// c20: HTTP API admits only configured origins and reports exact values.
//
// Three monitors over the real code, one driver:
//
//	(1) access control: api.VerifIPAccessControlFunc + api.VerifGatewayChain (the wrapping api.Run
//	    installs in front of the gateway mux) against an independent net/netip classification;
//	(2) workspace listing: a real api.Server over scripted space keepers, every listed item compared
//	    with massutil.GetMassDBBindingTarget / GetChiaPlotBindingTarget / NewAddressPubKeyHash;
//	(3) amounts: api.AmountToString / api.StringToAmount against an exact math/big expansion.
//
// Once per run: the gRPC listener of a started api.Server must be bound to 127.0.0.1 (/proc/net/tcp).
package main

import (
	"bytes"
	"context"
	"encoding/hex"
	"fmt"
	"math"
	"math/big"
	"net"
	"net/http"
	"net/http/httptest"
	"net/netip"
	"os"
	"path/filepath"
	"regexp"
	"strconv"
	"strings"
	"sync"
	"sync/atomic"
	"time"

	"github.com/golang/protobuf/ptypes/empty"
	"github.com/massnetorg/mass-core/consensus"
	"github.com/massnetorg/mass-core/logging"
	"github.com/massnetorg/mass-core/massutil"
	"github.com/massnetorg/mass-core/poc/chiapos"
	"github.com/massnetorg/mass-core/poc/pocutil"
	"github.com/massnetorg/mass-core/pocec"
	"massnet.org/mass/api"
	pb "massnet.org/mass/api/proto"
	"massnet.org/mass/config"
	"massnet.org/mass/mining"
	"massnet.org/mass/poc/engine"
	engine_v2 "massnet.org/mass/poc/engine.v2"
	"massnet.org/mass/poc/wallet/keystore/hdkeychain"
	"massnet.org/mass/version"
	"verif/harness/internal/vh"
)

// ---------------------------------------------------------------------------------------------
// part 1: access control
// ---------------------------------------------------------------------------------------------

var (
	pfx10  = netip.MustParsePrefix("10.0.0.0/8")
	pfx172 = netip.MustParsePrefix("172.16.0.0/12")
	pfx192 = netip.MustParsePrefix("192.168.0.0/16")
	lo4    = netip.MustParseAddr("127.0.0.1")
	lo6    = netip.MustParseAddr("::1")
)

// acfg is one operator configuration.
type acfg struct {
	WL      []string
	LAN     []string
	Invalid bool // contains a whitelist entry that is not an IP under any reading
}

// refCfg is the reference's reading of a configuration.
type refCfg struct {
	wildcard bool
	wl       []netip.Addr
	lan      map[string]bool
}

func buildRef(c acfg) (refCfg, bool) {
	r := refCfg{lan: map[string]bool{}}
	ok := true
	for _, w := range c.WL {
		if w == "*" {
			r.wildcard = true
			continue
		}
		a, err := netip.ParseAddr(w)
		if err != nil || a.Zone() != "" {
			ok = false
			continue
		}
		r.wl = append(r.wl, a.Unmap())
	}
	for _, l := range c.LAN {
		switch l {
		case "10", "172", "192":
			r.lan[l] = true
		}
	}
	return r, ok
}

// classify returns the permitted class of an address under a configuration:
// wildcard | loopback | whitelist | lan10 | lan172 | lan192 | loopback_range_other (not judged) | none.
func (r refCfg) classify(a netip.Addr) string {
	if r.wildcard {
		return "wildcard"
	}
	a = a.WithZone("").Unmap()
	if a == lo4 || a == lo6 {
		return "loopback"
	}
	for _, w := range r.wl {
		if w == a {
			return "whitelist"
		}
	}
	if a.Is4() {
		if r.lan["10"] && pfx10.Contains(a) {
			return "lan10"
		}
		if r.lan["172"] && pfx172.Contains(a) {
			return "lan172"
		}
		if r.lan["192"] && pfx192.Contains(a) {
			return "lan192"
		}
	}
	if a.IsLoopback() {
		// 127.0.0.0/8 other than 127.0.0.1: loopback by RFC 1122, not admitted by the code. Admitting
		// or refusing it both satisfy the statement; counted, never judged.
		return "loopback_range_other"
	}
	return "none"
}

var hostsFile = map[string][]netip.Addr{}

func loadHosts() {
	b, err := os.ReadFile("/etc/hosts")
	if err != nil {
		return
	}
	for _, l := range strings.Split(string(b), "\n") {
		if i := strings.IndexByte(l, '#'); i >= 0 {
			l = l[:i]
		}
		f := strings.Fields(l)
		if len(f) < 2 {
			continue
		}
		a, err := netip.ParseAddr(f[0])
		if err != nil {
			continue
		}
		for _, n := range f[1:] {
			n = strings.ToLower(strings.TrimSuffix(n, "."))
			hostsFile[n] = append(hostsFile[n], a)
		}
	}
}

// lenient returns every address a forgiving reader could take the string to mean: the host part
// (port, empty port or brackets dropped) as an IP literal, or a name resolved through /etc/hosts.
func lenient(s string) []netip.Addr {
	cands := []string{s}
	if h, _, err := net.SplitHostPort(s); err == nil {
		cands = append(cands, h)
	}
	if i := strings.LastIndexByte(s, ':'); i >= 0 {
		cands = append(cands, s[:i])
	}
	var out []netip.Addr
	for _, c := range cands {
		for _, h := range []string{c, strings.TrimSuffix(strings.TrimPrefix(c, "["), "]")} {
			if a, err := netip.ParseAddr(h); err == nil {
				out = append(out, a)
				continue
			}
			n := strings.ToLower(strings.TrimSuffix(h, "."))
			out = append(out, hostsFile[n]...)
			if n == "localhost" {
				out = append(out, lo4, lo6)
			}
		}
	}
	return out
}

// resolveLenient asks the system resolver (2 s bound) for the host part of s.
func resolveLenient(s string) []netip.Addr {
	var out []netip.Addr
	hosts := []string{s}
	if h, _, err := net.SplitHostPort(s); err == nil {
		hosts = append(hosts, h)
	}
	for _, h := range hosts {
		if h == "" {
			continue
		}
		ctx, cancel := context.WithTimeout(context.Background(), 2*time.Second)
		ips, err := net.DefaultResolver.LookupNetIP(ctx, "ip", h)
		cancel()
		if err == nil {
			out = append(out, ips...)
		}
	}
	return out
}

// edge addresses: range edges +-1, textual near-misses of the LAN prefixes, special v6 shapes.
var edgeAddrs = []string{
	"0.0.0.0", "0.0.0.1", "1.2.3.4", "8.8.8.8", "9.255.255.255", "10.0.0.0", "10.0.0.1", "10.1.2.3", "10.255.255.255", "11.0.0.0",
	"100.1.1.1", "101.0.0.1", "110.0.0.1", "210.0.0.1", "100.64.0.1", "126.255.255.255", "127.0.0.0", "127.0.0.1", "127.0.0.2",
	"127.0.1.1", "127.255.255.255", "128.0.0.0", "169.254.1.1", "171.255.255.255", "172.0.0.1", "172.15.255.255", "172.16.0.0",
	"172.16.0.1", "172.20.30.40", "172.31.255.255", "172.32.0.0", "172.48.0.1", "172.100.0.1", "172.160.0.1", "172.255.255.255",
	"17.2.16.1", "192.0.0.1", "192.16.8.1", "192.1.68.1", "192.167.255.255", "192.168.0.0", "192.168.1.1", "192.168.255.255",
	"192.169.0.0", "192.200.0.1", "193.168.0.1", "19.2.168.1", "224.0.0.1", "255.255.255.255",
	"::", "::1", "::2", "::1:0", "1::", "1::1", "fe80::1", "fc00::1", "2001:db8::1", "127::1", "10::1", "a00::1", "192:168::1",
	"::10.0.0.1", "::127.0.0.1", "::192.168.1.1", "::7f00:1", "::ffff:0:10.0.0.1", "64:ff9b::a00:1", "64:ff9b::7f00:1", "2002:a00:1::",
	"2002:c0a8:101::", "100::1", "ff02::1", "::fffe:10.0.0.1", "0:0:0:0:0:fffe:7f00:1", "1::ffff:10.0.0.1",
}

func mustAddrs(ss []string) []netip.Addr {
	out := make([]netip.Addr, len(ss))
	for i, s := range ss {
		out[i] = netip.MustParseAddr(s)
	}
	return out
}

var edges = mustAddrs(edgeAddrs)

func randV4(rng *vh.Rng) netip.Addr {
	var b [4]byte
	copy(b[:], rng.Bytes(4))
	return netip.AddrFrom4(b)
}

func randV6(rng *vh.Rng) netip.Addr {
	var b [16]byte
	copy(b[:], rng.Bytes(16))
	switch rng.Intn(4) {
	case 0: // many zero groups
		for i := 2; i < 14; i++ {
			b[i] = 0
		}
	case 1:
		b[0], b[1] = 0x20, 0x01
	}
	a := netip.AddrFrom16(b)
	if a.Is4In6() { // keep "v6" meaning not mapped
		b[10] ^= 1
		a = netip.AddrFrom16(b)
	}
	return a
}

func addU32(a netip.Addr, d int64) netip.Addr {
	b := a.As4()
	v := uint32(b[0])<<24 | uint32(b[1])<<16 | uint32(b[2])<<8 | uint32(b[3])
	v = uint32(int64(v) + d)
	return netip.AddrFrom4([4]byte{byte(v >> 24), byte(v >> 16), byte(v >> 8), byte(v)})
}

// nearMiss derives an address that differs slightly (numerically or textually) from w.
func nearMiss(rng *vh.Rng, w netip.Addr) (netip.Addr, string) {
	w = w.WithZone("").Unmap()
	if w.Is4() {
		b := w.As4()
		switch rng.Intn(7) {
		case 0:
			return addU32(w, 1), "wl+1"
		case 1:
			return addU32(w, -1), "wl-1"
		case 2:
			return addU32(w, int64(rng.PickI(256, -256, 65536, -65536, 1<<24, -(1<<24)))), "wl+-octet"
		case 3: // textual extension of the last octet: 1.2.3.4 -> 1.2.3.40..49
			if v := int(b[3])*10 + rng.Intn(10); v <= 255 && v != int(b[3]) {
				b[3] = byte(v)
				return netip.AddrFrom4(b), "wl-text-suffix"
			}
		case 4: // textual extension of the first octet: 1.2.3.4 -> 11.2.3.4 / 21.2.3.4
			d := rng.Range(1, 2)
			m := 10
			if b[0] >= 10 {
				m = 100
			}
			if v := d*m + int(b[0]); v <= 255 {
				b[0] = byte(v)
				return netip.AddrFrom4(b), "wl-text-prefix"
			}
		case 5: // same 4 bytes inside a non-mapped v6 address
			var x [16]byte
			copy(x[12:], b[:])
			switch rng.Intn(4) {
			case 0: // ::a.b.c.d (v4-compatible)
			case 1:
				x[0], x[1], x[2], x[3] = 0, 0x64, 0xff, 0x9b
			case 2: // ::ffff:0:a.b.c.d
				x[8], x[9] = 0xff, 0xff
			case 3: // ::fffe:a.b.c.d
				x[10], x[11] = 0xff, 0xfe
			}
			return netip.AddrFrom16(x), "wl-embedded-in-v6"
		}
		bit := rng.Intn(32)
		b[bit/8] ^= 1 << (bit % 8)
		return netip.AddrFrom4(b), "wl-bitflip"
	}
	b := w.As16()
	switch rng.Intn(4) {
	case 0:
		b[15]++
		return netip.AddrFrom16(b), "wl+1"
	case 1: // 2001:db8::1 -> 2001:db8::10
		v := (uint16(b[14])<<8 | uint16(b[15])) << 4
		b[14], b[15] = byte(v>>8), byte(v)
		a := netip.AddrFrom16(b)
		if a != w {
			return a, "wl-text-suffix"
		}
	case 2: // shift the last group up: ::1 -> ::1:0
		copy(b[:14], b[2:])
		b[14], b[15] = 0, 0
		a := netip.AddrFrom16(b)
		if a != w && !a.Is4In6() {
			return a, "wl-group-shift"
		}
	}
	bit := rng.Intn(128)
	b[bit/8] ^= 1 << (bit % 8)
	a := netip.AddrFrom16(b)
	if a.Is4In6() {
		b[0] ^= 0x20
		a = netip.AddrFrom16(b)
	}
	return a, "wl-bitflip"
}

var zones = []string{"eth0", "lo", "1", "en0", "wlan0"}

func expandV6(a netip.Addr) string { return a.WithZone("").StringExpanded() }

// wellFormed renders base address a in one of the textual shapes http.Server could produce or
// that netip.ParseAddrPort accepts. Returns the string and the shape label.
func wellFormed(rng *vh.Rng, a netip.Addr, shape int) (string, string) {
	port := strconv.Itoa(rng.Range(1, 65535))
	switch rng.Intn(12) {
	case 0:
		port = "0"
	case 1:
		port = "65535"
	case 2:
		port = "80"
	}
	a = a.WithZone("")
	if a.Is4In6() {
		a = a.Unmap()
	}
	if a.Is4() {
		b := a.As4()
		switch shape % 6 {
		case 0:
			return a.String() + ":" + port, "v4"
		case 1:
			return "[::ffff:" + a.String() + "]:" + port, "v4-mapped-dotted"
		case 2:
			return fmt.Sprintf("[::ffff:%x:%x]:%s", uint16(b[0])<<8|uint16(b[1]), uint16(b[2])<<8|uint16(b[3]), port), "v4-mapped-hex"
		case 3:
			return "[0:0:0:0:0:ffff:" + a.String() + "]:" + port, "v4-mapped-expanded"
		case 4:
			return "[::ffff:" + a.String() + "%" + zones[rng.Intn(len(zones))] + "]:" + port, "v4-mapped-zone"
		default:
			return "[::FFFF:" + a.String() + "]:" + port, "v4-mapped-upper"
		}
	}
	switch shape % 4 {
	case 0:
		return "[" + a.String() + "]:" + port, "v6"
	case 1:
		return "[" + a.String() + "%" + zones[rng.Intn(len(zones))] + "]:" + port, "v6-zone"
	case 2:
		return "[" + expandV6(a) + "]:" + port, "v6-expanded"
	default:
		return "[" + strings.ToUpper(a.String()) + "]:" + port, "v6-upper"
	}
}

func shapesOf(a netip.Addr) int {
	if a.Unmap().Is4() {
		return 6
	}
	return 4
}

// malformed shapes. dns=true: the Go resolver may send a DNS query for this shape (kept to a
// fixed handful per run so that a black-holed resolver cannot stall the check).
type malShape struct {
	name string
	dns  bool
	f    func(rng *vh.Rng, a netip.Addr) string
}

func hostOf(a netip.Addr) string { return a.WithZone("").Unmap().String() }

var malShapes = []malShape{
	{"no-port", false, func(r *vh.Rng, a netip.Addr) string { return hostOf(a) }},
	{"bracket-no-port", false, func(r *vh.Rng, a netip.Addr) string { return "[" + hostOf(a) + "]" }},
	{"empty-port", false, func(r *vh.Rng, a netip.Addr) string {
		if a.Unmap().Is4() {
			return hostOf(a) + ":"
		}
		return "[" + hostOf(a) + "]:"
	}},
	{"v6-unbracketed-port", false, func(r *vh.Rng, a netip.Addr) string {
		if a.Unmap().Is4() {
			return "::ffff:" + hostOf(a) + ":80"
		}
		return hostOf(a) + ":80"
	}},
	{"v4-bracketed", false, func(r *vh.Rng, a netip.Addr) string { return "[" + hostOf(a) + "]:80" }},
	{"port-too-big", false, func(r *vh.Rng, a netip.Addr) string {
		return bracket(a) + ":" + r.PickS("65536", "99999", "4294967376")
	}},
	{"port-negative", false, func(r *vh.Rng, a netip.Addr) string { return bracket(a) + ":-1" }},
	{"port-plus", false, func(r *vh.Rng, a netip.Addr) string { return bracket(a) + ":+80" }},
	{"port-service", false, func(r *vh.Rng, a netip.Addr) string { return bracket(a) + ":" + r.PickS("http", "https", "ssh") }},
	{"port-space", false, func(r *vh.Rng, a netip.Addr) string { return bracket(a) + r.PickS(": 80", ":80 ", ":\t80") }},
	{"double-port", false, func(r *vh.Rng, a netip.Addr) string { return bracket(a) + ":80:80" }},
	{"leading-space", false, func(r *vh.Rng, a netip.Addr) string { return " " + bracket(a) + ":80" }},
	{"trailing-newline", false, func(r *vh.Rng, a netip.Addr) string { return bracket(a) + ":80\n" }},
	{"octet-leading-zero", false, func(r *vh.Rng, a netip.Addr) string {
		if !a.Unmap().Is4() {
			return "[0" + hostOf(a) + "]:80"
		}
		b := a.Unmap().As4()
		return fmt.Sprintf("%03d.%03d.%03d.%03d:80", b[0], b[1], b[2], b[3])
	}},
	{"v4-zone", false, func(r *vh.Rng, a netip.Addr) string { return hostOf(a) + "%eth0:80" }},
	{"unbalanced-bracket", false, func(r *vh.Rng, a netip.Addr) string {
		return r.PickS("[", "[[", "") + hostOf(a) + r.PickS("", "]]", "]") + r.PickS(":80", "")
	}},
	{"nul-byte", false, func(r *vh.Rng, a netip.Addr) string { return hostOf(a) + "\x00:80" }},
	{"unicode-digit", false, func(r *vh.Rng, a netip.Addr) string { return "１" + hostOf(a) + ":80" }},
	{"very-long", false, func(r *vh.Rng, a netip.Addr) string { return strings.Repeat("1", 300) + "." + hostOf(a) + ":80" }},
	{"empty", false, func(r *vh.Rng, a netip.Addr) string { return r.PickS("", ":", ":80", "[]:80", "[]", "]:80", ":0") }},
	{"cidr", false, func(r *vh.Rng, a netip.Addr) string { return hostOf(a) + "/8:80" }},
	{"hosts-name", false, func(r *vh.Rng, a netip.Addr) string {
		names := []string{"localhost"}
		for n := range hostsFile {
			names = append(names, n)
		}
		// deterministic order
		for i := 1; i < len(names); i++ {
			for j := i; j > 0 && names[j] < names[j-1]; j-- {
				names[j], names[j-1] = names[j-1], names[j]
			}
		}
		n := names[r.Intn(len(names))]
		if r.Bool() {
			n = strings.ToUpper(n)
		}
		return r.PickS("", "[") + n + r.PickS(":80", ":", "", "]:80", ":http")
	}},
	{"short-v4", true, func(r *vh.Rng, a netip.Addr) string {
		return r.PickS("10.1:80", "127.1:80", "192.168.1:80", "172.16:1")
	}},
	{"decimal-v4", true, func(r *vh.Rng, a netip.Addr) string { return r.PickS("2130706433:80", "167772161:80") }},
	{"hex-v4", true, func(r *vh.Rng, a netip.Addr) string { return r.PickS("0x7f.0.0.1:80", "0xa.0.0.1:80", "0x7f000001:80") }},
	{"trailing-dot", true, func(r *vh.Rng, a netip.Addr) string { return hostOf(a) + ".:80" }},
	{"dns-name", true, func(r *vh.Rng, a netip.Addr) string {
		return r.PickS("garbage:80", "example.com:80", "localhost.:80", "ip6-localhost:80", "10.0.0.1.example.com:80", "localhost.localdomain:80")
	}},
}

func bracket(a netip.Addr) string {
	if a.Unmap().Is4() {
		return hostOf(a)
	}
	return "[" + hostOf(a) + "]"
}

var invalidWL = []string{"1.2.3", "1.2.3.4/24", "1.2.3.4:80", "localhost", "", "1.2.3.256", "::g", "[::1]", "* ", "**", "10", "1.2.3.4.5", "0x7f.0.0.1"}

var lanNames = []string{"10", "172", "192"}
var badLan = []string{"11", "192.168", "", "127", "*", "172.16", "10.0.0.0/8", " 10", "010", "1"}

func lanSubset(mask int) []string {
	var out []string
	for i, n := range lanNames {
		if mask&(1<<i) != 0 {
			out = append(out, n)
		}
	}
	return out
}

// wlEntry renders an address as a whitelist entry in a random accepted textual form.
func wlEntry(rng *vh.Rng, a netip.Addr) string {
	a = a.WithZone("")
	if a.Unmap().Is4() {
		u := a.Unmap()
		switch rng.Intn(4) {
		case 0:
			return "::ffff:" + u.String()
		case 1:
			b := u.As4()
			return fmt.Sprintf("::ffff:%x:%x", uint16(b[0])<<8|uint16(b[1]), uint16(b[2])<<8|uint16(b[3]))
		}
		return u.String()
	}
	switch rng.Intn(3) {
	case 0:
		return expandV6(a)
	case 1:
		return strings.ToUpper(a.String())
	}
	return a.String()
}

func genConfig(rng *vh.Rng, i int) acfg {
	var c acfg
	c.LAN = lanSubset(i % 8)
	// shuffle, sometimes duplicate, sometimes add an unknown prefix (the code logs and ignores it)
	if len(c.LAN) > 1 && rng.Bool() {
		p := rng.Perm(len(c.LAN))
		o := make([]string, len(c.LAN))
		for k, j := range p {
			o[k] = c.LAN[j]
		}
		c.LAN = o
	}
	if len(c.LAN) > 0 && rng.Chance(1, 8) {
		c.LAN = append(c.LAN, c.LAN[0])
	}
	if rng.Chance(1, 6) {
		pos := rng.Intn(len(c.LAN) + 1)
		c.LAN = append(c.LAN[:pos:pos], append([]string{badLan[rng.Intn(len(badLan))]}, c.LAN[pos:]...)...)
	}
	n := rng.PickI(0, 1, 1, 2, 2, 3, 4)
	for k := 0; k < n; k++ {
		var a netip.Addr
		switch rng.Intn(5) {
		case 0:
			a = edges[rng.Intn(len(edges))]
		case 1:
			a = randV6(rng)
		default:
			a = randV4(rng)
		}
		c.WL = append(c.WL, wlEntry(rng, a))
	}
	if rng.Chance(1, 16) {
		pos := rng.Intn(len(c.WL) + 1)
		c.WL = append(c.WL[:pos:pos], append([]string{"*"}, c.WL[pos:]...)...)
	}
	if rng.Chance(1, 30) {
		pos := rng.Intn(len(c.WL) + 1)
		c.WL = append(c.WL[:pos:pos], append([]string{invalidWL[rng.Intn(len(invalidWL))]}, c.WL[pos:]...)...)
		c.Invalid = true
	}
	return c
}

type remoteCase struct {
	Cfg    acfg
	Remote string
	Shape  string // textual shape
	Kind   string // how the base address was chosen
}

func genRemote(rng *vh.Rng, c acfg, allowDNS bool) (string, string, string) {
	ref, _ := buildRef(c)
	var a netip.Addr
	kind := ""
	w := rng.Weighted(22, 26, 22, 8, 8, 14)
	if w == 1 && len(ref.wl) == 0 {
		w = 0
	}
	switch w {
	case 0:
		a, kind = edges[rng.Intn(len(edges))], "edge"
	case 1:
		wa := ref.wl[rng.Intn(len(ref.wl))]
		if rng.Chance(2, 5) {
			a, kind = wa, "wl-exact"
		} else {
			a, kind = nearMiss(rng, wa)
		}
	case 2: // in or just outside one of the three private ranges
		switch rng.Intn(9) {
		case 0:
			a = netip.AddrFrom4([4]byte{10, byte(rng.Intn(256)), byte(rng.Intn(256)), byte(rng.Intn(256))})
		case 1:
			a = netip.AddrFrom4([4]byte{172, byte(16 + rng.Intn(16)), byte(rng.Intn(256)), byte(rng.Intn(256))})
		case 2:
			a = netip.AddrFrom4([4]byte{192, 168, byte(rng.Intn(256)), byte(rng.Intn(256))})
		case 3:
			a = netip.AddrFrom4([4]byte{172, byte(rng.Intn(16)), byte(rng.Intn(256)), byte(rng.Intn(256))})
		case 4:
			a = netip.AddrFrom4([4]byte{172, byte(32 + rng.Intn(224)), byte(rng.Intn(256)), byte(rng.Intn(256))})
		case 5:
			o := byte(rng.Intn(256))
			if o == 168 {
				o = 169
			}
			a = netip.AddrFrom4([4]byte{192, o, byte(rng.Intn(256)), byte(rng.Intn(256))})
		case 6:
			a = netip.AddrFrom4([4]byte{byte(rng.PickI(9, 11, 100, 101, 110, 171, 173, 191, 193)), byte(rng.PickI(16, 168, 0, 31)), byte(rng.Intn(256)), byte(rng.Intn(256))})
		case 7:
			a = netip.AddrFrom4([4]byte{127, byte(rng.Intn(2)), byte(rng.Intn(2)), byte(rng.Intn(4))})
		default:
			a = addU32(netip.MustParseAddr(rng.PickS("10.0.0.0", "11.0.0.0", "172.16.0.0", "172.32.0.0", "192.168.0.0", "192.169.0.0", "127.0.0.1")), int64(rng.Range(-2, 2)))
		}
		kind = "lan-in-or-near"
	case 3:
		a, kind = randV4(rng), "random-v4"
	case 4:
		a, kind = randV6(rng), "random-v6"
	default: // private / loopback v4 bytes inside a v6 address that is not v4-mapped
		v4 := netip.MustParseAddr(rng.PickS("10.0.0.1", "172.16.0.1", "192.168.1.1", "127.0.0.1", "10.255.255.255"))
		var x [16]byte
		b := v4.As4()
		switch rng.Intn(5) {
		case 0:
			copy(x[12:], b[:])
		case 1:
			x[0], x[1], x[2], x[3] = 0, 0x64, 0xff, 0x9b
			copy(x[12:], b[:])
		case 2:
			x[0], x[1] = 0x20, 0x02
			copy(x[2:], b[:])
		case 3:
			x[8], x[9] = 0xff, 0xff
			copy(x[12:], b[:])
		default:
			copy(x[0:], b[:])
		}
		a, kind = netip.AddrFrom16(x), "v4-bytes-in-v6"
	}
	if rng.Chance(1, 9) {
		var cand []int
		for i, m := range malShapes {
			if allowDNS || !m.dns {
				cand = append(cand, i)
			}
		}
		m := malShapes[cand[rng.Intn(len(cand))]]
		return m.f(rng, a), "mal:" + m.name, kind
	}
	s, shape := wellFormed(rng, a, rng.Intn(12))
	return s, shape, kind
}

// systematic cases: every edge address in every well-formed shape under 32 fixed configurations,
// plus every malformed shape (DNS-prone ones under two configurations only).
var sysWL = [][]string{
	{},
	{"1.2.3.4", "2001:db8::1"},
	{"::ffff:10.0.0.1", "172.32.0.0", "::2", "127.0.0.2"},
	{"192.169.0.0", "FE80:0:0:0:0:0:0:1", "11.0.0.0", "0.0.0.0"},
}

type sysCase struct {
	wl, lan int
	edge    int
	shape   int // >=0 well-formed shape; <0: malformed shape -(shape+1)
	extra   int // 0..: special whole-config cases
}

func buildSystematic() []sysCase {
	var out []sysCase
	for wl := range sysWL {
		for lan := 0; lan < 8; lan++ {
			for e, a := range edges {
				for s := 0; s < shapesOf(a); s++ {
					out = append(out, sysCase{wl: wl, lan: lan, edge: e, shape: s})
				}
			}
		}
	}
	malEdges := []int{}
	for i, s := range edgeAddrs {
		switch s {
		case "10.0.0.1", "127.0.0.1", "1.2.3.4", "8.8.8.8", "::1", "2001:db8::1", "fe80::1", "::2":
			malEdges = append(malEdges, i)
		}
	}
	for mi, m := range malShapes {
		for _, e := range malEdges {
			for _, cfg := range [][2]int{{0, 0}, {1, 7}, {2, 5}, {3, 2}} {
				if m.dns && (cfg[0] != 0 && cfg[0] != 1 || e != malEdges[0]) {
					continue
				}
				out = append(out, sysCase{wl: cfg[0], lan: cfg[1], edge: e, shape: -(mi + 1)})
			}
		}
	}
	return out
}

var accessMethods = []string{"POST", "GET", "OPTIONS", "HEAD", "PUT", "DELETE", "PATCH", "TRACE", "POST", "GET", "OPTIONS"}
var accessPaths = []string{"/v1/spaces", "/", "/v1/client/status", "/v1/spaces/abc"}

type accessResult struct {
	method   string
	allowed  bool
	panicked string
	code     int
	inner    int
	chainPan string
}

func runAccess(c acfg, remote string, spoof bool) (res accessResult, ctorErr error) {
	fn, err := api.VerifIPAccessControlFunc(c.WL, c.LAN)
	if err != nil {
		return res, err
	}
	func() {
		defer func() {
			if r := recover(); r != nil {
				res.panicked = fmt.Sprint(r)
			}
		}()
		res.allowed = fn(remote)
	}()
	inner := 0
	h := api.VerifGatewayChain(http.HandlerFunc(func(w http.ResponseWriter, r *http.Request) {
		inner++
		w.WriteHeader(http.StatusOK)
	}), fn)
	// the origin check stands in front of everything, whatever the method and path
	method := accessMethods[int(vh.HashS("method", remote)%uint64(len(accessMethods)))]
	path := accessPaths[int(vh.HashS("path", remote)%uint64(len(accessPaths)))]
	req := httptest.NewRequest(method, "http://node.example"+path, strings.NewReader("{}"))
	req.RemoteAddr = remote
	res.method = method
	if spoof {
		// client-controlled headers naming a permitted origin must not influence the decision
		lo := "127.0.0.1"
		if len(remote)%2 == 1 { // both spellings a naive reader of such a header could accept
			lo = "127.0.0.1:80"
		}
		req.Header.Set("X-Forwarded-For", lo)
		req.Header.Set("X-Real-IP", lo)
		req.Header.Set("Forwarded", "for=127.0.0.1;host=localhost")
		req.Header.Set("Origin", "http://127.0.0.1")
		req.Host = "localhost"
	}
	rec := httptest.NewRecorder()
	func() {
		defer func() {
			if r := recover(); r != nil {
				res.chainPan = fmt.Sprint(r)
			}
		}()
		h.ServeHTTP(rec, req)
	}()
	res.code = rec.Code
	res.inner = inner
	return res, nil
}

// concurrentAccessCase: one predicate (as the gateway builds it once per server), 6-10 goroutines asking it and the
// handler chain about 6-12 origins (permitted and forbidden mixed) at the same time; expectation = the predicate's own
// answer for that origin when asked alone (those answers are judged against the reference in part 1).
func concurrentAccessCase(run *vh.Run, ci int, rng *vh.Rng) {
	c := genConfig(rng, ci)
	for _, w := range c.WL {
		if w == "*" {
			c.WL = []string{"203.0.113.7"}
		}
	}
	fn, err := api.VerifIPAccessControlFunc(c.WL, c.LAN)
	if err != nil {
		run.Drop("concurrent access: constructor rejected the configuration")
		return
	}
	remotes := []string{"127.0.0.1:4711", "8.8.8.8:53", "[2001:4860:4860::8888]:443", "[::1]:9", "[::2]:9", "[::ffff:8.8.8.8]:53", "127.0.0.2:4711", "[2001:4860:4860::8844]:443"}
	for k := 0; k < rng.Range(2, 8); k++ {
		r, _, _ := genRemote(rng, c, false)
		remotes = append(remotes, r)
	}
	// the answer for an origin asked alone: from a predicate of its own, so that nothing asked before can matter
	alone := map[string]bool{}
	nAllowed := 0
	for _, r := range remotes {
		ok := false
		func() {
			defer func() { recover() }()
			if f1, err := api.VerifIPAccessControlFunc(c.WL, c.LAN); err == nil {
				ok = f1(r)
			}
		}()
		alone[r] = ok
		if ok {
			nAllowed++
		}
	}
	// one predicate serves the whole life of the server: first the origins one after the other (what was asked before
	// must not matter), then all at once
	for pass := 0; pass < 2; pass++ {
		for _, r := range remotes {
			got := false
			func() {
				defer func() { recover() }()
				got = fn(r)
			}()
			if got != alone[r] {
				run.Violate(ci, "access-decision-depends-on-earlier-requests", map[string]string{"admitted": strconv.FormatBool(got)},
					map[string]interface{}{"whitelist": c.WL, "allowed_lan": c.LAN, "remote_addr": r, "answer_from_a_fresh_predicate": alone[r], "answer_after_other_requests": got, "asked_before": remotes})
				run.Case(vh.HashS("conc-access-history", strings.Join(c.WL, "\x00"), strings.Join(remotes, "|")), true)
				return
			}
		}
	}
	if nAllowed == 0 || nAllowed == len(remotes) {
		run.Drop("concurrent access: origins are not mixed")
		return
	}
	G, rounds := rng.Range(6, 10), 300
	type miss struct {
		remote, via string
		got, want   bool
		code, inner int
	}
	var mu sync.Mutex
	var first *miss
	var calls, chainCalls int64
	var wg sync.WaitGroup
	for g := 0; g < G; g++ {
		g := g
		wg.Add(1)
		go func() {
			defer wg.Done()
			defer func() { recover() }()
			for j := 0; j < rounds; j++ {
				r := remotes[(g*7+j)%len(remotes)]
				want := alone[r]
				atomic.AddInt64(&calls, 1)
				if got := fn(r); got != want {
					mu.Lock()
					if first == nil {
						first = &miss{remote: r, via: "predicate", got: got, want: want}
					}
					mu.Unlock()
					return
				}
				if j%6 == g%6 {
					inner := 0
					h := api.VerifGatewayChain(http.HandlerFunc(func(w http.ResponseWriter, _ *http.Request) { inner++; w.WriteHeader(http.StatusOK) }), fn)
					req := httptest.NewRequest(accessMethods[(g+j)%len(accessMethods)], "http://node.example/v1/spaces", strings.NewReader("{}"))
					req.RemoteAddr = r
					rec := httptest.NewRecorder()
					h.ServeHTTP(rec, req)
					atomic.AddInt64(&chainCalls, 1)
					admitted := rec.Code != http.StatusForbidden
					if admitted != want || (inner > 0) != want {
						mu.Lock()
						if first == nil {
							first = &miss{remote: r, via: "handler-chain", got: admitted, want: want, code: rec.Code, inner: inner}
						}
						mu.Unlock()
						return
					}
				}
			}
		}()
	}
	wg.Wait()
	run.Count("concurrent_access_predicate_calls", atomic.LoadInt64(&calls))
	run.Count("concurrent_access_chain_calls", atomic.LoadInt64(&chainCalls))
	if first != nil {
		run.Violate(ci, "access-decision-differs-under-concurrent-requests", map[string]string{"via": first.via, "admitted": strconv.FormatBool(first.got)},
			map[string]interface{}{"whitelist": c.WL, "allowed_lan": c.LAN, "remote_addr": first.remote, "answer_when_asked_alone": first.want, "answer_under_concurrency": first.got,
				"status_code": first.code, "inner_handler_runs": first.inner, "origins_in_play": remotes, "goroutines": G})
	}
	run.Case(vh.HashS("conc-access", strings.Join(c.WL, "\x00"), strings.Join(c.LAN, "\x00"), strings.Join(remotes, "|")), true)
}

func accessCase(run *vh.Run, ci int, rc remoteCase) {
	c := rc.Cfg
	detail := map[string]interface{}{"whitelist": c.WL, "allowed_lan": c.LAN, "remote_addr": rc.Remote, "remote_addr_quoted": strconv.Quote(rc.Remote), "shape": rc.Shape, "kind": rc.Kind}
	hash := vh.HashS("access", strings.Join(c.WL, "\x00"), "|", strings.Join(c.LAN, "\x00"), "|", rc.Remote)
	ref, refOK := buildRef(c)
	spoof := hash&1 == 0
	detail["spoofed_forwarding_headers"] = spoof
	res, cerr := runAccess(c, rc.Remote, spoof)
	if !refOK {
		// a whitelist entry that is not an IP address under any reading: the constructor must refuse
		run.Case(hash, false)
		if cerr == nil {
			run.Violate(ci, "invalid-whitelist-entry-accepted", map[string]string{"part": "access"}, detail)
		} else {
			run.Count("access_invalid_whitelist_rejected", 1)
		}
		return
	}
	if cerr != nil {
		// refusing a configuration serves nobody: not a breach of "serves only if", but nothing to judge either
		run.Case(hash, false)
		run.Drop("access: constructor rejected a configuration the reference reads as valid")
		return
	}
	detail["decision"], detail["http_status"], detail["inner_invocations"] = res.allowed, res.code, res.inner
	if res.panicked != "" || res.chainPan != "" {
		detail["panic"] = res.panicked + res.chainPan
		run.Case(hash, false)
		run.Violate(ci, "access-control-panicked", map[string]string{"part": "access", "shape": rc.Shape}, detail)
		return
	}
	run.Count("access_inner_handler_invocations", int64(res.inner))
	if res.code == http.StatusForbidden {
		run.Count("access_403_observed", 1)
	}
	ap, perr := netip.ParseAddrPort(rc.Remote)
	if perr != nil {
		// outside the judged domain: no panic (checked above) and allowed => lenient reading permitted
		run.Case(hash, false)
		run.Count("access_malformed_cases", 1)
		if res.allowed || res.inner > 0 {
			run.Count("access_malformed_allowed", 1)
			ok := ref.wildcard
			for _, a := range lenient(rc.Remote) {
				if cl := ref.classify(a); cl != "none" {
					ok = true
				}
			}
			if !ok {
				// last resort before blaming the code: the system resolver itself (bounded), for names
				// that resolve through something other than /etc/hosts on this machine
				for _, a := range resolveLenient(rc.Remote) {
					if ref.classify(a) != "none" {
						ok = true
					}
				}
			}
			if !ok {
				run.Violate(ci, "malformed-remote-address-admitted", map[string]string{"part": "access", "shape": rc.Shape}, detail)
			}
		} else {
			run.Count("access_malformed_denied", 1)
		}
		return
	}
	class := ref.classify(ap.Addr())
	detail["reference_class"] = class
	run.Case(hash, !ref.wildcard)
	at := map[string]string{"part": "access", "class": class, "shape": rc.Shape, "kind": rc.Kind}
	switch class {
	case "none":
		run.Count("access_judged_outside_all_classes", 1)
		switch {
		case res.allowed:
			run.Violate(ci, "unconfigured-origin-admitted", at, detail)
		case res.inner != 0:
			at["spoofed_headers"] = fmt.Sprint(spoof)
			run.Violate(ci, "handler-ran-for-unconfigured-origin", at, detail)
		case res.code != http.StatusForbidden:
			run.Violate(ci, "unconfigured-origin-not-answered-403", at, detail)
		default:
			run.Count("access_denied_none", 1)
		}
	case "loopback_range_other":
		if res.allowed {
			run.Count("access_loopback_range_other_allowed", 1)
		} else {
			run.Count("access_loopback_range_other_denied_strict", 1)
		}
	default:
		if res.allowed {
			run.Count("access_allowed_"+class, 1)
			if res.inner != 1 || res.code != http.StatusOK {
				run.Count("access_allowed_but_not_served", 1)
			}
		} else {
			run.Count("access_strict_only_denied_"+class, 1)
		}
	}
}

// ---------------------------------------------------------------------------------------------
// part 2: workspace listing
// ---------------------------------------------------------------------------------------------

type skV1 struct {
	*mining.MockedSpaceKeeperV1
	mu    sync.Mutex
	infos []engine.WorkSpaceInfo
	dirs  []string
	byDir [][]engine.WorkSpaceInfo
}

func (k *skV1) Configured() bool { return true }
func (k *skV1) WorkSpaceInfos(flags engine.WorkSpaceStateFlags) ([]engine.WorkSpaceInfo, error) {
	k.mu.Lock()
	defer k.mu.Unlock()
	var out []engine.WorkSpaceInfo
	for _, w := range k.infos {
		if flags.Contains(w.State.Flag()) {
			out = append(out, w)
		}
	}
	return out, nil
}
func (k *skV1) WorkSpaceInfosByDirs() ([]string, [][]engine.WorkSpaceInfo, error) {
	k.mu.Lock()
	defer k.mu.Unlock()
	return k.dirs, k.byDir, nil
}

type skV2 struct {
	*mining.MockedSpaceKeeperV2
	mu    sync.Mutex
	infos []engine_v2.WorkSpaceInfo
}

func (k *skV2) WorkSpaceInfos(flags engine_v2.WorkSpaceStateFlags) ([]engine_v2.WorkSpaceInfo, error) {
	k.mu.Lock()
	defer k.mu.Unlock()
	return append([]engine_v2.WorkSpaceInfo(nil), k.infos...), nil
}

type rig struct {
	srv *api.Server
	k1  *skV1
	k2  *skV2
}

func newRig(port uint16) (*rig, error) {
	r := &rig{k1: &skV1{MockedSpaceKeeperV1: mining.NewMockedSpaceKeeperV1()}, k2: &skV2{MockedSpaceKeeperV2: mining.NewMockedSpaceKeeperV2()}}
	srv, err := api.NewServer(&config.API{PortGRPC: port, PortHttp: 0, Whitelist: []string{}, AllowedLan: []string{}}, nil, nil, nil, nil,
		mining.NewMockedPoCMiner(), mining.NewMockedPoCWallet(), r.k1, r.k2, version.ModeMinerV1, func() {})
	if err != nil {
		return nil, err
	}
	r.srv = srv
	return r, nil
}

var stateNames = map[uint32]string{0: "registered", 1: "plotting", 2: "ready", 3: "mining"}

type v1In struct {
	PubKeyHex string // compressed, as scripted
	Source    string
	BitLength int
	Ordinal   int64
	State     uint32
	Progress  float64
}

type v2In struct {
	PlotIDHex string
	PubKeyHex string
	Source    string
	K         int
}

func compress(pk *pocec.PublicKey) []byte {
	out := make([]byte, 33)
	out[0] = 2 | byte(pk.Y.Bit(0))
	pk.X.FillBytes(out[1:])
	return out
}

var secpN, _ = new(big.Int).SetString("fffffffffffffffffffffffffffffffebaaedce6af48a03bbfd25e8cd0364141", 16)

func genV1Key(rng *vh.Rng) (*pocec.PublicKey, string) {
	switch rng.Intn(12) {
	case 0: // tiny scalars (generator multiples)
		d := big.NewInt(int64(rng.Range(1, 20)))
		_, pub := pocec.PrivKeyFromBytes(pocec.S256(), d.Bytes())
		return pub, "small-scalar"
	case 1: // n - small
		d := new(big.Int).Sub(secpN, big.NewInt(int64(rng.Range(1, 20))))
		_, pub := pocec.PrivKeyFromBytes(pocec.S256(), d.Bytes())
		return pub, "n-minus-small"
	case 2: // searched: x coordinate with a leading zero byte
		for t := 0; t < 2000; t++ {
			_, pub := pocec.PrivKeyFromBytes(pocec.S256(), rng.Bytes(32))
			if pub.X.BitLen() <= 248 {
				return pub, "x-leading-zero"
			}
		}
	case 3, 4: // wallet-style: BIP32 child of a seeded master, as the PoC wallet issues plot keys
		if m, err := hdkeychain.NewMaster(rng.Bytes(32), config.ChainParams); err == nil {
			k := m
			for _, i := range []uint32{44 + 0x80000000, 0x80000000 + uint32(rng.Intn(3)), uint32(rng.Intn(2)), uint32(rng.Intn(1000))} {
				c, err := k.Child(i)
				if err != nil {
					break
				}
				k = c
			}
			if pub, err := k.ECPubKey(); err == nil {
				return pub, "hd-wallet-child"
			}
		}
	case 5: // re-parsed from an uncompressed / hybrid serialisation
		_, pub := pocec.PrivKeyFromBytes(pocec.S256(), rng.Bytes(32))
		ser := pub.SerializeUncompressed()
		if rng.Bool() {
			ser = pub.SerializeHybrid()
		}
		if p2, err := pocec.ParsePubKey(ser, pocec.S256()); err == nil {
			return p2, "parsed-uncompressed-or-hybrid"
		}
	}
	_, pub := pocec.PrivKeyFromBytes(pocec.S256(), rng.Bytes(32))
	return pub, "random-scalar"
}

func checkV1Item(run *vh.Run, ci int, via string, got *pb.WorkSpace, in v1In, pk *pocec.PublicKey, all interface{}) {
	run.Count("ws_v1_items_compared", 1)
	at := func(field string) map[string]string {
		return map[string]string{"part": "workspace", "version": "v1", "field": field, "via": via}
	}
	det := func(want string) map[string]interface{} {
		return map[string]interface{}{"workspace_info": in, "listed": got.String(), "want": want, "via": via, "scripted_list": all}
	}
	comp := compress(pk)
	if got.PublicKey != hex.EncodeToString(comp) {
		run.Violate(ci, "workspace-public-key-not-echoed", at("public_key"), det(hex.EncodeToString(comp)))
	}
	if int(got.BitLength) != in.BitLength {
		run.Violate(ci, "workspace-bit-length-not-echoed", at("bit_length"), det(fmt.Sprint(in.BitLength)))
	}
	if got.Ordinal != in.Ordinal {
		run.Violate(ci, "workspace-ordinal-not-echoed", at("ordinal"), det(fmt.Sprint(in.Ordinal)))
	}
	if got.State != stateNames[in.State] {
		run.Violate(ci, "workspace-state-not-echoed", at("state"), det(stateNames[in.State]))
	}
	wantT, err := massutil.GetMassDBBindingTarget(pk, in.BitLength)
	if err != nil {
		run.Drop("massutil.GetMassDBBindingTarget failed")
	} else if got.BindingTarget != wantT {
		run.Violate(ci, "workspace-binding-target-differs-from-massutil", at("binding_target"), det(wantT))
	} else {
		// the reference value itself must carry hash160(key) || 0 || bit length (guards against a vacuous reference)
		if a, err := massutil.DecodeAddress(wantT, config.ChainParams); err == nil {
			if bt, ok := a.(*massutil.AddressBindingTarget); ok {
				s := bt.ScriptAddress()
				if !bytes.Equal(s[:20], massutil.Hash160(comp)) || s[20] != 0 || int(s[21]) != in.BitLength {
					run.Violate(ci, "massutil-binding-target-does-not-decode-to-key-type-size", at("binding_target"), det(hex.EncodeToString(s)))
				}
				run.Count("ws_binding_targets_decoded", 1)
			}
		}
	}
	h := massutil.Hash160(comp)
	wa, err := massutil.NewAddressPubKeyHash(h, config.ChainParams)
	if err != nil {
		run.Drop("massutil.NewAddressPubKeyHash failed")
	} else if got.Address != wa.EncodeAddress() {
		run.Violate(ci, "workspace-address-differs-from-massutil", at("address"), det(wa.EncodeAddress()))
	}
}

func checkV2Item(run *vh.Run, ci int, via string, got *pb.WorkSpaceV2, in v2In, plotID pocutil.Hash, all interface{}) {
	run.Count("ws_v2_items_compared", 1)
	at := func(field string) map[string]string {
		return map[string]string{"part": "workspace", "version": "v2", "field": field, "via": via}
	}
	det := func(want string) map[string]interface{} {
		return map[string]interface{}{"workspace_info": in, "listed": got.String(), "want": want, "via": via, "scripted_list": all}
	}
	if got.PlotId != in.PlotIDHex {
		run.Violate(ci, "workspace-plot-id-not-echoed", at("plot_id"), det(in.PlotIDHex))
	}
	if got.PublicKey != in.PubKeyHex {
		run.Violate(ci, "workspace-public-key-not-echoed", at("public_key"), det(in.PubKeyHex))
	}
	if int(got.K) != in.K {
		run.Violate(ci, "workspace-k-not-echoed", at("k"), det(fmt.Sprint(in.K)))
	}
	wantT, err := massutil.GetChiaPlotBindingTarget(plotID, in.K)
	if err != nil {
		run.Drop("massutil.GetChiaPlotBindingTarget failed")
	} else if got.BindingTarget != wantT {
		run.Violate(ci, "workspace-binding-target-differs-from-massutil", at("binding_target"), det(wantT))
	} else if a, err := massutil.DecodeAddress(wantT, config.ChainParams); err == nil {
		if bt, ok := a.(*massutil.AddressBindingTarget); ok {
			s := bt.ScriptAddress()
			if !bytes.Equal(s[:20], massutil.Hash160(plotID[:])) || s[20] != 1 || int(s[21]) != in.K {
				run.Violate(ci, "massutil-binding-target-does-not-decode-to-key-type-size", at("binding_target"), det(hex.EncodeToString(s)))
			}
			run.Count("ws_binding_targets_decoded", 1)
		}
	}
}

func workspaceCase(run *vh.Run, ci int, rng *vh.Rng, rg *rig, wi int) {
	ctx := context.Background()
	n1 := rng.Range(1, 5)
	n2 := rng.Range(1, 5)
	var in1 []v1In
	var pk1 []*pocec.PublicKey
	var infos1 []engine.WorkSpaceInfo
	seen := map[string]bool{}
	for len(in1) < n1 {
		pk, src := genV1Key(rng)
		bl := 24 + 2*rng.Intn(9) // 24..40 even
		if len(in1) == 0 {
			bl = 24 + 2*(wi%9) // every bit length cyclically
		}
		sid := hex.EncodeToString(pk.SerializeCompressed()) + "-" + strconv.Itoa(bl)
		if seen[sid] {
			continue
		}
		seen[sid] = true
		ord := int64(rng.Intn(1000))
		switch rng.Intn(8) {
		case 0:
			ord = -1 // engine.UnknownOrdinal
		case 1:
			ord = int64(rng.Uint64() >> 1)
		}
		st := uint32(rng.Intn(4))
		prog := float64(rng.Intn(10001)) / 100
		in1 = append(in1, v1In{PubKeyHex: hex.EncodeToString(compress(pk)), Source: src, BitLength: bl, Ordinal: ord, State: st, Progress: prog})
		pk1 = append(pk1, pk)
		infos1 = append(infos1, engine.WorkSpaceInfo{SpaceID: sid, PublicKey: pk, Ordinal: ord, BitLength: bl, Progress: prog, State: engine.WorkSpaceState(st)})
		run.Count("ws_v1_key_source:"+src, 1)
	}
	var in2 []v2In
	var infos2 []engine_v2.WorkSpaceInfo
	for len(in2) < n2 {
		var pid pocutil.Hash
		var g1 chiapos.G1Element
		src := "random-bytes"
		copy(pid[:], rng.Bytes(32))
		copy(g1[:], rng.Bytes(48))
		switch rng.Intn(10) {
		case 0:
			for i := 0; i < rng.Range(1, 4); i++ {
				pid[i] = 0
			}
			src = "plot-id-leading-zero"
		case 1:
			for i := range pid {
				pid[i] = byte(rng.PickI(0, 0xff))
			}
			src = "plot-id-all-00-or-ff-bytes"
		case 2, 3: // real BLS keys, plot id = Hash256(pool pk || plot pk) as skchia.NewSpaceID computes it
			if skPool, e1 := chiapos.KeyGen(chiapos.SchemeMPLAug, rng.Bytes(32)); e1 == nil {
				if skPlot, e2 := chiapos.KeyGen(chiapos.SchemeMPLAug, rng.Bytes(32)); e2 == nil {
					pp, e3 := skPool.GetG1()
					lp, e4 := skPlot.GetG1()
					if e3 == nil && e4 == nil {
						pid = chiapos.Hash256(bytes.Join([][]byte{pp.Bytes(), lp.Bytes()}, nil))
						g1 = *lp
						src = "bls-keygen"
					}
				}
			}
		}
		k := 25 + rng.Intn(26) // 25..50
		if len(in2) == 0 {
			k = 25 + wi%26
		}
		sid := hex.EncodeToString(pid[:]) + "-" + strconv.Itoa(k)
		if seen[sid] {
			continue
		}
		seen[sid] = true
		g := g1
		in2 = append(in2, v2In{PlotIDHex: hex.EncodeToString(pid[:]), PubKeyHex: hex.EncodeToString(g1[:]), Source: src, K: k})
		infos2 = append(infos2, engine_v2.WorkSpaceInfo{SpaceID: sid, PlotID: pid, PublicKey: &g, BitLength: k, State: engine_v2.WorkSpaceState(rng.Intn(4))})
		run.Count("ws_v2_key_source:"+src, 1)
	}
	// directories partition for the by-dirs listing
	nd := rng.Range(1, 3)
	dirs := make([]string, nd)
	byDir := make([][]engine.WorkSpaceInfo, nd)
	for d := range dirs {
		dirs[d] = fmt.Sprintf("/plots/dir%d", d)
	}
	for i, w := range infos1 {
		byDir[i%nd] = append(byDir[i%nd], w)
	}
	rg.k1.mu.Lock()
	rg.k1.infos, rg.k1.dirs, rg.k1.byDir = infos1, dirs, byDir
	rg.k1.mu.Unlock()
	rg.k2.mu.Lock()
	rg.k2.infos = infos2
	rg.k2.mu.Unlock()

	all := map[string]interface{}{"v1": in1, "v2": in2}
	idx1 := map[string]int{}
	for i, w := range infos1 {
		idx1[w.SpaceID] = i
	}
	idx2 := map[string]int{}
	for i, w := range infos2 {
		idx2[w.SpaceID] = i
	}
	listed := 0
	fail := func(kind, via string, err interface{}) {
		if kind == "workspace-listing-failed" {
			// an error lists nothing: nothing to judge (the statement is about what the API lists)
			run.Drop("workspace: " + via + " returned an error for a scripted list")
			return
		}
		run.Violate(ci, kind, map[string]string{"part": "workspace", "via": via}, map[string]interface{}{"scripted_list": all, "err": fmt.Sprint(err), "via": via})
	}
	call := func(via string, f func()) {
		defer func() {
			if r := recover(); r != nil {
				fail("workspace-handler-panicked", via, r)
			}
		}()
		f()
	}
	one1 := func(via string, w *pb.WorkSpace) {
		if w == nil {
			fail("workspace-listing-nil-item", via, "nil")
			return
		}
		i, ok := idx1[w.SpaceId]
		if !ok {
			fail("workspace-listed-item-never-scripted", via, w.String())
			return
		}
		listed++
		checkV1Item(run, ci, via, w, in1[i], pk1[i], all)
	}
	one2 := func(via string, w *pb.WorkSpaceV2) {
		if w == nil {
			fail("workspace-listing-nil-item", via, "nil")
			return
		}
		i, ok := idx2[w.SpaceId]
		if !ok {
			fail("workspace-listed-item-never-scripted", via, w.String())
			return
		}
		listed++
		checkV2Item(run, ci, via, w, in2[i], infos2[i].PlotID, all)
	}
	call("GetCapacitySpaces", func() {
		resp, err := rg.srv.GetCapacitySpaces(ctx, &empty.Empty{})
		if err != nil {
			fail("workspace-listing-failed", "GetCapacitySpaces", err)
			return
		}
		if int(resp.SpaceCount) != len(resp.Spaces) || len(resp.Spaces) != len(infos1) {
			run.Count("ws_list_length_differs_from_scripted", 1)
		}
		for _, w := range resp.Spaces {
			one1("GetCapacitySpaces", w)
		}
	})
	call("GetCapacitySpacesByDirs", func() {
		resp, err := rg.srv.GetCapacitySpacesByDirs(ctx, &empty.Empty{})
		if err != nil {
			fail("workspace-listing-failed", "GetCapacitySpacesByDirs", err)
			return
		}
		for _, al := range resp.Allocations {
			for _, w := range al.Spaces {
				one1("GetCapacitySpacesByDirs", w)
			}
		}
	})
	for _, w := range infos1 {
		sid := w.SpaceID
		call("GetCapacitySpace", func() {
			resp, err := rg.srv.GetCapacitySpace(ctx, &pb.WorkSpaceRequest{SpaceId: sid})
			if err != nil {
				fail("workspace-listing-failed", "GetCapacitySpace", err)
				return
			}
			one1("GetCapacitySpace", resp.Space)
		})
	}
	call("GetCapacitySpacesV2", func() {
		resp, err := rg.srv.GetCapacitySpacesV2(ctx, &empty.Empty{})
		if err != nil {
			fail("workspace-listing-failed", "GetCapacitySpacesV2", err)
			return
		}
		if int(resp.SpaceCount) != len(resp.Spaces) || len(resp.Spaces) != len(infos2) {
			run.Count("ws_list_length_differs_from_scripted", 1)
		}
		for _, w := range resp.Spaces {
			one2("GetCapacitySpacesV2", w)
		}
	})
	for _, w := range infos2 {
		sid := w.SpaceID
		call("GetCapacitySpaceV2", func() {
			resp, err := rg.srv.GetCapacitySpaceV2(ctx, &pb.WorkSpaceRequest{SpaceId: sid})
			if err != nil {
				fail("workspace-listing-failed", "GetCapacitySpaceV2", err)
				return
			}
			one2("GetCapacitySpaceV2", resp.Space)
		})
	}
	var hb [][]byte
	for _, w := range infos1 {
		hb = append(hb, []byte(fmt.Sprintf("%s|%d|%d", w.SpaceID, w.Ordinal, w.State)))
	}
	for _, w := range infos2 {
		hb = append(hb, []byte(w.SpaceID), w.PublicKey[:])
	}
	run.Case(vh.Hash64(hb...), listed > 0)
	run.Count("ws_lists_scripted", 1)
	if wi < 2 {
		run.Sample(map[string]interface{}{"part": "workspace", "v1": in1, "v2": in2})
	}
}

// ---------------------------------------------------------------------------------------------
// part 3: amounts
// ---------------------------------------------------------------------------------------------

var canonRe = regexp.MustCompile(`^(0|[1-9][0-9]*)(\.[0-9]*[1-9])?$`)

// exactDecimal is the canonical decimal expansion of m / unit computed with math/big.
func exactDecimal(m int64, unit *big.Int, digits int) string {
	v := big.NewInt(m)
	neg := v.Sign() < 0
	v.Abs(v)
	q, r := new(big.Int).QuoRem(v, unit, new(big.Int))
	s := q.String()
	if r.Sign() != 0 {
		f := r.String()
		f = strings.Repeat("0", digits-len(f)) + f
		s += "." + strings.TrimRight(f, "0")
	}
	if neg {
		s = "-" + s
	}
	return s
}

func genAmount(rng *vh.Rng, i int, fixed []int64, max int64) (int64, string) {
	if i < len(fixed) {
		return fixed[i], "fixed"
	}
	switch rng.Intn(10) {
	case 0: // whole coins
		return int64(rng.Uint64()%uint64(max/100000000+1)) * 100000000, "whole-coins"
	case 1: // multiples of 10^k: trailing zeros inside the fraction
		k := rng.Range(1, 16)
		p := int64(math.Pow10(k))
		return int64(rng.Uint64()%uint64(max/p+1)) * p, "multiple-of-10^k"
	case 2: // below one coin: leading zeros in the fraction
		k := rng.Range(0, 8)
		return int64(rng.Uint64() % uint64(math.Pow10(k))), "below-10^k"
	case 3: // random digit count (log-uniform)
		k := rng.Range(1, 17)
		v := int64(rng.Uint64() % uint64(math.Pow10(k)))
		if v > max {
			v = max - v%1000
		}
		return v, "log-uniform"
	case 4: // q coins + tiny fraction
		q := int64(rng.Uint64() % uint64(max/100000000))
		return q*100000000 + int64(rng.PickI(1, 10, 100, 1000, 10000000, 99999999, 90000000, 5)), "coins-plus-edge-fraction"
	case 5: // above 2^53: not representable in float64
		return (int64(1) << 53) + int64(rng.Uint64()%uint64(max-(1<<53))), "above-2^53"
	case 6: // out of range
		switch rng.Intn(3) {
		case 0:
			return -int64(rng.Uint64() >> uint(1+rng.Intn(62))), "negative"
		default:
			return max + 1 + int64(rng.Uint64()%uint64(math.MaxInt64-max-1)), "above-max"
		}
	}
	return int64(rng.Uint64() % uint64(max+1)), "uniform"
}

func amountCase(run *vh.Run, ci int, m int64, class string, max int64, unit *big.Int) {
	run.Case(vh.Hash64([]byte("amount"), []byte(strconv.FormatInt(m, 10))), true)
	det := map[string]interface{}{"amount": m, "amount_str": strconv.FormatInt(m, 10), "class": class}
	at := func() map[string]string { return map[string]string{"part": "amount", "class": class} }
	var s string
	var err error
	var pan interface{}
	func() {
		defer func() { pan = recover() }()
		s, err = api.AmountToString(m)
	}()
	if pan != nil {
		det["panic"] = fmt.Sprint(pan)
		run.Violate(ci, "amount-to-string-panicked", at(), det)
		return
	}
	inRange := m >= 0 && m <= max
	if err != nil {
		if inRange {
			// nothing rendered, nothing to judge; a run with many of these ends inconclusive
			run.Drop("amount: in-range amount rejected by AmountToString")
		} else {
			run.Count("amount_out_of_range_rejected", 1)
		}
		return
	}
	det["rendered"] = s
	want := exactDecimal(m, unit, 8)
	det["exact"] = want
	run.Count("amounts_rendered_compared", 1)
	if !inRange {
		run.Count("amount_out_of_range_rendered", 1)
	}
	if s != want {
		// distinguish "wrong value" from "right value, non-canonical form"
		kind := "amount-rendered-not-exact"
		if r, ok := new(big.Rat).SetString(s); ok && !strings.ContainsAny(s, "eE/") {
			if r.Cmp(new(big.Rat).SetFrac(big.NewInt(m), unit)) == 0 {
				kind = "amount-rendered-not-canonical"
			}
		}
		run.Violate(ci, kind, at(), det)
		return
	}
	if inRange && !canonRe.MatchString(s) {
		run.Violate(ci, "amount-rendered-not-canonical", at(), det)
		return
	}
	if !inRange {
		return
	}
	var back massutil.Amount
	func() {
		defer func() { pan = recover() }()
		back, err = api.StringToAmount(s)
	}()
	if pan != nil {
		det["panic"] = fmt.Sprint(pan)
		run.Violate(ci, "string-to-amount-panicked", at(), det)
		return
	}
	if err != nil {
		det["err"] = err.Error()
		run.Violate(ci, "rendered-amount-does-not-parse-back", at(), det)
		return
	}
	if back.Value() == nil || back.Value().String() != strconv.FormatInt(m, 10) {
		det["parsed_back"] = fmt.Sprint(back.Value())
		run.Violate(ci, "rendered-amount-parses-back-to-different-integer", at(), det)
		return
	}
	run.Count("amounts_roundtripped", 1)
}

// ---------------------------------------------------------------------------------------------
// once per run: gRPC listener bound to loopback only; real http.Server RemoteAddr shape
// ---------------------------------------------------------------------------------------------

type procSock struct {
	local string
	port  int
	inode string
}

func listeningSockets() ([]procSock, error) {
	var out []procSock
	found := false
	for _, f := range []string{"/proc/net/tcp", "/proc/net/tcp6"} {
		b, err := os.ReadFile(f)
		if err != nil {
			continue
		}
		found = true
		for i, l := range strings.Split(string(b), "\n") {
			fs := strings.Fields(l)
			if i == 0 || len(fs) < 10 || fs[3] != "0A" {
				continue
			}
			hp := strings.Split(fs[1], ":")
			if len(hp) != 2 {
				continue
			}
			p, _ := strconv.ParseInt(hp[1], 16, 32)
			out = append(out, procSock{local: hp[0], port: int(p), inode: fs[9]})
		}
	}
	if !found {
		return nil, fmt.Errorf("no /proc/net/tcp")
	}
	return out, nil
}

func ownSocketInodes() map[string]bool {
	m := map[string]bool{}
	es, err := os.ReadDir("/proc/self/fd")
	if err != nil {
		return m
	}
	for _, e := range es {
		l, err := os.Readlink("/proc/self/fd/" + e.Name())
		if err == nil && strings.HasPrefix(l, "socket:[") {
			m[strings.TrimSuffix(strings.TrimPrefix(l, "socket:["), "]")] = true
		}
	}
	return m
}

func checkGRPCListener(run *vh.Run, ci int) {
	for attempt := 0; attempt < 5; attempt++ {
		l, err := net.Listen("tcp", "127.0.0.1:0")
		if err != nil {
			run.Count("grpc_listener_not_checked:cannot-listen", 1)
			return
		}
		port := l.Addr().(*net.TCPAddr).Port
		l.Close()
		rg, err := newRig(uint16(port))
		if err != nil {
			run.Count("grpc_listener_not_checked:cannot-construct-server", 1)
			return
		}
		if err := rg.srv.Start(); err != nil {
			continue // port taken in between
		}
		defer rg.srv.Stop()
		socks, err := listeningSockets()
		if err != nil {
			run.Count("grpc_listener_not_checked:no-proc-net-tcp", 1)
			return
		}
		own := ownSocketInodes()
		var mine []procSock
		for _, s := range socks {
			if s.port == port && (len(own) == 0 || own[s.inode]) {
				mine = append(mine, s)
			}
		}
		if len(mine) == 0 {
			run.Count("grpc_listener_not_checked:listener-not-found-in-proc", 1)
			return
		}
		for _, s := range mine {
			if s.local != "0100007F" {
				run.Violate(ci, "grpc-listener-not-bound-to-loopback", map[string]string{"part": "grpc-listener"},
					map[string]interface{}{"port": port, "proc_net_tcp_local_address": s.local, "expected": "0100007F"})
				return
			}
		}
		// behavioural cross-check: a workspace listing through the real gRPC socket
		run.Count("grpc_listener_bound_to_127_0_0_1_checked", 1)
		run.Set("grpc_listener", map[string]interface{}{"port": port, "proc_net_tcp_local": mine[0].local})
		return
	}
	run.Count("grpc_listener_not_checked:no-free-port", 1)
}

// realRemoteAddr serves one request through a real http.Server wrapped in the gateway chain and
// records the RemoteAddr the server produced (supports the choice of the judged domain).
func realRemoteAddr(run *vh.Run) {
	fn, err := api.VerifIPAccessControlFunc(nil, nil)
	if err != nil {
		return
	}
	var seen string
	ts := httptest.NewServer(api.VerifGatewayChain(http.HandlerFunc(func(w http.ResponseWriter, r *http.Request) {
		seen = r.RemoteAddr
	}), fn))
	defer ts.Close()
	cl := &http.Client{Timeout: 5 * time.Second}
	resp, err := cl.Get(ts.URL)
	if err != nil {
		run.Count("real_http_server_probe_failed", 1)
		return
	}
	resp.Body.Close()
	if _, err := netip.ParseAddrPort(seen); err == nil && resp.StatusCode == 200 {
		run.Count("real_http_server_remoteaddr_in_judged_domain", 1)
		run.Set("real_http_server_remote_addr_sample", seen)
	} else {
		run.Set("real_http_server_remote_addr_unexpected", map[string]interface{}{"remote_addr": seen, "status": resp.StatusCode})
	}
}

// ---------------------------------------------------------------------------------------------

func main() {
	run := vh.NewRun("C20", "exploration")
	logging.Init(filepath.Join(run.Scratch, "logs"), "c20", "error", 1, true)
	loadHosts()
	root := run.Rng()

	max := massutil.MaxAmount().IntValue()
	unit := new(big.Int).SetUint64(consensus.MaxwellPerMass)
	if want := new(big.Int).Mul(new(big.Int).SetUint64(consensus.MaxMass), unit); !want.IsInt64() || want.Int64() != max || unit.Int64() != 100000000 {
		run.Inconclusive("chain library constants are not what the oracle was written for (MaxwellPerMass / MaxMass)")
		run.Finish("n/a", 0)
	}
	run.Assume("judged address domain = strings netip.ParseAddrPort accepts (what net/http puts into Request.RemoteAddr); everything else only 'no panic' and 'allowed => lenient reading permitted'")
	run.Assume("127.0.0.0/8 other than 127.0.0.1 is loopback by RFC 1122 but not admitted by the code: counted, judged in neither direction")
	run.Assume("massutil (chain library) is the authority for binding targets and addresses; the driver additionally decodes massutil's value to check it carries hash160(key)||type||size")
	run.Assume(fmt.Sprintf("1 MASS = %d maxwell, max amount = %d maxwell (from massutil/consensus)", unit.Int64(), max))

	partWall := map[string]float64{}
	t0 := time.Now()
	lap := func(name string) {
		partWall[name] = float64(int(time.Since(t0).Seconds()*100)) / 100
		t0 = time.Now()
	}
	// ---- part 1
	sys := buildSystematic()
	nAddr := run.N(50000, 1500000)
	if nAddr < len(sys) {
		nAddr = len(sys)
	}
	vh.Parallel(nAddr, 16, func(i int) {
		if !run.Want(i) {
			return
		}
		rng := root.Derive("addr", i)
		var rc remoteCase
		if i < len(sys) {
			sc := sys[i]
			rc.Cfg = acfg{WL: sysWL[sc.wl], LAN: lanSubset(sc.lan)}
			rc.Kind = "edge-systematic"
			if sc.shape >= 0 {
				rc.Remote, rc.Shape = wellFormed(rng, edges[sc.edge], sc.shape)
			} else {
				m := malShapes[-(sc.shape + 1)]
				rc.Remote, rc.Shape = m.f(rng, edges[sc.edge]), "mal:"+m.name
				if m.dns {
					run.Count("access_dns_prone_names_tried", 1)
				}
			}
		} else {
			rc.Cfg = genConfig(rng, i)
			rc.Remote, rc.Shape, rc.Kind = genRemote(rng, rc.Cfg, false)
		}
		accessCase(run, i, rc)
		if i%9973 == 0 && i > 0 && i < 40000 {
			run.Sample(map[string]interface{}{"part": "access", "whitelist": rc.Cfg.WL, "allowed_lan": rc.Cfg.LAN, "remote_addr": rc.Remote})
		}
	})
	// wildcard whole-config cases (fixed): '*' alone and among entries admits everything, '*' among LAN names does not
	base := nAddr
	wild := []remoteCase{
		{Cfg: acfg{WL: []string{"*"}}, Remote: "8.8.8.8:53", Shape: "v4", Kind: "wildcard"},
		{Cfg: acfg{WL: []string{"1.2.3.4", "*"}}, Remote: "[2001:db8::5]:1", Shape: "v6", Kind: "wildcard"},
		{Cfg: acfg{WL: []string{"*"}}, Remote: "garbage", Shape: "mal:garbage", Kind: "wildcard"},
		{Cfg: acfg{LAN: []string{"*"}}, Remote: "8.8.8.8:53", Shape: "v4", Kind: "wildcard-in-lan-list"},
		{Cfg: acfg{LAN: []string{"*", "10"}}, Remote: "172.16.0.1:53", Shape: "v4", Kind: "wildcard-in-lan-list"},
		{Cfg: acfg{WL: []string{"*.*.*.*"}, Invalid: true}, Remote: "8.8.8.8:53", Shape: "v4", Kind: "invalid-whitelist"},
		{Cfg: acfg{WL: []string{"1.2.3.4", "1.2.3"}, Invalid: true}, Remote: "1.2.3.4:53", Shape: "v4", Kind: "invalid-whitelist"},
	}
	for k, rc := range wild {
		if run.Want(base + k) {
			accessCase(run, base+k, rc)
		}
	}
	base += len(wild)

	lap("access")
	// ---- once per run
	if run.Want(base) {
		checkGRPCListener(run, base)
		realRemoteAddr(run)
	}
	base++

	lap("listener")
	// ---- part 2
	nWs := run.N(700, 21000)
	const workers = 16
	rigs := make(chan *rig, workers)
	rigOK := true
	for w := 0; w < workers; w++ {
		rg, err := newRig(0)
		if err != nil {
			rigOK = false
			break
		}
		rigs <- rg
	}
	if !rigOK {
		run.Inconclusive("api.NewServer could not be constructed over fakes")
	} else {
		wsBase := base
		vh.Parallel(nWs, workers, func(wi int) {
			if !run.Want(wsBase + wi) {
				return
			}
			rg := <-rigs
			defer func() { rigs <- rg }()
			workspaceCase(run, wsBase+wi, root.Derive("ws", wi), rg, wi)
		})
	}
	base += nWs

	lap("workspace")
	// ---- part 3
	var fixed []int64
	fixed = append(fixed, 0, 1, 2, 9, max, max-1, max+1, max+2, -1, -2, math.MinInt64, math.MaxInt64, math.MaxInt64-1, 1<<53, 1<<53+1, 1<<53-1, -100000000, 100000000*206438400+100000000)
	p := int64(1)
	for k := 0; k <= 18; k++ {
		fixed = append(fixed, p, p-1, p+1, -p)
		for d := int64(2); d <= 9; d++ {
			if p <= math.MaxInt64/d {
				fixed = append(fixed, d*p)
			}
		}
		if p <= max {
			fixed = append(fixed, max-p, max-p+1)
		}
		p *= 10
	}
	nAmt := run.N(200000, 4000000)
	amtBase := base
	vh.Parallel(nAmt, 16, func(ai int) {
		if !run.Want(amtBase + ai) {
			return
		}
		m, class := genAmount(root.Derive("amt", ai), ai, fixed, max)
		amountCase(run, amtBase+ai, m, class, max, unit)
		if ai == len(fixed)+1 || ai == len(fixed)+2 {
			s, _ := api.AmountToString(m)
			run.Sample(map[string]interface{}{"part": "amount", "amount": m, "rendered": s})
		}
	})

	lap("amount")
	// ---- part 4: the same decision while other origins are being judged at the same time (net/http serves every
	// connection on its own goroutine): every answer must be the one the predicate gives when asked alone
	base = amtBase + nAmt
	nConc := run.N(40, 1000)
	for k := 0; k < nConc; k++ {
		if run.Want(base + k) {
			concurrentAccessCase(run, base+k, root.Derive("conc-access", k))
		}
	}
	lap("concurrent-access")
	run.Set("wall_s_by_part", partWall)
	if run.Only < 0 {
		if run.Counter("access_judged_outside_all_classes") == 0 || run.Counter("access_403_observed") == 0 {
			run.Inconclusive("no address outside every permitted class was judged")
		}
		if run.Counter("ws_v1_items_compared") == 0 || run.Counter("ws_v2_items_compared") == 0 {
			run.Inconclusive("no workspace item was compared")
		}
		if run.Counter("amounts_roundtripped") == 0 {
			run.Inconclusive("no amount was rendered and parsed back")
		}
		// inputs the code refused (so that nothing could be judged) must stay a small minority per part
		if d := run.Counter("dropped:amount: in-range amount rejected by AmountToString"); d*100 > int64(nAmt) {
			run.Inconclusive(fmt.Sprintf("%d of %d in-range amounts were rejected instead of rendered", d, nAmt))
		}
		if d := run.Counter("dropped:access: constructor rejected a configuration the reference reads as valid"); d*100 > int64(nAddr) {
			run.Inconclusive(fmt.Sprintf("%d of %d valid access configurations were rejected by the constructor", d, nAddr))
		}
		var wsDropped int64
		for _, via := range []string{"GetCapacitySpaces", "GetCapacitySpacesByDirs", "GetCapacitySpace", "GetCapacitySpacesV2", "GetCapacitySpaceV2"} {
			wsDropped += run.Counter("dropped:workspace: " + via + " returned an error for a scripted list")
		}
		if wsDropped*100 > int64(nWs) {
			run.Inconclusive(fmt.Sprintf("%d workspace listing calls over %d scripted lists returned an error", wsDropped, nWs))
		}
	}
	run.Finish("cases = (whitelist, LAN set, remote address) triples: every range-edge address in every textual shape under 32 fixed configurations, every malformed shape, then seeded random configurations/addresses (near-misses of whitelist entries, range edges, v4 bytes inside non-mapped v6); scripted workspace lists (1-5 v1 + 1-5 v2 items each) served by a real api.Server; amounts (fixed: 0, 10^k +-1, d*10^k, max +-1, int64 limits; then seeded classes). non-trivial = address accepted by netip.ParseAddrPort under a non-wildcard configuration, or a list with >= 1 listed item compared, or any amount; distinct by hash of the input",
		run.N(30000, 600000))
}
