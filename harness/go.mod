module verif/harness

go 1.23

require (
	github.com/anishathalye/porcupine v1.3.0
	golang.org/x/crypto v0.0.0-20210322153248-0c34fe9e7dc2
	massnet.org/mass v0.0.0
)

require (
	github.com/btcsuite/btcd v0.20.1-beta // indirect
	github.com/golang/protobuf v1.4.2 // indirect
	github.com/lestrrat/go-file-rotatelogs v0.0.0-20180223000712-d3151e2a480f // indirect
	github.com/lestrrat/go-strftime v0.0.0-20180220042222-ba3bf9c1d042 // indirect
	github.com/massnetorg/mass-core v0.0.0-20210816132538-be1c10e6c62a // indirect
	github.com/pkg/errors v0.8.1 // indirect
	github.com/rifflock/lfshook v0.0.0-20180920164130-b9218ef580f5 // indirect
	github.com/shopspring/decimal v1.2.0 // indirect
	github.com/sirupsen/logrus v1.2.0 // indirect
	golang.org/x/sys v0.0.0-20210420205809-ac73e9fd8988 // indirect
	golang.org/x/term v0.0.0-20201126162022-7de9c90e9dd1 // indirect
	google.golang.org/protobuf v1.23.0 // indirect
)

replace massnet.org/mass => /repo
