module verif/harness

go 1.23

require (
	github.com/anishathalye/porcupine v1.3.0
	github.com/golang/protobuf v1.4.2
	github.com/google/uuid v1.3.0
	github.com/massnetorg/mass-core v0.0.0-20210816132538-be1c10e6c62a
	github.com/shirou/gopsutil v3.21.5+incompatible
	github.com/sirupsen/logrus v1.2.0
	golang.org/x/crypto v0.0.0-20210322153248-0c34fe9e7dc2
	massnet.org/mass v0.0.0
)

require (
	github.com/btcsuite/btcd v0.20.1-beta // indirect
	github.com/go-kit/kit v0.9.0 // indirect
	github.com/go-logfmt/logfmt v0.4.0 // indirect
	github.com/gogo/protobuf v1.3.1 // indirect
	github.com/golang/groupcache v0.0.0-20191227052852-215e87163ea7 // indirect
	github.com/golang/snappy v0.0.1 // indirect
	github.com/grpc-ecosystem/grpc-gateway v1.14.5 // indirect
	github.com/lestrrat/go-file-rotatelogs v0.0.0-20180223000712-d3151e2a480f // indirect
	github.com/lestrrat/go-strftime v0.0.0-20180220042222-ba3bf9c1d042 // indirect
	github.com/massnetorg/tendermint v1.0.0 // indirect
	github.com/orcaman/concurrent-map v0.0.0-20190314100340-2693aad1ed75 // indirect
	github.com/panjf2000/ants/v2 v2.4.6 // indirect
	github.com/pkg/errors v0.8.1 // indirect
	github.com/rifflock/lfshook v0.0.0-20180920164130-b9218ef580f5 // indirect
	github.com/shopspring/decimal v1.2.0 // indirect
	github.com/syndtr/goleveldb v1.0.1-0.20210305035536-64b5b1c73954 // indirect
	golang.org/x/net v0.0.0-20210226172049-e18ecbb05110 // indirect
	golang.org/x/sys v0.0.0-20210420205809-ac73e9fd8988 // indirect
	golang.org/x/term v0.0.0-20201126162022-7de9c90e9dd1 // indirect
	golang.org/x/text v0.3.3 // indirect
	google.golang.org/genproto v0.0.0-20200108215221-bd8f9a0ef82f // indirect
	google.golang.org/grpc v1.26.0 // indirect
	google.golang.org/protobuf v1.23.0 // indirect
	gopkg.in/fatih/set.v0 v0.2.1 // indirect
	gopkg.in/karalabe/cookiejar.v2 v2.0.0-20150724131613-8dcd6a7f4951 // indirect
)

replace massnet.org/mass => /repo
