// Package kconc: concurrent requests on spaces whose table is complete, checked for linearizability.
//
// For such a space the plotter has nothing to do, so every request is one step of a small machine executed under the
// keeper's state lock:
//
//	ready --mine--> mining --stop--> ready;  remove/delete: refused while mining, otherwise the space is gone;
//	every request on a gone space: "does not exist";  a state query shows the machine's state (gone = not listed)
//
// 3-5 goroutines issue mine/stop/remove/delete/state queries on 2-4 such spaces while one more space is plotted and
// stopped over and over with a plot that takes 1-5 ms to wind down (the stop request holds the state lock meanwhile, so
// the other requests queue up on it).  Every call is recorded with call/return times from one monotonic clock and the
// history of each space is checked for linearizability against the machine above (porcupine).
package kconc

import (
	"errors"
	"fmt"
	"os"
	"path/filepath"
	"sync"
	"sync/atomic"
	"time"

	"github.com/anishathalye/porcupine"
	"massnet.org/mass/config"
	"massnet.org/mass/poc/engine"
	"massnet.org/mass/poc/engine/spacekeeper/capacity"
	"verif/harness/internal/kp"
	"verif/harness/internal/vh"
)

type cIn struct {
	SID string
	Op  string // mine stop remove delete state
}

const (
	stReady = iota
	stMining
	stGone
)

var concModel = porcupine.Model{
	Partition: func(h []porcupine.Operation) [][]porcupine.Operation {
		m := map[string][]porcupine.Operation{}
		var keys []string
		for _, o := range h {
			k := o.Input.(cIn).SID
			if _, ok := m[k]; !ok {
				keys = append(keys, k)
			}
			m[k] = append(m[k], o)
		}
		out := make([][]porcupine.Operation, 0, len(keys))
		for _, k := range keys {
			out = append(out, m[k])
		}
		return out
	},
	Init: func() interface{} { return stReady },
	Step: func(state, in, out interface{}) (bool, interface{}) {
		st, i, o := state.(int), in.(cIn), out.(string)
		switch i.Op {
		case "mine":
			if st == stGone {
				return o == "does-not-exist", st
			}
			return o == "ok", stMining
		case "stop":
			if st == stGone {
				return o == "does-not-exist", st
			}
			return o == "ok", stReady
		case "remove", "delete":
			switch st {
			case stGone:
				return o == "does-not-exist", st
			case stMining:
				return o == "refused-not-still", st
			}
			return o == "ok", stGone
		case "state":
			return o == []string{"ready", "mining", "not-listed"}[st], st
		}
		return false, st
	},
	DescribeOperation: func(in, out interface{}) string {
		return fmt.Sprintf("%s(%s) -> %s", in.(cIn).Op, shortSID(in.(cIn).SID), out.(string))
	},
}

func concErr(err error) string {
	switch {
	case err == nil:
		return "ok"
	case errors.Is(err, capacity.ErrWorkSpaceDoesNotExist):
		return "does-not-exist"
	case errors.Is(err, capacity.ErrWorkSpaceIsNotStill):
		return "refused-not-still"
	}
	return "error: " + err.Error()
}

// Result of one concurrent history.
type Result struct {
	Dropped   string   // not judged (why)
	Ops       int      // recorded operations
	Overlaps  int      // pairs of operations of different goroutines on one space that overlapped in time
	HogRounds int64    // plot/stop rounds of the lock hog
	Illegal   bool     // some space's history has no linearization
	History   []string // that space's history
	Params    map[string]interface{}
}

const Machine = "ready -mine-> mining -stop-> ready; remove/delete refused while mining, otherwise gone; anything on a gone space: does-not-exist"

// Run executes history i (a pure function of rng) under scratch and checks it. The fake plot backend (kp.InstallBackend)
// must be installed.
func Run(scratch string, root *vh.Rng, i int, walletSeed uint64) (res Result) {
	rng := root.Derive("conc", i)
	dir := filepath.Join(scratch, fmt.Sprintf("conc-%d", i))
	os.MkdirAll(dir, 0o755)
	defer os.RemoveAll(dir)
	ctl := kp.NewCtl(fmt.Sprintf("conc%d", i), []string{dir})
	ctl.Free = true
	nReady := rng.Range(2, 4)
	created := 0
	ctl.CreatePlotted = func(string) bool { created++; return created <= nReady }
	// the hog's plot ends by a stop, or gives up by itself after 30 ms (a stop request that reaches the plot DB before the
	// plotter has started the plot is lost - the known stale-request finding of C09 -, and the keeper's Stop then waits
	// for the plot to end: it must not take long)
	ctl.FreeOutcome = func(*kp.FakeDB) (string, time.Duration) { return "abort", 30 * time.Millisecond }
	windDown := time.Duration(rng.Range(1, 5)) * time.Millisecond
	ctl.StopDelay = func(*kp.FakeDB) time.Duration { return windDown }
	cfg := config.DefaultConfig()
	cfg.Miner.ProofDir = []string{dir}
	ski, err := capacity.NewSpaceKeeperV1(cfg, kp.NewFakeWallet(walletSeed))
	if err != nil {
		res.Dropped = "cannot construct keeper: " + err.Error()
		ctl.Close([]string{dir}, nil)
		return
	}
	sk := ski.(*capacity.SpaceKeeper)
	defer ctl.Close([]string{dir}, sk)
	infos, err := sk.ConfigureByBitLength(map[int]int{24: nReady + 1}, false, false)
	if err != nil {
		res.Dropped = "cannot configure: " + err.Error()
		return
	}
	var ready []string
	hog := ""
	for _, in := range infos {
		if in.State == engine.Ready {
			ready = append(ready, in.SpaceID)
		} else {
			hog = in.SpaceID
		}
	}
	if len(ready) < 2 || hog == "" {
		res.Dropped = "conc: unexpected initial states"
		return
	}
	if err := sk.Start(); err != nil {
		res.Dropped = "conc: keeper does not start: " + err.Error()
		return
	}
	t0 := time.Now()
	now := func() int64 { return int64(time.Since(t0)) }
	var mu sync.Mutex
	var ops []porcupine.Operation
	rec := func(g int, in cIn, call int64, out string) {
		ret := now()
		mu.Lock()
		ops = append(ops, porcupine.Operation{ClientId: g, Input: in, Call: call, Output: out, Return: ret})
		mu.Unlock()
	}
	var stopHog int32
	var hogRounds int64
	var hwg sync.WaitGroup
	hwg.Add(1)
	go func() {
		defer hwg.Done()
		for atomic.LoadInt32(&stopHog) == 0 {
			sk.ActOnWorkSpace(hog, engine.Plot)
			time.Sleep(200 * time.Microsecond)
			sk.ActOnWorkSpace(hog, engine.Stop) // holds the state lock until the plot has wound down
			atomic.AddInt64(&hogRounds, 1)
		}
	}()
	G, M := rng.Range(3, 5), rng.Range(6, 14)
	var wg sync.WaitGroup
	for g := 0; g < G; g++ {
		r := rng.Derive("g", g)
		g := g
		wg.Add(1)
		go func() {
			defer wg.Done()
			for j := 0; j < M; j++ {
				sid := ready[r.Intn(len(ready))]
				switch r.Weighted(5, 4, 1, 1, 3) {
				case 0:
					c := now()
					rec(g, cIn{sid, "mine"}, c, concErr(sk.ActOnWorkSpace(sid, engine.Mine)))
				case 1:
					c := now()
					rec(g, cIn{sid, "stop"}, c, concErr(sk.ActOnWorkSpace(sid, engine.Stop)))
				case 2:
					c := now()
					rec(g, cIn{sid, "remove"}, c, concErr(sk.ActOnWorkSpace(sid, engine.Remove)))
				case 3:
					c := now()
					rec(g, cIn{sid, "delete"}, c, concErr(sk.ActOnWorkSpace(sid, engine.Delete)))
				case 4:
					c := now()
					all, err := sk.WorkSpaceInfos(engine.SFAll)
					if err != nil {
						continue
					}
					seen := map[string]string{}
					for _, in := range all {
						seen[in.SpaceID] = in.State.String()
					}
					for _, s := range ready {
						st, ok := seen[s]
						if !ok {
							st = "not-listed"
						}
						rec(g, cIn{s, "state"}, c, st)
					}
				}
				if r.Chance(1, 3) {
					time.Sleep(time.Duration(r.Intn(400)) * time.Microsecond)
				}
			}
		}()
	}
	wg.Wait()
	atomic.StoreInt32(&stopHog, 1)
	hwg.Wait()
	sk.Stop()
	res.Ops, res.HogRounds = len(ops), atomic.LoadInt64(&hogRounds)
	res.Params = map[string]interface{}{"spaces": len(ready), "goroutines": G, "calls_per_goroutine": M, "wind_down_ms": windDown.Milliseconds()}
	overlaps := 0
	for a := range ops {
		for b := a + 1; b < len(ops); b++ {
			if ops[a].ClientId != ops[b].ClientId && ops[a].Input.(cIn).SID == ops[b].Input.(cIn).SID && ops[a].Call < ops[b].Return && ops[b].Call < ops[a].Return {
				overlaps++
			}
		}
	}
	res.Overlaps = overlaps
	verdict, _ := porcupine.CheckOperationsVerbose(concModel, ops, 20*time.Second)
	switch verdict {
	case porcupine.Unknown:
		res.Dropped = "conc: linearizability checker timed out"
		return
	case porcupine.Illegal:
		// the partition that cannot be linearized
		var bad []string
		for _, part := range concModel.Partition(ops) {
			if porcupine.CheckOperations(concModel, part) {
				continue
			}
			for _, o := range part {
				bad = append(bad, fmt.Sprintf("g%d [%d..%d us] %s", o.ClientId, o.Call/1000, o.Return/1000, concModel.DescribeOperation(o.Input, o.Output)))
			}
			break
		}
		res.Illegal, res.History = true, bad
	}
	return res
}

func shortSID(s string) string {
	if len(s) > 12 {
		return s[:6] + ".." + s[len(s)-5:]
	}
	return s
}
