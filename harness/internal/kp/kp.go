// Package kp is the shared space-keeper harness: a scripted plot-DB backend plugged into the exported
// backend registry, a fake wallet, and a per-case controller that turns the H3 plotter hook points into
// gates so that the harness is the scheduler of the plotter goroutine.
package kp

import (
	"encoding/binary"
	"errors"
	"fmt"
	"sync"
	"time"

	"github.com/massnetorg/mass-core/poc"
	"github.com/massnetorg/mass-core/poc/pocutil"
	"github.com/massnetorg/mass-core/pocec"
	"massnet.org/mass/poc/engine/massdb"
	"massnet.org/mass/verifhook"
)

// ---------------------------------------------------------------- fake wallet

// FakeWallet satisfies capacity.PoCWallet: keys are derived from a counter.
type FakeWallet struct {
	mu     sync.Mutex
	seed   uint64
	keys   []*pocec.PrivateKey
	byPub  map[string]uint32
	locked bool
}

func NewFakeWallet(seed uint64) *FakeWallet {
	return &FakeWallet{seed: seed, byPub: map[string]uint32{}}
}

func (w *FakeWallet) GenerateNewPublicKey() (*pocec.PublicKey, uint32, error) {
	w.mu.Lock()
	defer w.mu.Unlock()
	var b [32]byte
	binary.BigEndian.PutUint64(b[8:], w.seed)
	binary.BigEndian.PutUint64(b[24:], uint64(len(w.keys))+1)
	b[0] = 1
	priv, pub := pocec.PrivKeyFromBytes(pocec.S256(), b[:])
	idx := uint32(len(w.keys))
	w.keys = append(w.keys, priv)
	w.byPub[string(pub.SerializeCompressed())] = idx
	return pub, idx, nil
}

func (w *FakeWallet) GetPublicKeyOrdinal(pk *pocec.PublicKey) (uint32, bool) {
	w.mu.Lock()
	defer w.mu.Unlock()
	i, ok := w.byPub[string(pk.SerializeCompressed())]
	return i, ok
}

func (w *FakeWallet) SignMessage(pk *pocec.PublicKey, hash []byte) (*pocec.Signature, error) {
	w.mu.Lock()
	defer w.mu.Unlock()
	i, ok := w.byPub[string(pk.SerializeCompressed())]
	if !ok {
		return nil, errors.New("unknown key")
	}
	return w.keys[i].Sign(hash)
}

func (w *FakeWallet) Unlock([]byte) error { w.mu.Lock(); w.locked = false; w.mu.Unlock(); return nil }
func (w *FakeWallet) Lock()               { w.mu.Lock(); w.locked = true; w.mu.Unlock() }
func (w *FakeWallet) IsLocked() bool      { w.mu.Lock(); defer w.mu.Unlock(); return w.locked }

// ---------------------------------------------------------------- controller

// Event is something the plotter side did: a gate arrival, a scripted plot starting or ending.
type Event struct {
	Kind string // gate:<point> | plot-start | plot-end
	SID  string // space id (keeper's notion) or db key
	Out  string // plot-end: complete | abort
}

// Ctl is the per-case controller (one keeper, one set of directories).
type Ctl struct {
	Name string
	Free bool // free-running: gates never block, scripted plots decide by themselves

	mu        sync.Mutex
	dbs       map[string]*FakeDB // by db key
	events    chan Event
	release   chan struct{}
	gated     bool // plotter is currently blocked at a gate
	InFlight  int  // scripted Plot() calls in flight
	MaxFlight int
	PlotCalls int
	// UsedAfterDelete lists calls (Plot, GetProof) the keeper made on a plot DB after it had deleted it
	UsedAfterDelete []string
	Log             []string
	// behaviour of scripted plots
	CreatePlotted func(key string) bool                    // should a newly created DB be already complete
	FreeOutcome   func(db *FakeDB) (string, time.Duration) // free-running: outcome and duration
	StopDelay     func(db *FakeDB) time.Duration           // optional: how long a stopped plot takes to wind down
	ProofDelay    time.Duration                            // optional: how long a table lookup (GetProof) takes
	OnPlotStart   func(db *FakeDB)                         // called when a scripted plot starts (any goroutine)
	real          bool
}

var (
	regMu    sync.Mutex
	byDir    = map[string]*Ctl{}
	bySK     sync.Map // keeper pointer -> *Ctl
	hookOnce sync.Once
)

// NewCtl creates a controller and registers it for its plot directories.
func NewCtl(name string, dirs []string) *Ctl {
	c := &Ctl{Name: name, dbs: map[string]*FakeDB{}, events: make(chan Event, 4096), release: make(chan struct{})}
	regMu.Lock()
	for _, d := range dirs {
		byDir[d] = c
	}
	regMu.Unlock()
	return c
}

// Close unregisters the controller.
func (c *Ctl) Close(dirs []string, sk interface{}) {
	regMu.Lock()
	for _, d := range dirs {
		delete(byDir, d)
	}
	regMu.Unlock()
	if sk != nil {
		bySK.Delete(sk)
	}
}

// Bind associates a constructed keeper with the controller (hook handlers look it up by keeper pointer).
func (c *Ctl) Bind(sk interface{}) { bySK.Store(sk, c) }

func (c *Ctl) logf(f string, a ...interface{}) {
	c.mu.Lock()
	if len(c.Log) < 4000 {
		c.Log = append(c.Log, fmt.Sprintf(f, a...))
	}
	c.mu.Unlock()
}

// arrive is called on the plotter goroutine at a hook point.
func (c *Ctl) arrive(point, sid string) {
	if c.Free {
		return
	}
	c.mu.Lock()
	c.gated = true
	c.mu.Unlock()
	c.events <- Event{Kind: "gate:" + point, SID: sid}
	<-c.release
}

// Release lets the plotter leave the gate it is blocked at.
func (c *Ctl) Release() {
	c.mu.Lock()
	g := c.gated
	c.gated = false
	c.mu.Unlock()
	if g {
		c.release <- struct{}{}
	}
}

// Gated reports whether the plotter is blocked at a gate.
func (c *Ctl) Gated() bool { c.mu.Lock(); defer c.mu.Unlock(); return c.gated }

// Next waits for the next event from the plotter side.
func (c *Ctl) Next(timeout time.Duration) (Event, bool) {
	select {
	case e := <-c.events:
		return e, true
	case <-time.After(timeout):
		return Event{}, false
	}
}

// Poll returns an event if one is already there.
func (c *Ctl) Poll() (Event, bool) {
	select {
	case e := <-c.events:
		return e, true
	default:
		return Event{}, false
	}
}

// InstallHooks installs the global H3 handlers once; they dispatch on the keeper pointer.
func InstallHooks() {
	hookOnce.Do(func() {
		for _, p := range []string{"idle", "popped", "plotting", "plotted", "stepDone"} {
			point := p
			verifhook.SetPoint("plotter."+point, func(args ...interface{}) {
				if len(args) == 0 {
					return
				}
				v, ok := bySK.Load(args[0])
				if !ok {
					return
				}
				sid := ""
				if len(args) > 1 {
					sid, _ = args[1].(string)
				}
				v.(*Ctl).arrive(point, sid)
			})
		}
	})
}

// ---------------------------------------------------------------- scripted plot DB (engine v1)

var ErrFakeNoProof = errors.New("scripted db: no proof")

// FakeDB is a scripted massdb.MassDB.
type FakeDB struct {
	c       *Ctl
	Key     string
	Dir     string
	Ord     int64
	pk      *pocec.PublicKey
	bl      int
	mu      sync.Mutex
	Done    bool // table complete
	Running bool
	stop    chan struct{}
	stopped bool
	decide  chan string
	ended   chan struct{}
	Deleted bool
	Plots   int
	// Partial is the progress figure (percent, < 100) an unfinished table reports: set when a plot ends without
	// completing, from a fixed cycle that includes figures a hair below 100
	Partial float64
}

// partialFigures: what interrupted plots report; real tables stopped in their last window report such figures.
var partialFigures = []float64{0, 37.5, 99.96, 50, 99.9996, 12.25, 99.94, 99.99996}

func dbKey(dir string, ord int64, pk *pocec.PublicKey, bl int) string {
	return fmt.Sprintf("%s|%d|%x|%d", dir, ord, pk.SerializeCompressed(), bl)
}

func parse(args ...interface{}) (string, int64, *pocec.PublicKey, int, error) {
	if len(args) != 4 {
		return "", 0, nil, 0, massdb.ErrInvalidDBArgs
	}
	dir, ok1 := args[0].(string)
	ord, ok2 := args[1].(int64)
	pk, ok3 := args[2].(*pocec.PublicKey)
	bl, ok4 := args[3].(int)
	if !ok1 || !ok2 || !ok3 || !ok4 {
		return "", 0, nil, 0, massdb.ErrInvalidDBArgs
	}
	return dir, ord, pk, bl, nil
}

func ctlOf(dir string) *Ctl {
	regMu.Lock()
	defer regMu.Unlock()
	return byDir[dir]
}

var (
	realOpen, realCreate func(args ...interface{}) (massdb.MassDB, error)
	backendOnce          sync.Once
)

// InstallBackend replaces the massdb.v1 entry of the exported backend registry by the scripted backend.
// Directories without a controller (or with a controller marked real) fall through to the real backend.
func InstallBackend() {
	backendOnce.Do(func() {
		for i, b := range massdb.DBBackendList {
			if b.Typ == "massdb.v1" {
				realOpen, realCreate = b.OpenDB, b.CreateDB
				massdb.DBBackendList[i] = massdb.DBBackend{Typ: b.Typ, OpenDB: fakeOpen, CreateDB: fakeCreate}
			}
		}
	})
}

// SetProofDelay sets how long a scripted table lookup takes from now on.
func (c *Ctl) SetProofDelay(d time.Duration) {
	c.mu.Lock()
	c.ProofDelay = d
	c.mu.Unlock()
}

// UseRealBackend makes this controller's directories use the real massdb.v1.
func (c *Ctl) UseRealBackend() { c.real = true }

func fakeOpen(args ...interface{}) (massdb.MassDB, error) {
	dir, ord, pk, bl, err := parse(args...)
	if err != nil {
		return nil, err
	}
	c := ctlOf(dir)
	if c == nil || c.real {
		return realOpen(args...)
	}
	c.mu.Lock()
	defer c.mu.Unlock()
	d, ok := c.dbs[dbKey(dir, ord, pk, bl)]
	if !ok || d.Deleted {
		return nil, massdb.ErrDBDoesNotExist
	}
	return d, nil
}

func fakeCreate(args ...interface{}) (massdb.MassDB, error) {
	dir, ord, pk, bl, err := parse(args...)
	if err != nil {
		return nil, err
	}
	c := ctlOf(dir)
	if c == nil || c.real {
		return realCreate(args...)
	}
	k := dbKey(dir, ord, pk, bl)
	c.mu.Lock()
	defer c.mu.Unlock()
	d := &FakeDB{c: c, Key: k, Dir: dir, Ord: ord, pk: pk, bl: bl}
	if c.CreatePlotted != nil && c.CreatePlotted(k) {
		d.Done = true
	}
	c.dbs[k] = d
	return d, nil
}

// DBs returns the scripted DBs of the controller.
func (c *Ctl) DBs() []*FakeDB {
	c.mu.Lock()
	defer c.mu.Unlock()
	var out []*FakeDB
	for _, d := range c.dbs {
		out = append(out, d)
	}
	return out
}

func (d *FakeDB) Type() string             { return "massdb.v1" }
func (d *FakeDB) Close() error             { <-d.StopPlot(); return nil }
func (d *FakeDB) BitLength() int           { return d.bl }
func (d *FakeDB) PubKey() *pocec.PublicKey { return d.pk }
func (d *FakeDB) PubKeyHash() pocutil.Hash { return pocutil.PubKeyHash(d.pk) }
func (d *FakeDB) Ready() bool              { d.mu.Lock(); defer d.mu.Unlock(); return d.Done }
func (d *FakeDB) GetProof(challenge pocutil.Hash, filter bool) (*poc.DefaultProof, error) {
	d.noteUse("GetProof")
	d.c.mu.Lock()
	delay := d.c.ProofDelay
	d.c.mu.Unlock()
	if delay > 0 {
		time.Sleep(delay) // a table lookup on a disk that is busy
	}
	return nil, ErrFakeNoProof
}

// TakeUsedAfterDelete returns and clears the list of calls made on deleted plot DBs.
func (c *Ctl) TakeUsedAfterDelete() []string {
	c.mu.Lock()
	defer c.mu.Unlock()
	u := c.UsedAfterDelete
	c.UsedAfterDelete = nil
	return u
}

func (d *FakeDB) noteUse(call string) {
	d.mu.Lock()
	del := d.Deleted
	d.mu.Unlock()
	if del {
		d.c.mu.Lock()
		d.c.UsedAfterDelete = append(d.c.UsedAfterDelete, fmt.Sprintf("%s on the deleted space %x-%d", call, d.pk.SerializeCompressed(), d.bl))
		d.c.mu.Unlock()
	}
}

func (d *FakeDB) Progress() (bool, bool, float64) {
	d.mu.Lock()
	defer d.mu.Unlock()
	if d.Done {
		return true, true, 100
	}
	return d.Partial >= 50, false, d.Partial
}

// Plot starts a scripted plot: it runs until the harness decides the outcome (Finish), StopPlot is called,
// or, in free-running mode, the scripted duration is over.
func (d *FakeDB) Plot() chan error {
	d.noteUse("Plot")
	res := make(chan error, 1)
	d.mu.Lock()
	if d.Running {
		d.mu.Unlock()
		res <- errors.New("db already been plotting")
		return res
	}
	if d.Done {
		d.mu.Unlock()
		res <- nil
		return res
	}
	d.Running, d.stopped = true, false
	d.stop = make(chan struct{})
	d.decide = make(chan string, 1)
	d.ended = make(chan struct{})
	d.Plots++
	d.mu.Unlock()
	c := d.c
	c.mu.Lock()
	c.InFlight++
	c.PlotCalls++
	if c.InFlight > c.MaxFlight {
		c.MaxFlight = c.InFlight
	}
	onStart := c.OnPlotStart
	c.mu.Unlock()
	if onStart != nil {
		onStart(d)
	}
	if !c.Free {
		c.events <- Event{Kind: "plot-start", SID: d.Key}
	}
	go func() {
		out := "abort"
		if c.Free {
			o, dur := "complete", time.Duration(0)
			if c.FreeOutcome != nil {
				o, dur = c.FreeOutcome(d)
			}
			select {
			case <-d.stop:
			case <-time.After(dur):
				out = o
			}
		} else {
			select {
			case <-d.stop:
			case out = <-d.decide:
			}
		}
		d.mu.Lock()
		if out == "complete" {
			d.Done = true
		} else {
			d.Partial = partialFigures[(d.Plots+len(d.Key))%len(partialFigures)]
		}
		d.Running = false
		d.mu.Unlock()
		var perr error
		if out == "error" {
			perr = errors.New("scripted plot failure: input/output error")
		}
		c.mu.Lock()
		c.InFlight--
		c.mu.Unlock()
		if !c.Free {
			c.events <- Event{Kind: "plot-end", SID: d.Key, Out: out}
		}
		close(d.ended)
		res <- perr
	}()
	return res
}

// Finish decides the outcome of the running scripted plot ("complete" or "abort").
func (d *FakeDB) Finish(out string) {
	d.mu.Lock()
	ch := d.decide
	run := d.Running
	d.mu.Unlock()
	if run && ch != nil {
		select {
		case ch <- out:
		default:
		}
	}
}

func (d *FakeDB) StopPlot() chan error {
	res := make(chan error, 1)
	d.mu.Lock()
	if !d.Running {
		d.mu.Unlock()
		res <- nil
		return res
	}
	if !d.stopped { // (the real backend closes its channel unguarded; double close is C13's business, not the fake's)
		d.stopped = true
		close(d.stop)
	}
	ended := d.ended
	d.mu.Unlock()
	var delay time.Duration
	d.c.mu.Lock()
	sd := d.c.StopDelay
	d.c.mu.Unlock()
	if sd != nil {
		delay = sd(d)
	}
	go func() {
		<-ended
		if delay > 0 {
			time.Sleep(delay) // a plot that takes a while to wind down (the real one polls its stop channel between blocks)
		}
		res <- nil
	}()
	return res
}

func (d *FakeDB) Delete() chan error {
	res := make(chan error, 1)
	d.mu.Lock()
	defer d.mu.Unlock()
	if d.Running {
		res <- errors.New("db already been plotting")
		return res
	}
	d.Deleted = true
	res <- nil
	return res
}

// IsRunning reports whether a scripted plot is in flight on this DB.
func (d *FakeDB) IsRunning() bool { d.mu.Lock(); defer d.mu.Unlock(); return d.Running }
