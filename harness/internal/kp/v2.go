package kp

import (
	"encoding/binary"
	"errors"
	"fmt"
	"os"
	"path/filepath"
	"sync"

	"github.com/massnetorg/mass-core/poc/chiapos"
	"github.com/massnetorg/mass-core/poc/pocutil"
	massdbv2 "massnet.org/mass/poc/engine.v2/massdb"
)

// scripted engine-v2 (chia) plot DB: identified by file name.
type FakeDBV2 struct {
	file string
	info *chiapos.PlotInfo
	k    int
}

var (
	v2mu     sync.Mutex
	v2files  = map[string]*FakeDBV2{}
	v2once   sync.Once
	v2real   func(args ...interface{}) (massdbv2.MassDB, error)
	keyCache = map[uint64]*chiapos.PlotInfo{}
)

// InstallBackendV2 replaces the chiapos entry of the engine-v2 backend registry; unknown files fall through.
func InstallBackendV2() {
	v2once.Do(func() {
		for i, b := range massdbv2.DBBackendList {
			if b.Typ == "chiapos" {
				v2real = b.OpenDB
				massdbv2.DBBackendList[i] = massdbv2.DBBackend{Typ: b.Typ, OpenDB: func(args ...interface{}) (massdbv2.MassDB, error) {
					if len(args) == 1 {
						if name, ok := args[0].(string); ok {
							v2mu.Lock()
							d := v2files[name]
							v2mu.Unlock()
							if d != nil {
								return d, nil
							}
						}
					}
					return v2real(args...)
				}}
			}
		}
	})
}

func plotInfo(id uint64) *chiapos.PlotInfo {
	v2mu.Lock()
	defer v2mu.Unlock()
	if pi, ok := keyCache[id%64]; ok { // BLS key generation is slow: 64 distinct identities are plenty
		return pi
	}
	mk := func(tag uint64) *chiapos.G1Element {
		seed := make([]byte, 32)
		binary.BigEndian.PutUint64(seed[8:], id%64)
		binary.BigEndian.PutUint64(seed[24:], tag)
		sk, err := chiapos.NewAugSchemeMPL().KeyGen(seed)
		if err != nil {
			panic(err)
		}
		g, err := sk.GetG1()
		if err != nil {
			panic(err)
		}
		return g
	}
	pi := &chiapos.PlotInfo{PoolPublicKey: mk(1), FarmerPublicKey: mk(2), PlotPublicKey: mk(3)}
	keyCache[id%64] = pi
	return pi
}

// PlantV2Plots creates n empty *.plot files in dir and registers scripted DBs for them.
func PlantV2Plots(dir string, n int, base uint64) []string {
	var out []string
	for j := 0; j < n; j++ {
		name := filepath.Join(dir, fmt.Sprintf("plot-k32-%d-%d.plot", base, j))
		os.WriteFile(name, nil, 0o644)
		d := &FakeDBV2{file: name, info: plotInfo(base*8 + uint64(j)), k: 32}
		v2mu.Lock()
		v2files[name] = d
		v2mu.Unlock()
		out = append(out, name)
	}
	return out
}

func ForgetV2Plots(files []string) {
	v2mu.Lock()
	for _, f := range files {
		delete(v2files, f)
	}
	v2mu.Unlock()
}

func (d *FakeDBV2) Type() string                { return "chiapos" }
func (d *FakeDBV2) Close() error                { return nil }
func (d *FakeDBV2) Ready() bool                 { return true }
func (d *FakeDBV2) BitLength() int              { return d.k }
func (d *FakeDBV2) ID() [32]byte                { return [32]byte{} }
func (d *FakeDBV2) PlotInfo() *chiapos.PlotInfo { return d.info }
func (d *FakeDBV2) GetQualities(challenge pocutil.Hash) ([][]byte, error) {
	return [][]byte{make([]byte, 32)}, nil
}
func (d *FakeDBV2) GetProof(challenge pocutil.Hash, index uint32) (*chiapos.ProofOfSpace, error) {
	return nil, errors.New("scripted db: no proof")
}
