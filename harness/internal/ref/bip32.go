// Package ref holds small independent reference implementations used as
// oracles over executions of the code under test.
package ref

import (
	"bytes"
	"crypto/hmac"
	"crypto/sha256"
	"crypto/sha512"
	"encoding/binary"
	"errors"
	"math/big"
	"sync"

	"golang.org/x/crypto/ripemd160"
)

// secp256k1 parameters.
var (
	P, _  = new(big.Int).SetString("FFFFFFFFFFFFFFFFFFFFFFFFFFFFFFFFFFFFFFFFFFFFFFFFFFFFFFFEFFFFFC2F", 16)
	N, _  = new(big.Int).SetString("FFFFFFFFFFFFFFFFFFFFFFFFFFFFFFFEBAAEDCE6AF48A03BBFD25E8CD0364141", 16)
	Gx, _ = new(big.Int).SetString("79BE667EF9DCBBAC55A06295CE870B07029BFCDB2DCE28D959F2815B16F81798", 16)
	Gy, _ = new(big.Int).SetString("483ADA7726A3C4655DA4FBFC0E1108A8FD17B448A68554199C47D08FFB10D4B8", 16)
)

// Point is an affine secp256k1 point; Inf marks the point at infinity.
type Point struct {
	X, Y *big.Int
	Inf  bool
}

func ecAdd(a, b Point) Point {
	if a.Inf {
		return b
	}
	if b.Inf {
		return a
	}
	var lam *big.Int
	if a.X.Cmp(b.X) == 0 {
		if a.Y.Cmp(b.Y) != 0 || a.Y.Sign() == 0 {
			return Point{Inf: true}
		}
		// doubling: lam = 3x^2 / 2y
		num := new(big.Int).Mul(a.X, a.X)
		num.Mul(num, big.NewInt(3))
		den := new(big.Int).Lsh(a.Y, 1)
		den.ModInverse(den, P)
		lam = num.Mul(num, den)
	} else {
		num := new(big.Int).Sub(b.Y, a.Y)
		den := new(big.Int).Sub(b.X, a.X)
		den.Mod(den, P)
		den.ModInverse(den, P)
		lam = num.Mul(num, den)
	}
	lam.Mod(lam, P)
	x := new(big.Int).Mul(lam, lam)
	x.Sub(x, a.X)
	x.Sub(x, b.X)
	x.Mod(x, P)
	y := new(big.Int).Sub(a.X, x)
	y.Mul(y, lam)
	y.Sub(y, a.Y)
	y.Mod(y, P)
	return Point{X: x, Y: y}
}

var (
	gPowOnce sync.Once
	gPow     [256]Point // 2^i * G
)

// ScalarBase computes k*G as a sum of precomputed 2^i*G (k < 2^256).
func ScalarBase(k *big.Int) Point {
	gPowOnce.Do(func() {
		p := Point{X: Gx, Y: Gy}
		for i := 0; i < 256; i++ {
			gPow[i] = p
			p = ecAdd(p, p)
		}
	})
	r := Point{Inf: true}
	for i := 0; i < k.BitLen() && i < 256; i++ {
		if k.Bit(i) == 1 {
			r = ecAdd(r, gPow[i])
		}
	}
	return r
}

// SerP is the 33-byte compressed encoding.
func SerP(p Point) []byte {
	out := make([]byte, 33)
	out[0] = 2 + byte(p.Y.Bit(0))
	p.X.FillBytes(out[1:])
	return out
}

// ParseP decodes a compressed point.
func ParseP(b []byte) (Point, error) {
	if len(b) != 33 || (b[0] != 2 && b[0] != 3) {
		return Point{}, errors.New("bad compressed point")
	}
	x := new(big.Int).SetBytes(b[1:])
	if x.Cmp(P) >= 0 {
		return Point{}, errors.New("x out of range")
	}
	y2 := new(big.Int).Mul(x, x)
	y2.Mul(y2, x)
	y2.Add(y2, big.NewInt(7))
	y2.Mod(y2, P)
	// p % 4 == 3 → sqrt = y2^((p+1)/4)
	e := new(big.Int).Add(P, big.NewInt(1))
	e.Rsh(e, 2)
	y := new(big.Int).Exp(y2, e, P)
	chk := new(big.Int).Mul(y, y)
	chk.Mod(chk, P)
	if chk.Cmp(y2) != 0 {
		return Point{}, errors.New("not on curve")
	}
	if y.Bit(0) != uint(b[0]&1) {
		y.Sub(P, y)
	}
	return Point{X: x, Y: y}, nil
}

// XKey is a BIP32 extended key in canonical form: Key is 32 bytes (private) or 33 bytes (public).
type XKey struct {
	Private  bool
	Key      []byte
	Chain    []byte
	Depth    uint8
	ParentFP [4]byte
	ChildNum uint32
}

var ErrInvalidChild = errors.New("invalid child")

func hash160(b []byte) []byte {
	s := sha256.Sum256(b)
	r := ripemd160.New()
	r.Write(s[:])
	return r.Sum(nil)
}

// Pub returns the compressed public key of k.
func (k XKey) Pub() []byte {
	if !k.Private {
		return k.Key
	}
	return SerP(ScalarBase(new(big.Int).SetBytes(k.Key)))
}

// Master is BIP32 master key generation.
func Master(seed []byte) (XKey, error) {
	m := hmac.New(sha512.New, []byte("Bitcoin seed"))
	m.Write(seed)
	I := m.Sum(nil)
	k := new(big.Int).SetBytes(I[:32])
	if k.Sign() == 0 || k.Cmp(N) >= 0 {
		return XKey{}, ErrInvalidChild
	}
	return XKey{Private: true, Key: I[:32], Chain: I[32:]}, nil
}

// Child is CKDpriv / CKDpub of BIP32.
func (k XKey) Child(i uint32) (XKey, error) {
	hard := i >= 0x80000000
	if hard && !k.Private {
		return XKey{}, errors.New("hardened from public")
	}
	var data []byte
	if hard {
		data = append([]byte{0}, k.Key...) // ser256: exactly 32 bytes
	} else {
		data = append([]byte{}, k.Pub()...)
	}
	var ib [4]byte
	binary.BigEndian.PutUint32(ib[:], i)
	data = append(data, ib[:]...)
	m := hmac.New(sha512.New, k.Chain)
	m.Write(data)
	I := m.Sum(nil)
	il := new(big.Int).SetBytes(I[:32])
	if il.Cmp(N) >= 0 {
		return XKey{}, ErrInvalidChild
	}
	c := XKey{Private: k.Private, Chain: I[32:], Depth: k.Depth + 1, ChildNum: i}
	copy(c.ParentFP[:], hash160(k.Pub())[:4])
	if k.Private {
		s := new(big.Int).Add(il, new(big.Int).SetBytes(k.Key))
		s.Mod(s, N)
		if s.Sign() == 0 {
			return XKey{}, ErrInvalidChild
		}
		c.Key = make([]byte, 32)
		s.FillBytes(c.Key)
	} else {
		pp, err := ParseP(k.Key)
		if err != nil {
			return XKey{}, err
		}
		sum := ecAdd(ScalarBase(il), pp)
		if sum.Inf {
			return XKey{}, ErrInvalidChild
		}
		c.Key = SerP(sum)
	}
	return c, nil
}

// Neuter returns the public counterpart.
func (k XKey) Neuter() XKey {
	if !k.Private {
		return k
	}
	n := k
	n.Private = false
	n.Key = k.Pub()
	return n
}

// Equal compares all BIP32 fields.
func (k XKey) Equal(o XKey) bool {
	return k.Private == o.Private && bytes.Equal(k.Key, o.Key) && bytes.Equal(k.Chain, o.Chain) &&
		k.Depth == o.Depth && k.ParentFP == o.ParentFP && k.ChildNum == o.ChildNum
}

const b58 = "123456789ABCDEFGHJKLMNPQRSTUVWXYZabcdefghijkmnopqrstuvwxyz"

// B58Decode is plain base58 decoding.
func B58Decode(s string) ([]byte, error) {
	n := new(big.Int)
	for _, c := range []byte(s) {
		i := bytes.IndexByte([]byte(b58), c)
		if i < 0 {
			return nil, errors.New("bad base58 char")
		}
		n.Mul(n, big.NewInt(58))
		n.Add(n, big.NewInt(int64(i)))
	}
	out := n.Bytes()
	for _, c := range []byte(s) {
		if c != '1' {
			break
		}
		out = append([]byte{0}, out...)
	}
	return out, nil
}

// B58Encode is plain base58 encoding.
func B58Encode(b []byte) string {
	n := new(big.Int).SetBytes(b)
	var out []byte
	mod := new(big.Int)
	for n.Sign() > 0 {
		n.DivMod(n, big.NewInt(58), mod)
		out = append(out, b58[mod.Int64()])
	}
	for _, c := range b {
		if c != 0 {
			break
		}
		out = append(out, '1')
	}
	for i, j := 0, len(out)-1; i < j; i, j = i+1, j-1 {
		out[i], out[j] = out[j], out[i]
	}
	return string(out)
}

// ParseXKey decodes a base58check extended key string (any version bytes).
func ParseXKey(s string) (XKey, []byte, error) {
	d, err := B58Decode(s)
	if err != nil {
		return XKey{}, nil, err
	}
	if len(d) != 82 {
		return XKey{}, nil, errors.New("bad length")
	}
	h1 := sha256.Sum256(d[:78])
	h2 := sha256.Sum256(h1[:])
	if !bytes.Equal(h2[:4], d[78:]) {
		return XKey{}, nil, errors.New("bad checksum")
	}
	k := XKey{Depth: d[4], ChildNum: binary.BigEndian.Uint32(d[9:13]), Chain: d[13:45]}
	copy(k.ParentFP[:], d[5:9])
	if d[45] == 0 {
		k.Private = true
		k.Key = d[46:78]
	} else {
		k.Key = d[45:78]
	}
	return k, d[:4], nil
}
