package ref

import (
	"crypto/sha256"
	"errors"
	"strings"
)

// Mnemonic encodes entropy (16,20,24,28,32 bytes) per BIP39 using bit strings.
func Mnemonic(entropy []byte, words []string) (string, error) {
	n := len(entropy)
	if n < 16 || n > 32 || n%4 != 0 {
		return "", errors.New("bad entropy size")
	}
	bits := make([]byte, 0, n*8+n/4)
	for _, b := range entropy {
		for i := 7; i >= 0; i-- {
			bits = append(bits, (b>>uint(i))&1)
		}
	}
	h := sha256.Sum256(entropy)
	for i := 0; i < n/4; i++ {
		bits = append(bits, (h[i/8]>>uint(7-i%8))&1)
	}
	var out []string
	for i := 0; i < len(bits); i += 11 {
		v := 0
		for j := 0; j < 11; j++ {
			v = v<<1 | int(bits[i+j])
		}
		out = append(out, words[v])
	}
	return strings.Join(out, " "), nil
}

// Entropy decodes a mnemonic; returns error on unknown word, bad length or bad checksum.
func Entropy(mnemonic string, words []string) ([]byte, error) {
	idx := map[string]int{}
	for i, w := range words {
		idx[w] = i
	}
	ws := strings.Fields(mnemonic)
	if len(ws) < 12 || len(ws) > 24 || len(ws)%3 != 0 {
		return nil, errors.New("bad word count")
	}
	var bits []byte
	for _, w := range ws {
		v, ok := idx[w]
		if !ok {
			return nil, errors.New("unknown word")
		}
		for j := 10; j >= 0; j-- {
			bits = append(bits, byte(v>>uint(j))&1)
		}
	}
	cs := len(bits) / 33
	entBits := len(bits) - cs
	ent := make([]byte, entBits/8)
	for i := 0; i < entBits; i++ {
		ent[i/8] |= bits[i] << uint(7-i%8)
	}
	h := sha256.Sum256(ent)
	for i := 0; i < cs; i++ {
		if (h[i/8]>>uint(7-i%8))&1 != bits[entBits+i] {
			return nil, errors.New("bad checksum")
		}
	}
	return ent, nil
}
